(* Link/Transfer05 -- the C05 multi-scalar-multiplication theorems under a RELATIVISED premise.
   Same construction as Link/Transfer04.v, for the C05 dictionary [MsmModel.Gops] (zero, add,
   mixed add, mixed sub, double) and premise [gops_hom]:  [gops_hom_on] asks the five
   operations to be homomorphic, and to preserve validity, on valid representatives only.
   The C05 theorems are then obtained for such a dictionary from their instance at the
   subset-type group's own dictionary, through the Paramcoq-generated (kernel-checked)
   parametricity terms of the model functions. *)
From Param Require Import Param.
From V Require Import Base.Word C05.MsmModel C05.StreamModel C05.GroupProofs C05.MsmProofs
  Base.ZpTransfer Link.SubGroup.
From V Require Props.C05.
Require Import Lia.

(* ---- Paramcoq: the Z-only helpers are related to themselves ---- *)
Lemma Z_Z_RR (f : Z -> Z) : forall a1 a2, Z_R a1 a2 -> Z_R (f a1) (f a2).
Proof. intros a1 a2 H. apply Z_R_eq in H. subst. apply Z_R_refl. Qed.
Lemma Z_Z_Z_RR (f : Z -> Z -> Z) : forall a1 a2, Z_R a1 a2 -> forall b1 b2, Z_R b1 b2 -> Z_R (f a1 b1) (f a2 b2).
Proof. intros a1 a2 H b1 b2 H'. apply Z_R_eq in H, H'. subst. apply Z_R_refl. Qed.
Lemma lZ_Z_RR (f : list Z -> Z) : forall a1 a2, list_R Z Z Z_R a1 a2 -> Z_R (f a1) (f a2).
Proof. intros a1 a2 H. apply listZ_R_eq in H. subst. apply Z_R_refl. Qed.
Lemma lZ_Z_Z_lZ_RR (f : list Z -> Z -> Z -> list Z) : forall a1 a2, list_R Z Z Z_R a1 a2 ->
  forall b1 b2, Z_R b1 b2 -> forall c1 c2, Z_R c1 c2 -> list_R Z Z Z_R (f a1 b1 c1) (f a2 b2 c2).
Proof. intros a1 a2 H b1 b2 H' c1 c2 H''. apply listZ_R_eq in H. apply Z_R_eq in H', H''. subst. apply listZ_R_refl. Qed.
Lemma lZ_Z_Z_b_RR (f : list Z -> Z -> Z -> bool) : forall a1 a2, list_R Z Z Z_R a1 a2 ->
  forall b1 b2, Z_R b1 b2 -> forall c1 c2, Z_R c1 c2 -> bool_R (f a1 b1 c1) (f a2 b2 c2).
Proof. intros a1 a2 H b1 b2 H' c1 c2 H''. apply listZ_R_eq in H. apply Z_R_eq in H', H''. subst. apply bool_R_refl. Qed.
Lemma n_Z_lZ_RR (f : nat -> Z -> list Z) : forall a1 a2, nat_R a1 a2 -> forall b1 b2, Z_R b1 b2 ->
  list_R Z Z Z_R (f a1 b1) (f a2 b2).
Proof. intros a1 a2 H b1 b2 H'. apply nat_R_eq in H. apply Z_R_eq in H'. subst. apply listZ_R_refl. Qed.
Realizer window_size as window_size_R := (Z_Z_RR window_size).
Realizer div_ceil as div_ceil_R := (Z_Z_Z_RR div_ceil).
Realizer val as val_R := (lZ_Z_RR val).
Realizer make_digits_list as make_digits_list_R := (lZ_Z_Z_lZ_RR make_digits_list).
Realizer digits_oob as digits_oob_R := (lZ_Z_Z_b_RR digits_oob).
Realizer to_limbs as to_limbs_R := (n_Z_lZ_RR to_limbs).
Realizer Z.shiftr as Z_shiftr_R := (Z_Z_Z_RR Z.shiftr).
Realizer Z.modulo as Z_modulo_R := (Z_Z_Z_RR Z.modulo).
Realizer Z.pow as Z_pow_R := (Z_Z_Z_RR Z.pow).

Parametricity Recursive msm_bigint qualified.
Parametricity Recursive msm_unchecked qualified.
Parametricity Recursive msm_checked qualified.
Parametricity Recursive msm_chunks qualified.
Parametricity Recursive cp_run qualified.

Notation Gops05_R := V_o_C05_o_MsmModel_o_Gops_R.
Notation outcome05_R := V_o_C05_o_MsmModel_o_outcome_R.

Lemma Gops05_R_intro G1 G2 (GR : G1 -> G2 -> Type) B1 B2 (BR : B1 -> B2 -> Type) (O1 : Gops G1 B1) (O2 : Gops G2 B2) :
  GR (gzero O1) (gzero O2) ->
  (forall x X, GR x X -> forall y Y, GR y Y -> GR (gadd O1 x y) (gadd O2 X Y)) ->
  (forall x X, GR x X -> forall y Y, BR y Y -> GR (gmadd O1 x y) (gmadd O2 X Y)) ->
  (forall x X, GR x X -> forall y Y, BR y Y -> GR (gmsub O1 x y) (gmsub O2 X Y)) ->
  (forall x X, GR x X -> GR (gdbl O1 x) (gdbl O2 X)) ->
  Gops05_R G1 G2 GR B1 B2 BR O1 O2.
Proof. destruct O1, O2; cbn; intros; constructor; assumption. Qed.

Lemma llZ_R_refl : forall l : list (list Z), list_R (list Z) (list Z) (list_R Z Z Z_R) l l.
Proof. induction l; constructor; [apply listZ_R_refl | assumption]. Qed.

Section On.
  Context {A : Type} (okA : A -> bool) (add : A -> A -> A) (neg : A -> A) (zero : A).
  Context {G B : Type} (GO : Gops G B) (okG : G -> Prop) (okB : B -> Prop) (den : G -> A) (denB : B -> A).

  (* the five operations are homomorphic on valid representatives, and keep them valid *)
  Record gops_hom_on : Prop := mkGopsHomOn {
    ho_den : forall x, okG x -> okA (den x) = true;
    ho_denB : forall b, okB b -> okA (denB b) = true;
    ho_zero : okG (gzero GO) /\ den (gzero GO) = zero;
    ho_add : forall x y, okG x -> okG y -> okG (gadd GO x y) /\ den (gadd GO x y) = add (den x) (den y);
    ho_madd : forall x b, okG x -> okB b -> okG (gmadd GO x b) /\ den (gmadd GO x b) = add (den x) (denB b);
    ho_msub : forall x b, okG x -> okB b ->
              okG (gmsub GO x b) /\ den (gmsub GO x b) = add (den x) (neg (denB b));
    ho_dbl : forall x, okG x -> okG (gdbl GO x) /\ den (gdbl GO x) = add (den x) (den x)
  }.

  Hypothesis GA : abelian_group_on okA add neg zero.
  Hypothesis HO : gops_hom_on.

  Local Notation S := (sub okA).
  Local Notation sadd := (sub_add okA add neg zero GA).
  Local Notation sneg := (sub_neg okA add neg zero GA).
  Local Notation szero := (sub_zero okA add neg zero GA).

  Definition SubOps : Gops S S :=
    mkGops S S szero sadd sadd (fun x b => sadd x (sneg b)) (fun x => sadd x x).
  Lemma SubOps_hom : gops_hom SubOps sadd sneg szero (fun x => x) (fun x => x).
  Proof. constructor; intros; reflexivity. Qed.
  Let SG : group_laws sadd sneg szero := sub_group_laws okA add neg zero GA.

  Definition GR (x : G) (X : S) : Prop := okG x /\ den x = sval okA X.
  Definition BR (b : B) (X : S) : Prop := okB b /\ denB b = sval okA X.

  Lemma Ops_R : Gops05_R G S GR B S BR GO SubOps.
  Proof.
    destruct HO as [Hd HdB H0 Ha Hm Hs Hdb].
    apply Gops05_R_intro; unfold GR, BR; cbn [SubOps gzero gadd gmadd gmsub gdbl];
      repeat progress (unfold sval; cbn [sub_add sub_neg sub_zero proj1_sig]).
    - exact H0.
    - intros x X [Hx Ex] y Y [Hy Ey]. destruct (Ha x y Hx Hy) as [K1 K2]. split; [exact K1 | congruence].
    - intros x X [Hx Ex] y Y [Hy Ey]. destruct (Hm x y Hx Hy) as [K1 K2]. split; [exact K1 | congruence].
    - intros x X [Hx Ex] y Y [Hy Ey]. destruct (Hs x y Hx Hy) as [K1 K2]. split; [exact K1 | congruence].
    - intros x X [Hx Ex]. destruct (Hdb x Hx) as [K1 K2]. split; [exact K1 | congruence].
  Qed.

  Lemma BR_lift b : okB b -> { X : S | BR b X }.
  Proof. intros H. exists (exist _ (denB b) (ho_denB HO b H)). split; [exact H | reflexivity]. Qed.
  Lemma listB_lift l : Forall okB l -> { L : list S & list_R B S BR l L }.
  Proof.
    induction l as [|x l IH]; intros Hf.
    - exists nil. constructor.
    - destruct (BR_lift x (Forall_inv Hf)) as [X HX]. destruct (IH (Forall_inv_tail Hf)) as [L HL].
      exists (X :: L). constructor; assumption.
  Qed.
  Lemma list_R_length {X Y} (RXY : X -> Y -> Type) l L : list_R X Y RXY l L -> length l = length L.
  Proof. induction 1; cbn; congruence. Qed.

  Lemma outcome_Ok_inv (o : outcome G) (res : S) : outcome05_R G S GR o (Ok res) -> exists r, o = Ok r /\ GR r res.
  Proof. intros H. inversion H as [a1 a2 Ha E1 E2| |]. subst. exists a1. split; [reflexivity | exact Ha]. Qed.
  Lemma outcome_Err_inv (o : outcome G) e : outcome05_R G S GR o (Err e) -> o = Err e.
  Proof. intros H. inversion H as [|e1 e2 He E1 E2|]. subst. apply Z_R_eq in He. subst. reflexivity. Qed.

  Local Notation smulA := (smul add neg zero).
  Local Notation smulS := (smul sadd sneg szero).

  (* the specification sums agree: scalars zipped with related bases *)
  Lemma sum_rel {K} (f : K -> Z) bs L : list_R B S BR bs L -> forall ss : list K,
    sval okA (msum sadd szero (map (fun p => smulS (f (fst p)) (snd p)) (combine ss L)))
    = msum add zero (map (fun p => smulA (f (fst p)) (denB (snd p))) (combine ss bs)).
  Proof.
    intros HL ss. rewrite sub_msum05, map_map. f_equal.
    revert ss. induction HL as [|b X [_ E] bs L _ IH]; intros [|s ss]; cbn [combine map]; try reflexivity.
    rewrite IH, sub_smul05. cbn [fst snd]. rewrite E. reflexivity.
  Qed.

  (* ---------- msm_bigint (both bucket methods) ---------- *)
  Theorem msm_bigint_on cheap nb bases scalars :
    1 <= nb -> Z.min (len bases) (len scalars) < 2 ^ 64 -> Forall okB bases ->
    Forall (fun s => wf s /\ nb <= 64 * len s /\ val s < 2 ^ nb) scalars ->
    exists g, msm_bigint GO cheap nb bases scalars = Ok g /\ okG g /\
              den g = msum add zero (map (fun p => smulA (val (fst p)) (denB (snd p))) (combine scalars bases)).
  Proof.
    intros Hnb Hlen HB HS. destruct (listB_lift bases HB) as [L HL].
    pose proof (V_o_C05_o_MsmModel_o_msm_bigint_R _ _ GR _ _ BR _ _ Ops_R _ _ (bool_R_refl cheap) _ _ (Z_R_refl nb)
                  _ _ HL _ _ (llZ_R_refl scalars)) as HR.
    assert (HlenL : len L = len bases) by (unfold len; rewrite (list_R_length _ _ _ HL); reflexivity).
    destruct (V.Props.C05.C05_msm_bigint_spec _ _ _ SubOps sadd sneg szero _ _ SG SubOps_hom cheap nb L scalars Hnb
                ltac:(rewrite HlenL; exact Hlen) HS) as (g & E & Hg).
    rewrite E in HR. destruct (outcome_Ok_inv _ _ HR) as (r & Er & Hr1 & Hr2).
    exists r. split; [exact Er|]. split; [exact Hr1|]. rewrite Hr2, Hg. apply (sum_rel val). exact HL.
  Qed.

  (* ---------- msm_unchecked / msm (scalars = canonical residues) ---------- *)
  Theorem msm_unchecked_on cheap nb N bases ks :
    1 <= nb <= 64 * Z.of_nat N -> Z.min (len bases) (len ks) < 2 ^ 64 -> Forall okB bases ->
    Forall (fun k => 0 <= k < 2 ^ nb) ks ->
    exists g, msm_unchecked GO cheap nb N bases ks = Ok g /\ okG g /\
              den g = msum add zero (map (fun p => smulA (fst p) (denB (snd p)))
                        (combine (firstn (length bases) ks) (firstn (length ks) bases))).
  Proof.
    intros Hnb Hlen HB HS. destruct (listB_lift bases HB) as [L HL].
    pose proof (V_o_C05_o_MsmModel_o_msm_unchecked_R _ _ GR _ _ BR _ _ Ops_R _ _ (bool_R_refl cheap) _ _ (Z_R_refl nb)
                  _ _ (nat_R_refl N) _ _ HL _ _ (listZ_R_refl ks)) as HR.
    assert (HlenL : length L = length bases) by (rewrite (list_R_length _ _ _ HL); reflexivity).
    destruct (V.Props.C05.C05_msm_unchecked_truncates _ _ _ SubOps sadd sneg szero _ _ SG SubOps_hom cheap nb N L ks Hnb
                ltac:(unfold len; rewrite HlenL; exact Hlen) HS) as (g & E & Hg).
    rewrite E in HR. destruct (outcome_Ok_inv _ _ HR) as (r & Er & Hr1 & Hr2).
    exists r. split; [exact Er|]. split; [exact Hr1|]. rewrite Hr2, Hg, HlenL.
    apply (sum_rel (fun k => k)).
    clear -HL. revert ks. induction HL as [|b X HbX bs L' HL IH]; intros ks.
    - cbn. rewrite !firstn_nil. constructor.
    - destruct ks as [|k ks]; cbn [length firstn]; constructor; [exact HbX | apply IH].
  Qed.

  Theorem msm_checked_on cheap nb N bases ks :
    1 <= nb <= 64 * Z.of_nat N -> len bases < 2 ^ 64 -> Forall okB bases -> Forall (fun k => 0 <= k < 2 ^ nb) ks ->
    (length bases = length ks ->
       exists g, msm_checked GO cheap nb N bases ks = Ok g /\ okG g /\
                 den g = msum add zero (map (fun p => smulA (fst p) (denB (snd p))) (combine ks bases))) /\
    (length bases <> length ks -> msm_checked GO cheap nb N bases ks = Err (Z.min (len bases) (len ks))).
  Proof.
    intros Hnb Hlen HB HS. destruct (listB_lift bases HB) as [L HL].
    pose proof (V_o_C05_o_MsmModel_o_msm_checked_R _ _ GR _ _ BR _ _ Ops_R _ _ (bool_R_refl cheap) _ _ (Z_R_refl nb)
                  _ _ (nat_R_refl N) _ _ HL _ _ (listZ_R_refl ks)) as HR.
    assert (HlenL : length L = length bases) by (rewrite (list_R_length _ _ _ HL); reflexivity).
    destruct (V.Props.C05.C05_msm_checked_spec _ _ _ SubOps sadd sneg szero _ _ SG SubOps_hom cheap nb N L ks Hnb
                ltac:(unfold len; rewrite HlenL; exact Hlen) HS) as [Hok Herr].
    split; intros Hl.
    - destruct (Hok ltac:(congruence)) as (g & E & Hg).
      rewrite E in HR. destruct (outcome_Ok_inv _ _ HR) as (r & Er & Hr1 & Hr2).
      exists r. split; [exact Er|]. split; [exact Hr1|]. rewrite Hr2, Hg. apply (sum_rel (fun k => k)). exact HL.
    - rewrite (Herr ltac:(congruence)) in HR. apply outcome_Err_inv in HR. rewrite HR. unfold len. rewrite HlenL. reflexivity.
  Qed.

  (* ---------- msm_chunks, every chunk size ---------- *)
  Theorem msm_chunks_on cheap nb N step bases ks :
    1 <= nb <= 64 * Z.of_nat N -> 0 < step -> len bases < 2 ^ 64 -> Forall okB bases ->
    Forall (fun k => 0 <= k < 2 ^ nb) ks -> (length ks <= length bases)%nat ->
    exists g, msm_chunks GO cheap nb N step bases ks = Ok g /\ okG g /\
              den g = msum add zero (map (fun p => smulA (fst p) (denB (snd p)))
                        (combine ks (skipn (length bases - length ks) bases))).
  Proof.
    intros Hnb Hstep Hlen HB HS Hle. destruct (listB_lift bases HB) as [L HL].
    pose proof (V_o_C05_o_MsmModel_o_msm_chunks_R _ _ GR _ _ BR _ _ Ops_R _ _ (bool_R_refl cheap) _ _ (Z_R_refl nb)
                  _ _ (nat_R_refl N) _ _ (Z_R_refl step) _ _ HL _ _ (listZ_R_refl ks)) as HR.
    assert (HlenL : length L = length bases) by (rewrite (list_R_length _ _ _ HL); reflexivity).
    destruct (V.Props.C05.C05_msm_chunks_spec _ _ _ SubOps sadd sneg szero _ _ SG SubOps_hom cheap nb N step L ks Hnb Hstep
                ltac:(unfold len; rewrite HlenL; exact Hlen) HS ltac:(rewrite HlenL; exact Hle)) as (g & E & Hg).
    rewrite E in HR. destruct (outcome_Ok_inv _ _ HR) as (r & Er & Hr1 & Hr2).
    exists r. split; [exact Er|]. split; [exact Hr1|]. rewrite Hr2, Hg, HlenL.
    apply (sum_rel (fun k => k)).
    clear -HL. generalize (length bases - length ks)%nat as n. intros n. revert n.
    induction HL as [|b X HbX bs L' HL IH]; intros [|n]; cbn [skipn]; try constructor; try assumption. apply IH.
  Qed.

  (* ---------- ChunkedPippenger over the modelled msm_bigint ---------- *)
  Theorem chunked_msm_on cheap nb size ops :
    1 <= nb -> len ops < 2 ^ 64 -> Forall (fun p => okB (fst p)) ops ->
    Forall (fun p => wf (snd p) /\ nb <= 64 * len (snd p) /\ val (snd p) < 2 ^ nb) ops ->
    exists g, cp_run GO (msm_bigint GO cheap nb) size ops = Ok g /\ okG g /\
              den g = msum add zero (map (fun p => smulA (val (snd p)) (denB (fst p))) ops).
  Proof.
    intros Hnb Hlen HB HS.
    assert (Hlift : { OPS : list (S * list Z) &
              list_R (B * list Z) (S * list Z) (prod_R B S BR (list Z) (list Z) (list_R Z Z Z_R)) ops OPS }).
    { clear -HB HO. induction ops as [|[b s] l IH].
      - exists nil. constructor.
      - destruct (BR_lift b (Forall_inv HB)) as [X HX]. destruct (IH (Forall_inv_tail HB)) as [L HL].
        exists ((X, s) :: L). constructor; [constructor; [exact HX | apply listZ_R_refl] | exact HL]. }
    destruct Hlift as [OPS HOPS].
    pose proof (V_o_C05_o_StreamModel_o_cp_run_R _ _ GR _ _ BR _ _ Ops_R
                  (msm_bigint GO cheap nb) (msm_bigint SubOps cheap nb)
                  (fun b1 b2 Hb s1 s2 Hs => V_o_C05_o_MsmModel_o_msm_bigint_R _ _ GR _ _ BR _ _ Ops_R _ _ (bool_R_refl cheap)
                                              _ _ (Z_R_refl nb) b1 b2 Hb s1 s2 Hs)
                  _ _ (Z_R_refl size) _ _ HOPS) as HR.
    assert (HlenO : len OPS = len ops) by (unfold len; rewrite (list_R_length _ _ _ HOPS); reflexivity).
    assert (HS' : Forall (fun p => wf (snd p) /\ nb <= 64 * len (snd p) /\ val (snd p) < 2 ^ nb) OPS).
    { clear -HOPS HS. induction HOPS as [|p P HpP l L HL IH]; [constructor|].
      constructor; [|apply IH; exact (Forall_inv_tail HS)].
      destruct HpP as [b X _ s s' Hs]. apply listZ_R_eq in Hs. subst s'. exact (Forall_inv HS). }
    destruct (V.Props.C05.C05_chunked_msm_refines_sum _ _ _ SubOps sadd sneg szero _ _ SG SubOps_hom cheap nb size OPS Hnb
                ltac:(rewrite HlenO; exact Hlen) HS') as (g & E & Hg).
    rewrite E in HR. destruct (outcome_Ok_inv _ _ HR) as (r & Er & Hr1 & Hr2).
    exists r. split; [exact Er|]. split; [exact Hr1|]. rewrite Hr2, Hg, sub_msum05, map_map. f_equal.
    clear -HOPS. induction HOPS as [|p P HpP l L HL IH]; [reflexivity|]. cbn [map]. rewrite IH. f_equal.
    destruct HpP as [b X [_ E] s s' Hs]. apply listZ_R_eq in Hs. subst s'. cbn [fst snd]. rewrite sub_smul05, E. reflexivity.
  Qed.
End On.
