(* NumTh/Binom -- binomial theorem over a ring dictionary and the freshman identity.
   For every [F : Fops T] whose operations satisfy [ring_theory] over Leibniz equality:
     binomial :  (u + v)^n = sum_{k <= n} C(n,k) . u^k v^(n-k)
   (powers: [npow] of C02/CycProofs = iterated product; C(n,k) . x : [nmul] = iterated sum;
   C(n,k) : [binom], Pascal's recurrence on nat -- never evaluated on big arguments).
   For a prime p: p | C(p,k) for 0 < k < p ([prime_div_binom], from the absorption identity
   (k+1) C(n+1,k+1) = (n+1) C(n,k) and Gauss' lemma), hence in a ring in which
   p . 1 = 0 the freshman identity (u + v)^p = u^p + v^p ([freshman]) and, iterating,
   (u + v)^(p^k) = u^(p^k) + v^(p^k) ([freshman_iter]).
   The characteristic hypothesis is offered in two equivalent shapes: [nmul q 1 = 0]
   (iterated sum of 1, q = Z.to_nat p) and [fofZ F p = f0 F] (the project's double-and-add
   injection of Base/Field.v), related by [fofZ_nmul]. *)
From V Require Import Base.Field C02.CycProofs.
Require Import ZArith Znumtheory Lia Ring Ring_theory.

(* ------------------------------------------------------------------ *)
(* binomial coefficients                                               *)
(* ------------------------------------------------------------------ *)
Fixpoint binom (n k : nat) : nat :=
  match n, k with
  | _, O => 1
  | O, S _ => 0
  | S n', S k' => binom n' k' + binom n' (S k')
  end%nat.

Lemma binom_0_r n : binom n 0 = 1%nat.
Proof. destruct n; reflexivity. Qed.
Lemma binom_S n k : binom (S n) (S k) = (binom n k + binom n (S k))%nat.
Proof. reflexivity. Qed.
Lemma binom_gt n : forall k, (n < k)%nat -> binom n k = 0%nat.
Proof.
  induction n as [|n IH]; intros [|k] H; try lia; [reflexivity|].
  rewrite binom_S, !IH by lia. reflexivity.
Qed.
Lemma binom_diag n : binom n n = 1%nat.
Proof. induction n as [|n IH]; [reflexivity|]. rewrite binom_S, IH, binom_gt by lia. reflexivity. Qed.

(* absorption: (k+1) C(n+1,k+1) = (n+1) C(n,k) *)
Lemma binom_absorb n : forall k, (S k * binom (S n) (S k) = S n * binom n k)%nat.
Proof.
  induction n as [|n IH]; intros k.
  - destruct k as [|k]; [reflexivity|]. rewrite binom_S, !binom_gt by lia. lia.
  - rewrite (binom_S (S n) k). destruct k as [|j].
    + pose proof (IH 0%nat) as H0. rewrite !binom_0_r in *. lia.
    + pose proof (IH j) as H1. pose proof (IH (S j)) as H2.
      rewrite (binom_S n j) in *.
      set (A := binom n j) in *. set (D := binom n (S j)) in *.
      set (A' := binom (S n) (S (S j))) in *. nia.
Qed.

Lemma prime_div_binom p k : prime p -> 0 < Z.of_nat k < p ->
  exists m, binom (Z.to_nat p) k = (m * Z.to_nat p)%nat.
Proof.
  intros Hp Hk. destruct k as [|k]; [lia|].
  assert (Hp1 : 1 < p) by (destruct Hp; assumption).
  destruct (Z.to_nat p) as [|n] eqn:En; [lia|].
  assert (Hn : Z.of_nat (S n) = p) by lia.
  pose proof (binom_absorb n k) as Ha. apply (f_equal Z.of_nat) in Ha.
  rewrite !Nat2Z.inj_mul, Hn in Ha.
  assert (Hd : (p | Z.of_nat (binom (S n) (S k)))).
  { apply Gauss with (b := Z.of_nat (S k)).
    - rewrite Ha. apply Z.divide_factor_l.
    - apply rel_prime_sym. apply rel_prime_le_prime; [exact Hp | lia]. }
  destruct Hd as [m Hm]. exists (Z.to_nat m).
  assert (0 <= m) by nia.
  apply Nat2Z.inj. rewrite Nat2Z.inj_mul, Hn, Z2Nat.id by lia. exact Hm.
Qed.

(* ------------------------------------------------------------------ *)
(* sums, multiples, binomial theorem                                   *)
(* ------------------------------------------------------------------ *)
Section Binomial.
  Context {T : Type} (F : Fops T).
  Hypothesis Rth : ring_theory (f0 F) (f1 F) (fadd F) (fmul F) (fsub F) (fneg F) eq.
  Add Ring FRingBinom : Rth.
  Local Notation zero := (f0 F). Local Notation one := (f1 F).
  Local Notation "a + b" := (fadd F a b). Local Notation "a * b" := (fmul F a b).
  Local Notation pw := (npow F).

  (* n . x = x + ... + x *)
  Fixpoint nmul (n : nat) (x : T) : T := match n with O => zero | S n' => x + nmul n' x end.
  (* sum_{k < m} f k *)
  Fixpoint sumf (f : nat -> T) (m : nat) : T := match m with O => zero | S m' => sumf f m' + f m' end.

  Lemma nmul_add a b x : nmul (a + b) x = nmul a x + nmul b x.
  Proof. induction a as [|a IH]; cbn [nmul Nat.add]; [ring | rewrite IH; ring]. Qed.
  Lemma nmul_mul_r n c x : c * nmul n x = nmul n (c * x).
  Proof. induction n as [|n IH]; cbn [nmul]; [ring | rewrite <- IH; ring]. Qed.
  Lemma nmul_mul_l n x y : nmul n x * y = nmul n (x * y).
  Proof. induction n as [|n IH]; cbn [nmul]; [ring | rewrite <- IH; ring]. Qed.
  Lemma nmul_one n x : nmul n x = nmul n one * x.
  Proof. rewrite nmul_mul_l. f_equal. ring. Qed.
  Lemma nmul_mul a b x : nmul (a * b) x = nmul a (nmul b x).
  Proof. induction a as [|a IH]; cbn [nmul Nat.mul]; [reflexivity | rewrite nmul_add, IH; reflexivity]. Qed.
  Lemma nmul_zero n : nmul n zero = zero.
  Proof. induction n as [|n IH]; cbn [nmul]; [reflexivity | rewrite IH; ring]. Qed.

  Lemma sumf_ext m : forall f g, (forall k, (k < m)%nat -> f k = g k) -> sumf f m = sumf g m.
  Proof.
    induction m as [|m IH]; intros f g H; cbn [sumf]; [reflexivity|].
    rewrite (IH f g) by (intros; apply H; lia). rewrite H by lia. reflexivity.
  Qed.
  Lemma sumf_add m f g : sumf (fun k => f k + g k) m = sumf f m + sumf g m.
  Proof. induction m as [|m IH]; cbn [sumf]; [ring | rewrite IH; ring]. Qed.
  Lemma sumf_mul_l m c f : c * sumf f m = sumf (fun k => c * f k) m.
  Proof. induction m as [|m IH]; cbn [sumf]; [ring | rewrite <- IH; ring]. Qed.
  Lemma sumf_shift m : forall f, sumf f (S m) = f 0%nat + sumf (fun k => f (S k)) m.
  Proof.
    induction m as [|m IH]; intros f; [cbn [sumf]; ring|].
    change (sumf f (S (S m))) with (sumf f (S m) + f (S m)). rewrite IH. cbn [sumf]. ring.
  Qed.
  Lemma sumf_zero m f : (forall k, (k < m)%nat -> f k = zero) -> sumf f m = zero.
  Proof.
    intros H. induction m as [|m IH]; cbn [sumf]; [reflexivity|].
    rewrite IH by (intros; apply H; lia). rewrite H by lia. ring.
  Qed.

  Lemma npow_S x n : pw x (S n) = x * pw x n.
  Proof. reflexivity. Qed.
  Lemma npow_one n : pw one n = one.
  Proof. induction n as [|n IH]; cbn [npow]; [reflexivity | rewrite IH; ring]. Qed.
  Lemma npow_zero n : (0 < n)%nat -> pw zero n = zero.
  Proof. destruct n; [lia|]. intros _. cbn [npow]. ring. Qed.
  Lemma npow_mul_base x y n : pw (x * y) n = pw x n * pw y n.
  Proof. induction n as [|n IH]; cbn [npow]; [ring | rewrite IH; ring]. Qed.
  Lemma npow_mul_exp x a b : pw x (a * b) = pw (pw x a) b.
  Proof.
    induction b as [|b IH].
    - rewrite Nat.mul_0_r. reflexivity.
    - rewrite Nat.mul_succ_r, Nat.add_comm, (npow_add F Rth), IH. reflexivity.
  Qed.

  Definition bterm (u v : T) (n k : nat) : T := nmul (binom n k) (pw u k * pw v (n - k)).

  Theorem binomial u v n : pw (u + v) n = sumf (bterm u v n) (S n).
  Proof.
    induction n as [|n IH].
    - cbn. ring.
    - rewrite npow_S, IH.
      replace ((u + v) * sumf (bterm u v n) (S n))
        with (u * sumf (bterm u v n) (S n) + v * sumf (bterm u v n) (S n)) by ring.
      rewrite (sumf_shift (S n)).
      rewrite (sumf_ext (S n) (fun k => bterm u v (S n) (S k))
                 (fun k => u * bterm u v n k + nmul (binom n (S k)) (pw u (S k) * pw v (n - k)))).
      2:{ intros k Hk. unfold bterm. rewrite binom_S, nmul_add, nmul_mul_r.
          replace (S n - S k)%nat with (n - k)%nat by lia. cbn [npow]. f_equal. f_equal. ring. }
      rewrite sumf_add, <- sumf_mul_l.
      (* remaining: v * sum = first term + sum of the C(n,k+1) part *)
      assert (Hv : v * sumf (bterm u v n) (S n) =
                   bterm u v (S n) 0 + sumf (fun k => nmul (binom n (S k)) (pw u (S k) * pw v (n - k))) (S n)).
      { rewrite sumf_mul_l, (sumf_shift n).
        change (sumf (fun k => nmul (binom n (S k)) (pw u (S k) * pw v (n - k))) (S n))
          with (sumf (fun k => nmul (binom n (S k)) (pw u (S k) * pw v (n - k))) n +
                nmul (binom n (S n)) (pw u (S n) * pw v (n - n))).
        rewrite (binom_gt n (S n)) by lia. cbn [nmul].
        rewrite (sumf_ext n (fun k => v * bterm u v n (S k))
                   (fun k => nmul (binom n (S k)) (pw u (S k) * pw v (n - k)))).
        2:{ intros k Hk. unfold bterm. rewrite nmul_mul_r. f_equal.
            replace (n - k)%nat with (S (n - S k)) by lia. cbn [npow]. ring. }
        unfold bterm. rewrite !binom_0_r. rewrite !Nat.sub_0_r. cbn [nmul npow]. ring. }
      rewrite Hv. ring.
  Qed.

  (* ---------------- characteristic p ---------------- *)
  Section CharP.
    Variable p : Z.
    Hypothesis Hp : prime p.
    Local Notation q := (Z.to_nat p).
    Hypothesis Hchar : nmul q one = zero.

    Lemma nmul_q x : nmul q x = zero.
    Proof. rewrite nmul_one, Hchar. ring. Qed.

    Theorem freshman u v : pw (u + v) q = pw u q + pw v q.
    Proof.
      assert (Hp1 : 1 < p) by (destruct Hp; assumption).
      rewrite binomial. rewrite sumf_shift.
      assert (En : exists n, q = S n) by (exists (Nat.pred q); lia).
      destruct En as [n En]. rewrite En.
      change (sumf (fun k => bterm u v (S n) (S k)) (S n))
        with (sumf (fun k => bterm u v (S n) (S k)) n + bterm u v (S n) (S n)).
      rewrite sumf_zero.
      - unfold bterm. rewrite binom_0_r, binom_diag, Nat.sub_0_r, Nat.sub_diag. cbn [nmul npow]. ring.
      - intros k Hk. unfold bterm.
        destruct (prime_div_binom p (S k) Hp) as [m Hm]; [lia|].
        rewrite En in Hm. rewrite Hm, nmul_mul, <- En, nmul_q. apply nmul_zero.
    Qed.

    Theorem freshman_iter k u v : pw (u + v) (q ^ k) = pw u (q ^ k) + pw v (q ^ k).
    Proof.
      induction k as [|k IH]; [cbn; ring|].
      rewrite Nat.pow_succ_r', Nat.mul_comm, !npow_mul_exp, IH. apply freshman.
    Qed.
  End CharP.

  (* ---------------- the project's injection Z -> T ---------------- *)
  Lemma fscale_pos_nmul n x : fscale_pos F n x = nmul (Pos.to_nat n) x.
  Proof.
    induction n as [n IH|n IH|]; cbn [fscale_pos].
    - rewrite IH, Pos2Nat.inj_xI. cbn [nmul].
      replace (2 * Pos.to_nat n)%nat with (Pos.to_nat n + Pos.to_nat n)%nat by lia.
      rewrite nmul_add. ring.
    - rewrite IH, Pos2Nat.inj_xO.
      replace (2 * Pos.to_nat n)%nat with (Pos.to_nat n + Pos.to_nat n)%nat by lia.
      rewrite nmul_add. reflexivity.
    - rewrite Pos2Nat.inj_1. cbn [nmul]. ring.
  Qed.
  Lemma fofZ_nmul z : 0 <= z -> fofZ F z = nmul (Z.to_nat z) one.
  Proof.
    destruct z as [|n|n]; intros H; [reflexivity | | lia].
    cbn [fofZ]. rewrite fscale_pos_nmul. reflexivity.
  Qed.

  Theorem freshman_fofZ p : prime p -> fofZ F p = zero ->
    forall k u v, pw (u + v) (Z.to_nat p ^ k) = pw u (Z.to_nat p ^ k) + pw v (Z.to_nat p ^ k).
  Proof.
    intros Hp Hc k u v. apply (freshman_iter p Hp).
    rewrite <- fofZ_nmul; [exact Hc|]. destruct Hp; lia.
  Qed.
End Binomial.
