(* NumTh/Euler -- Euler's criterion for the executed prime field, both directions.
   1. [roots_bound]: over a field, a polynomial (coefficient list, Horner evaluation [peval])
      that is not identically zero and has at most n coefficients has fewer than n distinct
      roots (synthetic division by X - r, induction on n).
   2. For prime p > 2, m = (p-1)/2: the m elements 1^2, ..., m^2 of [FpOps p] are pairwise
      distinct roots of X^m - 1 (Fermat), so there is no further root:
        x^((p-1)/2) = 1  <->  x <> 0 /\ exists r, r * r = x          ([euler_criterion_Fp])
      and every non-square nr has nr^((p-1)/2) = -1                  ([euler_nonresidue_Fp]);
      hence the Frobenius coefficient of Fp2 = Fp[X]/(X^2 - nr) is -1 and x^p is the
      conjugate ([fp2_pow_p_is_conjugate]).
   Restated for [ZpOps p] on canonical integers and for Z.pow / mod. *)
Require Import ZArith Znumtheory Lia List Ring Field Ring_theory Field_theory.
From V Require Import Base.Field Base.ZpField Base.ExtField C02.Quad C02.CycProofs C02.FrobProofs
  NumTh.Binom NumTh.Fermat NumTh.Frob.
Import ListNotations.

Lemma NoDup_map_inj_on {A B} (f : A -> B) (l : list A) :
  (forall x y, In x l -> In y l -> f x = f y -> x = y) -> NoDup l -> NoDup (map f l).
Proof.
  intros Hinj Hnd. induction Hnd as [|a l Hnin Hnd IH]; cbn [map]; constructor.
  - intros Hin. apply in_map_iff in Hin. destruct Hin as [b [Hb Hbl]].
    assert (b = a) by (apply Hinj; [right; exact Hbl | left; reflexivity | exact Hb]). subst b. contradiction.
  - apply IH. intros x y Hx Hy. apply Hinj; right; assumption.
Qed.

(* ------------------------------------------------------------------ *)
(* 1. root bound                                                       *)
(* ------------------------------------------------------------------ *)
Section Roots.
  Context {T : Type} (F : Fops T).
  Hypothesis Fth : field_theory (f0 F) (f1 F) (fadd F) (fmul F) (fsub F) (fneg F) (fdiv F) (finv F) eq.
  Add Field FFieldRoots : Fth.
  Let Rth := F_R Fth.
  Local Notation zero := (f0 F). Local Notation one := (f1 F).
  Local Notation "a + b" := (fadd F a b). Local Notation "a * b" := (fmul F a b).
  Local Notation "a - b" := (fsub F a b).

  Fixpoint peval (l : list T) (x : T) : T :=
    match l with [] => zero | c :: l' => c + x * peval l' x end.

  (* quotient of the division by X - r *)
  Fixpoint quot (l : list T) (r : T) : list T :=
    match l with
    | [] => []
    | c :: l' => match l' with [] => [] | _ :: _ => peval l' r :: quot l' r end
    end.

  Lemma quot_length l r : length (quot l r) = Nat.pred (length l).
  Proof.
    induction l as [|c l IH]; [reflexivity|].
    destruct l as [|d l]; [reflexivity|].
    change (quot (c :: d :: l) r) with (peval (d :: l) r :: quot (d :: l) r).
    cbn [length Nat.pred] in *. rewrite IH. reflexivity.
  Qed.

  Lemma quot_spec l r x : peval l x = peval l r + (x - r) * peval (quot l r) x.
  Proof.
    induction l as [|c l IH]; [cbn; ring|].
    destruct l as [|d l]; [cbn; ring|].
    change (quot (c :: d :: l) r) with (peval (d :: l) r :: quot (d :: l) r).
    set (l' := d :: l) in *. cbn [peval]. rewrite IH. ring.
  Qed.

  Lemma mul_cancel_nz a b : a <> zero -> a * b = zero -> b = zero.
  Proof.
    intros Ha H. transitivity (fdiv F (a * b) a); [field; exact Ha|]. rewrite H. field. exact Ha.
  Qed.
  Lemma sub_neq a b : a <> b -> a - b <> zero.
  Proof. intros H E. apply H. transitivity ((a - b) + b); [ring | rewrite E; ring]. Qed.

  Theorem roots_bound : forall n l roots, (length l <= n)%nat ->
    (exists x0, peval l x0 <> zero) -> NoDup roots -> (forall r, In r roots -> peval l r = zero) ->
    (length roots < n)%nat.
  Proof.
    induction n as [|n IH]; intros l roots Hl [x0 Hx0] Hnd Hr.
    - destruct l; [|cbn in Hl; lia]. exfalso. apply Hx0. reflexivity.
    - destruct roots as [|r rs]; [cbn; lia|].
      cbn [length]. apply -> Nat.succ_lt_mono.
      assert (Hr0 : peval l r = zero) by (apply Hr; left; reflexivity).
      assert (Hfac : forall x, peval l x = (x - r) * peval (quot l r) x).
      { intros x. rewrite (quot_spec l r x), Hr0. ring. }
      apply (IH (quot l r) rs).
      + rewrite quot_length. lia.
      + exists x0. intros E. apply Hx0. rewrite Hfac, E. ring.
      + inversion Hnd; assumption.
      + intros r' Hin. apply (mul_cancel_nz (r' - r)).
        * apply sub_neq. intros E. subst r'. inversion Hnd; contradiction.
        * rewrite <- Hfac. apply Hr. right. exact Hin.
  Qed.

  (* the polynomial X^m - 1 *)
  Definition xm1 (m : nat) : list T := fneg F one :: repeat zero (m - 1) ++ [one].
  Lemma peval_monomial k x : peval (repeat zero k ++ [one]) x = npow F x k.
  Proof. induction k as [|k IH]; cbn [repeat app peval npow]; [ring | rewrite IH; ring]. Qed.
  Lemma peval_xm1 m x : (1 <= m)%nat -> peval (xm1 m) x = npow F x m - one.
  Proof.
    intros Hm. unfold xm1. cbn [peval]. rewrite peval_monomial.
    replace m with (S (m - 1)) at 2 by lia. cbn [npow]. ring.
  Qed.
  Lemma xm1_length m : length (xm1 m) = S m \/ (m = 0)%nat.
  Proof.
    destruct m as [|m]; [right; reflexivity | left].
    unfold xm1. cbn [length]. rewrite app_length, repeat_length. cbn. lia.
  Qed.

  (* at most m distinct m-th roots of unity *)
  Theorem unity_roots_bound m roots : (1 <= m)%nat -> NoDup roots ->
    (forall r, In r roots -> npow F r m = one) -> (length roots <= m)%nat.
  Proof.
    intros Hm Hnd Hr.
    assert (H : (length roots < S m)%nat); [|lia].
    apply (roots_bound (S m) (xm1 m) roots).
    - destruct (xm1_length m) as [E|E]; lia.
    - exists zero. rewrite peval_xm1 by exact Hm. rewrite (npow_zero F Rth) by lia.
      intros E. apply (F_1_neq_0 Fth). transitivity (fneg F (zero - one)); [ring | rewrite E; ring].
    - exact Hnd.
    - intros r Hin. rewrite peval_xm1 by exact Hm. rewrite (Hr r Hin). ring.
  Qed.
End Roots.

(* ------------------------------------------------------------------ *)
(* 2. Euler's criterion in FpOps p                                     *)
(* ------------------------------------------------------------------ *)
Section EulerFp.
  Variable p : Z.
  Hypothesis Hp : prime p.
  Hypothesis H2 : 2 < p.
  Local Notation F := (FpOps p).
  Local Notation q := (Z.to_nat p).
  Let Fth := FpOps_field p Hp.
  Let Rth := FpOps_ring p.
  Add Field FpFieldEuler : Fth.
  Let m := Z.to_nat ((p - 1) / 2).

  Lemma p_odd_split : p = 2 * ((p - 1) / 2) + 1 /\ 0 < (p - 1) / 2.
  Proof.
    pose proof (prime_gt2_odd p Hp H2) as Ho.
    pose proof (Z.div_mod p 2 ltac:(lia)) as Hd. rewrite Ho in Hd.
    assert (E : (p - 1) / 2 = p / 2).
    { replace (p - 1) with (p / 2 * 2) by lia. apply Z.div_mul. lia. }
    rewrite E. lia.
  Qed.
  Lemma m_spec : (q - 1 = m + m)%nat /\ (1 <= m)%nat /\ Z.of_nat m = (p - 1) / 2.
  Proof. destruct p_odd_split as [H1 H3]. unfold m. repeat split; lia. Qed.

  Definition sq (x : Fp p) : Fp p := fmul F x x.
  Definition el (i : nat) : Fp p := fp_of p (Z.of_nat i).
  Definition squares : list (Fp p) := map (fun i => sq (el i)) (seq 1 m).

  Lemma el_neq0 i : (1 <= i <= m)%nat -> el i <> f0 F.
  Proof.
    destruct m_spec as [_ [_ Hm]]. destruct p_odd_split as [H1 H3].
    intros Hi E. apply (f_equal fpv) in E. cbn -[Z.modulo Z.of_nat] in E.
    rewrite Z.mod_small, Zmod_0_l in E by lia. lia.
  Qed.

  Lemma sq_pow x : npow F (sq x) m = npow F x (q - 1).
  Proof.
    destruct m_spec as [Hq _]. rewrite Hq, (npow_add F Rth). unfold sq.
    apply (npow_mul_base F Rth).
  Qed.

  Lemma squares_roots r : In r squares -> npow F r m = f1 F.
  Proof.
    unfold squares. intros Hin. apply in_map_iff in Hin. destruct Hin as [i [Hi Hin]].
    apply in_seq in Hin. subst r. rewrite sq_pow. apply fermat_little; [exact Hp|].
    apply el_neq0. lia.
  Qed.

  Lemma squares_nodup : NoDup squares.
  Proof.
    destruct m_spec as [_ [_ Hm]]. destruct p_odd_split as [H1 H3].
    unfold squares. apply NoDup_map_inj_on; [|apply seq_NoDup].
    intros i j Hi Hj E. apply in_seq in Hi. apply in_seq in Hj.
    apply (f_equal fpv) in E. unfold sq, el in E. cbn -[Z.modulo Z.of_nat] in E.
    rewrite <- !Zmult_mod in E.
    assert (Hd : (p | (Z.of_nat i - Z.of_nat j) * (Z.of_nat i + Z.of_nat j))).
    { apply Z.mod_divide; [lia|].
      replace ((Z.of_nat i - Z.of_nat j) * (Z.of_nat i + Z.of_nat j))
        with (Z.of_nat i * Z.of_nat i - Z.of_nat j * Z.of_nat j) by ring.
      rewrite Zminus_mod, E, Z.sub_diag. apply Zmod_0_l. }
    apply prime_mult in Hd; [|exact Hp]. destruct Hd as [Hd|Hd].
    - destruct (Z.eq_dec (Z.of_nat i - Z.of_nat j) 0) as [E0|N0]; [lia|].
      apply Zdivide_bounds in Hd; [|exact N0]. lia.
    - apply Zdivide_bounds in Hd; lia.
  Qed.

  Lemma squares_length : length squares = m.
  Proof. unfold squares. rewrite map_length, seq_length. reflexivity. Qed.

  Lemma Fp_eq_dec (x y : Fp p) : {x = y} + {x <> y}.
  Proof.
    destruct (feqb F x y) eqn:E.
    - left. apply FpOps_eqb. exact E.
    - right. intros H. apply FpOps_eqb in H. congruence.
  Qed.

  (* every root of X^m - 1 is one of the m squares *)
  Theorem euler_root_is_square x : npow F x m = f1 F -> In x squares.
  Proof.
    intros Hx. destruct (in_dec Fp_eq_dec x squares) as [Hin|Hnin]; [exact Hin|]. exfalso.
    destruct m_spec as [_ [Hm1 _]].
    pose proof (unity_roots_bound F Fth m (x :: squares) Hm1) as Hb.
    cbn [length] in Hb. rewrite squares_length in Hb.
    assert (S m <= m)%nat; [|lia]. apply Hb.
    - constructor; [exact Hnin | exact squares_nodup].
    - intros r [<-|Hin]; [exact Hx | apply squares_roots; exact Hin].
  Qed.

  Theorem euler_criterion_npow x :
    npow F x m = f1 F <-> (x <> f0 F /\ exists r, fmul F r r = x).
  Proof.
    destruct m_spec as [_ [Hm1 _]]. split.
    - intros Hx. split.
      + intros E. subst x. rewrite (npow_zero F Rth) in Hx by lia. exact (F_1_neq_0 Fth (eq_sym Hx)).
      + apply euler_root_is_square in Hx. unfold squares in Hx. apply in_map_iff in Hx.
        destruct Hx as [i [Hi _]]. exists (el i). exact Hi.
    - intros [Hx [r Hr]]. subst x. change (fmul F r r) with (sq r). rewrite sq_pow.
      apply fermat_little; [exact Hp|]. intros E. apply Hx. subst r. ring.
  Qed.

  Theorem euler_criterion_Fp x :
    fpow F x ((p - 1) / 2) = f1 F <-> (x <> f0 F /\ exists r, fmul F r r = x).
  Proof.
    destruct p_odd_split as [_ H3].
    rewrite (fpow_npow F Rth) by lia. apply euler_criterion_npow.
  Qed.

  (* x^((p-1)/2) is 0, 1 or -1; non-squares give -1 *)
  Lemma half_pow_sq x : x <> f0 F -> fmul F (npow F x m) (npow F x m) = f1 F.
  Proof.
    intros Hx. destruct m_spec as [Hq _]. rewrite <- (npow_add F Rth), <- Hq.
    apply fermat_little; assumption.
  Qed.
  Theorem euler_nonresidue_npow x : (forall w, fmul F w w <> x) -> npow F x m = fneg F (f1 F).
  Proof.
    intros Hns.
    assert (Hx : x <> f0 F) by (intros E; apply (Hns (f0 F)); rewrite E; ring).
    pose proof (half_pow_sq x Hx) as Hs. set (y := npow F x m) in *.
    destruct (Fp_eq_dec y (f1 F)) as [E1|N1].
    - exfalso. apply euler_criterion_npow in E1. destruct E1 as [_ [r Hr]]. exact (Hns r Hr).
    - assert (Hz : fmul F (fsub F y (f1 F)) (fadd F y (f1 F)) = f0 F).
      { transitivity (fsub F (fmul F y y) (f1 F)); [ring | rewrite Hs; ring]. }
      apply (mul_cancel_nz F Fth) in Hz; [|apply (sub_neq F Fth); exact N1].
      transitivity (fsub F (fadd F y (f1 F)) (f1 F)); [ring | rewrite Hz; ring].
  Qed.
  Theorem euler_nonresidue_Fp x : (forall w, fmul F w w <> x) ->
    fpow F x ((p - 1) / 2) = fneg F (f1 F).
  Proof.
    intros Hns. destruct p_odd_split as [_ H3].
    rewrite (fpow_npow F Rth) by lia. apply euler_nonresidue_npow. exact Hns.
  Qed.


  (* the closed facts checked per configuration imply the non-residue hypotheses used above *)
  Theorem nonsquare_of_symbol x : fpow F x ((p - 1) / 2) = fneg F (f1 F) -> forall w, fmul F w w <> x.
  Proof.
    intros H w E. destruct p_odd_split as [_ H3].
    assert (Hm1 : fneg F (f1 F) <> f1 F).
    { intros E1. apply (FpOps_two p H2). transitivity (fsub F (f1 F) (fneg F (f1 F))); [ring | rewrite E1; ring]. }
    destruct (Fp_eq_dec x (f0 F)) as [E0|N0].
    - subst x. rewrite E0 in H. rewrite (fpow_npow F Rth) in H by lia.
      rewrite (npow_zero F Rth) in H by lia.
      apply (F_1_neq_0 Fth). transitivity (fneg F (fneg F (f1 F))); [ring | rewrite <- H; ring].
    - apply Hm1. rewrite <- H. apply euler_criterion_Fp. split; [exact N0 | exists w; exact E].
  Qed.
  Theorem noncube_of_symbol x : p mod 3 = 1 -> x <> f0 F -> fpow F x ((p - 1) / 3) <> f1 F ->
    forall w, fmul F (fmul F w w) w <> x.
  Proof.
    intros H3 Hx H w E. apply H.
    assert (Hp1 : 1 < p) by lia.
    pose proof (Z.div_mod p 3 ltac:(lia)) as Hd. rewrite H3 in Hd.
    assert (Ht : (p - 1) / 3 = p / 3).
    { replace (p - 1) with (p / 3 * 3) by lia. apply Z.div_mul. lia. }
    assert (H0 : 0 <= p / 3) by (apply Z.div_pos; lia).
    assert (Hw : w <> f0 F) by (intros E0; apply Hx; rewrite <- E, E0; ring).
    rewrite Ht, (fpow_npow F Rth) by lia. rewrite <- E, !(npow_mul_base F Rth).
    rewrite <- !(npow_add F Rth).
    replace (Z.to_nat (p / 3) + Z.to_nat (p / 3) + Z.to_nat (p / 3))%nat with (q - 1)%nat by lia.
    apply fermat_little; assumption.
  Qed.

  (* consequence for Fp2 = Fp[X]/(X^2 - nr): the p-th power is the conjugation *)
  Theorem fp2_pow_p_is_conjugate nr : (forall w, fmul F w w <> nr) ->
    forall x, fpow (QuadOps F nr) x p = quad_conjugate F x.
  Proof.
    intros Hns [a b].
    pose proof (quad_frobenius_is_fpow F Rth nr p 1 (fun y => y)
                  (fun y => fmul F y (fpow F nr ((p ^ 1 - 1) / 2))) Hp H2 ltac:(lia)
                  (Fp_char_fofZ p Hp)) as H.
    rewrite Z.pow_1_r in H. rewrite <- H.
    - unfold quad_frobenius, quad_conjugate. cbn [fst snd]. f_equal.
      rewrite (euler_nonresidue_Fp nr Hns). ring.
    - intros y. symmetry. apply fermat_fpow_p. exact Hp.
    - reflexivity.
  Qed.

  (* x^(p+1) = x * conj x = the norm, an element of Fp *)
  Theorem fp2_pow_p1_is_norm nr : (forall w, fmul F w w <> nr) ->
    forall x, fpow (QuadOps F nr) x (p + 1) = (qnorm F nr x, f0 F).
  Proof.
    intros Hns x. pose proof (Eth F Rth nr) as EthQ.
    rewrite (fpow_npow (QuadOps F nr) EthQ) by lia.
    replace (Z.to_nat (p + 1)) with (S q) by lia. cbn [npow].
    rewrite <- (fpow_npow (QuadOps F nr) EthQ) by lia.
    rewrite (fp2_pow_p_is_conjugate nr Hns). destruct x as [a b].
    cbn [fmul QuadOps]. unfold qmul, quad_conjugate, qnorm; cbn [fst snd]. f_equal; ring.
  Qed.
End EulerFp.

(* ---- on the executed dictionary and in standard-library terms ---- *)
Theorem euler_criterion_Zp : forall p x, prime p -> 2 < p -> canon p x ->
  (fpow (ZpOps p) x ((p - 1) / 2) = 1 <-> (x <> 0 /\ exists r, canon p r /\ fmul (ZpOps p) r r = x)).
Proof.
  intros p x Hp H2 Hx.
  assert (Hv : fpv (fp_of p x) = x) by (apply fp_of_val; exact Hx).
  assert (H1 : fpv (f1 (FpOps p)) = 1) by (cbn -[Z.modulo]; apply Z.mod_1_l; lia).
  pose proof (euler_criterion_Fp p Hp H2 (fp_of p x)) as [Ha Hb]. split.
  - intros H. destruct Ha as [Hn [r Hr]].
    + apply fp_eq. rewrite fpv_fpow, Hv, H1. exact H.
    + split.
      * intros E. apply Hn. apply fp_eq. rewrite Hv, E. reflexivity.
      * exists (fpv r). split; [apply fpv_canon; lia|]. rewrite <- fpv_fmul, Hr. exact Hv.
  - intros [Hn [r [Hrc Hr]]].
    rewrite <- Hv, <- fpv_fpow, Hb; [exact H1|]. split.
    + intros E. apply (f_equal fpv) in E. rewrite Hv in E. cbn in E. exact (Hn E).
    + exists (fp_of p r). apply fp_eq. rewrite fpv_fmul, (fp_of_val p r Hrc), Hv. exact Hr.
Qed.

Theorem euler_criterion_Z : forall p x, prime p -> 2 < p ->
  (x ^ ((p - 1) / 2) mod p = 1 <-> (x mod p <> 0 /\ exists r, (r * r) mod p = x mod p)).
Proof.
  intros p x Hp H2. assert (Hp1 : 1 < p) by lia.
  destruct (p_odd_split p Hp H2) as [_ H3].
  assert (H1 : fpv (f1 (FpOps p)) = 1) by (cbn -[Z.modulo]; apply Z.mod_1_l; lia).
  pose proof (euler_criterion_npow p Hp H2 (fp_of p x)) as [Ha Hb].
  assert (Hpow : x ^ ((p - 1) / 2) mod p = fpv (npow (FpOps p) (fp_of p x) (Z.to_nat ((p - 1) / 2)))).
  { rewrite fpv_npow_Zpow by exact Hp1. rewrite Z2Nat.id by lia. reflexivity. }
  rewrite Hpow. split.
  - intros H. destruct Ha as [Hn [r Hr]].
    + apply fp_eq. rewrite H1. exact H.
    + split.
      * intros E. apply Hn. apply fp_eq. cbn -[Z.modulo]. rewrite E, Zmod_0_l. reflexivity.
      * exists (fpv r). apply (f_equal fpv) in Hr. exact Hr.
  - intros [Hn [r Hr]]. rewrite Hb; [exact H1|]. split.
    + intros E. apply (f_equal fpv) in E. cbn -[Z.modulo] in E. rewrite Zmod_0_l in E. exact (Hn E).
    + exists (fp_of p r). apply fp_eq. cbn -[Z.modulo]. rewrite <- Zmult_mod. exact Hr.
Qed.
