(* NumTh/Examples -- the hypotheses of the NumTh theorems are satisfiable: p = 13 (nr = 2, which is
   neither a square nor a cube mod 13), p = 7 for the Case3Mod4 statements.  The instantiated
   theorems are stated for all elements of the small fields (no enumeration of elements: the
   general theorems are applied, only their closed hypotheses are computed). *)
Require Import ZArith Znumtheory Lia List.
From V Require Import Base.Field Base.ZpField Base.ExtField Base.ZpInstances Base.ZpTransfer Base.ZpTransfer6
  C02.Quad C02.Cubic C02.CycProofs C02.Inst
  C02.InstProofs NumTh.Binom NumTh.Fermat NumTh.Frob NumTh.ExtFermat NumTh.Sqrt NumTh.Euler NumTh.FrobTable NumTh.Tower12 NumTh.FrobZp
  C11.SqrtModel C11.SqrtProofs C11.QuadProofs.
Import ListNotations.

Local Notation F13 := (FpOps 13).
Local Notation e13 := (fp_of 13).

Ltac fp_dec := apply fp_eq; vm_compute; reflexivity.
Ltac pair_dec := apply injective_projections; fp_dec.
Ltac triple_dec := apply injective_projections; [apply injective_projections|]; fp_dec.

Lemma Fp13_cases (w : Fp 13) :
  fpv w = 0 \/ fpv w = 1 \/ fpv w = 2 \/ fpv w = 3 \/ fpv w = 4 \/ fpv w = 5 \/ fpv w = 6 \/
  fpv w = 7 \/ fpv w = 8 \/ fpv w = 9 \/ fpv w = 10 \/ fpv w = 11 \/ fpv w = 12.
Proof. pose proof (fpv_canon 13 w ltac:(lia)) as H. unfold canon in H. lia. Qed.

Lemma ex13_two_nonsquare : forall w : Fp 13, fmul F13 w w <> e13 2.
Proof.
  intros w E. apply (f_equal fpv) in E. rewrite fpv_fmul in E.
  pose proof (Fp13_cases w) as Hc.
  repeat (destruct Hc as [Hc | Hc]; [rewrite Hc in E; vm_compute in E; discriminate E|]).
  rewrite Hc in E; vm_compute in E; discriminate E.
Qed.
Lemma ex13_two_noncube : forall w : Fp 13, fmul F13 (fmul F13 w w) w <> e13 2.
Proof.
  intros w E. apply (f_equal fpv) in E. rewrite !fpv_fmul in E.
  pose proof (Fp13_cases w) as Hc.
  repeat (destruct Hc as [Hc | Hc]; [rewrite Hc in E; vm_compute in E; discriminate E|]).
  rewrite Hc in E; vm_compute in E; discriminate E.
Qed.
Lemma ex13_two_not_is_sq : ~ is_sq (fmul F13) (e13 2).
Proof. intros [r Hr]. exact (ex13_two_nonsquare r Hr). Qed.

(* characteristic hypothesis of the freshman identity *)
Lemma ex13_char : nmul F13 (Z.to_nat 13) (f1 F13) = f0 F13.
Proof. exact (Fp_char 13 prime_13). Qed.
Lemma ex13_freshman : forall u v : Fp 13,
  npow F13 (fadd F13 u v) (Z.to_nat 13) = fadd F13 (npow F13 u (Z.to_nat 13)) (npow F13 v (Z.to_nat 13)).
Proof. exact (freshman F13 (FpOps_ring 13) 13 prime_13 ex13_char). Qed.

(* Fermat *)
Lemma ex13_fermat : forall x, 0 < x < 13 -> fpow (ZpOps 13) x 12 = 1.
Proof. intros x Hx. exact (fermat_Zp 13 x prime_13 Hx). Qed.
Lemma ex13_fermat_run : fpow (ZpOps 13) 2 12 = 1 /\ fpow (ZpOps 13) 7 13 = 7 /\ 5 ^ 12 mod 13 = 1.
Proof. vm_compute. repeat split; reflexivity. Qed.

(* Frobenius tables of F_13[X]/(X^2 - 2), F_13[X]/(X^3 - 2) and the towers above them *)
Definition tab2_13 : list (Fp 13) := [e13 1; e13 12].
Definition tab3_1_13 : list (Fp 13) := [e13 1; e13 3; e13 9].
Definition tab3_2_13 : list (Fp 13) := [e13 1; e13 9; e13 3].
Definition tab4_13 : list (Fp 13) := [e13 1; e13 8; e13 12; e13 5].
Definition tab6b_13 : list (Fp 13) := [e13 1; e13 4; e13 3; e13 12; e13 9; e13 10].

Lemma ex13_fp2_table : forall i, 0 <= i < 2 ->
  nth (Z.to_nat i) tab2_13 (f0 F13) = fpow F13 (e13 2) ((13 ^ i - 1) / 2).
Proof. intros i Hi. assert (Hc : i = 0 \/ i = 1) by lia. destruct Hc as [-> | ->]; fp_dec. Qed.
Lemma ex13_fp2_frobenius : forall k, 0 <= k -> forall x : Fp 13 * Fp 13,
  fp2_frob F13 tab2_13 k x = fpow (QuadOps F13 (e13 2)) x (13 ^ k).
Proof.
  apply (fp2_frobenius_table 13 prime_13 (e13 2) tab2_13); [lia | | exact ex13_fp2_table].
  intros E. apply (f_equal fpv) in E. vm_compute in E. discriminate E.
Qed.
Lemma ex13_fp2_frobenius_nonresidue : forall k, 0 <= k -> forall x : Fp 13 * Fp 13,
  fp2_frob F13 [f1 F13; fneg F13 (f1 F13)] k x = fpow (QuadOps F13 (e13 2)) x (13 ^ k).
Proof. exact (fp2_frobenius_table_nonresidue 13 prime_13 (e13 2) ltac:(lia) ex13_two_nonsquare). Qed.

Lemma ex13_fp3_table1 : forall i, 0 <= i < 3 ->
  nth (Z.to_nat i) tab3_1_13 (f0 F13) = fpow F13 (e13 2) ((13 ^ i - 1) / 3).
Proof. intros i Hi. assert (Hc : i = 0 \/ i = 1 \/ i = 2) by lia. destruct Hc as [-> | [-> | ->]]; fp_dec. Qed.
Lemma ex13_fp3_table2 : forall i, 0 <= i < 3 ->
  nth (Z.to_nat i) tab3_2_13 (f0 F13) =
  fmul F13 (nth (Z.to_nat i) tab3_1_13 (f0 F13)) (nth (Z.to_nat i) tab3_1_13 (f0 F13)).
Proof. intros i Hi. assert (Hc : i = 0 \/ i = 1 \/ i = 2) by lia. destruct Hc as [-> | [-> | ->]]; fp_dec. Qed.
Lemma ex13_fp3_frobenius : forall k, 0 <= k -> forall x : Fp 13 * Fp 13 * Fp 13,
  fp3_frob F13 tab3_1_13 tab3_2_13 k x = fpow (CubicOps F13 (e13 2)) x (13 ^ k).
Proof.
  apply (fp3_frobenius_table 13 prime_13 (e13 2) tab3_1_13 tab3_2_13);
    [reflexivity | | exact ex13_fp3_table1 | exact ex13_fp3_table2].
  intros E. apply (f_equal fpv) in E. vm_compute in E. discriminate E.
Qed.

(* Fp4 = Fp2[W]/(W^2 - X), Fp6 = Fp3[W]/(W^2 - X): one Frobenius step (k = 1) and k = 3 *)
Lemma ex13_fp4_frobenius : forall x,
  fp4_frob F13 tab2_13 tab4_13 1 x =
  fpow (QuadOps (QuadOps F13 (e13 2)) (f0 F13, f1 F13)) x (13 ^ 1) /\
  fp4_frob F13 tab2_13 tab4_13 3 x =
  fpow (QuadOps (QuadOps F13 (e13 2)) (f0 F13, f1 F13)) x (13 ^ 3).
Proof.
  intros x. split; apply (fp4_frobenius_is_pow 13 prime_13); try lia; try fp_dec; pair_dec.
Qed.
Lemma ex13_fp6b_frobenius : forall x,
  fp6b_frob F13 tab3_1_13 tab3_2_13 tab6b_13 1 x =
  fpow (QuadOps (CubicOps F13 (e13 2)) (f0 F13, f1 F13, f0 F13)) x (13 ^ 1).
Proof.
  intros x. apply (fp6b_frobenius_is_pow 13 prime_13); try lia; try reflexivity; try fp_dec; triple_dec.
Qed.

(* Fermat in the extensions *)
Lemma ex13_fermat_fp2 : forall x : Fp 13 * Fp 13, x <> f0 (QuadOps F13 (e13 2)) ->
  fpow (QuadOps F13 (e13 2)) x 168 = f1 (QuadOps F13 (e13 2)).
Proof. exact (fp2_fermat 13 prime_13 (e13 2) ltac:(lia) ex13_two_nonsquare). Qed.
Lemma ex13_fermat_fp3 : forall x : Fp 13 * Fp 13 * Fp 13, x <> f0 (CubicOps F13 (e13 2)) ->
  fpow (CubicOps F13 (e13 2)) x 2196 = f1 (CubicOps F13 (e13 2)).
Proof. exact (fp3_fermat 13 prime_13 (e13 2) eq_refl ex13_two_noncube). Qed.

(* square roots: 13 - 1 = 2^2 * 3 (s = 2, tm = 1, z = 8), 13^2 - 1 = 2^3 * 21 (z = 2 X),
   13^3 - 1 = 2^2 * 549 (z = 8) *)
Lemma ex13_z_order : sqn (fmul F13) (2 - 1) (e13 8) = fneg F13 (f1 F13).
Proof. fp_dec. Qed.
Lemma ex13_two_inv : fmul F13 (fadd F13 (f1 F13) (f1 F13)) (e13 7) = f1 F13.
Proof. fp_dec. Qed.
Lemma ex13_sqrt_ts : forall (leg : Fp 13 -> Z) (a : Fp 13),
  (exists y, sqrt_ts (f0 F13) (f1 F13) (fmul F13) (feqb F13) 2 (e13 8) 1 leg a = SqSome y /\ fmul F13 y y = a) \/
  (sqrt_ts (f0 F13) (f1 F13) (fmul F13) (feqb F13) 2 (e13 8) 1 leg a = SqNone /\ ~ is_sq (fmul F13) a).
Proof. exact (sqrt_ts_exact_Fp 13 prime_13 2 1 (e13 8) ltac:(lia) ltac:(lia) eq_refl ex13_z_order). Qed.
Lemma ex13_sqrt_ts_Zp : forall (leg : Z -> Z) (a : Z), canon 13 a ->
  (exists y, canon 13 y /\
     sqrt_ts (f0 (ZpOps 13)) (f1 (ZpOps 13)) (fmul (ZpOps 13)) (feqb (ZpOps 13)) 2 8 1 leg a = SqSome y /\
     fmul (ZpOps 13) y y = a) \/
  (sqrt_ts (f0 (ZpOps 13)) (f1 (ZpOps 13)) (fmul (ZpOps 13)) (feqb (ZpOps 13)) 2 8 1 leg a = SqNone /\
   ~ exists r, fmul (ZpOps 13) r r = a).
Proof.
  apply (sqrt_ts_exact_Zp 13 prime_13 2 1 8); try lia; try reflexivity. unfold canon; lia.
Qed.
Lemma ex13_sqrt_fp2 : forall a : Fp 13 * Fp 13,
  let bleg := legendre_pow (f0 F13) (f1 F13) (fmul F13) (feqb F13) (2 ^ Z.of_nat (2 - 1) * (2 * 1 + 1)) in
  let bsqrt := sqrt_ts (f0 F13) (f1 F13) (fmul F13) (feqb F13) 2 (e13 8) 1 bleg in
  (exists y, quad_sqrt (f0 F13) (fadd F13) (fsub F13) (fmul F13) (finv F13) (feqb F13) (e13 2) (e13 7) bsqrt bleg a = SqSome y /\
             fmul (QuadOps F13 (e13 2)) y y = a) \/
  (quad_sqrt (f0 F13) (fadd F13) (fsub F13) (fmul F13) (finv F13) (feqb F13) (e13 2) (e13 7) bsqrt bleg a = SqNone /\
   ~ is_sq (fmul (QuadOps F13 (e13 2))) a).
Proof.
  exact (quad_sqrt_exact_over_ts_Fp2 13 prime_13 (e13 2) (e13 7) 2 1 (e13 8) ex13_two_not_is_sq ex13_two_inv
           ltac:(lia) ltac:(lia) eq_refl ex13_z_order).
Qed.
Lemma ex13_z_order_fp2 :
  sqn (fmul (QuadOps F13 (e13 2))) (3 - 1) (f0 F13, e13 2) =
  fneg (QuadOps F13 (e13 2)) (f1 (QuadOps F13 (e13 2))).
Proof. pair_dec. Qed.
Lemma ex13_sqrt_ts_fp2 : forall (leg : Fp 13 * Fp 13 -> Z) (a : Fp 13 * Fp 13),
  let K := QuadOps F13 (e13 2) in
  (exists y, sqrt_ts (f0 K) (f1 K) (fmul K) (feqb K) 3 (f0 F13, e13 2) 10 leg a = SqSome y /\ fmul K y y = a) \/
  (sqrt_ts (f0 K) (f1 K) (fmul K) (feqb K) 3 (f0 F13, e13 2) 10 leg a = SqNone /\ ~ is_sq (fmul K) a).
Proof.
  exact (sqrt_ts_exact_Fp2 13 prime_13 (e13 2) 3 10 (f0 F13, e13 2) ltac:(lia) ex13_two_nonsquare
           ltac:(lia) ltac:(lia) eq_refl ex13_z_order_fp2).
Qed.
Lemma ex13_z_order_fp3 :
  sqn (fmul (CubicOps F13 (e13 2))) (2 - 1) (e13 8, f0 F13, f0 F13) =
  fneg (CubicOps F13 (e13 2)) (f1 (CubicOps F13 (e13 2))).
Proof. triple_dec. Qed.
Lemma ex13_sqrt_ts_fp3 : forall (leg : Fp 13 * Fp 13 * Fp 13 -> Z) (a : Fp 13 * Fp 13 * Fp 13),
  let K := CubicOps F13 (e13 2) in
  (exists y, sqrt_ts (f0 K) (f1 K) (fmul K) (feqb K) 2 (e13 8, f0 F13, f0 F13) 274 leg a = SqSome y /\ fmul K y y = a) \/
  (sqrt_ts (f0 K) (f1 K) (fmul K) (feqb K) 2 (e13 8, f0 F13, f0 F13) 274 leg a = SqNone /\ ~ is_sq (fmul K) a).
Proof.
  exact (sqrt_ts_exact_Fp3 13 prime_13 (e13 2) 2 274 (e13 8, f0 F13, f0 F13) eq_refl ex13_two_noncube
           ltac:(lia) ltac:(lia) eq_refl ex13_z_order_fp3).
Qed.

(* Case3Mod4: p = 7 = 4 * 2 - 1 *)
Lemma ex7_case3mod4 : forall a : Z, canon 7 a ->
  (exists y, canon 7 y /\
     sqrt_case3mod4 (f1 (ZpOps 7)) (fmul (ZpOps 7)) (feqb (ZpOps 7)) 2 a = SqSome y /\ fmul (ZpOps 7) y y = a) \/
  (sqrt_case3mod4 (f1 (ZpOps 7)) (fmul (ZpOps 7)) (feqb (ZpOps 7)) 2 a = SqNone /\ ~ is_sq (fmul (ZpOps 7)) a).
Proof. exact (case3mod4_exact_Zp 7 prime_7 2 ltac:(lia) eq_refl). Qed.

(* Euler's criterion *)
Lemma ex13_euler : forall x, canon 13 x ->
  (fpow (ZpOps 13) x 6 = 1 <-> (x <> 0 /\ exists r, canon 13 r /\ fmul (ZpOps 13) r r = x)).
Proof. intros x Hx. exact (euler_criterion_Zp 13 x prime_13 ltac:(lia) Hx). Qed.
Lemma ex13_euler_run :
  fpow (ZpOps 13) 10 6 = 1 /\ fmul (ZpOps 13) 6 6 = 10 /\ fpow (ZpOps 13) 2 6 = 12.
Proof. vm_compute. repeat split; reflexivity. Qed.
Lemma ex13_conjugate : forall x : Fp 13 * Fp 13,
  fpow (QuadOps F13 (e13 2)) x 13 = quad_conjugate F13 x.
Proof. exact (fp2_pow_p_is_conjugate 13 prime_13 ltac:(lia) (e13 2) ex13_two_nonsquare). Qed.

(* the pairing-tower shape over F_13: Fp2 = F_13[X]/(X^2 - 2), Fp6 = Fp2[V]/(V^3 - X), Fp12 = Fp6[W]/(W^2 - V),
   default (non-override) curve id 99, one Frobenius step *)
Lemma ex13_consts : fp2_consts_ok 99 F13 (e13 2).
Proof. repeat split; intros H; discriminate H. Qed.
Definition tab6_1_13 : list (Fp 13 * Fp 13) := [(e13 1, e13 0); (e13 4, e13 0)].
Definition tab6_2_13 : list (Fp 13 * Fp 13) := [(e13 1, e13 0); (e13 3, e13 0)].
Definition tab12_13 : list (Fp 13 * Fp 13) := [(e13 1, e13 0); (e13 2, e13 0)].
Lemma ex13_fp12_frobenius : forall x,
  fp12_frob 99 F13 (e13 2) tab2_13 tab6_1_13 tab6_2_13 tab12_13 1 x =
  fpow (QuadOps (CubicOps (QuadOps F13 (e13 2)) (f0 F13, f1 F13))
          ((f0 F13, f0 F13), (f1 F13, f0 F13), (f0 F13, f0 F13))) x (13 ^ 1).
Proof.
  intros x. apply (fp12_frobenius_is_pow 13 prime_13 99 (e13 2) ex13_consts); try lia; try reflexivity;
    try fp_dec; try pair_dec;
    (apply injective_projections; [apply injective_projections|]; pair_dec).
Qed.

(* executed dictionary *)
Lemma ex13_fp2_frobenius_Zp : forall k, 0 <= k -> forall x, canon2 13 x ->
  fp2_frob (ZpOps 13) [1; 12] k x = fpow (QuadOps (ZpOps 13) 2) x (13 ^ k).
Proof.
  exact (fp2_frobenius_table_nonresidue_Zp 13 prime_13 ltac:(lia) 2 (proj1 ex13_fp2_hyps) (proj1 (proj2 ex13_fp2_hyps))).
Qed.
