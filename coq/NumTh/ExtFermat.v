(* NumTh/ExtFermat -- Fermat's little theorem for the extension towers.
   [fermatN F N] : x^N = x for every x of F (N = |F| for a finite field).
   If B is a field of characteristic p with [fermatN B N], N = p^k, then
     - E = QuadOps B nr, nr a non-square, N odd:   fermatN E (N^2)
     - E = CubicOps B nr, nr a non-cube, 3 | N-1:  fermatN E (N^3)
   (x^N is the table-free Frobenius (a, b c) with c = nr^((N-1)/2), resp. (a, b c, d c^2) with
   c = nr^((N-1)/3), by NumTh/Frob.v; applying it 2 resp. 3 times multiplies the coordinates by
   powers of nr^(N-1) = 1).  In a field, fermatN gives x <> 0 -> x^(N-1) = 1.
   The construction iterates (E is again a field with fermatN).  Instances over [FpOps p]:
   Fp2 (x^(p^2-1) = 1), Fp3 (x^(p^3-1) = 1), Fp4, Fp6 = Fp2[v]/(v^3 - xi) and Fp6 = Fp3[w]/(w^2 - nr). *)
Require Import ZArith Znumtheory Lia Ring Field Ring_theory Field_theory.
From V Require Import Base.Field Base.ZpField Base.ExtField C02.Quad C02.Cubic C02.QuadProofs C02.CubicProofs
  C02.CycProofs C02.FrobProofs NumTh.Binom NumTh.Fermat NumTh.Frob C11.SqrtModel.

Definition fermatN {T : Type} (F : Fops T) (N : nat) : Prop := forall x : T, npow F x N = x.

Section FieldFermat.
  Context {T : Type} (F : Fops T).
  Hypothesis Fth : field_theory (f0 F) (f1 F) (fadd F) (fmul F) (fsub F) (fneg F) (fdiv F) (finv F) eq.
  Add Field FFieldFermat : Fth.
  Let Rth := F_R Fth.

  Lemma fermatN_unit N x : fermatN F N -> (1 <= N)%nat -> x <> f0 F -> npow F x (N - 1) = f1 F.
  Proof.
    intros HN H1 Hx. pose proof (HN x) as H.
    replace N with (S (N - 1)) in H by lia. cbn [npow] in H.
    transitivity (fdiv F (fmul F x (npow F x (N - 1))) x); [field; exact Hx|].
    rewrite H. field. exact Hx.
  Qed.

  (* Z exponents, any non-negative multiple of N - 1 *)
  Lemma fermatN_fpow N x e : fermatN F N -> (1 <= N)%nat -> x <> f0 F ->
    0 <= e -> (Z.of_nat N - 1 | e) -> fpow F x e = f1 F.
  Proof.
    intros HN H1 Hx He [m Hm].
    destruct (Nat.eq_dec N 1) as [E1|E1].
    { subst N. change (Z.of_nat 1 - 1) with 0 in Hm. rewrite Z.mul_0_r in Hm. subst e. reflexivity. }
    assert (0 <= m) by nia.
    rewrite (fpow_npow F Rth) by lia.
    replace (Z.to_nat e) with ((N - 1) * Z.to_nat m)%nat by nia.
    rewrite (npow_mul_exp F Rth), (fermatN_unit N x HN H1 Hx). apply (npow_one F Rth).
  Qed.
  Lemma fermatN_pow_C11 N x e : fermatN F N -> (1 <= N)%nat -> x <> f0 F ->
    0 <= e -> (Z.of_nat N - 1 | e) -> pow (f1 F) (fmul F) x e = f1 F.
  Proof. intros. rewrite pow_fpow by assumption. apply (fermatN_fpow N); assumption. Qed.
End FieldFermat.

Section ExtFermat.
  Context {T : Type} (B : Fops T).
  Hypothesis Bth : field_theory (f0 B) (f1 B) (fadd B) (fmul B) (fsub B) (fneg B) (fdiv B) (finv B) eq.
  Hypothesis Beqb : forall x y, feqb B x y = true <-> x = y.
  Add Field BFieldExtF : Bth.
  Let Rth := F_R Bth.
  Local Notation zero := (f0 B). Local Notation one := (f1 B).
  Variable p : Z.
  Hypothesis Hp : prime p.
  Hypothesis Hchar : nmul B (Z.to_nat p) one = zero.
  Variable k : nat.
  Local Notation N := (Z.to_nat p ^ k)%nat.
  Hypothesis HN : fermatN B N.

  Lemma N_pos : (1 <= N)%nat.
  Proof.
    assert (Hp1 : 1 < p) by (destruct Hp; assumption).
    assert (Z.to_nat p ^ k <> 0)%nat by (apply Nat.pow_nonzero; lia). lia.
  Qed.

  Lemma nr_pow_Nm1 nr : nr <> zero -> npow B nr (N - 1) = one.
  Proof. intros H. apply (fermatN_unit B Bth N nr HN N_pos H). Qed.

  (* ---------------- quadratic ---------------- *)
  Section QuadExt.
    Variable nr : T.
    Hypothesis nr_nonsquare : forall w, fmul B w w <> nr.
    Variable m : nat.
    Hypothesis Hodd : (N = 2 * m + 1)%nat.
    Local Notation E := (QuadOps B nr).
    Let EthQ := Eth B Rth nr.

    Lemma nr_neq0_q : nr <> zero.
    Proof. intros H. apply (nr_nonsquare zero). rewrite H. ring. Qed.

    Lemma quad_pow_N a b : npow E (a, b) N = (a, fmul B b (npow B nr m)).
    Proof.
      rewrite <- (quad_frobenius_is_npow B Rth nr p k m (fun y => y) (fun y => fmul B y (npow B nr m)));
        try assumption; try reflexivity.
      intros y. symmetry. apply HN.
    Qed.

    Theorem quad_fermatN : fermatN E (N * N).
    Proof.
      intros [a b]. rewrite (npow_mul_exp E EthQ), !quad_pow_N. f_equal.
      pose proof (nr_pow_Nm1 nr nr_neq0_q) as H1.
      replace (N - 1)%nat with (m + m)%nat in H1 by lia. rewrite (npow_add B Rth) in H1.
      transitivity (fmul B b (fmul B (npow B nr m) (npow B nr m))); [ring | rewrite H1; ring].
    Qed.

    Definition quad_field_th := QuadOps_field B nr Bth Beqb nr_nonsquare.

    Theorem quad_fermat_unit x : x <> f0 E -> npow E x (N * N - 1) = f1 E.
    Proof.
      intros Hx. apply (fermatN_unit E quad_field_th (N * N) x quad_fermatN); [|exact Hx].
      pose proof N_pos. nia.
    Qed.
  End QuadExt.

  (* ---------------- cubic ---------------- *)
  Section CubicExt.
    Variable nr : T.
    Hypothesis nr_noncube : forall w, fmul B (fmul B w w) w <> nr.
    Variable m : nat.
    Hypothesis H3 : (N = 3 * m + 1)%nat.
    Local Notation E := (CubicOps B nr).
    Let EthC := Eth3 B Rth nr.

    Lemma nr_neq0_c : nr <> zero.
    Proof. intros H. apply (nr_noncube zero). rewrite H. ring. Qed.

    Lemma cubic_pow_N a b d : npow E (a, b, d) N =
      (a, fmul B b (npow B nr m), fmul B d (fmul B (npow B nr m) (npow B nr m))).
    Proof.
      rewrite <- (cubic_frobenius_is_npow B Rth nr p k m (fun y => y) (fun y => fmul B y (npow B nr m))
                   (fun y => fmul B y (fmul B (npow B nr m) (npow B nr m))));
        try assumption; try reflexivity.
      intros y. symmetry. apply HN.
    Qed.

    Theorem cubic_fermatN : fermatN E (N * N * N).
    Proof.
      intros [[a b] d]. rewrite !(npow_mul_exp E EthC), !cubic_pow_N.
      pose proof (nr_pow_Nm1 nr nr_neq0_c) as H1.
      replace (N - 1)%nat with (m + (m + m))%nat in H1 by lia. rewrite !(npow_add B Rth) in H1.
      set (c := npow B nr m) in *.
      f_equal; [f_equal|].
      - transitivity (fmul B b (fmul B c (fmul B c c))); [ring | rewrite H1; ring].
      - transitivity (fmul B d (fmul B (fmul B c (fmul B c c)) (fmul B c (fmul B c c)))); [ring | rewrite H1; ring].
    Qed.

    Definition cubic_field_th := CubicOps_field B nr Bth Beqb nr_noncube.

    Theorem cubic_fermat_unit x : x <> f0 E -> npow E x (N * N * N - 1) = f1 E.
    Proof.
      intros Hx. apply (fermatN_unit E cubic_field_th (N * N * N) x cubic_fermatN); [|exact Hx].
      pose proof N_pos. nia.
    Qed.
  End CubicExt.
End ExtFermat.

(* ------------------------------------------------------------------ *)
(* tower form: hypotheses on p only, conclusion re-usable one level up  *)
(* ------------------------------------------------------------------ *)
Lemma nat_pow_split p k d : 1 < d -> 0 <= p -> p ^ Z.of_nat k mod d = 1 ->
  exists m, (Z.to_nat p ^ k = Z.to_nat d * m + 1)%nat.
Proof.
  intros Hd Hp H. exists (Z.to_nat (p ^ Z.of_nat k / d)).
  assert (Hpk : 0 <= p ^ Z.of_nat k) by (apply Z.pow_nonneg; lia).
  pose proof (Z.div_mod (p ^ Z.of_nat k) d ltac:(lia)) as Hdm. rewrite H in Hdm.
  assert (0 <= p ^ Z.of_nat k / d) by (apply Z.div_pos; lia).
  rewrite <- (Nat2Z.id k) at 1. rewrite <- to_nat_pow by lia.
  apply Nat2Z.inj. rewrite Nat2Z.inj_add, Nat2Z.inj_mul, !Z2Nat.id by lia. exact Hdm.
Qed.

Section Tower.
  Context {T : Type} (B : Fops T).
  Hypothesis Bth : field_theory (f0 B) (f1 B) (fadd B) (fmul B) (fsub B) (fneg B) (fdiv B) (finv B) eq.
  Variable p : Z.
  Hypothesis Hp : prime p.
  Hypothesis Hchar : nmul B (Z.to_nat p) (f1 B) = f0 B.
  Variable k : nat.
  Hypothesis HN : fermatN B (Z.to_nat p ^ k).
  Variable nr : T.

  Theorem quad_fermat_tower : 2 < p -> (forall w, fmul B w w <> nr) ->
    fermatN (QuadOps B nr) (Z.to_nat p ^ (2 * k)).
  Proof.
    intros H2 Hns.
    destruct (nat_pow_split p k 2 ltac:(lia) ltac:(lia)) as [m Hm].
    { apply pow_mod_one; [lia | apply prime_gt2_odd; assumption | lia]. }
    change (Z.to_nat 2) with 2%nat in Hm.
    replace (2 * k)%nat with (k + k)%nat by lia. rewrite Nat.pow_add_r.
    exact (quad_fermatN B Bth p Hp Hchar k HN nr Hns m Hm).
  Qed.

  Theorem cubic_fermat_tower : p ^ Z.of_nat k mod 3 = 1 -> (forall w, fmul B (fmul B w w) w <> nr) ->
    fermatN (CubicOps B nr) (Z.to_nat p ^ (3 * k)).
  Proof.
    intros H3 Hnc. assert (Hp1 : 1 < p) by (destruct Hp; assumption).
    destruct (nat_pow_split p k 3 ltac:(lia) ltac:(lia) H3) as [m Hm].
    change (Z.to_nat 3) with 3%nat in Hm.
    replace (3 * k)%nat with (k + k + k)%nat by lia. rewrite !Nat.pow_add_r.
    exact (cubic_fermatN B Bth p Hp Hchar k HN nr Hnc m Hm).
  Qed.
End Tower.

(* x <> 0 -> x^e = 1 for every non-negative multiple e of p^d - 1, from fermatN F (p^d) *)
Lemma fermatN_tower_fpow {T} (F : Fops T) p d x e :
  field_theory (f0 F) (f1 F) (fadd F) (fmul F) (fsub F) (fneg F) (fdiv F) (finv F) eq ->
  1 < p -> fermatN F (Z.to_nat p ^ d) -> x <> f0 F -> 0 <= e -> (p ^ Z.of_nat d - 1 | e) ->
  fpow F x e = f1 F.
Proof.
  intros Fth Hp1 HN Hx He Hd.
  apply (fermatN_fpow F Fth (Z.to_nat p ^ d) x e HN); try assumption.
  - assert (Z.to_nat p ^ d <> 0)%nat by (apply Nat.pow_nonzero; lia). lia.
  - rewrite Nat2Z.inj_pow, Z2Nat.id by lia. exact Hd.
Qed.

(* ------------------------------------------------------------------ *)
(* the towers over FpOps p                                             *)
(* ------------------------------------------------------------------ *)
Section TowersFpFermat.
  Variable p : Z.
  Hypothesis Hp : prime p.
  Local Notation F := (FpOps p).
  Local Notation q := (Z.to_nat p).
  Let Hp1 : 1 < p. Proof. destruct Hp; assumption. Qed.
  Let Fth := FpOps_field p Hp.
  Let Feqb := FpOps_eqb p.
  Let Fchar := Fp_char p Hp.

  Lemma Fp_fermatN : fermatN F (q ^ 1).
  Proof. intros x. apply fermat_xpk. exact Hp. Qed.

  (* ---- Fp2 ---- *)
  Section Fp2.
    Variable nr : Fp p.
    Hypothesis H2 : 2 < p.
    Hypothesis Hns : forall w, fmul F w w <> nr.
    Local Notation E2 := (QuadOps F nr).
    Definition Fp2_th := QuadOps_field F nr Fth Feqb Hns.
    Definition Fp2_eqb := QuadOps_eqb F nr Feqb.
    Lemma Fp2_char : nmul E2 q (f1 E2) = f0 E2.
    Proof. apply (quad_char F (F_R Fth)). exact Fchar. Qed.
    Theorem Fp2_fermatN : fermatN E2 (q ^ 2).
    Proof. exact (quad_fermat_tower F Fth p Hp Fchar 1 Fp_fermatN nr H2 Hns). Qed.

    Theorem fp2_fermat_xp2 x : fpow E2 x (p ^ 2) = x.
    Proof.
      rewrite (fpow_npow E2 (F_R Fp2_th)) by (apply Z.pow_nonneg; lia).
      rewrite to_nat_pow by lia. apply Fp2_fermatN.
    Qed.
    Theorem fp2_fermat x : x <> f0 E2 -> fpow E2 x (p ^ 2 - 1) = f1 E2.
    Proof.
      intros Hx. apply (fermatN_tower_fpow E2 p 2 x _ Fp2_th Hp1 Fp2_fermatN Hx).
      - assert (0 < p ^ 2) by (apply Z.pow_pos_nonneg; lia). lia.
      - apply Z.divide_refl.
    Qed.
    Theorem fp2_fermat_mult x e : x <> f0 E2 -> 0 <= e -> (p ^ 2 - 1 | e) -> fpow E2 x e = f1 E2.
    Proof. intros Hx He Hd. exact (fermatN_tower_fpow E2 p 2 x e Fp2_th Hp1 Fp2_fermatN Hx He Hd). Qed.

    (* ---- Fp4 = Fp2[W]/(W^2 - nr4) ---- *)
    Section Fp4.
      Variable nr4 : Fp p * Fp p.
      Hypothesis Hns4 : forall w, fmul E2 w w <> nr4.
      Local Notation E4 := (QuadOps E2 nr4).
      Definition Fp4_th := QuadOps_field E2 nr4 Fp2_th Fp2_eqb Hns4.
      Theorem Fp4_fermatN : fermatN E4 (q ^ 4).
      Proof. exact (quad_fermat_tower E2 Fp2_th p Hp Fp2_char 2 Fp2_fermatN nr4 H2 Hns4). Qed.
      Theorem fp4_fermat_mult x e : x <> f0 E4 -> 0 <= e -> (p ^ 4 - 1 | e) -> fpow E4 x e = f1 E4.
      Proof. intros Hx He Hd. exact (fermatN_tower_fpow E4 p 4 x e Fp4_th Hp1 Fp4_fermatN Hx He Hd). Qed.
    End Fp4.

    (* ---- Fp6 (3 over 2) = Fp2[V]/(V^3 - nr6) ---- *)
    Section Fp6a.
      Variable nr6 : Fp p * Fp p.
      Hypothesis Hnc6 : forall w, fmul E2 (fmul E2 w w) w <> nr6.
      Local Notation E6 := (CubicOps E2 nr6).
      Definition Fp6a_th := CubicOps_field E2 nr6 Fp2_th Fp2_eqb Hnc6.
      Theorem Fp6a_fermatN : p ^ 2 mod 3 = 1 -> fermatN E6 (q ^ 6).
      Proof. intros H3. exact (cubic_fermat_tower E2 Fp2_th p Hp Fp2_char 2 Fp2_fermatN nr6 H3 Hnc6). Qed.
      Theorem fp6a_fermat_mult x e : p ^ 2 mod 3 = 1 -> x <> f0 E6 -> 0 <= e -> (p ^ 6 - 1 | e) -> fpow E6 x e = f1 E6.
      Proof. intros H3 Hx He Hd. exact (fermatN_tower_fpow E6 p 6 x e Fp6a_th Hp1 (Fp6a_fermatN H3) Hx He Hd). Qed.
    End Fp6a.
  End Fp2.

  (* ---- Fp3 ---- *)
  Section Fp3.
    Variable nr : Fp p.
    Hypothesis H3 : p mod 3 = 1.
    Hypothesis Hnc : forall w, fmul F (fmul F w w) w <> nr.
    Local Notation E3 := (CubicOps F nr).
    Definition Fp3_th := CubicOps_field F nr Fth Feqb Hnc.
    Definition Fp3_eqb := CubicOps_eqb F nr Feqb.
    Lemma Fp3_char : nmul E3 q (f1 E3) = f0 E3.
    Proof. apply (cubic_char F (F_R Fth)). exact Fchar. Qed.
    Theorem Fp3_fermatN : fermatN E3 (q ^ 3).
    Proof.
      refine (cubic_fermat_tower F Fth p Hp Fchar 1 Fp_fermatN nr _ Hnc).
      change (Z.of_nat 1) with 1. rewrite Z.pow_1_r. exact H3.
    Qed.
    Theorem fp3_fermat_xp3 x : fpow E3 x (p ^ 3) = x.
    Proof.
      rewrite (fpow_npow E3 (F_R Fp3_th)) by (apply Z.pow_nonneg; lia).
      rewrite to_nat_pow by lia. apply Fp3_fermatN.
    Qed.
    Theorem fp3_fermat x : x <> f0 E3 -> fpow E3 x (p ^ 3 - 1) = f1 E3.
    Proof.
      intros Hx. apply (fermatN_tower_fpow E3 p 3 x _ Fp3_th Hp1 Fp3_fermatN Hx).
      - assert (0 < p ^ 3) by (apply Z.pow_pos_nonneg; lia). lia.
      - apply Z.divide_refl.
    Qed.
    Theorem fp3_fermat_mult x e : x <> f0 E3 -> 0 <= e -> (p ^ 3 - 1 | e) -> fpow E3 x e = f1 E3.
    Proof. intros Hx He Hd. exact (fermatN_tower_fpow E3 p 3 x e Fp3_th Hp1 Fp3_fermatN Hx He Hd). Qed.

    (* ---- Fp6 (2 over 3) = Fp3[W]/(W^2 - nr6) ---- *)
    Section Fp6b.
      Variable nr6 : Fp p * Fp p * Fp p.
      Hypothesis H2 : 2 < p.
      Hypothesis Hns6 : forall w, fmul E3 w w <> nr6.
      Local Notation E6 := (QuadOps E3 nr6).
      Definition Fp6b_th := QuadOps_field E3 nr6 Fp3_th Fp3_eqb Hns6.
      Theorem Fp6b_fermatN : fermatN E6 (q ^ 6).
      Proof. exact (quad_fermat_tower E3 Fp3_th p Hp Fp3_char 3 Fp3_fermatN nr6 H2 Hns6). Qed.
      Theorem fp6b_fermat_mult x e : x <> f0 E6 -> 0 <= e -> (p ^ 6 - 1 | e) -> fpow E6 x e = f1 E6.
      Proof. intros Hx He Hd. exact (fermatN_tower_fpow E6 p 6 x e Fp6b_th Hp1 Fp6b_fermatN Hx He Hd). Qed.
    End Fp6b.
  End Fp3.
End TowersFpFermat.
