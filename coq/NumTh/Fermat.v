(* NumTh/Fermat -- Fermat's little theorem for the executed prime field.
   For prime p, in [FpOps p] (Base/ZpField.v: canonical residues, the operations of [ZpOps p]):
     x^p = x for all x            ([fermat_xp], induction on the residue using the freshman
                                   identity of NumTh/Binom.v: (n+1)^p = n^p + 1),
     x <> 0 -> x^(p-1) = 1        ([fermat_little]).
   Restated for the specification power [fpow] (square-and-multiply, Z exponent) of [FpOps p],
   for the executed dictionary [ZpOps p] on canonical integers, for the C11 model power [pow],
   and in standard-library terms: x mod p <> 0 -> x ^ (p - 1) mod p = 1. *)
Require Import ZArith Znumtheory Lia Ring Field Ring_theory Field_theory.
From V Require Import Base.Field Base.ZpField C02.CycProofs NumTh.Binom C11.SqrtModel.

(* the power functions of the project agree *)
Lemma pow_pos_fpow_pos {T} (F : Fops T) x e : pow_pos (fmul F) x e = fpow_pos F x e.
Proof. induction e as [e IH|e IH|]; cbn [pow_pos fpow_pos]; unfold sqr; rewrite ?IH; reflexivity. Qed.
Lemma pow_fpow {T} (F : Fops T) x e : 0 <= e -> pow (f1 F) (fmul F) x e = fpow F x e.
Proof. destruct e as [|e|e]; intros H; [reflexivity | apply pow_pos_fpow_pos | lia]. Qed.

Lemma fpv_fpow_pos p (x : Fp p) e : fpv (fpow_pos (FpOps p) x e) = fpow_pos (ZpOps p) (fpv x) e.
Proof.
  induction e as [e IH|e IH|]; cbn [fpow_pos]; [| |reflexivity].
  - rewrite !fpv_fmul, IH. reflexivity.
  - rewrite fpv_fmul, IH. reflexivity.
Qed.
Lemma fpv_fpow p (x : Fp p) e : fpv (fpow (FpOps p) x e) = fpow (ZpOps p) (fpv x) e.
Proof.
  destruct e as [|e|e]; cbn [fpow]; [reflexivity | apply fpv_fpow_pos|].
  rewrite fpv_fpow_pos, fpv_finv. reflexivity.
Qed.

Section FermatFp.
  Variable p : Z.
  Hypothesis Hp : prime p.
  Local Notation F := (FpOps p).
  Local Notation q := (Z.to_nat p).
  Let Hp1 : 1 < p. Proof. destruct Hp; assumption. Qed.
  Let Rth := FpOps_ring p.
  Let Fth := FpOps_field p Hp.
  Add Field FpFieldFermat : Fth.

  Lemma fpv_nmul_one n : fpv (nmul F n (f1 F)) = Z.of_nat n mod p.
  Proof.
    induction n as [|n IH]; [reflexivity|].
    cbn [nmul]. rewrite fpv_fadd, IH. cbn -[Z.modulo Z.of_nat].
    rewrite <- Zplus_mod, Nat2Z.inj_succ. f_equal. lia.
  Qed.

  (* characteristic p *)
  Lemma Fp_char : nmul F q (f1 F) = f0 F.
  Proof.
    apply fp_eq. rewrite fpv_nmul_one, Z2Nat.id by lia. rewrite Z_mod_same_full. reflexivity.
  Qed.
  Lemma Fp_char_fofZ : fofZ F p = f0 F.
  Proof. rewrite (fofZ_nmul F Rth) by lia. exact Fp_char. Qed.

  (* every element is a multiple of 1 *)
  Lemma Fp_as_nmul (x : Fp p) : x = nmul F (Z.to_nat (fpv x)) (f1 F).
  Proof.
    pose proof (fpv_canon p x ltac:(lia)) as Hc. unfold canon in Hc.
    apply fp_eq. rewrite fpv_nmul_one, Z2Nat.id by lia. symmetry. apply fpv_mod.
  Qed.

  Lemma fermat_nmul n : npow F (nmul F n (f1 F)) q = nmul F n (f1 F).
  Proof.
    induction n as [|n IH].
    - cbn [nmul]. apply (npow_zero F Rth). lia.
    - cbn [nmul]. rewrite (freshman F Rth p Hp Fp_char), IH, (npow_one F Rth). reflexivity.
  Qed.

  Theorem fermat_xp (x : Fp p) : npow F x q = x.
  Proof. rewrite (Fp_as_nmul x). apply fermat_nmul. Qed.

  Theorem fermat_xpk (x : Fp p) k : npow F x (q ^ k) = x.
  Proof.
    induction k as [|k IH]; [rewrite Nat.pow_0_r; cbn [npow]; ring|].
    rewrite Nat.pow_succ_r', Nat.mul_comm, (npow_mul_exp F Rth), IH. apply fermat_xp.
  Qed.

  Theorem fermat_little (x : Fp p) : x <> f0 F -> npow F x (q - 1) = f1 F.
  Proof.
    intros Hx. pose proof (fermat_xp x) as H.
    replace q with (S (q - 1)) in H by lia. cbn [npow] in H.
    transitivity (fdiv F (fmul F x (npow F x (q - 1))) x); [field; exact Hx|].
    rewrite H. field. exact Hx.
  Qed.

  (* ---- with the specification power of Base/Field.v ---- *)
  Theorem fermat_fpow (x : Fp p) : x <> f0 F -> fpow F x (p - 1) = f1 F.
  Proof.
    intros Hx. rewrite (fpow_npow F Rth) by lia.
    replace (Z.to_nat (p - 1)) with (q - 1)%nat by lia. apply fermat_little, Hx.
  Qed.
  Theorem fermat_fpow_p (x : Fp p) : fpow F x p = x.
  Proof. rewrite (fpow_npow F Rth) by lia. apply fermat_xp. Qed.
  Theorem fermat_fpow_pk (x : Fp p) k : 0 <= k -> fpow F x (p ^ k) = x.
  Proof.
    intros Hk. rewrite (fpow_npow F Rth) by (apply Z.pow_nonneg; lia).
    replace (Z.to_nat (p ^ k)) with (q ^ Z.to_nat k)%nat; [apply fermat_xpk|].
    apply Nat2Z.inj. rewrite Nat2Z.inj_pow.
    rewrite (Z2Nat.id p) by lia. rewrite (Z2Nat.id k) by lia.
    rewrite Z2Nat.id by (apply Z.pow_nonneg; lia). reflexivity.
  Qed.

  (* any multiple of p - 1 (the shape of the C11 premise: q - 1 = 2^s (2 tm + 1)) *)
  Theorem fermat_fpow_mult (x : Fp p) e : 0 <= e -> (p - 1 | e) -> x <> f0 F -> fpow F x e = f1 F.
  Proof.
    intros He [m Hm] Hx. assert (0 <= m) by nia.
    rewrite (fpow_npow F Rth) by lia.
    replace (Z.to_nat e) with ((q - 1) * Z.to_nat m)%nat by nia.
    rewrite (npow_mul_exp F Rth), (fermat_little x Hx). apply (npow_one F Rth).
  Qed.

  (* ---- C11 model power ---- *)
  Theorem fermat_pow_C11 (x : Fp p) e : 0 <= e -> (p - 1 | e) -> x <> f0 F ->
    pow (f1 F) (fmul F) x e = f1 F.
  Proof. intros He Hd Hx. rewrite pow_fpow by exact He. apply fermat_fpow_mult; assumption. Qed.
End FermatFp.

(* ---- on the executed dictionary ZpOps p ---- *)
Theorem fermat_Zp : forall p x, prime p -> 0 < x < p -> fpow (ZpOps p) x (p - 1) = 1.
Proof.
  intros p x Hp Hx. assert (Hp1 : 1 < p) by (destruct Hp; assumption).
  assert (Hv : fpv (fp_of p x) = x) by (apply fp_of_val; unfold canon; lia).
  rewrite <- Hv, <- fpv_fpow, fermat_fpow; [cbn -[Z.modulo]; apply Z.mod_1_l; exact Hp1 | exact Hp |].
  intros E. apply (f_equal fpv) in E. rewrite Hv in E. cbn in E. lia.
Qed.
Theorem fermat_Zp_p : forall p x, prime p -> canon p x -> fpow (ZpOps p) x p = x.
Proof.
  intros p x Hp Hx.
  assert (Hv : fpv (fp_of p x) = x) by (apply fp_of_val; exact Hx).
  rewrite <- Hv at 1. rewrite <- fpv_fpow, fermat_fpow_p by exact Hp. exact Hv.
Qed.
Theorem fermat_Zp_mult : forall p x e, prime p -> 0 < x < p -> 0 <= e -> (p - 1 | e) ->
  fpow (ZpOps p) x e = f1 (ZpOps p).
Proof.
  intros p x e Hp Hx He Hd.
  assert (Hv : fpv (fp_of p x) = x) by (apply fp_of_val; unfold canon; lia).
  rewrite <- Hv, <- fpv_fpow, fermat_fpow_mult; [reflexivity | exact Hp | exact He | exact Hd |].
  intros E. apply (f_equal fpv) in E. rewrite Hv in E. cbn in E. lia.
Qed.
Theorem fermat_Zp_pow_C11 : forall p x e, prime p -> canon p x -> x <> 0 -> 0 <= e -> (p - 1 | e) ->
  pow (f1 (ZpOps p)) (fmul (ZpOps p)) x e = f1 (ZpOps p).
Proof.
  intros p x e Hp Hx Hn He Hd. rewrite pow_fpow by exact He.
  apply fermat_Zp_mult; try assumption. unfold canon in Hx. lia.
Qed.

(* ---- in standard-library terms ---- *)
Lemma fpv_npow_Zpow p x n : 1 < p -> fpv (npow (FpOps p) (fp_of p x) n) = x ^ Z.of_nat n mod p.
Proof.
  intros Hp1. induction n as [|n IH]; [reflexivity|].
  cbn [npow]. rewrite fpv_fmul, IH. cbn -[Z.modulo Z.of_nat Z.pow].
  rewrite <- Zmult_mod, Nat2Z.inj_succ, Z.pow_succ_r by lia. reflexivity.
Qed.
Theorem fermat_Z : forall p x, prime p -> x mod p <> 0 -> x ^ (p - 1) mod p = 1.
Proof.
  intros p x Hp Hx. assert (Hp1 : 1 < p) by (destruct Hp; assumption).
  replace (p - 1) with (Z.of_nat (Z.to_nat p - 1)) by lia.
  rewrite <- fpv_npow_Zpow by exact Hp1. rewrite fermat_little; [cbn -[Z.modulo]; apply Z.mod_1_l; exact Hp1 | exact Hp |].
  intros E. apply (f_equal fpv) in E. cbn -[Z.modulo] in E. rewrite Zmod_0_l in E. exact (Hx E).
Qed.
Theorem fermat_Z_p : forall p x, prime p -> x ^ p mod p = x mod p.
Proof.
  intros p x Hp. assert (Hp1 : 1 < p) by (destruct Hp; assumption).
  replace p with (Z.of_nat (Z.to_nat p)) at 1 by lia.
  rewrite <- fpv_npow_Zpow by exact Hp1. rewrite fermat_xp by exact Hp. reflexivity.
Qed.
