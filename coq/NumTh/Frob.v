(* NumTh/Frob -- the table-driven Frobenius maps of the C02 tower model are the p^k-th power maps.
   C02/FrobProofs.v proved this under two premises; both are discharged here:
     (ii)  freshman identity in the extension: NumTh/Binom.v ([freshman_iter]) applied to the
           ring [QuadOps B nr] / [CubicOps B nr], which has characteristic p when B has;
     (iii) X^n = c X: for odd n = 2m+1, X^n = nr^m X in B[X]/(X^2 - nr); for n = 3m+1,
           X^n = nr^m X and (X^2)^n = (nr^m)^2 X^2 in B[X]/(X^3 - nr).
   What remains as hypothesis is the value of the table entry: c = nr^((p^k-1)/2)
   (cubic: c1 = nr^((p^k-1)/3), c2 = c1^2, and 3 | p^k - 1), the closed facts that are
   checked per shipped configuration.
   Generic level: any commutative ring B with p.1 = 0 on which [frobB] is the p^k-th power.
   Instances: Fp2, Fp3 over [FpOps p] (base map = identity, by Fermat), and the two-level
   towers Fp4 = Fp2[W]/(W^2 - nr4), Fp6 = Fp3[W]/(W^2 - nr6) (2 over 3) of C02/Inst.v. *)
Require Import ZArith Znumtheory Lia Ring Ring_theory.
From V Require Import Base.Field Base.ZpField C02.Quad C02.Cubic C02.QuadProofs C02.CubicProofs
  C02.CycProofs C02.FrobProofs C02.Inst NumTh.Binom NumTh.Fermat.

(* ------------------------------------------------------------------ *)
(* arithmetic of the exponent                                          *)
(* ------------------------------------------------------------------ *)
Lemma prime_gt2_odd p : prime p -> 2 < p -> p mod 2 = 1.
Proof.
  intros Hp H2. pose proof (Z.mod_pos_bound p 2 ltac:(lia)) as Hb.
  destruct (Z.eq_dec (p mod 2) 0) as [E|E]; [|lia].
  assert (Hd : (2 | p)) by (apply Z.mod_divide; [lia | exact E]).
  pose proof (prime_div_prime 2 p prime_2 Hp Hd). lia.
Qed.
Lemma pow_mod_one a m k : 1 < m -> a mod m = 1 -> 0 <= k -> a ^ k mod m = 1.
Proof.
  intros Hm Ha Hk. pattern k. apply natlike_ind; [apply Z.mod_1_l; exact Hm | | exact Hk].
  intros j Hj IH. rewrite Z.pow_succ_r by exact Hj.
  rewrite Zmult_mod, Ha, IH. apply Z.mod_1_l. exact Hm.
Qed.
Lemma to_nat_pow p k : 0 <= p -> 0 <= k -> Z.to_nat (p ^ k) = (Z.to_nat p ^ Z.to_nat k)%nat.
Proof.
  intros Hp Hk. apply Nat2Z.inj. rewrite Nat2Z.inj_pow.
  rewrite (Z2Nat.id p) by lia. rewrite (Z2Nat.id k) by lia.
  rewrite Z2Nat.id by (apply Z.pow_nonneg; lia). reflexivity.
Qed.

(* ------------------------------------------------------------------ *)
(* quadratic level                                                     *)
(* ------------------------------------------------------------------ *)
Section QuadFrob.
  Context {T : Type} (B : Fops T).
  Hypothesis Rth : ring_theory (f0 B) (f1 B) (fadd B) (fmul B) (fsub B) (fneg B) eq.
  Add Ring BRingNF : Rth.
  Variable nr : T.
  Local Notation E := (QuadOps B nr).
  Local Notation zero := (f0 B). Local Notation one := (f1 B).
  Let EthQ := Eth B Rth nr.
  Add Ring ERingNF : EthQ.

  Lemma nmul_quad n a b : nmul E n (a, b) = (nmul B n a, nmul B n b).
  Proof. induction n as [|n IH]; cbn [nmul]; [reflexivity | rewrite IH; reflexivity]. Qed.

  (* characteristic is inherited *)
  Lemma quad_char n : nmul B n one = zero -> nmul E n (f1 E) = f0 E.
  Proof.
    intros H. cbn [f1 f0 QuadOps]. rewrite nmul_quad, H. f_equal. apply (nmul_zero B Rth).
  Qed.

  Lemma gen_pow_even m : npow E (zero, one) (2 * m) = (npow B nr m, zero).
  Proof.
    induction m as [|m IH]; [reflexivity|].
    replace (2 * S m)%nat with (S (S (2 * m))) by lia. cbn [npow]. rewrite IH.
    cbn [fmul QuadOps]. unfold qmul; cbn [fst snd]. f_equal; ring.
  Qed.
  Lemma gen_pow_odd m : npow E (zero, one) (2 * m + 1) = (zero, npow B nr m).
  Proof.
    replace (2 * m + 1)%nat with (S (2 * m)) by lia. cbn [npow]. rewrite gen_pow_even.
    cbn [fmul QuadOps]. unfold qmul; cbn [fst snd]. f_equal; ring.
  Qed.

  (* nat-level statement: n = q^k = 2m+1 *)
  Theorem quad_frobenius_is_npow (p : Z) (k m : nat) (frobB coef : T -> T) :
    prime p -> nmul B (Z.to_nat p) one = zero ->
    (Z.to_nat p ^ k = 2 * m + 1)%nat ->
    (forall a, frobB a = npow B a (Z.to_nat p ^ k)) ->
    (forall y, coef y = fmul B y (npow B nr m)) ->
    forall x, quad_frobenius frobB coef x = npow E x (Z.to_nat p ^ k).
  Proof.
    intros Hp Hc Hodd Hf Hcoef x.
    apply (quad_frobenius_is_pow_partial B Rth nr _ frobB coef (npow B nr m) Hf Hcoef).
    - intros u v. apply (freshman_iter E EthQ p Hp). apply quad_char. exact Hc.
    - rewrite Hodd. apply gen_pow_odd.
  Qed.

  (* Z-level statement with the specification power [fpow] *)
  Theorem quad_frobenius_is_fpow (p k : Z) (frobB coef : T -> T) :
    prime p -> 2 < p -> 0 <= k -> fofZ B p = zero ->
    (forall a, frobB a = fpow B a (p ^ k)) ->
    (forall y, coef y = fmul B y (fpow B nr ((p ^ k - 1) / 2))) ->
    forall x, quad_frobenius frobB coef x = fpow E x (p ^ k).
  Proof.
    intros Hp H2 Hk Hc Hf Hcoef x.
    assert (Hpk : 0 < p ^ k) by (apply Z.pow_pos_nonneg; lia).
    assert (Hodd : p ^ k mod 2 = 1) by (apply pow_mod_one; [lia | apply prime_gt2_odd; assumption | exact Hk]).
    pose proof (Z.div_mod (p ^ k) 2 ltac:(lia)) as Hdm. rewrite Hodd in Hdm.
    assert (Hhalf : (p ^ k - 1) / 2 = p ^ k / 2).
    { replace (p ^ k - 1) with (p ^ k / 2 * 2) by lia. apply Z.div_mul. lia. }
    assert (Hm0 : 0 <= p ^ k / 2) by (apply Z.div_pos; lia).
    rewrite (fpow_npow E EthQ) by lia. rewrite to_nat_pow by lia.
    apply (quad_frobenius_is_npow p (Z.to_nat k) (Z.to_nat (p ^ k / 2))); try assumption.
    - rewrite <- (fofZ_nmul B Rth) by lia. exact Hc.
    - rewrite <- to_nat_pow by lia. lia.
    - intros a. rewrite Hf, (fpow_npow B Rth) by lia. rewrite to_nat_pow by lia. reflexivity.
    - intros y. rewrite Hcoef, Hhalf, (fpow_npow B Rth) by lia. reflexivity.
  Qed.

  (* multiplication by an embedded base element = quad_mul_by_basefield *)
  Lemma mul_by_basefield_embed y c : quad_mul_by_basefield B y c = fmul E y (c, zero).
  Proof. destruct y as [a b]. cbn [fmul QuadOps]. unfold quad_mul_by_basefield, qmul; cbn [fst snd]. f_equal; ring. Qed.
  Lemma fofZ_quad z : 0 <= z -> fofZ B z = zero -> fofZ E z = f0 E.
  Proof.
    intros Hz H. rewrite (fofZ_nmul E EthQ) by exact Hz. apply quad_char.
    rewrite <- (fofZ_nmul B Rth) by exact Hz. exact H.
  Qed.
End QuadFrob.

(* ------------------------------------------------------------------ *)
(* cubic level                                                         *)
(* ------------------------------------------------------------------ *)
Section CubicFrob.
  Context {T : Type} (B : Fops T).
  Hypothesis Rth : ring_theory (f0 B) (f1 B) (fadd B) (fmul B) (fsub B) (fneg B) eq.
  Add Ring BRingNF3 : Rth.
  Variable nr : T.
  Local Notation E := (CubicOps B nr).
  Local Notation zero := (f0 B). Local Notation one := (f1 B).
  Let EthC := Eth3 B Rth nr.
  Add Ring ERingNF3 : EthC.

  Lemma nmul_cubic n a b d : nmul E n (a, b, d) = (nmul B n a, nmul B n b, nmul B n d).
  Proof.
    induction n as [|n IH]; cbn [nmul]; [reflexivity | rewrite IH; reflexivity].
  Qed.
  Lemma cubic_char n : nmul B n one = zero -> nmul E n (f1 E) = f0 E.
  Proof.
    intros H. cbn [f1 f0 CubicOps]. rewrite nmul_cubic, H, (nmul_zero B Rth). reflexivity.
  Qed.

  Lemma gen_pow_3m m : npow E (zero, one, zero) (3 * m) = (npow B nr m, zero, zero).
  Proof.
    induction m as [|m IH]; [reflexivity|].
    replace (3 * S m)%nat with (S (S (S (3 * m)))) by lia. cbn [npow]. rewrite IH.
    cbn [fmul CubicOps]. unfold cmul, c0, c1, c2; cbn [fst snd]. f_equal; [f_equal|]; ring.
  Qed.
  Lemma gen_pow_3m1 m : npow E (zero, one, zero) (3 * m + 1) = (zero, npow B nr m, zero).
  Proof.
    replace (3 * m + 1)%nat with (S (3 * m)) by lia. cbn [npow]. rewrite gen_pow_3m.
    cbn [fmul CubicOps]. unfold cmul, c0, c1, c2; cbn [fst snd]. f_equal; [f_equal|]; ring.
  Qed.
  Lemma gen2_pow_3m1 m : npow E (zero, zero, one) (3 * m + 1) =
                         (zero, zero, fmul B (npow B nr m) (npow B nr m)).
  Proof.
    assert (HX : (zero, zero, one) = fmul E (zero, one, zero) (zero, one, zero)).
    { cbn [fmul CubicOps]. unfold cmul, c0, c1, c2; cbn [fst snd]. f_equal; [f_equal|]; ring. }
    rewrite HX, (npow_mul_base E EthC), gen_pow_3m1.
    cbn [fmul CubicOps]. unfold cmul, c0, c1, c2; cbn [fst snd]. f_equal; [f_equal|]; ring.
  Qed.

  Theorem cubic_frobenius_is_npow (p : Z) (k m : nat) (frobB coef1 coef2 : T -> T) :
    prime p -> nmul B (Z.to_nat p) one = zero ->
    (Z.to_nat p ^ k = 3 * m + 1)%nat ->
    (forall a, frobB a = npow B a (Z.to_nat p ^ k)) ->
    (forall y, coef1 y = fmul B y (npow B nr m)) ->
    (forall y, coef2 y = fmul B y (fmul B (npow B nr m) (npow B nr m))) ->
    forall x, cubic_frobenius frobB coef1 coef2 x = npow E x (Z.to_nat p ^ k).
  Proof.
    intros Hp Hc H3 Hf Hc1 Hc2 x.
    apply (cubic_frobenius_is_pow_partial B Rth nr _ frobB coef1 coef2 _ _ Hf Hc1 Hc2).
    - intros u v. apply (freshman_iter E EthC p Hp). apply cubic_char. exact Hc.
    - rewrite H3. apply gen_pow_3m1.
    - rewrite H3. apply gen2_pow_3m1.
  Qed.

  Theorem cubic_frobenius_is_fpow (p k : Z) (frobB coef1 coef2 : T -> T) (k1 : T) :
    prime p -> 0 <= k -> p ^ k mod 3 = 1 -> fofZ B p = zero ->
    (forall a, frobB a = fpow B a (p ^ k)) ->
    k1 = fpow B nr ((p ^ k - 1) / 3) ->
    (forall y, coef1 y = fmul B y k1) ->
    (forall y, coef2 y = fmul B y (fmul B k1 k1)) ->
    forall x, cubic_frobenius frobB coef1 coef2 x = fpow E x (p ^ k).
  Proof.
    intros Hp Hk H3 Hc Hf Hk1 Hc1 Hc2 x.
    assert (Hp1 : 1 < p) by (destruct Hp; assumption).
    assert (Hpk : 0 < p ^ k) by (apply Z.pow_pos_nonneg; lia).
    pose proof (Z.div_mod (p ^ k) 3 ltac:(lia)) as Hdm. rewrite H3 in Hdm.
    assert (Hthird : (p ^ k - 1) / 3 = p ^ k / 3).
    { replace (p ^ k - 1) with (p ^ k / 3 * 3) by lia. apply Z.div_mul. lia. }
    assert (Hm0 : 0 <= p ^ k / 3) by (apply Z.div_pos; lia).
    rewrite (fpow_npow E EthC) by lia. rewrite to_nat_pow by lia.
    assert (Hk1' : k1 = npow B nr (Z.to_nat (p ^ k / 3))).
    { rewrite Hk1, Hthird, (fpow_npow B Rth) by lia. reflexivity. }
    apply (cubic_frobenius_is_npow p (Z.to_nat k) (Z.to_nat (p ^ k / 3))); try assumption.
    - rewrite <- (fofZ_nmul B Rth) by lia. exact Hc.
    - rewrite <- to_nat_pow by lia. lia.
    - intros a. rewrite Hf, (fpow_npow B Rth) by lia. rewrite to_nat_pow by lia. reflexivity.
    - intros y. rewrite Hc1, Hk1'. reflexivity.
    - intros y. rewrite Hc2, Hk1'. reflexivity.
  Qed.

  Lemma cubic_mul_by_basefield_embed y c : cubic_mul_by_basefield B y c = fmul E y (c, zero, zero).
  Proof.
    destruct y as [[a b] d]. cbn [fmul CubicOps].
    unfold cubic_mul_by_basefield, cmul, c0, c1, c2; cbn [fst snd]. f_equal; [f_equal|]; ring.
  Qed.
  Lemma fofZ_cubic z : 0 <= z -> fofZ B z = zero -> fofZ E z = f0 E.
  Proof.
    intros Hz H. rewrite (fofZ_nmul E EthC) by exact Hz. apply cubic_char.
    rewrite <- (fofZ_nmul B Rth) by exact Hz. exact H.
  Qed.
End CubicFrob.

(* ------------------------------------------------------------------ *)
(* the towers of C02/Inst.v over FpOps p                               *)
(* ------------------------------------------------------------------ *)
Section TowersFp.
  Variable p : Z.
  Hypothesis Hp : prime p.
  Local Notation F := (FpOps p).
  Let Rth := FpOps_ring p.
  Let Hp1 : 1 < p. Proof. destruct Hp; assumption. Qed.

  (* Fp2 = Fp[X]/(X^2 - nr): discharges both premises of C02_quad_frobenius_is_pow_partial *)
  Theorem fp2_frobenius_is_pow (nr : Fp p) (tab2 : list (Fp p)) (k : Z) :
    2 < p -> 0 <= k ->
    tabsel (f0 F) tab2 2 k = fpow F nr ((p ^ k - 1) / 2) ->
    forall x, fp2_frob F tab2 k x = fpow (QuadOps F nr) x (p ^ k).
  Proof.
    intros H2 Hk Htab x. unfold fp2_frob.
    apply (quad_frobenius_is_fpow F Rth nr p k); try assumption.
    - apply Fp_char_fofZ. exact Hp.
    - intros a. symmetry. apply fermat_fpow_pk; assumption.
    - intros y. rewrite Htab. reflexivity.
  Qed.

  (* Fp3 = Fp[X]/(X^3 - nr) *)
  Theorem fp3_frobenius_is_pow (nr : Fp p) (tab3_1 tab3_2 : list (Fp p)) (k : Z) :
    0 <= k -> p ^ k mod 3 = 1 ->
    tabsel (f0 F) tab3_1 3 k = fpow F nr ((p ^ k - 1) / 3) ->
    tabsel (f0 F) tab3_2 3 k = fmul F (tabsel (f0 F) tab3_1 3 k) (tabsel (f0 F) tab3_1 3 k) ->
    forall x, fp3_frob F tab3_1 tab3_2 k x = fpow (CubicOps F nr) x (p ^ k).
  Proof.
    intros Hk H3 Ht1 Ht2 x. unfold fp3_frob.
    apply (cubic_frobenius_is_fpow F Rth nr p k _ _ _ (tabsel (f0 F) tab3_1 3 k)); try assumption.
    - apply Fp_char_fofZ. exact Hp.
    - intros a. symmetry. apply fermat_fpow_pk; assumption.
    - reflexivity.
    - intros y. rewrite Ht2. reflexivity.
  Qed.

  (* Fp4 = Fp2[W]/(W^2 - nr4), Fp2 = Fp[X]/(X^2 - nr2); the Fp4 table lives in Fp *)
  Theorem fp4_frobenius_is_pow (nr2 : Fp p) (nr4 : Fp p * Fp p) (tab2 tab4 : list (Fp p)) (k : Z) :
    2 < p -> 0 <= k ->
    tabsel (f0 F) tab2 2 k = fpow F nr2 ((p ^ k - 1) / 2) ->
    (tabsel (f0 F) tab4 4 k, f0 F) = fpow (QuadOps F nr2) nr4 ((p ^ k - 1) / 2) ->
    forall x, fp4_frob F tab2 tab4 k x = fpow (QuadOps (QuadOps F nr2) nr4) x (p ^ k).
  Proof.
    intros H2 Hk Ht2 Ht4 x. unfold fp4_frob.
    apply (quad_frobenius_is_fpow (QuadOps F nr2) (Eth F Rth nr2) nr4 p k); try assumption.
    - apply (fofZ_quad F Rth); [lia | apply Fp_char_fofZ; exact Hp].
    - intros a. apply fp2_frobenius_is_pow; assumption.
    - intros y. rewrite (mul_by_basefield_embed F Rth nr2), Ht4. reflexivity.
  Qed.

  (* Fp6 (2 over 3) = Fp3[W]/(W^2 - nr6), Fp3 = Fp[X]/(X^3 - nr3); the Fp6 table lives in Fp *)
  Theorem fp6b_frobenius_is_pow (nr3 : Fp p) (nr6 : Fp p * Fp p * Fp p)
      (tab3_1 tab3_2 tab6 : list (Fp p)) (k : Z) :
    2 < p -> 0 <= k -> p ^ k mod 3 = 1 ->
    tabsel (f0 F) tab3_1 3 k = fpow F nr3 ((p ^ k - 1) / 3) ->
    tabsel (f0 F) tab3_2 3 k = fmul F (tabsel (f0 F) tab3_1 3 k) (tabsel (f0 F) tab3_1 3 k) ->
    (tabsel (f0 F) tab6 6 k, f0 F, f0 F) = fpow (CubicOps F nr3) nr6 ((p ^ k - 1) / 2) ->
    forall x, fp6b_frob F tab3_1 tab3_2 tab6 k x = fpow (QuadOps (CubicOps F nr3) nr6) x (p ^ k).
  Proof.
    intros H2 Hk H3 Ht1 Ht2 Ht6 x. unfold fp6b_frob.
    apply (quad_frobenius_is_fpow (CubicOps F nr3) (Eth3 F Rth nr3) nr6 p k); try assumption.
    - apply (fofZ_cubic F Rth); [lia | apply Fp_char_fofZ; exact Hp].
    - intros a. apply fp3_frobenius_is_pow; assumption.
    - intros y. rewrite (cubic_mul_by_basefield_embed F Rth nr3), Ht6. reflexivity.
  Qed.
End TowersFp.
