(* NumTh/FrobTable -- the Frobenius tables are periodic, so the `power mod degree` indexing of the
   C02 model ([tabsel], mirroring `FROBENIUS_COEFF_*[power % DEGREE]`) is right for EVERY power k:
     nr <> 0 :  nr^((p^(k+2)-1)/2) = nr^((p^k-1)/2)           (p odd)
                nr^((p^(k+3)-1)/3) = nr^((p^k-1)/3)           (p = 1 mod 3)
   (the exponents differ by a multiple of p - 1; Fermat).  Hence, over [FpOps p], if the d entries
   of the table are the powers C16 checks (entry i = nr^((p^i-1)/d), i < d), the table-driven map
   of C02/Inst.v is x |-> x^(p^k) for all k >= 0 ([fp2_frobenius_table], [fp3_frobenius_table]).
   With Euler's criterion (NumTh/Euler.v) the Fp2 table is forced: [1; -1] for every non-square nr
   ([fp2_frobenius_table_nonresidue]: no hypothesis on the coefficient is left). *)
Require Import ZArith Znumtheory Lia Ring Ring_theory.
From V Require Import Base.Field Base.ZpField C02.Quad C02.Cubic C02.CycProofs C02.Inst
  NumTh.Binom NumTh.Fermat NumTh.Frob NumTh.Euler.

Section PowAdd.
  Context {T : Type} (F : Fops T).
  Hypothesis Rth : ring_theory (f0 F) (f1 F) (fadd F) (fmul F) (fsub F) (fneg F) eq.
  Lemma fpow_add x a b : 0 <= a -> 0 <= b -> fpow F x (a + b) = fmul F (fpow F x a) (fpow F x b).
  Proof.
    intros Ha Hb. rewrite !(fpow_npow F Rth) by lia.
    rewrite Z2Nat.inj_add by lia. apply (npow_add F Rth).
  Qed.
End PowAdd.

Section Periodic.
  Variable p : Z.
  Hypothesis Hp : prime p.
  Local Notation F := (FpOps p).
  Let Rth := FpOps_ring p.
  Let Fth := FpOps_field p Hp.
  Add Ring FpRingTable : Rth.
  Let Hp1 : 1 < p. Proof. destruct Hp; assumption. Qed.

  Lemma split_mod a d : 0 < d -> a mod d = 1 -> exists g, a = d * g + 1 /\ (a - 1) / d = g.
  Proof.
    intros Hd Ha. exists (a / d). pose proof (Z.div_mod a d ltac:(lia)) as H. rewrite Ha in H.
    split; [exact H|]. replace (a - 1) with (a / d * d) by lia. apply Z.div_mul. lia.
  Qed.

  (* exponent shift by a multiple of p - 1 *)
  Lemma fpow_shift (nr : Fp p) e M : nr <> f0 F -> 0 <= e -> 0 <= M ->
    fpow F nr (e + (p - 1) * M) = fpow F nr e.
  Proof.
    intros Hn He HM. rewrite (fpow_add F Rth) by nia.
    rewrite (fermat_fpow_mult p Hp nr ((p - 1) * M)); [ring | nia | apply Z.divide_factor_l | exact Hn].
  Qed.

  Lemma half_period (nr : Fp p) k : 2 < p -> nr <> f0 F -> 0 <= k ->
    fpow F nr ((p ^ (k + 2) - 1) / 2) = fpow F nr ((p ^ k - 1) / 2).
  Proof.
    intros H2 Hn Hk.
    destruct (split_mod p 2 ltac:(lia) (prime_gt2_odd p Hp H2)) as [h [Eh _]].
    destruct (split_mod (p ^ k) 2 ltac:(lia)) as [g [Eg Hg]].
    { apply pow_mod_one; [lia | apply prime_gt2_odd; assumption | exact Hk]. }
    assert (Hpk : 0 < p ^ k) by (apply Z.pow_pos_nonneg; lia).
    assert (E : (p ^ (k + 2) - 1) / 2 = g + (p - 1) * ((2 * g + 1) * (h + 1))).
    { rewrite Z.pow_add_r by lia. replace (p ^ 2) with (p * p) by ring. rewrite Eg.
      replace ((2 * g + 1) * (p * p) - 1) with ((g + (p - 1) * ((2 * g + 1) * (h + 1))) * 2) by (rewrite Eh; ring).
      apply Z.div_mul. lia. }
    rewrite E, Hg. apply fpow_shift; [exact Hn | lia | nia].
  Qed.

  Lemma third_period (nr : Fp p) k : p mod 3 = 1 -> nr <> f0 F -> 0 <= k ->
    fpow F nr ((p ^ (k + 3) - 1) / 3) = fpow F nr ((p ^ k - 1) / 3).
  Proof.
    intros H3 Hn Hk.
    destruct (split_mod p 3 ltac:(lia) H3) as [h [Eh _]].
    destruct (split_mod (p ^ k) 3 ltac:(lia)) as [g [Eg Hg]].
    { apply pow_mod_one; [lia | exact H3 | exact Hk]. }
    assert (Hpk : 0 < p ^ k) by (apply Z.pow_pos_nonneg; lia).
    assert (E : (p ^ (k + 3) - 1) / 3 = g + (p - 1) * ((3 * g + 1) * (3 * h * h + 3 * h + 1))).
    { rewrite Z.pow_add_r by lia. replace (p ^ 3) with (p * (p * p)) by ring. rewrite Eg.
      replace ((3 * g + 1) * (p * (p * p)) - 1)
        with ((g + (p - 1) * ((3 * g + 1) * (3 * h * h + 3 * h + 1))) * 3) by (rewrite Eh; ring).
      apply Z.div_mul. lia. }
    rewrite E, Hg. apply fpow_shift; [exact Hn | lia | nia].
  Qed.

  (* c(k) depends on k mod d only *)
  Lemma half_mod (nr : Fp p) k : 2 < p -> nr <> f0 F -> 0 <= k ->
    fpow F nr ((p ^ k - 1) / 2) = fpow F nr ((p ^ (k mod 2) - 1) / 2).
  Proof.
    intros H2 Hn Hk.
    pose proof (Z.div_mod k 2 ltac:(lia)) as Hd. pose proof (Z.mod_pos_bound k 2 ltac:(lia)) as Hb.
    assert (Hq : 0 <= k / 2) by (apply Z.div_pos; lia).
    set (r := k mod 2) in *. rewrite Hd.
    replace (2 * (k / 2) + r) with (r + 2 * Z.of_nat (Z.to_nat (k / 2))) by lia.
    induction (Z.to_nat (k / 2)) as [|j IH]; [rewrite Z.add_0_r; reflexivity|].
    replace (r + 2 * Z.of_nat (S j)) with ((r + 2 * Z.of_nat j) + 2) by lia.
    rewrite half_period by (try assumption; lia). exact IH.
  Qed.
  Lemma third_mod (nr : Fp p) k : p mod 3 = 1 -> nr <> f0 F -> 0 <= k ->
    fpow F nr ((p ^ k - 1) / 3) = fpow F nr ((p ^ (k mod 3) - 1) / 3).
  Proof.
    intros H3 Hn Hk.
    pose proof (Z.div_mod k 3 ltac:(lia)) as Hd. pose proof (Z.mod_pos_bound k 3 ltac:(lia)) as Hb.
    assert (Hq : 0 <= k / 3) by (apply Z.div_pos; lia).
    set (r := k mod 3) in *. rewrite Hd.
    replace (3 * (k / 3) + r) with (r + 3 * Z.of_nat (Z.to_nat (k / 3))) by lia.
    induction (Z.to_nat (k / 3)) as [|j IH]; [rewrite Z.add_0_r; reflexivity|].
    replace (r + 3 * Z.of_nat (S j)) with ((r + 3 * Z.of_nat j) + 3) by lia.
    rewrite third_period by (try assumption; lia). exact IH.
  Qed.

  (* ---- Fp2: the two table entries determine the map for every k ---- *)
  Theorem fp2_frobenius_table (nr : Fp p) (tab2 : list (Fp p)) :
    2 < p -> nr <> f0 F ->
    (forall i, 0 <= i < 2 -> nth (Z.to_nat i) tab2 (f0 F) = fpow F nr ((p ^ i - 1) / 2)) ->
    forall k, 0 <= k -> forall x, fp2_frob F tab2 k x = fpow (QuadOps F nr) x (p ^ k).
  Proof.
    intros H2 Hn Htab k Hk x. apply (fp2_frobenius_is_pow p Hp nr tab2 k H2 Hk).
    unfold tabsel. rewrite (half_mod nr k H2 Hn Hk). apply Htab. apply Z.mod_pos_bound. lia.
  Qed.

  (* with Euler's criterion: for a non-square nr the table [1; -1] is right, nothing else assumed *)
  Theorem fp2_frobenius_table_nonresidue (nr : Fp p) :
    2 < p -> (forall w, fmul F w w <> nr) ->
    forall k, 0 <= k -> forall x,
    fp2_frob F [f1 F; fneg F (f1 F)] k x = fpow (QuadOps F nr) x (p ^ k).
  Proof.
    intros H2 Hns. apply fp2_frobenius_table; [exact H2 | |].
    - intros E. apply (Hns (f0 F)). rewrite E. ring.
    - intros i Hi. assert (Hc : i = 0 \/ i = 1) by lia. destruct Hc as [-> | ->].
      + reflexivity.
      + rewrite Z.pow_1_r. cbn [Z.to_nat Pos.to_nat Pos.iter_op Nat.add nth].
        symmetry. apply euler_nonresidue_Fp; assumption.
  Qed.

  (* ---- Fp3: the three entries of C1 (and C2 = C1^2 entrywise) determine the map for every k ---- *)
  Theorem fp3_frobenius_table (nr : Fp p) (tab3_1 tab3_2 : list (Fp p)) :
    p mod 3 = 1 -> nr <> f0 F ->
    (forall i, 0 <= i < 3 -> nth (Z.to_nat i) tab3_1 (f0 F) = fpow F nr ((p ^ i - 1) / 3)) ->
    (forall i, 0 <= i < 3 -> nth (Z.to_nat i) tab3_2 (f0 F) =
                            fmul F (nth (Z.to_nat i) tab3_1 (f0 F)) (nth (Z.to_nat i) tab3_1 (f0 F))) ->
    forall k, 0 <= k -> forall x, fp3_frob F tab3_1 tab3_2 k x = fpow (CubicOps F nr) x (p ^ k).
  Proof.
    intros H3 Hn Ht1 Ht2 k Hk x.
    pose proof (Z.mod_pos_bound k 3 ltac:(lia)) as Hb.
    apply (fp3_frobenius_is_pow p Hp nr tab3_1 tab3_2 k Hk).
    - apply pow_mod_one; [lia | exact H3 | exact Hk].
    - unfold tabsel. rewrite (third_mod nr k H3 Hn Hk). apply Ht1. exact Hb.
    - unfold tabsel. apply Ht2. exact Hb.
  Qed.
End Periodic.
