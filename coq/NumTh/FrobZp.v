(* NumTh/FrobZp -- the Fp2 results on the EXECUTED dictionary: Fp2 = QuadOps (ZpOps p) nr with
   carrier Z * Z, on canonical pairs ([canon2], Base/ZpTransfer.v).
   [pair_val] (coordinatewise [fpv]) commutes with the operations of QuadOps, hence with [fpow]
   and with the table-driven Frobenius [fp2_frob]; the theorems of NumTh/Frob.v, ExtFermat.v,
   Euler.v about QuadOps (FpOps p) carry over. *)
Require Import ZArith Znumtheory Lia List.
From V Require Import Base.Field Base.ZpField Base.ZpTransfer C02.Quad C02.Inst
  NumTh.Fermat NumTh.Frob NumTh.ExtFermat NumTh.Euler NumTh.FrobTable.
Import ListNotations.

Section FrobZp.
  Variable p : Z.
  Local Notation F := (FpOps p).
  Local Notation Zp := (ZpOps p).

  Lemma pair_val_qmul (nr : Fp p) (a b : Fp p * Fp p) :
    pair_val (fmul (QuadOps F nr) a b) = fmul (QuadOps Zp (fpv nr)) (pair_val a) (pair_val b).
  Proof. destruct a, b. reflexivity. Qed.

  Lemma pair_val_fpow_pos (nr : Fp p) (x : Fp p * Fp p) e :
    pair_val (fpow_pos (QuadOps F nr) x e) = fpow_pos (QuadOps Zp (fpv nr)) (pair_val x) e.
  Proof.
    induction e as [e IH|e IH|]; cbn [fpow_pos]; [| |reflexivity].
    - rewrite !pair_val_qmul, IH. reflexivity.
    - rewrite pair_val_qmul, IH. reflexivity.
  Qed.
  Lemma pair_val_fpow (nr : Fp p) (x : Fp p * Fp p) e : 0 <= e ->
    pair_val (fpow (QuadOps F nr) x e) = fpow (QuadOps Zp (fpv nr)) (pair_val x) e.
  Proof. destruct e as [|e|e]; intros H; [reflexivity | apply pair_val_fpow_pos | lia]. Qed.

  Lemma fpv_nth (tab : list (Fp p)) i : fpv (nth i tab (f0 F)) = nth i (map fpv tab) (f0 Zp).
  Proof. change (f0 Zp) with (fpv (f0 F)). symmetry. apply map_nth. Qed.

  Lemma pair_val_fp2_frob (tab : list (Fp p)) k (x : Fp p * Fp p) :
    pair_val (fp2_frob F tab k x) = fp2_frob Zp (map fpv tab) k (pair_val x).
  Proof.
    destruct x as [a b]. unfold fp2_frob, quad_frobenius, pair_val, tabsel. cbn [fst snd].
    rewrite fpv_fmul, fpv_nth. reflexivity.
  Qed.

  Lemma map_fpv_lift (l : list Z) : Forall (canon p) l -> map fpv (map (fp_of p) l) = l.
  Proof.
    intros H. induction H as [|z l Hz _ IH]; [reflexivity|].
    cbn [map]. rewrite IH, (fp_of_val p z Hz). reflexivity.
  Qed.
  Definition lift_pair (x : Z * Z) : Fp p * Fp p := (fp_of p (fst x), fp_of p (snd x)).
  Lemma lift_pair_val x : canon2 p x -> pair_val (lift_pair x) = x.
  Proof.
    destruct x as [a b]. intros [Ha Hb]. unfold pair_val, lift_pair. cbn [fst snd] in *.
    rewrite (fp_of_val p a Ha), (fp_of_val p b Hb). reflexivity.
  Qed.
  Lemma pair_val_inj (x y : Fp p * Fp p) : pair_val x = pair_val y -> x = y.
  Proof.
    destruct x, y. unfold pair_val. cbn [fst snd]. intros H. injection H as H1 H2.
    f_equal; apply fp_eq; assumption.
  Qed.

  Hypothesis Hp : prime p.
  Hypothesis H2 : 2 < p.

  Lemma nonsquare_lift nr : canon p nr -> (forall w, canon p w -> fmul Zp w w <> nr) ->
    forall w : Fp p, fmul F w w <> fp_of p nr.
  Proof.
    intros Hn Hns w E. apply (Hns (fpv w)); [apply fpv_canon; lia|].
    rewrite <- fpv_fmul, E. apply fp_of_val. exact Hn.
  Qed.

  (* table-driven Frobenius of the executed Fp2 = (p^k)-th power *)
  Theorem fp2_frobenius_is_pow_Zp (nr : Z) (tab2 : list Z) (k : Z) :
    canon p nr -> Forall (canon p) tab2 -> 0 <= k ->
    tabsel (f0 Zp) tab2 2 k = fpow Zp nr ((p ^ k - 1) / 2) ->
    forall x, canon2 p x -> fp2_frob Zp tab2 k x = fpow (QuadOps Zp nr) x (p ^ k).
  Proof.
    intros Hn Ht Hk Htab x Hx.
    assert (Hpk : 0 <= p ^ k) by (apply Z.pow_nonneg; lia).
    assert (HT : tabsel (f0 F) (map (fp_of p) tab2) 2 k = fpow F (fp_of p nr) ((p ^ k - 1) / 2)).
    { apply fp_eq. unfold tabsel in *. rewrite fpv_nth, (map_fpv_lift tab2 Ht), Htab.
      rewrite fpv_fpow, (fp_of_val p nr Hn). reflexivity. }
    pose proof (fp2_frobenius_is_pow p Hp (fp_of p nr) (map (fp_of p) tab2) k H2 Hk HT (lift_pair x)) as H.
    apply (f_equal pair_val) in H. rewrite pair_val_fp2_frob, pair_val_fpow in H by exact Hpk.
    rewrite (map_fpv_lift tab2 Ht), (lift_pair_val x Hx), (fp_of_val p nr Hn) in H. exact H.
  Qed.

  (* for a non-square nr the table is [1; p - 1] *)
  Theorem fp2_frobenius_table_nonresidue_Zp (nr : Z) :
    canon p nr -> (forall w, canon p w -> fmul Zp w w <> nr) ->
    forall k, 0 <= k -> forall x, canon2 p x ->
    fp2_frob Zp [1; p - 1] k x = fpow (QuadOps Zp nr) x (p ^ k).
  Proof.
    intros Hn Hns k Hk x Hx.
    assert (Hpk : 0 <= p ^ k) by (apply Z.pow_nonneg; lia).
    pose proof (fp2_frobenius_table_nonresidue p Hp (fp_of p nr) H2 (nonsquare_lift nr Hn Hns) k Hk (lift_pair x)) as H.
    apply (f_equal pair_val) in H. rewrite pair_val_fp2_frob, pair_val_fpow in H by exact Hpk.
    rewrite (lift_pair_val x Hx), (fp_of_val p nr Hn) in H. rewrite <- H. f_equal.
    assert (E1 : fpv (f1 F) = 1) by (cbn -[Z.modulo]; apply Z.mod_1_l; lia).
    assert (E2 : fpv (fneg F (f1 F)) = p - 1).
    { rewrite fpv_fneg, E1. cbn -[Z.modulo].
      transitivity ((p - 1 + (-1) * p) mod p); [f_equal; ring|].
      rewrite Z_mod_plus_full. apply Z.mod_small. lia. }
    cbn [map]. rewrite E1, E2. reflexivity.
  Qed.

  (* Fermat in the executed Fp2 *)
  Theorem fp2_fermat_Zp (nr : Z) : canon p nr -> (forall w, canon p w -> fmul Zp w w <> nr) ->
    forall x e, canon2 p x -> x <> (0, 0) -> 0 <= e -> (p ^ 2 - 1 | e) ->
    fpow (QuadOps Zp nr) x e = (1, 0).
  Proof.
    intros Hn Hns x e Hx Hx0 He Hd.
    pose proof (fp2_fermat_mult p Hp (fp_of p nr) H2 (nonsquare_lift nr Hn Hns) (lift_pair x) e) as H.
    apply (f_equal pair_val) in H; [| | exact He | exact Hd].
    - rewrite pair_val_fpow, (lift_pair_val x Hx), (fp_of_val p nr Hn) in H by exact He.
      rewrite H. unfold pair_val. cbn -[Z.modulo]. rewrite (Z.mod_1_l p) by lia. reflexivity.
    - intros E. apply Hx0. rewrite <- (lift_pair_val x Hx), E. reflexivity.
  Qed.

  (* x^p = conjugate in the executed Fp2 *)
  Theorem fp2_pow_p_is_conjugate_Zp (nr : Z) : canon p nr -> (forall w, canon p w -> fmul Zp w w <> nr) ->
    forall x, canon2 p x -> fpow (QuadOps Zp nr) x p = quad_conjugate Zp x.
  Proof.
    intros Hn Hns x Hx.
    pose proof (fp2_pow_p_is_conjugate p Hp H2 (fp_of p nr) (nonsquare_lift nr Hn Hns) (lift_pair x)) as H.
    apply (f_equal pair_val) in H. rewrite pair_val_fpow, (lift_pair_val x Hx), (fp_of_val p nr Hn) in H by lia.
    rewrite H. destruct x as [a b]. destruct Hx as [Ha Hb]. cbn [fst snd] in *.
    unfold pair_val, quad_conjugate, lift_pair. cbn [fst snd]. rewrite fpv_fneg, (fp_of_val p a Ha), (fp_of_val p b Hb).
    reflexivity.
  Qed.
End FrobZp.
