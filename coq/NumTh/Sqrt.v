(* NumTh/Sqrt -- the square-root theorems of C11 with the Fermat premise discharged.
   C11 states Tonelli-Shanks / Case3Mod4 / Legendre / quadratic-extension sqrt exactness for an
   abstract field under the premise  fermat : x <> 0 -> x^(|K|-1) = 1.  For K = FpOps p
   (NumTh/Fermat.v), K = QuadOps (FpOps p) nr, K = CubicOps (FpOps p) nr (NumTh/ExtFermat.v)
   the premise is a theorem; what remains is the numeric shape of the group order
   (p - 1 = 2^s (2 tm + 1), p = 4 m - 1, p^2 - 1 = ..., p^3 - 1 = ...), the order of z, and
   the non-residue facts -- all closed computations for a shipped configuration.
   The [_Zp] versions are on the executed dictionary [ZpOps p] (through Base/ZpTransfer*.v). *)
Require Import ZArith Znumtheory Lia Field_theory.
From V Require Import Base.Field Base.ZpField Base.ExtField Base.ZpTransfer Base.ZpTransfer6
  C02.CycProofs NumTh.Binom NumTh.Fermat NumTh.Frob NumTh.ExtFermat
  C11.SqrtModel C11.SqrtProofs C11.QuadProofs C11.TowerProofs.

Section SqrtFp.
  Variable p : Z.
  Hypothesis Hp : prime p.
  Local Notation F := (FpOps p).
  Let Fth := FpOps_field p Hp.
  Let Feqb := FpOps_eqb p.

  Lemma fermat_premise_Fp e : 0 <= e -> (p - 1 | e) ->
    forall x : Fp p, x <> f0 F -> pow (f1 F) (fmul F) x e = f1 F.
  Proof. intros He Hd x Hx. apply fermat_pow_C11; assumption. Qed.

  Lemma ts_order_nonneg (s : nat) tm : 0 <= tm -> 0 <= 2 ^ Z.of_nat s * (2 * tm + 1).
  Proof. intros H. apply Z.mul_nonneg_nonneg; [apply Z.pow_nonneg|]; lia. Qed.

  Theorem sqrt_ts_exact_Fp (s : nat) (tm : Z) (z : Fp p) :
    (1 <= s)%nat -> 0 <= tm -> p - 1 = 2 ^ Z.of_nat s * (2 * tm + 1) ->
    sqn (fmul F) (s - 1) z = fneg F (f1 F) ->
    forall (leg : Fp p -> Z) (a : Fp p),
    (exists y, sqrt_ts (f0 F) (f1 F) (fmul F) (feqb F) s z tm leg a = SqSome y /\ fmul F y y = a) \/
    (sqrt_ts (f0 F) (f1 F) (fmul F) (feqb F) s z tm leg a = SqNone /\ ~ is_sq (fmul F) a).
  Proof.
    intros Hs Htm Hord Hz.
    apply (ts_total (f0 F) (f1 F) (fadd F) (fsub F) (fmul F) (fneg F) (finv F) (fdiv F) (feqb F)
             Fth Feqb s tm z Hs Htm); [|exact Hz].
    apply fermat_premise_Fp; [apply ts_order_nonneg; exact Htm | rewrite Hord; apply Z.divide_refl].
  Qed.

  Theorem case3mod4_exact_Fp (m : Z) : 0 < m -> p = 4 * m - 1 ->
    forall a : Fp p,
    (exists y, sqrt_case3mod4 (f1 F) (fmul F) (feqb F) m a = SqSome y /\ fmul F y y = a) \/
    (sqrt_case3mod4 (f1 F) (fmul F) (feqb F) m a = SqNone /\ ~ is_sq (fmul F) a).
  Proof.
    intros Hm Hpm.
    apply (case3mod4_total (f0 F) (f1 F) (fadd F) (fsub F) (fmul F) (fneg F) (finv F) (fdiv F) (feqb F)
             Fth Feqb m Hm).
    apply fermat_premise_Fp; [lia | replace (4 * m - 2) with (p - 1) by lia; apply Z.divide_refl].
  Qed.

  Theorem legendre_euler_Fp (s : nat) (tm : Z) (z : Fp p) :
    (1 <= s)%nat -> 0 <= tm -> p - 1 = 2 ^ Z.of_nat s * (2 * tm + 1) ->
    sqn (fmul F) (s - 1) z = fneg F (f1 F) ->
    forall x : Fp p,
    (x = f0 F /\ legendre_pow (f0 F) (f1 F) (fmul F) (feqb F) (2 ^ Z.of_nat (s - 1) * (2 * tm + 1)) x = 0) \/
    (x <> f0 F /\ is_sq (fmul F) x /\
       legendre_pow (f0 F) (f1 F) (fmul F) (feqb F) (2 ^ Z.of_nat (s - 1) * (2 * tm + 1)) x = 1) \/
    (~ is_sq (fmul F) x /\
       legendre_pow (f0 F) (f1 F) (fmul F) (feqb F) (2 ^ Z.of_nat (s - 1) * (2 * tm + 1)) x = -1).
  Proof.
    intros Hs Htm Hord Hz.
    apply (legendre_euler (f0 F) (f1 F) (fadd F) (fsub F) (fmul F) (fneg F) (finv F) (fdiv F) (feqb F)
             Fth Feqb s tm z Hs Htm); [|exact Hz].
    apply fermat_premise_Fp; [apply ts_order_nonneg; exact Htm | rewrite Hord; apply Z.divide_refl].
  Qed.

  (* Fp2 = Fp[X]/(X^2 - nr): QuadExtField::sqrt (complex method) over a Tonelli-Shanks base field *)
  Theorem quad_sqrt_exact_over_ts_Fp2 (nr two_inv : Fp p) (s : nat) (tm : Z) (z : Fp p) :
    ~ is_sq (fmul F) nr -> fmul F (fadd F (f1 F) (f1 F)) two_inv = f1 F ->
    (1 <= s)%nat -> 0 <= tm -> p - 1 = 2 ^ Z.of_nat s * (2 * tm + 1) ->
    sqn (fmul F) (s - 1) z = fneg F (f1 F) ->
    forall a : Fp p * Fp p,
    let bleg := legendre_pow (f0 F) (f1 F) (fmul F) (feqb F) (2 ^ Z.of_nat (s - 1) * (2 * tm + 1)) in
    let bsqrt := sqrt_ts (f0 F) (f1 F) (fmul F) (feqb F) s z tm bleg in
    (exists y, quad_sqrt (f0 F) (fadd F) (fsub F) (fmul F) (finv F) (feqb F) nr two_inv bsqrt bleg a = SqSome y /\
               fmul (QuadOps F nr) y y = a) \/
    (quad_sqrt (f0 F) (fadd F) (fsub F) (fmul F) (finv F) (feqb F) nr two_inv bsqrt bleg a = SqNone /\
     ~ is_sq (fmul (QuadOps F nr)) a).
  Proof.
    intros Hnr H2i Hs Htm Hord Hz a.
    apply (quad_over_ts_total (f0 F) (f1 F) (fadd F) (fsub F) (fmul F) (fneg F) (finv F) (fdiv F) (feqb F)
             Fth Feqb nr two_inv Hnr H2i s tm z Hs Htm); [|exact Hz].
    apply fermat_premise_Fp; [apply ts_order_nonneg; exact Htm | rewrite Hord; apply Z.divide_refl].
  Qed.

  (* the same over a Case3Mod4 base field (bls12_381 / bn254 Fq2) *)
  Theorem quad_sqrt_exact_over_case3mod4_Fp2 (nr two_inv : Fp p) (m : Z) :
    ~ is_sq (fmul F) nr -> fmul F (fadd F (f1 F) (f1 F)) two_inv = f1 F ->
    0 < m -> p = 4 * m - 1 ->
    forall a : Fp p * Fp p,
    let bleg := legendre_pow (f0 F) (f1 F) (fmul F) (feqb F) (2 * m - 1) in
    let bsqrt := sqrt_case3mod4 (f1 F) (fmul F) (feqb F) m in
    (exists y, quad_sqrt (f0 F) (fadd F) (fsub F) (fmul F) (finv F) (feqb F) nr two_inv bsqrt bleg a = SqSome y /\
               fmul (QuadOps F nr) y y = a) \/
    (quad_sqrt (f0 F) (fadd F) (fsub F) (fmul F) (finv F) (feqb F) nr two_inv bsqrt bleg a = SqNone /\
     ~ is_sq (fmul (QuadOps F nr)) a).
  Proof.
    intros Hnr H2i Hm Hpm a.
    apply (quad_over_3mod4_total (f0 F) (f1 F) (fadd F) (fsub F) (fmul F) (fneg F) (finv F) (fdiv F) (feqb F)
             Fth Feqb nr two_inv Hnr H2i m Hm).
    apply fermat_premise_Fp; [lia | replace (4 * m - 2) with (p - 1) by lia; apply Z.divide_refl].
  Qed.

  (* QuadExtField::legendre (= base legendre of the norm) *)
  Theorem quad_legendre_exact_over_ts_Fp2 (nr two_inv : Fp p) (s : nat) (tm : Z) (z : Fp p) :
    ~ is_sq (fmul F) nr -> fmul F (fadd F (f1 F) (f1 F)) two_inv = f1 F ->
    (1 <= s)%nat -> 0 <= tm -> p - 1 = 2 ^ Z.of_nat s * (2 * tm + 1) ->
    sqn (fmul F) (s - 1) z = fneg F (f1 F) ->
    forall a : Fp p * Fp p,
    let bleg := legendre_pow (f0 F) (f1 F) (fmul F) (feqb F) (2 ^ Z.of_nat (s - 1) * (2 * tm + 1)) in
    (a = f0 (QuadOps F nr) /\ quad_legendre (fsub F) (fmul F) nr bleg a = 0) \/
    (a <> f0 (QuadOps F nr) /\ is_sq (fmul (QuadOps F nr)) a /\ quad_legendre (fsub F) (fmul F) nr bleg a = 1) \/
    (~ is_sq (fmul (QuadOps F nr)) a /\ quad_legendre (fsub F) (fmul F) nr bleg a = -1).
  Proof.
    intros Hnr H2i Hs Htm Hord Hz a.
    apply (quad_legendre_over_ts (f0 F) (f1 F) (fadd F) (fsub F) (fmul F) (fneg F) (finv F) (fdiv F) (feqb F)
             Fth Feqb nr two_inv Hnr H2i s tm z Hs Htm); [|exact Hz].
    apply fermat_premise_Fp; [apply ts_order_nonneg; exact Htm | rewrite Hord; apply Z.divide_refl].
  Qed.

  (* Tonelli-Shanks run directly in Fp2 (K = QuadOps (FpOps p) nr, |K| - 1 = p^2 - 1) *)
  Theorem sqrt_ts_exact_Fp2 (nr : Fp p) (s : nat) (tm : Z) (z : Fp p * Fp p) :
    2 < p -> (forall w, fmul F w w <> nr) ->
    (1 <= s)%nat -> 0 <= tm -> p ^ 2 - 1 = 2 ^ Z.of_nat s * (2 * tm + 1) ->
    let K := QuadOps F nr in
    sqn (fmul K) (s - 1) z = fneg K (f1 K) ->
    forall (leg : Fp p * Fp p -> Z) (a : Fp p * Fp p),
    (exists y, sqrt_ts (f0 K) (f1 K) (fmul K) (feqb K) s z tm leg a = SqSome y /\ fmul K y y = a) \/
    (sqrt_ts (f0 K) (f1 K) (fmul K) (feqb K) s z tm leg a = SqNone /\ ~ is_sq (fmul K) a).
  Proof.
    intros H2 Hns Hs Htm Hord K Hz.
    apply (ts_total (f0 K) (f1 K) (fadd K) (fsub K) (fmul K) (fneg K) (finv K) (fdiv K) (feqb K)
             (Fp2_th p Hp nr Hns) (Fp2_eqb p nr) s tm z Hs Htm); [|exact Hz].
    intros x Hx. rewrite pow_fpow by (apply ts_order_nonneg; exact Htm).
    apply (fp2_fermat_mult p Hp nr H2 Hns x); [exact Hx | apply ts_order_nonneg; exact Htm |].
    rewrite Hord. apply Z.divide_refl.
  Qed.

  (* Fp3 = Fp[X]/(X^3 - nr): CubicExtField sqrt = Tonelli-Shanks in Fp3 (|K| - 1 = p^3 - 1) *)
  Theorem sqrt_ts_exact_Fp3 (nr : Fp p) (s : nat) (tm : Z) (z : Fp p * Fp p * Fp p) :
    p mod 3 = 1 -> (forall w, fmul F (fmul F w w) w <> nr) ->
    (1 <= s)%nat -> 0 <= tm -> p ^ 3 - 1 = 2 ^ Z.of_nat s * (2 * tm + 1) ->
    let K := CubicOps F nr in
    sqn (fmul K) (s - 1) z = fneg K (f1 K) ->
    forall (leg : Fp p * Fp p * Fp p -> Z) (a : Fp p * Fp p * Fp p),
    (exists y, sqrt_ts (f0 K) (f1 K) (fmul K) (feqb K) s z tm leg a = SqSome y /\ fmul K y y = a) \/
    (sqrt_ts (f0 K) (f1 K) (fmul K) (feqb K) s z tm leg a = SqNone /\ ~ is_sq (fmul K) a).
  Proof.
    intros H3 Hnc Hs Htm Hord K Hz.
    apply (ts_total (f0 K) (f1 K) (fadd K) (fsub K) (fmul K) (fneg K) (finv K) (fdiv K) (feqb K)
             (Fp3_th p Hp nr Hnc) (Fp3_eqb p nr) s tm z Hs Htm); [|exact Hz].
    intros x Hx. rewrite pow_fpow by (apply ts_order_nonneg; exact Htm).
    apply (fp3_fermat_mult p Hp nr H3 Hnc x); [exact Hx | apply ts_order_nonneg; exact Htm |].
    rewrite Hord. apply Z.divide_refl.
  Qed.
End SqrtFp.

(* ------------------------------------------------------------------ *)
(* on the executed dictionary ZpOps p                                  *)
(* ------------------------------------------------------------------ *)
Section SqrtZp.
  Variable p : Z.
  Hypothesis Hp : prime p.
  Local Notation Zp := (ZpOps p).

  Lemma fermat_premise_Zp e : 0 <= e -> (p - 1 | e) ->
    forall x, canon p x -> x <> 0 -> pow (f1 Zp) (fmul Zp) x e = f1 Zp.
  Proof. intros He Hd x Hc Hx. apply fermat_Zp_pow_C11; assumption. Qed.

  Theorem sqrt_ts_exact_Zp (s : nat) (tm z : Z) :
    (1 <= s)%nat -> 0 <= tm -> canon p z -> p - 1 = 2 ^ Z.of_nat s * (2 * tm + 1) ->
    sqn (fmul Zp) (s - 1) z = fneg Zp (f1 Zp) ->
    forall (leg : Z -> Z) (a : Z), canon p a ->
    (exists y, canon p y /\
       sqrt_ts (f0 Zp) (f1 Zp) (fmul Zp) (feqb Zp) s z tm leg a = SqSome y /\ fmul Zp y y = a) \/
    (sqrt_ts (f0 Zp) (f1 Zp) (fmul Zp) (feqb Zp) s z tm leg a = SqNone /\
     ~ exists r, fmul Zp r r = a).
  Proof.
    intros Hs Htm Hzc Hord Hz. apply (sqrt_ts_Zp p Hp s tm z Hs Htm Hzc); [|exact Hz].
    apply fermat_premise_Zp; [apply Z.mul_nonneg_nonneg; [apply Z.pow_nonneg|]; lia | rewrite Hord; apply Z.divide_refl].
  Qed.

  Theorem case3mod4_exact_Zp (m : Z) : 0 < m -> p = 4 * m - 1 ->
    forall a : Z, canon p a ->
    (exists y, canon p y /\
       sqrt_case3mod4 (f1 Zp) (fmul Zp) (feqb Zp) m a = SqSome y /\ fmul Zp y y = a) \/
    (sqrt_case3mod4 (f1 Zp) (fmul Zp) (feqb Zp) m a = SqNone /\ ~ is_sq (fmul Zp) a).
  Proof.
    intros Hm Hpm. apply (case3mod4_Zp p Hp m Hm).
    apply fermat_premise_Zp; [lia | replace (4 * m - 2) with (p - 1) by lia; apply Z.divide_refl].
  Qed.

  Theorem legendre_euler_Zp' (s : nat) (tm z : Z) :
    (1 <= s)%nat -> 0 <= tm -> canon p z -> p - 1 = 2 ^ Z.of_nat s * (2 * tm + 1) ->
    sqn (fmul Zp) (s - 1) z = fneg Zp (f1 Zp) ->
    forall x : Z, canon p x ->
    (x = f0 Zp /\ legendre_pow (f0 Zp) (f1 Zp) (fmul Zp) (feqb Zp) (2 ^ Z.of_nat (s - 1) * (2 * tm + 1)) x = 0) \/
    (x <> f0 Zp /\ is_sq (fmul Zp) x /\
       legendre_pow (f0 Zp) (f1 Zp) (fmul Zp) (feqb Zp) (2 ^ Z.of_nat (s - 1) * (2 * tm + 1)) x = 1) \/
    (~ is_sq (fmul Zp) x /\
       legendre_pow (f0 Zp) (f1 Zp) (fmul Zp) (feqb Zp) (2 ^ Z.of_nat (s - 1) * (2 * tm + 1)) x = -1).
  Proof.
    intros Hs Htm Hzc Hord Hz. apply (legendre_euler_Zp p Hp s tm z Hs Htm Hzc); [|exact Hz].
    apply fermat_premise_Zp; [apply Z.mul_nonneg_nonneg; [apply Z.pow_nonneg|]; lia | rewrite Hord; apply Z.divide_refl].
  Qed.

  Theorem quad_sqrt_exact_over_ts_Zp2 (nr two_inv : Z) (s : nat) (tm z : Z) :
    canon p nr -> canon p two_inv ->
    ~ is_sq (fmul Zp) nr -> fmul Zp (fadd Zp (f1 Zp) (f1 Zp)) two_inv = f1 Zp ->
    (1 <= s)%nat -> 0 <= tm -> canon p z -> p - 1 = 2 ^ Z.of_nat s * (2 * tm + 1) ->
    sqn (fmul Zp) (s - 1) z = fneg Zp (f1 Zp) ->
    forall a : Z * Z, canon2 p a ->
    let bleg := legendre_pow (f0 Zp) (f1 Zp) (fmul Zp) (feqb Zp) (2 ^ Z.of_nat (s - 1) * (2 * tm + 1)) in
    let bsqrt := sqrt_ts (f0 Zp) (f1 Zp) (fmul Zp) (feqb Zp) s z tm bleg in
    (exists y, canon2 p y /\
       quad_sqrt (f0 Zp) (fadd Zp) (fsub Zp) (fmul Zp) (finv Zp) (feqb Zp) nr two_inv bsqrt bleg a = SqSome y /\
       fmul (QuadOps Zp nr) y y = a) \/
    (quad_sqrt (f0 Zp) (fadd Zp) (fsub Zp) (fmul Zp) (finv Zp) (feqb Zp) nr two_inv bsqrt bleg a = SqNone /\
     ~ is_sq2 (fadd Zp) (fmul Zp) nr a).
  Proof.
    intros Hnc Htc Hnr H2i Hs Htm Hzc Hord Hz.
    apply (quad_sqrt_over_ts_Zp p Hp nr two_inv Hnc Htc Hnr H2i s tm z Hs Htm Hzc); [|exact Hz].
    apply fermat_premise_Zp; [apply Z.mul_nonneg_nonneg; [apply Z.pow_nonneg|]; lia | rewrite Hord; apply Z.divide_refl].
  Qed.

  Theorem quad_sqrt_exact_over_case3mod4_Zp2 (nr two_inv m : Z) :
    canon p nr -> canon p two_inv ->
    ~ is_sq (fmul Zp) nr -> fmul Zp (fadd Zp (f1 Zp) (f1 Zp)) two_inv = f1 Zp ->
    0 < m -> p = 4 * m - 1 ->
    forall a : Z * Z, canon2 p a ->
    let bleg := legendre_pow (f0 Zp) (f1 Zp) (fmul Zp) (feqb Zp) (2 * m - 1) in
    let bsqrt := sqrt_case3mod4 (f1 Zp) (fmul Zp) (feqb Zp) m in
    (exists y, canon2 p y /\
       quad_sqrt (f0 Zp) (fadd Zp) (fsub Zp) (fmul Zp) (finv Zp) (feqb Zp) nr two_inv bsqrt bleg a = SqSome y /\
       fmul (QuadOps Zp nr) y y = a) \/
    (quad_sqrt (f0 Zp) (fadd Zp) (fsub Zp) (fmul Zp) (finv Zp) (feqb Zp) nr two_inv bsqrt bleg a = SqNone /\
     ~ is_sq2 (fadd Zp) (fmul Zp) nr a).
  Proof.
    intros Hnc Htc Hnr H2i Hm Hpm.
    apply (quad_sqrt_over_3mod4_Zp p Hp nr two_inv Hnc Htc Hnr H2i m Hm).
    apply fermat_premise_Zp; [lia | replace (4 * m - 2) with (p - 1) by lia; apply Z.divide_refl].
  Qed.
End SqrtZp.
