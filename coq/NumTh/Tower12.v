(* NumTh/Tower12 -- the pairing tower Fp2 -> Fp6 = Fp2[V]/(V^3 - nr6) -> Fp12 = Fp6[W]/(W^2 - nr12)
   of C02/Inst.v (bls12_381, bls12_377, bn254 and the default shape) over [FpOps p]:
   the table-driven Frobenius maps [fp6a_frob], [fp12_frob] are x |-> x^(p^k), and Fermat in Fp12.
   The model multiplies the coefficients with the FAST Fp2 dictionary ([Fp2 cid] = QuadM with the
   per-curve non-residue overrides); C02/InstProofs.v ([fp2_mul_spec], premise [fp2_consts_ok]: the
   constant the override hard-wires) identifies it with the schoolbook product. *)
Require Import ZArith Znumtheory Lia Ring Ring_theory Field_theory.
From V Require Import Base.Field Base.ZpField Base.ExtField C02.Quad C02.Cubic C02.QuadProofs C02.CubicProofs
  C02.CycProofs C02.FrobProofs C02.Inst C02.InstProofs NumTh.Binom NumTh.Fermat NumTh.Frob NumTh.ExtFermat.

Section Tower12.
  Variable p : Z.
  Hypothesis Hp : prime p.
  Variable cid : Z.
  Local Notation F := (FpOps p).
  Let Rth := FpOps_ring p.
  Variable nr2 : Fp p.
  Hypothesis C2 : fp2_consts_ok cid F nr2.
  Local Notation E2 := (QuadOps F nr2).
  Let Rth2 := Eth F Rth nr2.

  Theorem fp6a_frobenius_is_pow (nr6 : Fp p * Fp p) (tab2 : list (Fp p)) (tab6_1 tab6_2 : list (Fp p * Fp p)) (k : Z) :
    2 < p -> 0 <= k -> p ^ k mod 3 = 1 ->
    tabsel (f0 F) tab2 2 k = fpow F nr2 ((p ^ k - 1) / 2) ->
    tabsel (f0 F, f0 F) tab6_1 6 k = fpow E2 nr6 ((p ^ k - 1) / 3) ->
    tabsel (f0 F, f0 F) tab6_2 6 k =
      fmul E2 (tabsel (f0 F, f0 F) tab6_1 6 k) (tabsel (f0 F, f0 F) tab6_1 6 k) ->
    forall x, fp6a_frob cid F nr2 tab2 tab6_1 tab6_2 k x = fpow (CubicOps E2 nr6) x (p ^ k).
  Proof.
    intros H2 Hk H3 Ht2 Ht1 Ht22 x. unfold fp6a_frob.
    apply (cubic_frobenius_is_fpow E2 Rth2 nr6 p k _ _ _ (tabsel (f0 F, f0 F) tab6_1 6 k)); try assumption.
    - apply (fofZ_quad F Rth); [destruct Hp; lia | apply Fp_char_fofZ; exact Hp].
    - intros a. apply fp2_frobenius_is_pow; assumption.
    - intros y. apply (fp2_mul_spec cid F Rth nr2 C2).
    - intros y. rewrite Ht22. apply (fp2_mul_spec cid F Rth nr2 C2).
  Qed.

  Theorem fp12_frobenius_is_pow (nr6 : Fp p * Fp p) (nr12 : Fp p * Fp p * (Fp p * Fp p) * (Fp p * Fp p))
      (tab2 : list (Fp p)) (tab6_1 tab6_2 tab12 : list (Fp p * Fp p)) (k : Z) :
    2 < p -> 0 <= k -> p ^ k mod 3 = 1 ->
    tabsel (f0 F) tab2 2 k = fpow F nr2 ((p ^ k - 1) / 2) ->
    tabsel (f0 F, f0 F) tab6_1 6 k = fpow E2 nr6 ((p ^ k - 1) / 3) ->
    tabsel (f0 F, f0 F) tab6_2 6 k =
      fmul E2 (tabsel (f0 F, f0 F) tab6_1 6 k) (tabsel (f0 F, f0 F) tab6_1 6 k) ->
    (tabsel (f0 F, f0 F) tab12 12 k, f0 E2, f0 E2) = fpow (CubicOps E2 nr6) nr12 ((p ^ k - 1) / 2) ->
    forall x, fp12_frob cid F nr2 tab2 tab6_1 tab6_2 tab12 k x =
              fpow (QuadOps (CubicOps E2 nr6) nr12) x (p ^ k).
  Proof.
    intros H2 Hk H3 Ht2 Ht1 Ht22 Ht12 x. unfold fp12_frob.
    apply (quad_frobenius_is_fpow (CubicOps E2 nr6) (Eth3 E2 Rth2 nr6) nr12 p k); try assumption.
    - apply (fofZ_cubic E2 Rth2); [destruct Hp; lia|].
      apply (fofZ_quad F Rth); [destruct Hp; lia | apply Fp_char_fofZ; exact Hp].
    - intros a. apply fp6a_frobenius_is_pow; assumption.
    - intros y. rewrite <- Ht12, <- (cubic_mul_by_basefield_embed E2 Rth2 nr6).
      unfold cubic_mul_by_basefield. rewrite !(fp2_mul_spec cid F Rth nr2 C2). reflexivity.
  Qed.

  (* Fermat in Fp12 *)
  Section Fermat12.
    Hypothesis H2 : 2 < p.
    Hypothesis Hns2 : forall w, fmul F w w <> nr2.
    Variable nr6 : Fp p * Fp p.
    Hypothesis Hnc6 : forall w, fmul E2 (fmul E2 w w) w <> nr6.
    Hypothesis H3 : p ^ 2 mod 3 = 1.
    Local Notation E6 := (CubicOps E2 nr6).
    Variable nr12 : Fp p * Fp p * (Fp p * Fp p) * (Fp p * Fp p).
    Hypothesis Hns12 : forall w, fmul E6 w w <> nr12.
    Local Notation E12 := (QuadOps E6 nr12).

    Let th2 := Fp2_th p Hp nr2 Hns2.
    Let th6 := Fp6a_th p Hp nr2 Hns2 nr6 Hnc6.
    Lemma Fp6a_char : nmul E6 (Z.to_nat p) (f1 E6) = f0 E6.
    Proof. apply (cubic_char E2 (F_R th2)). apply (Fp2_char p Hp). Qed.
    Definition Fp6a_eqb := CubicOps_eqb E2 nr6 (Fp2_eqb p nr2).
    Definition Fp12_th := QuadOps_field E6 nr12 th6 Fp6a_eqb Hns12.

    Theorem Fp12_fermatN : fermatN E12 (Z.to_nat p ^ 12).
    Proof.
      exact (quad_fermat_tower E6 th6 p Hp Fp6a_char 6 (Fp6a_fermatN p Hp nr2 H2 Hns2 nr6 Hnc6 H3) nr12 H2 Hns12).
    Qed.
    Theorem fp12_fermat_mult x e : x <> f0 E12 -> 0 <= e -> (p ^ 12 - 1 | e) -> fpow E12 x e = f1 E12.
    Proof.
      intros Hx He Hd. assert (Hp1 : 1 < p) by (destruct Hp; assumption).
      exact (fermatN_tower_fpow E12 p 12 x e Fp12_th Hp1 Fp12_fermatN Hx He Hd).
    Qed.
  End Fermat12.
End Tower12.
