(* Assoc -- property theorems only: pinned statements, each closed by `exact`.

   Associativity of the affine group laws of C03 is PROVED here for every [good_field] dictionary (field
   with Leibniz equality, decidable equality test, 1 + 1 <> 0; characteristic 3 included), so the one
   classical premise of the C04 / C05 / C12 / Link theorems -- [sw_law_assoc F a b], [te_law_assoc F a d]
   -- disappears from them:

   * twisted Edwards  a x^2 + y^2 = 1 + d x^2 y^2  whose law is complete on the curve ([te_law_complete];
     sufficient: a = s^2 and d a non-square, [Link_te_complete]): [Assoc_te_complete_assoc],
     [Assoc_te_assoc_square];
   * short Weierstrass  y^2 = x^3 + a x + b  with non-zero discriminant [sw_disc F a b] = 4 a^3 + 27 b^2
     ([Assoc_sw_disc_def]): [Assoc_sw_assoc].  The discriminant hypothesis is necessary:
     [Assoc_sw_singular_not_assoc] (the cuspidal cubic y^2 = x^3 over any field).

   The remaining hypotheses of the corollaries are those of the Link theorems (coq/Props/Link.v): on-curve
   (valid) representatives and well-formed scalars. *)
From V Require Import Base.Field Base.Word Base.ZpField Base.ZpTransfer C03.CurveExec C03.SWProofs C03.TEProofs C03.FieldHyp
  C12.SubgroupModel C12.GroupProofs C12.SWSubgroupProofs C12.TESubgroupProofs C15.BitsProofs.
From V Require C04.GroupOps C04.GroupTheory C04.ScalarMul C04.Wnaf C04.WnafProofs C04.Run.
From V Require C05.MsmModel C05.StreamModel C05.GroupProofs C05.MsmProofs C05.Run.
From V Require Import Link.SubGroup Link.SWGroup Link.TEGroup Link.SWRealises Link.TERealises
  Link.Examples Link.ExamplesTE.
From V Require Import Props.Link Props.C12.
From V Require Import Assoc.SWIdent Assoc.SWAssoc Assoc.TEAssoc Assoc.Examples.

(* ================= twisted Edwards ================= *)

(* the Edwards law of a complete curve is associative on the curve points *)
Theorem Assoc_te_complete_assoc : forall T (F : Fops T) (a d : T), good_field F -> te_law_complete F a d ->
  te_law_assoc F a d.
Proof. exact (@te_assoc_complete). Qed.
(* in particular when a is a square and d is not (Bernstein-Lange completeness, C03_te_complete) *)
Theorem Assoc_te_assoc_square : forall T (F : Fops T) (a d s : T), good_field F ->
  a = fmul F s s -> (forall w, fmul F w w <> d) -> te_law_assoc F a d.
Proof. exact (fun T F a d s G Ha Hd => te_assoc_complete F a d G (Link_te_complete T F a d s G Ha Hd)). Qed.

(* the curve points are a commutative group: no classical premise left *)
Theorem Assoc_te_group_on : forall T (F : Fops T) (a d : T), good_field F -> te_law_complete F a d ->
  abelian_group_on (te_aff_on_curve F a d) (aff_add_te F a d) (aff_neg_te F) (te_aff_zero F).
Proof. exact (fun T F a d G C => Link_te_group_on T F a d G C (te_assoc_complete F a d G C)). Qed.

(* Link_te_double_and_add without the associativity premise *)
Theorem Assoc_te_double_and_add : forall T (F : Fops T) (a d : T), good_field F -> te_law_complete F a d ->
  forall limbs P, wf limbs -> okR F a d P ->
  okR F a d (C04.ScalarMul.mul_bigint_proj (C04.Run.te_gops F a d) limbs P) /\
  te_to_affine F (C04.ScalarMul.mul_bigint_proj (C04.Run.te_gops F a d) limbs P)
  = C04.GroupTheory.smul (aff_add_te F a d) (aff_neg_te F) (te_aff_zero F) (val limbs) (te_to_affine F P).
Proof. exact (fun T F a d G C => Link_te_double_and_add T F a d G C (te_assoc_complete F a d G C)). Qed.
Theorem Assoc_te_mul_scalar : forall T (F : Fops T) (a d : T), good_field F -> te_law_complete F a d ->
  forall N r k P, 0 < r <= Wn N -> okR F a d P ->
  okR F a d (C04.ScalarMul.mul_scalar_proj (C04.Run.te_gops F a d) N r k P) /\
  te_to_affine F (C04.ScalarMul.mul_scalar_proj (C04.Run.te_gops F a d) N r k P)
  = C04.GroupTheory.smul (aff_add_te F a d) (aff_neg_te F) (te_aff_zero F) (k mod r) (te_to_affine F P).
Proof. exact (fun T F a d G C => Link_te_mul_scalar T F a d G C (te_assoc_complete F a d G C)). Qed.
Theorem Assoc_te_wnaf_mul : forall T (F : Fops T) (a d : T), good_field F -> te_law_complete F a d ->
  forall w limbs P, 2 <= w < 64 -> wf limbs -> okR F a d P ->
  exists res, C04.Wnaf.wnaf_mul (C04.Run.te_gops F a d) w P limbs = C04.GroupOps.Ok res /\ okR F a d res /\
              te_to_affine F res = C04.GroupTheory.smul (aff_add_te F a d) (aff_neg_te F) (te_aff_zero F) (val limbs) (te_to_affine F P).
Proof. exact (fun T F a d G C => Link_te_wnaf_mul T F a d G C (te_assoc_complete F a d G C)). Qed.
(* Link_te_msm without the associativity premise *)
Theorem Assoc_te_msm : forall T (F : Fops T) (a d : T), good_field F -> te_law_complete F a d ->
  forall cheap nb bases scalars,
  1 <= nb -> Z.min (C05.MsmModel.len bases) (C05.MsmModel.len scalars) < 2 ^ 64 -> Forall (te_aff_on F a d) bases ->
  Forall (fun s => wf s /\ nb <= 64 * C05.MsmModel.len s /\ val s < 2 ^ nb) scalars ->
  exists g, C05.MsmModel.msm_bigint (C05.Run.te_gops F a d) cheap nb bases scalars = C05.MsmModel.Ok g /\
            okR F a d g /\
            te_to_affine F g = C05.GroupProofs.msum (aff_add_te F a d) (te_aff_zero F)
              (map (fun p => C05.GroupProofs.smul (aff_add_te F a d) (aff_neg_te F) (te_aff_zero F) (val (fst p)) (snd p))
                   (combine scalars bases)).
Proof. exact (fun T F a d G C => Link_te_msm T F a d G C (te_assoc_complete F a d G C)). Qed.
Theorem Assoc_te_msm_checked : forall T (F : Fops T) (a d : T), good_field F -> te_law_complete F a d ->
  forall cheap nb N bases ks,
  1 <= nb <= 64 * Z.of_nat N -> C05.MsmModel.len bases < 2 ^ 64 -> Forall (te_aff_on F a d) bases ->
  Forall (fun k => 0 <= k < 2 ^ nb) ks ->
  (length bases = length ks ->
     exists g, C05.MsmModel.msm_checked (C05.Run.te_gops F a d) cheap nb N bases ks = C05.MsmModel.Ok g /\
               okR F a d g /\
               te_to_affine F g = C05.GroupProofs.msum (aff_add_te F a d) (te_aff_zero F)
                 (map (fun p => C05.GroupProofs.smul (aff_add_te F a d) (aff_neg_te F) (te_aff_zero F) (fst p) (snd p))
                      (combine ks bases))) /\
  (length bases <> length ks ->
     C05.MsmModel.msm_checked (C05.Run.te_gops F a d) cheap nb N bases ks
     = C05.MsmModel.Err (Z.min (C05.MsmModel.len bases) (C05.MsmModel.len ks))).
Proof. exact (fun T F a d G C => Link_te_msm_checked T F a d G C (te_assoc_complete F a d G C)). Qed.
Theorem Assoc_te_chunked_pippenger : forall T (F : Fops T) (a d : T), good_field F -> te_law_complete F a d ->
  forall cheap nb size ops,
  1 <= nb -> C05.MsmModel.len ops < 2 ^ 64 -> Forall (fun p => te_aff_on F a d (fst p)) ops ->
  Forall (fun p => wf (snd p) /\ nb <= 64 * C05.MsmModel.len (snd p) /\ val (snd p) < 2 ^ nb) ops ->
  exists g, C05.StreamModel.cp_run (C05.Run.te_gops F a d)
              (C05.MsmModel.msm_bigint (C05.Run.te_gops F a d) cheap nb) size ops = C05.MsmModel.Ok g /\
            okR F a d g /\
            te_to_affine F g = C05.GroupProofs.msum (aff_add_te F a d) (te_aff_zero F)
              (map (fun p => C05.GroupProofs.smul (aff_add_te F a d) (aff_neg_te F) (te_aff_zero F) (val (snd p)) (fst p)) ops).
Proof. exact (fun T F a d G C => Link_te_chunked_pippenger T F a d G C (te_assoc_complete F a d G C)). Qed.
(* C12_te_default_test_iff_rP_zero without the associativity premise *)
Theorem Assoc_te_default_test_iff_rP_zero : forall T (F : Fops T) (a d : T), good_field F -> te_law_complete F a d ->
  forall r P, te_aff_on F a d P ->
  (te_in_subgroup_default F a d r P = true <-> te_nsmul F a d (Z.to_nat r) P = te_aff_zero F).
Proof. exact (fun T F a d G C => C12_te_default_test_iff_rP_zero T F a d G C (te_assoc_complete F a d G C)). Qed.

(* ================= short Weierstrass ================= *)

(* the discriminant, spelled out: 4 a^3 + 27 b^2 *)
Theorem Assoc_sw_disc_def : forall T (F : Fops T) (a b : T), good_field F ->
  sw_disc F a b = fadd F (fmul F (fofZ F 4) (fmul F (fmul F a a) a)) (fmul F (fofZ F 27) (fmul F b b)).
Proof. exact (fun T F a b G => sw_disc_def F G a b). Qed.

(* the chord-and-tangent law of a non-singular curve is associative on the curve points *)
Theorem Assoc_sw_assoc : forall T (F : Fops T) (a b : T), good_field F -> sw_disc F a b <> f0 F ->
  sw_law_assoc F a b.
Proof. exact (@sw_assoc). Qed.
(* the discriminant hypothesis is necessary: y^2 = x^3, over every field *)
Theorem Assoc_sw_singular_not_assoc : forall T (F : Fops T), good_field F -> ~ sw_law_assoc F (f0 F) (f0 F).
Proof. exact (@sw_singular_not_assoc). Qed.
(* the key step: (P + Q) + (-Q) = P, and -(A + B) = (-A) + (-B) *)
Theorem Assoc_sw_law_cancel : forall T (F : Fops T) (a b : T), good_field F -> sw_disc F a b <> f0 F ->
  forall P Q, aff_on F a b P -> aff_on F a b Q -> aff_add_sw F a (aff_add_sw F a P Q) (aff_neg_sw F Q) = P.
Proof. exact (@law_cancel_r). Qed.
Theorem Assoc_sw_neg_law : forall T (F : Fops T) (a b : T), good_field F ->
  forall A B, aff_on F a b A -> aff_on F a b B ->
  aff_neg_sw F (aff_add_sw F a A B) = aff_add_sw F a (aff_neg_sw F A) (aff_neg_sw F B).
Proof. exact (@neg_law). Qed.

(* the curve points are a commutative group: no classical premise left *)
Theorem Assoc_sw_group_on : forall T (F : Fops T) (a b : T), good_field F -> sw_disc F a b <> f0 F ->
  abelian_group_on (sw_aff_on_curve F a b) (aff_add_sw F a) (aff_neg_sw F) None.
Proof. exact (fun T F a b G D => Link_sw_group_on T F a b G (sw_assoc F a b G D)). Qed.

(* Link_sw_double_and_add without the associativity premise *)
Theorem Assoc_sw_double_and_add : forall T (F : Fops T) (a b : T), good_field F -> sw_disc F a b <> f0 F ->
  forall limbs P, wf limbs -> jac_on F a b P ->
  jac_on F a b (C04.ScalarMul.mul_bigint_proj (C04.Run.sw_gops F a) limbs P) /\
  sw_to_affine F (C04.ScalarMul.mul_bigint_proj (C04.Run.sw_gops F a) limbs P)
  = C04.GroupTheory.smul (aff_add_sw F a) (aff_neg_sw F) None (val limbs) (sw_to_affine F P).
Proof. exact (fun T F a b G D => Link_sw_double_and_add T F a b G (sw_assoc F a b G D)). Qed.
Theorem Assoc_sw_mul_scalar : forall T (F : Fops T) (a b : T), good_field F -> sw_disc F a b <> f0 F ->
  forall N r k P, 0 < r <= Wn N -> jac_on F a b P ->
  jac_on F a b (C04.ScalarMul.mul_scalar_proj (C04.Run.sw_gops F a) N r k P) /\
  sw_to_affine F (C04.ScalarMul.mul_scalar_proj (C04.Run.sw_gops F a) N r k P)
  = C04.GroupTheory.smul (aff_add_sw F a) (aff_neg_sw F) None (k mod r) (sw_to_affine F P).
Proof. exact (fun T F a b G D => Link_sw_mul_scalar T F a b G (sw_assoc F a b G D)). Qed.
Theorem Assoc_sw_wnaf_mul : forall T (F : Fops T) (a b : T), good_field F -> sw_disc F a b <> f0 F ->
  forall w limbs P, 2 <= w < 64 -> wf limbs -> jac_on F a b P ->
  exists res, C04.Wnaf.wnaf_mul (C04.Run.sw_gops F a) w P limbs = C04.GroupOps.Ok res /\ jac_on F a b res /\
              sw_to_affine F res = C04.GroupTheory.smul (aff_add_sw F a) (aff_neg_sw F) None (val limbs) (sw_to_affine F P).
Proof. exact (fun T F a b G D => Link_sw_wnaf_mul T F a b G (sw_assoc F a b G D)). Qed.
(* Link_sw_msm without the associativity premise *)
Theorem Assoc_sw_msm : forall T (F : Fops T) (a b : T), good_field F -> sw_disc F a b <> f0 F ->
  forall cheap nb bases scalars,
  1 <= nb -> Z.min (C05.MsmModel.len bases) (C05.MsmModel.len scalars) < 2 ^ 64 -> Forall (aff_on F a b) bases ->
  Forall (fun s => wf s /\ nb <= 64 * C05.MsmModel.len s /\ val s < 2 ^ nb) scalars ->
  exists g, C05.MsmModel.msm_bigint (C05.Run.sw_gops F a) cheap nb bases scalars = C05.MsmModel.Ok g /\
            jac_on F a b g /\
            sw_to_affine F g = C05.GroupProofs.msum (aff_add_sw F a) None
              (map (fun p => C05.GroupProofs.smul (aff_add_sw F a) (aff_neg_sw F) None (val (fst p)) (snd p))
                   (combine scalars bases)).
Proof. exact (fun T F a b G D => Link_sw_msm T F a b G (sw_assoc F a b G D)). Qed.
Theorem Assoc_sw_msm_checked : forall T (F : Fops T) (a b : T), good_field F -> sw_disc F a b <> f0 F ->
  forall cheap nb N bases ks,
  1 <= nb <= 64 * Z.of_nat N -> C05.MsmModel.len bases < 2 ^ 64 -> Forall (aff_on F a b) bases ->
  Forall (fun k => 0 <= k < 2 ^ nb) ks ->
  (length bases = length ks ->
     exists g, C05.MsmModel.msm_checked (C05.Run.sw_gops F a) cheap nb N bases ks = C05.MsmModel.Ok g /\
               jac_on F a b g /\
               sw_to_affine F g = C05.GroupProofs.msum (aff_add_sw F a) None
                 (map (fun p => C05.GroupProofs.smul (aff_add_sw F a) (aff_neg_sw F) None (fst p) (snd p))
                      (combine ks bases))) /\
  (length bases <> length ks ->
     C05.MsmModel.msm_checked (C05.Run.sw_gops F a) cheap nb N bases ks
     = C05.MsmModel.Err (Z.min (C05.MsmModel.len bases) (C05.MsmModel.len ks))).
Proof. exact (fun T F a b G D => Link_sw_msm_checked T F a b G (sw_assoc F a b G D)). Qed.
Theorem Assoc_sw_chunked_pippenger : forall T (F : Fops T) (a b : T), good_field F -> sw_disc F a b <> f0 F ->
  forall cheap nb size ops,
  1 <= nb -> C05.MsmModel.len ops < 2 ^ 64 -> Forall (fun p => aff_on F a b (fst p)) ops ->
  Forall (fun p => wf (snd p) /\ nb <= 64 * C05.MsmModel.len (snd p) /\ val (snd p) < 2 ^ nb) ops ->
  exists g, C05.StreamModel.cp_run (C05.Run.sw_gops F a)
              (C05.MsmModel.msm_bigint (C05.Run.sw_gops F a) cheap nb) size ops = C05.MsmModel.Ok g /\
            jac_on F a b g /\
            sw_to_affine F g = C05.GroupProofs.msum (aff_add_sw F a) None
              (map (fun p => C05.GroupProofs.smul (aff_add_sw F a) (aff_neg_sw F) None (val (snd p)) (fst p)) ops).
Proof. exact (fun T F a b G D => Link_sw_chunked_pippenger T F a b G (sw_assoc F a b G D)). Qed.
(* C12_sw_mul_affine / C12_default_test_iff_rP_zero without the associativity premise *)
Theorem Assoc_sw_mul_affine : forall T (F : Fops T) (a b : T), good_field F -> sw_disc F a b <> f0 F ->
  forall P n, aff_on F a b P ->
  jac_on F a b (sw_mul_affine F a P n) /\
  sw_to_affine F (sw_mul_affine F a P n) = sw_nsmul F a (Z.to_nat n) P.
Proof. exact (fun T F a b G D => C12_sw_mul_affine T F a b G (sw_assoc F a b G D)). Qed.
Theorem Assoc_sw_default_test_iff_rP_zero : forall T (F : Fops T) (a b : T), good_field F -> sw_disc F a b <> f0 F ->
  forall hl r P, cofactor_is_one hl = false -> aff_on F a b P ->
  (sw_in_subgroup_default F a hl r P = true <-> sw_nsmul F a (Z.to_nat r) P = None).
Proof. exact (fun T F a b G D => C12_default_test_iff_rP_zero T F a b G (sw_assoc F a b G D)). Qed.

(* ================= the remaining hypotheses are satisfiable: F_13 (coq/Assoc/Examples.v) ================= *)
(* y^2 = x^3 + 2 over F_13: discriminant 4 * 0 + 27 * 4 = 4 <> 0; on-curve representatives *)
Example Assoc_example_sw_premises :
  good_field F13 /\ sw_disc F13 a13 b13 <> f0 F13 /\ jac_on F13 a13 b13 P13 /\ aff_on F13 a13 b13 A13 /\ wf [5; 0].
Proof. exact (conj F13_good (conj disc_13 (conj P13_on (conj A13_on ex_wf)))). Qed.
(* hence (this time WITHOUT exhausting the triples of the curve): mul_bigint on the representative
   (4, 6, 2) of (1, 4), every limb slice *)
Example Assoc_example_sw_double_and_add : forall limbs, wf limbs ->
  jac_on F13 a13 b13 (C04.ScalarMul.mul_bigint_proj (C04.Run.sw_gops F13 a13) limbs P13) /\
  sw_to_affine F13 (C04.ScalarMul.mul_bigint_proj (C04.Run.sw_gops F13 a13) limbs P13)
  = C04.GroupTheory.smul (aff_add_sw F13 a13) (aff_neg_sw F13) None (val limbs) (sw_to_affine F13 P13).
Proof. exact (fun limbs H => Assoc_sw_double_and_add _ F13 a13 b13 F13_good disc_13 limbs P13 H P13_on). Qed.
(* 5 . (1,4) + 3 . (1,4) through msm_bigint (3-bit scalars, both bucket methods) *)
Example Assoc_example_sw_msm : forall cheap,
  exists g, C05.MsmModel.msm_bigint (C05.Run.sw_gops F13 a13) cheap 3 [A13; A13] [[5; 0]; [3; 0]] = C05.MsmModel.Ok g /\
            jac_on F13 a13 b13 g /\
            sw_to_affine F13 g = C05.GroupProofs.msum (aff_add_sw F13 a13) None
              (map (fun p => C05.GroupProofs.smul (aff_add_sw F13 a13) (aff_neg_sw F13) None (val (fst p)) (snd p))
                   (combine [[5; 0]; [3; 0]] [A13; A13])).
Proof.
  exact (fun cheap => Assoc_sw_msm _ F13 a13 b13 F13_good disc_13 cheap 3 [A13; A13] [[5; 0]; [3; 0]]
                        (proj1 (Z.leb_le 1 3) eq_refl) msm_len_13 msm_bases_13 msm_scalars_13).
Qed.
(* 12 x^2 + y^2 = 1 + 6 x^2 y^2 over F_13 (a = 5^2, d = 6 a non-square): complete, valid representative *)
Example Assoc_example_te_premises :
  te_law_complete F13 ta13 td13 /\ okR F13 ta13 td13 Q13 /\ te_aff_on F13 ta13 td13 B13te /\ wf [5; 0].
Proof. exact (conj te_complete_13 (conj Q13_ok (conj B13te_on ex_wf))). Qed.
Example Assoc_example_te_double_and_add : forall limbs, wf limbs ->
  okR F13 ta13 td13 (C04.ScalarMul.mul_bigint_proj (C04.Run.te_gops F13 ta13 td13) limbs Q13) /\
  te_to_affine F13 (C04.ScalarMul.mul_bigint_proj (C04.Run.te_gops F13 ta13 td13) limbs Q13)
  = C04.GroupTheory.smul (aff_add_te F13 ta13 td13) (aff_neg_te F13) (te_aff_zero F13) (val limbs) (te_to_affine F13 Q13).
Proof. exact (fun limbs H => Assoc_te_double_and_add _ F13 ta13 td13 F13_good te_complete_13 limbs Q13 H Q13_ok). Qed.
Example Assoc_example_te_msm : forall cheap,
  exists g, C05.MsmModel.msm_bigint (C05.Run.te_gops F13 ta13 td13) cheap 3 [B13te; B13te] [[5; 0]; [3; 0]] = C05.MsmModel.Ok g /\
            okR F13 ta13 td13 g /\
            te_to_affine F13 g = C05.GroupProofs.msum (aff_add_te F13 ta13 td13) (te_aff_zero F13)
              (map (fun p => C05.GroupProofs.smul (aff_add_te F13 ta13 td13) (aff_neg_te F13) (te_aff_zero F13) (val (fst p)) (snd p))
                   (combine [[5; 0]; [3; 0]] [B13te; B13te])).
Proof.
  exact (fun cheap => Assoc_te_msm _ F13 ta13 td13 F13_good te_complete_13 cheap 3 [B13te; B13te] [[5; 0]; [3; 0]]
                        (proj1 (Z.leb_le 1 3) eq_refl) msm_len_13te msm_bases_13te msm_scalars_13).
Qed.
