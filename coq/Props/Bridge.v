(* Bridge -- property theorems only: pinned statements, each closed by `exact`.
   They connect the abstract-field theorems of the property packages to the dictionary
   that is actually executed in the correspondence check, [ZpOps p : Fops Z].
   [canon p z := 0 <= z < p]; [Fp p] is the subset type of canonical residues with
   projection [fpv]; [FpOps p : Fops (Fp p)] has the operations of [ZpOps p] on the
   underlying integers; [Rp p x z := fpv x = z]; [Fops_R] is the (Paramcoq-generated)
   parametricity relation of the record [Fops]: component-wise relatedness. *)
From V Require Import Base.Field Base.ZpField Base.ExtField Base.ZpInstances Base.ZpTransfer.
From V Require Import C03.SWModel C03.SWProofs C03.FieldHyp.
From V Require Import C07.Dft C07.Radix2 C07.Radix2Proofs C07.DomainProofs.
From V Require Import C11.SqrtModel.
Require Import Znumtheory.
Require Import Coq.setoid_ring.Field_theory.

(* ---- the executable inverse is correct (extended Euclid, fuel 2*log2 p + 4 suffices) ---- *)
Theorem Bridge_inv_mod : forall p a, prime p -> 0 < a < p ->
  (a * inv_mod a p) mod p = 1 /\ canon p (inv_mod a p).
Proof. exact inv_mod_spec_canon. Qed.
Theorem Bridge_inv_mod_zero : forall p, inv_mod 0 p = 0.
Proof. exact inv_mod_0. Qed.

(* ---- canonical residues are closed under every operation of ZpOps p ---- *)
Theorem Bridge_canon_closed : forall p, 0 < p ->
  canon p (f0 (ZpOps p)) /\ canon p (f1 (ZpOps p)) /\
  (forall x y, canon p (fadd (ZpOps p) x y)) /\ (forall x y, canon p (fsub (ZpOps p) x y)) /\
  (forall x y, canon p (fmul (ZpOps p) x y)) /\ (forall x, canon p (fneg (ZpOps p) x)) /\
  (forall x, canon p (finv (ZpOps p) x)) /\ (forall l, canon p (fof (ZpOps p) l)).
Proof.
  exact (fun p H => conj (canon_f0 p H) (conj (canon_f1 p H) (conj (fun x y => canon_fadd p x y H)
    (conj (fun x y => canon_fsub p x y H) (conj (fun x y => canon_fmul p x y H)
    (conj (fun x => canon_fneg p x H) (conj (fun x => canon_finv p x H) (fun l => canon_fof p l H)))))))).
Qed.

(* ---- Z/p on canonical residues is a field (Leibniz equality), feqb decides equality ---- *)
Theorem Bridge_Fp_field : forall p, prime p ->
  field_theory (f0 (FpOps p)) (f1 (FpOps p)) (fadd (FpOps p)) (fmul (FpOps p))
               (fsub (FpOps p)) (fneg (FpOps p)) (fdiv (FpOps p)) (finv (FpOps p)) eq.
Proof. exact FpOps_field. Qed.
Theorem Bridge_Fp_eqb : forall p (x y : Fp p), feqb (FpOps p) x y = true <-> x = y.
Proof. exact FpOps_eqb. Qed.
Theorem Bridge_Fp_two : forall p, 2 < p -> fadd (FpOps p) (f1 (FpOps p)) (f1 (FpOps p)) <> f0 (FpOps p).
Proof. exact FpOps_two. Qed.
Theorem Bridge_Fp_good_field : forall p, prime p -> 2 < p -> good_field (FpOps p).
Proof. exact FpOps_good_field. Qed.
Theorem Bridge_Fp_is_field : forall p, prime p -> is_field (FpOps p) /\ eqb_correct (FpOps p).
Proof. exact (fun p H => conj (FpOps_is_field p H) (FpOps_eqb_correct p)). Qed.

(* ---- the two dictionaries are related, component by component ---- *)
Theorem Bridge_related : forall p, Fops_R (Fp p) Z (Rp p) (FpOps p) (ZpOps p).
Proof. exact FpZp_R. Qed.
Theorem Bridge_lift : forall p z, canon p z -> Rp p (fp_of p z) z.
Proof. exact Rp_lift. Qed.

(* ---- C03_sw_add on the executed dictionary ---- *)
Theorem Bridge_sw_add : forall p, prime p -> 2 < p ->
  forall a b P Q, canon p a -> canon p b -> canon_jac p P -> canon_jac p Q ->
  jac_on (ZpOps p) a b P -> jac_on (ZpOps p) a b Q ->
  sw_to_affine (ZpOps p) (sw_add (ZpOps p) a P Q) =
  aff_add_sw (ZpOps p) a (sw_to_affine (ZpOps p) P) (sw_to_affine (ZpOps p) Q).
Proof. exact sw_add_Zp. Qed.

(* ---- the towers: QuadOps / CubicOps over a field are fields (nr non-square / non-cube) ---- *)
Theorem Bridge_Quad_field : forall T (B : Fops T) (nr : T),
  field_theory (f0 B) (f1 B) (fadd B) (fmul B) (fsub B) (fneg B) (fdiv B) (finv B) eq ->
  (forall x y, feqb B x y = true <-> x = y) -> (forall w, fmul B w w <> nr) ->
  field_theory (f0 (QuadOps B nr)) (f1 (QuadOps B nr)) (fadd (QuadOps B nr)) (fmul (QuadOps B nr))
               (fsub (QuadOps B nr)) (fneg (QuadOps B nr)) (fdiv (QuadOps B nr)) (finv (QuadOps B nr)) eq.
Proof. exact (@QuadOps_field). Qed.
Theorem Bridge_Cubic_field : forall T (B : Fops T) (nr : T),
  field_theory (f0 B) (f1 B) (fadd B) (fmul B) (fsub B) (fneg B) (fdiv B) (finv B) eq ->
  (forall x y, feqb B x y = true <-> x = y) -> (forall w, fmul B (fmul B w w) w <> nr) ->
  field_theory (f0 (CubicOps B nr)) (f1 (CubicOps B nr)) (fadd (CubicOps B nr)) (fmul (CubicOps B nr))
               (fsub (CubicOps B nr)) (fneg (CubicOps B nr)) (fdiv (CubicOps B nr)) (finv (CubicOps B nr)) eq.
Proof. exact (@CubicOps_field). Qed.
Theorem Bridge_Quad_good_field : forall T (B : Fops T) nr, good_field B ->
  (forall w, fmul B w w <> nr) -> good_field (QuadOps B nr).
Proof. exact Quad_good_field. Qed.
Theorem Bridge_Cubic_good_field : forall T (B : Fops T) nr, good_field B ->
  (forall w, fmul B (fmul B w w) w <> nr) -> good_field (CubicOps B nr).
Proof. exact Cubic_good_field. Qed.

(* ---- C03_sw_add on the executed quadratic extension QuadOps (ZpOps p) nr ---- *)
Theorem Bridge_sw_add_Fp2 : forall p, prime p -> 2 < p ->
  forall nr, canon p nr -> (forall w, canon p w -> fmul (ZpOps p) w w <> nr) ->
  forall a b P Q, canon2 p a -> canon2 p b ->
  canon2 p (fst (fst P)) /\ canon2 p (snd (fst P)) /\ canon2 p (snd P) ->
  canon2 p (fst (fst Q)) /\ canon2 p (snd (fst Q)) /\ canon2 p (snd Q) ->
  jac_on (QuadOps (ZpOps p) nr) a b P -> jac_on (QuadOps (ZpOps p) nr) a b Q ->
  sw_to_affine (QuadOps (ZpOps p) nr) (sw_add (QuadOps (ZpOps p) nr) a P Q) =
  aff_add_sw (QuadOps (ZpOps p) nr) a (sw_to_affine (QuadOps (ZpOps p) nr) P)
                                      (sw_to_affine (QuadOps (ZpOps p) nr) Q).
Proof. exact sw_add_Zp2. Qed.

(* ---- C07_in_order_fft_spec on the executed dictionary ---- *)
Theorem Bridge_in_order_fft : forall p, prime p ->
  forall k w h x, canon p w -> canon p h -> Forall (canon p) x ->
  length x = (2 ^ k)%nat -> prim_root (ZpOps p) k w ->
  in_order_fft (ZpOps p) k w h x = dft_coset (ZpOps p) (2 ^ k) h w x.
Proof. exact in_order_fft_Zp. Qed.

(* ---- C11_tonelli_shanks_exact on the executed dictionary ---- *)
Theorem Bridge_sqrt_ts_exact : forall p, prime p ->
  forall (s : nat) (tm z : Z), (1 <= s)%nat -> 0 <= tm -> canon p z ->
  (forall x, canon p x -> x <> 0 ->
     pow (f1 (ZpOps p)) (fmul (ZpOps p)) x (2 ^ Z.of_nat s * (2 * tm + 1)) = f1 (ZpOps p)) ->
  sqn (fmul (ZpOps p)) (s - 1) z = fneg (ZpOps p) (f1 (ZpOps p)) ->
  forall (leg : Z -> Z) (a : Z), canon p a ->
  (exists y, canon p y /\
     sqrt_ts (f0 (ZpOps p)) (f1 (ZpOps p)) (fmul (ZpOps p)) (feqb (ZpOps p)) s z tm leg a = SqSome y /\
     fmul (ZpOps p) y y = a) \/
  (sqrt_ts (f0 (ZpOps p)) (f1 (ZpOps p)) (fmul (ZpOps p)) (feqb (ZpOps p)) s z tm leg a = SqNone /\
   ~ exists r, fmul (ZpOps p) r r = a).
Proof. exact sqrt_ts_Zp. Qed.

(* ---- non-vacuity: p = 13 ---- *)
Example Bridge_prime_13 : prime 13.
Proof. exact prime_13. Qed.
Example Bridge_example_sw_hyps :
  canon 13 0 /\ canon 13 2 /\ canon_jac 13 (1, 4, 1) /\ canon_jac 13 (4, 6, 2) /\
  jac_on (ZpOps 13) 0 2 (1, 4, 1) /\ jac_on (ZpOps 13) 0 2 (4, 6, 2).
Proof. exact ex13_sw_hyps. Qed.
Example Bridge_example_fft_hyps :
  canon 13 5 /\ canon 13 2 /\ Forall (canon 13) [1; 2; 3; 4] /\
  length [1; 2; 3; 4] = (2 ^ 2)%nat /\ prim_root (ZpOps 13) 2 5.
Proof. exact ex13_fft_hyps. Qed.
Example Bridge_example_ts_hyps :
  (1 <= 2)%nat /\ 0 <= 1 /\ canon 13 8 /\
  (forall x, canon 13 x -> x <> 0 ->
     pow (f1 (ZpOps 13)) (fmul (ZpOps 13)) x (2 ^ Z.of_nat 2 * (2 * 1 + 1)) = f1 (ZpOps 13)) /\
  sqn (fmul (ZpOps 13)) (2 - 1) 8 = fneg (ZpOps 13) (f1 (ZpOps 13)).
Proof. exact ex13_ts_hyps. Qed.
(* the instantiated conclusions agree with evaluation *)
Example Bridge_example_run :
  sw_to_affine (ZpOps 13) (sw_add (ZpOps 13) 0 (1, 4, 1) (4, 6, 2)) = Some (2, 7) /\
  aff_add_sw (ZpOps 13) 0 (sw_to_affine (ZpOps 13) (1, 4, 1)) (sw_to_affine (ZpOps 13) (4, 6, 2)) = Some (2, 7) /\
  in_order_fft (ZpOps 13) 2 5 2 [1; 2; 3; 4] = dft_coset (ZpOps 13) 4 2 5 [1; 2; 3; 4] /\
  sqrt_ts 0 1 (fmul (ZpOps 13)) Z.eqb 2 8 1 (fun _ => 0) 10 = SqSome 7 /\
  sqrt_ts 0 1 (fmul (ZpOps 13)) Z.eqb 2 8 1 (fun _ => 0) 2 = SqNone.
Proof. vm_compute. repeat split; reflexivity. Qed.
(* the bridge theorem instantiated: every pair of canonical points of y^2 = x^3 + 2 over F_13 *)
Example Bridge_sw_add_13 : forall P Q, canon_jac 13 P -> canon_jac 13 Q ->
  jac_on (ZpOps 13) 0 2 P -> jac_on (ZpOps 13) 0 2 Q ->
  sw_to_affine (ZpOps 13) (sw_add (ZpOps 13) 0 P Q) =
  aff_add_sw (ZpOps 13) 0 (sw_to_affine (ZpOps 13) P) (sw_to_affine (ZpOps 13) Q).
Proof.
  exact (fun P Q => Bridge_sw_add 13 prime_13 eq_refl 0 2 P Q
           (proj1 ex13_sw_hyps) (proj1 (proj2 ex13_sw_hyps))).
Qed.
Example Bridge_example_fp2_hyps :
  canon 13 2 /\ (forall w, canon 13 w -> fmul (ZpOps 13) w w <> 2) /\
  jac_on (QuadOps (ZpOps 13) 2) (0, 0) (2, 0) ((1, 0), (4, 0), (1, 0)) /\
  jac_on (QuadOps (ZpOps 13) 2) (0, 0) (2, 0) ((4, 0), (6, 0), (2, 0)).
Proof. exact ex13_fp2_hyps. Qed.
