(* Bridge2 -- property theorems only: pinned statements, each closed by `exact`.
   The headline theorems of C03, C07, C08, C11, C13 (SWU), C17 and of Link, at the dictionary that is
   actually EXECUTED in the correspondence checks, [ZpOps p : Fops Z] (carrier Z, operations
   reduce mod p), on canonical inputs.  Every statement is the package's statement with the
   abstract dictionary replaced by [ZpOps p]; the premises are [prime p] ([2 < p] where the
   package needs 1 + 1 <> 0) and canonicity of every input:
     [canon p z := 0 <= z < p]  (ZpField.canon; C08's own [Common.canon] = "no trailing zero
     coefficient" is written qualified),  [canon_jac] / [canon_aff] / [canon_te] / [canon_pair] /
     [canon2]: every coordinate canonical,  [canon_dos] / [canon_dm] / [canon_dom]: every field
     element stored in the polynomial / MLE table / domain record canonical.
   Method (props/Bridge/NOTES.md, NOTES2.md): instance of the abstract theorem at the subset-type
   field [FpOps p], carried to [ZpOps p] by the parametricity relation of the two dictionaries. *)
From V Require Import Base.Field Base.Word Base.ZpField Base.ExtField Base.ZpInstances Base.ZpTransfer
  Base.ZpTransfer2 Base.ZpTransfer3 Base.ZpTransfer5 Base.ZpTransfer6 Base.ZpTransfer7 Base.ZpTransfer8 Base.ZpTransfer9.
From V Require Base.ZpTransfer4.
From V Require Import C03.SWModel C03.TEModel C03.SWProofs C03.TEProofs C03.FieldHyp.
From V Require Import C07.Dft C07.Radix2 C07.MixedRadix C07.Radix2Proofs.
From V Require Import C08.Model C08.Common C08.Division.
From V Require Import C11.SqrtModel C11.SqrtProofs C11.QuadProofs.
From V Require C17.Mle C17.Spec.
From V Require Import C13.Maps.
From V Require Import C12.SWSubgroupProofs C12.TESubgroupProofs.
From V Require C04.GroupOps C04.GroupTheory C04.ScalarMul C04.Run.
From V Require C05.MsmModel C05.GroupProofs C05.Run.
From V Require Link.Examples.
Require Import Znumtheory.

(* ================= C03: short Weierstrass, Jacobian coordinates ================= *)
(* C03_sw_madd *)
Theorem Bridge2_sw_madd : forall p, prime p -> 2 < p ->
  forall a b P Q, ZpField.canon p a -> ZpField.canon p b -> canon_jac p P -> canon_aff p Q ->
  jac_on (ZpOps p) a b P -> aff_on (ZpOps p) a b Q ->
  sw_to_affine (ZpOps p) (sw_madd (ZpOps p) a P Q) = aff_add_sw (ZpOps p) a (sw_to_affine (ZpOps p) P) Q.
Proof. exact sw_madd_Zp. Qed.
(* C03_sw_double *)
Theorem Bridge2_sw_double : forall p, prime p -> 2 < p ->
  forall a P, ZpField.canon p a -> canon_jac p P ->
  sw_to_affine (ZpOps p) (sw_double (ZpOps p) a P) =
  aff_add_sw (ZpOps p) a (sw_to_affine (ZpOps p) P) (sw_to_affine (ZpOps p) P).
Proof. exact sw_double_Zp. Qed.
(* C03_sw_neg *)
Theorem Bridge2_sw_neg : forall p, prime p -> 2 < p ->
  forall P, canon_jac p P ->
  sw_to_affine (ZpOps p) (sw_neg (ZpOps p) P) = aff_neg_sw (ZpOps p) (sw_to_affine (ZpOps p) P).
Proof. exact sw_neg_Zp. Qed.
(* C03_sw_sub *)
Theorem Bridge2_sw_sub : forall p, prime p -> 2 < p ->
  forall a b P Q, ZpField.canon p a -> ZpField.canon p b -> canon_jac p P -> canon_jac p Q ->
  jac_on (ZpOps p) a b P -> jac_on (ZpOps p) a b Q ->
  sw_to_affine (ZpOps p) (sw_sub (ZpOps p) a P Q) =
  aff_add_sw (ZpOps p) a (sw_to_affine (ZpOps p) P) (aff_neg_sw (ZpOps p) (sw_to_affine (ZpOps p) Q)).
Proof. exact sw_sub_Zp. Qed.
(* C03_sw_msub *)
Theorem Bridge2_sw_msub : forall p, prime p -> 2 < p ->
  forall a b P Q, ZpField.canon p a -> ZpField.canon p b -> canon_jac p P -> canon_aff p Q ->
  jac_on (ZpOps p) a b P -> aff_on (ZpOps p) a b Q ->
  sw_to_affine (ZpOps p) (sw_msub (ZpOps p) a P Q) =
  aff_add_sw (ZpOps p) a (sw_to_affine (ZpOps p) P) (aff_neg_sw (ZpOps p) Q).
Proof. exact sw_msub_Zp. Qed.
(* C03_sw_eq_iff_same_affine *)
Theorem Bridge2_sw_eq_iff_same_affine : forall p, prime p -> 2 < p ->
  forall P Q, canon_jac p P -> canon_jac p Q ->
  (sw_eqb (ZpOps p) P Q = true <-> sw_to_affine (ZpOps p) P = sw_to_affine (ZpOps p) Q).
Proof. exact sw_eqb_Zp. Qed.
(* C03_sw_normalize_batch *)
Theorem Bridge2_sw_normalize_batch : forall p, prime p -> 2 < p ->
  forall v, Forall (canon_jac p) v -> sw_normalize_batch (ZpOps p) v = map (sw_to_affine (ZpOps p)) v.
Proof. exact sw_normalize_batch_Zp. Qed.
(* C03_sw_add_on_curve / C03_sw_madd_on_curve / C03_sw_double_on_curve *)
Theorem Bridge2_sw_add_on_curve : forall p, prime p -> 2 < p ->
  forall a b P Q, ZpField.canon p a -> ZpField.canon p b -> canon_jac p P -> canon_jac p Q ->
  jac_on (ZpOps p) a b P -> jac_on (ZpOps p) a b Q -> jac_on (ZpOps p) a b (sw_add (ZpOps p) a P Q).
Proof. exact sw_add_on_curve_Zp. Qed.
Theorem Bridge2_sw_madd_on_curve : forall p, prime p -> 2 < p ->
  forall a b P Q, ZpField.canon p a -> ZpField.canon p b -> canon_jac p P -> canon_aff p Q ->
  jac_on (ZpOps p) a b P -> aff_on (ZpOps p) a b Q -> jac_on (ZpOps p) a b (sw_madd (ZpOps p) a P Q).
Proof. exact sw_madd_on_curve_Zp. Qed.
Theorem Bridge2_sw_double_on_curve : forall p, prime p -> 2 < p ->
  forall a b P, ZpField.canon p a -> ZpField.canon p b -> canon_jac p P ->
  jac_on (ZpOps p) a b P -> jac_on (ZpOps p) a b (sw_double (ZpOps p) a P).
Proof. exact sw_double_on_curve_Zp. Qed.
(* results of the executed operations are canonical again, so the theorems chain *)
Theorem Bridge2_sw_canon_closed : forall p, 0 < p ->
  (forall a P Q, ZpField.canon p a -> canon_jac p P -> canon_aff p Q -> canon_jac p (sw_madd (ZpOps p) a P Q)) /\
  (forall a P, ZpField.canon p a -> canon_jac p P -> canon_jac p (sw_double (ZpOps p) a P)) /\
  (forall P, canon_jac p P -> canon_jac p (sw_neg (ZpOps p) P)) /\
  (forall P, canon_jac p P -> canon_aff p (sw_to_affine (ZpOps p) P)).
Proof.
  exact (fun p H => conj (sw_madd_canon p H) (conj (sw_double_canon p H) (conj (sw_neg_canon p H) (sw_to_affine_canon p H)))).
Qed.

(* ================= C03: twisted Edwards, extended coordinates ================= *)
(* C03_te_add *)
Theorem Bridge2_te_add : forall p, prime p -> 2 < p ->
  forall a d P Q, ZpField.canon p a -> ZpField.canon p d -> canon_te p P -> canon_te p Q ->
  te_valid (ZpOps p) P -> te_valid (ZpOps p) Q ->
  te_dens_ok (ZpOps p) d (te_to_affine (ZpOps p) P) (te_to_affine (ZpOps p) Q) ->
  te_valid (ZpOps p) (te_add (ZpOps p) a d P Q) /\
  te_to_affine (ZpOps p) (te_add (ZpOps p) a d P Q) =
  aff_add_te (ZpOps p) a d (te_to_affine (ZpOps p) P) (te_to_affine (ZpOps p) Q).
Proof. exact te_add_Zp. Qed.
(* C03_te_madd *)
Theorem Bridge2_te_madd : forall p, prime p -> 2 < p ->
  forall a d P Q, ZpField.canon p a -> ZpField.canon p d -> canon_te p P -> canon_pair p Q ->
  te_valid (ZpOps p) P -> te_dens_ok (ZpOps p) d (te_to_affine (ZpOps p) P) Q ->
  te_valid (ZpOps p) (te_madd (ZpOps p) a d P Q) /\
  te_to_affine (ZpOps p) (te_madd (ZpOps p) a d P Q) = aff_add_te (ZpOps p) a d (te_to_affine (ZpOps p) P) Q.
Proof. exact te_madd_Zp. Qed.
(* C03_te_double *)
Theorem Bridge2_te_double : forall p, prime p -> 2 < p ->
  forall a d P, ZpField.canon p a -> ZpField.canon p d -> canon_te p P ->
  te_valid (ZpOps p) P -> te_aff_on (ZpOps p) a d (te_to_affine (ZpOps p) P) ->
  te_dens_ok (ZpOps p) d (te_to_affine (ZpOps p) P) (te_to_affine (ZpOps p) P) ->
  te_valid (ZpOps p) (te_double (ZpOps p) a P) /\
  te_to_affine (ZpOps p) (te_double (ZpOps p) a P) =
  aff_add_te (ZpOps p) a d (te_to_affine (ZpOps p) P) (te_to_affine (ZpOps p) P).
Proof. exact te_double_Zp. Qed.
(* C03_te_neg *)
Theorem Bridge2_te_neg : forall p, prime p -> 2 < p ->
  forall P, canon_te p P -> te_valid (ZpOps p) P ->
  te_valid (ZpOps p) (te_neg (ZpOps p) P) /\
  te_to_affine (ZpOps p) (te_neg (ZpOps p) P) = aff_neg_te (ZpOps p) (te_to_affine (ZpOps p) P).
Proof. exact te_neg_Zp. Qed.
(* C03_te_eq_iff_same_affine *)
Theorem Bridge2_te_eq_iff_same_affine : forall p, prime p -> 2 < p ->
  forall P Q, canon_te p P -> canon_te p Q -> te_valid (ZpOps p) P -> te_valid (ZpOps p) Q ->
  (te_eqb (ZpOps p) P Q = true <-> te_to_affine (ZpOps p) P = te_to_affine (ZpOps p) Q).
Proof. exact te_eqb_Zp. Qed.
(* C03_te_complete: a a square, d a non-square (among canonical residues) => no denominator vanishes *)
Theorem Bridge2_te_complete : forall p, prime p -> 2 < p ->
  forall a d s, ZpField.canon p a -> ZpField.canon p d -> ZpField.canon p s ->
  a = fmul (ZpOps p) s s -> (forall w, ZpField.canon p w -> fmul (ZpOps p) w w <> d) ->
  forall A B, canon_pair p A -> canon_pair p B ->
  te_aff_on (ZpOps p) a d A -> te_aff_on (ZpOps p) a d B -> te_dens_ok (ZpOps p) d A B.
Proof. exact te_complete_Zp. Qed.
(* hence on a complete curve the unified addition is correct for ALL pairs of valid on-curve points *)
Theorem Bridge2_te_add_complete : forall p, prime p -> 2 < p ->
  forall a d s, ZpField.canon p a -> ZpField.canon p d -> ZpField.canon p s ->
  a = fmul (ZpOps p) s s -> (forall w, ZpField.canon p w -> fmul (ZpOps p) w w <> d) ->
  forall P Q, canon_te p P -> canon_te p Q -> te_valid (ZpOps p) P -> te_valid (ZpOps p) Q ->
  te_aff_on (ZpOps p) a d (te_to_affine (ZpOps p) P) -> te_aff_on (ZpOps p) a d (te_to_affine (ZpOps p) Q) ->
  te_valid (ZpOps p) (te_add (ZpOps p) a d P Q) /\
  te_to_affine (ZpOps p) (te_add (ZpOps p) a d P Q) =
  aff_add_te (ZpOps p) a d (te_to_affine (ZpOps p) P) (te_to_affine (ZpOps p) Q).
Proof. exact te_add_complete_Zp. Qed.

(* ================= C08: dense polynomials, division ================= *)
(* [okd F r f]: r = ROk v, v canonical (no trailing zero), eval v x = f x for EVERY integer x *)
(* C08_add *)
Theorem Bridge2_poly_add : forall p, prime p ->
  forall P Q, Forall (ZpField.canon p) P -> Forall (ZpField.canon p) Q ->
  Common.canon (ZpOps p) P -> Common.canon (ZpOps p) Q ->
  okd (ZpOps p) (d_add (ZpOps p) P Q) (fun x => fadd (ZpOps p) (eval (ZpOps p) P x) (eval (ZpOps p) Q x)).
Proof. exact d_add_Zp. Qed.
(* C08_sub *)
Theorem Bridge2_poly_sub : forall p, prime p ->
  forall P Q, Forall (ZpField.canon p) P -> Forall (ZpField.canon p) Q ->
  Common.canon (ZpOps p) P -> Common.canon (ZpOps p) Q ->
  okd (ZpOps p) (d_sub (ZpOps p) P Q) (fun x => fsub (ZpOps p) (eval (ZpOps p) P x) (eval (ZpOps p) Q x)).
Proof. exact d_sub_Zp. Qed.
(* C08_naive_mul *)
Theorem Bridge2_poly_naive_mul : forall p, prime p ->
  forall P Q, Forall (ZpField.canon p) P -> Forall (ZpField.canon p) Q ->
  Common.canon (ZpOps p) P -> Common.canon (ZpOps p) Q ->
  okd (ZpOps p) (d_naive_mul (ZpOps p) P Q) (fun x => fmul (ZpOps p) (eval (ZpOps p) P x) (eval (ZpOps p) Q x)).
Proof. exact d_naive_mul_Zp. Qed.
(* C08_mul *)
Theorem Bridge2_poly_mul : forall p, prime p ->
  forall P Q, Forall (ZpField.canon p) P -> Forall (ZpField.canon p) Q ->
  Common.canon (ZpOps p) P -> Common.canon (ZpOps p) Q ->
  okd (ZpOps p) (d_mul (ZpOps p) P Q) (fun x => fmul (ZpOps p) (eval (ZpOps p) P x) (eval (ZpOps p) Q x)).
Proof. exact d_mul_Zp. Qed.
(* C08_division: a = q b + r, r = 0 or deg r < deg b; dense or sparse operands *)
Theorem Bridge2_poly_division : forall p, prime p ->
  forall a b, canon_dos p a -> canon_dos p b ->
  dos_canon (ZpOps p) a -> dos_canon (ZpOps p) b -> dos_is_zero (ZpOps p) b = false ->
  exists q r db, divide (ZpOps p) a b = ROk (q, r) /\ dos_degree (ZpOps p) b = ROk db /\
    Common.canon (ZpOps p) q /\ Common.canon (ZpOps p) r /\ (length r <= db)%nat /\
    forall x, dos_eval (ZpOps p) a x =
              fadd (ZpOps p) (fmul (ZpOps p) (eval (ZpOps p) q x) (dos_eval (ZpOps p) b x)) (eval (ZpOps p) r x).
Proof. exact divide_Zp. Qed.

(* ================= C17: dense multilinear extensions (ring laws only: EVERY modulus p) ================= *)
(* C17_mle_eval_is_hypercube_sum *)
Theorem Bridge2_mle_eval_is_hypercube_sum : forall p (P : C17.Mle.dmle Z) (x : list Z),
  ZpTransfer4.canon_dm p P -> Forall (ZpField.canon p) x ->
  C17.Spec.d_wf P -> length x = C17.Mle.d_nv P ->
  C17.Mle.d_eval (ZpOps p) P x = C17.Mle.Ok (C17.Spec.hsum (ZpOps p) (C17.Spec.tab (ZpOps p) P) x).
Proof. exact ZpTransfer4.d_eval_Zp. Qed.
(* C17_fix_variables_spec *)
Theorem Bridge2_fix_variables_spec : forall p (P : C17.Mle.dmle Z) (pp : list Z),
  ZpTransfer4.canon_dm p P -> Forall (ZpField.canon p) pp ->
  C17.Spec.d_wf P -> (length pp <= C17.Mle.d_nv P)%nat ->
  exists q : C17.Mle.dmle Z,
    C17.Mle.d_fix (ZpOps p) P pp = C17.Mle.Ok q /\
    C17.Mle.d_nv q = (C17.Mle.d_nv P - length pp)%nat /\ C17.Spec.d_wf q /\
    (forall c : nat, C17.Spec.tab (ZpOps p) q c =
       C17.Spec.sumf (ZpOps p)
         (fun b : nat => fmul (ZpOps p) (C17.Spec.tab (ZpOps p) P (b + C17.Mle.pow2 (length pp) * c))
                                        (C17.Spec.eqpoly (ZpOps p) b pp))
         (C17.Mle.pow2 (length pp))).
Proof. exact ZpTransfer4.d_fix_Zp. Qed.

(* ================= C07: FFT ================= *)
(* C07_radix2_fft_spec: both sides of the degree-aware threshold, subgroup and coset *)
Theorem Bridge2_radix2_fft_spec : forall p, prime p ->
  forall (d : domain Z) k (coeffs : list Z), canon_dom p d -> Forall (ZpField.canon p) coeffs ->
  d_size d = Z.of_nat (2 ^ k) -> d_log d = Z.of_nat k -> prim_root (ZpOps p) k (d_gen d) ->
  (length coeffs <= 2 ^ k)%nat ->
  radix2_fft (ZpOps p) d coeffs = Some (dft_coset (ZpOps p) (2 ^ k) (d_offset d) (d_gen d) coeffs).
Proof. exact radix2_fft_Zp. Qed.
(* C07_serial_mixed_radix_fft_spec *)
Theorem Bridge2_serial_mixed_radix_fft_spec : forall p, prime p ->
  forall (q s t : nat) omega (a : list Z), ZpField.canon p omega -> Forall (ZpField.canon p) a ->
  (3 <= q)%nat -> Z.odd (Z.of_nat q) = true -> length a = (2 ^ s * q ^ t)%nat ->
  Dft.pown (ZpOps p) omega (2 ^ s * q ^ t) = f1 (ZpOps p) ->
  ((1 <= s)%nat -> Dft.pown (ZpOps p) omega (2 ^ (s - 1) * q ^ t) = fneg (ZpOps p) (f1 (ZpOps p))) ->
  serial_mixed_radix_fft (ZpOps p) (Z.of_nat q) a omega (Z.of_nat s) =
  Some (dft (ZpOps p) (2 ^ s * q ^ t) omega a).
Proof. exact serial_mixed_radix_fft_Zp. Qed.

(* ================= C11: square roots, Legendre symbol (operations passed as in C11/Run.v) ================= *)
(* C11_case3mod4_exact: the Fermat premise is only required on canonical x *)
Theorem Bridge2_case3mod4_exact : forall p, prime p ->
  forall m : Z, 0 < m ->
  (forall x, ZpField.canon p x -> x <> 0 ->
     pow (f1 (ZpOps p)) (fmul (ZpOps p)) x (4 * m - 2) = f1 (ZpOps p)) ->
  forall a : Z, ZpField.canon p a ->
  (exists y, ZpField.canon p y /\
     sqrt_case3mod4 (f1 (ZpOps p)) (fmul (ZpOps p)) (feqb (ZpOps p)) m a = SqSome y /\ fmul (ZpOps p) y y = a) \/
  (sqrt_case3mod4 (f1 (ZpOps p)) (fmul (ZpOps p)) (feqb (ZpOps p)) m a = SqNone /\ ~ is_sq (fmul (ZpOps p)) a).
Proof. exact case3mod4_Zp. Qed.
(* C11_legendre_euler *)
Theorem Bridge2_legendre_euler : forall p, prime p ->
  forall (s : nat) (tm z : Z), (1 <= s)%nat -> 0 <= tm -> ZpField.canon p z ->
  (forall x, ZpField.canon p x -> x <> 0 ->
     pow (f1 (ZpOps p)) (fmul (ZpOps p)) x (2 ^ Z.of_nat s * (2 * tm + 1)) = f1 (ZpOps p)) ->
  sqn (fmul (ZpOps p)) (s - 1) z = fneg (ZpOps p) (f1 (ZpOps p)) ->
  forall x : Z, ZpField.canon p x ->
  (x = f0 (ZpOps p) /\
     legendre_pow (f0 (ZpOps p)) (f1 (ZpOps p)) (fmul (ZpOps p)) (feqb (ZpOps p)) (2 ^ Z.of_nat (s - 1) * (2 * tm + 1)) x = 0) \/
  (x <> f0 (ZpOps p) /\ is_sq (fmul (ZpOps p)) x /\
     legendre_pow (f0 (ZpOps p)) (f1 (ZpOps p)) (fmul (ZpOps p)) (feqb (ZpOps p)) (2 ^ Z.of_nat (s - 1) * (2 * tm + 1)) x = 1) \/
  (~ is_sq (fmul (ZpOps p)) x /\
     legendre_pow (f0 (ZpOps p)) (f1 (ZpOps p)) (fmul (ZpOps p)) (feqb (ZpOps p)) (2 ^ Z.of_nat (s - 1) * (2 * tm + 1)) x = -1).
Proof. exact legendre_euler_Zp. Qed.
(* C11_quad_sqrt_exact_over_tonelli_shanks: Fp2 = Fp[X]/(X^2 - nr) over the executed base dictionary;
   [q_mul (fadd B) (fmul B) nr] is the multiplication of [QuadOps B nr] *)
Theorem Bridge2_quad_sqrt_exact_over_tonelli_shanks : forall p, prime p ->
  forall nr two_inv : Z, ZpField.canon p nr -> ZpField.canon p two_inv ->
  ~ is_sq (fmul (ZpOps p)) nr -> fmul (ZpOps p) (fadd (ZpOps p) (f1 (ZpOps p)) (f1 (ZpOps p))) two_inv = f1 (ZpOps p) ->
  forall (s : nat) (tm z : Z), (1 <= s)%nat -> 0 <= tm -> ZpField.canon p z ->
  (forall x, ZpField.canon p x -> x <> 0 ->
     pow (f1 (ZpOps p)) (fmul (ZpOps p)) x (2 ^ Z.of_nat s * (2 * tm + 1)) = f1 (ZpOps p)) ->
  sqn (fmul (ZpOps p)) (s - 1) z = fneg (ZpOps p) (f1 (ZpOps p)) ->
  forall a : Z * Z, canon2 p a ->
  let bleg := legendre_pow (f0 (ZpOps p)) (f1 (ZpOps p)) (fmul (ZpOps p)) (feqb (ZpOps p))
                (2 ^ Z.of_nat (s - 1) * (2 * tm + 1)) in
  let bsqrt := sqrt_ts (f0 (ZpOps p)) (f1 (ZpOps p)) (fmul (ZpOps p)) (feqb (ZpOps p)) s z tm bleg in
  (exists y, canon2 p y /\
     quad_sqrt (f0 (ZpOps p)) (fadd (ZpOps p)) (fsub (ZpOps p)) (fmul (ZpOps p)) (finv (ZpOps p)) (feqb (ZpOps p))
       nr two_inv bsqrt bleg a = SqSome y /\
     q_mul (fadd (ZpOps p)) (fmul (ZpOps p)) nr y y = a) \/
  (quad_sqrt (f0 (ZpOps p)) (fadd (ZpOps p)) (fsub (ZpOps p)) (fmul (ZpOps p)) (finv (ZpOps p)) (feqb (ZpOps p))
     nr two_inv bsqrt bleg a = SqNone /\
   ~ is_sq2 (fadd (ZpOps p)) (fmul (ZpOps p)) nr a).
Proof. exact quad_sqrt_over_ts_Zp. Qed.
(* C11_quad_sqrt_exact_over_case3mod4 *)
Theorem Bridge2_quad_sqrt_exact_over_case3mod4 : forall p, prime p ->
  forall nr two_inv : Z, ZpField.canon p nr -> ZpField.canon p two_inv ->
  ~ is_sq (fmul (ZpOps p)) nr -> fmul (ZpOps p) (fadd (ZpOps p) (f1 (ZpOps p)) (f1 (ZpOps p))) two_inv = f1 (ZpOps p) ->
  forall m : Z, 0 < m ->
  (forall x, ZpField.canon p x -> x <> 0 ->
     pow (f1 (ZpOps p)) (fmul (ZpOps p)) x (4 * m - 2) = f1 (ZpOps p)) ->
  forall a : Z * Z, canon2 p a ->
  let bleg := legendre_pow (f0 (ZpOps p)) (f1 (ZpOps p)) (fmul (ZpOps p)) (feqb (ZpOps p)) (2 * m - 1) in
  let bsqrt := sqrt_case3mod4 (f1 (ZpOps p)) (fmul (ZpOps p)) (feqb (ZpOps p)) m in
  (exists y, canon2 p y /\
     quad_sqrt (f0 (ZpOps p)) (fadd (ZpOps p)) (fsub (ZpOps p)) (fmul (ZpOps p)) (finv (ZpOps p)) (feqb (ZpOps p))
       nr two_inv bsqrt bleg a = SqSome y /\
     q_mul (fadd (ZpOps p)) (fmul (ZpOps p)) nr y y = a) \/
  (quad_sqrt (f0 (ZpOps p)) (fadd (ZpOps p)) (fsub (ZpOps p)) (fmul (ZpOps p)) (finv (ZpOps p)) (feqb (ZpOps p))
     nr two_inv bsqrt bleg a = SqNone /\
   ~ is_sq2 (fadd (ZpOps p)) (fmul (ZpOps p)) nr a).
Proof. exact quad_sqrt_over_3mod4_Zp. Qed.
(* the multiplication used above is the one of the executed tower dictionary *)
Theorem Bridge2_q_mul_is_QuadOps : forall p nr (x y : Z * Z),
  q_mul (fadd (ZpOps p)) (fmul (ZpOps p)) nr x y = fmul (QuadOps (ZpOps p) nr) x y.
Proof. exact (fun p nr x y => eq_refl). Qed.

(* ================= C13: simplified SWU map ================= *)
(* C13_swu_correct with the field operations of ZpOps p; the oracles is_qr / sqrt / parity are arbitrary
   functions on Z whose premises are only required on canonical arguments; sqrt returns canonical roots *)
Theorem Bridge2_swu_correct : forall p, prime p ->
  forall (is_qr : Z -> bool) (sqrt : Z -> option Z) (parity : Z -> bool),
  (forall x r, ZpField.canon p x -> sqrt x = Some r -> ZpField.canon p r) ->
  forall a b zeta : Z, ZpField.canon p a -> ZpField.canon p b -> ZpField.canon p zeta ->
  a <> f0 (ZpOps p) -> zeta <> f0 (ZpOps p) ->
  (forall x, ZpField.canon p x -> is_qr x = true -> exists r, sqrt x = Some r /\ fmul (ZpOps p) r r = x) ->
  sqrt (f0 (ZpOps p)) = Some (f0 (ZpOps p)) ->
  (forall x, ZpField.canon p x -> x <> f0 (ZpOps p) -> is_qr x = false -> is_qr (fmul (ZpOps p) zeta x) = true) ->
  is_qr (sw_g (fadd (ZpOps p)) (fmul (ZpOps p)) a b (fmul (ZpOps p) b (finv (ZpOps p) (fmul (ZpOps p) zeta a)))) = true ->
  forall u, ZpField.canon p u -> exists x y, ZpField.canon p x /\ ZpField.canon p y /\
    swu_coded (f0 (ZpOps p)) (f1 (ZpOps p)) (fadd (ZpOps p)) (fmul (ZpOps p)) (fneg (ZpOps p)) (finv (ZpOps p))
      (feqb (ZpOps p)) is_qr sqrt parity a b zeta u = MOk (x, y) /\
    fmul (ZpOps p) y y = fadd (ZpOps p) (fadd (ZpOps p) (fmul (ZpOps p) (fmul (ZpOps p) x x) x) (fmul (ZpOps p) a x)) b /\
    ((forall z, ZpField.canon p z -> z <> f0 (ZpOps p) -> parity (fneg (ZpOps p) z) = negb (parity z)) ->
     y <> f0 (ZpOps p) -> parity y = parity u).
Proof. exact swu_Zp. Qed.

(* ================= Link composed with the Bridge ================= *)
(* associativity over FpOps p <=> associativity of the executed law on canonical curve points *)
Theorem Bridge2_sw_assoc_lift : forall p a b, 0 < p -> ZpField.canon p a -> ZpField.canon p b ->
  sw_law_assoc_Zp p a b -> sw_law_assoc (FpOps p) (fp_of p a) (fp_of p b).
Proof. exact sw_assoc_lift. Qed.
Theorem Bridge2_sw_assoc_unlift : forall p a b, ZpField.canon p a -> ZpField.canon p b ->
  sw_law_assoc (FpOps p) (fp_of p a) (fp_of p b) -> sw_law_assoc_Zp p a b.
Proof. exact sw_assoc_unlift. Qed.
(* Link_sw_double_and_add (= C04_double_and_add_spec) for the executed Jacobian dictionary *)
Theorem Bridge2_Link_sw_double_and_add : forall p, prime p -> 2 < p ->
  forall a b, ZpField.canon p a -> ZpField.canon p b ->
  sw_law_assoc (FpOps p) (fp_of p a) (fp_of p b) ->
  forall limbs P, wf limbs -> canon_jac p P -> jac_on (ZpOps p) a b P ->
  jac_on (ZpOps p) a b (C04.ScalarMul.mul_bigint_proj (C04.Run.sw_gops (ZpOps p) a) limbs P) /\
  sw_to_affine (ZpOps p) (C04.ScalarMul.mul_bigint_proj (C04.Run.sw_gops (ZpOps p) a) limbs P)
  = C04.GroupTheory.smul (aff_add_sw (ZpOps p) a) (aff_neg_sw (ZpOps p)) None (val limbs) (sw_to_affine (ZpOps p) P).
Proof. exact sw_double_and_add_Zp. Qed.
(* Link_sw_msm (= C05_msm_bigint_spec, both bucket methods) for the executed Jacobian dictionary *)
Theorem Bridge2_Link_sw_msm : forall p, prime p -> 2 < p ->
  forall a b, ZpField.canon p a -> ZpField.canon p b ->
  sw_law_assoc (FpOps p) (fp_of p a) (fp_of p b) ->
  forall cheap nb bases scalars,
  1 <= nb -> Z.min (C05.MsmModel.len bases) (C05.MsmModel.len scalars) < 2 ^ 64 ->
  Forall (canon_aff p) bases -> Forall (aff_on (ZpOps p) a b) bases ->
  Forall (fun s => wf s /\ nb <= 64 * C05.MsmModel.len s /\ val s < 2 ^ nb) scalars ->
  exists g, C05.MsmModel.msm_bigint (C05.Run.sw_gops (ZpOps p) a) cheap nb bases scalars = C05.MsmModel.Ok g /\
            canon_jac p g /\ jac_on (ZpOps p) a b g /\
            sw_to_affine (ZpOps p) g = C05.GroupProofs.msum (aff_add_sw (ZpOps p) a) None
              (map (fun q => C05.GroupProofs.smul (aff_add_sw (ZpOps p) a) (aff_neg_sw (ZpOps p)) None (val (fst q)) (snd q))
                   (combine scalars bases)).
Proof. exact sw_msm_Zp. Qed.
(* Link_te_double_and_add (= C04_double_and_add_spec) for the executed extended-coordinates dictionary of a
   complete Edwards curve: a = s^2, d a non-square among the canonical residues; [okR] = te_valid + on the curve *)
Theorem Bridge2_Link_te_double_and_add : forall p, prime p -> 2 < p ->
  forall a d s, ZpField.canon p a -> ZpField.canon p d -> ZpField.canon p s ->
  a = fmul (ZpOps p) s s -> (forall w, ZpField.canon p w -> fmul (ZpOps p) w w <> d) ->
  te_law_assoc (FpOps p) (fp_of p a) (fp_of p d) ->
  forall limbs P, wf limbs -> canon_te p P -> okR (ZpOps p) a d P ->
  okR (ZpOps p) a d (C04.ScalarMul.mul_bigint_proj (C04.Run.te_gops (ZpOps p) a d) limbs P) /\
  te_to_affine (ZpOps p) (C04.ScalarMul.mul_bigint_proj (C04.Run.te_gops (ZpOps p) a d) limbs P)
  = C04.GroupTheory.smul (aff_add_te (ZpOps p) a d) (aff_neg_te (ZpOps p)) (te_aff_zero (ZpOps p)) (val limbs)
      (te_to_affine (ZpOps p) P).
Proof. exact te_double_and_add_Zp. Qed.

(* ================= non-vacuity: p = 13 (and p = 7 for Case3Mod4) ================= *)
(* C03, short Weierstrass: y^2 = x^3 + 2 over F_13 (canonical on-curve P, Q in Bridge_example_sw_hyps) *)
Example Bridge2_example_sw_hyps : canon_aff 13 (Some (1, 4)) /\ aff_on (ZpOps 13) 0 2 (Some (1, 4)) /\
  Forall (canon_jac 13) [(4, 6, 2); (1, 4, 1); (1, 1, 0)].
Proof. exact ex13_sw_aff_hyps. Qed.
Example Bridge2_example_sw_run :
  sw_to_affine (ZpOps 13) (sw_madd (ZpOps 13) 0 (4, 6, 2) (Some (1, 4))) = Some (2, 7) /\
  aff_add_sw (ZpOps 13) 0 (sw_to_affine (ZpOps 13) (4, 6, 2)) (Some (1, 4)) = Some (2, 7) /\
  sw_to_affine (ZpOps 13) (sw_double (ZpOps 13) 0 (4, 6, 2)) = Some (2, 7) /\
  sw_eqb (ZpOps 13) (4, 6, 2) (1, 4, 1) = true /\
  sw_normalize_batch (ZpOps 13) [(4, 6, 2); (1, 4, 1); (1, 1, 0)] = [Some (1, 4); Some (1, 4); None].
Proof. vm_compute. repeat split; reflexivity. Qed.
(* C03, twisted Edwards: 12 x^2 + y^2 = 1 + 6 x^2 y^2 over F_13, a = 5^2, d = 6 a non-square *)
Example Bridge2_example_te_hyps :
  ZpField.canon 13 12 /\ ZpField.canon 13 6 /\ ZpField.canon 13 5 /\ 12 = fmul (ZpOps 13) 5 5 /\
  (forall w, ZpField.canon 13 w -> fmul (ZpOps 13) w w <> 6).
Proof. exact ex13_te_hyps. Qed.
Example Bridge2_example_te_points :
  canon_te 13 (2, 12, 12, 2) /\ canon_te 13 (3, 4, 12, 1) /\
  te_valid (ZpOps 13) (2, 12, 12, 2) /\ te_valid (ZpOps 13) (3, 4, 12, 1) /\
  te_aff_on (ZpOps 13) 12 6 (te_to_affine (ZpOps 13) (2, 12, 12, 2)) /\
  te_aff_on (ZpOps 13) 12 6 (te_to_affine (ZpOps 13) (3, 4, 12, 1)).
Proof. exact ex13_te_points. Qed.
(* the theorem instantiated, no field premise left: every pair of valid on-curve representatives *)
Example Bridge2_te_add_13 : forall P Q, canon_te 13 P -> canon_te 13 Q ->
  te_valid (ZpOps 13) P -> te_valid (ZpOps 13) Q ->
  te_aff_on (ZpOps 13) 12 6 (te_to_affine (ZpOps 13) P) -> te_aff_on (ZpOps 13) 12 6 (te_to_affine (ZpOps 13) Q) ->
  te_valid (ZpOps 13) (te_add (ZpOps 13) 12 6 P Q) /\
  te_to_affine (ZpOps 13) (te_add (ZpOps 13) 12 6 P Q) =
  aff_add_te (ZpOps 13) 12 6 (te_to_affine (ZpOps 13) P) (te_to_affine (ZpOps 13) Q).
Proof. exact te_add_Zp13. Qed.
Example Bridge2_example_te_run :
  te_to_affine (ZpOps 13) (te_add (ZpOps 13) 12 6 (2, 12, 12, 2) (3, 4, 12, 1)) =
  aff_add_te (ZpOps 13) 12 6 (1, 6) (3, 4) /\
  te_eqb (ZpOps 13) (2, 12, 12, 2) (1, 6, 6, 1) = true.
Proof. vm_compute. split; reflexivity. Qed.
(* C08 *)
Example Bridge2_example_poly_hyps :
  Forall (ZpField.canon 13) [1; 2; 3] /\ Forall (ZpField.canon 13) [1; 2; 10] /\
  Common.canon (ZpOps 13) [1; 2; 3] /\ Common.canon (ZpOps 13) [1; 2; 10] /\
  canon_dos 13 (DP [1; 2; 3; 4]) /\ canon_dos 13 (SP [(0%nat, 1); (2%nat, 3)]) /\
  dos_canon (ZpOps 13) (DP [1; 2; 3; 4]) /\ dos_canon (ZpOps 13) (SP [(0%nat, 1); (2%nat, 3)]) /\
  dos_is_zero (ZpOps 13) (SP [(0%nat, 1); (2%nat, 3)]) = false.
Proof. exact ex13_c08_hyps. Qed.
Example Bridge2_example_poly_run :
  d_add (ZpOps 13) [1; 2; 3] [1; 2; 10] = ROk [2; 4] /\
  d_naive_mul (ZpOps 13) [1; 2; 3] [1; 2; 10] = ROk [1; 4; 4; 0; 4] /\
  divide (ZpOps 13) (DP [1; 2; 3; 4]) (SP [(0%nat, 1); (2%nat, 3)]) = ROk ([1; 10], [0; 5]).
Proof. vm_compute. repeat split; reflexivity. Qed.
(* C17 *)
Example Bridge2_example_mle_hyps :
  ZpTransfer4.canon_dm 13 (C17.Mle.mkD 2 [1; 2; 3; 4]) /\ Forall (ZpField.canon 13) [5; 6] /\
  C17.Spec.d_wf (C17.Mle.mkD 2 [1; 2; 3; 4]) /\ length [5; 6] = C17.Mle.d_nv (C17.Mle.mkD 2 [1; 2; 3; 4]) /\
  Forall (ZpField.canon 13) [5] /\ (length [5] <= C17.Mle.d_nv (C17.Mle.mkD 2 [1; 2; 3; 4]))%nat.
Proof. exact ZpTransfer4.ex13_c17_hyps. Qed.
Example Bridge2_example_mle_run :
  C17.Mle.d_eval (ZpOps 13) (C17.Mle.mkD 2 [1; 2; 3; 4]) [5; 6] = C17.Mle.Ok 5 /\
  C17.Spec.hsum (ZpOps 13) (C17.Spec.tab (ZpOps 13) (C17.Mle.mkD 2 [1; 2; 3; 4])) [5; 6] = 5 /\
  C17.Mle.d_fix (ZpOps 13) (C17.Mle.mkD 2 [1; 2; 3; 4]) [5] = C17.Mle.Ok (C17.Mle.mkD 1 [6; 8]).
Proof. vm_compute. repeat split; reflexivity. Qed.
(* C07: 5 has order 4 mod 13; 4 has order 6 = 2 * 3 and 4^3 = -1 *)
Example Bridge2_example_fft_hyps :
  canon_dom 13 (mkDomain false 4 2 4 10 5 8 2 7 3) /\ Forall (ZpField.canon 13) [1; 2; 3] /\
  4 = Z.of_nat (2 ^ 2) /\ 2 = Z.of_nat 2 /\ prim_root (ZpOps 13) 2 5 /\ (length [1; 2; 3] <= 2 ^ 2)%nat /\
  ZpField.canon 13 4 /\ Forall (ZpField.canon 13) [1; 2; 3; 4; 5; 6] /\ (3 <= 3)%nat /\ Z.odd (Z.of_nat 3) = true /\
  length [1; 2; 3; 4; 5; 6] = (2 ^ 1 * 3 ^ 1)%nat /\ Dft.pown (ZpOps 13) 4 (2 ^ 1 * 3 ^ 1) = f1 (ZpOps 13) /\
  ((1 <= 1)%nat -> Dft.pown (ZpOps 13) 4 (2 ^ (1 - 1) * 3 ^ 1) = fneg (ZpOps 13) (f1 (ZpOps 13))).
Proof. exact ex13_c07_hyps. Qed.
Example Bridge2_example_fft_run :
  radix2_fft (ZpOps 13) (mkDomain false 4 2 4 10 5 8 2 7 3) [1; 2; 3] =
  Some (dft_coset (ZpOps 13) 4 2 5 [1; 2; 3]) /\
  serial_mixed_radix_fft (ZpOps 13) 3 [1; 2; 3; 4; 5; 6] 4 1 = Some (dft (ZpOps 13) 6 4 [1; 2; 3; 4; 5; 6]).
Proof. vm_compute. split; reflexivity. Qed.
(* C11: F_13 (s = 2, tm = 1, z = 8: Bridge_example_ts_hyps; nr = 2, 1/2 = 7), F_7 (m = 2, nr = 6, 1/2 = 4) *)
Example Bridge2_prime_7 : prime 7.
Proof. exact prime_7. Qed.
Example Bridge2_example_quad_hyps_13 :
  ZpField.canon 13 2 /\ ZpField.canon 13 7 /\ ~ is_sq (fmul (ZpOps 13)) 2 /\
  fmul (ZpOps 13) (fadd (ZpOps 13) (f1 (ZpOps 13)) (f1 (ZpOps 13))) 7 = f1 (ZpOps 13).
Proof. exact ex13_c11_quad_hyps. Qed.
Example Bridge2_example_case3mod4_hyps_7 :
  0 < 2 /\ (forall x, ZpField.canon 7 x -> x <> 0 ->
              pow (f1 (ZpOps 7)) (fmul (ZpOps 7)) x (4 * 2 - 2) = f1 (ZpOps 7)) /\
  ZpField.canon 7 6 /\ ZpField.canon 7 4 /\ ~ is_sq (fmul (ZpOps 7)) 6 /\
  fmul (ZpOps 7) (fadd (ZpOps 7) (f1 (ZpOps 7)) (f1 (ZpOps 7))) 4 = f1 (ZpOps 7).
Proof. exact ex7_c11_hyps. Qed.
Example Bridge2_example_sqrt_run :
  sqrt_case3mod4 (f1 (ZpOps 7)) (fmul (ZpOps 7)) (feqb (ZpOps 7)) 2 2 = SqSome 4 /\
  sqrt_case3mod4 (f1 (ZpOps 7)) (fmul (ZpOps 7)) (feqb (ZpOps 7)) 2 3 = SqNone /\
  legendre_pow (f0 (ZpOps 13)) (f1 (ZpOps 13)) (fmul (ZpOps 13)) (feqb (ZpOps 13)) 6 10 = 1 /\
  legendre_pow (f0 (ZpOps 13)) (f1 (ZpOps 13)) (fmul (ZpOps 13)) (feqb (ZpOps 13)) 6 2 = -1.
Proof. vm_compute. repeat split; reflexivity. Qed.
(* Link: y^2 = x^3 + 2 over F_13 -- associativity by exhaustion (Link/Examples.v), so NO premise is left:
   for every limb slice, the executed double-and-add on the representative (4, 6, 2) of (1, 4) *)
Example Bridge2_example_sw_assoc_13 : sw_law_assoc_Zp 13 0 2.
Proof. exact sw_assoc_Zp13. Qed.
Example Bridge2_Link_sw_double_and_add_13 : forall limbs, wf limbs ->
  sw_to_affine (ZpOps 13) (C04.ScalarMul.mul_bigint_proj (C04.Run.sw_gops (ZpOps 13) 0) limbs (4, 6, 2))
  = C04.GroupTheory.smul (aff_add_sw (ZpOps 13) 0) (aff_neg_sw (ZpOps 13)) None (val limbs) (Some (1, 4)).
Proof. exact sw_double_and_add_Zp13. Qed.
Example Bridge2_Link_example_run :
  sw_to_affine (ZpOps 13) (C04.ScalarMul.mul_bigint_proj (C04.Run.sw_gops (ZpOps 13) 0) [5; 0] (4, 6, 2)) = Some (5, 6) /\
  C04.GroupTheory.smul (aff_add_sw (ZpOps 13) 0) (aff_neg_sw (ZpOps 13)) None 5 (Some (1, 4)) = Some (5, 6).
Proof. vm_compute. split; reflexivity. Qed.
(* C13: y^2 = x^3 + x + 1 over F_13, zeta = 2, brute-force oracles [sqrt13], [is_qr13] *)
Example Bridge2_example_swu_hyps :
  (forall x r, ZpField.canon 13 x -> sqrt13 x = Some r -> ZpField.canon 13 r) /\
  ZpField.canon 13 1 /\ ZpField.canon 13 2 /\ 1 <> f0 (ZpOps 13) /\ 2 <> f0 (ZpOps 13) /\
  (forall x, ZpField.canon 13 x -> is_qr13 x = true -> exists r, sqrt13 x = Some r /\ fmul (ZpOps 13) r r = x) /\
  sqrt13 (f0 (ZpOps 13)) = Some (f0 (ZpOps 13)) /\
  (forall x, ZpField.canon 13 x -> x <> f0 (ZpOps 13) -> is_qr13 x = false -> is_qr13 (fmul (ZpOps 13) 2 x) = true) /\
  is_qr13 (sw_g (fadd (ZpOps 13)) (fmul (ZpOps 13)) 1 1
             (fmul (ZpOps 13) 1 (finv (ZpOps 13) (fmul (ZpOps 13) 2 1)))) = true.
Proof. exact ex13_c13_hyps. Qed.
Example Bridge2_example_swu_run :
  swu_coded (f0 (ZpOps 13)) (f1 (ZpOps 13)) (fadd (ZpOps 13)) (fmul (ZpOps 13)) (fneg (ZpOps 13)) (finv (ZpOps 13))
    (feqb (ZpOps 13)) is_qr13 sqrt13 Z.odd 1 1 2 5 = MOk (5, 1) /\
  fmul (ZpOps 13) 1 1 = fadd (ZpOps 13) (fadd (ZpOps 13) (fmul (ZpOps 13) (fmul (ZpOps 13) 5 5) 5) (fmul (ZpOps 13) 1 5)) 1.
Proof. vm_compute. split; reflexivity. Qed.
Example Bridge2_Link_te_double_and_add_13 : forall limbs, wf limbs ->
  te_to_affine (ZpOps 13) (C04.ScalarMul.mul_bigint_proj (C04.Run.te_gops (ZpOps 13) 12 6) limbs (2, 12, 12, 2))
  = C04.GroupTheory.smul (aff_add_te (ZpOps 13) 12 6) (aff_neg_te (ZpOps 13)) (te_aff_zero (ZpOps 13)) (val limbs) (1, 6).
Proof. exact te_double_and_add_Zp13. Qed.
