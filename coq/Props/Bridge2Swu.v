(* Bridge2, extension -- property theorems only (pinned statements closed by `exact`; Examples by `exact` / closed kernel
   computation).  C13_swu_equals_rfc (Props/C13Swu.v: the coded simplified SWU map IS the map of RFC 9380 6.6.2) at the
   dictionary that is actually EXECUTED in the correspondence checks, [ZpOps p : Fops Z], next to Bridge2_swu_correct
   (Props/Bridge2.v).  Field hypotheses are discharged from [prime p]; the oracles is_qr / sqrt / parity are arbitrary
   functions on Z whose premises (sqrt_ok, sqrt_zero, nonsquare_mul, exceptional_ok, parity_neg, sqrt_complete) are only
   required on canonical arguments; sqrt returns canonical roots.  Method: instance of the abstract theorem at the
   subset-type field [FpOps p], carried to [ZpOps p] by the parametricity relation (Base/ZpTransfer8Rfc.v). *)
From V Require Import Base.Field Base.ZpField Base.ZpTransfer8 Base.ZpTransfer8Rfc.
From V Require Import C13.Maps C13.SwuRfc.
Require Import Znumtheory.

Theorem Bridge2_swu_equals_rfc : forall p, prime p ->
  forall (is_qr : Z -> bool) (sqrt : Z -> option Z) (parity : Z -> bool),
  (forall x r, ZpField.canon p x -> sqrt x = Some r -> ZpField.canon p r) ->
  forall a b zeta : Z, ZpField.canon p a -> ZpField.canon p b -> ZpField.canon p zeta ->
  a <> f0 (ZpOps p) -> zeta <> f0 (ZpOps p) ->
  (forall x, ZpField.canon p x -> is_qr x = true -> exists r, sqrt x = Some r /\ fmul (ZpOps p) r r = x) ->
  sqrt (f0 (ZpOps p)) = Some (f0 (ZpOps p)) ->
  (forall x, ZpField.canon p x -> x <> f0 (ZpOps p) -> is_qr x = false -> is_qr (fmul (ZpOps p) zeta x) = true) ->
  is_qr (sw_g (fadd (ZpOps p)) (fmul (ZpOps p)) a b (fmul (ZpOps p) b (finv (ZpOps p) (fmul (ZpOps p) zeta a)))) = true ->
  (forall z, ZpField.canon p z -> z <> f0 (ZpOps p) -> parity (fneg (ZpOps p) z) = negb (parity z)) ->
  (forall x r, ZpField.canon p r -> r <> f0 (ZpOps p) -> fmul (ZpOps p) r r = x ->
     exists s, sqrt x = Some s /\ fmul (ZpOps p) s s = x) ->
  forall u, ZpField.canon p u ->
    (let tv1 := inv0 (f0 (ZpOps p)) (finv (ZpOps p)) (feqb (ZpOps p))
                  (fadd (ZpOps p) (fmul (ZpOps p) (sq (fmul (ZpOps p)) zeta) (sq (fmul (ZpOps p)) (sq (fmul (ZpOps p)) u)))
                                  (fmul (ZpOps p) zeta (sq (fmul (ZpOps p)) u))) in
     let x1 := if is0 (f0 (ZpOps p)) (feqb (ZpOps p)) tv1
               then fmul (ZpOps p) b (finv (ZpOps p) (fmul (ZpOps p) zeta a))
               else fmul (ZpOps p) (fmul (ZpOps p) (fneg (ZpOps p) b) (finv (ZpOps p) a)) (fadd (ZpOps p) (f1 (ZpOps p)) tv1) in
     sw_g (fadd (ZpOps p)) (fmul (ZpOps p)) a b x1 <> f0 (ZpOps p)) ->
    exists x y, ZpField.canon p x /\ ZpField.canon p y /\
      swu_coded (f0 (ZpOps p)) (f1 (ZpOps p)) (fadd (ZpOps p)) (fmul (ZpOps p)) (fneg (ZpOps p)) (finv (ZpOps p))
        (feqb (ZpOps p)) is_qr sqrt parity a b zeta u = MOk (x, y) /\
      swu_rfc (f0 (ZpOps p)) (f1 (ZpOps p)) (fadd (ZpOps p)) (fmul (ZpOps p)) (fneg (ZpOps p)) (finv (ZpOps p))
        (feqb (ZpOps p)) is_qr sqrt parity a b zeta u = Some (x, y).
Proof. exact swu_equals_rfc_Zp. Qed.
Print Assumptions Bridge2_swu_equals_rfc.

(* the premises added w.r.t. Bridge2_example_swu_hyps are satisfiable: y^2 = x^3 + x + 1 over F_13, zeta = 2, brute-force
   oracles [sqrt13], [is_qr13], parity = Z.odd; g(x1) <> 0 for every canonical u <> 0 *)
Example Bridge2_example_swu_rfc_hyps :
  (forall z, ZpField.canon 13 z -> z <> f0 (ZpOps 13) -> Z.odd (fneg (ZpOps 13) z) = negb (Z.odd z)) /\
  (forall x r, ZpField.canon 13 r -> r <> f0 (ZpOps 13) -> fmul (ZpOps 13) r r = x ->
     exists s, sqrt13 x = Some s /\ fmul (ZpOps 13) s s = x) /\
  (forall u, ZpField.canon 13 u -> u <> f0 (ZpOps 13) ->
     sw_g (fadd (ZpOps 13)) (fmul (ZpOps 13)) 1 1
       (swu_rfc_x1 (f0 (ZpOps 13)) (f1 (ZpOps 13)) (fadd (ZpOps 13)) (fmul (ZpOps 13)) (fneg (ZpOps 13))
          (finv (ZpOps 13)) (feqb (ZpOps 13)) 1 1 2 u) <> f0 (ZpOps 13)).
Proof. exact ex13_c13_rfc_hyps. Qed.
Example Bridge2_example_swu_rfc_run :
  swu_coded (f0 (ZpOps 13)) (f1 (ZpOps 13)) (fadd (ZpOps 13)) (fmul (ZpOps 13)) (fneg (ZpOps 13)) (finv (ZpOps 13))
    (feqb (ZpOps 13)) is_qr13 sqrt13 Z.odd 1 1 2 5 = MOk (5, 1) /\
  swu_rfc (f0 (ZpOps 13)) (f1 (ZpOps 13)) (fadd (ZpOps 13)) (fmul (ZpOps 13)) (fneg (ZpOps 13)) (finv (ZpOps 13))
    (feqb (ZpOps 13)) is_qr13 sqrt13 Z.odd 1 1 2 5 = Some (5, 1).
Proof. vm_compute. split; reflexivity. Qed.
