(* C01 -- property theorems only: pinned statements, each closed by `exact`.
   A field element is its raw Montgomery limb list; `val` is the little-endian value,
   `Wn N = 2^(64 N)`; the modulus is the limb list `m` (p = val m), quantified over: every
   length N and every odd value. *)
From V Require Import Base.Word C15.BigIntModel C01.InvModel C01.InvProofs C01.MontModel
  C01.MontProofs C01.SquareProofs C01.BitsProofs C01.SopProofs C01.ConvProofs C01.InverseProofs C01.InverseStd C01.BatchMont C01.DisplayProofs C01.Batch C01.BatchProofs.
Require Import Field_theory Znumtheory.

(* INV = -p^-1 mod 2^64, for every odd low limb (the 63-step square-and-multiply of `inv`) *)
Theorem C01_inv : forall m0, 0 <= m0 < W64 -> m0 mod 2 = 1 ->
  0 <= mont_inv m0 < W64 /\ (mont_inv m0 * m0) mod W64 = W64 - 1.
Proof. exact mont_inv_spec. Qed.

(* add / sub / neg: canonical result, equal to the integer operation mod p (on the stored
   representatives; Montgomery form is linear, so the same holds for the abstract values) *)
Theorem C01_add : forall m a b, wf m -> m <> [] -> wf a -> wf b ->
  length a = length m -> length b = length m -> val a < val m -> val b < val m ->
  let r := add_assign m a b in
  wf r /\ length r = length m /\ val r < val m /\ val r = (val a + val b) mod val m.
Proof. exact add_assign_spec. Qed.

Theorem C01_sub : forall m a b, wf m -> wf a -> wf b ->
  length a = length m -> length b = length m -> val a < val m -> val b < val m ->
  let r := sub_assign m a b in
  wf r /\ length r = length m /\ val r < val m /\ val r = (val a - val b) mod val m.
Proof. exact sub_assign_spec. Qed.

Theorem C01_neg : forall m a, wf m -> wf a -> length a = length m -> val a < val m ->
  let r := neg_in_place m a in
  wf r /\ length r = length m /\ val r < val m /\ val r = (- val a) mod val m.
Proof. exact neg_in_place_spec. Qed.

(* the final conditional subtraction shared by add/double/mul/square: for a pre-subtraction
   value x = val s + 2^(64N)*carry < 2p it returns x mod p, with or without a spare bit *)
Theorem C01_final_sub : forall m s (c : bool), wf m -> m <> [] -> wf s -> length s = length m ->
  val s + Wn (length m) * Z.b2z c < 2 * val m ->
  let r := final_sub m s c in
  wf r /\ length r = length m /\ val r < val m /\
  val r = (val s + Wn (length m) * Z.b2z c) mod val m.
Proof. exact final_sub_spec. Qed.

(* one outer iteration of the no-carry CIOS loop (any N): exact division by 2^64 *)
Theorem C01_cios_row : forall m0 inv,
  (forall x, (x + ((x * inv) mod W64) * m0) mod W64 = 0) ->
  forall m' a r bi, wf (m0 :: m') -> wf a -> wf r ->
  length r = length a -> length a = length (m0 :: m') -> u64 bi ->
  let r1 := nc_row (m0 :: m') a inv r bi in
  exists k, u64 k /\ length r1 = length r /\
    W64 * val r1 = val r + bi * val a + k * val (m0 :: m') /\
    (val r1 < Wn (length r) -> wf r1).
Proof. exact nc_row_spec. Qed.

(* no-carry CIOS multiplication: for all N, all odd p with 2p <= 2^(64N), all a < p, all b
   (any N-limb value): r < p and r * 2^(64N) = a * b (mod p); in particular `carry1 + carry2`
   never overflows *)
Theorem C01_mul_nocarry : forall m a b, wf m -> wf a -> wf b ->
  length a = length m -> length b = length m ->
  val m mod 2 = 1 -> 2 * val m <= Wn (length m) -> val a < val m ->
  let r := mul_nocarry m a b in
  wf r /\ length r = length m /\ val r < val m /\
  (val r * Wn (length m)) mod val m = (val a * val b) mod val m.
Proof. exact mul_nocarry_spec. Qed.

(* both eligibility rules (derive macro / trait) imply the spare bit, hence 2p <= 2^(64N) *)
Theorem C01_macro_rule_implies_spare_bit : forall m, wf m -> m <> [] ->
  nocarry_macro m = true -> has_spare_bit m = true.
Proof. exact nocarry_macro_spare. Qed.
Theorem C01_trait_rule_implies_spare_bit : forall m,
  nocarry_trait m = true -> has_spare_bit m = true.
Proof. exact nocarry_trait_spare. Qed.
Theorem C01_spare_bit_bound : forall m, wf m -> m <> [] -> has_spare_bit m = true ->
  2 * val m <= Wn (length m).
Proof. exact spare_bit_bound. Qed.

(* mul_assign as dispatched by either flavour, whenever its rule selects the no-carry loop *)
Theorem C01_mul_assign_nocarry_branch : forall (derived : bool) m a b, wf m -> wf a -> wf b ->
  length a = length m -> length b = length m -> val m mod 2 = 1 -> val a < val m ->
  (if derived then nocarry_macro m else nocarry_trait m) = true ->
  let r := mul_assign derived m a b in
  wf r /\ length r = length m /\ val r < val m /\
  (val r * Wn (length m)) mod val m = (val a * val b) mod val m.
Proof. exact mul_assign_nocarry_branch_spec. Qed.

(* into_bigint: r < p and r * 2^(64N) = a (mod p), i.e. r = a * R^-1 mod p *)
Theorem C01_into_bigint : forall m a, wf m -> wf a -> length a = length m ->
  val m mod 2 = 1 -> val a < val m ->
  let r := into_bigint m a in
  wf r /\ length r = length m /\ val r < val m /\
  (val r * Wn (length m)) mod val m = val a mod val m.
Proof. exact into_bigint_spec. Qed.

(* double *)
Theorem C01_double : forall m a, wf m -> m <> [] -> wf a -> length a = length m -> val a < val m ->
  let r := double_in_place m a in
  wf r /\ length r = length m /\ val r < val m /\ val r = (2 * val a) mod val m.
Proof. exact double_in_place_spec. Qed.

(* plain CIOS (full 2N-limb product, N reduction rows, carry-aware final subtraction): every
   odd modulus, with or without a spare bit -- the macro's non-no-carry code and the trait's
   mul_without_cond_subtract + (fixed, F01) branch selection *)
Theorem C01_mul_cios : forall m a b, wf m -> wf a -> wf b ->
  length a = length m -> length b = length m ->
  val m mod 2 = 1 -> val a < val m -> val b < val m ->
  let r := mul_cios m a b in
  wf r /\ length r = length m /\ val r < val m /\
  (val r * Wn (length m)) mod val m = (val a * val b) mod val m.
Proof. exact mul_cios_spec. Qed.

(* mul_assign as dispatched: both flavours, every modulus shape, every N *)
Theorem C01_mul_assign : forall (derived : bool) m a b, wf m -> wf a -> wf b ->
  length a = length m -> length b = length m ->
  val m mod 2 = 1 -> val a < val m -> val b < val m ->
  let r := mul_assign derived m a b in
  wf r /\ length r = length m /\ val r < val m /\
  (val r * Wn (length m)) mod val m = (val a * val b) mod val m.
Proof. exact mul_assign_spec. Qed.

(* the constants R (= ONE) and R2 computed by the const long division *)
Theorem C01_R : forall m, wf m -> 0 < val m ->
  wf (R_of m) /\ length (R_of m) = length m /\ val (R_of m) = Wn (length m) mod val m.
Proof. exact R_of_spec. Qed.
Theorem C01_R2 : forall m, wf m -> 0 < val m ->
  wf (R2_of m) /\ length (R2_of m) = length m /\
  val (R2_of m) = (Wn (length m) * Wn (length m)) mod val m.
Proof. exact R2_of_spec. Qed.

(* from_bigint: None exactly when x >= p, otherwise the canonical x * R mod p *)
Theorem C01_from_bigint : forall (derived : bool) m x, wf m -> wf x -> length x = length m ->
  val m mod 2 = 1 ->
  match from_bigint derived m x with
  | None => val m <= val x
  | Some r => val x < val m /\ wf r /\ length r = length m /\ val r < val m /\
              val r = (val x * Wn (length m)) mod val m
  end.
Proof. exact from_bigint_spec. Qed.

(* round trips *)
Theorem C01_from_into_roundtrip : forall (derived : bool) m x r, wf m -> wf x ->
  length x = length m -> val m mod 2 = 1 ->
  from_bigint derived m x = Some r -> into_bigint m r = x.
Proof. exact from_into_roundtrip. Qed.
Theorem C01_into_from_roundtrip : forall (derived : bool) m a, wf m -> wf a ->
  length a = length m -> val m mod 2 = 1 -> val a < val m ->
  from_bigint derived m (into_bigint m a) = Some a.
Proof. exact into_from_bigint. Qed.

(* standard form: with std m a := val (into_bigint m a), the code's own decoder, every
   operation is the integer operation modulo p *)
Theorem C01_std_add : forall m, wf m -> val m mod 2 = 1 -> forall a b, wf a -> wf b ->
  length a = length m -> length b = length m -> val a < val m -> val b < val m ->
  std m (add_assign m a b) = (std m a + std m b) mod val m.
Proof. exact std_add. Qed.
Theorem C01_std_sub : forall m, wf m -> val m mod 2 = 1 -> forall a b, wf a -> wf b ->
  length a = length m -> length b = length m -> val a < val m -> val b < val m ->
  std m (sub_assign m a b) = (std m a - std m b) mod val m.
Proof. exact std_sub. Qed.
Theorem C01_std_neg : forall m, wf m -> val m mod 2 = 1 -> forall a, wf a ->
  length a = length m -> val a < val m ->
  std m (neg_in_place m a) = (- std m a) mod val m.
Proof. exact std_neg. Qed.
Theorem C01_std_double : forall m, wf m -> val m mod 2 = 1 -> forall a, wf a ->
  length a = length m -> val a < val m ->
  std m (double_in_place m a) = (2 * std m a) mod val m.
Proof. exact std_double. Qed.
Theorem C01_std_mul : forall m, wf m -> val m mod 2 = 1 -> forall (derived : bool) a b, wf a -> wf b ->
  length a = length m -> length b = length m -> val a < val m -> val b < val m ->
  std m (mul_assign derived m a b) = (std m a * std m b) mod val m.
Proof. exact std_mul. Qed.
Theorem C01_std_one : forall m, wf m -> val m mod 2 = 1 -> 1 < val m -> std m (R_of m) = 1.
Proof. exact std_one. Qed.
Theorem C01_std_from_bigint : forall (derived : bool) m x r, wf m -> wf x -> length x = length m ->
  val m mod 2 = 1 -> from_bigint derived m x = Some r -> std m r = val x.
Proof. exact std_from_bigint_full. Qed.

(* square_in_place, both flavours, every N: for N = 1 it multiplies; for N >= 2 the dedicated
   loop (off-diagonal products, doubling pass, diagonal pass, Montgomery reduction,
   carry-aware subtraction) returns the canonical Montgomery square *)
Theorem C01_square : forall (derived : bool) m a, wf m -> wf a -> length a = length m ->
  val m mod 2 = 1 -> val a < val m ->
  let r := square_in_place derived m a in
  wf r /\ length r = length m /\ val r < val m /\
  (val r * Wn (length m)) mod val m = (val a * val a) mod val m.
Proof. exact square_in_place_spec. Qed.
Theorem C01_std_square : forall m, wf m -> val m mod 2 = 1 -> forall (derived : bool) a, wf a ->
  length a = length m -> val a < val m ->
  std m (square_in_place derived m a) = (std m a * std m a) mod val m.
Proof. exact std_square. Qed.

(* pow (Field::pow): square-and-multiply over BitIteratorBE::without_leading_zeros(e): for
   every limb-slice exponent (any length, leading zero limbs, empty), a^(val e) mod p *)
Theorem C01_pow : forall (derived : bool) m a e, wf m -> val m mod 2 = 1 -> 1 < val m ->
  wf a -> length a = length m -> val a < val m -> wf e ->
  let r := pow derived m a e in
  wf r /\ length r = length m /\ val r < val m /\
  std m r = (std m a ^ val e) mod val m.
Proof. exact pow_spec. Qed.

(* sum_of_products (inner product), every branch of both flavours, every N, every M:
   fallback (bits >= 64N-1), the interleaved loops with the carry_a/carry_b pair (macro M <= chunk,
   trait M = 2) and with the single wrapping carry word (trait), chunking with
   chunk_size = 2(64N - bits) - 1, macro remainder chunks through the naive fold; the result is
   the canonical inner product mod p.  (dot m ab 0 = sum of std a_i * std b_i.) *)
Theorem C01_sum_of_products : forall (derived : bool) m ab, wf m -> val m mod 2 = 1 ->
  Forall (okpair m) ab ->
  let r := sum_of_products derived m ab in
  elem_ok m r /\ std m r = dot m ab 0 mod val m.
Proof. exact sum_of_products_spec. Qed.
(* the carry bound behind it: with (M+1) p <= 2^(64N) the accumulated carry word never
   overflows and the running value stays below (M+1) p *)
Theorem C01_sop_interleaved : forall m ab, wf m -> val m mod 2 = 1 -> Forall (okpair m) ab ->
  (Z.of_nat (length ab) + 1) * val m <= Wn (length m) ->
  let r := sop_interleaved_ab m ab in elem_ok m r /\ std m r = dot m ab 0 mod val m.
Proof. exact sop_interleaved_ab_spec. Qed.
Theorem C01_chunk_bound : forall m (M : nat), wf m -> m <> [] ->
  const_num_bits m < 64 * Z.of_nat (length m) - 1 ->
  (M <= Z.to_nat (2 * (Z.of_nat (length m) * 64 - const_num_bits m) - 1))%nat ->
  (Z.of_nat M + 1) * val m <= Wn (length m).
Proof. exact chunk_bound. Qed.

(* Display prints the standard value (decimal, C15 `display`), and FromStr reads it back *)
Theorem C01_display : forall m a, wf m -> val m mod 2 = 1 -> elem_ok m a ->
  parse_signed (display_fp m a) = Some (std m a).
Proof. exact display_fp_spec. Qed.
Theorem C01_display_from_str_roundtrip : forall (d : bool) m a, wf m -> val m mod 2 = 1 ->
  elem_ok m a -> from_str d m (display_fp m a) = StrOk a.
Proof. exact display_from_str_roundtrip. Qed.

(* inverse (binary extended Euclid with b, c kept in Montgomery form; the `|= 1 << 63` repair
   when there is no spare bit): None exactly at zero; any Some r is canonical and is the
   inverse; the loop terminates whenever gcd(a, p) = 1 *)
Theorem C01_inverse : forall m a, wf m -> val m mod 2 = 1 -> wf a -> length a = length m ->
  val a < val m ->
  (val a = 0 -> inverse m a = InvNone) /\
  (val a <> 0 -> inverse m a <> InvNone) /\
  (forall r, inverse m a = InvSome r ->
     wf r /\ length r = length m /\ val r < val m /\
     (val r * val a) mod val m = (Wn (length m) * Wn (length m)) mod val m).
Proof. exact inverse_partial. Qed.
Theorem C01_inverse_terminates : forall m a, wf m -> val m mod 2 = 1 -> wf a ->
  length a = length m -> val a < val m -> rel_prime (val a) (val m) ->
  inverse m a <> InvOutOfFuel.
Proof. exact inverse_terminates. Qed.
(* standard form, prime modulus (premise `prime (val m)` is mathematics, not code) *)
Theorem C01_inverse_prime : forall m a, wf m -> val m mod 2 = 1 -> prime (val m) ->
  wf a -> length a = length m -> val a < val m -> val a <> 0 ->
  exists r, inverse m a = InvSome r /\ wf r /\ length r = length m /\ val r < val m /\
            (std m r * std m a) mod val m = 1.
Proof. exact inverse_prime. Qed.

(* conversions (all in standard form; `last m 0 <> 0` = the modulus really has N limbs, as the
   derive macro guarantees) *)
Theorem C01_from_int : forall (d : bool) m bits (signed : bool) x, wf m -> val m mod 2 = 1 ->
  last m 0 <> 0 ->
  (1 <= bits <= 64 \/ bits = 128) ->
  (if signed then - 2 ^ (bits - 1) <= x < 2 ^ (bits - 1) else 0 <= x < 2 ^ bits) ->
  exists r, from_int d m bits signed x = Some r /\
    wf r /\ length r = length m /\ val r < val m /\ std m r = x mod val m.
Proof. exact from_int_spec_top. Qed.
Theorem C01_from_le_bytes_mod_order : forall (d : bool) m bytes,
  wf m -> val m mod 2 = 1 -> last m 0 <> 0 -> bytes_ok bytes ->
  exists r, from_le_bytes_mod_order d m bytes = Some r /\
    wf r /\ length r = length m /\ val r < val m /\ std m r = le_val bytes mod val m.
Proof. exact from_le_bytes_mod_order_spec. Qed.
Theorem C01_from_be_bytes_mod_order : forall (d : bool) m bytes,
  wf m -> val m mod 2 = 1 -> last m 0 <> 0 -> bytes_ok bytes ->
  exists r, from_be_bytes_mod_order d m bytes = Some r /\
    wf r /\ length r = length m /\ val r < val m /\ std m r = be_val bytes mod val m.
Proof. exact from_be_bytes_mod_order_spec. Qed.
Theorem C01_from_biguint : forall (d : bool) m v, wf m -> val m mod 2 = 1 -> last m 0 <> 0 -> 0 <= v ->
  exists r, from_biguint d m v = Some r /\
    wf r /\ length r = length m /\ val r < val m /\ std m r = v mod val m.
Proof. exact from_biguint_spec. Qed.
(* FromStr: whatever signed decimal num-bigint parses (modelled by parse_signed) is reduced mod p *)
Theorem C01_from_str : forall (d : bool) m s, wf m -> val m mod 2 = 1 ->
  match parse_signed s with
  | None => from_str d m s = StrErr
  | Some v => exists r, from_str d m s = StrOk r /\
                wf r /\ length r = length m /\ val r < val m /\ std m r = v mod val m
  end.
Proof. exact from_str_spec. Qed.

(* serial batch inversion (Montgomery's trick), over any field: zeros untouched, every
   non-zero entry f becomes coeff / f *)
Theorem C01_batch_inversion : forall (K : Type) (zero one : K) (add mul sub : K -> K -> K)
  (opp : K -> K) (div : K -> K -> K) (inv : K -> K),
  field_theory zero one add mul sub opp div inv eq ->
  forall is0 : K -> bool, (forall x : K, is0 x = true <-> x = zero) ->
  forall (v : list K) (coeff : K),
  batch_inversion_and_mul one mul inv is0 v coeff =
  map (fun f : K => if is0 f then f else mul coeff (inv f)) v.
Proof. exact batch_inversion_and_mul_spec. Qed.

(* the same algorithm instantiated on Montgomery limbs exactly as Run.v / the harness run it
   (one = R, mul = mul_assign, inverse = MontConfig::inverse, is_zero): zeros are returned
   unchanged, every non-zero entry a becomes the canonical b with b * a = coeff in Z_p.
   Premise `prime (val m)`: mathematics about the modulus. *)
Theorem C01_batch_inversion_mont : forall (derived : bool) m v coeff,
  wf m -> val m mod 2 = 1 -> prime (val m) ->
  Forall (elem_ok m) v -> elem_ok m coeff ->
  let r := batch_inversion_and_mul (R_of m) (mul_assign derived m) (inv_fn m) is_zero v coeff in
  Forall2 (fun a b => elem_ok m b /\
             (if val a =? 0 then b = a else (std m b * std m a) mod val m = std m coeff)) v r.
Proof. exact batch_inversion_mont_spec. Qed.

(* non-vacuity: bls12_381 Fr (N = 4, spare bit, both rules eligible) satisfies the premises;
   (p-1)*(p-1) in Montgomery limbs; secp256k1 (no spare bit) for add with carry-out *)
Definition fr_m : list Z :=
  [18446744069414584321; 6034159408538082302; 3691218898639771653; 8353516859464449352].
Example C01_fr_premises :
  val fr_m mod 2 = 1 /\ (2 * val fr_m <=? Wn (length fr_m)) = true /\
  nocarry_macro fr_m = true /\ nocarry_trait fr_m = true.
Proof. vm_compute. repeat split; reflexivity. Qed.
Example C01_fr_mul_example :
  let a := [18446744069414584320; 6034159408538082302; 3691218898639771653; 8353516859464449352] in
  (val (mul_assign true fr_m a a) * Wn 4) mod val fr_m = (val a * val a) mod val fr_m
  /\ mul_assign true fr_m a a = mul_assign false fr_m a a.
Proof. vm_compute. split; reflexivity. Qed.
Definition secp_m : list Z :=
  [18446744069414583343; 18446744073709551615; 18446744073709551615; 18446744073709551615].
Example C01_secp_add_carry :
  let a := [18446744069414583342; 18446744073709551615; 18446744073709551615; 18446744073709551615] in
  has_spare_bit secp_m = false /\ snd (add_with_carry a a) = true /\
  val (add_assign secp_m a a) = (val a + val a) mod val secp_m.
Proof. vm_compute. repeat split; reflexivity. Qed.

(* secp256k1 base field: no spare bit, neither rule eligible -> plain CIOS with the carry-aware
   subtraction (the F01 path); (p-1)^2, a square, a product whose pre-subtraction value
   exceeds 2^256 *)
Example C01_secp_premises :
  val secp_m mod 2 = 1 /\ nocarry_macro secp_m = false /\ nocarry_trait secp_m = false.
Proof. vm_compute. repeat split; reflexivity. Qed.
Example C01_secp_mul_example :
  let a := [18446744069414583342; 18446744073709551615; 18446744073709551615; 18446744073709551615] in
  let r := mul_assign false secp_m a a in
  val r < val secp_m /\ (val r * Wn 4) mod val secp_m = (val a * val a) mod val secp_m /\
  square_in_place true secp_m a = r /\
  fst (mul_without_cond_subtract secp_m a a) = true.
Proof. vm_compute. repeat split; reflexivity. Qed.
(* standard form on a toy field: 3 * 5 = 1 in F_7, 3^-1 = 5, 3^4 = 4 *)
Example C01_f7_example :
  let m := [7] in
  let el x := match from_bigint true m [x] with Some r => r | None => [] end in
  std m (mul_assign true m (el 3) (el 5)) = 1 /\ std m (el 3) = 3 /\
  std m (pow false m (el 3) [4]) = 4 /\
  match inverse m (el 3) with InvSome r => std m r = 5 | _ => False end /\
  std m (sum_of_products false m [(el 3, el 5); (el 2, el 6)]) = (3 * 5 + 2 * 6) mod 7.
Proof. vm_compute. repeat split; reflexivity. Qed.
(* batch inversion on the executable Z_7 dictionary: zeros skipped, coeff 3 *)
Example C01_batch_example :
  batch_inversion_and_mul 1 (fun a b => (a * b) mod 7) (fun a => (a ^ 5) mod 7) (fun a => a =? 0)
    [2; 0; 3; 6] 3 = [5; 0; 1; 4].
Proof. vm_compute. reflexivity. Qed.
