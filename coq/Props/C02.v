(* C02 -- property theorems only: pinned statements, each closed by `exact`.
   Every statement is universally quantified over the base dictionary B (any commutative ring:
   `ring_theory` premise) and over all elements, so zero coordinates, base-field and
   sub-tower elements are covered.  `qmul B nr` / `cmul B nr` are the schoolbook products of
   B[X]/(X^2 - nr) and B[X]/(X^3 - nr) from Base/Field.v. *)
From V Require Import Base.Field C02.Quad C02.Cubic C02.Towers C02.QuadProofs C02.CubicProofs
  C02.TowerProofs C02.CycProofs C02.Inst C02.ZpInst C02.InstProofs C02.FrobProofs C02.Examples.

(* quadratic mul_assign (degree-2 sum_of_products path and Karatsuba path) = schoolbook *)
Theorem C02_quad_mul_spec :
  forall (T : Type) (B : Fops T),
  ring_theory (f0 B) (f1 B) (fadd B) (fmul B) (fsub B) (fneg B) eq ->
  forall N : nrops T, nrops_ok B N -> forall a b : T * T, quad_mul B N a b = qmul B (nr_const N) a b.
Proof. exact (@quad_mul_spec). Qed.

(* square_in_place (complex path when NONRESIDUE == -1, general path otherwise) = x * x *)
Theorem C02_quad_square_spec :
  forall (T : Type) (B : Fops T),
  ring_theory (f0 B) (f1 B) (fadd B) (fmul B) (fsub B) (fneg B) eq ->
  forall N : nrops T,
  nrops_ok B N ->
  (forall x y : T, feqb B x y = true -> x = y) ->
  forall a : T * T, quad_square B N a = qmul B (nr_const N) a a.
Proof. exact (@quad_square_spec). Qed.

(* norm = c0^2 - nr c1^2 *)
Theorem C02_quad_norm_spec :
  forall (T : Type) (B : Fops T),
  ring_theory (f0 B) (f1 B) (fadd B) (fmul B) (fsub B) (fneg B) eq ->
  forall N : nrops T, nrops_ok B N -> forall a : T * T, quad_norm B N a = qnorm B (nr_const N) a.
Proof. exact (@quad_norm_spec). Qed.

(* Norm(a) = a * conj(a) *)
Theorem C02_quad_norm_conj :
  forall (T : Type) (B : Fops T),
  ring_theory (f0 B) (f1 B) (fadd B) (fmul B) (fsub B) (fneg B) eq ->
  forall N : nrops T,
  nrops_ok B N -> forall a : T * T, qmul B (nr_const N) a (quad_conjugate B a) = (quad_norm B N a, f0 B).
Proof. exact (@quad_norm_conj). Qed.

(* inverse is correct whenever the norm is invertible (in a field: a <> 0) *)
Theorem C02_quad_inverse_spec :
  forall (T : Type) (B : Fops T),
  ring_theory (f0 B) (f1 B) (fadd B) (fmul B) (fsub B) (fneg B) eq ->
  forall N : nrops T,
  nrops_ok B N ->
  forall a r : T * T,
  quad_inverse B N a = Some r ->
  fmul B (qnorm B (nr_const N) a) (finv B (qnorm B (nr_const N) a)) = f1 B ->
  qmul B (nr_const N) a r = (f1 B, f0 B).
Proof. exact (@quad_inverse_spec). Qed.

(* inverse returns None only on zero / non-invertible norm *)
Theorem C02_quad_inverse_none :
  forall (T : Type) (B : Fops T) (N : nrops T),
  nrops_ok B N ->
  forall a : T * T,
  quad_inverse B N a = None -> quad_is_zero B a = true \/ fis0 B (qnorm B (nr_const N) a) = true.
Proof. exact (@quad_inverse_none). Qed.

(* cyclotomic inverse = conjugate is the inverse under x * conj x = 1 *)
Theorem C02_quad_cyclotomic_inverse_spec :
  forall (T : Type) (B : Fops T) (N : nrops T) (a : T * T),
  qmul B (nr_const N) a (quad_conjugate B a) = (f1 B, f0 B) ->
  forall r : T * T, quad_cyclotomic_inverse B a = Some r -> qmul B (nr_const N) a r = (f1 B, f0 B).
Proof. exact (@quad_cyclotomic_inverse_spec). Qed.

(* mul_assign_by_basefield = product with the embedded base element *)
Theorem C02_quad_mul_by_basefield_spec :
  forall (T : Type) (B : Fops T),
  ring_theory (f0 B) (f1 B) (fadd B) (fmul B) (fsub B) (fneg B) eq ->
  forall (N : nrops T) (a : T * T) (e : T),
  quad_mul_by_basefield B a e = qmul B (nr_const N) a (e, f0 B).
Proof. exact (@quad_mul_by_basefield_spec). Qed.

(* the schoolbook quadratic quotient of a commutative ring is a commutative ring (towers compose) *)
Theorem C02_quadops_ring :
  forall (T : Type) (B : Fops T),
  ring_theory (f0 B) (f1 B) (fadd B) (fmul B) (fsub B) (fneg B) eq ->
  forall c : T, let Q := QuadOps B c in ring_theory (f0 Q) (f1 Q) (fadd Q) (fmul Q) (fsub Q) (fneg Q) eq.
Proof. exact (@quadops_ring). Qed.

(* so is the dictionary built from the fast formulas *)
Theorem C02_quadM_ring :
  forall (T : Type) (B : Fops T),
  ring_theory (f0 B) (f1 B) (fadd B) (fmul B) (fsub B) (fneg B) eq ->
  forall N : nrops T,
  nrops_ok B N -> let Q := QuadM B N in ring_theory (f0 Q) (f1 Q) (fadd Q) (fmul Q) (fsub Q) (fneg Q) eq.
Proof. exact (@quadM_ring). Qed.

(* table-driven Frobenius is additive *)
Theorem C02_quad_frobenius_add :
  forall (T : Type) (B : Fops T),
  ring_theory (f0 B) (f1 B) (fadd B) (fmul B) (fsub B) (fneg B) eq ->
  forall (frobB coef : T -> T) (c : T),
  (forall x y : T, frobB (fadd B x y) = fadd B (frobB x) (frobB y)) ->
  (forall y : T, coef y = fmul B y c) ->
  forall a b : T * T,
  quad_frobenius frobB coef (qadd B a b) =
  qadd B (quad_frobenius frobB coef a) (quad_frobenius frobB coef b).
Proof. exact (@quad_frobenius_add). Qed.

(* ... and multiplicative as soon as c^2 nr = frob(nr) *)
Theorem C02_quad_frobenius_mul :
  forall (T : Type) (B : Fops T),
  ring_theory (f0 B) (f1 B) (fadd B) (fmul B) (fsub B) (fneg B) eq ->
  forall (N : nrops T) (frobB coef : T -> T) (c : T),
  (forall x y : T, frobB (fadd B x y) = fadd B (frobB x) (frobB y)) ->
  (forall x y : T, frobB (fmul B x y) = fmul B (frobB x) (frobB y)) ->
  (forall y : T, coef y = fmul B y c) ->
  fmul B (fmul B c c) (nr_const N) = frobB (nr_const N) ->
  forall a b : T * T,
  quad_frobenius frobB coef (qmul B (nr_const N) a b) =
  qmul B (nr_const N) (quad_frobenius frobB coef a) (quad_frobenius frobB coef b).
Proof. exact (@quad_frobenius_mul). Qed.

(* ... and sends the generator X to c X *)
Theorem C02_quad_frobenius_gen :
  forall (T : Type) (B : Fops T),
  ring_theory (f0 B) (f1 B) (fadd B) (fmul B) (fsub B) (fneg B) eq ->
  forall (frobB coef : T -> T) (c : T),
  (forall y : T, coef y = fmul B y c) ->
  frobB (f0 B) = f0 B -> frobB (f1 B) = f1 B -> quad_frobenius frobB coef (f0 B, f1 B) = (f0 B, c).
Proof. exact (@quad_frobenius_gen). Qed.

(* the default bodies of the four non-residue methods implement nr *)
Theorem C02_default_nrops_ok :
  forall (T : Type) (B : Fops T),
  ring_theory (f0 B) (f1 B) (fadd B) (fmul B) (fsub B) (fneg B) eq ->
  forall (nr : T) (mul_nr : T -> T),
  (forall y : T, mul_nr y = fmul B nr y) -> nrops_ok B (default_nrops B nr mul_nr).
Proof. exact (@default_nrops_ok). Qed.

(* cubic mul_assign (Karatsuba) = schoolbook *)
Theorem C02_cubic_mul_spec :
  forall (T : Type) (B : Fops T),
  ring_theory (f0 B) (f1 B) (fadd B) (fmul B) (fsub B) (fneg B) eq ->
  forall (nr : T) (mul_nr : T -> T),
  (forall y : T, mul_nr y = fmul B nr y) ->
  forall a b : T * T * T, cubic_mul B mul_nr a b = cmul B nr a b.
Proof. exact (@cubic_mul_spec). Qed.

(* cubic square_in_place (CH-SQR2) = x * x *)
Theorem C02_cubic_square_spec :
  forall (T : Type) (B : Fops T),
  ring_theory (f0 B) (f1 B) (fadd B) (fmul B) (fsub B) (fneg B) eq ->
  forall (nr : T) (mul_nr : T -> T),
  (forall y : T, mul_nr y = fmul B nr y) ->
  forall a : T * T * T, cubic_square B mul_nr a = cmul B nr a a.
Proof. exact (@cubic_square_spec). Qed.

(* cubic inverse (Alg. 17) correct whenever the norm is invertible *)
Theorem C02_cubic_inverse_spec :
  forall (T : Type) (B : Fops T),
  ring_theory (f0 B) (f1 B) (fadd B) (fmul B) (fsub B) (fneg B) eq ->
  forall (nr : T) (mul_nr : T -> T),
  (forall y : T, mul_nr y = fmul B nr y) ->
  forall a r : T * T * T,
  cubic_inverse B mul_nr a = CubicInvSome r ->
  fmul B (cnorm B nr a) (finv B (cnorm B nr a)) = f1 B -> cmul B nr a r = (f1 B, f0 B, f0 B).
Proof. exact (@cubic_inverse_spec). Qed.

(* no None / no unwrap panic on non-zero elements of non-zero norm *)
Theorem C02_cubic_inverse_total :
  forall (T : Type) (B : Fops T),
  ring_theory (f0 B) (f1 B) (fadd B) (fmul B) (fsub B) (fneg B) eq ->
  forall (nr : T) (mul_nr : T -> T),
  (forall y : T, mul_nr y = fmul B nr y) ->
  forall a : T * T * T,
  cubic_is_zero B a = false ->
  fis0 B (cnorm B nr a) = false -> exists r : T * T * T, cubic_inverse B mul_nr a = CubicInvSome r.
Proof. exact (@cubic_inverse_total). Qed.

(* mul_assign_by_base_field = product with the embedded base element *)
Theorem C02_cubic_mul_by_basefield_spec :
  forall (T : Type) (B : Fops T),
  ring_theory (f0 B) (f1 B) (fadd B) (fmul B) (fsub B) (fneg B) eq ->
  forall (nr : T) (a : T * T * T) (e : T), cubic_mul_by_basefield B a e = cmul B nr a (e, f0 B, f0 B).
Proof. exact (@cubic_mul_by_basefield_spec). Qed.

(* the schoolbook cubic quotient of a commutative ring is a commutative ring *)
Theorem C02_cubicops_ring :
  forall (T : Type) (B : Fops T),
  ring_theory (f0 B) (f1 B) (fadd B) (fmul B) (fsub B) (fneg B) eq ->
  forall nr : T,
  let Q := CubicOps B nr in ring_theory (f0 Q) (f1 Q) (fadd Q) (fmul Q) (fsub Q) (fneg Q) eq.
Proof. exact (@cubicops_ring). Qed.

(* so is the dictionary built from the fast formulas *)
Theorem C02_cubicM_ring :
  forall (T : Type) (B : Fops T),
  ring_theory (f0 B) (f1 B) (fadd B) (fmul B) (fsub B) (fneg B) eq ->
  forall (nr : T) (mul_nr : T -> T),
  (forall y : T, mul_nr y = fmul B nr y) ->
  let Q := CubicM B mul_nr in ring_theory (f0 Q) (f1 Q) (fadd Q) (fmul Q) (fsub Q) (fneg Q) eq.
Proof. exact (@cubicM_ring). Qed.

(* cubic table-driven Frobenius is additive *)
Theorem C02_cubic_frobenius_add :
  forall (T : Type) (B : Fops T),
  ring_theory (f0 B) (f1 B) (fadd B) (fmul B) (fsub B) (fneg B) eq ->
  forall (frobB coef1 coef2 : T -> T) (k1 k2 : T),
  (forall x y : T, frobB (fadd B x y) = fadd B (frobB x) (frobB y)) ->
  (forall y : T, coef1 y = fmul B y k1) ->
  (forall y : T, coef2 y = fmul B y k2) ->
  forall a b : T * T * T,
  cubic_frobenius frobB coef1 coef2 (cadd B a b) =
  cadd B (cubic_frobenius frobB coef1 coef2 a) (cubic_frobenius frobB coef1 coef2 b).
Proof. exact (@cubic_frobenius_add). Qed.

(* ... and multiplicative when c1^3 nr = frob(nr), c2 = c1^2 *)
Theorem C02_cubic_frobenius_mul :
  forall (T : Type) (B : Fops T),
  ring_theory (f0 B) (f1 B) (fadd B) (fmul B) (fsub B) (fneg B) eq ->
  forall (nr : T) (frobB coef1 coef2 : T -> T) (k1 k2 : T),
  (forall x y : T, frobB (fadd B x y) = fadd B (frobB x) (frobB y)) ->
  (forall x y : T, frobB (fmul B x y) = fmul B (frobB x) (frobB y)) ->
  (forall y : T, coef1 y = fmul B y k1) ->
  (forall y : T, coef2 y = fmul B y k2) ->
  k2 = fmul B k1 k1 ->
  fmul B (fmul B (fmul B k1 k1) k1) nr = frobB nr ->
  forall a b : T * T * T,
  cubic_frobenius frobB coef1 coef2 (cmul B nr a b) =
  cmul B nr (cubic_frobenius frobB coef1 coef2 a) (cubic_frobenius frobB coef1 coef2 b).
Proof. exact (@cubic_frobenius_mul). Qed.

(* Fp4Config::mul_fp2_by_nonresidue = multiplication by the generator of Fp2 *)
Theorem C02_mul_nr_swap_spec :
  forall (T : Type) (B : Fops T),
  ring_theory (f0 B) (f1 B) (fadd B) (fmul B) (fsub B) (fneg B) eq ->
  forall (nr : T) (mul_nr_below : T -> T),
  (forall y : T, mul_nr_below y = fmul B nr y) ->
  forall fe : T * T, mul_nr_swap mul_nr_below fe = qmul B nr (f0 B, f1 B) fe.
Proof. exact (@mul_nr_swap_spec). Qed.

(* Fp6(2/3)::mul_fp3_by_nonresidue, Fp12::mul_fp6_by_nonresidue = multiplication by the generator of the cubic level *)
Theorem C02_mul_nr_rot_spec :
  forall (T : Type) (B : Fops T),
  ring_theory (f0 B) (f1 B) (fadd B) (fmul B) (fsub B) (fneg B) eq ->
  forall (nr : T) (mul_nr_below : T -> T),
  (forall y : T, mul_nr_below y = fmul B nr y) ->
  forall fe : T * T * T, mul_nr_rot mul_nr_below fe = cmul B nr (f0 B, f1 B, f0 B) fe.
Proof. exact (@mul_nr_rot_spec). Qed.

(* bls12_381 Fq2 overrides implement nr = -1 *)
Theorem C02_nrops_bls12_381_fq2_ok :
  forall (T : Type) (B : Fops T),
  ring_theory (f0 B) (f1 B) (fadd B) (fmul B) (fsub B) (fneg B) eq ->
  forall nr : T, nr = fneg B (f1 B) -> nrops_ok B (nrops_bls12_381_fq2 B nr).
Proof. exact (@nrops_bls12_381_fq2_ok). Qed.

(* bls12_377 Fq2 overrides implement nr = -5 *)
Theorem C02_nrops_bls12_377_fq2_ok :
  forall (T : Type) (B : Fops T),
  ring_theory (f0 B) (f1 B) (fadd B) (fmul B) (fsub B) (fneg B) eq ->
  forall nr : T,
  nr = fneg B (fadd B (fadd B (fadd B (f1 B) (f1 B)) (fadd B (f1 B) (f1 B))) (f1 B)) ->
  nrops_ok B (nrops_bls12_377_fq2 B nr).
Proof. exact (@nrops_bls12_377_fq2_ok). Qed.

(* bn254 Fq2 override implements nr = -1 *)
Theorem C02_nrops_bn254_fq2_ok :
  forall (T : Type) (B : Fops T),
  ring_theory (f0 B) (f1 B) (fadd B) (fmul B) (fsub B) (fneg B) eq ->
  forall nr : T, nr = fneg B (f1 B) -> nrops_ok B (nrops_bn254_fq2 B nr).
Proof. exact (@nrops_bn254_fq2_ok). Qed.

(* bw6_761 Fq3 override = -4 x *)
Theorem C02_mul_nr_bw6_761_fq3_spec :
  forall (T : Type) (B : Fops T),
  ring_theory (f0 B) (f1 B) (fadd B) (fmul B) (fsub B) (fneg B) eq ->
  forall fe : T,
  mul_nr_bw6_761_fq3 B fe = fmul B (fneg B (fadd B (fadd B (f1 B) (f1 B)) (fadd B (f1 B) (f1 B)))) fe.
Proof. exact (@mul_nr_bw6_761_fq3_spec). Qed.

(* cp6_782 Fq3 override = 13 x *)
Theorem C02_mul_nr_cp6_782_fq3_spec :
  forall (T : Type) (B : Fops T),
  ring_theory (f0 B) (f1 B) (fadd B) (fmul B) (fsub B) (fneg B) eq ->
  forall fe : T,
  mul_nr_cp6_782_fq3 B fe =
  fmul B
    (fadd B
       (fadd B
          (fadd B (fadd B (fadd B (f1 B) (f1 B)) (fadd B (f1 B) (f1 B)))
             (fadd B (fadd B (f1 B) (f1 B)) (fadd B (f1 B) (f1 B))))
          (fadd B (fadd B (f1 B) (f1 B)) (fadd B (f1 B) (f1 B)))) (f1 B)) fe.
Proof. exact (@mul_nr_cp6_782_fq3_spec). Qed.

(* bls12_381 Fq6 override = (1 + u) x *)
Theorem C02_mul_nr_bls12_381_fq6_spec :
  forall (T : Type) (B : Fops T),
  ring_theory (f0 B) (f1 B) (fadd B) (fmul B) (fsub B) (fneg B) eq ->
  forall fe : T * T, mul_nr_bls12_381_fq6 B fe = qmul B (fneg B (f1 B)) (f1 B, f1 B) fe.
Proof. exact (@mul_nr_bls12_381_fq6_spec). Qed.

(* bls12_377 Fq6 override = u x *)
Theorem C02_mul_nr_bls12_377_fq6_spec :
  forall (T : Type) (B : Fops T),
  ring_theory (f0 B) (f1 B) (fadd B) (fmul B) (fsub B) (fneg B) eq ->
  forall (nr2 : T) (fp2_nr_mul : T -> T),
  (forall y : T, fp2_nr_mul y = fmul B nr2 y) ->
  forall fe : T * T, mul_nr_bls12_377_fq6 fp2_nr_mul fe = qmul B nr2 (f0 B, f1 B) fe.
Proof. exact (@mul_nr_bls12_377_fq6_spec). Qed.

(* bn254 Fq6 override = (9 + u) x *)
Theorem C02_mul_nr_bn254_fq6_spec :
  forall (T : Type) (B : Fops T),
  ring_theory (f0 B) (f1 B) (fadd B) (fmul B) (fsub B) (fneg B) eq ->
  forall (nr2 : T) (fp2_nr_mul : T -> T),
  (forall y : T, fp2_nr_mul y = fmul B nr2 y) ->
  forall fe : T * T,
  mul_nr_bn254_fq6 B fp2_nr_mul fe =
  qmul B nr2
    (fadd B
       (fadd B (fadd B (fadd B (f1 B) (f1 B)) (fadd B (f1 B) (f1 B)))
          (fadd B (fadd B (f1 B) (f1 B)) (fadd B (f1 B) (f1 B)))) (f1 B), f1 B) fe.
Proof. exact (@mul_nr_bn254_fq6_spec). Qed.

(* Fp6(2/3)::mul_by_034 = full product with the sparse operand embedded *)
Theorem C02_fp6b_mul_by_034_spec :
  forall (T : Type) (B : Fops T),
  ring_theory (f0 B) (f1 B) (fadd B) (fmul B) (fsub B) (fneg B) eq ->
  forall (nr3 : T) (s : T * T * T * (T * T * T)) (x0 x3 x4 : T),
  fp6b_mul_by_034 B nr3 s x0 x3 x4 =
  qmul (CubicOps B nr3) (f0 B, f1 B, f0 B) s (x0, f0 B, f0 B, (x3, x4, f0 B)).
Proof. exact (@fp6b_mul_by_034_spec). Qed.

(* Fp6(2/3)::mul_by_014 = full product with the sparse operand embedded *)
Theorem C02_fp6b_mul_by_014_spec :
  forall (T : Type) (B : Fops T),
  ring_theory (f0 B) (f1 B) (fadd B) (fmul B) (fsub B) (fneg B) eq ->
  forall (nr3 : T) (s : T * T * T * (T * T * T)) (x0 x1 x4 : T),
  fp6b_mul_by_014 B nr3 s x0 x1 x4 =
  qmul (CubicOps B nr3) (f0 B, f1 B, f0 B) s (x0, x1, f0 B, (f0 B, x4, f0 B)).
Proof. exact (@fp6b_mul_by_014_spec). Qed.

(* Fp6(3/2)::mul_by_1 = full product *)
Theorem C02_fp6a_mul_by_1_spec :
  forall (T : Type) (B : Fops T),
  ring_theory (f0 B) (f1 B) (fadd B) (fmul B) (fsub B) (fneg B) eq ->
  forall (xi : T) (mul_nr : T -> T),
  (forall y : T, mul_nr y = fmul B xi y) ->
  forall (s : T * T * T) (e1 : T), fp6a_mul_by_1 B mul_nr s e1 = cmul B xi s (f0 B, e1, f0 B).
Proof. exact (@fp6a_mul_by_1_spec). Qed.

(* Fp6(3/2)::mul_by_01 = full product *)
Theorem C02_fp6a_mul_by_01_spec :
  forall (T : Type) (B : Fops T),
  ring_theory (f0 B) (f1 B) (fadd B) (fmul B) (fsub B) (fneg B) eq ->
  forall (xi : T) (mul_nr : T -> T),
  (forall y : T, mul_nr y = fmul B xi y) ->
  forall (s : T * T * T) (e0 e1 : T), fp6a_mul_by_01 B mul_nr s e0 e1 = cmul B xi s (e0, e1, f0 B).
Proof. exact (@fp6a_mul_by_01_spec). Qed.

(* Fp12::mul_by_034 = full product *)
Theorem C02_fp12_mul_by_034_spec :
  forall (T : Type) (B : Fops T),
  ring_theory (f0 B) (f1 B) (fadd B) (fmul B) (fsub B) (fneg B) eq ->
  forall (xi : T) (mul_nr : T -> T),
  (forall y : T, mul_nr y = fmul B xi y) ->
  forall D6 : Fops (T * T * T),
  fadd D6 = cadd B ->
  fsub D6 = csub B ->
  forall mul_nr6 : T * T * T -> T * T * T,
  (forall y : T * T * T, mul_nr6 y = cmul B xi (f0 B, f1 B, f0 B) y) ->
  forall (s : T * T * T * (T * T * T)) (e0 e3 e4 : T),
  fp12_mul_by_034 B mul_nr D6 mul_nr6 s e0 e3 e4 =
  qmul (CubicOps B xi) (f0 B, f1 B, f0 B) s (e0, f0 B, f0 B, (e3, e4, f0 B)).
Proof. exact (@fp12_mul_by_034_spec). Qed.

(* Fp12::mul_by_014 = full product *)
Theorem C02_fp12_mul_by_014_spec :
  forall (T : Type) (B : Fops T),
  ring_theory (f0 B) (f1 B) (fadd B) (fmul B) (fsub B) (fneg B) eq ->
  forall (xi : T) (mul_nr : T -> T),
  (forall y : T, mul_nr y = fmul B xi y) ->
  forall D6 : Fops (T * T * T),
  fadd D6 = cadd B ->
  fsub D6 = csub B ->
  forall mul_nr6 : T * T * T -> T * T * T,
  (forall y : T * T * T, mul_nr6 y = cmul B xi (f0 B, f1 B, f0 B) y) ->
  forall (s : T * T * T * (T * T * T)) (e0 e1 e4 : T),
  fp12_mul_by_014 B mul_nr D6 mul_nr6 s e0 e1 e4 =
  qmul (CubicOps B xi) (f0 B, f1 B, f0 B) s (e0, e1, f0 B, (f0 B, e4, f0 B)).
Proof. exact (@fp12_mul_by_014_spec). Qed.

(* Granger-Scott square = x^2 under the coordinate relations of the cyclotomic subgroup (PARTIAL: membership x^Phi12(p) = 1 => relations is not proved) *)
Theorem C02_gs_square_partial :
  forall (T : Type) (B : Fops T),
  ring_theory (f0 B) (f1 B) (fadd B) (fmul B) (fsub B) (fneg B) eq ->
  forall (xi : T) (fp2_nr : T -> T),
  (forall y : T, fp2_nr y = fmul B xi y) ->
  forall x : T * T * T * (T * T * T),
  gs_cyclotomic B xi x -> gs_square B fp2_nr x = qmul (CubicOps B xi) (f0 B, f1 B, f0 B) x x.
Proof. exact (@gs_square_partial). Qed.

(* exp_loop over signed digits (NAF path) = f^(value of the digits); P = the subgroup on which the fast squaring is valid *)
Theorem C02_exp_loop_naf_spec :
  forall (E : Type) (F : Fops E),
  ring_theory (f0 F) (f1 F) (fadd F) (fmul F) (fsub F) (fneg F) eq ->
  forall (f fi : E) (cyc_square : E -> E) (P : E -> Prop),
  P (f1 F) ->
  (forall a b : E, P a -> P b -> P (fmul F a b)) ->
  P f ->
  P fi ->
  (forall y : E, P y -> cyc_square y = fmul F y y) ->
  fmul F f fi = f1 F ->
  forall ds : list Z,
  Forall naf_digit ds -> exp_loop F cyc_square f fi true ds = zpow F f fi (eval_be ds).
Proof. exact (@exp_loop_naf_spec). Qed.

(* exp_loop over the bits of e (INVERSE_IS_FAST = false) = f^e *)
Theorem C02_exp_loop_bits_spec :
  forall (E : Type) (F : Fops E),
  ring_theory (f0 F) (f1 F) (fadd F) (fmul F) (fsub F) (fneg F) eq ->
  forall (f : E) (cyc_square : E -> E),
  (forall y : E, cyc_square y = fmul F y y) ->
  forall (e : Z) (junk : E),
  0 <= e -> exp_loop F cyc_square f junk false (bits_be e) = npow F f (Z.to_nat e).
Proof. exact (@exp_loop_bits_spec). Qed.

(* the specification power of Base/Field.v is the iterated product *)
Theorem C02_fpow_npow :
  forall (E : Type) (F : Fops E),
  ring_theory (f0 F) (f1 F) (fadd F) (fmul F) (fsub F) (fneg F) eq ->
  forall (x : E) (e : Z), 0 <= e -> fpow F x e = npow F x (Z.to_nat e).
Proof. exact (@fpow_npow). Qed.

(* ======== assembled towers (shipped shapes, per-curve overrides) ======== *)
(* the integers modulo p (canonical residues, Leibniz equality) form a commutative ring: discharges the ring premise for the prime fields the model runs on *)
Theorem C02_ZpS_ring :
  forall p : Z,
  ring_theory (f0 (ZpS p)) (f1 (ZpS p)) (fadd (ZpS p)) (fmul (ZpS p)) (fsub (ZpS p)) (fneg (ZpS p)) eq.
Proof. exact (@ZpS_ring). Qed.

(* closed tower statements over Z_p (no ring premise): Fp2 multiplication = schoolbook *)
Theorem C02_zp_fp2_mul :
  forall (p cid : Z) (nr2 : Zp p),
  fp2_consts_ok cid (ZpS p) nr2 ->
  forall x y : Zp p * Zp p, fmul (Fp2 cid (ZpS p) nr2) x y = qmul (ZpS p) nr2 x y.
Proof. exact (@zp_fp2_mul). Qed.

(* Fp3 multiplication = schoolbook *)
Theorem C02_zp_fp3_mul :
  forall (p cid : Z) (nr3 : Zp p),
  fp3_consts_ok cid (ZpS p) nr3 ->
  forall x y : Zp p * Zp p * Zp p, fmul (Fp3 cid (ZpS p) nr3) x y = cmul (ZpS p) nr3 x y.
Proof. exact (@zp_fp3_mul). Qed.

(* Fp4 (fast formulas at both levels) = schoolbook tower *)
Theorem C02_zp_fp4_mul :
  forall (p cid : Z) (nr2 : Zp p),
  fp2_consts_ok cid (ZpS p) nr2 ->
  forall x y : Zp p * Zp p * (Zp p * Zp p),
  fmul (Fp4 cid (ZpS p) nr2 (f0 (ZpS p), f1 (ZpS p))) x y =
  fmul (Fp4S (ZpS p) nr2 (f0 (ZpS p), f1 (ZpS p))) x y.
Proof. exact (@zp_fp4_mul). Qed.

(* Fp6 2-over-3 = schoolbook tower *)
Theorem C02_zp_fp6b_mul :
  forall (p cid : Z) (nr3 : Zp p),
  fp3_consts_ok cid (ZpS p) nr3 ->
  forall x y : Zp p * Zp p * Zp p * (Zp p * Zp p * Zp p),
  fmul (Fp6b cid (ZpS p) nr3 (f0 (ZpS p), f1 (ZpS p), f0 (ZpS p))) x y =
  fmul (Fp6bS (ZpS p) nr3 (f0 (ZpS p), f1 (ZpS p), f0 (ZpS p))) x y.
Proof. exact (@zp_fp6b_mul). Qed.

(* Fp6 3-over-2 = schoolbook tower *)
Theorem C02_zp_fp6a_mul :
  forall (p cid : Z) (nr2 : Zp p) (nr6 : Zp p * Zp p),
  fp2_consts_ok cid (ZpS p) nr2 ->
  fp6a_consts_ok cid (ZpS p) nr6 ->
  forall x y : Zp p * Zp p * (Zp p * Zp p) * (Zp p * Zp p),
  fmul (Fp6a cid (ZpS p) nr2 nr6) x y = fmul (Fp6aS (ZpS p) nr2 nr6) x y.
Proof. exact (@zp_fp6a_mul). Qed.

(* Fp12 (fast formulas at all three levels, per-curve overrides included) = schoolbook tower *)
Theorem C02_zp_fp12_mul :
  forall (p cid : Z) (nr2 : Zp p) (nr6 : Zp p * Zp p),
  fp2_consts_ok cid (ZpS p) nr2 ->
  fp6a_consts_ok cid (ZpS p) nr6 ->
  forall x y : E6 * E6,
  fmul
    (Fp12 cid (ZpS p) nr2 nr6
       (f0 (ZpS p), f0 (ZpS p), (f1 (ZpS p), f0 (ZpS p)), (f0 (ZpS p), f0 (ZpS p)))) x y =
  fmul
    (Fp12S (ZpS p) nr2 nr6 (f0 (ZpS p), f0 (ZpS p), (f1 (ZpS p), f0 (ZpS p)), (f0 (ZpS p), f0 (ZpS p))))
    x y.
Proof. exact (@zp_fp12_mul). Qed.

(* Fp12 square_in_place = x * x in the schoolbook tower *)
Theorem C02_zp_fp12_square :
  forall (p cid : Z) (nr2 : Zp p) (nr6 : Zp p * Zp p),
  fp2_consts_ok cid (ZpS p) nr2 ->
  fp6a_consts_ok cid (ZpS p) nr6 ->
  forall x : Zp p * Zp p * (Zp p * Zp p) * (Zp p * Zp p) * (Zp p * Zp p * (Zp p * Zp p) * (Zp p * Zp p)),
  quad_square (Fp6a cid (ZpS p) nr2 nr6)
    (fp12_nrops cid (ZpS p) nr2 nr6
       (f0 (ZpS p), f0 (ZpS p), (f1 (ZpS p), f0 (ZpS p)), (f0 (ZpS p), f0 (ZpS p)))) x =
  fmul
    (Fp12S (ZpS p) nr2 nr6 (f0 (ZpS p), f0 (ZpS p), (f1 (ZpS p), f0 (ZpS p)), (f0 (ZpS p), f0 (ZpS p))))
    x x.
Proof. exact (@zp_fp12_square). Qed.

(* Fp12::mul_by_034 as executed = schoolbook product with the embedded sparse operand *)
Theorem C02_zp_fp12_mul_by_034 :
  forall (p cid : Z) (nr2 : Zp p) (nr6 : Zp p * Zp p),
  fp2_consts_ok cid (ZpS p) nr2 ->
  fp6a_consts_ok cid (ZpS p) nr6 ->
  forall
    (s : Zp p * Zp p * (Zp p * Zp p) * (Zp p * Zp p) * (Zp p * Zp p * (Zp p * Zp p) * (Zp p * Zp p)))
    (e0 e3 e4 : Zp p * Zp p),
  fp12_mul_by_034 (Fp2 cid (ZpS p) nr2) (fp6a_mul_nr cid (ZpS p) nr2 nr6) (Fp6a cid (ZpS p) nr2 nr6)
    (fp12_mul_nr cid (ZpS p) nr2 nr6) s e0 e3 e4 =
  fmul
    (Fp12S (ZpS p) nr2 nr6 (f0 (ZpS p), f0 (ZpS p), (f1 (ZpS p), f0 (ZpS p)), (f0 (ZpS p), f0 (ZpS p))))
    s (e0, (f0 (ZpS p), f0 (ZpS p)), (f0 (ZpS p), f0 (ZpS p)), (e3, e4, (f0 (ZpS p), f0 (ZpS p)))).
Proof. exact (@zp_fp12_mul_by_034). Qed.

(* Fp12::mul_by_014 as executed = schoolbook product with the embedded sparse operand *)
Theorem C02_zp_fp12_mul_by_014 :
  forall (p cid : Z) (nr2 : Zp p) (nr6 : Zp p * Zp p),
  fp2_consts_ok cid (ZpS p) nr2 ->
  fp6a_consts_ok cid (ZpS p) nr6 ->
  forall
    (s : Zp p * Zp p * (Zp p * Zp p) * (Zp p * Zp p) * (Zp p * Zp p * (Zp p * Zp p) * (Zp p * Zp p)))
    (e0 e1 e4 : Zp p * Zp p),
  fp12_mul_by_014 (Fp2 cid (ZpS p) nr2) (fp6a_mul_nr cid (ZpS p) nr2 nr6) (Fp6a cid (ZpS p) nr2 nr6)
    (fp12_mul_nr cid (ZpS p) nr2 nr6) s e0 e1 e4 =
  fmul
    (Fp12S (ZpS p) nr2 nr6 (f0 (ZpS p), f0 (ZpS p), (f1 (ZpS p), f0 (ZpS p)), (f0 (ZpS p), f0 (ZpS p))))
    s (e0, e1, (f0 (ZpS p), f0 (ZpS p)), (f0 (ZpS p), f0 (ZpS p), e4, (f0 (ZpS p), f0 (ZpS p)))).
Proof. exact (@zp_fp12_mul_by_014). Qed.

(* Fp12 cyclotomic_square (guard + Granger-Scott) = x^2 under the cyclotomic relations (PARTIAL, see gs_square_partial) *)
Theorem C02_zp_fp12_cyc_square_partial :
  forall (p cid : Z) (nr2 : Zp p) (nr6 : Zp p * Zp p),
  fp2_consts_ok cid (ZpS p) nr2 ->
  fp6a_consts_ok cid (ZpS p) nr6 ->
  forall x : Zp p * Zp p * (Zp p * Zp p) * (Zp p * Zp p) * (Zp p * Zp p * (Zp p * Zp p) * (Zp p * Zp p)),
  gs_cyclotomic (Fp2 cid (ZpS p) nr2) nr6 x ->
  fp12_cyc_square cid (ZpS p) nr2 nr6
    (f0 (ZpS p), f0 (ZpS p), (f1 (ZpS p), f0 (ZpS p)), (f0 (ZpS p), f0 (ZpS p))) x =
  fmul
    (Fp12S (ZpS p) nr2 nr6 (f0 (ZpS p), f0 (ZpS p), (f1 (ZpS p), f0 (ZpS p)), (f0 (ZpS p), f0 (ZpS p))))
    x x.
Proof. exact (@zp_fp12_cyc_square_partial). Qed.

(* the Fp2 non-residue methods selected per curve implement nr2 (given the constants the overrides hard-wire) *)
Theorem C02_fp2_nrops_ok :
  forall (cid : Z) (T0 : Type) (Fp : Fops T0),
  ring_theory (f0 Fp) (f1 Fp) (fadd Fp) (fmul Fp) (fsub Fp) (fneg Fp) eq ->
  forall nr2 : T0, fp2_consts_ok cid Fp nr2 -> nrops_ok Fp (fp2_nrops cid Fp nr2).
Proof. exact (@fp2_nrops_ok). Qed.

(* the Fp3 non-residue multiplication selected per curve = nr3 * y *)
Theorem C02_fp3_mul_nr_spec :
  forall (cid : Z) (T0 : Type) (Fp : Fops T0),
  ring_theory (f0 Fp) (f1 Fp) (fadd Fp) (fmul Fp) (fsub Fp) (fneg Fp) eq ->
  forall nr3 : T0, fp3_consts_ok cid Fp nr3 -> forall y : T0, fp3_mul_nr cid Fp nr3 y = fmul Fp nr3 y.
Proof. exact (@fp3_mul_nr_spec). Qed.

(* the Fp6 (3 over 2) non-residue multiplication selected per curve = nr6 * y in Fp2 *)
Theorem C02_fp6a_mul_nr_spec :
  forall (cid : Z) (T0 : Type) (Fp : Fops T0),
  ring_theory (f0 Fp) (f1 Fp) (fadd Fp) (fmul Fp) (fsub Fp) (fneg Fp) eq ->
  forall nr2 : T0,
  fp2_consts_ok cid Fp nr2 ->
  forall nr6 : T0 * T0,
  fp6a_consts_ok cid Fp nr6 ->
  forall y : T0 * T0, fp6a_mul_nr cid Fp nr2 nr6 y = fmul (Fp2 cid Fp nr2) nr6 y.
Proof. exact (@fp6a_mul_nr_spec). Qed.

(* Fp12Config::mul_fp6_by_nonresidue = multiplication by v in Fp6 *)
Theorem C02_fp12_mul_nr_spec :
  forall (cid : Z) (T0 : Type) (Fp : Fops T0),
  ring_theory (f0 Fp) (f1 Fp) (fadd Fp) (fmul Fp) (fsub Fp) (fneg Fp) eq ->
  forall nr2 : T0,
  fp2_consts_ok cid Fp nr2 ->
  forall nr6 : T0 * T0,
  fp6a_consts_ok cid Fp nr6 ->
  forall y : E6,
  fp12_mul_nr cid Fp nr2 nr6 y =
  fmul (Fp6a cid Fp nr2 nr6) (f0 Fp, f0 Fp, (f1 Fp, f0 Fp), (f0 Fp, f0 Fp)) y.
Proof. exact (@fp12_mul_nr_spec). Qed.

(* Fp4 square = x * x in the schoolbook tower *)
Theorem C02_fp4_square_spec :
  forall (cid : Z) (T0 : Type) (Fp : Fops T0),
  ring_theory (f0 Fp) (f1 Fp) (fadd Fp) (fmul Fp) (fsub Fp) (fneg Fp) eq ->
  (forall x y : T0, feqb Fp x y = true -> x = y) ->
  forall nr2 : T0,
  fp2_consts_ok cid Fp nr2 ->
  forall x : T0 * T0 * (T0 * T0),
  quad_square (Fp2 cid Fp nr2) (fp4_nrops cid Fp nr2 (f0 Fp, f1 Fp)) x =
  fmul (Fp4S Fp nr2 (f0 Fp, f1 Fp)) x x.
Proof. exact (@fp4_square_spec). Qed.

(* Fp6 2-over-3 square = x * x in the schoolbook tower *)
Theorem C02_fp6b_square_spec :
  forall (cid : Z) (T0 : Type) (Fp : Fops T0),
  ring_theory (f0 Fp) (f1 Fp) (fadd Fp) (fmul Fp) (fsub Fp) (fneg Fp) eq ->
  (forall x y : T0, feqb Fp x y = true -> x = y) ->
  forall nr3 : T0,
  fp3_consts_ok cid Fp nr3 ->
  forall x : T0 * T0 * T0 * (T0 * T0 * T0),
  quad_square (Fp3 cid Fp nr3) (fp6b_nrops cid Fp nr3 (f0 Fp, f1 Fp, f0 Fp)) x =
  fmul (Fp6bS Fp nr3 (f0 Fp, f1 Fp, f0 Fp)) x x.
Proof. exact (@fp6b_square_spec). Qed.

(* Fp6 3-over-2 square (CH-SQR2) = x * x in the schoolbook tower *)
Theorem C02_fp6a_square_spec :
  forall (cid : Z) (T0 : Type) (Fp : Fops T0),
  ring_theory (f0 Fp) (f1 Fp) (fadd Fp) (fmul Fp) (fsub Fp) (fneg Fp) eq ->
  forall nr2 : T0,
  fp2_consts_ok cid Fp nr2 ->
  forall nr6 : T0 * T0,
  fp6a_consts_ok cid Fp nr6 ->
  forall x : T0 * T0 * (T0 * T0) * (T0 * T0),
  cubic_square (Fp2 cid Fp nr2) (fp6a_mul_nr cid Fp nr2 nr6) x = fmul (Fp6aS Fp nr2 nr6) x x.
Proof. exact (@fp6a_square_spec). Qed.

(* Frobenius = n-th power (n = p^k), quadratic level (PARTIAL: freshman identity and X^n = c X are premises) *)
Theorem C02_quad_frobenius_is_pow_partial :
  forall (T : Type) (B : Fops T),
  ring_theory (f0 B) (f1 B) (fadd B) (fmul B) (fsub B) (fneg B) eq ->
  forall (nr : T) (n : nat) (frobB coef : T -> T) (c : T),
  (forall a : T, frobB a = npow B a n) ->
  (forall y : T, coef y = fmul B y c) ->
  (forall u v : T * T,
   npow (QuadOps B nr) (fadd (QuadOps B nr) u v) n =
   fadd (QuadOps B nr) (npow (QuadOps B nr) u n) (npow (QuadOps B nr) v n)) ->
  npow (QuadOps B nr) (f0 B, f1 B) n = (f0 B, c) ->
  forall x : T * T, quad_frobenius frobB coef x = npow (QuadOps B nr) x n.
Proof. exact (@quad_frobenius_is_pow_partial). Qed.

(* Frobenius = n-th power, cubic level (PARTIAL: same premises) *)
Theorem C02_cubic_frobenius_is_pow_partial :
  forall (T : Type) (B : Fops T),
  ring_theory (f0 B) (f1 B) (fadd B) (fmul B) (fsub B) (fneg B) eq ->
  forall (nr : T) (n : nat) (frobB coef1 coef2 : T -> T) (k1 k2 : T),
  (forall a : T, frobB a = npow B a n) ->
  (forall y : T, coef1 y = fmul B y k1) ->
  (forall y : T, coef2 y = fmul B y k2) ->
  (forall u v : T * T * T,
   npow (CubicOps B nr) (fadd (CubicOps B nr) u v) n =
   fadd (CubicOps B nr) (npow (CubicOps B nr) u n) (npow (CubicOps B nr) v n)) ->
  npow (CubicOps B nr) (f0 B, f1 B, f0 B) n = (f0 B, k1, f0 B) ->
  npow (CubicOps B nr) (f0 B, f0 B, f1 B) n = (f0 B, f0 B, k2) ->
  forall x : T * T * T, cubic_frobenius frobB coef1 coef2 x = npow (CubicOps B nr) x n.
Proof. exact (@cubic_frobenius_is_pow_partial). Qed.

(* ---- non-vacuity: concrete instances satisfying the hypotheses ---- *)
Example C02_ring_hypothesis_example :
  ring_theory (f0 ZOps) (f1 ZOps) (fadd ZOps) (fmul ZOps) (fsub ZOps) (fneg ZOps) eq.
Proof. exact ZOps_ring. Qed.
Example C02_nrops_hypothesis_example : nrops_ok ZOps Zi_nrops.
Proof. exact Zi_nrops_ok. Qed.
Example C02_quad_inverse_example :
  quad_inverse ZOps Zi_nrops (0, 1) = Some (0, -1) /\
  qnorm ZOps (-1) (0, 1) * finv ZOps (qnorm ZOps (-1) (0, 1)) = 1.
Proof. exact quad_inverse_example. Qed.
Example C02_cubic_inverse_example :
  cubic_inverse ZOps (fun y => 2 * y) (0, 1, 0) <> CubicInvNone (T := Z) /\
  cnorm ZOps 2 (0, 1, 0) = 2.
Proof. exact cubic_inverse_example. Qed.
Example C02_cyclotomic_inverse_example :
  qmul ZOps (-1) (0, 1) (quad_conjugate ZOps (0, 1)) = (1, 0).
Proof. exact cyclotomic_inverse_example. Qed.
(* a non-trivial element of the cyclotomic subgroup of a toy Fp12 over F_7 satisfies the
   Granger-Scott relations *)
Example C02_gs_cyclotomic_example :
  gs_cyclotomic T49 toy_xi toy_g /\ toy_g <> f1 T7_12.
Proof. exact gs_cyclotomic_example. Qed.
(* the constants premises of the assembled-tower theorems hold for a bls12_381-shaped tower *)
Example C02_consts_example : forall p,
  fp2_consts_ok 0 (ZpS p) (fneg (ZpS p) (f1 (ZpS p))) /\
  fp6a_consts_ok 0 (ZpS p) (f1 (ZpS p), f1 (ZpS p)).
Proof. exact consts_example. Qed.
