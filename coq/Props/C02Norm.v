(* C02 extension -- closed form of CubicExtField::norm (pinned statements, each closed by
   `exact`).  `cubic_norm` (C02/Cubic.v) is the exact model of the Rust function: two
   table-driven Frobenius maps, two Karatsuba products and the assertion c1 = c2 = 0
   (None = the assertion fires).  `cnorm B nr` (C02/CubicProofs.v) is the norm form of
   B[X]/(X^3 - nr), the quantity inverted by `inverse`. *)
From V Require Import Base.Field C02.Quad C02.Cubic C02.Towers C02.CubicProofs C02.Inst C02.ZpInst
  C02.InstProofs C02.CubicNorm.

(* the norm form is multiplicative, over every commutative ring *)
Theorem C02_cnorm_mul :
  forall (T : Type) (B : Fops T),
  ring_theory (f0 B) (f1 B) (fadd B) (fmul B) (fsub B) (fneg B) eq ->
  forall (nr : T) (a b : T * T * T), cnorm B nr (cmul B nr a b) = fmul B (cnorm B nr a) (cnorm B nr b).
Proof. exact (@cnorm_mul). Qed.
Print Assumptions C02_cnorm_mul.

(* cnorm a = c0^3 + nr c1^3 + nr^2 c2^3 - 3 nr c0 c1 c2 *)
Theorem C02_cnorm_expanded :
  forall (T : Type) (B : Fops T),
  ring_theory (f0 B) (f1 B) (fadd B) (fmul B) (fsub B) (fneg B) eq ->
  forall (nr : T) (a : T * T * T),
  cnorm B nr a =
  fsub B
    (fadd B
       (fadd B (fmul B (fmul B (c0 a) (c0 a)) (c0 a)) (fmul B nr (fmul B (fmul B (c1 a) (c1 a)) (c1 a))))
       (fmul B (fmul B nr nr) (fmul B (fmul B (c2 a) (c2 a)) (c2 a))))
    (fmul B (fmul B (fadd B (fadd B (f1 B) (f1 B)) (f1 B)) nr) (fmul B (fmul B (c0 a) (c1 a)) (c2 a))).
Proof. exact (@cnorm_expanded). Qed.
Print Assumptions C02_cnorm_expanded.

(* self^q * (self^(q^2) * self) = (cnorm self, 0, 0) for EVERY self, as soon as the two Frobenius
   maps fix the base (q = |base field|) and use the coefficients (w, w^2), (w^2, w) with
   w^2 + w + 1 = 0 (w = nr^((q-1)/3), a primitive cube root of unity) *)
Theorem C02_cubic_norm_product :
  forall (T : Type) (B : Fops T),
  ring_theory (f0 B) (f1 B) (fadd B) (fmul B) (fsub B) (fneg B) eq ->
  forall (nr : T) (mul_nr : T -> T),
  (forall y : T, mul_nr y = fmul B nr y) ->
  forall (f f' coef1 coef2 coef1' coef2' : T -> T) (w k2 k1' k2' : T),
  (forall x : T, f x = x) ->
  (forall x : T, f' x = x) ->
  (forall y : T, coef1 y = fmul B y w) ->
  (forall y : T, coef2 y = fmul B y k2) ->
  (forall y : T, coef1' y = fmul B y k1') ->
  (forall y : T, coef2' y = fmul B y k2') ->
  k2 = fmul B w w ->
  k1' = fmul B w w ->
  k2' = w ->
  fadd B (fadd B (fmul B w w) w) (f1 B) = f0 B ->
  forall a : T * T * T,
  cubic_mul B mul_nr (cubic_frobenius f coef1 coef2 a)
    (cubic_mul B mul_nr (cubic_frobenius f' coef1' coef2' a) a) = (cnorm B nr a, f0 B, f0 B).
Proof. exact (@cubic_norm_product). Qed.
Print Assumptions C02_cubic_norm_product.

(* hence the model of `norm` never takes the assertion branch and returns cnorm *)
Theorem C02_cubic_norm_closed_form :
  forall (T : Type) (B : Fops T),
  ring_theory (f0 B) (f1 B) (fadd B) (fmul B) (fsub B) (fneg B) eq ->
  forall (nr : T) (mul_nr : T -> T),
  (forall y : T, mul_nr y = fmul B nr y) ->
  (forall x : T, feqb B x x = true) ->
  forall (f f' coef1 coef2 coef1' coef2' : T -> T) (w k2 k1' k2' : T),
  (forall x : T, f x = x) ->
  (forall x : T, f' x = x) ->
  (forall y : T, coef1 y = fmul B y w) ->
  (forall y : T, coef2 y = fmul B y k2) ->
  (forall y : T, coef1' y = fmul B y k1') ->
  (forall y : T, coef2' y = fmul B y k2') ->
  k2 = fmul B w w ->
  k1' = fmul B w w ->
  k2' = w ->
  fadd B (fadd B (fmul B w w) w) (f1 B) = f0 B ->
  forall a : T * T * T,
  cubic_norm B mul_nr (cubic_frobenius f coef1 coef2) (cubic_frobenius f' coef1' coef2') a =
  Some (cnorm B nr a).
Proof. exact (@cubic_norm_closed_form). Qed.
Print Assumptions C02_cubic_norm_closed_form.

(* the executed Fp3 shape (Inst.fp3_norm = what Run.v runs for op norm): premises only on the
   hard-wired non-residue constants of the overrides and on the four table entries
   FROBENIUS_COEFF_FP3_C1[1], _C1[2], _C2[1], _C2[2] *)
Theorem C02_fp3_norm_closed_form :
  forall (cid : Z) (T0 : Type) (Fp : Fops T0),
  ring_theory (f0 Fp) (f1 Fp) (fadd Fp) (fmul Fp) (fsub Fp) (fneg Fp) eq ->
  (forall x : T0, feqb Fp x x = true) ->
  forall (nr3 : T0) (tab3_1 tab3_2 : list T0),
  fp3_consts_ok cid Fp nr3 ->
  (let w := tabsel (f0 Fp) tab3_1 3 1 in
   tabsel (f0 Fp) tab3_2 3 1 = fmul Fp w w /\
   tabsel (f0 Fp) tab3_1 3 2 = fmul Fp w w /\
   tabsel (f0 Fp) tab3_2 3 2 = w /\
   fadd Fp (fadd Fp (fmul Fp w w) w) (f1 Fp) = f0 Fp) ->
  forall x : T0 * T0 * T0, fp3_norm cid Fp nr3 tab3_1 tab3_2 x = Some (cnorm Fp nr3 x).
Proof. exact (@fp3_norm_closed_form). Qed.
Print Assumptions C02_fp3_norm_closed_form.

(* the executed Fp6 = Fp2[v]/(v^3 - xi) shape (Inst.fp6a_norm: Frobenius indices 2 and 4, i.e.
   powers q = p^2 and q^2): FROBENIUS_COEFF_FP2_C1[0] = 1 makes the base map the identity of
   Fp2; the other premises are on FROBENIUS_COEFF_FP6_C1[2], _C1[4], _C2[2], _C2[4] *)
Theorem C02_fp6a_norm_closed_form :
  forall (cid : Z) (T0 : Type) (Fp : Fops T0),
  ring_theory (f0 Fp) (f1 Fp) (fadd Fp) (fmul Fp) (fsub Fp) (fneg Fp) eq ->
  (forall x : T0, feqb Fp x x = true) ->
  forall (nr2 : T0) (tab2 : list T0) (nr6 : T0 * T0) (tab6_1 tab6_2 : list (T0 * T0)),
  fp2_consts_ok cid Fp nr2 ->
  fp6a_consts_ok cid Fp nr6 ->
  (let K2 := Fp2 cid Fp nr2 in
   let w := tabsel (f0 Fp, f0 Fp) tab6_1 6 2 in
   tabsel (f0 Fp) tab2 2 0 = f1 Fp /\
   tabsel (f0 Fp, f0 Fp) tab6_2 6 2 = fmul K2 w w /\
   tabsel (f0 Fp, f0 Fp) tab6_1 6 4 = fmul K2 w w /\
   tabsel (f0 Fp, f0 Fp) tab6_2 6 4 = w /\
   fadd K2 (fadd K2 (fmul K2 w w) w) (f1 K2) = f0 K2) ->
  forall x : T0 * T0 * (T0 * T0) * (T0 * T0),
  fp6a_norm cid Fp nr2 tab2 nr6 tab6_1 tab6_2 x = Some (cnorm (Fp2 cid Fp nr2) nr6 x).
Proof. exact (@fp6a_norm_closed_form). Qed.
Print Assumptions C02_fp6a_norm_closed_form.

(* over the real Z_p (no ring premise) *)
Theorem C02_zp_fp3_norm :
  forall (p cid : Z) (nr3 : Zp p) (t1 t2 : list (Zp p)),
  fp3_consts_ok cid (ZpS p) nr3 ->
  fp3_norm_tables_ok (ZpS p) t1 t2 ->
  forall x : Zp p * Zp p * Zp p, fp3_norm cid (ZpS p) nr3 t1 t2 x = Some (cnorm (ZpS p) nr3 x).
Proof. exact zp_fp3_norm. Qed.
Print Assumptions C02_zp_fp3_norm.
Theorem C02_zp_fp6a_norm :
  forall (p cid : Z) (nr2 : Zp p) (t2 : list (Zp p)) (nr6 : Zp p * Zp p) (t61 t62 : list (Zp p * Zp p)),
  fp2_consts_ok cid (ZpS p) nr2 ->
  fp6a_consts_ok cid (ZpS p) nr6 ->
  fp6a_norm_tables_ok cid (ZpS p) nr2 t2 t61 t62 ->
  forall x : Zp p * Zp p * (Zp p * Zp p) * (Zp p * Zp p),
  fp6a_norm cid (ZpS p) nr2 t2 nr6 t61 t62 x = Some (cnorm (Fp2 cid (ZpS p) nr2) nr6 x).
Proof. exact zp_fp6a_norm. Qed.
Print Assumptions C02_zp_fp6a_norm.

(* ---- non-vacuity / executed instances: the toy towers of the correspondence harness ---- *)
(* F_7[v]/(v^3 - 3): tables computed by fpow (w = 3^2 = 2), premise checked by vm_compute,
   theorem applied: norm = cnorm on all of Fp3 *)
Example C02_toy7_tables_val :
  map zp_val toy7_tab3_1 = [1; 2; 4] /\ map zp_val toy7_tab3_2 = [1; 4; 2].
Proof. exact toy7_tables_val. Qed.
Example C02_toy7_fp3_tables_ok : fp3_norm_tables_ok toy7 toy7_tab3_1 toy7_tab3_2.
Proof. exact toy7_fp3_tables_ok. Qed.
Example C02_toy7_fp3_norm :
  forall x : Zp 7 * Zp 7 * Zp 7,
  fp3_norm 10 toy7 toy7_nr3 toy7_tab3_1 toy7_tab3_2 x = Some (cnorm toy7 toy7_nr3 x).
Proof. exact toy7_fp3_norm. Qed.
Print Assumptions C02_toy7_fp3_norm.
(* the same configuration on the plain-integer dictionary ZpOps 7 that Run.v executes, all 343
   elements evaluated in the kernel *)
Example C02_toy7_exec :
  forallb (fun x0 => forallb (fun x1 => forallb (fun x2 =>
    match fp3_norm 10 (ZpOps 7) 3 [1; 2; 4] [1; 4; 2] (x0, x1, x2) with
    | Some n => n =? cnorm (ZpOps 7) 3 (x0, x1, x2)
    | None => false
    end) range7) range7) range7 = true.
Proof. exact toy7_exec_ok. Qed.
(* F_7[u]/(u^2 + 1)[v]/(v^3 - (1 + 2u)) *)
Example C02_toy7_fp6a_norm :
  forall x : Zp 7 * Zp 7 * (Zp 7 * Zp 7) * (Zp 7 * Zp 7),
  fp6a_norm 10 toy7 toy7_nr2 toy7_tab2 toy7_xi toy7_tab6_1 toy7_tab6_2 x = Some (cnorm toy49 toy7_xi x).
Proof. exact toy7_fp6a_norm. Qed.
Print Assumptions C02_toy7_fp6a_norm.
Example C02_cnorm_mul_example :
  cnorm (ZpS 7) toy7_nr3
    (cmul (ZpS 7) toy7_nr3 (zp_mk 7 1, zp_mk 7 2, zp_mk 7 3) (zp_mk 7 4, zp_mk 7 5, zp_mk 7 6)) =
  fmul (ZpS 7) (cnorm (ZpS 7) toy7_nr3 (zp_mk 7 1, zp_mk 7 2, zp_mk 7 3))
    (cnorm (ZpS 7) toy7_nr3 (zp_mk 7 4, zp_mk 7 5, zp_mk 7 6)) /\
  zp_val (cnorm (ZpS 7) toy7_nr3 (zp_mk 7 1, zp_mk 7 2, zp_mk 7 3)) = 4.
Proof. exact cnorm_mul_example. Qed.
