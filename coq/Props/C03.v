(* C03 -- property theorems only. *)
From V Require Import Base.Field C03.CurveExec.
Example C03_placeholder : sw_is_zero (ZpOps 13) (sw_zero (ZpOps 13)) = true.
Proof. vm_compute. reflexivity. Qed.
