(* C03 -- property theorems only: pinned statements, each closed by `exact`.
   [good_field F]: F is a field (field_theory, Leibniz equality), feqb decides equality,
   1 + 1 <> 0.  [jac_on]/[aff_on]: the (affine image of the) point satisfies
   y^2 = x^3 + a x + b.  [te_valid]: Z <> 0 and T Z = X Y.  [te_dens_ok]: the two
   denominators 1 +- d x1 x2 y1 y2 of the Edwards law are non-zero. *)
From V Require Import Base.Field C03.CurveExec C03.SWProofs C03.TEProofs C03.TEComplete C03.FieldHyp.

(* ---- short Weierstrass, Jacobian coordinates ---- *)
Theorem C03_sw_add : forall T (F : Fops T) (a b : T), good_field F ->
  forall P Q, jac_on F a b P -> jac_on F a b Q ->
  sw_to_affine F (sw_add F a P Q) = aff_add_sw F a (sw_to_affine F P) (sw_to_affine F Q).
Proof. exact (fun T F a b G => sw_add_correct F a b (gf_th F G) (gf_eqb F G) (gf_two F G)). Qed.
Theorem C03_sw_madd : forall T (F : Fops T) (a b : T), good_field F ->
  forall P Q, jac_on F a b P -> aff_on F a b Q ->
  sw_to_affine F (sw_madd F a P Q) = aff_add_sw F a (sw_to_affine F P) Q.
Proof. exact (fun T F a b G => sw_madd_correct F a b (gf_th F G) (gf_eqb F G) (gf_two F G)). Qed.
Theorem C03_sw_double : forall T (F : Fops T) (a : T), good_field F ->
  forall P, sw_to_affine F (sw_double F a P) = aff_add_sw F a (sw_to_affine F P) (sw_to_affine F P).
Proof. exact (fun T F a G => sw_double_correct F a (gf_th F G) (gf_eqb F G) (gf_two F G)). Qed.
Theorem C03_sw_neg : forall T (F : Fops T), good_field F ->
  forall P, sw_to_affine F (sw_neg F P) = aff_neg_sw F (sw_to_affine F P).
Proof. exact (fun T F G => sw_neg_correct F (gf_th F G) (gf_eqb F G)). Qed.
Theorem C03_sw_sub : forall T (F : Fops T) (a b : T), good_field F ->
  forall P Q, jac_on F a b P -> jac_on F a b Q ->
  sw_to_affine F (sw_sub F a P Q) = aff_add_sw F a (sw_to_affine F P) (aff_neg_sw F (sw_to_affine F Q)).
Proof. exact (fun T F a b G => sw_sub_correct F a b (gf_th F G) (gf_eqb F G) (gf_two F G)). Qed.
Theorem C03_sw_msub : forall T (F : Fops T) (a b : T), good_field F ->
  forall P Q, jac_on F a b P -> aff_on F a b Q ->
  sw_to_affine F (sw_msub F a P Q) = aff_add_sw F a (sw_to_affine F P) (aff_neg_sw F Q).
Proof. exact (fun T F a b G => sw_msub_correct F a b (gf_th F G) (gf_eqb F G) (gf_two F G)). Qed.
Theorem C03_sw_sum : forall T (F : Fops T) (a b : T), good_field F ->
  forall l P, jac_on F a b P -> Forall (aff_on F a b) l ->
  sw_to_affine F (fold_left (sw_madd F a) l P) = fold_left (aff_add_sw F a) l (sw_to_affine F P)
  /\ jac_on F a b (fold_left (sw_madd F a) l P).
Proof. exact (fun T F a b G => sw_sum_correct F a b (gf_th F G) (gf_eqb F G) (gf_two F G)). Qed.
(* results stay on the curve *)
Theorem C03_sw_affine_law_closed : forall T (F : Fops T) (a b : T), good_field F ->
  forall A B, aff_on F a b A -> aff_on F a b B -> aff_on F a b (aff_add_sw F a A B).
Proof. exact (fun T F a b G => aff_add_sw_on F a b (gf_th F G) (gf_eqb F G) (gf_two F G)). Qed.
Theorem C03_sw_add_on_curve : forall T (F : Fops T) (a b : T), good_field F ->
  forall P Q, jac_on F a b P -> jac_on F a b Q -> jac_on F a b (sw_add F a P Q).
Proof. exact (fun T F a b G => sw_add_on_curve F a b (gf_th F G) (gf_eqb F G) (gf_two F G)). Qed.
Theorem C03_sw_madd_on_curve : forall T (F : Fops T) (a b : T), good_field F ->
  forall P Q, jac_on F a b P -> aff_on F a b Q -> jac_on F a b (sw_madd F a P Q).
Proof. exact (fun T F a b G => sw_madd_on_curve F a b (gf_th F G) (gf_eqb F G) (gf_two F G)). Qed.
Theorem C03_sw_double_on_curve : forall T (F : Fops T) (a b : T), good_field F ->
  forall P, jac_on F a b P -> jac_on F a b (sw_double F a P).
Proof. exact (fun T F a b G => sw_double_on_curve F a b (gf_th F G) (gf_eqb F G) (gf_two F G)). Qed.
(* equality does not depend on the representative; conversions; is_on_curve; batch normalisation *)
Theorem C03_sw_eq_iff_same_affine : forall T (F : Fops T), good_field F ->
  forall P Q, sw_eqb F P Q = true <-> sw_to_affine F P = sw_to_affine F Q.
Proof. exact (fun T F G => sw_eqb_spec F (gf_th F G) (gf_eqb F G)). Qed.
Theorem C03_sw_to_affine : forall T (F : Fops T), good_field F ->
  forall x y z, sw_to_affine F (x, y, z) =
    if feqb F z (f0 F) then None else Some (fdiv F x (fmul F z z), fdiv F y (fmul F (fmul F z z) z)).
Proof. exact (fun T F G => sw_to_affine_gen F (gf_th F G) (gf_eqb F G)). Qed.
Theorem C03_sw_roundtrip_affine : forall T (F : Fops T), good_field F ->
  forall A, sw_to_affine F (sw_of_affine F A) = A.
Proof. exact (fun T F G => sw_roundtrip_affine F (gf_th F G) (gf_eqb F G)). Qed.
Theorem C03_sw_roundtrip_projective : forall T (F : Fops T), good_field F ->
  forall P, sw_eqb F (sw_of_affine F (sw_to_affine F P)) P = true.
Proof. exact (fun T F G => sw_roundtrip_jac F (gf_th F G) (gf_eqb F G)). Qed.
Theorem C03_sw_is_on_curve : forall T (F : Fops T) (a b : T), good_field F ->
  forall A, sw_aff_on_curve F a b A = true <-> aff_on F a b A.
Proof. exact (fun T F a b G => sw_aff_on_curve_spec F a b (gf_th F G) (gf_eqb F G)). Qed.
Theorem C03_batch_inversion : forall T (F : Fops T), good_field F ->
  forall v, batch_inversion F v = map (fun f => if feqb F f (f0 F) then f else fdiv F (f1 F) f) v.
Proof. exact (fun T F G => batch_inversion_spec F (gf_th F G) (gf_eqb F G)). Qed.
Theorem C03_sw_normalize_batch : forall T (F : Fops T), good_field F ->
  forall v, sw_normalize_batch F v = map (sw_to_affine F) v.
Proof. exact (fun T F G => sw_normalize_batch_spec F (gf_th F G) (gf_eqb F G)). Qed.

(* ---- twisted Edwards, extended coordinates ---- *)
Theorem C03_te_add : forall T (F : Fops T) (a d : T), good_field F ->
  forall P Q, te_valid F P -> te_valid F Q -> te_dens_ok F d (te_to_affine F P) (te_to_affine F Q) ->
  te_valid F (te_add F a d P Q) /\
  te_to_affine F (te_add F a d P Q) = aff_add_te F a d (te_to_affine F P) (te_to_affine F Q).
Proof. exact (fun T F a d G => te_add_correct F a d (gf_th F G) (gf_eqb F G)). Qed.
Theorem C03_te_madd : forall T (F : Fops T) (a d : T), good_field F ->
  forall P Q, te_valid F P -> te_dens_ok F d (te_to_affine F P) Q ->
  te_valid F (te_madd F a d P Q) /\
  te_to_affine F (te_madd F a d P Q) = aff_add_te F a d (te_to_affine F P) Q.
Proof. exact (fun T F a d G => te_madd_correct F a d (gf_th F G) (gf_eqb F G)). Qed.
Theorem C03_te_double : forall T (F : Fops T) (a d : T), good_field F ->
  forall P, te_valid F P -> te_aff_on F a d (te_to_affine F P) ->
  te_dens_ok F d (te_to_affine F P) (te_to_affine F P) ->
  te_valid F (te_double F a P) /\
  te_to_affine F (te_double F a P) = aff_add_te F a d (te_to_affine F P) (te_to_affine F P).
Proof. exact (fun T F a d G => te_double_correct F a d (gf_th F G) (gf_eqb F G)). Qed.
Theorem C03_te_neg : forall T (F : Fops T), good_field F ->
  forall P, te_valid F P -> te_valid F (te_neg F P) /\ te_to_affine F (te_neg F P) = aff_neg_te F (te_to_affine F P).
Proof. exact (fun T F G => te_neg_correct F (gf_th F G) (gf_eqb F G)). Qed.
Theorem C03_te_law_closed : forall T (F : Fops T) (a d : T), good_field F ->
  forall A B, te_aff_on F a d A -> te_aff_on F a d B -> te_dens_ok F d A B -> te_aff_on F a d (aff_add_te F a d A B).
Proof. exact (fun T F a d G => aff_add_te_on F a d (gf_th F G)). Qed.
(* Bernstein-Lange completeness: a a square, d a non-square => the denominators never vanish on
   curve points, so C03_te_add / C03_te_madd / C03_te_double apply to ALL pairs of curve points
   (satisfiable: e.g. a = 12 = 5^2, d = 6 over F_13, toy curve te13_m1_complete) *)
Theorem C03_te_complete : forall T (F : Fops T) (a d s : T), good_field F ->
  a = fmul F s s -> (forall w, fmul F w w <> d) ->
  forall A B, te_aff_on F a d A -> te_aff_on F a d B -> te_dens_ok F d A B.
Proof. exact (fun T F a d s G => te_complete F a d (gf_th F G) (gf_eqb F G) (gf_two F G) s). Qed.
Theorem C03_te_to_affine : forall T (F : Fops T), good_field F ->
  forall x y t z, z <> f0 F -> te_to_affine F (x, y, t, z) = (fdiv F x z, fdiv F y z).
Proof. exact (fun T F G => te_to_affine_spec F (gf_th F G) (gf_eqb F G)). Qed.
Theorem C03_te_is_zero : forall T (F : Fops T), good_field F ->
  forall P, te_valid F P -> (te_is_zero F P = true <-> te_to_affine F P = te_aff_zero F).
Proof. exact (fun T F G => te_is_zero_spec F (gf_th F G) (gf_eqb F G)). Qed.
Theorem C03_te_eq_iff_same_affine : forall T (F : Fops T), good_field F ->
  forall P Q, te_valid F P -> te_valid F Q ->
  (te_eqb F P Q = true <-> te_to_affine F P = te_to_affine F Q).
Proof. exact (fun T F G => te_eqb_spec F (gf_th F G) (gf_eqb F G)). Qed.
Theorem C03_te_roundtrip_affine : forall T (F : Fops T), good_field F ->
  forall A, te_valid F (te_of_affine F A) /\ te_to_affine F (te_of_affine F A) = A.
Proof. exact (fun T F G => te_roundtrip_affine F (gf_th F G) (gf_eqb F G)). Qed.
Theorem C03_te_is_on_curve : forall T (F : Fops T) (a d : T), good_field F ->
  forall A, te_aff_on_curve F a d A = true <-> te_aff_on F a d A.
Proof. exact (fun T F a d G => te_aff_on_curve_spec F a d (gf_th F G) (gf_eqb F G)). Qed.
Theorem C03_te_normalize_batch : forall T (F : Fops T), good_field F ->
  forall v, Forall (fun P : te_ext => snd P <> f0 F) v -> te_normalize_batch F v = map (te_to_affine F) v.
Proof. exact (fun T F G => te_normalize_batch_spec F (gf_th F G) (gf_eqb F G)). Qed.

(* ---- the hypotheses are satisfiable: the canonical rationals; points of y^2 = x^3 + 1 ---- *)
Example C03_good_field_example : good_field QcOps.
Proof. exact QcOps_good. Qed.
Example C03_sw_on_curve_example :
  jac_on QcOps (q 0) (q 1) (q 2, q 3, q 1) /\ jac_on QcOps (q 0) (q 1) (q 0, q 1, q 1)
  /\ aff_on QcOps (q 0) (q 1) (Some (q 2, q 3)).
Proof. exact ex_sw_on. Qed.
Example C03_te_valid_example : te_valid QcOps (q 0, q 3, q 0, q 3) /\
  te_dens_ok QcOps (q 2) (te_to_affine QcOps (q 0, q 3, q 0, q 3)) (te_to_affine QcOps (q 0, q 3, q 0, q 3)).
Proof. exact ex_te_valid. Qed.
(* executable instance used by the correspondence: P + (-P), P + P on y^2 = x^3 + 2 over F_13 *)
Example C03_run_example :
  sw_to_affine (ZpOps 13) (sw_add (ZpOps 13) 0 (1, 4, 1) (4, 6, 2)) = Some (2, 7)
  /\ sw_to_affine (ZpOps 13) (sw_add (ZpOps 13) 0 (1, 4, 1) (4, 7, 2)) = None.
Proof. vm_compute. split; reflexivity. Qed.
