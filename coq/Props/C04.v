(* C04 -- every scalar-multiplication path computes k . P.

   Setting of every theorem: (A, aadd, aneg, azero) is a commutative group with Leibniz equality
   (`abelian_group`: for a curve A is the set of affine points with the chord-and-tangent / Edwards
   law; its associativity is the classical hypothesis `affine_law_is_group`, not re-proved), and
   the dictionary `Ops : Gops R B` of representation-level operations (R = Projective, B = Affine:
   add, mixed add, double, negations, conversions, batch normalisation) `realises` that law through
   phi : R -> A, phib : B -> A (what C03 proves about the projective formulas).  `smul k P` is
   k . P defined by iteration.  The model functions are the ones coq/C04/Run.v executes against
   the Rust code. *)
From V Require Import Base.Word C15.BigIntModel C15.BitsProofs
  C04.GroupOps C04.GroupTheory C04.ScalarMul C04.Wnaf C04.Glv C04.FixedBase
  C04.ScalarMulProofs C04.WnafProofs C04.GlvProofs C04.FixedBaseProofs C04.GlvShipped C04.Run.

(* ---------- double-and-add ---------- *)

(* mul_projective on every limb slice: any length, leading zero limbs, values >= r *)
Theorem C04_double_and_add_spec :
  forall (A : Type) (aadd : A -> A -> A) (aneg : A -> A) (azero : A), abelian_group aadd aneg azero ->
  forall (R B : Type) (Ops : Gops R B) (phi : R -> A) (phib : B -> A), realises aadd aneg azero Ops phi phib ->
  forall limbs P, wf limbs ->
  phi (mul_bigint_proj Ops limbs P) = smul aadd aneg azero (val limbs) (phi P).
Proof. exact (@double_and_add_spec). Qed.

(* mul_affine (mixed additions) *)
Theorem C04_double_and_add_affine_spec :
  forall (A : Type) (aadd : A -> A -> A) (aneg : A -> A) (azero : A), abelian_group aadd aneg azero ->
  forall (R B : Type) (Ops : Gops R B) (phi : R -> A) (phib : B -> A), realises aadd aneg azero Ops phi phib ->
  forall limbs Q, wf limbs ->
  phi (mul_bigint_aff Ops limbs Q) = smul aadd aneg azero (val limbs) (phib Q).
Proof. exact (@double_and_add_affine_spec). Qed.

(* PrimeGroup::mul_bits_be on every big-endian bit stream (leading zeros, empty, all zero) *)
Theorem C04_mul_bits_be_spec :
  forall (A : Type) (aadd : A -> A -> A) (aneg : A -> A) (azero : A), abelian_group aadd aneg azero ->
  forall (R B : Type) (Ops : Gops R B) (phi : R -> A) (phib : B -> A), realises aadd aneg azero Ops phi phib ->
  forall bits P, Forall is_bit bits ->
  phi (mul_bits_be Ops bits P) = smul aadd aneg azero (bval_be bits) (phi P).
Proof. exact (@mul_bits_be_spec). Qed.

(* `P * s` for the field element s of an integer k (N limbs, r <= 2^(64N)) *)
Theorem C04_mul_scalar_spec :
  forall (A : Type) (aadd : A -> A -> A) (aneg : A -> A) (azero : A), abelian_group aadd aneg azero ->
  forall (R B : Type) (Ops : Gops R B) (phi : R -> A) (phib : B -> A), realises aadd aneg azero Ops phi phib ->
  forall N r k P, 0 < r <= Wn N ->
  phi (mul_scalar_proj Ops N r k P) = smul aadd aneg azero (k mod r) (phi P).
Proof. exact (@mul_scalar_spec). Qed.
Theorem C04_mul_scalar_order_spec :
  forall (A : Type) (aadd : A -> A -> A) (aneg : A -> A) (azero : A), abelian_group aadd aneg azero ->
  forall (R B : Type) (Ops : Gops R B) (phi : R -> A) (phib : B -> A), realises aadd aneg azero Ops phi phib ->
  forall N r k P, 0 < r <= Wn N -> smul aadd aneg azero r (phi P) = azero ->
  phi (mul_scalar_proj Ops N r k P) = smul aadd aneg azero k (phi P).
Proof. exact (@mul_scalar_order_spec). Qed.

(* ---------- windowed NAF ---------- *)

(* table: 2^(w-1) entries, entry i = (2i+1) . base *)
Theorem C04_wnaf_table_spec :
  forall (A : Type) (aadd : A -> A -> A) (aneg : A -> A) (azero : A), abelian_group aadd aneg azero ->
  forall (R B : Type) (Ops : Gops R B) (phi : R -> A) (phib : B -> A), realises aadd aneg azero Ops phi phib ->
  forall w base, 1 <= w ->
  Z.of_nat (length (wnaf_table Ops w base)) = 2 ^ (w - 1) /\
  table_ok aadd aneg azero phi (phi base) (wnaf_table Ops w base).
Proof. exact (@wnaf_table_spec). Qed.

(* mul_with_table = k . P: every window 2 <= w < 64, every sufficiently long table of odd multiples
   (fresh, precomputed, longer than needed), every scalar; the digits are those of the C15 model of
   find_wnaf (their reconstruction property is C15_find_wnaf, imported, not assumed) *)
Theorem C04_wnaf_mul_spec :
  forall (A : Type) (aadd : A -> A -> A) (aneg : A -> A) (azero : A), abelian_group aadd aneg azero ->
  forall (R B : Type) (Ops : Gops R B) (phi : R -> A) (phib : B -> A), realises aadd aneg azero Ops phi phib ->
  forall w table limbs X, 2 <= w < 64 -> wf limbs ->
  2 ^ (w - 1) <= Z.of_nat (length table) -> table_ok aadd aneg azero phi X table ->
  exists res, wnaf_mul_with_table Ops w table limbs = Ok res /\ phi res = smul aadd aneg azero (val limbs) X.
Proof. exact (@wnaf_mul_spec). Qed.

Theorem C04_wnaf_mul_fresh_spec :
  forall (A : Type) (aadd : A -> A -> A) (aneg : A -> A) (azero : A), abelian_group aadd aneg azero ->
  forall (R B : Type) (Ops : Gops R B) (phi : R -> A) (phib : B -> A), realises aadd aneg azero Ops phi phib ->
  forall w limbs P, 2 <= w < 64 -> wf limbs ->
  exists res, wnaf_mul Ops w P limbs = Ok res /\ phi res = smul aadd aneg azero (val limbs) (phi P).
Proof. exact (@wnaf_mul_fresh_spec). Qed.

(* a table with fewer than 2^(w-1) entries -> None; a window outside [2, 64) -> panic *)
Theorem C04_wnaf_short_table :
  forall (R B : Type) (Ops : Gops R B) w table limbs, 2 <= w < 64 -> Z.of_nat (length table) < 2 ^ (w - 1) ->
  wnaf_mul_with_table Ops w table limbs = NoneRes.
Proof. exact (@wnaf_short_table). Qed.
Theorem C04_wnaf_bad_window :
  forall (R B : Type) (Ops : Gops R B) w table limbs, ~ (2 <= w < 64) ->
  wnaf_mul_with_table Ops w table limbs = Panic.
Proof. exact (@wnaf_bad_window). Qed.

(* ---------- GLV ---------- *)

(* scalar_decomposition: if both basis rows lie in the lattice {(a,b) : a + lambda b = 0 (mod r)} the
   returned signed halves satisfy k1 + lambda k2 = k (mod r) -- for every k and whatever the rounding *)
Theorem C04_glv_decomposition_spec :
  forall r lambda n11 n12 n21 n22 k, 0 < r ->
  (n11 + lambda * n12) mod r = 0 -> (n21 + lambda * n22) mod r = 0 ->
  let '(s1, s2) := glv_decomp r n11 n12 n21 n22 k in
  (glv_signed s1 + lambda * glv_signed s2) mod r = k mod r /\ 0 <= snd s1 < r /\ 0 <= snd s2 < r.
Proof. exact glv_decomposition_spec. Qed.

(* size of the halves when the basis has determinant r *)
Theorem C04_glv_halves_bound :
  forall r n11 n12 n21 n22 k, 0 < r -> n11 * n22 - n12 * n21 = r ->
  let '(k1, k2) := glv_halves r n11 n12 n21 n22 k in
  Z.abs k1 <= Z.abs n11 + Z.abs n21 /\ Z.abs k2 <= Z.abs n12 + Z.abs n22.
Proof. exact glv_halves_bound. Qed.

(* the joint loop: with the top bit of both halves clear (the pair the skip_zeros logic drops) it
   returns k1 . B1 + k2 . B2 *)
Theorem C04_glv_joint_loop_spec :
  forall (A : Type) (aadd : A -> A -> A) (aneg : A -> A) (azero : A), abelian_group aadd aneg azero ->
  forall (R B : Type) (Ops : Gops R B) (phi : R -> A) (phib : B -> A), realises aadd aneg azero Ops phi phib ->
  forall b1 b2 b1b2 xs ys, phi b1b2 = aadd (phi b1) (phi b2) -> Forall is_bit xs -> Forall is_bit ys ->
  phi (glv_loop Ops b1 b2 b1b2 (combine (0 :: xs) (0 :: ys)) true (gzero Ops))
  = aadd (smul aadd aneg azero (bval_be (firstn (length ys) xs)) (phi b1))
         (smul aadd aneg azero (bval_be (firstn (length xs) ys)) (phi b2)).
Proof. exact (@glv_joint_loop_spec). Qed.

(* glv_mul_projective / glv_mul_affine = k . P where the endomorphism acts as lambda and r P = 0 *)
Theorem C04_glv_mul_spec :
  forall (A : Type) (aadd : A -> A -> A) (aneg : A -> A) (azero : A), abelian_group aadd aneg azero ->
  forall (R B : Type) (Ops : Gops R B) (phi : R -> A) (phib : B -> A), realises aadd aneg azero Ops phi phib ->
  forall endo N r lambda n11 n12 n21 n22 P k, 0 < r <= Wn N -> 0 <= k < r ->
  (n11 + lambda * n12) mod r = 0 -> (n21 + lambda * n22) mod r = 0 ->
  glv_top_bits_clear N r n11 n12 n21 n22 k ->
  phi (endo P) = smul aadd aneg azero lambda (phi P) -> smul aadd aneg azero r (phi P) = azero ->
  phi (glv_mul_proj Ops endo N r n11 n12 n21 n22 P k) = smul aadd aneg azero k (phi P).
Proof. exact (@glv_mul_spec). Qed.
Theorem C04_glv_mul_affine_spec :
  forall (A : Type) (aadd : A -> A -> A) (aneg : A -> A) (azero : A), abelian_group aadd aneg azero ->
  forall (R B : Type) (Ops : Gops R B) (phi : R -> A) (phib : B -> A), realises aadd aneg azero Ops phi phib ->
  forall endob N r lambda n11 n12 n21 n22 (Q : B) k, 0 < r <= Wn N -> 0 <= k < r ->
  (n11 + lambda * n12) mod r = 0 -> (n21 + lambda * n22) mod r = 0 ->
  glv_top_bits_clear N r n11 n12 n21 n22 k ->
  phib (endob Q) = smul aadd aneg azero lambda (phib Q) -> smul aadd aneg azero r (phib Q) = azero ->
  phib (glv_mul_aff Ops endob N r n11 n12 n21 n22 Q k) = smul aadd aneg azero k (phib Q).
Proof. exact (@glv_mul_affine_spec). Qed.

(* the curve-crate override mul_projective = glv_mul o from_sign_and_limbs: (val limbs) . P for every
   limb slice (the model has no length restriction; the real code panics for slices longer than N
   limbs -- finding F16) *)
Theorem C04_glv_override_spec :
  forall (A : Type) (aadd : A -> A -> A) (aneg : A -> A) (azero : A), abelian_group aadd aneg azero ->
  forall (R B : Type) (Ops : Gops R B) (phi : R -> A) (phib : B -> A), realises aadd aneg azero Ops phi phib ->
  forall endo N r lambda n11 n12 n21 n22 limbs P, 0 < r <= Wn N ->
  (n11 + lambda * n12) mod r = 0 -> (n21 + lambda * n22) mod r = 0 ->
  glv_top_bits_clear N r n11 n12 n21 n22 (val limbs mod r) ->
  phi (endo P) = smul aadd aneg azero lambda (phi P) -> smul aadd aneg azero r (phi P) = azero ->
  phi (mul_bigint_glv Ops endo N r n11 n12 n21 n22 limbs P) = smul aadd aneg azero (val limbs) (phi P).
Proof. exact (@glv_override_spec). Qed.

(* the numeric premises of the three theorems above follow from a boolean check of the constants ... *)
Theorem C04_glv_basis_ok_sound :
  forall N r lambda n11 n12 n21 n22, glv_basis_ok (N, (r, lambda), (n11, n12), (n21, n22)) = true ->
  0 < r <= Wn N /\ (n11 + lambda * n12) mod r = 0 /\ (n21 + lambda * n22) mod r = 0 /\
  forall k, glv_top_bits_clear N r n11 n12 n21 n22 k.
Proof. exact glv_basis_ok_sound. Qed.
(* ... which holds for the eleven shipped GLV configurations (closed finite fact; the constants are
   compared with the Rust ones by the sw_glv_params cases of every run) *)
Theorem C04_glv_shipped_bases_ok : length glv_shipped = 11%nat /\ forallb glv_basis_ok glv_shipped = true.
Proof. vm_compute. split; reflexivity. Qed.

(* ---------- fixed-base batch multiplication ---------- *)

(* with_num_scalars_and_scalar_size builds a correct table for every (num_scalars, max_scalar_size >= 1):
   div_ceil(max_scalar_size, window) rows, entry i of row o = (i 2^(window o)) . B for every i the
   construction fills (2^window, fewer in the shorter last window) *)
Theorem C04_fixed_base_table_spec :
  forall (A : Type) (aadd : A -> A -> A) (aneg : A -> A) (azero : A), abelian_group aadd aneg azero ->
  forall (R B : Type) (Ops : Gops R B) (phi : R -> A) (phib : B -> A), realises aadd aneg azero Ops phi phib ->
  forall base ns mss, 1 <= mss ->
  exists t, fb_new Ops base ns mss = Ok t /\ fb_table_ok aadd aneg azero phib (phi base) ns mss t.
Proof. exact (@fixed_base_table_spec). Qed.

(* windowed_mul = k . B for every table sizing and every canonical scalar k < 2^max_scalar_size *)
Theorem C04_fixed_base_spec :
  forall (A : Type) (aadd : A -> A -> A) (aneg : A -> A) (azero : A), abelian_group aadd aneg azero ->
  forall (R B : Type) (Ops : Gops R B) (phi : R -> A) (phib : B -> A), realises aadd aneg azero Ops phi phib ->
  forall base ns mss modbits limbs, 1 <= mss -> wf limbs ->
  0 <= modbits <= 64 * Z.of_nat (length limbs) -> val limbs < 2 ^ modbits -> val limbs < 2 ^ mss ->
  exists t res, fb_new Ops base ns mss = Ok t /\ fb_windowed_mul Ops t modbits limbs = Ok res /\
                phi res = smul aadd aneg azero (val limbs) (phi base).
Proof. exact (@fixed_base_spec). Qed.

(* batch_mul on any correct table *)
Theorem C04_fixed_base_batch_spec :
  forall (A : Type) (aadd : A -> A -> A) (aneg : A -> A) (azero : A), abelian_group aadd aneg azero ->
  forall (R B : Type) (Ops : Gops R B) (phi : R -> A) (phib : B -> A), realises aadd aneg azero Ops phi phib ->
  forall X ns mss t modbits scalars, fb_table_ok aadd aneg azero phib X ns mss t -> 1 <= mss ->
  Forall (fun limbs => wf limbs /\ 0 <= modbits <= 64 * Z.of_nat (length limbs) /\
                       val limbs < 2 ^ modbits /\ val limbs < 2 ^ mss) scalars ->
  exists out, fb_batch_mul Ops t modbits scalars = Ok out /\
              map phib out = map (fun limbs => smul aadd aneg azero (val limbs) X) scalars.
Proof. exact (@fixed_base_batch_spec). Qed.

Theorem C04_compute_window_size_ge3 : forall n, 3 <= compute_window_size n.
Proof. exact compute_window_size_ge3. Qed.

(* ---------- the hypotheses are satisfiable; concrete instances ---------- *)

(* the integers under addition realise every hypothesis (R = B = A = Z, phi = id): k . P = k * P *)
Example C04_hypotheses_satisfiable :
  abelian_group Z.add Z.opp 0 /\ realises Z.add Z.opp 0 ZGops (fun x => x) (fun x => x) /\
  forall k P, smul Z.add Z.opp 0 k P = k * P.
Proof. exact (conj Z_abelian_group (conj ZGops_realises Z_smul)). Qed.

Example C04_double_and_add_example :
  mul_bigint_proj ZGops [5; 0] 7 = 35 /\ mul_bigint_aff ZGops [W64 - 1; 1; 0] 1 = 2 * W64 - 1 /\
  mul_bits_be ZGops [0; 0; 1; 0; 1] 3 = 15 /\ mul_bigint_proj ZGops [] 9 = 0.
Proof. vm_compute. auto. Qed.

Example C04_wnaf_example :
  wnaf_table ZGops 3 5 = [5; 15; 25; 35] /\ wnaf_mul ZGops 3 5 [183] = Ok 915 /\
  wnaf_mul_with_table ZGops 3 [5; 15; 25] [183] = NoneRes /\
  wnaf_mul_with_table ZGops 3 [5; 15; 25; 35; 45; 55; 65; 75] [W64 - 1; W64 - 1] = Ok (5 * (W64 * W64 - 1)) /\
  wnaf_mul ZGops 64 5 [183] = Panic.
Proof. vm_compute. auto 6. Qed.

(* toy GLV parameters (y^2 = x^3 + 2 over F_13, r = 19, lambda = 7, basis (5,2), (-2,3)); in the group Z
   with endo = multiplication by 7 the result is k1 + 7 k2, congruent to k modulo 19 *)
Example C04_glv_example :
  glv_basis_ok (1%nat, (19, 7), (5, 2), (-2, 3)) = true /\
  glv_decomp 19 5 2 (-2) 3 11 = ((false, 1), (false, 1)) /\
  glv_mul_proj ZGops (fun x => 7 * x) 1 19 5 2 (-2) 3 1 11 = -8 /\ (-8) mod 19 = 11 /\
  glv_mul_aff ZGops (fun x => 7 * x) 1 19 5 2 (-2) 3 1 11 = -8.
Proof. vm_compute. auto 6. Qed.

(* why glv_joint_loop_spec needs the clear top bit: if the first pair is not (0,0) the first later
   (0,0) pair is skipped instead, losing a doubling -- (1,0),(0,0) should give 2 B1 *)
Example C04_glv_skip_zeros_needs_clear_top_bit :
  glv_loop ZGops 1 0 1 [(1, 0); (0, 0)] true 0 = 1 /\ glv_loop ZGops 1 0 1 [(0, 0); (1, 0); (0, 0)] true 0 = 2.
Proof. vm_compute. auto. Qed.

Example C04_fixed_base_example :
  compute_window_size 31 = 3 /\ compute_window_size 32 = 3 /\ compute_window_size 33 = 4 /\ compute_window_size 1000 = 6 /\
  (exists t, fb_new ZGops 1 1000 10 = Ok t /\ length (fb_rows t) = 2%nat /\
             nth 1 (fb_rows t) [] = map (fun i => 64 * Z.of_nat i) (seq 0 16) ++ repeat 0 48 /\
             fb_windowed_mul ZGops t 10 [777] = Ok 777) /\
  fb_new ZGops 1 5 0 = Panic.
Proof. vm_compute. repeat split; try reflexivity. eexists. repeat split; reflexivity. Qed.

(* Observation O5 (glv_outside_subgroup): the premises `phi(P) = lambda P` and `r P = 0` of C04_glv_mul_spec
   are needed.  On the toy curve y^2 = x^3 + 3 over F_103 (124 points, r = 31, cofactor 4, beta = 56,
   lambda = 5, basis (5,-1), (1,6)) the point Q = (6, 61) has order 62; glv_mul_projective(Q, 3) (op 10)
   is (90, 81) while 3 Q by double-and-add (op 3) is (47, 38).  The Rust code returns the same two points. *)
Example C04_glv_outside_subgroup_observation :
  run_C04 10 [[11]; [103; 1; 0]; [0]; [3]; [31; 1; 5; 0]; [5; 5; -1; 1; 6]; [56]; [3]; [6; 61; 1]]
    = [[0]; [90; 81; 0]; [90; 81; 0]] /\
  run_C04 3 [[11]; [103; 1; 0]; [0]; [3]; [31; 1; 5; 0]; [5; 5; -1; 1; 6]; [56]; [3]; [6; 61; 1]]
    = [[0]; [47; 38; 0]; [47; 38; 0]; [47; 38; 0]; [47; 38; 0]].
Proof. vm_compute. auto. Qed.
