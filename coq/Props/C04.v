(* C04 -- property theorems (placeholder while the correspondence is brought up) *)
From V Require Import Base.Word C04.GroupOps C04.FixedBase.

Example C04_window_small : compute_window_size 31 = 3 /\ compute_window_size 32 = 3 /\ compute_window_size 1000 = 6.
Proof. vm_compute. auto. Qed.
