(* C05 -- property theorems only: pinned statements, each closed by `exact`.
   Notation: (A, add, neg, zero) is an arbitrary commutative group ([group_laws]); GO is the
   dictionary of group operations the code performs on G (projective) and B (affine bases),
   tied to the group by an interpretation (den, denB) ([gops_hom]); smul k P = k.P by iteration. *)
From V Require Import Base.Field Base.Word Base.ZpField C05.MsmModel C05.StreamModel C05.GroupProofs C05.DigitsProofs
  C05.MsmProofs C05.StreamProofs C05.ChunksProofs C05.Final C05.GtModel C05.GtProofs.

(* make_digits: for every limb count, every window width 1..62 and every bit length covered by the
   limbs, no out-of-bounds read; exactly ceil(num_bits/w) digits; sum d_i 2^(w i) = k; every
   |d_i| <= 2^w, i.e. every bucket index |d_i| - 1 is below the 2^w buckets *)
Theorem C05_make_digits_spec : forall s w nb,
  wf s -> 1 <= w <= 62 -> 1 <= nb <= 64 * len s -> val s < 2 ^ nb ->
  make_digits s w nb = Some (make_digits_list s w nb) /\
  len (make_digits_list s w nb) = div_ceil nb w /\
  evalc w (make_digits_list s w nb) = val s /\
  Forall (fun d => - 2 ^ w <= d <= 2 ^ w) (make_digits_list s w nb).
Proof. exact make_digits_spec. Qed.
Example C05_make_digits_example :
  make_digits [18446744073709551615; 9223372036854775807] 5 127 =
  Some [-1; 0; 0; 0; 0; 0; 0; 0; 0; 0; 0; 0; 0; 0; 0; 0; 0; 0; 0; 0; 0; 0; 0; 0; 0; 4].
Proof. vm_compute; reflexivity. Qed.

(* window-size rule: every usize length gives a width the recoding supports *)
Theorem C05_window_size_bounds : forall n, 0 <= n < 2 ^ 64 -> 3 <= window_size n <= 46.
Proof. exact window_size_bounds. Qed.
Example C05_window_rule :
  map window_size [0; 1; 31; 32; 33; 100; 257; 1024; 1025] = [3; 3; 3; 5; 6; 6; 8; 8; 9].
Proof. vm_compute; reflexivity. Qed.

(* running-sum reduction: res0 + sum_j (j+1) * bucket_j *)
Theorem C05_running_sum_spec : forall (G B A : Type) (GO : Gops G B) (add : A -> A -> A) (neg : A -> A)
  (zero : A) (den : G -> A) (denB : B -> A),
  group_laws add neg zero -> gops_hom GO add neg zero den denB ->
  forall res0 bs, den (running_sum GO res0 bs) = add (den res0) (wsum add neg zero 1 (map den bs)).
Proof. exact (@running_sum_spec). Qed.

(* both bucket methods: every pair of lengths (the zip stops at the shorter input), every scalar
   below 2^num_bits held in limbs covering num_bits: the result is sum k_i * P_i *)
Theorem C05_msm_wnaf_spec : forall (G B A : Type) (GO : Gops G B) (add : A -> A -> A) (neg : A -> A)
  (zero : A) (den : G -> A) (denB : B -> A),
  group_laws add neg zero -> gops_hom GO add neg zero den denB ->
  forall nb bases scalars,
  1 <= nb -> Z.min (len bases) (len scalars) < 2 ^ 64 ->
  Forall (fun s => wf s /\ nb <= 64 * len s /\ val s < 2 ^ nb) scalars ->
  exists g, msm_bigint_wnaf GO nb bases scalars = Ok g /\
            den g = msum add zero (map (fun p => smul add neg zero (val (fst p)) (denB (snd p)))
                                       (combine scalars bases)).
Proof. exact (@msm_wnaf_spec). Qed.
Theorem C05_msm_plain_spec : forall (G B A : Type) (GO : Gops G B) (add : A -> A -> A) (neg : A -> A)
  (zero : A) (den : G -> A) (denB : B -> A),
  group_laws add neg zero -> gops_hom GO add neg zero den denB ->
  forall nb bases scalars,
  1 <= nb -> Z.min (len bases) (len scalars) < 2 ^ 64 ->
  Forall (fun s => wf s /\ nb <= 64 * len s /\ val s < 2 ^ nb) scalars ->
  exists g, msm_bigint_plain GO nb bases scalars = Ok g /\
            den g = msum add zero (map (fun p => smul add neg zero (val (fst p)) (denB (snd p)))
                                       (combine scalars bases)).
Proof. exact (@msm_plain_spec). Qed.
Theorem C05_msm_bigint_spec : forall (G B A : Type) (GO : Gops G B) (add : A -> A -> A) (neg : A -> A)
  (zero : A) (den : G -> A) (denB : B -> A),
  group_laws add neg zero -> gops_hom GO add neg zero den denB ->
  forall cheap nb bases scalars,
  1 <= nb -> Z.min (len bases) (len scalars) < 2 ^ 64 ->
  Forall (fun s => wf s /\ nb <= 64 * len s /\ val s < 2 ^ nb) scalars ->
  exists g, msm_bigint GO cheap nb bases scalars = Ok g /\
            den g = msum add zero (map (fun p => smul add neg zero (val (fst p)) (denB (snd p)))
                                       (combine scalars bases)).
Proof. exact (@msm_bigint_spec). Qed.

(* msm_unchecked truncates to the shorter input; msm succeeds exactly on equal lengths and
   otherwise reports the usable length *)
Theorem C05_msm_unchecked_truncates : forall (G B A : Type) (GO : Gops G B) (add : A -> A -> A)
  (neg : A -> A) (zero : A) (den : G -> A) (denB : B -> A),
  group_laws add neg zero -> gops_hom GO add neg zero den denB ->
  forall cheap nb N bases ks,
  1 <= nb <= 64 * Z.of_nat N -> Z.min (len bases) (len ks) < 2 ^ 64 ->
  Forall (fun k => 0 <= k < 2 ^ nb) ks ->
  exists g, msm_unchecked GO cheap nb N bases ks = Ok g /\
            den g = msum add zero (map (fun p => smul add neg zero (fst p) (denB (snd p)))
                      (combine (firstn (length bases) ks) (firstn (length ks) bases))).
Proof. exact (@msm_unchecked_truncates). Qed.
Theorem C05_msm_checked_spec : forall (G B A : Type) (GO : Gops G B) (add : A -> A -> A)
  (neg : A -> A) (zero : A) (den : G -> A) (denB : B -> A),
  group_laws add neg zero -> gops_hom GO add neg zero den denB ->
  forall cheap nb N bases ks,
  1 <= nb <= 64 * Z.of_nat N -> len bases < 2 ^ 64 -> Forall (fun k => 0 <= k < 2 ^ nb) ks ->
  (length bases = length ks ->
     exists g, msm_checked GO cheap nb N bases ks = Ok g /\
               den g = msum add zero (map (fun p => smul add neg zero (fst p) (denB (snd p))) (combine ks bases))) /\
  (length bases <> length ks ->
     msm_checked GO cheap nb N bases ks = Err (Z.min (len bases) (len ks))).
Proof. exact (@msm_checked_spec). Qed.

(* msm_chunks, for every chunk size: the chunk loop equals one MSM over the scalars and the LAST
   len(scalars) bases; more scalars than bases trips the assertion *)
Theorem C05_msm_chunks_spec : forall (G B A : Type) (GO : Gops G B) (add : A -> A -> A)
  (neg : A -> A) (zero : A) (den : G -> A) (denB : B -> A),
  group_laws add neg zero -> gops_hom GO add neg zero den denB ->
  forall cheap nb N step bases ks,
  1 <= nb <= 64 * Z.of_nat N -> 0 < step -> len bases < 2 ^ 64 -> Forall (fun k => 0 <= k < 2 ^ nb) ks ->
  (length ks <= length bases)%nat ->
  exists g, msm_chunks GO cheap nb N step bases ks = Ok g /\
            den g = msum add zero (map (fun p => smul add neg zero (fst p) (denB (snd p)))
                      (combine ks (skipn (length bases - length ks) bases))).
Proof. exact (@msm_chunks_spec). Qed.
Theorem C05_msm_chunks_assert : forall (G B : Type) (GO : Gops G B) cheap nb N step (bases : list B) ks,
  (length bases < length ks)%nat -> msm_chunks GO cheap nb N step bases ks = Panic.
Proof. exact (@msm_chunks_assert). Qed.
Example C05_msm_chunks_example :
  map (fun step => msm_chunks z_gops true 5 1 step [100; 3; 5; 7] [11; 0; 31]) [1; 2; 3; 1048576] =
  [Ok 250; Ok 250; Ok 250; Ok 250].
Proof. vm_compute; reflexivity. Qed.

(* ChunkedPippenger: for every buffer size (0 = never flushes before finalize) and every sequence
   of add calls, finalize returns the sum of the whole history (invariant result + sum(buffer) =
   sum(history) over fold_left) -- over any correct MSM routine, and over the modelled msm_bigint *)
Theorem C05_chunked_refines_sum : forall (G B A : Type) (GO : Gops G B) (add : A -> A -> A)
  (neg : A -> A) (zero : A) (den : G -> A) (denB : B -> A),
  group_laws add neg zero -> gops_hom GO add neg zero den denB ->
  forall (msmf : list B -> list (list Z) -> outcome G) (good : list Z -> Prop),
  (forall bs ss, length bs = length ss -> len ss < 2 ^ 64 -> Forall good ss ->
     exists g, msmf bs ss = Ok g /\
       den g = msum add zero (map (fun p => smul add neg zero (val (fst p)) (denB (snd p))) (combine ss bs))) ->
  forall size ops, len ops < 2 ^ 64 -> Forall (fun p => good (snd p)) ops ->
  exists g, cp_run GO msmf size ops = Ok g /\
            den g = msum add zero (map (fun p => smul add neg zero (val (snd p)) (denB (fst p))) ops).
Proof. exact (@chunked_refines_sum). Qed.
Theorem C05_chunked_msm_refines_sum : forall (G B A : Type) (GO : Gops G B) (add : A -> A -> A)
  (neg : A -> A) (zero : A) (den : G -> A) (denB : B -> A),
  group_laws add neg zero -> gops_hom GO add neg zero den denB ->
  forall cheap nb size ops,
  1 <= nb -> len ops < 2 ^ 64 ->
  Forall (fun p => wf (snd p) /\ nb <= 64 * len (snd p) /\ val (snd p) < 2 ^ nb) ops ->
  exists g, cp_run GO (msm_bigint GO cheap nb) size ops = Ok g /\
            den g = msum add zero (map (fun p => smul add neg zero (val (snd p)) (denB (fst p))) ops).
Proof. exact (@chunked_msm_refines_sum). Qed.

(* HashMapPippenger: equal bases merged by adding the scalars modulo r; premise r * P = 0 for
   every base (prime-order subgroup) and a sound base-equality test *)
Theorem C05_hashmap_refines_sum : forall (G B A : Type) (GO : Gops G B) (add : A -> A -> A)
  (neg : A -> A) (zero : A) (den : G -> A) (denB : B -> A),
  group_laws add neg zero -> gops_hom GO add neg zero den denB ->
  forall (msmf : list B -> list (list Z) -> outcome G) (good : list Z -> Prop),
  (forall bs ss, length bs = length ss -> len ss < 2 ^ 64 -> Forall good ss ->
     exists g, msmf bs ss = Ok g /\
       den g = msum add zero (map (fun p => smul add neg zero (val (fst p)) (denB (snd p))) (combine ss bs))) ->
  forall (beq : B -> B -> bool) (r : Z) (N : nat),
  (forall b b', beq b' b = true -> denB b' = denB b) -> 0 < r ->
  (forall v, 0 <= v < r -> good (to_limbs N v) /\ val (to_limbs N v) = v) ->
  forall size ops, len ops < 2 ^ 64 ->
  Forall (fun p => smul add neg zero r (denB (fst p)) = zero /\ 0 <= snd p < r) ops ->
  exists g, hm_run GO msmf beq r N size ops = Ok g /\
            den g = msum add zero (map (fun p => smul add neg zero (snd p) (denB (fst p))) ops).
Proof. exact (@hashmap_refines_sum). Qed.
Theorem C05_hashmap_msm_refines_sum : forall (G B A : Type) (GO : Gops G B) (add : A -> A -> A)
  (neg : A -> A) (zero : A) (den : G -> A) (denB : B -> A),
  group_laws add neg zero -> gops_hom GO add neg zero den denB ->
  forall cheap nb beq r N size ops,
  1 <= nb <= 64 * Z.of_nat N -> 0 < r <= 2 ^ nb ->
  (forall b b', beq b' b = true -> denB b' = denB b) ->
  len ops < 2 ^ 64 ->
  Forall (fun p => smul add neg zero r (denB (fst p)) = zero /\ 0 <= snd p < r) ops ->
  exists g, hm_run GO (msm_bigint GO cheap nb) beq r N size ops = Ok g /\
            den g = msum add zero (map (fun p => smul add neg zero (snd p) (denB (fst p))) ops).
Proof. exact (@hashmap_msm_refines_sum). Qed.

(* ---------- the hypotheses are satisfiable: the additive group of Z as dictionary ---------- *)
Example C05_hyp_group : group_laws Z.add Z.opp 0.
Proof. exact z_group. Qed.
Example C05_hyp_hom : gops_hom z_gops Z.add Z.opp 0 (fun x => x) (fun x => x).
Proof. exact z_hom. Qed.
Example C05_hyp_scalars : Forall (good_scalar 5) [[11]; [0]; [31]].
Proof. exact good_scalar_example. Qed.
(* 3*11 + 5*0 + 7*31 = 250, by both methods, through the accumulators with buffer sizes 0, 1, 2, 4,
   and merged in the hash map (3*(50+40) + 5*(5+2) = 305; Z has no r-torsion, so no wrap-around here) *)
Example C05_msm_example :
  (msm_bigint_wnaf z_gops 5 [3; 5; 7] [[11]; [0]; [31]], msm_bigint_plain z_gops 5 [3; 5; 7; 9] [[11]; [0]; [31]],
   msm_checked z_gops true 5 1 [3; 5] [11; 0; 31],
   map (fun size => cp_run z_gops (msm_bigint z_gops true 5) size [(3, [11]); (5, [0]); (7, [31])]) [0; 1; 2; 4],
   map (fun size => hm_run z_gops (msm_bigint z_gops true 7) Z.eqb 97 1 size [(3, 50); (5, 5); (3, 40); (5, 2)]) [0; 1; 2; 3])
  = (Ok 250, Ok 250, Err 2, [Ok 250; Ok 250; Ok 250; Ok 250], [Ok 305; Ok 305; Ok 305; Ok 305]).
Proof. vm_compute; reflexivity. Qed.

(* ---------- the pairing target group (PairingOutput<P>) as an instance ----------
   B = the field below the quadratic top level of the target field (Fp6 for Fp12 = Fp6[w]/(w^2 - v),
   Fp2 for Fp4 = Fp2[v]/(v^2 - u)); only its commutative-ring laws and a correct equality test are used.
   Carrier [gt_sub B nr] = { x : B[w]/(w^2 - nr) | x * conj x = 1 } (norm-one elements: contains the
   cyclotomic subgroup and so every pairing output; there `cyclotomic_inverse` = conjugation IS the inverse).
   With product / conjugation / 1 it is a commutative group and the dictionary of PairingOutput's operations
   (zero = 1, += = product, -= = product with the conjugate, double = square) is homomorphic on it
   (interpretation = identity): the two premises of every C05_msm_* / accumulator theorem hold. *)
Theorem C05_gt_group_laws : forall (T : Type) (B : Fops T) (nr : T)
  (R : ring_theory (f0 B) (f1 B) (fadd B) (fmul B) (fsub B) (fneg B) eq)
  (E : forall x y : T, feqb B x y = true <-> x = y),
  group_laws (gt_mul B nr R E) (gt_inv B nr R E) (gt_one B nr R E) /\
  gops_hom (gt_sub_gops B nr R E) (gt_mul B nr R E) (gt_inv B nr R E) (gt_one B nr R E)
           (fun x => x) (fun x => x).
Proof. exact (fun T B nr R E => conj (gt_group_laws B nr R E) (gt_gops_hom B nr R E)). Qed.

(* that dictionary is the restriction of the EXECUTED dictionary [gt_gops B nr] (coq/C05/Run.v) to the carrier *)
Theorem C05_gt_gops_restrict : forall (T : Type) (B : Fops T) (nr : T)
  (R : ring_theory (f0 B) (f1 B) (fadd B) (fmul B) (fsub B) (fneg B) eq)
  (E : forall x y : T, feqb B x y = true <-> x = y),
  gt_val B nr (gzero (gt_sub_gops B nr R E)) = gzero (gt_gops B nr) /\
  (forall x y, gt_val B nr (gadd (gt_sub_gops B nr R E) x y) = gadd (gt_gops B nr) (gt_val B nr x) (gt_val B nr y)) /\
  (forall x b, gt_val B nr (gmadd (gt_sub_gops B nr R E) x b) = gmadd (gt_gops B nr) (gt_val B nr x) (gt_val B nr b)) /\
  (forall x b, gt_val B nr (gmsub (gt_sub_gops B nr R E) x b) = gmsub (gt_gops B nr) (gt_val B nr x) (gt_val B nr b)) /\
  (forall x, gt_val B nr (gdbl (gt_sub_gops B nr R E) x) = gdbl (gt_gops B nr) (gt_val B nr x)).
Proof. exact (@gt_gops_restrict). Qed.

(* C05_msm_bigint_spec at this instance, read in the field: the result is the product of the powers
   base_i ^ k_i (smul over (product, conj, 1) = exponentiation by iteration) *)
Theorem C05_gt_msm_bigint_spec : forall (T : Type) (B : Fops T) (nr : T)
  (R : ring_theory (f0 B) (f1 B) (fadd B) (fmul B) (fsub B) (fneg B) eq)
  (E : forall x y : T, feqb B x y = true <-> x = y)
  (cheap : bool) (nb : Z) (bases : list (gt_sub B nr)) (scalars : list (list Z)),
  1 <= nb -> Z.min (len bases) (len scalars) < 2 ^ 64 ->
  Forall (fun s => wf s /\ nb <= 64 * len s /\ val s < 2 ^ nb) scalars ->
  exists g, msm_bigint (gt_sub_gops B nr R E) cheap nb bases scalars = Ok g /\
            gt_val B nr g =
            msum (fmul (QuadOps B nr)) (f1 (QuadOps B nr))
                 (map (fun p => smul (fmul (QuadOps B nr)) (gt_conj B) (f1 (QuadOps B nr)) (val (fst p)) (gt_val B nr (snd p)))
                      (combine scalars bases)).
Proof. exact (@gt_msm_bigint_spec). Qed.

(* the hypotheses are satisfiable: B = Z/7 (Base/ZpField.v), Q = F_7[i], the norm-one element (2 + 2i) ... *)
Example C05_gt_hyp_ring : ring_theory (f0 (FpOps 7)) (f1 (FpOps 7)) (fadd (FpOps 7)) (fmul (FpOps 7))
                                      (fsub (FpOps 7)) (fneg (FpOps 7)) eq.
Proof. exact (FpOps_ring 7). Qed.
Example C05_gt_hyp_eqb : forall x y : Fp 7, feqb (FpOps 7) x y = true <-> x = y.
Proof. exact (FpOps_eqb 7). Qed.
Example C05_gt_member : gt_ok (FpOps 7) (fp_of 7 6) (fp_of 7 2, fp_of 7 2) = true.
Proof. vm_compute; reflexivity. Qed.
(* ... and the executed dictionary on Z/7[i]: (2+2i)^3 * (2-2i)^1 * 1^5 by both bucket methods = (2+2i)^2 = i *)
Example C05_gt_msm_example :
  (msm_bigint_wnaf (gt_gops (ZpOps 7) 6) 3 [(2, 2); (2, 5); (1, 0)] [[3]; [1]; [5]],
   msm_bigint_plain (gt_gops (ZpOps 7) 6) 3 [(2, 2); (2, 5); (1, 0)] [[3]; [1]; [5]],
   msm_checked (gt_gops (ZpOps 7) 6) true 3 1 [(1, 0); (2, 2)] [5; 2])
  = (Ok (0, 1), Ok (0, 1), Ok (0, 1)).
Proof. vm_compute; reflexivity. Qed.
