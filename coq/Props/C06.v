(* C06 -- property theorems (placeholder, filled below) *)
From V Require Import Base.Field C06.Laws.
Theorem C06_law_model_generators : law_model 15 = Some [true; true].
Proof. vm_compute; reflexivity. Qed.
