(* C06 -- pairings: pinned property theorems (statements in full; proofs in coq/C06/*Proofs.v).
   Only `exact`; Examples show that the premises are satisfiable. *)
From Coq Require Import ZArith Lia List.
From V Require Import Base.Word Base.Field C15.BigIntModel C02.Quad C02.Cubic C02.Towers C02.Inst C02.InstProofs C02.ZpInst.
From V Require Import C06.Miller C06.FinalExp C06.Tower12 C06.Mnt C06.Bw6 C06.Laws C06.ExpAlgebra C06.FinalExpProofs C06.MillerProofs C06.Tower12Proofs C06.LawProofs C06.Examples C06.MntProofs C06.Bw6Proofs C06.Bw6ExpProofs C06.CurveConsts C06.CurveFacts C06.Tower12Zp C06.MntZp.
Import ListNotations.
Open Scope Z_scope.

(* (a) BLS12 hard part: the chain of bls12/mod.rs computes r^((x-1)^2 (x+p)(x^2+p^2-1)+3) for every r of the cyclotomic subgroup *)
Theorem C06_bls12_hard_exponent :
  forall (T : Type) (one : T) (mul : T -> T -> T) (inv : T -> T) (U : T -> Prop),
       cgroup one mul inv U ->
       forall Cy : T -> Prop,
       (forall a : T, Cy a -> U a) ->
       Cy one ->
       (forall a b : T, Cy a -> Cy b -> Cy (mul a b)) ->
       (forall a : T, Cy a -> Cy (inv a)) ->
       forall (conj : T -> T) (frob : Z -> T -> T) (cyc_sq : T -> T) (p : Z),
       (forall a : T, Cy a -> conj a = inv a) ->
       (forall a : T, Cy a -> cyc_sq a = mul a a) ->
       (forall (k : Z) (a : T), U a -> frob k a = pow one mul inv a (p ^ k)) ->
       forall (x : Z) (expx : T -> T),
       (forall a : T, Cy a -> expx a = pow one mul inv a x) ->
       forall r : T, Cy r -> bls12_hard mul conj frob cyc_sq expx r = pow one mul inv r (bls12_hard_E p x).
Proof. exact (@bls12_hard_exponent). Qed.

(* (a) BN hard part (Fuentes-Castaneda et al.): exponent p^3(12x^3+6x^2+4x-1)+p^2(12x^3+6x^2+6x)+p(12x^3+6x^2+4x)+(12x^3+12x^2+6x+1) *)
Theorem C06_bn_hard_exponent :
  forall (T : Type) (one : T) (mul : T -> T -> T) (inv : T -> T) (U : T -> Prop),
       cgroup one mul inv U ->
       forall Cy : T -> Prop,
       (forall a : T, Cy a -> U a) ->
       Cy one ->
       (forall a b : T, Cy a -> Cy b -> Cy (mul a b)) ->
       (forall a : T, Cy a -> Cy (inv a)) ->
       forall (conj : T -> T) (frob : Z -> T -> T) (cyc_sq : T -> T) (p : Z),
       (forall a : T, Cy a -> conj a = inv a) ->
       (forall a : T, Cy a -> cyc_sq a = mul a a) ->
       (forall (k : Z) (a : T), U a -> frob k a = pow one mul inv a (p ^ k)) ->
       forall (x : Z) (exp_neg_x : T -> T),
       (forall a : T, Cy a -> exp_neg_x a = pow one mul inv a (- x)) ->
       forall r : T, Cy r -> bn_hard mul conj frob cyc_sq exp_neg_x r = pow one mul inv r (bn_hard_E p x).
Proof. exact (@bn_hard_exponent). Qed.

(* easy part of BLS12/BN: f^((p^h-1)(p^2+1)) (h = 6) for every unit f *)
Theorem C06_easy12_exponent :
  forall (T : Type) (one : T) (mul : T -> T -> T) (inv : T -> T) (U : T -> Prop),
       cgroup one mul inv U ->
       forall (tinv : T -> option T) (conj : T -> T) (frob : Z -> T -> T) (p h : Z),
       (forall a : T, U a -> tinv a = Some (inv a)) ->
       (forall a : T, U a -> conj a = pow one mul inv a (p ^ h)) ->
       (forall (k : Z) (a : T), U a -> frob k a = pow one mul inv a (p ^ k)) ->
       forall f : T, U f -> easy12 mul tinv conj frob f = Some (pow one mul inv f (easy12_E p h)).
Proof. exact (@easy12_exponent). Qed.

(* BLS12 final_exponentiation = f^((p^6-1)(p^2+1) * hard exponent) *)
Theorem C06_bls12_final_exp_exponent :
  forall (T : Type) (one : T) (mul : T -> T -> T) (inv : T -> T) (U : T -> Prop),
       cgroup one mul inv U ->
       forall Cy : T -> Prop,
       (forall a : T, Cy a -> U a) ->
       Cy one ->
       (forall a b : T, Cy a -> Cy b -> Cy (mul a b)) ->
       (forall a : T, Cy a -> Cy (inv a)) ->
       forall (tinv : T -> option T) (conj : T -> T) (frob : Z -> T -> T) (cyc_sq : T -> T) (p h : Z),
       (forall a : T, U a -> tinv a = Some (inv a)) ->
       (forall a : T, U a -> conj a = pow one mul inv a (p ^ h)) ->
       (forall a : T, Cy a -> conj a = inv a) ->
       (forall a : T, Cy a -> cyc_sq a = mul a a) ->
       (forall (k : Z) (a : T), U a -> frob k a = pow one mul inv a (p ^ k)) ->
       forall (x : Z) (expx : T -> T),
       (forall a : T, Cy a -> expx a = pow one mul inv a x) ->
       forall f : T,
       U f ->
       Cy (pow one mul inv f (easy12_E p h)) ->
       bls12_final_exp mul tinv conj frob cyc_sq expx f =
       Some (pow one mul inv f (easy12_E p h * bls12_hard_E p x)).
Proof. exact (@bls12_final_exp_exponent). Qed.

(* BN final_exponentiation = f^((p^6-1)(p^2+1) * hard exponent) *)
Theorem C06_bn_final_exp_exponent :
  forall (T : Type) (one : T) (mul : T -> T -> T) (inv : T -> T) (U : T -> Prop),
       cgroup one mul inv U ->
       forall Cy : T -> Prop,
       (forall a : T, Cy a -> U a) ->
       Cy one ->
       (forall a b : T, Cy a -> Cy b -> Cy (mul a b)) ->
       (forall a : T, Cy a -> Cy (inv a)) ->
       forall (tinv : T -> option T) (conj : T -> T) (frob : Z -> T -> T) (cyc_sq : T -> T) (p h : Z),
       (forall a : T, U a -> tinv a = Some (inv a)) ->
       (forall a : T, U a -> conj a = pow one mul inv a (p ^ h)) ->
       (forall a : T, Cy a -> conj a = inv a) ->
       (forall a : T, Cy a -> cyc_sq a = mul a a) ->
       (forall (k : Z) (a : T), U a -> frob k a = pow one mul inv a (p ^ k)) ->
       forall (x : Z) (en : T -> T),
       (forall a : T, Cy a -> en a = pow one mul inv a (- x)) ->
       forall f : T,
       U f ->
       Cy (pow one mul inv f (easy12_E p h)) ->
       bn_final_exp mul tinv conj frob cyc_sq en f = Some (pow one mul inv f (easy12_E p h * bn_hard_E p x)).
Proof. exact (@bn_final_exp_exponent). Qed.

(* final_exponentiation returns None exactly through Field::inverse (f = 0) *)
Theorem C06_final_exp_none_12 :
  forall (T : Type) (mul : T -> T -> T) (tinv : T -> option T) (conj : T -> T) 
         (frob : Z -> T -> T) (cyc_sq expx : T -> T) (f : T),
       tinv f = None ->
       bls12_final_exp mul tinv conj frob cyc_sq expx f = None /\
       bn_final_exp mul tinv conj frob cyc_sq expx f = None.
Proof. exact (@final_exp_none_12). Qed.

(* after the easy part conjugation is inversion (given Fermat for f in the extension field) *)
Theorem C06_unitary_after_easy :
  forall (T : Type) (one : T) (mul : T -> T -> T) (inv : T -> T) (U : T -> Prop),
       cgroup one mul inv U ->
       forall (conj : T -> T) (p h : Z),
       (forall a : T, U a -> conj a = pow one mul inv a (p ^ h)) ->
       forall f : T,
       U f ->
       pow one mul inv f (p ^ (2 * h) - 1) = one ->
       0 <= h -> mul (conj (pow one mul inv f (easy12_E p h))) (pow one mul inv f (easy12_E p h)) = one.
Proof. exact (@unitary_after_easy). Qed.

(* if E * r = c * N and f^N = 1 then (f^E)^r = 1: outputs have order dividing r *)
Theorem C06_output_order_divides :
  forall (T : Type) (one : T) (mul : T -> T -> T) (inv : T -> T) (U : T -> Prop),
       cgroup one mul inv U ->
       forall (f : T) (E r c N : Z),
       U f -> E * r = c * N -> pow one mul inv f N = one -> pow one mul inv (pow one mul inv f E) r = one.
Proof. exact (@output_order_divides). Qed.

(* MNT last chunk: a^(p*w1 +- w0) *)
Theorem C06_mnt_last_chunk_exponent :
  forall (T : Type) (one : T) (mul : T -> T -> T) (inv : T -> T) (U : T -> Prop),
       cgroup one mul inv U ->
       forall Cy : T -> Prop,
       (forall a : T, Cy a -> U a) ->
       Cy one ->
       (forall a b : T, Cy a -> Cy b -> Cy (mul a b)) ->
       (forall a : T, Cy a -> Cy (inv a)) ->
       forall (frob : Z -> T -> T) (p : Z),
       (forall (k : Z) (a : T), U a -> frob k a = pow one mul inv a (p ^ k)) ->
       forall (w1 w0 : Z) (exp_w1 exp_w0 : T -> T) (w0_is_neg : bool),
       (forall a : T, Cy a -> exp_w1 a = pow one mul inv a w1) ->
       (forall a : T, Cy a -> exp_w0 a = pow one mul inv a w0) ->
       forall a : T,
       Cy a ->
       mnt_last_chunk mul frob exp_w1 exp_w0 w0_is_neg a (inv a) =
       pow one mul inv a (mnt_last_E p w1 w0 w0_is_neg).
Proof. exact (@mnt_last_chunk_exponent). Qed.

(* MNT4 final_exponentiation = v^((p^2-1)(p*w1 +- w0)) (h = 2) *)
Theorem C06_mnt4_final_exp_exponent :
  forall (T : Type) (one : T) (mul : T -> T -> T) (inv : T -> T) (U : T -> Prop),
       cgroup one mul inv U ->
       forall Cy : T -> Prop,
       (forall a : T, Cy a -> U a) ->
       Cy one ->
       (forall a b : T, Cy a -> Cy b -> Cy (mul a b)) ->
       (forall a : T, Cy a -> Cy (inv a)) ->
       forall (tinv : T -> option T) (conj : T -> T) (frob : Z -> T -> T) (p h : Z),
       (forall a : T, U a -> tinv a = Some (inv a)) ->
       (forall a : T, U a -> conj a = pow one mul inv a (p ^ h)) ->
       (forall (k : Z) (a : T), U a -> frob k a = pow one mul inv a (p ^ k)) ->
       forall (w1 w0 : Z) (exp_w1 exp_w0 : T -> T) (w0_is_neg : bool),
       (forall a : T, Cy a -> exp_w1 a = pow one mul inv a w1) ->
       (forall a : T, Cy a -> exp_w0 a = pow one mul inv a w0) ->
       forall v : T,
       U v ->
       Cy (pow one mul inv v (mnt4_first_E p h)) ->
       mnt_final_exp mul tinv frob exp_w1 exp_w0 w0_is_neg (mnt4_first_chunk mul conj) v =
       Some (pow one mul inv v (mnt4_first_E p h * mnt_last_E p w1 w0 w0_is_neg)).
Proof. exact (@mnt4_final_exp_exponent). Qed.

(* MNT6 final_exponentiation = v^((p^3-1)(p+1)(p*w1 +- w0)) (h = 3) *)
Theorem C06_mnt6_final_exp_exponent :
  forall (T : Type) (one : T) (mul : T -> T -> T) (inv : T -> T) (U : T -> Prop),
       cgroup one mul inv U ->
       forall Cy : T -> Prop,
       (forall a : T, Cy a -> U a) ->
       Cy one ->
       (forall a b : T, Cy a -> Cy b -> Cy (mul a b)) ->
       (forall a : T, Cy a -> Cy (inv a)) ->
       forall (tinv : T -> option T) (conj : T -> T) (frob : Z -> T -> T) (p h : Z),
       (forall a : T, U a -> tinv a = Some (inv a)) ->
       (forall a : T, U a -> conj a = pow one mul inv a (p ^ h)) ->
       (forall (k : Z) (a : T), U a -> frob k a = pow one mul inv a (p ^ k)) ->
       forall (w1 w0 : Z) (exp_w1 exp_w0 : T -> T) (w0_is_neg : bool),
       (forall a : T, Cy a -> exp_w1 a = pow one mul inv a w1) ->
       (forall a : T, Cy a -> exp_w0 a = pow one mul inv a w0) ->
       forall v : T,
       U v ->
       Cy (pow one mul inv v (mnt6_first_E p h)) ->
       mnt_final_exp mul tinv frob exp_w1 exp_w0 w0_is_neg (mnt6_first_chunk mul conj frob) v =
       Some (pow one mul inv v (mnt6_first_E p h * mnt_last_E p w1 w0 w0_is_neg)).
Proof. exact (@mnt6_final_exp_exponent). Qed.

(* BW6 hard part, T_MOD_R_IS_ZERO branch (Algorithm 4.3): explicit exponent bw6a_E *)
Theorem C06_bw6_hard_a_exponent :
  forall (T : Type) (one : T) (mul : T -> T -> T) (inv : T -> T) (U : T -> Prop),
       cgroup one mul inv U ->
       forall Cy : T -> Prop,
       (forall a : T, Cy a -> U a) ->
       Cy one ->
       (forall a b : T, Cy a -> Cy b -> Cy (mul a b)) ->
       (forall a : T, Cy a -> Cy (inv a)) ->
       forall (conj : T -> T) (frob : Z -> T -> T) (p : Z),
       (forall a : T, Cy a -> conj a = inv a) ->
       (forall (k : Z) (a : T), U a -> frob k a = pow one mul inv a (p ^ k)) ->
       forall (x m d1 d2 : Z) (expx exp_m exp_d1 exp_d2 tsq : T -> T),
       (forall a : T, Cy a -> expx a = pow one mul inv a x) ->
       (forall a : T, Cy a -> exp_m a = pow one mul inv a m) ->
       (forall a : T, Cy a -> exp_d1 a = pow one mul inv a d1) ->
       (forall a : T, Cy a -> exp_d2 a = pow one mul inv a d2) ->
       (forall a : T, tsq a = mul a a) ->
       forall f : T,
       Cy f ->
       bw6_hard_a mul conj frob expx exp_m exp_d1 exp_d2 tsq f = pow one mul inv f (bw6a_E p x m d1 d2).
Proof. exact (@bw6_hard_a_exponent). Qed.

(* BW6 hard part, other branch (Algorithm 4.4): explicit exponent bw6b_E *)
Theorem C06_bw6_hard_b_exponent :
  forall (T : Type) (one : T) (mul : T -> T -> T) (inv : T -> T) (U : T -> Prop),
       cgroup one mul inv U ->
       forall Cy : T -> Prop,
       (forall a : T, Cy a -> U a) ->
       Cy one ->
       (forall a b : T, Cy a -> Cy b -> Cy (mul a b)) ->
       (forall a : T, Cy a -> Cy (inv a)) ->
       forall (conj : T -> T) (frob : Z -> T -> T) (p : Z),
       (forall a : T, Cy a -> conj a = inv a) ->
       (forall (k : Z) (a : T), U a -> frob k a = pow one mul inv a (p ^ k)) ->
       forall (x m d1 d2 : Z) (expx exp_m exp_d1 exp_d2 tsq : T -> T),
       (forall a : T, Cy a -> expx a = pow one mul inv a x) ->
       (forall a : T, Cy a -> exp_m a = pow one mul inv a m) ->
       (forall a : T, Cy a -> exp_d1 a = pow one mul inv a d1) ->
       (forall a : T, Cy a -> exp_d2 a = pow one mul inv a d2) ->
       (forall a : T, tsq a = mul a a) ->
       forall f : T,
       Cy f ->
       bw6_hard_b mul conj frob expx exp_m exp_d1 exp_d2 tsq f = pow one mul inv f (bw6b_E p x m d1 d2).
Proof. exact (@bw6_hard_b_exponent). Qed.

(* BW6 easy part: f^((p^3-1)(p+1)) (h = 3) *)
Theorem C06_bw6_easy_exponent :
  forall (T : Type) (one : T) (mul : T -> T -> T) (inv : T -> T) (U : T -> Prop),
       cgroup one mul inv U ->
       forall (tinv : T -> option T) (conj : T -> T) (frob : Z -> T -> T) (p h : Z),
       (forall a : T, U a -> tinv a = Some (inv a)) ->
       (forall a : T, U a -> conj a = pow one mul inv a (p ^ h)) ->
       (forall (k : Z) (a : T), U a -> frob k a = pow one mul inv a (p ^ k)) ->
       forall f : T, U f -> bw6_easy mul tinv conj frob f = Some (pow one mul inv f ((p ^ h - 1) * (p + 1))).
Proof. exact (@bw6_easy_exponent). Qed.

(* integer powers in a commutative group: x^(a+b) = x^a x^b *)
Theorem C06_pow_add :
  forall (T : Type) (one : T) (mul : T -> T -> T) (inv : T -> T) (U : T -> Prop),
       cgroup one mul inv U ->
       forall (x : T) (a b : Z),
       U x -> pow one mul inv x (a + b) = mul (pow one mul inv x a) (pow one mul inv x b).
Proof. exact (@pow_add). Qed.

(* (x^a)^b = x^(ab) *)
Theorem C06_pow_mul :
  forall (T : Type) (one : T) (mul : T -> T -> T) (inv : T -> T) (U : T -> Prop),
       cgroup one mul inv U ->
       forall (x : T) (a b : Z), U x -> pow one mul inv (pow one mul inv x a) b = pow one mul inv x (a * b).
Proof. exact (@pow_mul). Qed.

(* x^(-a) = (x^a)^-1 *)
Theorem C06_pow_opp :
  forall (T : Type) (one : T) (mul : T -> T -> T) (inv : T -> T) (U : T -> Prop),
       cgroup one mul inv U ->
       forall (x : T) (a : Z), U x -> pow one mul inv x (- a) = inv (pow one mul inv x a).
Proof. exact (@pow_opp). Qed.

(* (b) generic skeleton (filter, chunks of 4, loop, tail): multi Miller loop of any list = product of the single-pair values *)
Theorem C06_multi_equals_product :
  forall (T C P : Type) (tone : T) (tmul : T -> T -> T),
       (forall a b c : T, tmul a (tmul b c) = tmul (tmul a b) c) ->
       (forall a b : T, tmul a b = tmul b a) ->
       (forall a : T, tmul tone a = a) ->
       forall L S : @stage T C P,
       @splits T C P tmul L ->
       L tone [] = @Some (T * list (@pstate C P)) (tone, []) ->
       @splits T C P tmul S ->
       S tone [] = @Some (T * list (@pstate C P)) (tone, []) ->
       forall (pairs : list (option P * (list C * bool))) (G : T) (R : list (@pstate C P)),
       @product_of_pairs T C P tone tmul L S pairs = @Some (T * list (@pstate C P)) (G, R) ->
       @multi_pairs T C P tone tmul L S pairs = @Some (T * list (@pstate C P)) (G, R).
Proof. exact (@multi_equals_product). Qed.

(* (b) same statement on already filtered pairs, including the advanced coefficient iterators *)
Theorem C06_multi_equals_product_states :
  forall (T C P : Type) (tone : T) (tmul : T -> T -> T),
       (forall a b c : T, tmul a (tmul b c) = tmul (tmul a b) c) ->
       (forall a b : T, tmul a b = tmul b a) ->
       (forall a : T, tmul tone a = a) ->
       forall L S : @stage T C P,
       @splits T C P tmul L ->
       L tone [] = @Some (T * list (@pstate C P)) (tone, []) ->
       @splits T C P tmul S ->
       S tone [] = @Some (T * list (@pstate C P)) (tone, []) ->
       forall (l : list (@pstate C P)) (G : T) (R : list (@pstate C P)),
       @product_of_singles T C P tone tmul L S l = @Some (T * list (@pstate C P)) (G, R) ->
       @multi_loop T C P tone tmul L S l = @Some (T * list (@pstate C P)) (G, R).
Proof. exact (@multi_equals_product_states). Qed.

(* (c) a pair with an identity on either side contributes the factor 1 *)
Theorem C06_identity_pair_dropped :
  forall (T C P : Type) (tone : T) (tmul : T -> T -> T) (L S : @stage T C P),
       S tone [] = @Some (T * list (@pstate C P)) (tone, []) ->
       forall pr : option P * (list C * bool),
       @keep_pair P C pr = [] ->
       @multi_pairs T C P tone tmul L S [pr] = @Some (T * list (@pstate C P)) (tone, []).
Proof. exact (@identity_pair_dropped). Qed.

(* (c) the empty list gives 1 *)
Theorem C06_empty_list_is_one :
  forall (T C P : Type) (tone : T) (tmul : T -> T -> T) (L S : @stage T C P),
       S tone [] = @Some (T * list (@pstate C P)) (tone, []) ->
       @multi_pairs T C P tone tmul L S [] = @Some (T * list (@pstate C P)) (tone, []).
Proof. exact (@empty_list_is_one). Qed.

(* (b) BLS12 multi_miller_loop as executed by Run.v = product of single-pair Miller loops, every list *)
Theorem C06_bls12_multi_equals_product :
  forall (cid : Z) (T0 : Type) (Fp : Fops T0) (nr2 : T0) (tab2 : list T0) (nr6 : T0 * T0)
         (tab6_1 tab6_2 : list (T0 * T0)) (nr12 : E6) (tab12 : list (T0 * T0)) (twD : bool),
       (forall a b c : E12,
        tmul cid Fp nr2 tab2 nr6 tab6_1 tab6_2 nr12 tab12 a
          (tmul cid Fp nr2 tab2 nr6 tab6_1 tab6_2 nr12 tab12 b c) =
        tmul cid Fp nr2 tab2 nr6 tab6_1 tab6_2 nr12 tab12
          (tmul cid Fp nr2 tab2 nr6 tab6_1 tab6_2 nr12 tab12 a b) c) ->
       (forall a b : E12,
        tmul cid Fp nr2 tab2 nr6 tab6_1 tab6_2 nr12 tab12 a b =
        tmul cid Fp nr2 tab2 nr6 tab6_1 tab6_2 nr12 tab12 b a) ->
       (forall a : E12,
        tmul cid Fp nr2 tab2 nr6 tab6_1 tab6_2 nr12 tab12 (tone cid Fp nr2 tab2 nr6 tab6_1 tab6_2 nr12 tab12)
          a = a) ->
       (forall f : E12,
        tsq cid Fp nr2 tab2 nr6 tab6_1 tab6_2 nr12 tab12 f =
        tmul cid Fp nr2 tab2 nr6 tab6_1 tab6_2 nr12 tab12 f f) ->
       (forall (f : E12) (c0 c1 c4 : E2),
        mul_by_014 cid Fp nr2 nr6 f c0 c1 c4 =
        tmul cid Fp nr2 tab2 nr6 tab6_1 tab6_2 nr12 tab12 f
          (c0, c1, (f0 Fp, f0 Fp), (f0 Fp, f0 Fp, c4, (f0 Fp, f0 Fp)))) ->
       (forall (f : E12) (c0 c3 c4 : E2),
        mul_by_034 cid Fp nr2 nr6 f c0 c3 c4 =
        tmul cid Fp nr2 tab2 nr6 tab6_1 tab6_2 nr12 tab12 f
          (c0, (f0 Fp, f0 Fp), (f0 Fp, f0 Fp), (c3, c4, (f0 Fp, f0 Fp)))) ->
       (forall a b : E12,
        conj12 cid Fp nr2 nr6 (tmul cid Fp nr2 tab2 nr6 tab6_1 tab6_2 nr12 tab12 a b) =
        tmul cid Fp nr2 tab2 nr6 tab6_1 tab6_2 nr12 tab12 (conj12 cid Fp nr2 nr6 a) (conj12 cid Fp nr2 nr6 b)) ->
       conj12 cid Fp nr2 nr6 (tone cid Fp nr2 tab2 nr6 tab6_1 tab6_2 nr12 tab12) =
       tone cid Fp nr2 tab2 nr6 tab6_1 tab6_2 nr12 tab12 ->
       forall (X : list Z) (xneg : bool) (pairs : list (option (T0 * T0) * (list (E2 * E2 * E2) * bool)))
         (G : E12) (R : list pstate),
       product_of_pairs (tone cid Fp nr2 tab2 nr6 tab6_1 tab6_2 nr12 tab12)
         (tmul cid Fp nr2 tab2 nr6 tab6_1 tab6_2 nr12 tab12)
         (bits_loop (tsq cid Fp nr2 tab2 nr6 tab6_1 tab6_2 nr12 tab12) (ell12 cid Fp nr2 nr6 twD)
            (tl (bits_be_nlz X))) (bls12_tail cid Fp nr2 nr6 xneg) pairs = Some (G, R) ->
       bls12_multi_miller_prepared cid Fp nr2 tab2 nr6 tab6_1 tab6_2 nr12 tab12 twD X xneg pairs = Some G.
Proof. exact (@bls12_multi_equals_product). Qed.

(* (c) BLS12: identity pair -> 1 *)
Theorem C06_bls12_identity_pair_dropped :
  forall (cid : Z) (T0 : Type) (Fp : Fops T0) (nr2 : T0) (tab2 : list T0) (nr6 : T0 * T0)
         (tab6_1 tab6_2 : list (T0 * T0)) (nr12 : E6) (tab12 : list (T0 * T0)) (twD : bool),
       conj12 cid Fp nr2 nr6 (tone cid Fp nr2 tab2 nr6 tab6_1 tab6_2 nr12 tab12) =
       tone cid Fp nr2 tab2 nr6 tab6_1 tab6_2 nr12 tab12 ->
       forall (X : list Z) (xneg : bool) (pr : option (T0 * T0) * (list (E2 * E2 * E2) * bool)),
       keep_pair pr = [] ->
       bls12_multi_miller_prepared cid Fp nr2 tab2 nr6 tab6_1 tab6_2 nr12 tab12 twD X xneg [pr] =
       Some (tone cid Fp nr2 tab2 nr6 tab6_1 tab6_2 nr12 tab12).
Proof. exact (@bls12_identity_pair_dropped). Qed.

(* (c) BLS12: empty list -> 1 *)
Theorem C06_bls12_empty_is_one :
  forall (cid : Z) (T0 : Type) (Fp : Fops T0) (nr2 : T0) (tab2 : list T0) (nr6 : T0 * T0)
         (tab6_1 tab6_2 : list (T0 * T0)) (nr12 : E6) (tab12 : list (T0 * T0)) (twD : bool),
       conj12 cid Fp nr2 nr6 (tone cid Fp nr2 tab2 nr6 tab6_1 tab6_2 nr12 tab12) =
       tone cid Fp nr2 tab2 nr6 tab6_1 tab6_2 nr12 tab12 ->
       forall (X : list Z) (xneg : bool),
       bls12_multi_miller_prepared cid Fp nr2 tab2 nr6 tab6_1 tab6_2 nr12 tab12 twD X xneg [] =
       Some (tone cid Fp nr2 tab2 nr6 tab6_1 tab6_2 nr12 tab12).
Proof. exact (@bls12_empty_is_one). Qed.

(* BLS12: unprepared inputs = prepared inputs (Into<G2Prepared> is G2Prepared::from) *)
Theorem C06_bls12_prepared_equals_unprepared :
  forall (cid : Z) (T0 : Type) (Fp : Fops T0) (nr2 : T0) (tab2 : list T0) (nr6 : T0 * T0)
         (tab6_1 tab6_2 : list (T0 * T0)) (nr12 : E6) (tab12 : list (T0 * T0)) (twD : bool)
         (coeff_b : T0 * T0) (X : list Z) (xneg : bool) (pairs : list (option (T0 * T0) * g2aff)),
       bls12_multi_miller cid Fp nr2 tab2 nr6 tab6_1 tab6_2 nr12 tab12 twD coeff_b X xneg pairs =
       bls12_multi_miller_prepared cid Fp nr2 tab2 nr6 tab6_1 tab6_2 nr12 tab12 twD X xneg
         (map
            (fun pq : option (T0 * T0) * g2aff => (fst pq, bls12_prepare cid Fp nr2 twD coeff_b X (snd pq)))
            pairs).
Proof. exact (@bls12_prepared_equals_unprepared). Qed.

(* BLS12: the G2 identity is prepared to {[], infinity} *)
Theorem C06_bls12_prepare_identity :
  forall (cid : Z) (T0 : Type) (Fp : Fops T0) (nr2 : T0) (twD : bool) (coeff_b : T0 * T0) (X : list Z),
       bls12_prepare cid Fp nr2 twD coeff_b X None = ([], true).
Proof. exact (@bls12_prepare_identity). Qed.

(* (b) BN multi_miller_loop (signed digits, two Frobenius lines after the chunk product) = product of single-pair loops *)
Theorem C06_bn_multi_equals_product :
  forall (cid : Z) (T0 : Type) (Fp : Fops T0) (nr2 : T0) (tab2 : list T0) (nr6 : T0 * T0)
         (tab6_1 tab6_2 : list (T0 * T0)) (nr12 : E6) (tab12 : list (T0 * T0)) (twD : bool),
       (forall a b c : E12,
        tmul cid Fp nr2 tab2 nr6 tab6_1 tab6_2 nr12 tab12 a
          (tmul cid Fp nr2 tab2 nr6 tab6_1 tab6_2 nr12 tab12 b c) =
        tmul cid Fp nr2 tab2 nr6 tab6_1 tab6_2 nr12 tab12
          (tmul cid Fp nr2 tab2 nr6 tab6_1 tab6_2 nr12 tab12 a b) c) ->
       (forall a b : E12,
        tmul cid Fp nr2 tab2 nr6 tab6_1 tab6_2 nr12 tab12 a b =
        tmul cid Fp nr2 tab2 nr6 tab6_1 tab6_2 nr12 tab12 b a) ->
       (forall a : E12,
        tmul cid Fp nr2 tab2 nr6 tab6_1 tab6_2 nr12 tab12 (tone cid Fp nr2 tab2 nr6 tab6_1 tab6_2 nr12 tab12)
          a = a) ->
       (forall f : E12,
        tsq cid Fp nr2 tab2 nr6 tab6_1 tab6_2 nr12 tab12 f =
        tmul cid Fp nr2 tab2 nr6 tab6_1 tab6_2 nr12 tab12 f f) ->
       (forall (f : E12) (c0 c1 c4 : E2),
        mul_by_014 cid Fp nr2 nr6 f c0 c1 c4 =
        tmul cid Fp nr2 tab2 nr6 tab6_1 tab6_2 nr12 tab12 f
          (c0, c1, (f0 Fp, f0 Fp), (f0 Fp, f0 Fp, c4, (f0 Fp, f0 Fp)))) ->
       (forall (f : E12) (c0 c3 c4 : E2),
        mul_by_034 cid Fp nr2 nr6 f c0 c3 c4 =
        tmul cid Fp nr2 tab2 nr6 tab6_1 tab6_2 nr12 tab12 f
          (c0, (f0 Fp, f0 Fp), (f0 Fp, f0 Fp), (c3, c4, (f0 Fp, f0 Fp)))) ->
       (forall a b : E12,
        conj12 cid Fp nr2 nr6 (tmul cid Fp nr2 tab2 nr6 tab6_1 tab6_2 nr12 tab12 a b) =
        tmul cid Fp nr2 tab2 nr6 tab6_1 tab6_2 nr12 tab12 (conj12 cid Fp nr2 nr6 a) (conj12 cid Fp nr2 nr6 b)) ->
       conj12 cid Fp nr2 nr6 (tone cid Fp nr2 tab2 nr6 tab6_1 tab6_2 nr12 tab12) =
       tone cid Fp nr2 tab2 nr6 tab6_1 tab6_2 nr12 tab12 ->
       forall (xneg : bool) (ate : list Z) (pairs : list (option (T0 * T0) * (list (E2 * E2 * E2) * bool)))
         (G : E12) (R : list pstate),
       product_of_pairs (tone cid Fp nr2 tab2 nr6 tab6_1 tab6_2 nr12 tab12)
         (tmul cid Fp nr2 tab2 nr6 tab6_1 tab6_2 nr12 tab12)
         (digits_loop (tsq cid Fp nr2 tab2 nr6 tab6_1 tab6_2 nr12 tab12) (ell12 cid Fp nr2 nr6 twD)
            (bn_digits ate) true) (bn_tail cid Fp nr2 nr6 twD xneg) pairs = Some (G, R) ->
       bn_multi_miller_prepared cid Fp nr2 tab2 nr6 tab6_1 tab6_2 nr12 tab12 twD xneg ate pairs = Some G.
Proof. exact (@bn_multi_equals_product). Qed.

(* (c) BN: identity pair -> 1 *)
Theorem C06_bn_identity_pair_dropped :
  forall (cid : Z) (T0 : Type) (Fp : Fops T0) (nr2 : T0) (tab2 : list T0) (nr6 : T0 * T0)
         (tab6_1 tab6_2 : list (T0 * T0)) (nr12 : E6) (tab12 : list (T0 * T0)) (twD : bool),
       conj12 cid Fp nr2 nr6 (tone cid Fp nr2 tab2 nr6 tab6_1 tab6_2 nr12 tab12) =
       tone cid Fp nr2 tab2 nr6 tab6_1 tab6_2 nr12 tab12 ->
       forall (xneg : bool) (ate : list Z) (pr : option (T0 * T0) * (list (E2 * E2 * E2) * bool)),
       keep_pair pr = [] ->
       bn_multi_miller_prepared cid Fp nr2 tab2 nr6 tab6_1 tab6_2 nr12 tab12 twD xneg ate [pr] =
       Some (tone cid Fp nr2 tab2 nr6 tab6_1 tab6_2 nr12 tab12).
Proof. exact (@bn_identity_pair_dropped). Qed.

(* (c) BN: empty list -> 1 *)
Theorem C06_bn_empty_is_one :
  forall (cid : Z) (T0 : Type) (Fp : Fops T0) (nr2 : T0) (tab2 : list T0) (nr6 : T0 * T0)
         (tab6_1 tab6_2 : list (T0 * T0)) (nr12 : E6) (tab12 : list (T0 * T0)) (twD : bool),
       conj12 cid Fp nr2 nr6 (tone cid Fp nr2 tab2 nr6 tab6_1 tab6_2 nr12 tab12) =
       tone cid Fp nr2 tab2 nr6 tab6_1 tab6_2 nr12 tab12 ->
       forall (xneg : bool) (ate : list Z),
       bn_multi_miller_prepared cid Fp nr2 tab2 nr6 tab6_1 tab6_2 nr12 tab12 twD xneg ate [] =
       Some (tone cid Fp nr2 tab2 nr6 tab6_1 tab6_2 nr12 tab12).
Proof. exact (@bn_empty_is_one). Qed.

(* BN: unprepared inputs = prepared inputs *)
Theorem C06_bn_prepared_equals_unprepared :
  forall (cid : Z) (T0 : Type) (Fp : Fops T0) (nr2 : T0) (tab2 : list T0) (nr6 : T0 * T0)
         (tab6_1 tab6_2 : list (T0 * T0)) (nr12 : E6) (tab12 : list (T0 * T0)) (twD : bool)
         (coeff_b : T0 * T0) (xneg : bool) (ate : list Z) (tqx tqy : T0 * T0)
         (pairs : list (option (T0 * T0) * g2aff)),
       bn_multi_miller cid Fp nr2 tab2 nr6 tab6_1 tab6_2 nr12 tab12 twD coeff_b xneg ate tqx tqy pairs =
       bn_multi_miller_prepared cid Fp nr2 tab2 nr6 tab6_1 tab6_2 nr12 tab12 twD xneg ate
         (map
            (fun pq : option (T0 * T0) * g2aff =>
             (fst pq, bn_prepare cid Fp nr2 tab2 twD coeff_b xneg ate tqx tqy (snd pq))) pairs).
Proof. exact (@bn_prepared_equals_unprepared). Qed.

(* (d) PARTIAL: under tate_additive_l/r (the mathematical pairing is additive in each argument) e(aP,bQ) = e(P,Q)^(ab); not proved: the model value IS that pairing *)
Theorem C06_bilinear_partial :
  forall (G1 G2 GT : Type) (zero1 : G1) (add1 : G1 -> G1 -> G1) (neg1 : G1 -> G1) 
         (zero2 : G2) (add2 : G2 -> G2 -> G2) (neg2 : G2 -> G2) (oneT : GT) (mulT : GT -> GT -> GT)
         (invT : GT -> GT),
       cgroup zero1 add1 neg1 (fun _ : G1 => True) ->
       cgroup zero2 add2 neg2 (fun _ : G2 => True) ->
       cgroup oneT mulT invT (fun _ : GT => True) ->
       forall e : G1 -> G2 -> GT,
       (forall (P P' : G1) (Q : G2), e (add1 P P') Q = mulT (e P Q) (e P' Q)) ->
       (forall (P : G1) (Q Q' : G2), e P (add2 Q Q') = mulT (e P Q) (e P Q')) ->
       forall (P : G1) (Q : G2) (a b : Z),
       e (pow zero1 add1 neg1 P a) (pow zero2 add2 neg2 Q b) = pow oneT mulT invT (e P Q) (a * b).
Proof. exact (@bilinear_partial). Qed.

(* e(aP,Q) = e(P,aQ) *)
Theorem C06_pairing_swap_scalar :
  forall (G1 G2 GT : Type) (zero1 : G1) (add1 : G1 -> G1 -> G1) (neg1 : G1 -> G1) 
         (zero2 : G2) (add2 : G2 -> G2 -> G2) (neg2 : G2 -> G2) (oneT : GT) (mulT : GT -> GT -> GT)
         (invT : GT -> GT),
       cgroup zero1 add1 neg1 (fun _ : G1 => True) ->
       cgroup zero2 add2 neg2 (fun _ : G2 => True) ->
       cgroup oneT mulT invT (fun _ : GT => True) ->
       forall e : G1 -> G2 -> GT,
       (forall (P P' : G1) (Q : G2), e (add1 P P') Q = mulT (e P Q) (e P' Q)) ->
       (forall (P : G1) (Q Q' : G2), e P (add2 Q Q') = mulT (e P Q) (e P Q')) ->
       forall (P : G1) (Q : G2) (a : Z), e (pow zero1 add1 neg1 P a) Q = e P (pow zero2 add2 neg2 Q a).
Proof. exact (@pairing_swap_scalar). Qed.

(* identity in the G1 slot gives 1 *)
Theorem C06_pairing_identity_l :
  forall (G1 G2 GT : Type) (zero1 : G1) (add1 : G1 -> G1 -> G1) (neg1 : G1 -> G1) 
         (oneT : GT) (mulT : GT -> GT -> GT) (invT : GT -> GT),
       cgroup zero1 add1 neg1 (fun _ : G1 => True) ->
       cgroup oneT mulT invT (fun _ : GT => True) ->
       forall e : G1 -> G2 -> GT,
       (forall (P P' : G1) (Q : G2), e (add1 P P') Q = mulT (e P Q) (e P' Q)) ->
       forall Q : G2, e zero1 Q = oneT.
Proof. exact (@pairing_identity_l). Qed.

(* identity in the G2 slot gives 1 *)
Theorem C06_pairing_identity_r :
  forall (G1 G2 GT : Type) (zero2 : G2) (add2 : G2 -> G2 -> G2) (neg2 : G2 -> G2) 
         (oneT : GT) (mulT : GT -> GT -> GT) (invT : GT -> GT),
       cgroup zero2 add2 neg2 (fun _ : G2 => True) ->
       cgroup oneT mulT invT (fun _ : GT => True) ->
       forall e : G1 -> G2 -> GT,
       (forall (P : G1) (Q Q' : G2), e P (add2 Q Q') = mulT (e P Q) (e P Q')) ->
       forall P : G1, e P zero2 = oneT.
Proof. exact (@pairing_identity_r). Qed.

(* e(aP,Q) = e(P,Q)^a for every integer a *)
Theorem C06_pairing_smul_l :
  forall (G1 G2 GT : Type) (zero1 : G1) (add1 : G1 -> G1 -> G1) (neg1 : G1 -> G1) 
         (oneT : GT) (mulT : GT -> GT -> GT) (invT : GT -> GT),
       cgroup zero1 add1 neg1 (fun _ : G1 => True) ->
       cgroup oneT mulT invT (fun _ : GT => True) ->
       forall e : G1 -> G2 -> GT,
       (forall (P P' : G1) (Q : G2), e (add1 P P') Q = mulT (e P Q) (e P' Q)) ->
       forall (P : G1) (Q : G2) (a : Z), e (pow zero1 add1 neg1 P a) Q = pow oneT mulT invT (e P Q) a.
Proof. exact (@pairing_smul_l). Qed.

(* e(P,bQ) = e(P,Q)^b *)
Theorem C06_pairing_smul_r :
  forall (G1 G2 GT : Type) (zero2 : G2) (add2 : G2 -> G2 -> G2) (neg2 : G2 -> G2) 
         (oneT : GT) (mulT : GT -> GT -> GT) (invT : GT -> GT),
       cgroup zero2 add2 neg2 (fun _ : G2 => True) ->
       cgroup oneT mulT invT (fun _ : GT => True) ->
       forall e : G1 -> G2 -> GT,
       (forall (P : G1) (Q Q' : G2), e P (add2 Q Q') = mulT (e P Q) (e P Q')) ->
       forall (P : G1) (Q : G2) (b : Z), e P (pow zero2 add2 neg2 Q b) = pow oneT mulT invT (e P Q) b.
Proof. exact (@pairing_smul_r). Qed.

(* r.P = 0 implies e(P,Q)^r = 1 *)
Theorem C06_output_order_divides_r :
  forall (G1 G2 GT : Type) (zero1 : G1) (add1 : G1 -> G1 -> G1) (neg1 : G1 -> G1) 
         (oneT : GT) (mulT : GT -> GT -> GT) (invT : GT -> GT),
       cgroup zero1 add1 neg1 (fun _ : G1 => True) ->
       cgroup oneT mulT invT (fun _ : GT => True) ->
       forall e : G1 -> G2 -> GT,
       (forall (P P' : G1) (Q : G2), e (add1 P P') Q = mulT (e P Q) (e P' Q)) ->
       forall (P : G1) (Q : G2) (r : Z),
       pow zero1 add1 neg1 P r = zero1 -> pow oneT mulT invT (e P Q) r = oneT.
Proof. exact (@output_order_divides_r). Qed.

(* in the product specification a pair with an identity can be dropped *)
Theorem C06_multi_pairing_identity_dropped :
  forall (G1 G2 GT : Type) (zero1 : G1) (add1 : G1 -> G1 -> G1) (neg1 : G1 -> G1) 
         (zero2 : G2) (add2 : G2 -> G2 -> G2) (neg2 : G2 -> G2) (oneT : GT) (mulT : GT -> GT -> GT)
         (invT : GT -> GT),
       cgroup zero1 add1 neg1 (fun _ : G1 => True) ->
       cgroup zero2 add2 neg2 (fun _ : G2 => True) ->
       cgroup oneT mulT invT (fun _ : GT => True) ->
       forall e : G1 -> G2 -> GT,
       (forall (P P' : G1) (Q : G2), e (add1 P P') Q = mulT (e P Q) (e P' Q)) ->
       (forall (P : G1) (Q Q' : G2), e P (add2 Q Q') = mulT (e P Q) (e P Q')) ->
       forall (l1 l2 : list (G1 * G2)) (P : G1) (Q : G2),
       P = zero1 \/ Q = zero2 ->
       multi_pairing_spec oneT mulT e (l1 ++ (P, Q) :: l2) = multi_pairing_spec oneT mulT e (l1 ++ l2).
Proof. exact (@multi_pairing_identity_dropped). Qed.

(* if e(G1,G2) were 1 the pairing would be trivial on the generated subgroups (meaning of generators_nondegenerate) *)
Theorem C06_degenerate_generators_kill_everything :
  forall (G1 G2 GT : Type) (zero1 : G1) (add1 : G1 -> G1 -> G1) (neg1 : G1 -> G1) 
         (zero2 : G2) (add2 : G2 -> G2 -> G2) (neg2 : G2 -> G2) (oneT : GT) (mulT : GT -> GT -> GT)
         (invT : GT -> GT),
       cgroup zero1 add1 neg1 (fun _ : G1 => True) ->
       cgroup zero2 add2 neg2 (fun _ : G2 => True) ->
       cgroup oneT mulT invT (fun _ : GT => True) ->
       forall e : G1 -> G2 -> GT,
       (forall (P P' : G1) (Q : G2), e (add1 P P') Q = mulT (e P Q) (e P' Q)) ->
       (forall (P : G1) (Q Q' : G2), e P (add2 Q Q') = mulT (e P Q) (e P Q')) ->
       forall (g1 : G1) (g2 : G2),
       e g1 g2 = oneT -> forall a b : Z, e (pow zero1 add1 neg1 g1 a) (pow zero2 add2 neg2 g2 b) = oneT.
Proof. exact (@degenerate_generators_kill_everything). Qed.

(* the specified answers of the law-level operations (closed finite facts) *)
Theorem C06_law_model_all_true :
  forall op r, law_model op = Some r -> forallb (fun b => b) r = true.
Proof. exact law_model_all_true. Qed.

(* ======== MNT4 / MNT6 / BW6 executed models, per-curve closed facts, premises discharged over Z_p ======== *)

(* MNT4/MNT6 (executed model Mnt.v): on one pair multi_miller_loop is the single-pair ate_miller_loop *)
Theorem C06_mnt_multi_single :
  forall (T0 E : Type) (LE : level T0 E) (LT : level T0 (E * E)) (embed : T0 -> E) (mnt6 : bool) 
         (ate : list Z) (ate_neg : bool),
       (forall a : T, mtmul LT (mtone LT) a = a) ->
       forall (p : g1p) (q : g2p),
       mnt_multi_miller_prepared LE LT embed mnt6 ate ate_neg [(p, q)] =
       mnt_ate_miller_loop LE LT embed mnt6 ate ate_neg p q.
Proof. exact (@mnt_multi_single). Qed.

(* MNT: multi_miller_loop is multiplicative over concatenation of the pair lists *)
Theorem C06_mnt_multi_app :
  forall (T0 E : Type) (LE : level T0 E) (LT : level T0 (E * E)) (embed : T0 -> E) (mnt6 : bool) 
         (ate : list Z) (ate_neg : bool),
       (forall a b c : T, mtmul LT a (mtmul LT b c) = mtmul LT (mtmul LT a b) c) ->
       (forall a b : T, mtmul LT a b = mtmul LT b a) ->
       (forall a : T, mtmul LT (mtone LT) a = a) ->
       forall a b : list (g1p * g2p),
       mnt_multi_miller_prepared LE LT embed mnt6 ate ate_neg (a ++ b) =
       mnt_mul_opt LT (mnt_multi_miller_prepared LE LT embed mnt6 ate ate_neg a)
         (mnt_multi_miller_prepared LE LT embed mnt6 ate ate_neg b).
Proof. exact (@mnt_multi_app). Qed.

(* (b) MNT multi_miller_loop over ANY list = product of its values on the single pairs (None iff some pair panics) *)
Theorem C06_mnt_multi_equals_product :
  forall (T0 E : Type) (LE : level T0 E) (LT : level T0 (E * E)) (embed : T0 -> E) (mnt6 : bool) 
         (ate : list Z) (ate_neg : bool),
       (forall a b c : T, mtmul LT a (mtmul LT b c) = mtmul LT (mtmul LT a b) c) ->
       (forall a b : T, mtmul LT a b = mtmul LT b a) ->
       (forall a : T, mtmul LT (mtone LT) a = a) ->
       forall pairs : list (g1p * g2p),
       mnt_multi_miller_prepared LE LT embed mnt6 ate ate_neg pairs =
       mnt_product_of_pairs LE LT embed mnt6 ate ate_neg pairs.
Proof. exact (@mnt_multi_equals_product). Qed.

(* MNT: G2Prepared::from(identity) has empty coefficient lists (TWIST invertible) *)
Theorem C06_mnt_g2_prepare_identity :
  forall (T0 E : Type) (LE : level T0 E) (mnt6 : bool) (twist twist_a : E) (ate : list Z) 
         (ate_neg : bool) (ti : E),
       einv LE twist = Some ti ->
       mnt_g2_prepare LE mnt6 twist twist_a ate ate_neg None =
       Some (f0 (lF LE), f0 (lF LE), fmul (lF LE) (f0 (lF LE)) ti, fmul (lF LE) (f0 (lF LE)) ti, [], []).
Proof. exact (@mnt_g2_prepare_identity). Qed.

(* (c) MNT: a prepared G2 point with an empty double-coefficient list pairs to one with every G1 point *)
Theorem C06_mnt_ate_identity :
  forall (T0 E : Type) (LE : level T0 E) (LT : level T0 (E * E)) (embed : T0 -> E) (mnt6 : bool) 
         (ate : list Z) (ate_neg : bool) (p : g1p) (x y xot yot : E) (acs : list acoef),
       mnt_ate_miller_loop LE LT embed mnt6 ate ate_neg p (x, y, xot, yot, [], acs) = Some (mtone LT).
Proof. exact (@mnt_ate_identity). Qed.

(* (c) MNT: a pair whose G2 side is the identity can be dropped from any list, at any position *)
Theorem C06_mnt_identity_pair_dropped :
  forall (T0 E : Type) (LE : level T0 E) (LT : level T0 (E * E)) (embed : T0 -> E) (mnt6 : bool) 
         (ate : list Z) (ate_neg : bool),
       (forall a b c : T, mtmul LT a (mtmul LT b c) = mtmul LT (mtmul LT a b) c) ->
       (forall a b : T, mtmul LT a b = mtmul LT b a) ->
       (forall a : T, mtmul LT (mtone LT) a = a) ->
       forall (a b : list (g1p * (E * E * E * E * list dcoef * list acoef))) (p : g1p) (x y xot yot : E)
         (acs : list acoef),
       mnt_multi_miller_prepared LE LT embed mnt6 ate ate_neg (a ++ (p, (x, y, xot, yot, [], acs)) :: b) =
       mnt_multi_miller_prepared LE LT embed mnt6 ate ate_neg (a ++ b).
Proof. exact (@mnt_identity_pair_dropped). Qed.

(* MNT: unprepared inputs = prepared inputs *)
Theorem C06_mnt_prepared_equals_unprepared :
  forall (T0 E : Type) (Fp : Fops T0) (LE : level T0 E) (LT : level T0 (E * E)) (embed : T0 -> E) 
         (mnt6 : bool) (twist twist_a : E) (ate : list Z) (ate_neg : bool)
         (pairs : list (option (T0 * T0) * option (E * E))),
       mnt_multi_miller Fp LE LT embed mnt6 twist twist_a ate ate_neg pairs =
       match mnt_prepare_pairs Fp LE mnt6 twist twist_a ate ate_neg pairs with
       | Some l => mnt_multi_miller_prepared LE LT embed mnt6 ate ate_neg l
       | None => None
       end.
Proof. exact (@mnt_prepared_equals_unprepared). Qed.

(* MNT4 over the integers mod p (ZpS p): multi = product with NO field-arithmetic premise (C02 ring theorems used) *)
Theorem C06_mnt4_multi_equals_product_zp :
  forall (p cid : Z) (nr2 : Zp p) (tab2 tab4 : list (Zp p)),
       fp2_consts_ok cid (ZpS p) nr2 ->
       forall (embed : Zp p -> Zp p * Zp p) (ate : list Z) (ate_neg : bool) (pairs : list (g1p * g2p)),
       mnt_multi_miller_prepared (L2 cid (ZpS p) nr2 tab2) (L4 cid (ZpS p) nr2 tab2 (f0 (ZpS p), f1 (ZpS p)) tab4)
         embed false ate ate_neg pairs =
       mnt_product_of_pairs (L2 cid (ZpS p) nr2 tab2) (L4 cid (ZpS p) nr2 tab2 (f0 (ZpS p), f1 (ZpS p)) tab4) embed
         false ate ate_neg pairs.
Proof. exact (@mnt4_multi_equals_product_zp). Qed.

(* MNT6 over the integers mod p: the same *)
Theorem C06_mnt6_multi_equals_product_zp :
  forall (p cid : Z) (nr3 : Zp p) (t1 t2 tab6b : list (Zp p)),
       fp3_consts_ok cid (ZpS p) nr3 ->
       forall (embed : Zp p -> Zp p * Zp p * Zp p) (ate : list Z) (ate_neg : bool) (pairs : list (g1p * g2p)),
       mnt_multi_miller_prepared (L3 cid (ZpS p) nr3 t1 t2)
         (L6b cid (ZpS p) nr3 t1 t2 (f0 (ZpS p), f1 (ZpS p), f0 (ZpS p)) tab6b) embed true ate ate_neg pairs =
       mnt_product_of_pairs (L3 cid (ZpS p) nr3 t1 t2)
         (L6b cid (ZpS p) nr3 t1 t2 (f0 (ZpS p), f1 (ZpS p), f0 (ZpS p)) tab6b) embed true ate ate_neg pairs.
Proof. exact (@mnt6_multi_equals_product_zp). Qed.

(* MNT4 over Z_p: G2-identity pair dropped, no premise *)
Theorem C06_mnt4_identity_pair_dropped_zp :
  forall (p cid : Z) (nr2 : Zp p) (tab2 tab4 : list (Zp p)),
       fp2_consts_ok cid (ZpS p) nr2 ->
       forall (embed : Zp p -> Zp p * Zp p) (ate : list Z) (ate_neg : bool)
         (a b : list (g1p * (Zp p * Zp p * (Zp p * Zp p) * (Zp p * Zp p) * (Zp p * Zp p) * list dcoef * list acoef)))
         (q : g1p) (x y xot yot : Zp p * Zp p) (acs : list acoef),
       mnt_multi_miller_prepared (L2 cid (ZpS p) nr2 tab2) (L4 cid (ZpS p) nr2 tab2 (f0 (ZpS p), f1 (ZpS p)) tab4)
         embed false ate ate_neg (a ++ (q, (x, y, xot, yot, [], acs)) :: b) =
       mnt_multi_miller_prepared (L2 cid (ZpS p) nr2 tab2) (L4 cid (ZpS p) nr2 tab2 (f0 (ZpS p), f1 (ZpS p)) tab4)
         embed false ate ate_neg (a ++ b).
Proof. exact (@mnt4_identity_pair_dropped_zp). Qed.

(* MNT6 over Z_p: G2-identity pair dropped, no premise *)
Theorem C06_mnt6_identity_pair_dropped_zp :
  forall (p cid : Z) (nr3 : Zp p) (t1 t2 tab6b : list (Zp p)),
       fp3_consts_ok cid (ZpS p) nr3 ->
       forall (embed : Zp p -> Zp p * Zp p * Zp p) (ate : list Z) (ate_neg : bool)
         (a
          b : list
                (g1p *
                 (Zp p * Zp p * Zp p * (Zp p * Zp p * Zp p) * (Zp p * Zp p * Zp p) * (Zp p * Zp p * Zp p) *
                  list dcoef * list acoef))) (q : g1p) (x y xot yot : Zp p * Zp p * Zp p) 
         (acs : list acoef),
       mnt_multi_miller_prepared (L3 cid (ZpS p) nr3 t1 t2)
         (L6b cid (ZpS p) nr3 t1 t2 (f0 (ZpS p), f1 (ZpS p), f0 (ZpS p)) tab6b) embed true ate ate_neg
         (a ++ (q, (x, y, xot, yot, [], acs)) :: b) =
       mnt_multi_miller_prepared (L3 cid (ZpS p) nr3 t1 t2)
         (L6b cid (ZpS p) nr3 t1 t2 (f0 (ZpS p), f1 (ZpS p), f0 (ZpS p)) tab6b) embed true ate ate_neg 
         (a ++ b).
Proof. exact (@mnt6_identity_pair_dropped_zp). Qed.

(* BW6 stage 1 (chunk independence): when the single-pair first loops succeed (collect), f_u computed in chunks of 4 = the unchunked first loop over the whole list *)
Theorem C06_bw6_fu_chunk_independent :
  forall (T C P : Type) (tone : T) (tmul : T -> T -> T) (tsq : T -> T) (ell : T -> C -> P -> T)
         (line : C -> P -> T),
       (forall a b c : T, tmul a (tmul b c) = tmul (tmul a b) c) ->
       (forall a b : T, tmul a b = tmul b a) ->
       (forall a : T, tmul tone a = a) ->
       (forall f : T, tsq f = tmul f f) ->
       (forall (f : T) (c : C) (p : P), ell f c p = tmul f (line c p)) ->
       forall (bits1 : list bool) (ps : list pstate) (g : T) (r : list pstate),
       collect tone tmul (skel_loop1 tsq ell bits1) ps = Some (g, r) ->
       skel_fu tone tmul tsq ell bits1 ps = Some (g, r) /\ skel_loop1 tsq ell bits1 tone ps = Some (g, r).
Proof. exact (@skel_fu_unchunked). Qed.

(* BW6 stage 1: the first loop from one over a concatenation = product of the two runs (f_u of a list = product of the single-pair f_u) *)
Theorem C06_bw6_fu_app :
  forall (T C P : Type) (tone : T) (tmul : T -> T -> T) (tsq : T -> T) (ell : T -> C -> P -> T)
         (line : C -> P -> T),
       (forall a b c : T, tmul a (tmul b c) = tmul (tmul a b) c) ->
       (forall a b : T, tmul a b = tmul b a) ->
       (forall a : T, tmul tone a = a) ->
       (forall f : T, tsq f = tmul f f) ->
       (forall (f : T) (c : C) (p : P), ell f c p = tmul f (line c p)) ->
       forall (bits1 : list bool) (a b : list pstate) (ga : T) (ra : list pstate) (gb : T) (rb : list pstate),
       skel_loop1 tsq ell bits1 tone a = Some (ga, ra) ->
       skel_loop1 tsq ell bits1 tone b = Some (gb, rb) ->
       skel_loop1 tsq ell bits1 tone (a ++ b) = Some (tmul ga gb, ra ++ rb).
Proof. exact (@skel_fu_app). Qed.

(* BW6: f_u enters f_1 exactly once: f_1 = f_u * (the fold of one line per pair started from one) *)
Theorem C06_bw6_f1_factor :
  forall (T C P : Type) (tone : T) (tmul : T -> T -> T) (ell : T -> C -> P -> T) (line : C -> P -> T),
       (forall a b c : T, tmul a (tmul b c) = tmul (tmul a b) c) ->
       (forall a b : T, tmul a b = tmul b a) ->
       (forall a : T, tmul tone a = a) ->
       (forall (f : T) (c : C) (p : P), ell f c p = tmul f (line c p)) ->
       forall (f_u : T) (st : list pstate) (g : T) (r : list pstate),
       ell_all ell tone st = Some (g, r) -> ell_all ell f_u st = Some (tmul f_u g, r).
Proof. exact (@skel_f1_factor). Qed.

(* BW6 second loop: jointly multiplicative in (f_u, f_u^-1, accumulator, pair list) *)
Theorem C06_bw6_loop2_splits :
  forall (T C P : Type) (tmul : T -> T -> T) (tsq : T -> T) (ell : T -> C -> P -> T) (line : C -> P -> T),
       (forall a b c : T, tmul a (tmul b c) = tmul (tmul a b) c) ->
       (forall a b : T, tmul a b = tmul b a) ->
       (forall f : T, tsq f = tmul f f) ->
       (forall (f : T) (c : C) (p : P), ell f c p = tmul f (line c p)) ->
       forall (ds : list Z) (ua ia ub ib fa fb : T) (a b : list pstate) (ga gb : T) (a' b' : list pstate),
       bw6_loop2 tmul tsq ell ua ia ds fa a = Some (ga, a') ->
       bw6_loop2 tmul tsq ell ub ib ds fb b = Some (gb, b') ->
       bw6_loop2 tmul tsq ell (tmul ua ub) (tmul ia ib) ds (tmul fa fb) (a ++ b) = Some (tmul ga gb, a' ++ b').
Proof. exact (@bw6_loop2_splits). Qed.

(* BW6 skeleton: no surviving pair -> one *)
Theorem C06_bw6_skel_multi_nil :
  forall (T C P : Type) (tone : T) (tmul : T -> T -> T) (tsq : T -> T) (ell : T -> C -> P -> T)
         (conj frob1 : T -> T) (cinv : T -> option T),
       (forall a : T, tmul tone a = a) ->
       (forall f : T, tsq f = tmul f f) ->
       forall (bits1 : list bool) (ate1_neg : bool) (ds2 : list Z) (ate2_neg tmodr : bool),
       conj tone = tone ->
       frob1 tone = tone ->
       cinv tone = Some tone ->
       skel_multi tone tmul tsq ell conj frob1 cinv bits1 ate1_neg ds2 ate2_neg tmodr [] = Some tone.
Proof. exact (@skel_multi_nil). Qed.

(* (b) BW6 skeleton (chunked f_u, f_1, f_2, sign flags, Frobenius switch): over ANY list of surviving pairs = product of its values on the single pairs *)
Theorem C06_bw6_skel_multi_equals_product :
  forall (T C P : Type) (tone : T) (tmul : T -> T -> T) (tsq : T -> T) (ell : T -> C -> P -> T)
         (line : C -> P -> T) (conj frob1 : T -> T) (cinv : T -> option T),
       (forall a b c : T, tmul a (tmul b c) = tmul (tmul a b) c) ->
       (forall a b : T, tmul a b = tmul b a) ->
       (forall a : T, tmul tone a = a) ->
       (forall f : T, tsq f = tmul f f) ->
       (forall (f : T) (c : C) (p : P), ell f c p = tmul f (line c p)) ->
       (forall a b : T, conj (tmul a b) = tmul (conj a) (conj b)) ->
       (forall a b : T, frob1 (tmul a b) = tmul (frob1 a) (frob1 b)) ->
       (forall a b a' b' : T, cinv a = Some a' -> cinv b = Some b' -> cinv (tmul a b) = Some (tmul a' b')) ->
       forall (bits1 : list bool) (ate1_neg : bool) (ds2 : list Z) (ate2_neg tmodr : bool),
       conj tone = tone ->
       frob1 tone = tone ->
       cinv tone = Some tone ->
       forall (l : list kept2) (G : T),
       skel_product tone tmul tsq ell conj frob1 cinv bits1 ate1_neg ds2 ate2_neg tmodr l = Some G ->
       skel_multi tone tmul tsq ell conj frob1 cinv bits1 ate1_neg ds2 ate2_neg tmodr l = Some G.
Proof. exact (@skel_multi_equals_product). Qed.

(* (b) BW6 executed multi_miller_loop (identity filter in front) = product of its values on the single pairs; premises = field arithmetic of the Fp6 tower *)
Theorem C06_bw6_multi_equals_product :
  forall (cid : Z) (T0 : Type) (Fp : Fops T0) (nr3 : T0) (tab3_1 tab3_2 : list T0) (nr6b : T0 * T0 * T0)
         (tab6b : list T0) (twD : bool) (ate1 : list Z) (ate1_neg : bool) (ate2 : list Z) 
         (ate2_neg tmodr : bool),
       (forall a b c : B6,
        btmul cid Fp nr3 tab3_1 tab3_2 nr6b tab6b a (btmul cid Fp nr3 tab3_1 tab3_2 nr6b tab6b b c) =
        btmul cid Fp nr3 tab3_1 tab3_2 nr6b tab6b (btmul cid Fp nr3 tab3_1 tab3_2 nr6b tab6b a b) c) ->
       (forall a b : B6,
        btmul cid Fp nr3 tab3_1 tab3_2 nr6b tab6b a b = btmul cid Fp nr3 tab3_1 tab3_2 nr6b tab6b b a) ->
       (forall a : B6, btmul cid Fp nr3 tab3_1 tab3_2 nr6b tab6b (btone cid Fp nr3 tab3_1 tab3_2 nr6b tab6b) a = a) ->
       (forall f : B6, btsq cid Fp nr3 tab3_1 tab3_2 nr6b tab6b f = btmul cid Fp nr3 tab3_1 tab3_2 nr6b tab6b f f) ->
       (forall (f : T0 * T0 * T0 * (T0 * T0 * T0)) (x0 x1 x4 : T0),
        fp6b_mul_by_014 Fp nr3 f x0 x1 x4 =
        btmul cid Fp nr3 tab3_1 tab3_2 nr6b tab6b f (x0, x1, f0 Fp, (f0 Fp, x4, f0 Fp))) ->
       (forall (f : T0 * T0 * T0 * (T0 * T0 * T0)) (x0 x3 x4 : T0),
        fp6b_mul_by_034 Fp nr3 f x0 x3 x4 =
        btmul cid Fp nr3 tab3_1 tab3_2 nr6b tab6b f (x0, f0 Fp, f0 Fp, (x3, x4, f0 Fp))) ->
       (forall a b : B6,
        bconj cid Fp nr3 (btmul cid Fp nr3 tab3_1 tab3_2 nr6b tab6b a b) =
        btmul cid Fp nr3 tab3_1 tab3_2 nr6b tab6b (bconj cid Fp nr3 a) (bconj cid Fp nr3 b)) ->
       (forall a b : B6,
        bfrob cid Fp nr3 tab3_1 tab3_2 nr6b tab6b 1 (btmul cid Fp nr3 tab3_1 tab3_2 nr6b tab6b a b) =
        btmul cid Fp nr3 tab3_1 tab3_2 nr6b tab6b (bfrob cid Fp nr3 tab3_1 tab3_2 nr6b tab6b 1 a)
          (bfrob cid Fp nr3 tab3_1 tab3_2 nr6b tab6b 1 b)) ->
       (forall a b a' b' : B6,
        bcyc_inverse cid Fp nr3 tab3_1 tab3_2 nr6b tab6b a = Some a' ->
        bcyc_inverse cid Fp nr3 tab3_1 tab3_2 nr6b tab6b b = Some b' ->
        bcyc_inverse cid Fp nr3 tab3_1 tab3_2 nr6b tab6b (btmul cid Fp nr3 tab3_1 tab3_2 nr6b tab6b a b) =
        Some (btmul cid Fp nr3 tab3_1 tab3_2 nr6b tab6b a' b')) ->
       bconj cid Fp nr3 (btone cid Fp nr3 tab3_1 tab3_2 nr6b tab6b) = btone cid Fp nr3 tab3_1 tab3_2 nr6b tab6b ->
       bfrob cid Fp nr3 tab3_1 tab3_2 nr6b tab6b 1 (btone cid Fp nr3 tab3_1 tab3_2 nr6b tab6b) =
       btone cid Fp nr3 tab3_1 tab3_2 nr6b tab6b ->
       bcyc_inverse cid Fp nr3 tab3_1 tab3_2 nr6b tab6b (btone cid Fp nr3 tab3_1 tab3_2 nr6b tab6b) =
       Some (btone cid Fp nr3 tab3_1 tab3_2 nr6b tab6b) ->
       forall (pairs : list bw6_pair) (G : B6),
       bw6_product_of_pairs cid Fp nr3 tab3_1 tab3_2 nr6b tab6b twD ate1 ate1_neg ate2 ate2_neg tmodr pairs = Some G ->
       bw6_multi_miller_prepared cid Fp nr3 tab3_1 tab3_2 nr6b tab6b twD ate1 ate1_neg ate2 ate2_neg tmodr pairs =
       Some G.
Proof. exact (@bw6_multi_equals_product). Qed.

(* (c) BW6: a pair with an identity in either slot gives one *)
Theorem C06_bw6_identity_pair_dropped :
  forall (cid : Z) (T0 : Type) (Fp : Fops T0) (nr3 : T0) (tab3_1 tab3_2 : list T0) (nr6b : T0 * T0 * T0)
         (tab6b : list T0) (twD : bool) (ate1 : list Z) (ate1_neg : bool) (ate2 : list Z) 
         (ate2_neg tmodr : bool),
       (forall a : B6, btmul cid Fp nr3 tab3_1 tab3_2 nr6b tab6b (btone cid Fp nr3 tab3_1 tab3_2 nr6b tab6b) a = a) ->
       (forall f : B6, btsq cid Fp nr3 tab3_1 tab3_2 nr6b tab6b f = btmul cid Fp nr3 tab3_1 tab3_2 nr6b tab6b f f) ->
       bconj cid Fp nr3 (btone cid Fp nr3 tab3_1 tab3_2 nr6b tab6b) = btone cid Fp nr3 tab3_1 tab3_2 nr6b tab6b ->
       bfrob cid Fp nr3 tab3_1 tab3_2 nr6b tab6b 1 (btone cid Fp nr3 tab3_1 tab3_2 nr6b tab6b) =
       btone cid Fp nr3 tab3_1 tab3_2 nr6b tab6b ->
       bcyc_inverse cid Fp nr3 tab3_1 tab3_2 nr6b tab6b (btone cid Fp nr3 tab3_1 tab3_2 nr6b tab6b) =
       Some (btone cid Fp nr3 tab3_1 tab3_2 nr6b tab6b) ->
       forall pr : bw6_pair,
       bw6_keep pr = [] ->
       bw6_multi_miller_prepared cid Fp nr3 tab3_1 tab3_2 nr6b tab6b twD ate1 ate1_neg ate2 ate2_neg tmodr [pr] =
       Some (btone cid Fp nr3 tab3_1 tab3_2 nr6b tab6b).
Proof. exact (@bw6_identity_pair_dropped). Qed.

(* (c) BW6: empty list -> one *)
Theorem C06_bw6_empty_is_one :
  forall (cid : Z) (T0 : Type) (Fp : Fops T0) (nr3 : T0) (tab3_1 tab3_2 : list T0) (nr6b : T0 * T0 * T0)
         (tab6b : list T0) (twD : bool) (ate1 : list Z) (ate1_neg : bool) (ate2 : list Z) 
         (ate2_neg tmodr : bool),
       (forall a : B6, btmul cid Fp nr3 tab3_1 tab3_2 nr6b tab6b (btone cid Fp nr3 tab3_1 tab3_2 nr6b tab6b) a = a) ->
       (forall f : B6, btsq cid Fp nr3 tab3_1 tab3_2 nr6b tab6b f = btmul cid Fp nr3 tab3_1 tab3_2 nr6b tab6b f f) ->
       bconj cid Fp nr3 (btone cid Fp nr3 tab3_1 tab3_2 nr6b tab6b) = btone cid Fp nr3 tab3_1 tab3_2 nr6b tab6b ->
       bfrob cid Fp nr3 tab3_1 tab3_2 nr6b tab6b 1 (btone cid Fp nr3 tab3_1 tab3_2 nr6b tab6b) =
       btone cid Fp nr3 tab3_1 tab3_2 nr6b tab6b ->
       bcyc_inverse cid Fp nr3 tab3_1 tab3_2 nr6b tab6b (btone cid Fp nr3 tab3_1 tab3_2 nr6b tab6b) =
       Some (btone cid Fp nr3 tab3_1 tab3_2 nr6b tab6b) ->
       bw6_multi_miller_prepared cid Fp nr3 tab3_1 tab3_2 nr6b tab6b twD ate1 ate1_neg ate2 ate2_neg tmodr [] =
       Some (btone cid Fp nr3 tab3_1 tab3_2 nr6b tab6b).
Proof. exact (@bw6_empty_is_one). Qed.

(* BW6: unprepared inputs = prepared inputs *)
Theorem C06_bw6_prepared_equals_unprepared :
  forall (cid : Z) (T0 : Type) (Fp : Fops T0) (nr3 : T0) (tab3_1 tab3_2 : list T0) (nr6b : T0 * T0 * T0)
         (tab6b : list T0) (twD : bool) (ate1 : list Z) (ate1_neg : bool) (ate2 : list Z) 
         (ate2_neg tmodr : bool) (coeff_b : T0) (pairs : list (option (T0 * T0) * option (T0 * T0))),
       bw6_multi_miller cid Fp nr3 tab3_1 tab3_2 nr6b tab6b twD ate1 ate1_neg ate2 ate2_neg tmodr coeff_b pairs =
       match bw6_prepare_pairs Fp twD ate1 ate1_neg ate2 coeff_b pairs with
       | Some l =>
           bw6_multi_miller_prepared cid Fp nr3 tab3_1 tab3_2 nr6b tab6b twD ate1 ate1_neg ate2 ate2_neg tmodr l
       | None => None
       end.
Proof. exact (@bw6_prepared_equals_unprepared). Qed.

(* BW6: the G2 identity is prepared to {[], [], infinity} *)
Theorem C06_bw6_prepare_identity :
  forall (T0 : Type) (Fp : Fops T0) (twD : bool) (ate1 : list Z) (ate1_neg : bool) (ate2 : list Z)
         (coeff_b : T0), bw6_prepare Fp coeff_b twD ate1 ate1_neg ate2 None = Some ([], [], true).
Proof. exact (@bw6_prepare_identity). Qed.

(* (a) bw6_761 hard-part override (eprint 2020/351 Alg. 6) computes f^(R0(x) + p R1(x)) on the cyclotomic subgroup *)
Theorem C06_bw6_761_hard_exponent :
  forall (T : Type) (one : T) (mul : T -> T -> T) (inv : T -> T) (U : T -> Prop),
       cgroup one mul inv U ->
       forall Cy : T -> Prop,
       (forall a : T, Cy a -> U a) ->
       Cy one ->
       (forall a b : T, Cy a -> Cy b -> Cy (mul a b)) ->
       (forall a : T, Cy a -> Cy (inv a)) ->
       forall (conj : T -> T) (frob : Z -> T -> T) (p : Z),
       (forall a : T, Cy a -> conj a = inv a) ->
       (forall (k : Z) (a : T), U a -> frob k a = pow one mul inv a (p ^ k)) ->
       forall (x : Z) (expx tsq : T -> T),
       (forall a : T, Cy a -> expx a = pow one mul inv a x) ->
       (forall a : T, tsq a = mul a a) ->
       forall f : T, Cy f -> bw6_761_chain mul conj (frob 1) expx tsq f = pow one mul inv f (bw6_761_hard_E p x).
Proof. exact (@bw6_761_hard_exponent). Qed.

(* (b) BLS12 over the integers mod p (ZpS p): multi = product with the Fp12 arithmetic premises DISCHARGED by the C02 theorems; only the premises on the constants remain *)
Theorem C06_bls12_multi_equals_product_zp :
  forall (p cid : Z) (nr2 : Zp p) (tab2 : list (Zp p)) (nr6 : Zp p * Zp p)
         (tab6_1 tab6_2 tab12 : list (Zp p * Zp p)),
       fp2_consts_ok cid (ZpS p) nr2 ->
       fp6a_consts_ok cid (ZpS p) nr6 ->
       forall (twD : bool) (X : list Z) (xneg : bool)
         (pairs : list (option (Zp p * Zp p) * (list (E2 * E2 * E2) * bool))) (G : E12) (R : list pstate),
       product_of_pairs
         (tone cid (ZpS p) nr2 tab2 nr6 tab6_1 tab6_2
            (f0 (ZpS p), f0 (ZpS p), (f1 (ZpS p), f0 (ZpS p)), (f0 (ZpS p), f0 (ZpS p))) tab12)
         (tmul cid (ZpS p) nr2 tab2 nr6 tab6_1 tab6_2
            (f0 (ZpS p), f0 (ZpS p), (f1 (ZpS p), f0 (ZpS p)), (f0 (ZpS p), f0 (ZpS p))) tab12)
         (bits_loop
            (tsq cid (ZpS p) nr2 tab2 nr6 tab6_1 tab6_2
               (f0 (ZpS p), f0 (ZpS p), (f1 (ZpS p), f0 (ZpS p)), (f0 (ZpS p), f0 (ZpS p))) tab12)
            (ell12 cid (ZpS p) nr2 nr6 twD) (tl (bits_be_nlz X))) (bls12_tail cid (ZpS p) nr2 nr6 xneg) pairs =
       Some (G, R) ->
       bls12_multi_miller_prepared cid (ZpS p) nr2 tab2 nr6 tab6_1 tab6_2
         (f0 (ZpS p), f0 (ZpS p), (f1 (ZpS p), f0 (ZpS p)), (f0 (ZpS p), f0 (ZpS p))) tab12 twD X xneg pairs = 
       Some G.
Proof. exact (@bls12_multi_equals_product_zp). Qed.

(* (b) BN over Z_p: the same *)
Theorem C06_bn_multi_equals_product_zp :
  forall (p cid : Z) (nr2 : Zp p) (tab2 : list (Zp p)) (nr6 : Zp p * Zp p)
         (tab6_1 tab6_2 tab12 : list (Zp p * Zp p)),
       fp2_consts_ok cid (ZpS p) nr2 ->
       fp6a_consts_ok cid (ZpS p) nr6 ->
       forall (twD xneg : bool) (ate : list Z) (pairs : list (option (Zp p * Zp p) * (list (E2 * E2 * E2) * bool)))
         (G : E12) (R : list pstate),
       product_of_pairs
         (tone cid (ZpS p) nr2 tab2 nr6 tab6_1 tab6_2
            (f0 (ZpS p), f0 (ZpS p), (f1 (ZpS p), f0 (ZpS p)), (f0 (ZpS p), f0 (ZpS p))) tab12)
         (tmul cid (ZpS p) nr2 tab2 nr6 tab6_1 tab6_2
            (f0 (ZpS p), f0 (ZpS p), (f1 (ZpS p), f0 (ZpS p)), (f0 (ZpS p), f0 (ZpS p))) tab12)
         (digits_loop
            (tsq cid (ZpS p) nr2 tab2 nr6 tab6_1 tab6_2
               (f0 (ZpS p), f0 (ZpS p), (f1 (ZpS p), f0 (ZpS p)), (f0 (ZpS p), f0 (ZpS p))) tab12)
            (ell12 cid (ZpS p) nr2 nr6 twD) (bn_digits ate) true) (bn_tail cid (ZpS p) nr2 nr6 twD xneg) pairs =
       Some (G, R) ->
       bn_multi_miller_prepared cid (ZpS p) nr2 tab2 nr6 tab6_1 tab6_2
         (f0 (ZpS p), f0 (ZpS p), (f1 (ZpS p), f0 (ZpS p)), (f0 (ZpS p), f0 (ZpS p))) tab12 twD xneg ate pairs =
       Some G.
Proof. exact (@bn_multi_equals_product_zp). Qed.

(* (c) BLS12 over Z_p: identity pair -> one, no arithmetic premise *)
Theorem C06_bls12_identity_pair_dropped_zp :
  forall (p cid : Z) (nr2 : Zp p) (tab2 : list (Zp p)) (nr6 : Zp p * Zp p)
         (tab6_1 tab6_2 tab12 : list (Zp p * Zp p)),
       fp2_consts_ok cid (ZpS p) nr2 ->
       fp6a_consts_ok cid (ZpS p) nr6 ->
       forall (twD : bool) (X : list Z) (xneg : bool) (pr : option (Zp p * Zp p) * (list (E2 * E2 * E2) * bool)),
       keep_pair pr = [] ->
       bls12_multi_miller_prepared cid (ZpS p) nr2 tab2 nr6 tab6_1 tab6_2
         (f0 (ZpS p), f0 (ZpS p), (f1 (ZpS p), f0 (ZpS p)), (f0 (ZpS p), f0 (ZpS p))) tab12 twD X xneg [pr] =
       Some
         (tone cid (ZpS p) nr2 tab2 nr6 tab6_1 tab6_2
            (f0 (ZpS p), f0 (ZpS p), (f1 (ZpS p), f0 (ZpS p)), (f0 (ZpS p), f0 (ZpS p))) tab12).
Proof. exact (@bls12_identity_pair_dropped_zp). Qed.

(* (c) BN over Z_p: identity pair -> one, no arithmetic premise *)
Theorem C06_bn_identity_pair_dropped_zp :
  forall (p cid : Z) (nr2 : Zp p) (tab2 : list (Zp p)) (nr6 : Zp p * Zp p)
         (tab6_1 tab6_2 tab12 : list (Zp p * Zp p)),
       fp2_consts_ok cid (ZpS p) nr2 ->
       fp6a_consts_ok cid (ZpS p) nr6 ->
       forall (twD xneg : bool) (ate : list Z) (pr : option (Zp p * Zp p) * (list (E2 * E2 * E2) * bool)),
       keep_pair pr = [] ->
       bn_multi_miller_prepared cid (ZpS p) nr2 tab2 nr6 tab6_1 tab6_2
         (f0 (ZpS p), f0 (ZpS p), (f1 (ZpS p), f0 (ZpS p)), (f0 (ZpS p), f0 (ZpS p))) tab12 twD xneg ate [pr] =
       Some
         (tone cid (ZpS p) nr2 tab2 nr6 tab6_1 tab6_2
            (f0 (ZpS p), f0 (ZpS p), (f1 (ZpS p), f0 (ZpS p)), (f0 (ZpS p), f0 (ZpS p))) tab12).
Proof. exact (@bn_identity_pair_dropped_zp). Qed.

(* (a) closed fact for bls12_381: E(x,p) * r = c * (p^k - 1) and gcd(c, r) = 1 (constants dumped from the Rust configuration) *)
Theorem C06_final_exp_exponent_bls12_381 :
  exponent_fact (easy12_E bls12_381_p 6 * bls12_hard_E bls12_381_p bls12_381_x) bls12_381_r bls12_381_c
         bls12_381_p 12.
Proof. exact (@fact_bls12_381). Qed.

(* (a) closed fact for bls12_377: E(x,p) * r = c * (p^k - 1) and gcd(c, r) = 1 (constants dumped from the Rust configuration) *)
Theorem C06_final_exp_exponent_bls12_377 :
  exponent_fact (easy12_E bls12_377_p 6 * bls12_hard_E bls12_377_p bls12_377_x) bls12_377_r bls12_377_c
         bls12_377_p 12.
Proof. exact (@fact_bls12_377). Qed.

(* (a) closed fact for bn254: E(x,p) * r = c * (p^k - 1) and gcd(c, r) = 1 (constants dumped from the Rust configuration) *)
Theorem C06_final_exp_exponent_bn254 :
  exponent_fact (easy12_E bn254_p 6 * bn_hard_E bn254_p bn254_x) bn254_r bn254_c bn254_p 12.
Proof. exact (@fact_bn254). Qed.

(* (a) closed fact for mnt4_298: E(x,p) * r = c * (p^k - 1) and gcd(c, r) = 1 (constants dumped from the Rust configuration) *)
Theorem C06_final_exp_exponent_mnt4_298 :
  exponent_fact (mnt4_first_E mnt4_298_p 2 * mnt_last_E mnt4_298_p mnt4_298_w1 mnt4_298_w0 mnt4_298_w0_is_neg)
         mnt4_298_r mnt4_298_c mnt4_298_p 4.
Proof. exact (@fact_mnt4_298). Qed.

(* (a) closed fact for mnt4_753: E(x,p) * r = c * (p^k - 1) and gcd(c, r) = 1 (constants dumped from the Rust configuration) *)
Theorem C06_final_exp_exponent_mnt4_753 :
  exponent_fact (mnt4_first_E mnt4_753_p 2 * mnt_last_E mnt4_753_p mnt4_753_w1 mnt4_753_w0 mnt4_753_w0_is_neg)
         mnt4_753_r mnt4_753_c mnt4_753_p 4.
Proof. exact (@fact_mnt4_753). Qed.

(* (a) closed fact for mnt6_298: E(x,p) * r = c * (p^k - 1) and gcd(c, r) = 1 (constants dumped from the Rust configuration) *)
Theorem C06_final_exp_exponent_mnt6_298 :
  exponent_fact (mnt6_first_E mnt6_298_p 3 * mnt_last_E mnt6_298_p mnt6_298_w1 mnt6_298_w0 mnt6_298_w0_is_neg)
         mnt6_298_r mnt6_298_c mnt6_298_p 6.
Proof. exact (@fact_mnt6_298). Qed.

(* (a) closed fact for mnt6_753: E(x,p) * r = c * (p^k - 1) and gcd(c, r) = 1 (constants dumped from the Rust configuration) *)
Theorem C06_final_exp_exponent_mnt6_753 :
  exponent_fact (mnt6_first_E mnt6_753_p 3 * mnt_last_E mnt6_753_p mnt6_753_w1 mnt6_753_w0 mnt6_753_w0_is_neg)
         mnt6_753_r mnt6_753_c mnt6_753_p 6.
Proof. exact (@fact_mnt6_753). Qed.

(* (a) closed fact for bw6_761: E(x,p) * r = c * (p^k - 1) and gcd(c, r) = 1 (constants dumped from the Rust configuration) *)
Theorem C06_final_exp_exponent_bw6_761 :
  exponent_fact ((bw6_761_p ^ 3 - 1) * (bw6_761_p + 1) * bw6_761_hard_E bw6_761_p bw6_761_x) bw6_761_r bw6_761_c
         bw6_761_p 6.
Proof. exact (@fact_bw6_761). Qed.

(* (a) closed fact for bw6_767: E(x,p) * r = c * (p^k - 1) and gcd(c, r) = 1 (constants dumped from the Rust configuration) *)
Theorem C06_final_exp_exponent_bw6_767 :
  exponent_fact
         ((bw6_767_p ^ 3 - 1) * (bw6_767_p + 1) * bw6a_E bw6_767_p bw6_767_x bw6_767_m bw6_767_d1 bw6_767_d2)
         bw6_767_r bw6_767_c bw6_767_p 6.
Proof. exact (@fact_bw6_767). Qed.

(* (a) the generic Algorithm 4.4 chain with bw6_761's constants also has an exponent of the form c (p^6-1)/r, gcd(c, r) = 1 *)
Theorem C06_final_exp_exponent_bw6_761_generic_b :
  exists c : Z,
         exponent_fact
           ((bw6_761_p ^ 3 - 1) * (bw6_761_p + 1) * bw6b_E bw6_761_p bw6_761_x bw6_761_m bw6_761_d1 bw6_761_d2)
           bw6_761_r c bw6_761_p 6.
Proof. exact (@fact_bw6_761_generic_b). Qed.

(* ---- Examples: the premises are satisfiable, on non-trivial instances ---- *)
Example C06_ex_cgroup_Z : cgroup 0 Z.add Z.opp (fun _ => True).
Proof. exact cgroup_Z. Qed.
(* exponent-chain premises hold for (Z, +) with p = -1, h = 1, conj = opp, frob k a = a * p^k *)
Example C06_ex_bls12_chain :
  bls12_hard Z.add Z.opp (fun k a => a * (-1) ^ k) (fun a => a + a) (fun a => a * 5) 7 = 7 * bls12_hard_E (-1) 5.
Proof. vm_compute; reflexivity. Qed.
Example C06_ex_bn_chain :
  bn_hard Z.add Z.opp (fun k a => a * (-1) ^ k) (fun a => a + a) (fun a => a * (- 3)) 11 = 11 * bn_hard_E (-1) 3.
Proof. vm_compute; reflexivity. Qed.
(* Miller skeleton over the monoid (Z, 1, Z.mul) with ell f c p = f times (c + p): three pairs, one dropped *)
Example C06_ex_multi_product :
  multi_pairs 1 Z.mul (bits_loop (fun f => f * f) ex_ell [true; false]) (fun f st => Some (f, st)) ex_pairs
  = product_of_pairs 1 Z.mul (bits_loop (fun f => f * f) ex_ell [true; false]) (fun f st => Some (f, st)) ex_pairs
  /\ opt_fst (multi_pairs 1 Z.mul (bits_loop (fun f => f * f) ex_ell [true; false]) (fun f st => Some (f, st)) ex_pairs) <> Some 1.
Proof. split; [vm_compute; reflexivity | vm_compute; discriminate]. Qed.
(* a bilinear map: e(a, b) = a * b on (Z,+) x (Z,+) -> (Z,+) *)
Example C06_ex_bilinear :
  (forall P P' Q, (P + P') * Q = P * Q + P' * Q) /\ (forall P Q Q', P * (Q + Q') = P * Q + P * Q').
Proof. exact ex_additive. Qed.
(* the premises on the constants of the _zp theorems hold for a bls12_381-shaped tower (cid 0) over every p *)
Example C06_ex_consts_zp : forall p : Z,
  fp2_consts_ok 0 (ZpS p) (fneg (ZpS p) (f1 (ZpS p))) /\ fp6a_consts_ok 0 (ZpS p) (f1 (ZpS p), f1 (ZpS p)).
Proof. exact consts_example. Qed.
(* BW6 skeleton over the monoid (Z, 1, Z.mul), conj = frob = id, ell f c p = f times (c + p): six surviving pairs
   (two chunks), loop-2 digits 1, -1, 0: the chunked function = product of the single-pair values, and is not 1 *)
Example C06_ex_bw6_product :
  skel_multi 1 Z.mul (fun f => f * f) ex_ell (fun f => f) (fun f => f) (fun f => Some f) [true; false] false [1; -1; 0] true false ex_bw6_pairs
  = skel_product 1 Z.mul (fun f => f * f) ex_ell (fun f => f) (fun f => f) (fun f => Some f) [true; false] false [1; -1; 0] true false ex_bw6_pairs
  /\ skel_multi 1 Z.mul (fun f => f * f) ex_ell (fun f => f) (fun f => f) (fun f => Some f) [true; false] false [1; -1; 0] true false ex_bw6_pairs <> Some 1
  /\ skel_multi 1 Z.mul (fun f => f * f) ex_ell (fun f => f) (fun f => f) (fun f => Some f) [true; false] false [1; -1; 0] true false ex_bw6_pairs <> None.
Proof. repeat split; vm_compute; (reflexivity || discriminate). Qed.
