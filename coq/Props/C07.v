(* C07 -- property theorems only: pinned statements, each closed by `exact`.
   F : Fops T is an arbitrary field dictionary; `is_field F` (field_theory of its operations,
   Leibniz equality) and `eqb_correct F` are explicit premises.  `prim_root F k w` says
   w^(2^(k-1)) = -1 (w is a primitive 2^k-th root of unity), nothing for k = 0.
   `bl k` is the bit-reversal permutation of a list of length 2^k (even positions first,
   recursively); `dft n w c` is naive Horner evaluation at w^0 .. w^(n-1). *)
From V Require Import Base.Field C07.Dft C07.Radix2 C07.MixedRadix C07.Domain
  C07.DftProofs C07.Radix2Proofs C07.DomainProofs C07.DegreeAware C07.NewProofs C07.KAdicity.

(* decimation in frequency (io_helper): DFT in bit-reversed order, every k, every input *)
Theorem C07_io_is_bitreversed_dft : forall T (F : Fops T), is_field F ->
  forall k w x, length x = (2 ^ k)%nat -> prim_root F k w ->
  io_aux F k w x = bl k (dft F (2 ^ k) w x).
Proof. exact (@io_aux_spec). Qed.

(* decimation in time (oi_helper, start_gap = 1) on bit-reversed input: DFT in order *)
Theorem C07_oi_after_bitrev_is_dft : forall T (F : Fops T), is_field F ->
  forall k w c, length c = (2 ^ k)%nat -> prim_root F k w ->
  oi_aux F k 0 w (bl k c) = dft F (2 ^ k) w c.
Proof. exact (@oi_aux_spec). Qed.

(* the index-level derange of fft.rs (out[i] = x[bitrev i]) is that permutation; it is an involution *)
Theorem C07_derange_is_bitrev : forall T (F : Fops T) k x, length x = (2 ^ k)%nat ->
  derange F x k = bl k x.
Proof. exact (@derange_bl). Qed.
Theorem C07_bitrev_involutive : forall A k (x : list A), length x = (2 ^ k)%nat -> bl k (bl k x) = x.
Proof. exact (@bl_involutive). Qed.

(* distribute_powers_and_mul_by_const: scaling coefficient i by c g^i = evaluating at g x, times c *)
Theorem C07_distribute_powers_spec : forall T (F : Fops T), is_field F ->
  forall c g k x, eval F (distribute_powers_and_mul_by_const F c g k) x = fmul F k (eval F c (fmul F g x)).
Proof. exact (@eval_distribute). Qed.

(* in_order_fft_in_place = values at offset * gen^i in domain order, subgroup and coset *)
Theorem C07_in_order_fft_spec : forall T (F : Fops T), is_field F -> eqb_correct F ->
  forall k w h x, length x = (2 ^ k)%nat -> prim_root F k w ->
  in_order_fft F k w h x = dft_coset F (2 ^ k) h w x.
Proof. exact (@in_order_fft_spec). Qed.

(* shorter input, zero padded by resize (the in-order branch of fft_in_place) *)
Theorem C07_in_order_fft_padded : forall T (F : Fops T), is_field F -> eqb_correct F ->
  forall k w h c, (length c <= 2 ^ k)%nat -> prim_root F k w ->
  in_order_fft F k w h (resize F (2 ^ k) c) = dft_coset F (2 ^ k) h w c.
Proof. exact (@in_order_fft_padded). Qed.

(* ifft (fft x) = x, subgroup and coset: gen_inv, offset_inv, size_inv are the inverses the
   constructor stores (size_inv * 2^k = 1 says in particular that the characteristic is odd) *)
Theorem C07_ifft_fft_id : forall T (F : Fops T), is_field F ->
  forall k w wi h hi si x, length x = (2 ^ k)%nat ->
  fmul F w wi = f1 F -> fmul F h hi = f1 F ->
  fmul F (pown F (fadd F (f1 F) (f1 F)) k) si = f1 F ->
  in_order_ifft F k wi h hi si (in_order_fft F k w h x) = x.
Proof. exact (@ifft_fft_id). Qed.

(* degree-aware FFT (input length * 4 <= size).  FULL STATEMENT (not proved end to end):
     forall k gen offset c, length c * 4 <= 2^k -> prim_root F k gen ->
       degree_aware_fft F k gen offset c = Some (dft_coset F (2^k) offset gen c).
   PROVED PART: starting oi_helper at gap 2^s (skipping the s lowest levels) on the array
   `dupA k s c` -- the bit-reversed input in which every aligned block of 2^s positions
   repeats its first element -- yields the DFT of every c whose coefficients beyond
   2^(k-s) vanish.  MISSING: that partial_bitrev_swap followed by duplicate_initials
   produces exactly `dupA k s (resize c)` (index bookkeeping over chunks); that step is
   tied to the code by the correspondence classes fft/*/degree_aware/*. *)
Theorem C07_degree_aware_skip_partial : forall T (F : Fops T), is_field F ->
  forall k s w c, length c = (2 ^ k)%nat -> prim_root F k w ->
  (forall i, (2 ^ (k - s) <= i)%nat -> nth i c (f0 F) = f0 F) ->
  oi_aux F k s w (dupA F k s c) = dft F (2 ^ k) w c.
Proof. exact (@oi_skip_spec). Qed.

(* elements() = [offset * gen^i], element(i) = offset * gen^i *)
Theorem C07_elements_spec : forall T (F : Fops T), is_field F ->
  forall d n, d_size d = Z.of_nat n ->
  elements F d = map (fun i => fmul F (d_offset d) (pown F (d_gen d) i)) (seq 0 n).
Proof. exact (@elements_spec). Qed.
Theorem C07_element_spec : forall T (F : Fops T), is_field F -> eqb_correct F ->
  forall d i, element F d (Z.of_nat i) = fmul F (d_offset d) (pown F (d_gen d) i).
Proof. exact (@element_spec). Qed.

(* vanishing polynomial: value tau^n - h^n; zero at every point of the (coset) domain *)
Theorem C07_vanishing_eval_spec : forall T (F : Fops T), is_field F ->
  forall d n tau, d_size d = Z.of_nat n -> d_offset_pow_size d = pown F (d_offset d) n ->
  evaluate_vanishing_polynomial F d tau = fsub F (pown F tau n) (pown F (d_offset d) n).
Proof. exact (@vanishing_eval_spec). Qed.
Theorem C07_vanishing_at_domain_points : forall T (F : Fops T), is_field F -> eqb_correct F ->
  forall d n i, d_size d = Z.of_nat n -> d_offset_pow_size d = pown F (d_offset d) n ->
  pown F (d_gen d) n = f1 F ->
  evaluate_vanishing_polynomial F d (element F d (Z.of_nat i)) = f0 F.
Proof. exact (@vanishing_at_domain_points). Qed.

(* get_coset keeps the subgroup, stores the offset, its inverse and offset^size *)
Theorem C07_get_coset_spec : forall T (F : Fops T), is_field F -> eqb_correct F ->
  forall d n h d', d_size d = Z.of_nat n -> get_coset F d h = Some d' ->
  d_offset d' = h /\ d_offset_pow_size d' = pown F h n /\ fmul F h (d_offset_inv d') = f1 F /\
  d_size d' = d_size d /\ d_gen d' = d_gen d /\ d_gen_inv d' = d_gen_inv d /\ d_size_inv d' = d_size_inv d.
Proof. exact (@get_coset_spec). Qed.

(* Radix2EvaluationDomain::new: what a returned domain contains *)
Theorem C07_radix2_new_spec : forall T (F : Fops T), is_field F -> eqb_correct F ->
  forall (c : fftcfg T) m d, radix2_new F c m = RSome d ->
  d_size d = npow2 m /\ d_log d = Z.log2 (npow2 m) /\ d_mixed d = false /\
  (d_log d <= c_two_adicity c) /\
  get_root_of_unity F c (npow2 m) = RSome (d_gen d) /\
  fmul F (d_gen d) (d_gen_inv d) = f1 F /\ fmul F (d_size_fe d) (d_size_inv d) = f1 F /\
  d_size_fe d = fof F [npow2 m] /\
  d_offset d = f1 F /\ d_offset_inv d = f1 F /\ d_offset_pow_size d = f1 F.
Proof. exact (@radix2_new_spec). Qed.

(* generator_exact_order (power-of-two branch of get_root_of_unity): if the configured
   TWO_ADIC_ROOT_OF_UNITY has exact order 2^TWO_ADICITY (a fact about the configuration: C16),
   the root returned for n = 2^lg is root^(2^(s-lg)) and has exact order 2^lg *)
Theorem C07_get_root_of_unity_pow2 : forall T (F : Fops T), is_field F ->
  forall (c : fftcfg T) (s lg : nat) w,
  c_large_root c = None -> c_two_adicity c = Z.of_nat s ->
  prim_root F s (c_two_adic_root c) ->
  get_root_of_unity F c (2 ^ Z.of_nat lg) = RSome w ->
  (lg <= s)%nat /\ w = pown F (c_two_adic_root c) (2 ^ (s - lg)) /\ prim_root F lg w.
Proof. exact (@get_root_of_unity_pow2). Qed.

(* domain size: >= m, a power of two within the two-adicity, minimal; None iff no such power *)
Theorem C07_radix2_size_minimal : forall T (c : fftcfg T) m, 0 <= m -> 0 <= c_two_adicity c ->
  match radix2_compute_size c m with
  | Some s => m <= s /\ (exists k, 0 <= k <= c_two_adicity c /\ s = 2 ^ k) /\
              (forall j, 0 <= j -> m <= 2 ^ j -> s <= 2 ^ j)
  | None => forall k, 0 <= k <= c_two_adicity c -> 2 ^ k < m
  end.
Proof. exact (@radix2_size_minimal). Qed.

(* k_adicity (ff/src/fields/utils.rs; used by get_root_of_unity, MixedRadix::new and
   serial_mixed_radix_fft to split n = 2^s q^t): exact exponent of k in n, and the split *)
Theorem C07_k_adicity_spec : forall k e u,
  2 <= k -> 0 <= e -> 1 <= u -> ~ (k | u) -> k_adicity k (k ^ e * u) = e.
Proof. exact k_adicity_spec. Qed.
Theorem C07_k_adicity_q_part : forall q s t,
  3 <= q -> Z.odd q = true -> 0 <= s -> 0 <= t -> k_adicity q (2 ^ s * q ^ t) = t.
Proof. exact k_adicity_q_part'. Qed.
Theorem C07_k_adicity_two_part : forall q s t,
  Z.odd q = true -> 1 <= q -> 0 <= s -> 0 <= t -> k_adicity 2 (2 ^ s * q ^ t) = s.
Proof. exact k_adicity_two_part. Qed.

(* non-vacuity: F_17, w = 2 has 2^4 = -1 (order 8), coset offset 3, an input of length 8 *)
Example C07_example_prim_root : pown (ZpOps 17) 2 4 = fneg (ZpOps 17) (f1 (ZpOps 17)).
Proof. vm_compute. reflexivity. Qed.
Example C07_example_fft :
  in_order_fft (ZpOps 17) 3 2 3 [1;2;3;4;5;6;7;8] = dft_coset (ZpOps 17) 8 3 2 [1;2;3;4;5;6;7;8]
  /\ in_order_ifft (ZpOps 17) 3 9 3 6 15 (in_order_fft (ZpOps 17) 3 2 3 [1;2;3;4;5;6;7;8]) = [1;2;3;4;5;6;7;8].
Proof. vm_compute. split; reflexivity. Qed.
Example C07_example_degree_aware :
  degree_aware_fft (ZpOps 17) 3 2 3 [5;7] = Some (dft_coset (ZpOps 17) 8 3 2 [5;7])
  /\ oi_aux (ZpOps 17) 3 2 2 (dupA (ZpOps 17) 3 2 [5;7;0;0;0;0;0;0]) = dft (ZpOps 17) 8 2 [5;7;0;0;0;0;0;0].
Proof. vm_compute. split; reflexivity. Qed.
Example C07_example_size : radix2_compute_size (mkCfg 6 0 None None None) 33 = Some 64
  /\ radix2_compute_size (mkCfg (T:=Z) 6 0 None None None) 65 = None.
Proof. vm_compute. split; reflexivity. Qed.

(* ====================================================================================== *)
(* Extension: mixed radix, degree-aware FFT in full, Lagrange coefficients, fft (ifft x),   *)
(* mixed domain sizes, the large-subgroup root.  Proof files: C07/MixedPerm.v, MixedPass.v, *)
(* MixedSpec.v, MixedDomain.v, DegreeAwareFull.v, Lagrange.v, FftIfft.v, MixedSize.v,       *)
(* RootLarge.v.  `stride d r l cnt x` = the cnt elements of x at positions l, l+r, l+2r, ..; *)
(* `fam d rs m0 x` = the decimation family of x for the radix list rs (leaves of length m0); *)
(* `Pn rs i` = mixed-radix digit reversal of i; `nfe F n` = 1+...+1 (n times);              *)
(* `sumn F n f` = f 0 + ... + f (n-1).                                                      *)
(* ====================================================================================== *)
From V Require Import C07.MixedPerm C07.MixedPass C07.MixedSpec C07.MixedDomain
  C07.DegreeAwareFull C07.Lagrange C07.FftIfft C07.MixedSize C07.RootLarge.

(* ---------- serial_mixed_radix_fft is a DFT ---------- *)
(* the index permutation: the cycle-following scatter by mixed_radix_fft_permute places input
   index i at its mixed-radix digit-reversed position, i.e. lays out the leaves of the
   decimation family (s radix-2 levels, then t radix-q levels) in order *)
Theorem C07_mixed_permute_is_digit_reversal : forall s t q i, (1 <= q)%nat ->
  mixed_radix_fft_permute s t (Z.of_nat q) (Z.of_nat (2 ^ s * q ^ t)) (Z.of_nat i) =
  Z.of_nat (Pn (repeat 2%nat s ++ repeat q t) i).
Proof. exact mixed_permute_spec. Qed.
Theorem C07_mixed_scatter_spec : forall T (F : Fops T) s t q (a : list T), (1 <= q)%nat ->
  length a = (2 ^ s * q ^ t)%nat ->
  scatter F (mixed_radix_fft_permute s t (Z.of_nat q) (Z.of_nat (length a))) a =
  concat (fam (f0 F) (repeat 2%nat s ++ repeat q t) 1 a).
Proof. exact (@scatter_mixed). Qed.

(* one merge pass, arbitrary radix q >= 1 (Cooley-Tukey): the q interleaved DFT_m's of the residue
   classes of z, twisted by w^(j l) and combined with the q-th roots table [1, w^m, w^2m, ..],
   give DFT_{m q} of z; only w^(m q) = 1 is needed *)
Theorem C07_merge_pass_radix_q : forall T (F : Fops T), is_field F ->
  forall q m w z, (1 <= q)%nat -> (1 <= m)%nat -> length z = (m * q)%nat ->
  pown F w (m * q) = f1 F ->
  merge_chunk F (Z.of_nat q) m w (powers F q (pown F w m) (f1 F))
    (flat_map (fun l => dft F m (pown F w q) (stride (f0 F) q l m z)) (seq 0 q))
  = dft F (m * q) w z.
Proof. exact (@merge_chunk_spec). Qed.
(* one radix-2 pass (butterflies), needs w^m = -1 *)
Theorem C07_merge_pass_radix_2 : forall T (F : Fops T), is_field F ->
  forall m w z, length z = (2 * m)%nat -> pown F w m = fneg F (f1 F) ->
  radix2_chunk F m w (flat_map (fun l => dft F m (pown F w 2) (stride (f0 F) 2 l m z)) (seq 0 2))
  = dft F (2 * m) w z.
Proof. exact (@radix2_chunk_spec). Qed.

(* mixed_radix_spec: n = 2^s q^t (q odd >= 3), omega^n = 1, omega^(n/2) = -1 when s >= 1:
   permutation + t q-ary merge passes + s radix-2 passes = naive DFT, every input of length n
   (the assert of the Rust code holds: Some) *)
Theorem C07_serial_mixed_radix_fft_spec : forall T (F : Fops T), is_field F ->
  forall (q s t : nat) omega (a : list T),
  (3 <= q)%nat -> Z.odd (Z.of_nat q) = true -> length a = (2 ^ s * q ^ t)%nat ->
  pown F omega (2 ^ s * q ^ t) = f1 F ->
  ((1 <= s)%nat -> pown F omega (2 ^ (s - 1) * q ^ t) = fneg F (f1 F)) ->
  serial_mixed_radix_fft F (Z.of_nat q) a omega (Z.of_nat s) = Some (dft F (2 ^ s * q ^ t) omega a).
Proof. exact (@serial_mixed_radix_fft_spec). Qed.

(* MixedRadixEvaluationDomain::fft_in_place = values at offset * gen^i in domain order,
   subgroup and coset, shorter inputs zero padded *)
Theorem C07_mixed_fft_spec : forall T (F : Fops T), is_field F -> eqb_correct F ->
  forall (q s t : nat) (d : domain T) coeffs,
  (3 <= q)%nat -> Z.odd (Z.of_nat q) = true ->
  d_size d = Z.of_nat (2 ^ s * q ^ t) -> d_log d = Z.of_nat s ->
  pown F (d_gen d) (2 ^ s * q ^ t) = f1 F ->
  ((1 <= s)%nat -> pown F (d_gen d) (2 ^ (s - 1) * q ^ t) = fneg F (f1 F)) ->
  (length coeffs <= 2 ^ s * q ^ t)%nat ->
  mixed_fft F (Z.of_nat q) d coeffs = Some (dft_coset F (2 ^ s * q ^ t) (d_offset d) (d_gen d) coeffs).
Proof. exact (@mixed_fft_spec). Qed.

(* GeneralEvaluationDomain::fft_in_place (dispatch on the variant; radix-2 variant: t = 0, both
   sides of the degree-aware threshold) = the naive specification used by the `fft_naive` op *)
Theorem C07_domain_fft_naive : forall T (F : Fops T), is_field F -> eqb_correct F ->
  forall (q s t : nat) (d : domain T) coeffs,
  (3 <= q)%nat -> Z.odd (Z.of_nat q) = true ->
  d_size d = Z.of_nat (2 ^ s * q ^ t) -> d_log d = Z.of_nat s ->
  (d_mixed d = false -> t = 0%nat) ->
  pown F (d_gen d) (2 ^ s * q ^ t) = f1 F ->
  ((1 <= s)%nat -> pown F (d_gen d) (2 ^ (s - 1) * q ^ t) = fneg F (f1 F)) ->
  (length coeffs <= 2 ^ s * q ^ t)%nat ->
  domain_fft F (Z.of_nat q) d coeffs = Some (naive_fft F d coeffs).
Proof. exact (@domain_fft_naive). Qed.

(* the inverse DFT for every n (orthogonality of the characters of a primitive n-th root) *)
Theorem C07_dft_inverse : forall T (F : Fops T), is_field F ->
  forall n w wi (x : list T), (1 <= n)%nat -> length x = n ->
  pown F w n = f1 F -> (forall i, (0 < i < n)%nat -> pown F w i <> f1 F) -> fmul F w wi = f1 F ->
  dft F n wi (dft F n w x) = map (fmul F (nfe F n)) x.
Proof. exact (@dft_dft_inv). Qed.

(* MixedRadixEvaluationDomain: ifft (fft x) = x, subgroup and coset; gen of exact order n,
   gen_inv / offset_inv / size_inv the inverses the constructor stores *)
Theorem C07_mixed_ifft_fft_id : forall T (F : Fops T), is_field F ->
  forall (q s t : nat) (d : domain T) x,
  (3 <= q)%nat -> Z.odd (Z.of_nat q) = true ->
  d_size d = Z.of_nat (2 ^ s * q ^ t) -> d_log d = Z.of_nat s ->
  pown F (d_gen d) (2 ^ s * q ^ t) = f1 F ->
  (forall i, (0 < i < 2 ^ s * q ^ t)%nat -> pown F (d_gen d) i <> f1 F) ->
  ((1 <= s)%nat -> pown F (d_gen d) (2 ^ (s - 1) * q ^ t) = fneg F (f1 F)) ->
  fmul F (d_gen d) (d_gen_inv d) = f1 F -> fmul F (d_offset d) (d_offset_inv d) = f1 F ->
  fmul F (nfe F (2 ^ s * q ^ t)) (d_size_inv d) = f1 F ->
  length x = (2 ^ s * q ^ t)%nat ->
  match mixed_fft F (Z.of_nat q) d x with
  | Some y => mixed_ifft F (Z.of_nat q) d y
  | None => None
  end = Some x.
Proof. exact (@mixed_ifft_fft_id). Qed.

(* ---------- degree-aware FFT in full (replaces the missing part of C07_degree_aware_skip_partial) ---------- *)
(* the partial swap loop + chunk duplication produce exactly dupA *)
Theorem C07_partial_swap_dup : forall T (F : Fops T) k log_d (c2 : list T) (num : Z),
  length c2 = (2 ^ k)%nat -> (log_d <= k)%nat -> num = Z.of_nat (2 ^ log_d) ->
  (if Nat.ltb 1 (2 ^ (k - log_d))
   then duplicate_initials F (partial_bitrev_swap F c2 num k) (2 ^ (k - log_d))
   else partial_bitrev_swap F c2 num k) = dupA F k (k - log_d) c2.
Proof. exact (@pbs_dup_spec). Qed.
Theorem C07_degree_aware_fft_spec : forall T (F : Fops T), is_field F -> eqb_correct F ->
  forall k gen offset (c : list T), (length c <= 2 ^ k)%nat -> prim_root F k gen ->
  degree_aware_fft F k gen offset c = Some (dft_coset F (2 ^ k) offset gen c).
Proof. exact (@degree_aware_fft_spec). Qed.
(* Radix2EvaluationDomain::fft_in_place, both sides of the len*4 <= size threshold *)
Theorem C07_radix2_fft_spec : forall T (F : Fops T), is_field F -> eqb_correct F ->
  forall (d : domain T) k (coeffs : list T),
  d_size d = Z.of_nat (2 ^ k) -> d_log d = Z.of_nat k -> prim_root F k (d_gen d) ->
  (length coeffs <= 2 ^ k)%nat ->
  radix2_fft F d coeffs = Some (dft_coset F (2 ^ k) (d_offset d) (d_gen d) coeffs).
Proof. exact (@radix2_fft_spec). Qed.

(* ---------- fft (ifft x) = x (radix 2, subgroup and coset) ---------- *)
Theorem C07_io_oi : forall T (F : Fops T), is_field F ->
  forall (k : nat) w w' x, length x = (2 ^ k)%nat -> fmul F w w' = f1 F ->
  io_aux F k w (oi_aux F k 0 w' x) = map (fmul F (pown F (fadd F (f1 F) (f1 F)) k)) x.
Proof. exact (@io_oi). Qed.
Theorem C07_fft_ifft_id : forall T (F : Fops T), is_field F ->
  forall (k : nat) w wi h hi si x, length x = (2 ^ k)%nat ->
  fmul F w wi = f1 F -> fmul F h hi = f1 F ->
  fmul F (pown F (fadd F (f1 F) (f1 F)) k) si = f1 F ->
  in_order_fft F k w h (in_order_ifft F k wi h hi si x) = x.
Proof. exact (@fft_ifft_id). Qed.

(* ---------- evaluate_all_lagrange_coefficients ---------- *)
(* domain of size n, gen a primitive n-th root of unity, offset <> 0, n <> 0 in the field *)
Theorem C07_lagrange_length : forall T (F : Fops T), is_field F ->
  forall (d : domain T) (n : nat) (tau : T), d_size d = Z.of_nat n ->
  length (evaluate_all_lagrange_coefficients F d tau) = n.
Proof. exact (@lagrange_length). Qed.
(* tau = element(j): L_i(a_j) = delta_ij *)
Theorem C07_lagrange_in_domain : forall T (F : Fops T), is_field F -> eqb_correct F ->
  forall (d : domain T) (n j : nat) (tau : T), d_size d = Z.of_nat n ->
  pown F (d_gen d) n = f1 F -> (forall i, (0 < i < n)%nat -> pown F (d_gen d) i <> f1 F) ->
  d_offset d <> f0 F -> d_offset_pow_size d = pown F (d_offset d) n ->
  (j < n)%nat -> tau = fmul F (d_offset d) (pown F (d_gen d) j) ->
  evaluate_all_lagrange_coefficients F d tau = map (fun i => if Nat.eqb i j then f1 F else f0 F) (seq 0 n).
Proof. exact (@lagrange_in_domain). Qed.
(* the branch test: the vanishing polynomial is zero exactly at the domain elements *)
Theorem C07_vanishing_zero_iff_in_domain : forall T (F : Fops T), is_field F -> eqb_correct F ->
  forall (d : domain T) (n : nat) (tau : T), d_size d = Z.of_nat n -> (1 <= n)%nat ->
  pown F (d_gen d) n = f1 F -> (forall i, (0 < i < n)%nat -> pown F (d_gen d) i <> f1 F) ->
  d_offset d <> f0 F -> d_offset_pow_size d = pown F (d_offset d) n -> nfe F n <> f0 F ->
  (evaluate_vanishing_polynomial F d tau = f0 F <->
   exists j, (j < n)%nat /\ tau = fmul F (d_offset d) (pown F (d_gen d) j)).
Proof. exact (@vanishing_zero_iff_in_domain). Qed.
(* generic branch, closed form: L_i(tau) * n h^n (tau - a_i) = Z(tau) * a_i *)
Theorem C07_lagrange_generic_coeff : forall T (F : Fops T), is_field F -> eqb_correct F ->
  forall (d : domain T) (n i : nat) (tau : T), d_size d = Z.of_nat n -> (1 <= n)%nat ->
  pown F (d_gen d) n = f1 F -> fmul F (d_gen d) (d_gen_inv d) = f1 F ->
  d_offset d <> f0 F -> d_offset_pow_size d = pown F (d_offset d) n ->
  d_size_fe d = nfe F n -> nfe F n <> f0 F ->
  evaluate_vanishing_polynomial F d tau <> f0 F -> (i < n)%nat ->
  fmul F (nth i (evaluate_all_lagrange_coefficients F d tau) (f0 F))
         (fmul F (fmul F (nfe F n) (pown F (d_offset d) n)) (fsub F tau (fmul F (d_offset d) (pown F (d_gen d) i))))
  = fmul F (evaluate_vanishing_polynomial F d tau) (fmul F (d_offset d) (pown F (d_gen d) i)).
Proof. exact (@lagrange_generic_coeff). Qed.
(* lagrange_interpolates: EVERY tau (both branches), every polynomial of degree < n:
   sum_i L_i(tau) * f(a_i) = f(tau) *)
Theorem C07_lagrange_interpolates : forall T (F : Fops T), is_field F -> eqb_correct F ->
  forall (d : domain T) (n : nat) (tau : T) (c : list T), d_size d = Z.of_nat n -> (1 <= n)%nat ->
  pown F (d_gen d) n = f1 F -> (forall i, (0 < i < n)%nat -> pown F (d_gen d) i <> f1 F) ->
  fmul F (d_gen d) (d_gen_inv d) = f1 F -> d_offset d <> f0 F ->
  d_offset_pow_size d = pown F (d_offset d) n -> d_size_fe d = nfe F n -> nfe F n <> f0 F ->
  (length c <= n)%nat ->
  sumn F n (fun i => fmul F (nth i (evaluate_all_lagrange_coefficients F d tau) (f0 F))
                            (eval F c (fmul F (d_offset d) (pown F (d_gen d) i)))) = eval F c tau.
Proof. exact (@lagrange_interpolates). Qed.

(* ---------- best_mixed_domain_size / MixedRadix compute_size_of_domain: minimality ---------- *)
Theorem C07_best_mixed_minimal : forall q q_adic two_adic min_size b t,
  1 <= q -> 0 <= q_adic -> min_size <= 2 ^ 64 ->
  0 <= b <= q_adic -> 0 <= t <= two_adic -> min_size <= q ^ b * 2 ^ t ->
  best_mixed_domain_size q q_adic two_adic min_size <= q ^ b * 2 ^ t.
Proof. exact best_mixed_minimal. Qed.
Theorem C07_best_mixed_form : forall q q_adic two_adic min_size, 0 <= q_adic ->
  best_mixed_domain_size q q_adic two_adic min_size = USIZE_MAX \/
  exists b t, 0 <= b <= q_adic /\ 0 <= t <= two_adic /\
              best_mixed_domain_size q q_adic two_adic min_size = q ^ b * 2 ^ t /\
              min_size <= best_mixed_domain_size q q_adic two_adic min_size.
Proof. exact best_mixed_form. Qed.
Theorem C07_best_mixed_exists : forall q q_adic two_adic min_size b0 t0,
  1 <= q -> 0 <= q_adic -> min_size <= 2 ^ 64 ->
  0 <= b0 <= q_adic -> 0 <= t0 <= two_adic ->
  min_size <= q ^ b0 * 2 ^ t0 -> q ^ b0 * 2 ^ t0 < USIZE_MAX ->
  exists b t, 0 <= b <= q_adic /\ 0 <= t <= two_adic /\
              best_mixed_domain_size q q_adic two_adic min_size = q ^ b * 2 ^ t /\
              min_size <= q ^ b * 2 ^ t /\
              (forall b' t', 0 <= b' <= q_adic -> 0 <= t' <= two_adic ->
                             min_size <= q ^ b' * 2 ^ t' -> q ^ b * 2 ^ t <= q ^ b' * 2 ^ t').
Proof. exact best_mixed_exists. Qed.
Theorem C07_best_mixed_none : forall q q_adic two_adic min_size, 0 <= q_adic ->
  (forall b t, 0 <= b <= q_adic -> 0 <= t <= two_adic -> q ^ b * 2 ^ t < min_size) ->
  best_mixed_domain_size q q_adic two_adic min_size = USIZE_MAX.
Proof. exact best_mixed_none. Qed.
Theorem C07_mixed_compute_size_spec : forall T (c : fftcfg T) q qa m b0 t0,
  c_small_base c = Some q -> c_small_adicity c = Some qa ->
  3 <= q -> Z.odd q = true -> 0 <= qa -> m <= 2 ^ 64 ->
  0 <= b0 <= qa -> 0 <= t0 <= c_two_adicity c ->
  m <= q ^ b0 * 2 ^ t0 -> q ^ b0 * 2 ^ t0 < USIZE_MAX ->
  mixed_compute_size c m = RSome (best_mixed_domain_size q qa (c_two_adicity c) m).
Proof. exact (@mixed_compute_size_spec). Qed.

(* ---------- get_root_of_unity, large-subgroup branch (LARGE_SUBGROUP_ROOT_OF_UNITY = L) ---------- *)
Theorem C07_get_root_large_spec : forall T (F : Fops T), is_field F ->
  forall (c : fftcfg T) L q qa a b,
  c_large_root c = Some L -> c_small_base c = Some q -> c_small_adicity c = Some qa ->
  3 <= q -> Z.odd q = true -> 0 <= a <= c_two_adicity c -> 0 <= b <= qa ->
  get_root_of_unity F c (2 ^ a * q ^ b) =
    RSome (pown F L (Z.to_nat (q ^ (qa - b) * 2 ^ (c_two_adicity c - a)))).
Proof. exact (@get_root_large_spec). Qed.
Theorem C07_get_root_large_inv : forall T (F : Fops T) (c : fftcfg T) L q qa n w,
  c_large_root c = Some L -> c_small_base c = Some q -> c_small_adicity c = Some qa ->
  get_root_of_unity F c n = RSome w ->
  exists a b, 0 <= a <= c_two_adicity c /\ 0 <= b <= qa /\ n = 2 ^ a * q ^ b.
Proof. exact (@get_root_large_inv). Qed.
(* generator_exact_order, large branch: if L^(2^S q^qa) = 1 and L^(2^(S-1) q^qa) = -1 (facts about
   the configuration: C16), the returned root w for n = 2^a q^b has w^n = 1 and w^(n/2) = -1 *)
Theorem C07_get_root_large_pow_n : forall T (F : Fops T), is_field F ->
  forall (c : fftcfg T) L q qa a b w,
  c_large_root c = Some L -> c_small_base c = Some q -> c_small_adicity c = Some qa ->
  3 <= q -> Z.odd q = true -> 0 <= a <= c_two_adicity c -> 0 <= b <= qa ->
  pown F L (Z.to_nat (2 ^ c_two_adicity c * q ^ qa)) = f1 F ->
  get_root_of_unity F c (2 ^ a * q ^ b) = RSome w ->
  pown F w (Z.to_nat (2 ^ a * q ^ b)) = f1 F.
Proof. exact (@get_root_large_pow_n). Qed.
Theorem C07_get_root_large_pow_half : forall T (F : Fops T), is_field F ->
  forall (c : fftcfg T) L q qa a b w,
  c_large_root c = Some L -> c_small_base c = Some q -> c_small_adicity c = Some qa ->
  3 <= q -> Z.odd q = true -> 1 <= a <= c_two_adicity c -> 0 <= b <= qa ->
  pown F L (Z.to_nat (2 ^ (c_two_adicity c - 1) * q ^ qa)) = fneg F (f1 F) ->
  get_root_of_unity F c (2 ^ a * q ^ b) = RSome w ->
  pown F w (Z.to_nat (2 ^ a * q ^ b / 2)) = fneg F (f1 F).
Proof. exact (@get_root_large_pow_half). Qed.

(* ---------- non-vacuity of the extension ---------- *)
(* F_37: 2 generates F_37^*, so 8 = 2^3 has order 12 = 2^2 * 3 (8^6 = -1) and 2 has order 36 = 2^2 * 3^2;
   F_41: 6 generates F_41^*, 36 = 6^2 has order 20 = 2^2 * 5 *)
Example C07_example_mixed_roots :
  pown (ZpOps 37) 8 12 = f1 (ZpOps 37) /\ pown (ZpOps 37) 8 6 = fneg (ZpOps 37) (f1 (ZpOps 37))
  /\ pown (ZpOps 37) 2 36 = f1 (ZpOps 37) /\ pown (ZpOps 37) 2 18 = fneg (ZpOps 37) (f1 (ZpOps 37))
  /\ pown (ZpOps 41) 36 20 = f1 (ZpOps 41) /\ pown (ZpOps 41) 36 10 = fneg (ZpOps 41) (f1 (ZpOps 41))
  /\ forallb (fun i => negb (pown (ZpOps 37) 8 i =? 1)) (seq 1 11) = true.
Proof. vm_compute. repeat split; reflexivity. Qed.
Example C07_example_mixed_fft :
  serial_mixed_radix_fft (ZpOps 37) 3 [1;2;3;4;5;6;7;8;9;10;11;12] 8 2
    = Some (dft (ZpOps 37) 12 8 [1;2;3;4;5;6;7;8;9;10;11;12])
  /\ serial_mixed_radix_fft (ZpOps 37) 3 (map Z.of_nat (seq 1 36)) 2 2
    = Some (dft (ZpOps 37) 36 2 (map Z.of_nat (seq 1 36)))
  /\ serial_mixed_radix_fft (ZpOps 41) 5 (map Z.of_nat (seq 3 20)) 36 2
    = Some (dft (ZpOps 41) 20 36 (map Z.of_nat (seq 3 20)))
  /\ serial_mixed_radix_fft (ZpOps 37) 3 [5;6;7;8;9;10;11;12;13] 7 0      (* 7 = 2^32 has order 9 *)
    = Some (dft (ZpOps 37) 9 7 [5;6;7;8;9;10;11;12;13]).
Proof. vm_compute. repeat split; reflexivity. Qed.
(* the size-12 coset domain 2 * <8> of F_37: size_inv = 34, gen_inv = 14, offset_inv = 19, 2^12 = 26 *)
Example C07_example_mixed_domain :
  let F := ZpOps 37 in
  let d := mkDomain true 12 2 12 34 8 14 2 19 26 in
  fmul F 8 14 = f1 F /\ fmul F 2 19 = f1 F /\ fmul F (nfe F 12) 34 = f1 F /\ pown F 2 12 = 26
  /\ mixed_fft F 3 d [1;2;3;4;5;6;7] = Some (dft_coset F 12 2 8 [1;2;3;4;5;6;7])
  /\ domain_fft F 3 d [1;2;3;4;5;6;7] = Some (naive_fft F d [1;2;3;4;5;6;7])
  /\ match mixed_fft F 3 d [1;2;3;4;5;6;7;8;9;10;11;12] with Some y => mixed_ifft F 3 d y | None => None end
     = Some [1;2;3;4;5;6;7;8;9;10;11;12]
  /\ dft F 12 14 (dft F 12 8 [1;2;3;4;5;6;7;8;9;10;11;12]) = map (fmul F (nfe F 12)) [1;2;3;4;5;6;7;8;9;10;11;12].
Proof. vm_compute. repeat split; reflexivity. Qed.
(* radix2_fft on both sides of the threshold (2*4 <= 8: degree-aware; 3*4 > 8: in-order), F_17 *)
Example C07_example_radix2_fft_both_sides :
  let d := mkDomain false 8 3 8 15 2 9 3 6 16 in
  d_size d = Z.of_nat (2 ^ 3) /\ d_log d = Z.of_nat 3 /\
  pown (ZpOps 17) (d_gen d) 4 = fneg (ZpOps 17) (f1 (ZpOps 17)) /\
  radix2_fft (ZpOps 17) d [5;7] = Some (dft_coset (ZpOps 17) 8 3 2 [5;7]) /\
  radix2_fft (ZpOps 17) d [5;7] = degree_aware_fft (ZpOps 17) 3 2 3 [5;7] /\
  radix2_fft (ZpOps 17) d [5;7;11] = Some (dft_coset (ZpOps 17) 8 3 2 [5;7;11]) /\
  radix2_fft (ZpOps 17) d [5;7;11] = Some (in_order_fft (ZpOps 17) 3 2 3 [5;7;11;0;0;0;0;0]) /\
  duplicate_initials (ZpOps 17) (partial_bitrev_swap (ZpOps 17) [1;2;3;4;5;6;7;8] 2 3) 4
    = dupA (ZpOps 17) 3 2 [1;2;3;4;5;6;7;8].
Proof. vm_compute. repeat split; reflexivity. Qed.
Example C07_example_fft_ifft :
  let F := ZpOps 17 in
  in_order_fft F 3 2 3 (in_order_ifft F 3 9 3 6 15 [1;2;3;4;5;6;7;8]) = [1;2;3;4;5;6;7;8]
  /\ in_order_fft F 3 2 1 (in_order_ifft F 3 9 1 1 15 [1;2;3;4;5;6;7;8]) = [1;2;3;4;5;6;7;8].
Proof. vm_compute. split; reflexivity. Qed.
(* Lagrange, F_17, coset 3 * <2> of size 8: the premises, tau = 11 = 3 * 2^5 in the coset, tau = 4 outside,
   and the interpolation identity for a polynomial of degree 7 *)
Example C07_example_lagrange :
  let F := ZpOps 17 in
  let d := mkDomain false 8 3 8 15 2 9 3 6 16 in
  let pol := [5;0;11;7;1;16;2;9] in
  forallb (fun i => negb (pown F 2 i =? 1)) (seq 1 7) = true /\ pown F 2 8 = 1 /\ nfe F 8 = 8
  /\ evaluate_vanishing_polynomial F d 11 = 0
  /\ evaluate_all_lagrange_coefficients F d 11 = [0;0;0;0;0;1;0;0]
  /\ evaluate_vanishing_polynomial F d 4 = 2
  /\ evaluate_all_lagrange_coefficients F d 4 = [12;5;11;2;8;1;14;16]
  /\ map (fun tau => sumn F 8 (fun i => fmul F (nth i (evaluate_all_lagrange_coefficients F d tau) 0)
                                           (eval F pol (fmul F 3 (pown F 2 i))))) [4; 11]
     = map (eval F pol) [4; 11].
Proof. vm_compute. repeat split; reflexivity. Qed.
Example C07_example_mixed_size :
  best_mixed_domain_size 3 3 7 100 = 108 /\ best_mixed_domain_size 3 2 4 145 = USIZE_MAX
  /\ best_mixed_domain_size 5 2 31 1000 = 1024
  /\ mixed_compute_size (mkCfg 7 0 (Some 3) (Some 3) None : fftcfg Z) 100 = RSome 108.
Proof. vm_compute. repeat split; reflexivity. Qed.
(* F_13: L = 2 generates F_13^* (order 12 = 2^2 * 3): the root for n = 6 is 2^2 = 4, 4^6 = 1, 4^3 = -1 *)
Example C07_example_root_large :
  get_root_of_unity (ZpOps 13) (mkCfg 2 5 (Some 3) (Some 1) (Some 2)) 6 = RSome 4
  /\ get_root_of_unity (ZpOps 13) (mkCfg 2 5 (Some 3) (Some 1) (Some 2)) 5 = RNone
  /\ pown (ZpOps 13) 2 12 = 1 /\ pown (ZpOps 13) 2 6 = 12 /\ pown (ZpOps 13) 4 6 = 1 /\ pown (ZpOps 13) 4 3 = 12.
Proof. vm_compute. repeat split; reflexivity. Qed.

(* ---------- MixedRadixEvaluationDomain::new end to end (C07/MixedNew.v) ---------- *)
From V Require Import C07.MixedNew.
(* configuration: LARGE_SUBGROUP_ROOT_OF_UNITY = L with L^(2^S q^qa) = 1 and L^(2^(S-1) q^qa) = -1 (C16).
   A returned domain has size = best_mixed_domain_size (minimal admissible: C07_best_mixed_minimal)
   = 2^a q^b within the adicities, log = a, generator = get_root_of_unity(size) satisfying the premises
   of C07_serial_mixed_radix_fft_spec, stored inverses are inverses, unit offset *)
Theorem C07_mixed_new_spec : forall T (F : Fops T), is_field F -> eqb_correct F ->
  forall (c : fftcfg T) L (q : nat) qa m d,
  c_large_root c = Some L -> c_small_base c = Some (Z.of_nat q) -> c_small_adicity c = Some qa ->
  (3 <= q)%nat -> Z.odd (Z.of_nat q) = true -> 0 <= qa -> 0 <= c_two_adicity c ->
  pown F L (Z.to_nat (2 ^ c_two_adicity c * Z.of_nat q ^ qa)) = f1 F ->
  (1 <= c_two_adicity c -> pown F L (Z.to_nat (2 ^ (c_two_adicity c - 1) * Z.of_nat q ^ qa)) = fneg F (f1 F)) ->
  mixed_new F c m = RSome d ->
  exists a b : nat,
    Z.of_nat a <= c_two_adicity c /\ Z.of_nat b <= qa /\
    d_size d = best_mixed_domain_size (Z.of_nat q) qa (c_two_adicity c) m /\
    d_size d = Z.of_nat (2 ^ a * q ^ b) /\ d_log d = Z.of_nat a /\ d_mixed d = true /\
    pown F (d_gen d) (2 ^ a * q ^ b) = f1 F /\
    ((1 <= a)%nat -> pown F (d_gen d) (2 ^ (a - 1) * q ^ b) = fneg F (f1 F)) /\
    get_root_of_unity F c (d_size d) = RSome (d_gen d) /\
    fmul F (d_gen d) (d_gen_inv d) = f1 F /\ fmul F (d_size_fe d) (d_size_inv d) = f1 F /\
    d_size_fe d = fof F [d_size d] /\
    d_offset d = f1 F /\ d_offset_inv d = f1 F /\ d_offset_pow_size d = f1 F.
Proof. exact (@mixed_new_spec). Qed.
(* ... hence fft_in_place of a domain returned by new() is naive evaluation *)
Theorem C07_mixed_new_fft_naive : forall T (F : Fops T), is_field F -> eqb_correct F ->
  forall (c : fftcfg T) L (q : nat) qa m d coeffs,
  c_large_root c = Some L -> c_small_base c = Some (Z.of_nat q) -> c_small_adicity c = Some qa ->
  (3 <= q)%nat -> Z.odd (Z.of_nat q) = true -> 0 <= qa -> 0 <= c_two_adicity c ->
  pown F L (Z.to_nat (2 ^ c_two_adicity c * Z.of_nat q ^ qa)) = f1 F ->
  (1 <= c_two_adicity c -> pown F L (Z.to_nat (2 ^ (c_two_adicity c - 1) * Z.of_nat q ^ qa)) = fneg F (f1 F)) ->
  mixed_new F c m = RSome d ->
  Z.of_nat (length coeffs) <= d_size d ->
  mixed_fft F (Z.of_nat q) d coeffs = Some (naive_fft F d coeffs).
Proof. exact (@mixed_new_fft_naive). Qed.
(* F_13, L = 2 of order 12 = 2^2 * 3: new(5) has size 6 = 2 * 3, generator 4 *)
Example C07_example_mixed_new :
  let F := ZpOps 13 in
  let c := mkCfg 2 5 (Some 3) (Some 1) (Some 2) in
  pown F 2 12 = f1 F /\ pown F 2 6 = fneg F (f1 F)
  /\ mixed_new F c 5 = RSome (mkDomain true 6 1 6 11 4 10 1 1 1)
  /\ mixed_fft F 3 (mkDomain true 6 1 6 11 4 10 1 1 1) [1;2;3;4;5]
     = Some (naive_fft F (mkDomain true 6 1 6 11 4 10 1 1 1) [1;2;3;4;5]).
Proof. vm_compute. repeat split; reflexivity. Qed.

(* ====================================================================================== *)
(* Extension 3: the rest of trait EvaluationDomain (C07/Domain2.v; proofs C07/Reindex.v,    *)
(* C07/Filter.v): reindex_by_subdomain, filter_polynomial / evaluate_filter_polynomial (and  *)
(* the polynomial long division underneath), mul_polynomials_in_evaluation_domain,          *)
(* sample_element_outside_domain.                                                           *)
(* ====================================================================================== *)
From V Require Import C07.Domain2 C07.Reindex C07.Filter.

(* reindex_by_subdomain: G = self with |G| = n m, S = other with |S| = n (m = |G|/|S| -- the size quotient,
   whatever log_size_of_group says).  (1) i < |S| goes to i m (the i-th element of S inside G);
   (2)-(4) the indices >= |S| go, in increasing order, exactly onto the indices of G that are not
   multiples of m; (5)-(6) the map is a bijection of [0, |G|).  No panic on [0, |G|). *)
Theorem C07_reindex_by_subdomain_spec : forall T (d o : domain T) n m,
  d_size o = n -> d_size d = n * m -> 1 <= n -> 1 <= m ->
  (forall i, 0 <= i < n -> reindex_by_subdomain d o i = Some (i * m)) /\
  (forall i, n <= i < n * m ->
     exists j, reindex_by_subdomain d o i = Some j /\ 0 <= j < n * m /\ j mod m <> 0) /\
  (forall i1 i2 j1 j2, n <= i1 -> i1 < i2 -> i2 < n * m ->
     reindex_by_subdomain d o i1 = Some j1 -> reindex_by_subdomain d o i2 = Some j2 -> j1 < j2) /\
  (forall j, 0 <= j < n * m -> j mod m <> 0 ->
     exists i, n <= i < n * m /\ reindex_by_subdomain d o i = Some j) /\
  (forall i1 i2 j, 0 <= i1 < n * m -> 0 <= i2 < n * m ->
     reindex_by_subdomain d o i1 = Some j -> reindex_by_subdomain d o i2 = Some j -> i1 = i2) /\
  (forall j, 0 <= j < n * m -> exists i, 0 <= i < n * m /\ reindex_by_subdomain d o i = Some j).
Proof. exact reindex_by_subdomain_spec. Qed.
(* closed form of the upper part: index |S| + q (m-1) + r (r < m-1) goes to q m + r + 1 *)
Theorem C07_reindex_high_closed_form : forall T (d o : domain T) n m,
  d_size o = n -> d_size d = n * m -> 1 <= n -> 1 <= m -> forall i, n <= i < n * m ->
  reindex_by_subdomain d o i = Some ((i - n) / (m - 1) * m + (i - n) mod (m - 1) + 1) /\
  0 <= (i - n) / (m - 1) < n /\ 0 <= (i - n) mod (m - 1) < m - 1.
Proof. exact (@reindex_high). Qed.
(* group meaning: with gen_S = gen_G^(|G|/|S|) and equal offsets, G.element(reindex i) = S.element(i), i < |S| *)
Theorem C07_reindex_element : forall T (F : Fops T), is_field F -> eqb_correct F ->
  forall (d s : domain T) (i m : nat),
  d_gen s = pown F (d_gen d) m -> d_offset s = d_offset d ->
  element F d (Z.of_nat i * Z.of_nat m) = element F s (Z.of_nat i).
Proof. exact (@reindex_element_eq). Qed.
(* F_37 (36 = 2^2 3^2, L = 2, two-adic root 31): MixedRadix new(12) and new(4) both have log_size_of_group = 2
   (the two-adicity), the period is 12/4 = 3, not 2^(2-2) *)
Example C07_example_reindex_mixed :
  let F := ZpOps 37 in
  let c := mkCfg 2 31 (Some 3) (Some 2) (Some 2) in
  match mixed_new F c 12, mixed_new F c 4 with
  | RSome d, RSome s =>
      d_size d = 12 /\ d_size s = 4 /\ d_log d = 2 /\ d_log s = 2 /\ d_gen s = pown F (d_gen d) 3 /\
      map (reindex_by_subdomain d s) (map Z.of_nat (seq 0 12))
        = map Some [0; 3; 6; 9; 1; 2; 4; 5; 7; 8; 10; 11] /\
      map (fun i => match reindex_by_subdomain d s i with Some j => element F d j | None => 0 end) [0; 1; 2; 3] = map (element F s) [0; 1; 2; 3]
  | _, _ => False
  end.
Proof. vm_compute. repeat split; reflexivity. Qed.

(* DenseOrSparsePolynomial::divide_with_q_and_r (divisor trimmed, non-zero): num = q dv + r, deg r < deg dv *)
Theorem C07_divide_with_q_and_r_spec : forall T (F : Fops T), is_field F -> eqb_correct F ->
  forall num dv q r, dv <> [] -> last dv (f0 F) <> f0 F ->
  divide_with_q_and_r F num dv = Some (q, r) ->
  (forall x, fadd F (fmul F (eval F q x) (eval F dv x)) (eval F r x) = eval F num x) /\
  (length r < length dv)%nat.
Proof. exact (@divide_with_q_and_r_spec). Qed.
(* filter_polynomial(G, S) = q: at every tau,  q(tau) |G| Z_S(tau) = |S| offset_S^|S| Z_G(tau) *)
Theorem C07_filter_polynomial_spec : forall T (F : Fops T), is_field F -> eqb_correct F ->
  forall (d s : domain T) (N n : nat) q tau,
  d_size d = Z.of_nat N -> d_size s = Z.of_nat n -> (1 <= N)%nat -> (1 <= n)%nat ->
  d_size_fe d <> f0 F ->
  filter_polynomial F d s = Some q ->
  fmul F (eval F q tau) (fmul F (d_size_fe d) (evaluate_vanishing_polynomial F s tau))
  = fmul F (fmul F (d_size_fe s) (pown F (d_offset s) n)) (evaluate_vanishing_polynomial F d tau).
Proof. exact (@filter_polynomial_spec). Qed.
(* evaluate_filter_polynomial = the value of that polynomial wherever Z_S(tau) <> 0 (on S it is 1 by definition).
   PARTIAL: that q(tau) = offset_G^|G| (= 1 for a subgroup G) at the points of S is not proved (it needs the
   closed form of the quotient); correspondence classes filter/*/tau_in_S, tau=S0 *)
Theorem C07_evaluate_filter_is_eval_partial : forall T (F : Fops T), is_field F -> eqb_correct F ->
  forall (d s : domain T) (N n : nat) q tau,
  d_size d = Z.of_nat N -> d_size s = Z.of_nat n -> (1 <= N)%nat -> (1 <= n)%nat ->
  d_size_fe d <> f0 F -> d_offset_pow_size s = pown F (d_offset s) n ->
  filter_polynomial F d s = Some q ->
  evaluate_vanishing_polynomial F s tau <> f0 F ->
  evaluate_filter_polynomial F d s tau = eval F q tau.
Proof. exact (@evaluate_filter_is_eval). Qed.
(* DEFECT-1: the Rust code omits the factor offset_S^|S|; it agrees with the meaning when that factor is 1 *)
Theorem C07_evaluate_filter_as_coded_agrees : forall T (F : Fops T), is_field F ->
  forall (d s : domain T) tau, d_offset_pow_size s = f1 F ->
  evaluate_filter_polynomial_as_coded F d s tau = evaluate_filter_polynomial F d s tau.
Proof. exact (@evaluate_filter_as_coded_agrees). Qed.
(* F_97: G = <64> of size 8, S = 64 * <96> of size 2 (64^2 = 22 <> 1), tau = 5 outside G: the filter polynomial,
   its value 90 = evaluate_filter_polynomial, and the 57 = 90 / 22 the Rust code returns (DEFECT-1 witness) *)
Example C07_example_filter :
  let F := ZpOps 97 in
  let c := mkCfg (T:=Z) 5 28 None None None in
  match radix2_new F c 8, radix2_new F c 2 with
  | RSome d, RSome s0 =>
      match get_coset F s0 64 with
      | Some s =>
          filter_polynomial F d s = Some [73; 0; 43; 0; 24; 0; 54] /\
          eval F [73; 0; 43; 0; 24; 0; 54] 5 = 90 /\ evaluate_filter_polynomial F d s 5 = 90 /\
          evaluate_filter_polynomial_as_coded F d s 5 = 57 /\ fmul F 57 22 = 90 /\
          evaluate_vanishing_polynomial F s 5 <> 0 /\ d_size_fe d <> 0 /\
          map (eval F [73; 0; 43; 0; 24; 0; 54]) (elements F d) = [0; 1; 0; 0; 0; 1; 0; 0]
      | None => False
      end
  | _, _ => False
  end.
Proof. vm_compute. repeat split; try reflexivity; discriminate. Qed.

(* mul_polynomials_in_evaluation_domain: pointwise product of evaluations = evaluations of the product *)
Theorem C07_eval_pmul : forall T (F : Fops T), is_field F ->
  forall a b x, eval F (pmul F a b) x = fmul F (eval F a x) (eval F b x).
Proof. exact (@eval_pmul). Qed.
Theorem C07_mul_in_evaluation_domain_spec : forall T (F : Fops T), is_field F ->
  forall n h w a b,
  mul_polynomials_in_evaluation_domain F (dft_coset F n h w a) (dft_coset F n h w b)
  = Some (dft_coset F n h w (pmul F a b)).
Proof. exact (@mul_in_evaluation_domain_spec). Qed.
Example C07_example_mul :
  let F := ZpOps 17 in
  pmul F [1; 2] [3; 4] = [3; 10; 8] /\
  mul_polynomials_in_evaluation_domain F (dft_coset F 4 3 4 [1; 2]) (dft_coset F 4 3 4 [3; 4])
  = Some (dft_coset F 4 3 4 [3; 10; 8]).
Proof. vm_compute. split; reflexivity. Qed.

(* sample_element_outside_domain: the result is one of the rng's draws, has a non-zero vanishing value,
   hence is not an element of the domain *)
Theorem C07_sample_outside_spec : forall T (F : Fops T), eqb_correct F ->
  forall (d : domain T) cands t,
  sample_element_outside_domain F d cands = Some t ->
  In t cands /\ evaluate_vanishing_polynomial F d t <> f0 F.
Proof. exact (@sample_outside_spec). Qed.
Theorem C07_sample_outside_not_in_domain : forall T (F : Fops T), is_field F -> eqb_correct F ->
  forall (d : domain T) (n : nat) cands t,
  d_size d = Z.of_nat n -> (1 <= n)%nat -> pown F (d_gen d) n = f1 F ->
  (forall i, (0 < i < n)%nat -> pown F (d_gen d) i <> f1 F) -> d_offset d <> f0 F ->
  d_offset_pow_size d = pown F (d_offset d) n -> nfe F n <> f0 F ->
  sample_element_outside_domain F d cands = Some t ->
  forall j, (j < n)%nat -> t <> fmul F (d_offset d) (pown F (d_gen d) j).
Proof. exact (@sample_outside_not_in_domain). Qed.
Example C07_example_sample_outside :
  let F := ZpOps 17 in
  let d := mkDomain false 8 3 8 15 2 9 3 6 16 in
  sample_element_outside_domain F d [3; 11; 4; 5] = Some 4 /\ in_domain F d 4 = false /\ in_domain F d 11 = true.
Proof. vm_compute. repeat split; reflexivity. Qed.
