(* C07 -- property theorems only: pinned statements, each closed by `exact`.
   F : Fops T is an arbitrary field dictionary; `is_field F` (field_theory of its operations,
   Leibniz equality) and `eqb_correct F` are explicit premises.  `prim_root F k w` says
   w^(2^(k-1)) = -1 (w is a primitive 2^k-th root of unity), nothing for k = 0.
   `bl k` is the bit-reversal permutation of a list of length 2^k (even positions first,
   recursively); `dft n w c` is naive Horner evaluation at w^0 .. w^(n-1). *)
From V Require Import Base.Field C07.Dft C07.Radix2 C07.MixedRadix C07.Domain
  C07.DftProofs C07.Radix2Proofs C07.DomainProofs C07.DegreeAware C07.NewProofs.

(* decimation in frequency (io_helper): DFT in bit-reversed order, every k, every input *)
Theorem C07_io_is_bitreversed_dft : forall T (F : Fops T), is_field F ->
  forall k w x, length x = (2 ^ k)%nat -> prim_root F k w ->
  io_aux F k w x = bl k (dft F (2 ^ k) w x).
Proof. exact (@io_aux_spec). Qed.

(* decimation in time (oi_helper, start_gap = 1) on bit-reversed input: DFT in order *)
Theorem C07_oi_after_bitrev_is_dft : forall T (F : Fops T), is_field F ->
  forall k w c, length c = (2 ^ k)%nat -> prim_root F k w ->
  oi_aux F k 0 w (bl k c) = dft F (2 ^ k) w c.
Proof. exact (@oi_aux_spec). Qed.

(* the index-level derange of fft.rs (out[i] = x[bitrev i]) is that permutation; it is an involution *)
Theorem C07_derange_is_bitrev : forall T (F : Fops T) k x, length x = (2 ^ k)%nat ->
  derange F x k = bl k x.
Proof. exact (@derange_bl). Qed.
Theorem C07_bitrev_involutive : forall A k (x : list A), length x = (2 ^ k)%nat -> bl k (bl k x) = x.
Proof. exact (@bl_involutive). Qed.

(* distribute_powers_and_mul_by_const: scaling coefficient i by c g^i = evaluating at g x, times c *)
Theorem C07_distribute_powers_spec : forall T (F : Fops T), is_field F ->
  forall c g k x, eval F (distribute_powers_and_mul_by_const F c g k) x = fmul F k (eval F c (fmul F g x)).
Proof. exact (@eval_distribute). Qed.

(* in_order_fft_in_place = values at offset * gen^i in domain order, subgroup and coset *)
Theorem C07_in_order_fft_spec : forall T (F : Fops T), is_field F -> eqb_correct F ->
  forall k w h x, length x = (2 ^ k)%nat -> prim_root F k w ->
  in_order_fft F k w h x = dft_coset F (2 ^ k) h w x.
Proof. exact (@in_order_fft_spec). Qed.

(* shorter input, zero padded by resize (the in-order branch of fft_in_place) *)
Theorem C07_in_order_fft_padded : forall T (F : Fops T), is_field F -> eqb_correct F ->
  forall k w h c, (length c <= 2 ^ k)%nat -> prim_root F k w ->
  in_order_fft F k w h (resize F (2 ^ k) c) = dft_coset F (2 ^ k) h w c.
Proof. exact (@in_order_fft_padded). Qed.

(* ifft (fft x) = x, subgroup and coset: gen_inv, offset_inv, size_inv are the inverses the
   constructor stores (size_inv * 2^k = 1 says in particular that the characteristic is odd) *)
Theorem C07_ifft_fft_id : forall T (F : Fops T), is_field F ->
  forall k w wi h hi si x, length x = (2 ^ k)%nat ->
  fmul F w wi = f1 F -> fmul F h hi = f1 F ->
  fmul F (pown F (fadd F (f1 F) (f1 F)) k) si = f1 F ->
  in_order_ifft F k wi h hi si (in_order_fft F k w h x) = x.
Proof. exact (@ifft_fft_id). Qed.

(* degree-aware FFT (input length * 4 <= size).  FULL STATEMENT (not proved end to end):
     forall k gen offset c, length c * 4 <= 2^k -> prim_root F k gen ->
       degree_aware_fft F k gen offset c = Some (dft_coset F (2^k) offset gen c).
   PROVED PART: starting oi_helper at gap 2^s (skipping the s lowest levels) on the array
   `dupA k s c` -- the bit-reversed input in which every aligned block of 2^s positions
   repeats its first element -- yields the DFT of every c whose coefficients beyond
   2^(k-s) vanish.  MISSING: that partial_bitrev_swap followed by duplicate_initials
   produces exactly `dupA k s (resize c)` (index bookkeeping over chunks); that step is
   tied to the code by the correspondence classes fft/*/degree_aware/*. *)
Theorem C07_degree_aware_skip_partial : forall T (F : Fops T), is_field F ->
  forall k s w c, length c = (2 ^ k)%nat -> prim_root F k w ->
  (forall i, (2 ^ (k - s) <= i)%nat -> nth i c (f0 F) = f0 F) ->
  oi_aux F k s w (dupA F k s c) = dft F (2 ^ k) w c.
Proof. exact (@oi_skip_spec). Qed.

(* elements() = [offset * gen^i], element(i) = offset * gen^i *)
Theorem C07_elements_spec : forall T (F : Fops T), is_field F ->
  forall d n, d_size d = Z.of_nat n ->
  elements F d = map (fun i => fmul F (d_offset d) (pown F (d_gen d) i)) (seq 0 n).
Proof. exact (@elements_spec). Qed.
Theorem C07_element_spec : forall T (F : Fops T), is_field F -> eqb_correct F ->
  forall d i, element F d (Z.of_nat i) = fmul F (d_offset d) (pown F (d_gen d) i).
Proof. exact (@element_spec). Qed.

(* vanishing polynomial: value tau^n - h^n; zero at every point of the (coset) domain *)
Theorem C07_vanishing_eval_spec : forall T (F : Fops T), is_field F ->
  forall d n tau, d_size d = Z.of_nat n -> d_offset_pow_size d = pown F (d_offset d) n ->
  evaluate_vanishing_polynomial F d tau = fsub F (pown F tau n) (pown F (d_offset d) n).
Proof. exact (@vanishing_eval_spec). Qed.
Theorem C07_vanishing_at_domain_points : forall T (F : Fops T), is_field F -> eqb_correct F ->
  forall d n i, d_size d = Z.of_nat n -> d_offset_pow_size d = pown F (d_offset d) n ->
  pown F (d_gen d) n = f1 F ->
  evaluate_vanishing_polynomial F d (element F d (Z.of_nat i)) = f0 F.
Proof. exact (@vanishing_at_domain_points). Qed.

(* get_coset keeps the subgroup, stores the offset, its inverse and offset^size *)
Theorem C07_get_coset_spec : forall T (F : Fops T), is_field F -> eqb_correct F ->
  forall d n h d', d_size d = Z.of_nat n -> get_coset F d h = Some d' ->
  d_offset d' = h /\ d_offset_pow_size d' = pown F h n /\ fmul F h (d_offset_inv d') = f1 F /\
  d_size d' = d_size d /\ d_gen d' = d_gen d /\ d_gen_inv d' = d_gen_inv d /\ d_size_inv d' = d_size_inv d.
Proof. exact (@get_coset_spec). Qed.

(* Radix2EvaluationDomain::new: what a returned domain contains *)
Theorem C07_radix2_new_spec : forall T (F : Fops T), is_field F -> eqb_correct F ->
  forall (c : fftcfg T) m d, radix2_new F c m = RSome d ->
  d_size d = npow2 m /\ d_log d = Z.log2 (npow2 m) /\ d_mixed d = false /\
  (d_log d <= c_two_adicity c) /\
  get_root_of_unity F c (npow2 m) = RSome (d_gen d) /\
  fmul F (d_gen d) (d_gen_inv d) = f1 F /\ fmul F (d_size_fe d) (d_size_inv d) = f1 F /\
  d_size_fe d = fof F [npow2 m] /\
  d_offset d = f1 F /\ d_offset_inv d = f1 F /\ d_offset_pow_size d = f1 F.
Proof. exact (@radix2_new_spec). Qed.

(* generator_exact_order (power-of-two branch of get_root_of_unity): if the configured
   TWO_ADIC_ROOT_OF_UNITY has exact order 2^TWO_ADICITY (a fact about the configuration: C16),
   the root returned for n = 2^lg is root^(2^(s-lg)) and has exact order 2^lg *)
Theorem C07_get_root_of_unity_pow2 : forall T (F : Fops T), is_field F ->
  forall (c : fftcfg T) (s lg : nat) w,
  c_large_root c = None -> c_two_adicity c = Z.of_nat s ->
  prim_root F s (c_two_adic_root c) ->
  get_root_of_unity F c (2 ^ Z.of_nat lg) = RSome w ->
  (lg <= s)%nat /\ w = pown F (c_two_adic_root c) (2 ^ (s - lg)) /\ prim_root F lg w.
Proof. exact (@get_root_of_unity_pow2). Qed.

(* domain size: >= m, a power of two within the two-adicity, minimal; None iff no such power *)
Theorem C07_radix2_size_minimal : forall T (c : fftcfg T) m, 0 <= m -> 0 <= c_two_adicity c ->
  match radix2_compute_size c m with
  | Some s => m <= s /\ (exists k, 0 <= k <= c_two_adicity c /\ s = 2 ^ k) /\
              (forall j, 0 <= j -> m <= 2 ^ j -> s <= 2 ^ j)
  | None => forall k, 0 <= k <= c_two_adicity c -> 2 ^ k < m
  end.
Proof. exact (@radix2_size_minimal). Qed.

(* non-vacuity: F_17, w = 2 has 2^4 = -1 (order 8), coset offset 3, an input of length 8 *)
Example C07_example_prim_root : pown (ZpOps 17) 2 4 = fneg (ZpOps 17) (f1 (ZpOps 17)).
Proof. vm_compute. reflexivity. Qed.
Example C07_example_fft :
  in_order_fft (ZpOps 17) 3 2 3 [1;2;3;4;5;6;7;8] = dft_coset (ZpOps 17) 8 3 2 [1;2;3;4;5;6;7;8]
  /\ in_order_ifft (ZpOps 17) 3 9 3 6 15 (in_order_fft (ZpOps 17) 3 2 3 [1;2;3;4;5;6;7;8]) = [1;2;3;4;5;6;7;8].
Proof. vm_compute. split; reflexivity. Qed.
Example C07_example_degree_aware :
  degree_aware_fft (ZpOps 17) 3 2 3 [5;7] = Some (dft_coset (ZpOps 17) 8 3 2 [5;7])
  /\ oi_aux (ZpOps 17) 3 2 2 (dupA (ZpOps 17) 3 2 [5;7;0;0;0;0;0;0]) = dft (ZpOps 17) 8 2 [5;7;0;0;0;0;0;0].
Proof. vm_compute. split; reflexivity. Qed.
Example C07_example_size : radix2_compute_size (mkCfg 6 0 None None None) 33 = Some 64
  /\ radix2_compute_size (mkCfg (T:=Z) 6 0 None None None) 65 = None.
Proof. vm_compute. split; reflexivity. Qed.
