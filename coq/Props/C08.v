(* C08 -- property theorems only: pinned statements, each closed by `exact`. *)
From V Require Import Base.Field C08.Model C08.Common.
Require Import Field_theory.

Section C08.
  Context {K : Type} (F : Fops K).
  Hypothesis Fth : field_theory (f0 F) (f1 F) (fadd F) (fmul F) (fsub F) (fneg F)
                     (fun a b => fmul F a (finv F b)) (finv F) eq.
  Hypothesis eqb_ok : forall a b, feqb F a b = true <-> a = b.

  (* from_coefficients_vec canonicalises and never trips its assert *)
  Theorem C08_from_vec : forall p, d_from_vec F p = ROk (trunc F p) /\ canon F (trunc F p) /\
    forall x, eval F (trunc F p) x = eval F p x.
  Proof. exact (fun p => conj (d_from_vec_ok F eqb_ok p)
                 (conj (trunc_canon F eqb_ok p) (trunc_eval F Fth eqb_ok p))). Qed.
End C08.
