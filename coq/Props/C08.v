(* C08 -- property theorems only: pinned statements, each closed by `exact`.
   Reading guide: [eval F p x] / [seval F s x] = value of a dense / sparse polynomial at x;
   [canon F p] = p is empty or its last coefficient is non-zero; [scanon F s] = degrees
   strictly ascending and all coefficients non-zero; [okd F r f] / [oks F r f] = the
   model operation returned [ROk v] (no Rust panic, in particular no failed `degree()`
   assert, no fuel exhaustion), v is canonical, and v evaluates to f x at every x. *)
From V Require Import Base.Field C08.Model C08.Common C08.DenseProofs C08.SparseAdd C08.SparseMul
  C08.MixedProofs C08.Division C08.Vanishing C08.DomainProofs C08.FftMul.
Require Import Field_theory.

Section C08.
  Context {K : Type} (F : Fops K).
  Hypothesis Fth : field_theory (f0 F) (f1 F) (fadd F) (fmul F) (fsub F) (fneg F)
                     (fun a b => fmul F a (finv F b)) (finv F) eq.
  Hypothesis eqb_ok : forall a b, feqb F a b = true <-> a = b.

  (* ---- canonical form, degree, constructors ---- *)
  Theorem C08_from_vec : forall p, d_from_vec F p = ROk (trunc F p) /\ canon F (trunc F p) /\
    forall x, eval F (trunc F p) x = eval F p x.
  Proof. exact (fun p => conj (d_from_vec_ok F eqb_ok p)
                 (conj (trunc_canon F eqb_ok p) (trunc_eval F Fth eqb_ok p))). Qed.
  Theorem C08_canon_eq_iff : forall p q, canon F p -> canon F q ->
    (p = q <-> (forall i, nth i p (f0 F) = nth i q (f0 F))).
  Proof. exact (canon_eq_iff F). Qed.
  Theorem C08_degree_never_panics_dense : forall p, canon F p -> exists d, d_degree F p = ROk d.
  Proof. exact (d_degree_ok F eqb_ok). Qed.
  Theorem C08_degree_never_panics_sparse : forall s, scanon F s -> exists d, s_degree F s = ROk d.
  Proof. exact (s_degree_ok F eqb_ok). Qed.
  Theorem C08_degree_ok_on_results : forall r f, okd F r f -> exists v d, r = ROk v /\ d_degree F v = ROk d.
  Proof. exact (d_degree_result_ok F eqb_ok). Qed.
  Theorem C08_sparse_from_vec_partial : forall s, NoDup (map fst s) ->
    (forall t, In t s -> snd t <> f0 F) -> oks F (s_from_vec F s) (seval F s).
  Proof. exact (s_from_vec_spec_partial F Fth eqb_ok). Qed.
  (* after the repair of F28 (retain instead of a trailing pop): zero coefficients anywhere *)
  Theorem C08_sparse_from_vec : forall s, NoDup (map fst s) -> oks F (s_from_vec F s) (seval F s).
  Proof. exact (s_from_vec_spec F Fth eqb_ok). Qed.
  (* ANY raw term list (repeated degrees included): no panic, exactly the non-zero terms, same sum *)
  Theorem C08_sparse_from_vec_total : forall s, exists r, s_from_vec F s = ROk r /\
    (forall t, In t r <-> (In t s /\ snd t <> f0 F)) /\ (forall x, seval F r x = seval F s x).
  Proof. exact (s_from_vec_total F Fth eqb_ok). Qed.
  Theorem C08_evaluate : forall p x, d_evaluate F p x = eval F p x.
  Proof. exact (d_evaluate_spec F Fth eqb_ok). Qed.
  Theorem C08_sparse_evaluate : forall s x, scanon F s -> s_evaluate F s x = ROk (seval F s x).
  Proof. exact (s_evaluate_spec F Fth eqb_ok). Qed.

  (* ---- dense (op) dense ---- *)
  Theorem C08_add : forall p q, canon F p -> canon F q ->
    okd F (d_add F p q) (fun x => fadd F (eval F p x) (eval F q x)).
  Proof. exact (d_add_spec F Fth eqb_ok). Qed.
  Theorem C08_add_assign : forall p q, canon F p -> canon F q ->
    okd F (d_add_assign F p q) (fun x => fadd F (eval F p x) (eval F q x)).
  Proof. exact (d_add_assign_spec F Fth eqb_ok). Qed.
  Theorem C08_sub : forall p q, canon F p -> canon F q ->
    okd F (d_sub F p q) (fun x => fsub F (eval F p x) (eval F q x)).
  Proof. exact (d_sub_spec F Fth eqb_ok). Qed.
  Theorem C08_sub_assign : forall p q, canon F p -> canon F q ->
    okd F (d_sub_assign F p q) (fun x => fsub F (eval F p x) (eval F q x)).
  Proof. exact (d_sub_assign_spec F Fth eqb_ok). Qed.
  Theorem C08_add_assign_scaled : forall p f q, canon F p -> canon F q ->
    okd F (d_add_assign_scaled F p f q) (fun x => fadd F (eval F p x) (fmul F f (eval F q x))).
  Proof. exact (d_add_assign_scaled_spec F Fth eqb_ok). Qed.
  Theorem C08_neg : forall p, canon F p ->
    canon F (d_neg F p) /\ forall x, eval F (d_neg F p) x = fneg F (eval F p x).
  Proof. exact (d_neg_spec F Fth). Qed.
  Theorem C08_scale : forall p e, canon F p ->
    canon F (d_scale F p e) /\ forall x, eval F (d_scale F p e) x = fmul F (eval F p x) e.
  Proof. exact (d_scale_spec F Fth eqb_ok). Qed.
  Theorem C08_naive_mul : forall p q, canon F p -> canon F q ->
    okd F (d_naive_mul F p q) (fun x => fmul F (eval F p x) (eval F q x)).
  Proof. exact (d_naive_mul_spec F Fth eqb_ok). Qed.
  (* the FFT-based `Mul`, with the transform pair specified (C07) *)
  Theorem C08_mul : forall p q, canon F p -> canon F q ->
    okd F (d_mul F p q) (fun x => fmul F (eval F p x) (eval F q x)).
  Proof. exact (d_mul_spec F Fth eqb_ok). Qed.

  (* ---- sparse ---- *)
  Theorem C08_sparse_add : forall a b, scanon F a -> scanon F b ->
    oks F (s_add F a b) (fun x => fadd F (seval F a x) (seval F b x)).
  Proof. exact (s_add_spec F Fth eqb_ok). Qed.
  Theorem C08_sparse_sub_assign : forall a b, scanon F a -> scanon F b ->
    oks F (s_sub_assign F a b) (fun x => fsub F (seval F a x) (seval F b x)).
  Proof. exact (s_sub_assign_spec F Fth eqb_ok). Qed.
  Theorem C08_sparse_add_assign_scaled : forall a f b, scanon F a -> scanon F b ->
    oks F (s_add_assign_scaled F a f b) (fun x => fadd F (seval F a x) (fmul F f (seval F b x))).
  Proof. exact (s_add_assign_scaled_spec F Fth eqb_ok). Qed.
  Theorem C08_sparse_neg : forall s, scanon F s ->
    scanon F (s_neg F s) /\ forall x, seval F (s_neg F s) x = fneg F (seval F s x).
  Proof. exact (s_neg_spec F Fth). Qed.
  Theorem C08_sparse_scale : forall s e, scanon F s ->
    scanon F (s_scale F s e) /\ forall x, seval F (s_scale F s e) x = fmul F (seval F s x) e.
  Proof. exact (s_scale_spec F Fth eqb_ok). Qed.
  Theorem C08_sparse_mul : forall a b, scanon F a -> scanon F b ->
    oks F (s_mul F a b) (fun x => fmul F (seval F a x) (seval F b x)).
  Proof. exact (s_mul_spec F Fth eqb_ok). Qed.

  (* ---- conversions ---- *)
  Theorem C08_sparse_to_dense : forall s, scanon F s -> okd F (s_to_dense F s) (seval F s).
  Proof. exact (s_to_dense_spec F Fth eqb_ok). Qed.
  Theorem C08_dense_to_sparse : forall p, canon F p -> oks F (d_to_sparse F p) (eval F p).
  Proof. exact (d_to_sparse_spec F Fth eqb_ok). Qed.

  (* ---- dense (op) sparse ---- *)
  Theorem C08_add_sparse : forall p s, canon F p -> scanon F s ->
    okd F (d_add_sparse F p s) (fun x => fadd F (eval F p x) (seval F s x)).
  Proof. exact (d_add_sparse_spec F Fth eqb_ok). Qed.
  Theorem C08_add_assign_sparse : forall p s, canon F p -> scanon F s ->
    okd F (d_add_assign_sparse F p s) (fun x => fadd F (eval F p x) (seval F s x)).
  Proof. exact (d_add_assign_sparse_spec F Fth eqb_ok). Qed.
  Theorem C08_sub_sparse : forall p s, canon F p -> scanon F s ->
    okd F (d_sub_sparse F p s) (fun x => fsub F (eval F p x) (seval F s x)).
  Proof. exact (d_sub_sparse_spec F Fth eqb_ok). Qed.
  (* proved about the model WITH the truncation that /repo lacks in the 0 -= 0 corner
     (DEFECT-1 in props/C08/NOTES.md) *)
  Theorem C08_sub_assign_sparse : forall p s, canon F p -> scanon F s ->
    okd F (d_sub_assign_sparse F p s) (fun x => fsub F (eval F p x) (seval F s x)).
  Proof. exact (d_sub_assign_sparse_spec F Fth eqb_ok). Qed.

  (* ---- division with remainder: a = q b + r, r = 0 or deg r < deg b ---- *)
  Theorem C08_division : forall a b, dos_canon F a -> dos_canon F b -> dos_is_zero F b = false ->
    exists q r db, divide F a b = ROk (q, r) /\ dos_degree F b = ROk db /\
      canon F q /\ canon F r /\ (length r <= db)%nat /\
      forall x, dos_eval F a x = fadd F (fmul F (eval F q x) (dos_eval F b x)) (eval F r x).
  Proof. exact (divide_spec F Fth eqb_ok). Qed.

  (* ---- vanishing polynomial X^n - c of a domain / coset (c = offset^n, any c) ---- *)
  Theorem C08_mul_by_vanishing : forall p n c,
    okd F (mul_by_vanishing F p n c) (fun x => fmul F (eval F p x) (fsub F (pown F x n) c)).
  Proof. exact (mul_by_vanishing_spec F Fth eqb_ok). Qed.
  Theorem C08_divide_by_vanishing : forall p n c, (0 < n)%nat -> canon F p ->
    exists q r, divide_by_vanishing F p n c = ROk (q, r) /\ canon F q /\ canon F r /\
      (length r <= n)%nat /\
      forall x, eval F p x = fadd F (fmul F (eval F q x) (fsub F (pown F x n) c)) (eval F r x).
  Proof. exact (divide_by_vanishing_spec F Fth eqb_ok). Qed.

  (* ---- evaluation over a domain / coset, interpolation ---- *)
  (* any input length, in particular longer than the domain *)
  Theorem C08_eval_over_domain : forall p n h g, (0 < n)%nat -> pown F g n = f1 F ->
    d_eval_over_domain F p n h g = map (fun i => eval F p (fmul F h (pown F g i))) (seq 0 n).
  Proof. exact (d_eval_over_domain_spec F Fth eqb_ok). Qed.
  Theorem C08_sparse_eval_over_domain : forall s n h g, scanon F s ->
    s_eval_over_domain F s n h g = ROk (map (fun i => seval F s (fmul F h (pown F g i))) (seq 0 n)).
  Proof. exact (s_eval_over_domain_spec F Fth eqb_ok). Qed.
  Theorem C08_interpolate : forall e n h g, length e = n -> (0 < n)%nat -> pown F g n = f1 F ->
    (forall k, (0 < k < n)%nat -> pown F g k <> f1 F) -> h <> f0 F -> of_nat F n <> f0 F ->
    exists r, interpolate F e n h g = ROk r /\ canon F r /\ (length r <= n)%nat /\
      forall i, (i < n)%nat -> eval F r (fmul F h (pown F g i)) = nth i e (f0 F).
  Proof. exact (interpolate_spec F Fth eqb_ok). Qed.
  Theorem C08_interpolate_roundtrip : forall p n h g, canon F p -> (length p <= n)%nat -> (0 < n)%nat ->
    pown F g n = f1 F -> (forall k, (0 < k < n)%nat -> pown F g k <> f1 F) -> h <> f0 F ->
    of_nat F n <> f0 F -> interpolate F (d_eval_over_domain F p n h g) n h g = ROk p.
  Proof. exact (roundtrip_spec F Fth eqb_ok). Qed.

  (* the pipeline of the FFT-based `Mul` (evaluate both operands over a domain of size
     n >= len p + len q - 1, multiply pointwise, interpolate), with exact transforms,
     is the specified operator [d_mul] *)
  Theorem C08_fft_mul_pipeline : forall p q n g, canon F p -> canon F q ->
    (length p + length q <= n + 1)%nat -> (0 < n)%nat -> pown F g n = f1 F ->
    (forall k, (0 < k < n)%nat -> pown F g k <> f1 F) -> of_nat F n <> f0 F ->
    interpolate F (ev_mul F (d_eval_over_domain F p n (f1 F) g) (d_eval_over_domain F q n (f1 F) g))
      n (f1 F) g = d_mul F p q.
  Proof. exact (fft_mul_pipeline F Fth eqb_ok). Qed.

  (* ---- Evaluations: pointwise operators ---- *)
  Theorem C08_ev_add : forall a b i, length a = length b ->
    nth i (ev_add F a b) (f0 F) = fadd F (nth i a (f0 F)) (nth i b (f0 F)).
  Proof. exact (ev_add_nth F Fth). Qed.
  Theorem C08_ev_sub : forall a b i, length a = length b ->
    nth i (ev_sub F a b) (f0 F) = fsub F (nth i a (f0 F)) (nth i b (f0 F)).
  Proof. exact (ev_sub_nth F Fth). Qed.
  Theorem C08_ev_mul : forall a b i, length a = length b ->
    nth i (ev_mul F a b) (f0 F) = fmul F (nth i a (f0 F)) (nth i b (f0 F)).
  Proof. exact (ev_mul_nth F Fth). Qed.
  Theorem C08_ev_div : forall a b i, length a = length b ->
    nth i (ev_div F a b) (f0 F) = fmul F (nth i a (f0 F)) (finv F (nth i b (f0 F))).
  Proof. exact (ev_div_nth F Fth). Qed.
  Theorem C08_ev_scale : forall a e i,
    nth i (ev_scale F a e) (f0 F) = fmul F (nth i a (f0 F)) e.
  Proof. exact (ev_scale_nth F Fth). Qed.
End C08.

(* ---- non-vacuity: concrete canonical operands, cancelling leading terms ---- *)
Example C08_add_example : d_add (ZpOps 7) [1; 2; 3] [1; 2; 4] = ROk [2; 4].
Proof. vm_compute. reflexivity. Qed.
Example C08_scaled_add_zero_example : d_add_assign_scaled (ZpOps 7) [] 0 [1; 2] = ROk [].
Proof. vm_compute. reflexivity. Qed.
Example C08_sub_sparse_example : d_sub_sparse (ZpOps 7) [1; 2; 3] [(2%nat, 3)] = ROk [1; 2].
Proof. vm_compute. reflexivity. Qed.
Example C08_sparse_mul_example :
  s_mul (ZpOps 7) [(0%nat, 1); (1%nat, 1)] [(0%nat, 1); (1%nat, 6)] = ROk [(0%nat, 1); (2%nat, 6)].
Proof. vm_compute. reflexivity. Qed.
Example C08_division_example :
  divide (ZpOps 7) (DP [1; 2; 3; 4]) (SP [(0%nat, 1); (2%nat, 3)]) = ROk ([1; 6], [0; 3]).
Proof. vm_compute. reflexivity. Qed.
Example C08_divide_by_vanishing_example :
  divide_by_vanishing (ZpOps 97) [1; 2; 3; 4; 5; 6; 7] 2 5 = ROk ([9; 34; 40; 6; 7], [46; 75]).
Proof. vm_compute. reflexivity. Qed.
(* the hypotheses of C08_interpolate are satisfiable: 22 is a primitive 4th root of unity mod 97 *)
Example C08_domain_example :
  (pown (ZpOps 97) 22 4, pown (ZpOps 97) 22 1 =? 1, pown (ZpOps 97) 22 2 =? 1, pown (ZpOps 97) 22 3 =? 1,
   interpolate (ZpOps 97) (d_eval_over_domain (ZpOps 97) [7; 0; 3] 4 5 22) 4 5 22)
  = (1, false, false, false, ROk [7; 0; 3]).
Proof. vm_compute. reflexivity. Qed.
