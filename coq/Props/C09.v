(* C09 -- property theorems only: pinned statements, each closed by `exact`.
   Serialization of field elements and curve points round-trips at the advertised size;
   field encodings are unique.  Models: coq/C09/{Bytes,FpCodec,PointCodec}.v. *)
From V Require Import Base.Field C09.Bytes C09.FpCodec C09.Specs C09.PointCodec C09.Exec.
From V Require Import C09.BytesProofs C09.FpCodecProofs C09.PointCodecProofs C09.Instance C09.ExtSize.

(* ---- the three shipped flag types meet the contract of `trait Flags` ---- *)
Theorem C09_flags_empty : FlagOK EmptyFlags. Proof. exact EmptyFlags_ok. Qed.
Theorem C09_flags_sw : FlagOK SWFlags. Proof. exact SWFlags_ok. Qed.
Theorem C09_flags_te : FlagOK TEFlags. Proof. exact TEFlags_ok. Qed.

(* ---- prime fields: every limb count N, every modulus p of N limbs, every flag type with
        BIT_SIZE <= 8 meeting the Flags contract, every value ---- *)
(* fp_size: the encoder succeeds and writes exactly serialized_size_with_flags bytes *)
Theorem C09_fp_size : forall N p FT v f, fp_cfg_ok N p -> FlagOK FT -> 0 <= v < p ->
  exists bs, fp_enc N p FT v f = Ok bs /\ Z.of_nat (length bs) = fp_size p FT /\ bytes_ok bs.
Proof. exact fp_enc_size. Qed.

(* fp_roundtrip: decoding the encoding (followed by anything) returns the value, the flag and
   the reader positioned right after the encoding *)
Theorem C09_fp_roundtrip : forall N p FT v f bs rest, fp_cfg_ok N p -> FlagOK FT -> 0 <= v < p ->
  fp_enc N p FT v f = Ok bs -> fp_dec N p FT (bs ++ rest) = Ok (v, f, rest).
Proof. exact fp_roundtrip. Qed.

(* fp_no_overread: success consumes exactly the advertised number of bytes; a shorter input
   is an I/O error; the decoder never panics *)
Theorem C09_fp_consume : forall N p FT bs v f rest, fp_cfg_ok N p -> FlagOK FT ->
  fp_dec N p FT bs = Ok (v, f, rest) ->
  exists pre, bs = pre ++ rest /\ Z.of_nat (length pre) = fp_size p FT.
Proof. exact fp_consume. Qed.
Theorem C09_fp_short : forall N p FT bs, fp_cfg_ok N p -> FlagOK FT ->
  Z.of_nat (length bs) < fp_size p FT -> fp_dec N p FT bs = Err E_Io.
Proof. exact fp_short. Qed.
Theorem C09_fp_nopanic : forall N p FT bs, fp_cfg_ok N p -> FlagOK FT -> fp_dec N p FT bs <> Panic.
Proof. exact fp_nopanic. Qed.

(* fp_unique: ANY byte string that decodes re-encodes to exactly the bytes consumed -- for every
   modulus and flag type, including bit lengths that are multiples of 8 / 64 where the flags
   spill into an extra byte (defect F15, repaired in /repo: the model has the repaired check) *)
Theorem C09_fp_unique : forall N p FT bs v f rest, fp_cfg_ok N p -> FlagOK FT -> bytes_ok bs ->
  fp_dec N p FT bs = Ok (v, f, rest) ->
  0 <= v < p /\ exists pre, bs = pre ++ rest /\ fp_enc N p FT v f = Ok pre.
Proof. exact fp_unique. Qed.

(* all of the above, bundled (Specs.CodecOK), and lifted through quadratic / cubic extensions,
   hence through every tower *)
Theorem C09_fp_codec : forall N p, fp_cfg_ok N p -> CodecOK (fp_codec N p) (fun v => 0 <= v < p).
Proof. exact fp_codec_ok. Qed.
Theorem C09_ext_quad : forall K (C : Codec K) valid, CodecOK C valid ->
  CodecOK (quad_codec C) (quad_valid valid).
Proof. exact quad_codec_ok. Qed.
Theorem C09_ext_cubic : forall K (C : Codec K) valid, CodecOK C valid ->
  CodecOK (cubic_codec C) (cubic_valid valid).
Proof. exact cubic_codec_ok. Qed.
(* e.g. Fq12 = Fq6[w]/(..), Fq6 = Fq2[v]/(..), Fq2 = Fq[u]/(..) *)
Theorem C09_fq12_codec : forall N p, fp_cfg_ok N p ->
  CodecOK (quad_codec (cubic_codec (quad_codec (fp_codec N p))))
          (quad_valid (cubic_valid (quad_valid (fun v => 0 <= v < p)))).
Proof.
  exact (fun N p H => quad_codec_ok _ _ _ (cubic_codec_ok _ _ _ (quad_codec_ok _ _ _ (fp_codec_ok N p H)))).
Qed.

(* ext_size_with_flags: the advertised size of an EXTENSION element serialized with flags
   (QuadExtField / CubicExtField::serialized_size_with_flags = compressed size of the leading
   coefficients + with-flags size of the last one) equals the number of bytes written, for every
   base codec, hence every modulus and every lawful flag type -- including base fields whose top
   byte cannot hold the flags: only the LAST coefficient grows by the extra byte *)
Theorem C09_ext_size_with_flags : forall K (C : Codec K) valid, CodecOK C valid ->
  forall FT x f, FlagOK FT -> quad_valid valid x ->
  c_size (quad_codec C) FT = c_sizep C + c_size C FT /\
  exists bs, c_enc (quad_codec C) FT x f = Ok bs /\
    Z.of_nat (length bs) = c_sizep C + c_size C FT.
Proof. exact ext_size_with_flags_quad. Qed.
Theorem C09_ext_size_with_flags_cubic : forall K (C : Codec K) valid, CodecOK C valid ->
  forall FT x f, FlagOK FT -> cubic_valid valid x ->
  c_size (cubic_codec C) FT = c_sizep C + c_sizep C + c_size C FT /\
  exists bs, c_enc (cubic_codec C) FT x f = Ok bs /\
    Z.of_nat (length bs) = c_sizep C + c_sizep C + c_size C FT.
Proof. exact ext_size_with_flags_cubic. Qed.
(* Fp2 / Fp3 over any prime field of N limbs, and the 2-level tower Fp4 = Fp2[v]/(v^2 - u):
   (deg - 1) * ceil(bits / 8) + ceil((bits + BIT_SIZE) / 8) bytes, advertised and written *)
Theorem C09_fp2_size_with_flags : forall N p FT c0 c1 f, fp_cfg_ok N p -> FlagOK FT ->
  0 <= c0 < p -> 0 <= c1 < p ->
  c_size (quad_codec (fp_codec N p)) FT = fp_size p EmptyFlags + fp_size p FT /\
  exists bs, c_enc (quad_codec (fp_codec N p)) FT (c0, c1) f = Ok bs /\
    Z.of_nat (length bs) = fp_size p EmptyFlags + fp_size p FT.
Proof. exact fp2_size_with_flags. Qed.
Theorem C09_fp3_size_with_flags : forall N p FT c0 c1 c2 f, fp_cfg_ok N p -> FlagOK FT ->
  0 <= c0 < p -> 0 <= c1 < p -> 0 <= c2 < p ->
  c_size (cubic_codec (fp_codec N p)) FT = fp_size p EmptyFlags + fp_size p EmptyFlags + fp_size p FT /\
  exists bs, c_enc (cubic_codec (fp_codec N p)) FT (c0, c1, c2) f = Ok bs /\
    Z.of_nat (length bs) = fp_size p EmptyFlags + fp_size p EmptyFlags + fp_size p FT.
Proof. exact fp3_size_with_flags. Qed.
Theorem C09_fp4_size_with_flags : forall N p FT x f, fp_cfg_ok N p -> FlagOK FT ->
  quad_valid (quad_valid (fun v => 0 <= v < p)) x ->
  exists bs, c_enc (quad_codec (quad_codec (fp_codec N p))) FT x f = Ok bs /\
    Z.of_nat (length bs) = 3 * fp_size p EmptyFlags + fp_size p FT.
Proof. exact fp4_size_with_flags. Qed.

(* ---- curve points: every on-curve affine point incl. the identity, 4 modes, both models,
        affine and projective.  Premise `point_hyps` (Specs.v): the base field is a field, sqrt
        meets its specification, cmp is an order compatible with equality, the field codec is
        CodecOK.  In checked mode the point must pass the subgroup test (an arbitrary predicate
        here; the shipped tests are property C12). ---- *)
Theorem C09_sw_roundtrip : forall K (F : Fops K) (C : Codec K) sqrt cmp, point_hyps F C sqrt cmp ->
  forall (ca cb : K) (sw_in_subgroup : swaff -> bool) P compress validate rest,
  sw_valid_pt F ca cb P ->
  (validate = true -> sinf P = false -> sw_in_subgroup P = true) ->
  exists bs, sw_enc F C cmp P compress = Ok bs /\
    Z.of_nat (length bs) = sw_size C compress /\
    sw_dec F C sqrt cmp ca cb sw_in_subgroup (bs ++ rest) compress validate = Ok (P, rest).
Proof. exact (@sw_roundtrip_b). Qed.

Theorem C09_sw_projective_roundtrip : forall K (F : Fops K) (C : Codec K) sqrt cmp, point_hyps F C sqrt cmp ->
  forall (ca cb : K) (sw_in_subgroup : swaff -> bool) P compress validate rest,
  sw_valid_pt F ca cb (sw_to_affine F P) ->
  (validate = true -> sinf (sw_to_affine F P) = false -> sw_in_subgroup (sw_to_affine F P) = true) ->
  exists bs, swj_enc F C cmp P compress = Ok bs /\
    Z.of_nat (length bs) = sw_size C compress /\
    swj_dec F C sqrt cmp ca cb sw_in_subgroup (bs ++ rest) compress validate
      = Ok (sw_of_affine F (sw_to_affine F P), rest).
Proof. exact (@swj_roundtrip_b). Qed.

Theorem C09_te_roundtrip : forall K (F : Fops K) (C : Codec K) sqrt cmp, point_hyps F C sqrt cmp ->
  forall (ta td : K) (te_in_subgroup : teaff -> bool), ta <> td ->
  forall P compress validate rest,
  te_on_curve F ta td P = true ->
  (validate = true -> te_in_subgroup P = true) ->
  exists bs, te_enc F C cmp P compress = Ok bs /\
    Z.of_nat (length bs) = te_size C compress /\
    te_dec F C sqrt cmp ta td te_in_subgroup (bs ++ rest) compress validate = Ok (P, rest).
Proof. exact (@te_roundtrip_b). Qed.

Theorem C09_te_projective_roundtrip : forall K (F : Fops K) (C : Codec K) sqrt cmp, point_hyps F C sqrt cmp ->
  forall (ta td : K) (te_in_subgroup : teaff -> bool), ta <> td ->
  forall P compress validate rest,
  te_on_curve F ta td (te_to_affine F P) = true ->
  (validate = true -> te_in_subgroup (te_to_affine F P) = true) ->
  exists bs, tep_enc F C cmp P compress = Ok bs /\
    Z.of_nat (length bs) = te_size C compress /\
    tep_dec F C sqrt cmp ta td te_in_subgroup (bs ++ rest) compress validate
      = Ok (te_of_affine F (te_to_affine F P), rest).
Proof. exact (@tep_roundtrip_b). Qed.

(* point_size without any field hypothesis beyond the codec's *)
Theorem C09_sw_size : forall K (F : Fops K) (C : Codec K) cmp, CodecOK C (fun _ => True) ->
  forall P compress bs, sw_enc F C cmp P compress = Ok bs -> Z.of_nat (length bs) = sw_size C compress.
Proof. exact (@sw_size_thm). Qed.
Theorem C09_te_size : forall K (F : Fops K) (C : Codec K) cmp, CodecOK C (fun _ => True) ->
  forall P compress bs, te_enc F C cmp P compress = Ok bs -> Z.of_nat (length bs) = te_size C compress.
Proof. exact (@te_size_thm). Qed.

(* ---- non-vacuity ---- *)
(* a one-limb 64-bit modulus: SWFlags need a 9th byte *)
Example C09_ex_cfg : fp_cfg_ok 1 (2 ^ 64 - 59) /\ fp_size (2 ^ 64 - 59) SWFlags = 9.
Proof. exact ex_cfg_spill. Qed.
Example C09_ex_roundtrip :
  fp_enc 1 (2 ^ 64 - 59) SWFlags 258 YIsNegative = Ok [2; 1; 0; 0; 0; 0; 0; 0; 128] /\
  fp_dec 1 (2 ^ 64 - 59) SWFlags [2; 1; 0; 0; 0; 0; 0; 0; 128; 7] = Ok (258, YIsNegative, [7]).
Proof. exact (conj ex_enc_spill ex_dec_spill). Qed.
(* the F15 witness shape: a stray bit in the extra flag byte is rejected *)
Example C09_ex_stray_bit_rejected :
  fp_dec 1 (2 ^ 64 - 59) SWFlags [2; 1; 0; 0; 0; 0; 0; 0; 129] = Err E_InvalidData.
Proof. exact ex_dec_spill_stray. Qed.
(* Fp2 over the secp256k1 base field (256 bits, no spare bit in the top byte): 65 = 32 + 33 with
   SWFlags / TEFlags (not 66 = 33 + 33), 64 without flags; Fp3: 97 = 32 + 32 + 33; the flag lands
   in byte 64, byte 63 (top byte of c1 = 7) and byte 31 (top byte of c0 = p - 1) carry no flag *)
Example C09_ex_ext_size_256 :
  let p := 2 ^ 256 - 2 ^ 32 - 977 in
  fp_cfg_ok 4 p /\
  fp_size p EmptyFlags = 32 /\ fp_size p SWFlags = 33 /\ fp_size p TEFlags = 33 /\
  c_size (quad_codec (fp_codec 4 p)) SWFlags = 65 /\
  c_size (quad_codec (fp_codec 4 p)) TEFlags = 65 /\
  c_size (quad_codec (fp_codec 4 p)) EmptyFlags = 64 /\
  c_size (cubic_codec (fp_codec 4 p)) SWFlags = 97 /\
  (forall bs, c_enc (quad_codec (fp_codec 4 p)) SWFlags (p - 1, 7) YIsNegative = Ok bs ->
     length bs = 65%nat /\ nth 64 bs 0 = 128 /\ nth 63 bs 0 = 0 /\ nth 31 bs 0 = 255).
Proof. exact ex_ext_size_256. Qed.
(* y^2 = x^3 + 7 over F_13 (group of order 7): the point (7, 8) has the larger y, the identity *)
Example C09_ex_sw_point :
  let F := ZpOps 13 in let C := fp_codec 1 13 in let sq := fsqrt F 2 in
  let sub := fun P : swaff => sw_order_divides F 0 7 (sx P) (sy P) in
  sw_enc F C Z.compare (mkSW 7 8 false) true = Ok [135] /\
  sw_dec F C sq Z.compare 0 7 sub [135; 99] true true = Ok (mkSW 7 8 false, [99]) /\
  sw_dec F C sq Z.compare 0 7 sub [64] true true = Ok (sw_identity F, []) /\
  sw_dec F C sq Z.compare 0 7 sub [7; 8] false true = Ok (mkSW 7 8 false, []).
Proof. exact ex_sw_point. Qed.
(* -x^2 + y^2 = 1 + 2 x^2 y^2 over F_13: x = 0 tie and a generic point *)
Example C09_ex_te_point :
  let F := ZpOps 13 in let C := fp_codec 1 13 in let sq := fsqrt F 2 in
  te_on_curve F 12 2 (mkTE 0 12) = true /\
  te_dec F C sq Z.compare 12 2 (fun _ => true) (match te_enc F C Z.compare (mkTE 0 12) true with Ok b => b | _ => [] end) true true
    = Ok (mkTE 0 12, []).
Proof. exact ex_te_point. Qed.

(* the premises of the point theorems are satisfiable: F_7 as a subset type of Z with the
   transported Fp codec (C09/Instance.v), a finite point of y^2 = x^3 + 3 and of
   -x^2 + y^2 = 1 + 3 x^2 y^2 *)
Example C09_ex_point_hyps : point_hyps F7 C7 sqrt7 cmp7.
Proof. exact point_hyps_F7. Qed.
Example C09_ex_sw_premises :
  sw_valid_pt F7 (mk7 0) (mk7 3) (mkSW (mk7 1) (mk7 2) false) /\
  sw_valid_pt F7 (mk7 0) (mk7 3) (sw_identity F7).
Proof. exact ex_sw_premises. Qed.
Example C09_ex_te_premises :
  te_on_curve F7 (mk7 6) (mk7 3) (mkTE (mk7 2) (mk7 5)) = true /\ mk7 6 <> mk7 3.
Proof. exact ex_te_premises. Qed.
