(* C10 -- property theorems only: pinned statements, each closed by `exact`.
   Checked deserialization only yields valid group elements and never panics.
   Models: coq/C10/Model.v on top of the C09 codecs (coq/C09/{Bytes,FpCodec,PointCodec}.v).
   `dec_ok size bs o` (C10/Proofs.v): o is an error, or a value together with the unread rest
   after consuming exactly `size` bytes of bs; never Panic.
   Premises: CodecOK of the base-field codec (proved for Fp and every tower in C09:
   C09_fp_codec, C09_ext_quad, C09_ext_cubic); a non-empty COFACTOR slice; for statements about
   the curve equation, field_theory / feqb / sqrt specification of the base field. *)
From Coq Require Import Field_theory.
From V Require Import Base.Field C09.Bytes C09.FpCodec C09.PointCodec C09.Specs C09.Exec C09.FpCodecProofs.
From V Require C09.Instance.
From V Require Import C10.Model C10.Proofs C10.ZcProofs C10.Instance.

(* ================= dec_total: Ok or Err, never Panic, exactly `size` bytes read ================= *)
(* field elements (any codec meeting CodecOK: Fp, Fq2, Fq6, Fq12, ...) *)
Theorem C10_field_dec_total : forall K (C : Codec K) valid, CodecOK C valid ->
  forall bs, dec_ok (c_sizep C) bs (c_decp C bs).
Proof. exact (@field_dec_total). Qed.
Theorem C10_fq12_dec_total : forall N p, fp_cfg_ok N p ->
  forall bs, let C := quad_codec (cubic_codec (quad_codec (fp_codec N p))) in dec_ok (c_sizep C) bs (c_decp C bs).
Proof.
  exact (fun N p H => field_dec_total _ _
           (quad_codec_ok _ _ _ (cubic_codec_ok _ _ _ (quad_codec_ok _ _ _ (fp_codec_ok N p H))))).
Qed.

(* short Weierstrass, affine and projective, all 4 modes; the `flags.is_positive().unwrap()` and
   `COFACTOR[0]` panics of the model are unreachable *)
Theorem C10_sw_dec_total : forall K (F : Fops K) (C : Codec K) valid sqrt cmp, CodecOK C valid ->
  forall ca cb cof r bs compress validate, cof <> [] ->
  dec_ok (sw_size C compress) bs (sw_dec10 F C sqrt cmp ca cb cof r bs compress validate).
Proof. exact (@sw_dec10_total). Qed.
Theorem C10_swj_dec_total : forall K (F : Fops K) (C : Codec K) valid sqrt cmp, CodecOK C valid ->
  forall ca cb cof r bs compress validate, cof <> [] ->
  dec_ok (sw_size C compress) bs (swj_dec10 F C sqrt cmp ca cb cof r bs compress validate).
Proof. exact (@swj_dec10_total). Qed.
(* the model with explicit panics is the panic-free C09 codec (whose round-trip theorems apply) *)
Theorem C10_sw_dec_is_C09 : forall K (F : Fops K) (C : Codec K) sqrt cmp ca cb cof r bs compress validate,
  cof <> [] ->
  sw_dec10 F C sqrt cmp ca cb cof r bs compress validate =
  sw_dec F C sqrt cmp ca cb (sw_in_subgroup10 F ca cof r) bs compress validate.
Proof. exact (@sw_dec10_eq). Qed.
Theorem C10_cofactor_index_safe : forall cof, cof <> [] -> exists b, cofactor_is_one cof = Ok b.
Proof. exact cofactor_is_one_ok. Qed.

(* twisted Edwards *)
Theorem C10_te_dec_total : forall K (F : Fops K) (C : Codec K) valid sqrt cmp, CodecOK C valid ->
  forall r ta td bs compress validate,
  dec_ok (te_size C compress) bs (te_dec10 F C sqrt cmp r ta td bs compress validate).
Proof. exact (@te_dec10_total). Qed.
Theorem C10_tep_dec_total : forall K (F : Fops K) (C : Codec K) valid sqrt cmp, CodecOK C valid ->
  forall r ta td bs compress validate,
  dec_ok (te_size C compress) bs (tep_dec10 F C sqrt cmp r ta td bs compress validate).
Proof. exact (@tep_dec10_total). Qed.

(* PairingOutput *)
Theorem C10_po_dec_total : forall K (F : Fops K) (C : Codec K) valid, CodecOK C valid ->
  forall r bs validate, dec_ok (c_sizep C) bs (po_dec F C r bs validate).
Proof. exact (@po_dec_total). Qed.

(* curves/bls12_381 override (any byte width nb >= 1 per coordinate, d >= 1 coordinates; the shipped
   instance is nb = 48, d = 1 | 2): `bytes[0]`, the slice ranges of read_bytes_with_offset and
   remove_flags are in range *)
Theorem C10_zc_dec_total : forall K (F : Fops K) sqrt cmp cb p nb d r, (1 <= nb)%nat -> (1 <= d)%nat ->
  forall bs compress validate,
  dec_ok (zc_size nb d compress) bs (zc_dec F sqrt cmp cb p nb d r bs compress validate).
Proof. exact (@zc_dec_total). Qed.
Theorem C10_zcj_dec_total : forall K (F : Fops K) sqrt cmp cb p nb d r, (1 <= nb)%nat -> (1 <= d)%nat ->
  forall bs compress validate,
  dec_ok (zc_size nb d compress) bs (zcj_dec F sqrt cmp cb p nb d r bs compress validate).
Proof. exact (@zcj_dec_total). Qed.

(* ================= truncation: every length below `size` is an error, in every mode ================= *)
Theorem C10_sw_dec_short : forall K (F : Fops K) (C : Codec K) valid sqrt cmp, CodecOK C valid ->
  forall ca cb cof r bs compress validate, cof <> [] ->
  Z.of_nat (length bs) < sw_size C compress ->
  exists e, sw_dec10 F C sqrt cmp ca cb cof r bs compress validate = Err e.
Proof. exact (@sw_dec10_short). Qed.
Theorem C10_te_dec_short : forall K (F : Fops K) (C : Codec K) valid sqrt cmp, CodecOK C valid ->
  forall r ta td bs compress validate, Z.of_nat (length bs) < te_size C compress ->
  exists e, te_dec10 F C sqrt cmp r ta td bs compress validate = Err e.
Proof. exact (@te_dec10_short). Qed.
Theorem C10_po_dec_short : forall K (F : Fops K) (C : Codec K) valid, CodecOK C valid ->
  forall r bs validate, Z.of_nat (length bs) < c_sizep C -> exists e, po_dec F C r bs validate = Err e.
Proof. exact (@po_dec_short). Qed.
Theorem C10_zc_dec_short : forall K (F : Fops K) sqrt cmp cb p nb d r, (1 <= nb)%nat -> (1 <= d)%nat ->
  forall bs compress validate, Z.of_nat (length bs) < zc_size nb d compress ->
  zc_dec F sqrt cmp cb p nb d r bs compress validate = Err E_InvalidData.
Proof. exact (@zc_dec_short). Qed.

(* ================= checked_valid: what Validate::Yes guarantees of a returned value ================= *)
(* SW: the identity, or a finite point that passed is_on_curve and the subgroup test ... *)
Theorem C10_checked_sw_valid : forall K (F : Fops K) (C : Codec K) sqrt cmp ca cb cof r bs compress P rest,
  cof <> [] ->
  sw_dec10 F C sqrt cmp ca cb cof r bs compress true = Ok (P, rest) ->
  P = sw_identity F \/
  (sinf P = false /\ sw_on_curve F ca cb P = true /\ sw_subgroup10 F ca cof r P = Ok true).
Proof. exact (@sw_dec10_checked). Qed.
(* ... where the subgroup test's `true` means cofactor one, or r * P = O by double-and-add ... *)
Theorem C10_sw_subgroup_meaning : forall K (F : Fops K) ca cof r (P : @swaff K),
  sw_subgroup10 F ca cof r P = Ok true ->
  cofactor_is_one cof = Ok true \/ sinf P = true \/
  gmul (swa_add F ca) None r (Some (sx P, sy P)) = None.
Proof. exact (@sw_subgroup10_true). Qed.
(* ... and is_on_curve's `true` is the curve equation (base field a field, feqb decides equality) *)
Theorem C10_sw_on_curve_equation : forall K (F : Fops K),
  field_theory (f0 F) (f1 F) (fadd F) (fmul F) (fsub F) (fneg F) (fun a b => fmul F a (finv F b)) (finv F) eq ->
  (forall a b, feqb F a b = true <-> a = b) ->
  forall ca cb x y,
  sw_on_curve F ca cb (mkSW x y false) = true <->
  fmul F y y = fadd F (fadd F (fmul F (fmul F x x) x) (fmul F ca x)) cb.
Proof. exact (@sw_on_curve_eqn). Qed.
(* double-and-add computes the n-fold sum, for any associative law *)
Theorem C10_double_and_add_spec : forall G (add : G -> G -> G),
  (forall a b c, add a (add b c) = add (add a b) c) ->
  forall n P, gmul_pos add n P = nsum1 add (Pos.to_nat n - 1) P.
Proof. exact (@gmul_pos_spec). Qed.

Theorem C10_checked_te_valid : forall K (F : Fops K) (C : Codec K) sqrt cmp r ta td bs compress P rest,
  te_dec10 F C sqrt cmp r ta td bs compress true = Ok (P, rest) ->
  te_on_curve F ta td P = true /\
  (let '(x', y') := gmul (tea_add F ta td) (f0 F, f1 F) r (tx P, ty P) in
   feqb F x' (f0 F) && feqb F y' (f1 F)) = true.
Proof. exact (@te_dec10_checked). Qed.
Theorem C10_te_on_curve_equation : forall K (F : Fops K),
  field_theory (f0 F) (f1 F) (fadd F) (fmul F) (fsub F) (fneg F) (fun a b => fmul F a (finv F b)) (finv F) eq ->
  (forall a b, feqb F a b = true <-> a = b) ->
  forall ta td x y,
  te_on_curve F ta td (mkTE x y) = true <->
  fadd F (fmul F ta (fmul F x x)) (fmul F y y) = fadd F (f1 F) (fmul F (fmul F td (fmul F x x)) (fmul F y y)).
Proof. exact (@te_on_curve_eqn). Qed.

(* checked_fp_reduced: a decoded field element is below the modulus (every coordinate, in towers) *)
Theorem C10_checked_fp_reduced : forall N p FT bs v f rest, fp_cfg_ok N p -> FlagOK FT -> bytes_ok bs ->
  fp_dec N p FT bs = Ok (v, f, rest) -> 0 <= v < p.
Proof. exact fp_dec_reduced. Qed.
Theorem C10_checked_tower_reduced : forall K (C : Codec K) valid, CodecOK C valid ->
  forall bs x rest, bytes_ok bs -> c_decp C bs = Ok (x, rest) -> valid x.
Proof. exact (@field_dec_valid). Qed.

(* pairing_output_checked: a returned target-group element satisfies x^r = 1 *)
Theorem C10_pairing_output_checked : forall K (F : Fops K) (C : Codec K) r bs x rest,
  po_dec F C r bs true = Ok (x, rest) -> feqb F (fpow F x r) (f1 F) = true.
Proof. exact (@po_dec_checked). Qed.
Theorem C10_pairing_output_rejected : forall K (F : Fops K) (C : Codec K) r bs x rest,
  c_decp C bs = Ok (x, rest) -> feqb F (fpow F x r) (f1 F) = false ->
  po_dec F C r bs true = Err E_InvalidData.
Proof. exact (@po_dec_rejects). Qed.

(* Valid::check of PairingOutput accepts EXACTLY the elements with x^r = 1 -- for every field dictionary F, hence for
   every target-field tower Run.v builds: Fp12 = 2-3-2 (BLS12, BN), Fp4 = 2-2 (MNT4) and Fp6 = 2 over 3 (CP6-782,
   BW6-761/767, MNT6).  x^r is the plain square-and-multiply `fpow` of Base.Field in that tower (no cyclotomic
   shortcut: a shortcut is only sound for inputs already known to lie in the cyclotomic subgroup, which is what the
   check has to establish) *)
Theorem C10_po_check_iff_order_divides_r : forall K (F : Fops K) r x,
  po_check F r x = Ok tt <-> feqb F (fpow F x r) (f1 F) = true.
Proof. exact (@po_check_iff). Qed.
Theorem C10_po_check_rejects_iff : forall K (F : Fops K) r x,
  po_check F r x = Err E_InvalidData <-> feqb F (fpow F x r) (f1 F) = false.
Proof. exact (@po_check_reject_iff). Qed.
Theorem C10_po_check_nopanic : forall K (F : Fops K) r x, po_check F r x <> Panic.
Proof. exact (@po_check_nopanic). Qed.
(* the same for the three towers the interpreter builds, spelled out (p, non-residues arbitrary) *)
Theorem C10_po_check_iff_fp6_2over3 : forall p nr3 r x,
  let F := QuadOps (CubicOps (ZpOps p) nr3) (0, 1 mod p, 0) in
  po_check F r x = Ok tt <-> feqb F (fpow F x r) (f1 F) = true.
Proof. exact (fun p nr3 r x => po_check_iff (QuadOps (CubicOps (ZpOps p) nr3) (0, 1 mod p, 0)) r x). Qed.
Theorem C10_po_check_iff_fp12 : forall p nr2 nr6 r x,
  let F := QuadOps (CubicOps (QuadOps (ZpOps p) nr2) nr6) ((0, 0), (1 mod p, 0), (0, 0)) in
  po_check F r x = Ok tt <-> feqb F (fpow F x r) (f1 F) = true.
Proof.
  exact (fun p nr2 nr6 r x =>
           po_check_iff (QuadOps (CubicOps (QuadOps (ZpOps p) nr2) nr6) ((0, 0), (1 mod p, 0), (0, 0))) r x).
Qed.
Theorem C10_po_check_iff_fp4 : forall p nr2 r x,
  let F := QuadOps (QuadOps (ZpOps p) nr2) (0, 1 mod p) in
  po_check F r x = Ok tt <-> feqb F (fpow F x r) (f1 F) = true.
Proof. exact (fun p nr2 r x => po_check_iff (QuadOps (QuadOps (ZpOps p) nr2) (0, 1 mod p)) r x). Qed.
(* ... where x^r = 1 is the r-fold product x * x * ... * x = 1 (associative multiplication, feqb decides equality) *)
Theorem C10_po_check_iff_r_fold_product : forall K (F : Fops K),
  (forall a b c, fmul F a (fmul F b c) = fmul F (fmul F a b) c) ->
  (forall a b, feqb F a b = true <-> a = b) ->
  forall r x, 0 < r ->
  (po_check F r x = Ok tt <-> nsum1 (fmul F) (Z.to_nat r - 1) x = f1 F).
Proof. exact (@po_check_iff_product). Qed.
(* validated deserialization returns x exactly when the bytes decode to x and x^r = 1; without validation it is the
   plain field decoder *)
Theorem C10_po_dec_accepts_iff : forall K (F : Fops K) (C : Codec K) r bs x rest,
  po_dec F C r bs true = Ok (x, rest) <-> c_decp C bs = Ok (x, rest) /\ feqb F (fpow F x r) (f1 F) = true.
Proof. exact (@po_dec_accepts_iff). Qed.
Theorem C10_po_dec_unchecked : forall K (F : Fops K) (C : Codec K) r bs, po_dec F C r bs false = c_decp C bs.
Proof. exact (@po_dec_unchecked). Qed.
(* totality on the 2-over-3 tower codec (CodecOK lifted through cubic then quadratic, C09) *)
Theorem C10_fq6_2over3_po_dec_total : forall N p, fp_cfg_ok N p ->
  forall (F : Fops (Z * Z * Z * (Z * Z * Z))) r bs validate,
  let C := quad_codec (cubic_codec (fp_codec N p)) in dec_ok (c_sizep C) bs (po_dec F C r bs validate).
Proof.
  exact (fun N p H F r bs validate =>
           po_dec_total F _ _ (quad_codec_ok _ _ _ (cubic_codec_ok _ _ _ (fp_codec_ok N p H))) r bs validate).
Qed.

(* bls12_381 override, the corrected behaviour (DEFECT-1: the Rust code omits the curve-equation test on
   the uncompressed path): with validation, curve equation and subgroup test both hold ... *)
Theorem C10_zc_checked_valid : forall K (F : Fops K) sqrt cmp cb p nb d r bs compress (P : @swaff K) rest,
  zc_dec F sqrt cmp cb p nb d r bs compress true = Ok (P, rest) ->
  sw_on_curve F (f0 F) cb P = true /\ zc_subgroup F r P = true.
Proof. exact (@zc_dec_checked). Qed.
(* ... and on the compressed path the curve equation holds by construction, whatever `validate` (this part is
   also true of the Rust code as it stands) *)
Theorem C10_zc_compressed_on_curve : forall K (F : Fops K) sqrt cmp cb p nb d r,
  field_theory (f0 F) (f1 F) (fadd F) (fmul F) (fsub F) (fneg F) (fun a b => fmul F a (finv F b)) (finv F) eq ->
  (forall a b, feqb F a b = true <-> a = b) ->
  (forall a y, sqrt a = Some y -> fmul F y y = a) ->
  forall bs validate (P : @swaff K) rest,
  zc_dec F sqrt cmp cb p nb d r bs true validate = Ok (P, rest) -> sw_on_curve F (f0 F) cb P = true.
Proof. exact (@zc_compressed_on_curve). Qed.
Theorem C10_zc_invalid_rejected : forall K (F : Fops K) sqrt cmp cb p nb d r bs (compress : bool) (P : @swaff K) rest,
  (if compress then zc_read_compressed F sqrt cmp cb p nb d bs else zc_read_uncompressed F p nb d bs) = Ok (P, rest) ->
  sw_on_curve F (f0 F) cb P && zc_subgroup F r P = false ->
  zc_dec F sqrt cmp cb p nb d r bs compress true = Err E_InvalidData.
Proof. exact (@zc_invalid_rejected). Qed.
(* infinity must be encoded all-zero *)
Theorem C10_zc_infinity_canonical : forall K (F : Fops K) sqrt cmp cb p nb d r bs bytes rest c s cs validate,
  read_exact (nb * d) bs = Some (bytes, rest) ->
  zc_get_flags bytes = Ok (c, true, s) -> zc_chunks nb bytes 0 d = Ok cs ->
  forallb all_zero cs = false ->
  zc_dec F sqrt cmp cb p nb d r bs true validate = Err E_InvalidData \/
  zc_dec F sqrt cmp cb p nb d r bs true validate = Err E_UnexpectedFlags.
Proof. exact (@zc_infinity_canonical). Qed.

(* ================= rejection ================= *)
(* compressed_no_root_rejected: g(x) is not a square => InvalidData, validating or not *)
Theorem C10_compressed_no_root_rejected : forall K (F : Fops K) (C : Codec K) sqrt cmp ca cb cof r bs x fl rest validate,
  cof <> [] -> (forall a s, sqrt a = Some s -> fmul F s s = a) ->
  c_dec C SWFlags bs = Ok (x, fl, rest) -> fl <> PointAtInfinity ->
  (forall y, fmul F y y <> sw_rhs F ca cb x) ->
  sw_dec10 F C sqrt cmp ca cb cof r bs true validate = Err E_InvalidData.
Proof.
  exact (fun K F C sqrt cmp ca cb cof r bs x fl rest validate Hc Hs Hd Hfl Hn =>
           sw_compressed_no_root_rejected F C sqrt cmp ca cb cof r bs x fl rest validate Hc Hd Hfl
             (sw_no_root F sqrt Hs ca cb x Hn)).
Qed.
Theorem C10_te_compressed_no_root_rejected : forall K (F : Fops K) (C : Codec K) sqrt cmp r ta td bs y fl rest validate,
  c_dec C TEFlags bs = Ok (y, fl, rest) -> te_get_xs F sqrt cmp ta td y = None ->
  te_dec10 F C sqrt cmp r ta td bs true validate = Err E_InvalidData.
Proof. exact (@te_compressed_no_root_rejected). Qed.
(* offcurve_rejected / outside_subgroup_rejected: whatever coordinates the first stage read *)
Theorem C10_offcurve_rejected : forall K (F : Fops K) (C : Codec K) sqrt cmp ca cb cof r bs x y fl rest compress,
  cof <> [] -> sw_stage1 F C sqrt cmp ca cb bs compress = Ok (x, y, fl, rest) -> fl <> PointAtInfinity ->
  sw_on_curve F ca cb (mkSW x y false) = false ->
  sw_dec10 F C sqrt cmp ca cb cof r bs compress true = Err E_InvalidData.
Proof. exact (@sw_offcurve_rejected). Qed.
Theorem C10_outside_subgroup_rejected : forall K (F : Fops K) (C : Codec K) sqrt cmp ca cb cof r bs x y fl rest compress,
  cof <> [] -> sw_stage1 F C sqrt cmp ca cb bs compress = Ok (x, y, fl, rest) -> fl <> PointAtInfinity ->
  sw_subgroup10 F ca cof r (mkSW x y false) = Ok false ->
  sw_dec10 F C sqrt cmp ca cb cof r bs compress true = Err E_InvalidData.
Proof. exact (@sw_outside_subgroup_rejected). Qed.
Theorem C10_te_invalid_rejected : forall K (F : Fops K) (C : Codec K) sqrt cmp r ta td bs x y rest compress,
  te_stage1 F C sqrt cmp ta td bs compress = Ok (x, y, rest) ->
  te_on_curve F ta td (mkTE x y) && te_subgroup10 F r ta td (mkTE x y) = false ->
  te_dec10 F C sqrt cmp r ta td bs compress true = Err E_InvalidData.
Proof. exact (@te_invalid_rejected). Qed.

(* ================= Valid::check / batch_check ================= *)
Theorem C10_sw_check_nopanic : forall K (F : Fops K) ca cb cof r (P : @swaff K), cof <> [] ->
  sw_check10 F ca cb cof r P <> Panic.
Proof. exact (@sw_check10_nopanic). Qed.
Theorem C10_batch_check_spec : forall A (check : A -> res unit) l,
  batch_check check l = Ok tt <-> Forall (fun x => check x = Ok tt) l.
Proof. exact (@batch_check_ok). Qed.
Theorem C10_batch_check_nopanic : forall A (check : A -> res unit) l,
  (forall x, check x <> Panic) -> batch_check check l <> Panic.
Proof. exact (@batch_check_nopanic). Qed.
Theorem C10_batch_check_first_error : forall A (check : A -> res unit) l1 x l2 e,
  Forall (fun y => check y = Ok tt) l1 -> check x = Err e -> batch_check check (l1 ++ x :: l2) = Err e.
Proof. exact (@batch_check_first_err). Qed.

(* ================= Examples: the premises are satisfiable, on concrete inputs ================= *)
(* CodecOK holds for Fp<_, 1> with p = 59 (C09_fp_codec), the cofactor slice [2] is non-empty *)
Example C10_ex_premises : fp_cfg_ok 1 59 /\ [2] <> @nil Z /\ CodecOK (fp_codec 1 59) (fun v => 0 <= v < 59).
Proof. exact (conj (proj1 ex_cfg59) (conj (proj2 ex_cfg59) (fp_codec_ok 1 59 (proj1 ex_cfg59)))). Qed.
(* y^2 = x^3 + x + 17 over F_59, r = 29, h = 2: valid / outside subgroup / off curve / no root / flags / >= p / truncated *)
Example C10_ex_sw_modes :
  dec59 [46; 99] true true = Ok (mkSW 46 7 false, [99]) /\
  dec59 [46; 7; 99] false true = Ok (mkSW 46 7 false, [99]) /\
  dec59 [64] true true = Ok (sw_identity F59, []) /\
  dec59 [2; 26] false true = Err E_InvalidData /\
  dec59 [2; 26] false false = Ok (mkSW 2 26 false, []) /\
  sw_on_curve F59 1 17 (mkSW 2 26 false) = true /\
  sw_subgroup10 F59 1 [2] 29 (mkSW 2 26 false) = Ok false /\
  dec59 [46; 8] false true = Err E_InvalidData /\
  sw_on_curve F59 1 17 (mkSW 46 8 false) = false /\
  dec59 [3] true false = Err E_InvalidData /\ sq59 (sw_rhs F59 1 17 3) = None /\
  dec59 [46 + 192] true true = Err E_UnexpectedFlags /\
  dec59 [59] true true = Err E_InvalidData /\
  dec59 [] true true = Err E_Io /\ dec59 [46] false true = Err E_Io.
Proof. exact ex_sw_modes. Qed.
Example C10_ex_stage1 :
  sw_stage1 F59 C59 sq59 Z.compare 1 17 [2; 26] false = Ok (2, 26, YIsPositive, []) /\
  sw_stage1 F59 C59 sq59 Z.compare 1 17 [46; 8] false = Ok (46, 8, YIsPositive, []) /\
  c_dec C59 SWFlags [3] = Ok (3, YIsPositive, []).
Proof. exact ex_stage1. Qed.
Example C10_ex_te_modes :
  tdec127 [65; 90] false true = Ok (mkTE 65 90, []) /\
  tdec127 [90 + 128; 5] true true = Ok (mkTE 65 90, [5]) /\
  tdec127 [0; 126] false true = Err E_InvalidData /\
  tdec127 [0; 126] false false = Ok (mkTE 0 126, []) /\
  te_stage1 F127 C127 sq127 Z.compare 1 10 [0; 126] false = Ok (0, 126, []) /\
  te_on_curve F127 1 10 (mkTE 0 126) && te_subgroup10 F127 31 1 10 (mkTE 0 126) = false /\
  tdec127 [65] false true = Err E_Io.
Proof. exact ex_te_modes. Qed.
Example C10_ex_pairing_output :
  po_dec F59 C59 29 [3; 9] true = Ok (3, [9]) /\ fpow F59 3 29 = 1 /\
  po_dec F59 C59 29 [2] true = Err E_InvalidData /\ po_dec F59 C59 29 [2] false = Ok (2, []) /\
  c_decp C59 [2] = Ok (2, []) /\ feqb F59 (fpow F59 2 29) (f1 F59) = false /\
  po_dec F59 C59 29 [] true = Err E_Io.
Proof. exact ex_po. Qed.
(* toy target field of the CP6-782 / BW6 / MNT6 shape: F_7^6 = F_343[v]/(v^2 - u), F_343 = F_7[u]/(u^3 - 3), r = 43 =
   7^2 - 7 + 1: g of order 43 is accepted; x of order 19 in the SUBFIELD F_343 (last three coordinates zero), g * x, -1
   and 0 are rejected when validating *)
Example C10_ex_pairing_output_2over3 :
  let g := ((6, 3, 6), (5, 6, 0)) in let x := ((1, 3, 1), (0, 0, 0)) in
  po_check F7s 43 g = Ok tt /\ fpow F7s g 43 = f1 F7s /\
  po_check F7s 43 x = Err E_InvalidData /\ fpow F7s x 19 = f1 F7s /\ fpow F7s x 43 = ((1, 6, 6), (0, 0, 0)) /\
  po_check F7s 43 (fmul F7s g x) = Err E_InvalidData /\
  po_check F7s 43 (f1 F7s) = Ok tt /\ po_check F7s 43 (fneg F7s (f1 F7s)) = Err E_InvalidData /\
  po_check F7s 43 (f0 F7s) = Err E_InvalidData /\
  po_dec F7s C7s 43 [6; 3; 6; 5; 6; 0; 77] true = Ok (g, [77]) /\
  po_dec F7s C7s 43 [1; 3; 1; 0; 0; 0] true = Err E_InvalidData /\
  po_dec F7s C7s 43 [1; 3; 1; 0; 0; 0] false = Ok (x, []) /\
  po_dec F7s C7s 43 [6; 4; 0; 2; 0; 2] true = Err E_InvalidData /\
  po_dec F7s C7s 43 [6; 3; 6; 5; 6] true = Err E_Io.
Proof. exact ex_po_2over3. Qed.
Example C10_ex_zcash :
  zdec13 [128 + 32 + 7; 200] true true = Ok (mkSW 7 8 false, [200]) /\
  zdec13 [7; 8] false true = Ok (mkSW 7 8 false, []) /\
  zdec13 [128 + 64] true true = Ok (sw_identity F13, []) /\
  zdec13 [128 + 64 + 1] true true = Err E_InvalidData /\
  zdec13 [7] true true = Err E_UnexpectedFlags /\
  zdec13 [32 + 7; 8] false true = Err E_InvalidData /\
  zdec13 [128 + 13] true true = Err E_InvalidData /\
  zdec13 [] true true = Err E_InvalidData /\ zdec13 [7] false true = Err E_InvalidData.
Proof. exact ex_zc. Qed.
(* DEFECT-1 in miniature: (s^2 x, s^3 y) passes the subgroup test without being on the curve *)
Example C10_ex_zcash_defect1_shape :
  zc_subgroup F13 7 (mkSW 2 12 false) = true /\
  sw_on_curve F13 0 7 (mkSW 2 12 false) = false /\
  zc_read_uncompressed F13 13 1 1 [2; 12] = Ok (mkSW 2 12 false, []) /\
  zdec13 [2; 12] false true = Err E_InvalidData /\
  zdec13 [2; 12] false false = Ok (mkSW 2 12 false, []).
Proof. exact ex_zc_defect1_shape. Qed.
Example C10_ex_batch :
  let ck := sw_check10 F59 1 17 [2] 29 in
  batch_check ck [mkSW 46 7 false; sw_identity F59; mkSW 46 52 false] = Ok tt /\
  batch_check ck [mkSW 46 7 false; mkSW 2 26 false; mkSW 46 8 false] = Err E_InvalidData /\
  cofactor_is_one [] = Panic /\ cofactor_is_one [1; 0] = Ok true /\ cofactor_is_one [2] = Ok false.
Proof. exact ex_batch. Qed.
(* the field hypotheses of the equation theorems are satisfiable: F_7 of C09.Instance *)
Example C10_ex_field_hyps : point_hyps V.C09.Instance.F7 V.C09.Instance.C7 V.C09.Instance.sqrt7 V.C09.Instance.cmp7.
Proof. exact V.C09.Instance.point_hyps_F7. Qed.
