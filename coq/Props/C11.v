(* C11 -- property theorems only: pinned statements, each closed by `exact`.
   Every theorem quantifies over an arbitrary field (carrier K with Leibniz equality, the
   operations, a `field_theory` proof and a boolean equality test): prime fields and the
   quadratic / cubic extensions are instances.  The number-theoretic premises
   (Fermat's little theorem for the field with q - 1 = 2^s (2 tm + 1); z of exact order 2^s;
   the tower non-residue is a non-square) are explicit; the Examples at the end prove all
   of them for GF(13) / GF(7), so no statement is vacuous. *)
From Coq Require Import ZArith List Bool Field.
From V Require Import Base.Word C15.BigIntModel C11.SqrtModel C11.SqrtProofs C11.QuadProofs C11.TowerProofs C11.SmallFields
  C11.ConstModel C11.ConstProofs.
Open Scope Z_scope.

(* ---------- soundness: a reported root squares to x (every variant, no hypotheses on the constants) ---------- *)
Theorem C11_tonelli_shanks_sound :
  forall (K : Type) (zero one : K) (add sub mul : K -> K -> K) (neg inv : K -> K) (div : K -> K -> K)
         (eqb : K -> K -> bool),
  field_theory zero one add mul sub neg div inv eq -> (forall a b, eqb a b = true <-> a = b) ->
  forall (s : nat) (z : K) (tm : Z) (leg : K -> Z) (x y : K),
  sqrt_ts zero one mul eqb s z tm leg x = SqSome y -> mul y y = x.
Proof. exact (@ts_sound). Qed.

Theorem C11_case3mod4_sound :
  forall (K : Type) (one : K) (mul : K -> K -> K) (eqb : K -> K -> bool),
  (forall a b, eqb a b = true <-> a = b) ->
  forall (e : Z) (x y : K), sqrt_case3mod4 one mul eqb e x = SqSome y -> mul y y = x.
Proof. exact (@case3mod4_sound). Qed.

(* ---------- zero has root zero ---------- *)
Theorem C11_tonelli_shanks_zero :
  forall (K : Type) (zero one : K) (mul : K -> K -> K) (eqb : K -> K -> bool),
  (forall a b, eqb a b = true <-> a = b) ->
  forall (s : nat) (z : K) (tm : Z) (leg : K -> Z), sqrt_ts zero one mul eqb s z tm leg zero = SqSome zero.
Proof. exact (@ts_zero). Qed.

Theorem C11_case3mod4_zero :
  forall (K : Type) (zero one : K) (add sub mul : K -> K -> K) (neg inv : K -> K) (div : K -> K -> K)
         (eqb : K -> K -> bool),
  field_theory zero one add mul sub neg div inv eq -> (forall a b, eqb a b = true <-> a = b) ->
  forall e : Z, 0 < e -> sqrt_case3mod4 one mul eqb e zero = SqSome zero.
Proof. exact (@case3mod4_zero). Qed.

(* ---------- Tonelli-Shanks is exact: for EVERY x the loops terminate within fuel = two_adicity,
   nothing panics, and the answer is Some (a root) when x is a square, None when it is not ---------- *)
Theorem C11_tonelli_shanks_exact :
  forall (K : Type) (zero one : K) (add sub mul : K -> K -> K) (neg inv : K -> K) (div : K -> K -> K)
         (eqb : K -> K -> bool),
  field_theory zero one add mul sub neg div inv eq -> (forall a b, eqb a b = true <-> a = b) ->
  forall (s : nat) (tm : Z) (z : K),
  (1 <= s)%nat -> 0 <= tm ->
  (forall x, x <> zero -> pow one mul x (2 ^ Z.of_nat s * (2 * tm + 1)) = one) ->
  sqn mul (s - 1) z = neg one ->
  forall (leg : K -> Z) (a : K),
  (exists y, sqrt_ts zero one mul eqb s z tm leg a = SqSome y /\ mul y y = a) \/
  (sqrt_ts zero one mul eqb s z tm leg a = SqNone /\ ~ is_sq mul a).
Proof. exact (@ts_total). Qed.

Theorem C11_tonelli_shanks_complete :
  forall (K : Type) (zero one : K) (add sub mul : K -> K -> K) (neg inv : K -> K) (div : K -> K -> K)
         (eqb : K -> K -> bool),
  field_theory zero one add mul sub neg div inv eq -> (forall a b, eqb a b = true <-> a = b) ->
  forall (s : nat) (tm : Z) (z : K),
  (1 <= s)%nat -> 0 <= tm ->
  (forall x, x <> zero -> pow one mul x (2 ^ Z.of_nat s * (2 * tm + 1)) = one) ->
  sqn mul (s - 1) z = neg one ->
  forall (leg : K -> Z) (a : K), is_sq mul a ->
  exists y, sqrt_ts zero one mul eqb s z tm leg a = SqSome y /\ mul y y = a.
Proof. exact (@ts_complete). Qed.

Theorem C11_tonelli_shanks_nonresidue_none :
  forall (K : Type) (zero one : K) (add sub mul : K -> K -> K) (neg inv : K -> K) (div : K -> K -> K)
         (eqb : K -> K -> bool),
  field_theory zero one add mul sub neg div inv eq -> (forall a b, eqb a b = true <-> a = b) ->
  forall (s : nat) (tm : Z) (z : K),
  (1 <= s)%nat -> 0 <= tm ->
  (forall x, x <> zero -> pow one mul x (2 ^ Z.of_nat s * (2 * tm + 1)) = one) ->
  sqn mul (s - 1) z = neg one ->
  forall (leg : K -> Z) (a : K), ~ is_sq mul a -> sqrt_ts zero one mul eqb s z tm leg a = SqNone.
Proof. exact (@ts_nonresidue_none). Qed.

(* ---------- Case3Mod4 (field with 4m - 1 elements, exponent (q+1)/4 = m) is exact ---------- *)
Theorem C11_case3mod4_exact :
  forall (K : Type) (zero one : K) (add sub mul : K -> K -> K) (neg inv : K -> K) (div : K -> K -> K)
         (eqb : K -> K -> bool),
  field_theory zero one add mul sub neg div inv eq -> (forall a b, eqb a b = true <-> a = b) ->
  forall m : Z, 0 < m ->
  (forall x, x <> zero -> pow one mul x (4 * m - 2) = one) ->
  forall a : K,
  (exists y, sqrt_case3mod4 one mul eqb m a = SqSome y /\ mul y y = a) \/
  (sqrt_case3mod4 one mul eqb m a = SqNone /\ ~ is_sq mul a).
Proof. exact (@case3mod4_total). Qed.

(* ---------- Legendre symbol = Euler's criterion, and it classifies squares exactly ---------- *)
Theorem C11_legendre_euler :
  forall (K : Type) (zero one : K) (add sub mul : K -> K -> K) (neg inv : K -> K) (div : K -> K -> K)
         (eqb : K -> K -> bool),
  field_theory zero one add mul sub neg div inv eq -> (forall a b, eqb a b = true <-> a = b) ->
  forall (s : nat) (tm : Z) (z : K),
  (1 <= s)%nat -> 0 <= tm ->
  (forall x, x <> zero -> pow one mul x (2 ^ Z.of_nat s * (2 * tm + 1)) = one) ->
  sqn mul (s - 1) z = neg one ->
  forall x : K,
  (x = zero /\ legendre_pow zero one mul eqb (2 ^ Z.of_nat (s - 1) * (2 * tm + 1)) x = 0) \/
  (x <> zero /\ is_sq mul x /\ legendre_pow zero one mul eqb (2 ^ Z.of_nat (s - 1) * (2 * tm + 1)) x = 1) \/
  (~ is_sq mul x /\ legendre_pow zero one mul eqb (2 ^ Z.of_nat (s - 1) * (2 * tm + 1)) x = -1).
Proof. exact (@legendre_euler). Qed.

(* ---------- quadratic extension ---------- *)
(* soundness for every input, given only that the base-field sqrt is sound and nr is a non-square *)
Theorem C11_quad_sqrt_sound :
  forall (B : Type) (zero one : B) (add sub mul : B -> B -> B) (neg inv : B -> B) (div : B -> B -> B)
         (eqb : B -> B -> bool),
  field_theory zero one add mul sub neg div inv eq -> (forall a b, eqb a b = true <-> a = b) ->
  forall (nr two_inv : B) (bsqrt : B -> sqrt_res B) (bleg : B -> Z),
  (forall a y, bsqrt a = SqSome y -> mul y y = a) ->
  ~ is_sq mul nr ->
  forall (a y : B * B),
  quad_sqrt zero add sub mul inv eqb nr two_inv bsqrt bleg a = SqSome y -> q_mul add mul nr y y = a.
Proof. exact (@quad_sqrt_sound). Qed.

(* exactness over a Tonelli-Shanks base field: c1 = 0 branch and complex method, neither `expect`
   nor the debug assertion can fire, Some iff the element is a square of the extension *)
Theorem C11_quad_sqrt_exact_over_tonelli_shanks :
  forall (B : Type) (zero one : B) (add sub mul : B -> B -> B) (neg inv : B -> B) (div : B -> B -> B)
         (eqb : B -> B -> bool),
  field_theory zero one add mul sub neg div inv eq -> (forall a b, eqb a b = true <-> a = b) ->
  forall (nr two_inv : B), ~ is_sq mul nr -> mul (add one one) two_inv = one ->
  forall (s : nat) (tm : Z) (z : B),
  (1 <= s)%nat -> 0 <= tm ->
  (forall x, x <> zero -> pow one mul x (2 ^ Z.of_nat s * (2 * tm + 1)) = one) ->
  sqn mul (s - 1) z = neg one ->
  forall a : B * B,
  let bleg := legendre_pow zero one mul eqb (2 ^ Z.of_nat (s - 1) * (2 * tm + 1)) in
  let bsqrt := sqrt_ts zero one mul eqb s z tm bleg in
  (exists y, quad_sqrt zero add sub mul inv eqb nr two_inv bsqrt bleg a = SqSome y /\ q_mul add mul nr y y = a) \/
  (quad_sqrt zero add sub mul inv eqb nr two_inv bsqrt bleg a = SqNone /\ ~ is_sq2 add mul nr a).
Proof. exact (@quad_over_ts_total). Qed.

(* the same over a base field with q = 4m - 1 elements (Case3Mod4): bls12_381 / bn254 Fq2 *)
Theorem C11_quad_sqrt_exact_over_case3mod4 :
  forall (B : Type) (zero one : B) (add sub mul : B -> B -> B) (neg inv : B -> B) (div : B -> B -> B)
         (eqb : B -> B -> bool),
  field_theory zero one add mul sub neg div inv eq -> (forall a b, eqb a b = true <-> a = b) ->
  forall (nr two_inv : B), ~ is_sq mul nr -> mul (add one one) two_inv = one ->
  forall m : Z, 0 < m ->
  (forall x, x <> zero -> pow one mul x (4 * m - 2) = one) ->
  forall a : B * B,
  let bleg := legendre_pow zero one mul eqb (2 * m - 1) in
  let bsqrt := sqrt_case3mod4 one mul eqb m in
  (exists y, quad_sqrt zero add sub mul inv eqb nr two_inv bsqrt bleg a = SqSome y /\ q_mul add mul nr y y = a) \/
  (quad_sqrt zero add sub mul inv eqb nr two_inv bsqrt bleg a = SqNone /\ ~ is_sq2 add mul nr a).
Proof. exact (@quad_over_3mod4_total). Qed.

(* generic form: any base-field sqrt / legendre that is sound, complete, total and exact *)
Theorem C11_quad_sqrt_exact_generic :
  forall (B : Type) (zero one : B) (add sub mul : B -> B -> B) (neg inv : B -> B) (div : B -> B -> B)
         (eqb : B -> B -> bool),
  field_theory zero one add mul sub neg div inv eq -> (forall a b, eqb a b = true <-> a = b) ->
  forall (nr two_inv : B) (bsqrt : B -> sqrt_res B) (bleg : B -> Z),
  (forall a y, bsqrt a = SqSome y -> mul y y = a) ->
  (forall a, is_sq mul a -> exists y, bsqrt a = SqSome y) ->
  (forall a, (exists y, bsqrt a = SqSome y) \/ bsqrt a = SqNone) ->
  (forall a, (a = zero /\ bleg a = 0) \/ (a <> zero /\ is_sq mul a /\ bleg a = 1) \/ (~ is_sq mul a /\ bleg a = -1)) ->
  ~ is_sq mul nr ->
  (forall a b, ~ is_sq mul a -> ~ is_sq mul b -> is_sq mul (mul a b)) ->
  mul (add one one) two_inv = one ->
  forall a : B * B,
  (exists y, quad_sqrt zero add sub mul inv eqb nr two_inv bsqrt bleg a = SqSome y /\ q_mul add mul nr y y = a) \/
  (quad_sqrt zero add sub mul inv eqb nr two_inv bsqrt bleg a = SqNone /\ ~ is_sq2 add mul nr a).
Proof. exact (@quad_sqrt_total). Qed.

(* QuadExtField::legendre (= base-field legendre of the norm) is exact: 0 only at zero, 1 exactly on
   the non-zero squares of the extension, -1 exactly on its non-squares *)
Theorem C11_quad_legendre_exact_over_tonelli_shanks :
  forall (B : Type) (zero one : B) (add sub mul : B -> B -> B) (neg inv : B -> B) (div : B -> B -> B)
         (eqb : B -> B -> bool),
  field_theory zero one add mul sub neg div inv eq -> (forall a b, eqb a b = true <-> a = b) ->
  forall (nr two_inv : B), ~ is_sq mul nr -> mul (add one one) two_inv = one ->
  forall (s : nat) (tm : Z) (z : B),
  (1 <= s)%nat -> 0 <= tm ->
  (forall x, x <> zero -> pow one mul x (2 ^ Z.of_nat s * (2 * tm + 1)) = one) ->
  sqn mul (s - 1) z = neg one ->
  forall a : B * B,
  let bleg := legendre_pow zero one mul eqb (2 ^ Z.of_nat (s - 1) * (2 * tm + 1)) in
  (a = (zero, zero) /\ quad_legendre sub mul nr bleg a = 0) \/
  (a <> (zero, zero) /\ is_sq2 add mul nr a /\ quad_legendre sub mul nr bleg a = 1) \/
  (~ is_sq2 add mul nr a /\ quad_legendre sub mul nr bleg a = -1).
Proof. exact (@quad_legendre_over_ts). Qed.

Theorem C11_quad_legendre_exact_over_case3mod4 :
  forall (B : Type) (zero one : B) (add sub mul : B -> B -> B) (neg inv : B -> B) (div : B -> B -> B)
         (eqb : B -> B -> bool),
  field_theory zero one add mul sub neg div inv eq -> (forall a b, eqb a b = true <-> a = b) ->
  forall (nr two_inv : B), ~ is_sq mul nr -> mul (add one one) two_inv = one ->
  forall m : Z, 0 < m ->
  (forall x, x <> zero -> pow one mul x (4 * m - 2) = one) ->
  forall a : B * B,
  let bleg := legendre_pow zero one mul eqb (2 * m - 1) in
  (a = (zero, zero) /\ quad_legendre sub mul nr bleg a = 0) \/
  (a <> (zero, zero) /\ is_sq2 add mul nr a /\ quad_legendre sub mul nr bleg a = 1) \/
  (~ is_sq2 add mul nr a /\ quad_legendre sub mul nr bleg a = -1).
Proof. exact (@quad_legendre_over_3mod4). Qed.

(* ---------- curve-coordinate recovery ---------- *)
Theorem C11_ys_from_x :
  forall (K : Type) (zero one : K) (add sub mul : K -> K -> K) (neg inv : K -> K) (div : K -> K -> K)
         (eqb ltb : K -> K -> bool),
  field_theory zero one add mul sub neg div inv eq -> (forall a b, eqb a b = true <-> a = b) ->
  (forall a b, ltb a b = true -> ltb b a = false) ->
  forall ksqrt : K -> sqrt_res K,
  (forall a y, ksqrt a = SqSome y -> mul y y = a) ->
  (forall a, (exists y, ksqrt a = SqSome y) \/ (ksqrt a = SqNone /\ ~ is_sq mul a)) ->
  forall a b x : K,
  (exists y1 y2, ys_from_x zero add mul neg eqb ltb ksqrt a b x = SqSome (y1, y2) /\
      mul y1 y1 = add (add (mul (mul x x) x) (mul a x)) b /\ y2 = neg y1 /\ ltb y2 y1 = false /\
      (forall y, mul y y = add (add (mul (mul x x) x) (mul a x)) b -> y = y1 \/ y = y2)) \/
  (ys_from_x zero add mul neg eqb ltb ksqrt a b x = SqNone /\
      forall y, mul y y <> add (add (mul (mul x x) x) (mul a x)) b).
Proof. exact (@ys_from_x_spec). Qed.

Theorem C11_xs_from_y :
  forall (K : Type) (zero one : K) (add sub mul : K -> K -> K) (neg inv : K -> K) (div : K -> K -> K)
         (eqb ltb : K -> K -> bool),
  field_theory zero one add mul sub neg div inv eq -> (forall a b, eqb a b = true <-> a = b) ->
  (forall a b, ltb a b = true -> ltb b a = false) ->
  forall ksqrt : K -> sqrt_res K,
  (forall a y, ksqrt a = SqSome y -> mul y y = a) ->
  (forall a, (exists y, ksqrt a = SqSome y) \/ (ksqrt a = SqNone /\ ~ is_sq mul a)) ->
  forall a d y : K,
  (exists x1 x2, xs_from_y zero one sub mul neg inv eqb ltb ksqrt a d y = SqSome (x1, x2) /\
      sub a (mul (mul y y) d) <> zero /\
      add (mul a (mul x1 x1)) (mul y y) = add one (mul (mul d (mul x1 x1)) (mul y y)) /\
      x2 = neg x1 /\ ltb x2 x1 = false /\
      (forall x, add (mul a (mul x x)) (mul y y) = add one (mul (mul d (mul x x)) (mul y y)) -> x = x1 \/ x = x2)) \/
  (xs_from_y zero one sub mul neg inv eqb ltb ksqrt a d y = SqNone /\
      (sub a (mul (mul y y) d) = zero \/
       forall x, add (mul a (mul x x)) (mul y y) <> add one (mul (mul d (mul x x)) (mul y y)))).
Proof. exact (@xs_from_y_spec). Qed.

(* ---------- the precomputed constants: limb-level computation = integer definition, for EVERY limb count and
   limb pattern (p : any list of 64-bit limbs, little endian).  MODULUS_PLUS_ONE_DIV_FOUR is computed by
   const_add_with_carry(MODULUS, 1), divide_by_2_round_down, re-inserting the carry-out as the top bit, and
   divide_by_2_round_down again; the theorem includes the case MODULUS + 1 = 2^(64N) where the sum wraps to 0.
   `4 * val r - 1 = val p` is the premise shape of C11_case3mod4_exact (field with 4m - 1 elements, exponent m). ---------- *)
Theorem C11_modulus_plus_one_div_four_spec :
  forall p : list Z, wf p -> val p mod 4 = 3 ->
  exists r, modulus_plus_one_div_four p = Some r /\ wf r /\ length r = length p /\
            val r = (val p + 1) / 4 /\ 4 * val r - 1 = val p.
Proof. exact modulus_plus_one_div_four_spec. Qed.

Theorem C11_modulus_plus_one_div_four_none :
  forall p : list Z, wf p -> val p mod 4 <> 3 -> modulus_plus_one_div_four p = None.
Proof. exact modulus_plus_one_div_four_none. Qed.

(* TWO_ADICITY / TRACE / TRACE_MINUS_ONE_DIV_TWO / MODULUS_MINUS_ONE_DIV_TWO from the limbs of an odd modulus > 1:
   p - 1 = 2^s (2 tm + 1) is the premise shape of C11_tonelli_shanks_exact, (p-1)/2 = 2^(s-1) (2 tm + 1) the
   exponent of C11_legendre_euler *)
Theorem C11_two_adic_constants_spec :
  forall p : list Z, wf p -> val p mod 2 = 1 -> 1 < val p ->
  exists s t tm, two_adicity p = Some s /\ trace p = Some t /\ trace_minus_one_div_two p = Some tm /\
    wf t /\ wf tm /\ 1 <= s /\ val t mod 2 = 1 /\ val t = 2 * val tm + 1 /\ 0 <= val tm /\
    val p - 1 = 2 ^ s * (2 * val tm + 1) /\
    val (modulus_minus_one_div_two p) = (val p - 1) / 2 /\
    val (modulus_minus_one_div_two p) = 2 ^ (s - 1) * (2 * val tm + 1).
Proof. exact two_adic_constants_spec. Qed.

(* what run_C11 (op precomp_ok) compares with the SQRT_PRECOMP of the compiled configuration *)
Theorem C11_sqrt_precomp_of_modulus_3mod4 :
  forall (powm : Z -> Z -> Z) (p g : Z), 1 < p -> p mod 4 = 3 ->
  sqrt_precomp_of_modulus powm p g = Some [1; (p + 1) / 4].
Proof. exact sqrt_precomp_of_modulus_3mod4. Qed.

Theorem C11_sqrt_precomp_of_modulus_1mod4 :
  forall (powm : Z -> Z -> Z) (p g : Z), 1 < p -> p mod 4 = 1 ->
  exists s tm, sqrt_precomp_of_modulus powm p g = Some [2; s; powm g (2 * tm + 1); tm] /\
               1 <= s /\ 0 <= tm /\ p - 1 = 2 ^ s * (2 * tm + 1).
Proof. exact sqrt_precomp_of_modulus_1mod4. Qed.

(* satisfiable, including the wrap-around: the (non-prime) all-ones 2-limb value 2^128 - 1 gives 2^126; the
   Mersenne prime 2^127 - 1 (low limb all ones) gives 2^125; 3 limbs all ones below a non-trivial top limb *)
Example C11_ex_mp1d4_wrap :
  modulus_plus_one_div_four [18446744073709551615; 18446744073709551615] = Some [0; 4611686018427387904] /\
  modulus_plus_one_div_four [18446744073709551615; 9223372036854775807] = Some [0; 2305843009213693952] /\
  modulus_plus_one_div_four [18446744073709551615; 18446744073709551615; 18446744073709551615; 5] = Some [0; 0; 9223372036854775808; 1] /\
  modulus_plus_one_div_four [18446744073709551613; 7] = None.
Proof. vm_compute. repeat split; reflexivity. Qed.
Example C11_ex_two_adic_goldilocks :
  two_adicity [18446744069414584321] = Some 32 /\ trace [18446744069414584321] = Some [4294967295] /\
  trace_minus_one_div_two [18446744069414584321] = Some [2147483647].
Proof. vm_compute. repeat split; reflexivity. Qed.

(* ---------- non-vacuity: every premise above holds for GF(13) (s = 2, tm = 1, z = 8, tower nr = 2)
   and GF(7) (m = 2, tower nr = -1) ---------- *)
Example C11_ex_tonelli_shanks_GF13 : forall a : F13,
  (exists y, sqrt_ts F13_0 F13_1 F13_mul F13_eqb 2 F13_8 1 (fun _ => 0) a = SqSome y /\ F13_mul y y = a) \/
  (sqrt_ts F13_0 F13_1 F13_mul F13_eqb 2 F13_8 1 (fun _ => 0) a = SqNone /\ ~ is_sq F13_mul a).
Proof.
  exact (C11_tonelli_shanks_exact F13 F13_0 F13_1 F13_add F13_sub F13_mul F13_neg F13_inv F13_div F13_eqb
           F13_field F13_eqb_spec 2 1 F13_8 (le_S 1 1 (le_n 1)) (Z.le_0_1) F13_fermat F13_z_order (fun _ => 0)).
Qed.
Example C11_ex_sqrt_10_GF13 :
  sqrt_ts F13_0 F13_1 F13_mul F13_eqb 2 F13_8 1 (fun _ => 0) F13_10 = SqSome F13_7 /\
  sqrt_ts F13_0 F13_1 F13_mul F13_eqb 2 F13_8 1 (fun _ => 0) F13_2 = SqNone /\
  legendre_pow F13_0 F13_1 F13_mul F13_eqb 6 F13_10 = 1 /\ legendre_pow F13_0 F13_1 F13_mul F13_eqb 6 F13_2 = -1.
Proof. vm_compute. repeat split; reflexivity. Qed.
Example C11_ex_quad_GF13 : forall a : F13 * F13,
  let bleg := legendre_pow F13_0 F13_1 F13_mul F13_eqb (2 ^ Z.of_nat (2 - 1) * (2 * 1 + 1)) in
  let bsqrt := sqrt_ts F13_0 F13_1 F13_mul F13_eqb 2 F13_8 1 bleg in
  (exists y, quad_sqrt F13_0 F13_add F13_sub F13_mul F13_inv F13_eqb F13_2 F13_7 bsqrt bleg a = SqSome y /\
             q_mul F13_add F13_mul F13_2 y y = a) \/
  (quad_sqrt F13_0 F13_add F13_sub F13_mul F13_inv F13_eqb F13_2 F13_7 bsqrt bleg a = SqNone /\
   ~ is_sq2 F13_add F13_mul F13_2 a).
Proof.
  exact (C11_quad_sqrt_exact_over_tonelli_shanks F13 F13_0 F13_1 F13_add F13_sub F13_mul F13_neg F13_inv F13_div F13_eqb
           F13_field F13_eqb_spec F13_2 F13_7 F13_two_nonsquare F13_two_inv 2 1 F13_8 (le_S 1 1 (le_n 1)) (Z.le_0_1)
           F13_fermat F13_z_order).
Qed.
Example C11_ex_quad_GF7 : forall a : F7 * F7,
  let bleg := legendre_pow F7_0 F7_1 F7_mul F7_eqb (2 * 2 - 1) in
  let bsqrt := sqrt_case3mod4 F7_1 F7_mul F7_eqb 2 in
  (exists y, quad_sqrt F7_0 F7_add F7_sub F7_mul F7_inv F7_eqb F7_6 F7_4 bsqrt bleg a = SqSome y /\
             q_mul F7_add F7_mul F7_6 y y = a) \/
  (quad_sqrt F7_0 F7_add F7_sub F7_mul F7_inv F7_eqb F7_6 F7_4 bsqrt bleg a = SqNone /\
   ~ is_sq2 F7_add F7_mul F7_6 a).
Proof.
  exact (C11_quad_sqrt_exact_over_case3mod4 F7 F7_0 F7_1 F7_add F7_sub F7_mul F7_neg F7_inv F7_div F7_eqb
           F7_field F7_eqb_spec F7_6 F7_4 F7_minus_one_nonsquare F7_two_inv 2 (eq_refl : 0 < 2) F7_fermat3).
Qed.
Example C11_ex_quad_legendre_GF7 : forall a : F7 * F7,
  let bleg := legendre_pow F7_0 F7_1 F7_mul F7_eqb (2 * 2 - 1) in
  (a = (F7_0, F7_0) /\ quad_legendre F7_sub F7_mul F7_6 bleg a = 0) \/
  (a <> (F7_0, F7_0) /\ is_sq2 F7_add F7_mul F7_6 a /\ quad_legendre F7_sub F7_mul F7_6 bleg a = 1) \/
  (~ is_sq2 F7_add F7_mul F7_6 a /\ quad_legendre F7_sub F7_mul F7_6 bleg a = -1).
Proof.
  exact (C11_quad_legendre_exact_over_case3mod4 F7 F7_0 F7_1 F7_add F7_sub F7_mul F7_neg F7_inv F7_div F7_eqb
           F7_field F7_eqb_spec F7_6 F7_4 F7_minus_one_nonsquare F7_two_inv 2 (eq_refl : 0 < 2) F7_fermat3).
Qed.
Example C11_ex_quad_values_GF7 :
  let bleg := legendre_pow F7_0 F7_1 F7_mul F7_eqb 3 in
  let bsqrt := sqrt_case3mod4 F7_1 F7_mul F7_eqb 2 in
  (* (2+i)^2 = 3+4i ; 3 (a base non-residue) has the root 2i ; 1+3i (norm 3) is a non-square *)
  quad_sqrt F7_0 F7_add F7_sub F7_mul F7_inv F7_eqb F7_6 F7_4 bsqrt bleg (F7_3, F7_4) = SqSome (F7_2, F7_1) /\
  quad_sqrt F7_0 F7_add F7_sub F7_mul F7_inv F7_eqb F7_6 F7_4 bsqrt bleg (F7_3, F7_0) = SqSome (F7_0, F7_2) /\
  quad_sqrt F7_0 F7_add F7_sub F7_mul F7_inv F7_eqb F7_6 F7_4 bsqrt bleg (F7_1, F7_3) = SqNone.
Proof. vm_compute. repeat split; reflexivity. Qed.
Example C11_ex_ys_from_x_GF13 : forall a b x : F13,
  let ksqrt := sqrt_ts F13_0 F13_1 F13_mul F13_eqb 2 F13_8 1 (fun _ => 0) in
  (exists y1 y2, ys_from_x F13_0 F13_add F13_mul F13_neg F13_eqb F13_ltb ksqrt a b x = SqSome (y1, y2) /\
      F13_mul y1 y1 = F13_add (F13_add (F13_mul (F13_mul x x) x) (F13_mul a x)) b /\ y2 = F13_neg y1 /\
      F13_ltb y2 y1 = false /\
      (forall y, F13_mul y y = F13_add (F13_add (F13_mul (F13_mul x x) x) (F13_mul a x)) b -> y = y1 \/ y = y2)) \/
  (ys_from_x F13_0 F13_add F13_mul F13_neg F13_eqb F13_ltb ksqrt a b x = SqNone /\
      forall y, F13_mul y y <> F13_add (F13_add (F13_mul (F13_mul x x) x) (F13_mul a x)) b).
Proof.
  exact (C11_ys_from_x F13 F13_0 F13_1 F13_add F13_sub F13_mul F13_neg F13_inv F13_div F13_eqb F13_ltb
           F13_field F13_eqb_spec F13_ltb_asym _
           (C11_tonelli_shanks_sound F13 F13_0 F13_1 F13_add F13_sub F13_mul F13_neg F13_inv F13_div F13_eqb
              F13_field F13_eqb_spec 2 F13_8 1 (fun _ => 0))
           (fun a => match C11_ex_tonelli_shanks_GF13 a with
                     | or_introl (ex_intro _ y (conj H _)) => or_introl (ex_intro _ y H)
                     | or_intror H => or_intror H
                     end)).
Qed.
