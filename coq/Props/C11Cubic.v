(* C11 extension -- CubicExtField::legendre (pinned statements, each closed by `exact`).
   `cubic_legendre` / `cu_norm` / `cu_frob` / `cu_mul` (C11/SqrtModel.v, Section Cubic) are the
   executed model of ff/src/fields/models/cubic_extension.rs `legendre` = `self.norm().legendre()`:
   None = the `assert!` inside `norm` fires (panic).  `cub_N` (C11/CubicLegendre.v) is the norm
   form c0^3 + nr c1^3 + nr^2 c2^3 - 3 nr c0 c1 c2 of B[X]/(X^3 - nr).
   Premises: B a commutative ring with a reflexive boolean equality; the four table entries read
   by the two Frobenius maps are C1[1] = w, C1[2] = w^2, C2[1] = w^2, C2[2] = w with
   w^2 + w + 1 = 0; for (2) the base-field legendre classifies 0 / non-zero square / non-square
   (`bleg_spec`, the statement SqrtProofs proves of Fp::legendre). *)
From Coq Require Import ZArith List Bool Ring Field Znumtheory.
From V Require Import Base.Field Base.ZpField C02.CycProofs NumTh.Binom
  C11.SqrtModel C11.SqrtProofs C11.SmallFields C11.CubicLegendre.
Import ListNotations.
Open Scope Z_scope.

(* (1) norm never panics and equals the norm form; legendre never panics, on EVERY input *)
Theorem C11_cubic_legendre_total :
  forall (B : Type) (zero one : B) (add sub mul : B -> B -> B) (neg : B -> B) (eqb : B -> B -> bool),
  ring_theory zero one add mul sub neg eq ->
  (forall a, eqb a a = true) ->
  forall (nr : B) (bleg : B -> Z) (w : B),
  add (add (mul w w) w) one = zero ->
  forall a : B * B * B,
  cu_norm zero add mul eqb nr [one; w; mul w w] [one; mul w w; w] a = Some (cub_N one add sub mul nr a) /\
  cubic_legendre zero add mul eqb nr [one; w; mul w w] [one; mul w w; w] bleg a =
    Some (bleg (cub_N one add sub mul nr a)).
Proof. exact (@cubic_legendre_total_tables). Qed.
Print Assumptions C11_cubic_legendre_total.

(* the same with the premises on the four entries actually read (tables of any length / content elsewhere) *)
Theorem C11_cubic_legendre_total_entries :
  forall (B : Type) (zero one : B) (add sub mul : B -> B -> B) (neg : B -> B) (eqb : B -> B -> bool),
  ring_theory zero one add mul sub neg eq ->
  (forall a, eqb a a = true) ->
  forall (nr : B) (frob_c1 frob_c2 : list B) (bleg : B -> Z) (w : B),
  nth 1 frob_c1 zero = w -> nth 2 frob_c1 zero = mul w w ->
  nth 1 frob_c2 zero = mul w w -> nth 2 frob_c2 zero = w ->
  add (add (mul w w) w) one = zero ->
  forall a : B * B * B,
  cubic_legendre zero add mul eqb nr frob_c1 frob_c2 bleg a = Some (bleg (cub_N one add sub mul nr a)).
Proof. exact (@cubic_legendre_total). Qed.
Print Assumptions C11_cubic_legendre_total_entries.

Theorem C11_cubic_norm_total_entries :
  forall (B : Type) (zero one : B) (add sub mul : B -> B -> B) (neg : B -> B) (eqb : B -> B -> bool),
  ring_theory zero one add mul sub neg eq ->
  (forall a, eqb a a = true) ->
  forall (nr : B) (frob_c1 frob_c2 : list B) (w : B),
  nth 1 frob_c1 zero = w -> nth 2 frob_c1 zero = mul w w ->
  nth 1 frob_c2 zero = mul w w -> nth 2 frob_c2 zero = w ->
  add (add (mul w w) w) one = zero ->
  forall a : B * B * B,
  cu_norm zero add mul eqb nr frob_c1 frob_c2 a = Some (cub_N one add sub mul nr a).
Proof. exact (@cubic_norm_total). Qed.
Print Assumptions C11_cubic_norm_total_entries.

(* the norm form is multiplicative, over every commutative ring *)
Theorem C11_cub_N_mul :
  forall (B : Type) (zero one : B) (add sub mul : B -> B -> B) (neg : B -> B),
  ring_theory zero one add mul sub neg eq ->
  forall (nr : B) (x y : B * B * B),
  cub_N one add sub mul nr (cu_mul add mul nr x y) = mul (cub_N one add sub mul nr x) (cub_N one add sub mul nr y).
Proof. exact (@cub_N_mul). Qed.
Print Assumptions C11_cub_N_mul.

(* (2) a square of the extension is never reported as a non-residue *)
Theorem C11_cubic_legendre_square :
  forall (B : Type) (zero one : B) (add sub mul : B -> B -> B) (neg : B -> B) (eqb : B -> B -> bool),
  ring_theory zero one add mul sub neg eq ->
  (forall a, eqb a a = true) ->
  forall (nr : B) (bleg : B -> Z) (w : B),
  add (add (mul w w) w) one = zero ->
  (forall a, (a = zero /\ bleg a = 0) \/ (a <> zero /\ is_sq mul a /\ bleg a = 1) \/ (~ is_sq mul a /\ bleg a = -1)) ->
  forall w' : B * B * B,
  exists s, cubic_legendre zero add mul eqb nr [one; w; mul w w] [one; mul w w; w] bleg (cu_mul add mul nr w' w') = Some s /\
            s <> -1.
Proof. exact (@cubic_legendre_square_tables). Qed.
Print Assumptions C11_cubic_legendre_square.

(* sharper: the symbol of x^2 is 0 when N(x)^2 = 0 and 1 otherwise *)
Theorem C11_cubic_legendre_square_value :
  forall (B : Type) (zero one : B) (add sub mul : B -> B -> B) (neg : B -> B) (eqb : B -> B -> bool),
  ring_theory zero one add mul sub neg eq ->
  (forall a, eqb a a = true) ->
  forall (nr : B) (frob_c1 frob_c2 : list B) (bleg : B -> Z) (w : B),
  nth 1 frob_c1 zero = w -> nth 2 frob_c1 zero = mul w w ->
  nth 1 frob_c2 zero = mul w w -> nth 2 frob_c2 zero = w ->
  add (add (mul w w) w) one = zero ->
  (forall a, (a = zero /\ bleg a = 0) \/ (a <> zero /\ is_sq mul a /\ bleg a = 1) \/ (~ is_sq mul a /\ bleg a = -1)) ->
  forall x : B * B * B,
  (mul (cub_N one add sub mul nr x) (cub_N one add sub mul nr x) = zero /\
   cubic_legendre zero add mul eqb nr frob_c1 frob_c2 bleg (cu_mul add mul nr x x) = Some 0) \/
  (mul (cub_N one add sub mul nr x) (cub_N one add sub mul nr x) <> zero /\
   cubic_legendre zero add mul eqb nr frob_c1 frob_c2 bleg (cu_mul add mul nr x x) = Some 1).
Proof. exact (@cubic_legendre_square_value). Qed.
Print Assumptions C11_cubic_legendre_square_value.

(* contrapositive: QuadraticNonResidue is only ever reported on non-squares of the extension *)
Theorem C11_cubic_legendre_minus_one_nonsquare :
  forall (B : Type) (zero one : B) (add sub mul : B -> B -> B) (neg : B -> B) (eqb : B -> B -> bool),
  ring_theory zero one add mul sub neg eq ->
  (forall a, eqb a a = true) ->
  forall (nr : B) (frob_c1 frob_c2 : list B) (bleg : B -> Z) (w : B),
  nth 1 frob_c1 zero = w -> nth 2 frob_c1 zero = mul w w ->
  nth 1 frob_c2 zero = mul w w -> nth 2 frob_c2 zero = w ->
  add (add (mul w w) w) one = zero ->
  (forall a, (a = zero /\ bleg a = 0) \/ (a <> zero /\ is_sq mul a /\ bleg a = 1) \/ (~ is_sq mul a /\ bleg a = -1)) ->
  forall a : B * B * B,
  cubic_legendre zero add mul eqb nr frob_c1 frob_c2 bleg a = Some (-1) ->
  ~ exists x, cu_mul add mul nr x x = a.
Proof. exact (@cubic_legendre_minus_one_nonsquare). Qed.
Print Assumptions C11_cubic_legendre_minus_one_nonsquare.

Theorem C11_cubic_legendre_zero :
  forall (B : Type) (zero one : B) (add sub mul : B -> B -> B) (neg : B -> B) (eqb : B -> B -> bool),
  ring_theory zero one add mul sub neg eq ->
  (forall a, eqb a a = true) ->
  forall (nr : B) (bleg : B -> Z) (w : B),
  add (add (mul w w) w) one = zero ->
  (forall a, (a = zero /\ bleg a = 0) \/ (a <> zero /\ is_sq mul a /\ bleg a = 1) \/ (~ is_sq mul a /\ bleg a = -1)) ->
  cubic_legendre zero add mul eqb nr [one; w; mul w w] [one; mul w w; w] bleg (zero, zero, zero) = Some 0.
Proof. exact (@cubic_legendre_zero_tables). Qed.
Print Assumptions C11_cubic_legendre_zero.

(* ---- non-vacuity: the toy Fp3 = F_7[v]/(v^3 - 3) of the correspondence harness, tables [1;2;4] / [1;4;2],
        base legendre = the model of Fp::legendre (x^3 classified); every premise proved, theorems applied ---- *)
Example C11_toy7_premises :
  ring_theory F7_0 F7_1 F7_add F7_mul F7_sub F7_neg eq /\
  (forall a, F7_eqb a a = true) /\
  F7_add (F7_add (F7_mul F7_2 F7_2) F7_2) F7_1 = F7_0 /\
  (toy7_c1 = [F7_1; F7_2; F7_mul F7_2 F7_2] /\ toy7_c2 = [F7_1; F7_mul F7_2 F7_2; F7_2]) /\
  (forall a, (a = F7_0 /\ F7_leg a = 0) \/ (a <> F7_0 /\ is_sq F7_mul a /\ F7_leg a = 1) \/
             (~ is_sq F7_mul a /\ F7_leg a = -1)).
Proof. exact (conj F7_ring (conj F7_eqb_refl (conj toy7_w_root (conj toy7_tables F7_leg_spec)))). Qed.
Example C11_toy7_cubic_legendre_total :
  forall a, cubic_legendre F7_0 F7_add F7_mul F7_eqb F7_3 [F7_1; F7_2; F7_4] [F7_1; F7_4; F7_2] F7_leg a =
            Some (F7_leg (cub_N F7_1 F7_add F7_sub F7_mul F7_3 a)).
Proof. exact toy7_cubic_legendre_total. Qed.
Print Assumptions C11_toy7_cubic_legendre_total.
Example C11_toy7_cubic_legendre_square :
  forall x, exists s,
    cubic_legendre F7_0 F7_add F7_mul F7_eqb F7_3 [F7_1; F7_2; F7_4] [F7_1; F7_4; F7_2] F7_leg
      (cu_mul F7_add F7_mul F7_3 x x) = Some s /\ s <> -1.
Proof. exact toy7_cubic_legendre_square. Qed.
Example C11_toy7_cubic_legendre_zero :
  cubic_legendre F7_0 F7_add F7_mul F7_eqb F7_3 [F7_1; F7_2; F7_4] [F7_1; F7_4; F7_2] F7_leg (F7_0, F7_0, F7_0) = Some 0.
Proof. exact toy7_cubic_legendre_zero. Qed.
(* all 343 elements in the kernel: Some 0 exactly at zero, Some 1 exactly on the non-zero squares (squares
   enumerated by squaring all 343 elements), Some (-1) on the rest; 171 of each non-zero kind *)
Example C11_toy7_cubic_legendre_exact :
  forallb (fun a =>
    match cubic_legendre F7_0 F7_add F7_mul F7_eqb F7_3 [F7_1; F7_2; F7_4] [F7_1; F7_4; F7_2] F7_leg a with
    | Some s =>
      if toy7_eqb a (F7_0, F7_0, F7_0) then s =? 0
      else if existsb (toy7_eqb a) (map (fun x => cu_mul F7_add F7_mul F7_3 x x) toy7_all) then s =? 1 else s =? -1
    | None => false
    end) toy7_all = true /\ length toy7_all = 343%nat.
Proof. vm_compute. split; reflexivity. Qed.
Example C11_toy7_cubic_legendre_counts :
  length (filter (fun a => match toy7_cleg a with Some 1 => true | _ => false end) toy7_all) = 171%nat /\
  length (filter (fun a => match toy7_cleg a with Some (-1) => true | _ => false end) toy7_all) = 171%nat.
Proof. exact toy7_counts. Qed.
(* the same on the plain-integer dictionary ZpOps 7 with Run.fp_leg (what Run.SF3 executes) *)
Example C11_toy7_exec_cubic_legendre_exact : toy7z_exact_check = true /\ length toy7z_all = 343%nat.
Proof. exact toy7z_exact_ok. Qed.

(* ---------------------------------------------------------------------------------------------------
   (3) Euler form and exactness (Base.Field vocabulary: B : Fops T, E = CubicOps B nr, so that the NumTh
   development applies).  Premises: B a commutative ring of characteristic p (p.1 = 0) with x^q = x for
   every x (q = p^k: B is the field with q elements), q = 3m+1 = 2h+1, table entries w = nr^m, w^2 with
   w^2 + w + 1 = 0.  The extension need NOT be a field for the Euler form.
   --------------------------------------------------------------------------------------------------- *)
(* a^((q^3-1)/2) = ((N a)^((q-1)/2), 0, 0), computed in the extension *)
Theorem C11_cubic_euler_fpow :
  forall (T : Type) (B : Fops T),
  ring_theory (f0 B) (f1 B) (fadd B) (fmul B) (fsub B) (fneg B) eq ->
  forall (nr : T) (p : Z) (k m h : nat),
  prime p -> nmul B (Z.to_nat p) (f1 B) = f0 B ->
  (Z.to_nat p ^ k = 3 * m + 1)%nat -> (Z.to_nat p ^ k = 2 * h + 1)%nat ->
  (forall x : T, npow B x (Z.to_nat p ^ k) = x) ->
  fadd B (fadd B (fmul B (npow B nr m) (npow B nr m)) (npow B nr m)) (f1 B) = f0 B ->
  forall a : T * T * T,
  fpow (CubicOps B nr) a (((p ^ Z.of_nat k) ^ 3 - 1) / 2) =
  (fpow B (cub_N (f1 B) (fadd B) (fsub B) (fmul B) nr a) ((p ^ Z.of_nat k - 1) / 2), f0 B, f0 B).
Proof. exact (@cubic_euler_fpow). Qed.
Print Assumptions C11_cubic_euler_fpow.

(* CubicExtField::legendre (base symbol x^((q-1)/2) of the norm) = Euler symbol a^((q^3-1)/2) classified in the extension *)
Theorem C11_cubic_legendre_euler :
  forall (T : Type) (B : Fops T),
  ring_theory (f0 B) (f1 B) (fadd B) (fmul B) (fsub B) (fneg B) eq ->
  (forall a : T, feqb B a a = true) ->
  forall (nr : T) (p : Z) (k m h : nat),
  prime p -> nmul B (Z.to_nat p) (f1 B) = f0 B ->
  (Z.to_nat p ^ k = 3 * m + 1)%nat -> (Z.to_nat p ^ k = 2 * h + 1)%nat ->
  (forall x : T, npow B x (Z.to_nat p ^ k) = x) ->
  fadd B (fadd B (fmul B (npow B nr m) (npow B nr m)) (npow B nr m)) (f1 B) = f0 B ->
  forall a : T * T * T,
  cubic_legendre (f0 B) (fadd B) (fmul B) (feqb B) nr
    [f1 B; npow B nr m; fmul B (npow B nr m) (npow B nr m)]
    [f1 B; fmul B (npow B nr m) (npow B nr m); npow B nr m]
    (legendre_pow (f0 B) (f1 B) (fmul B) (feqb B) ((p ^ Z.of_nat k - 1) / 2)) a =
  Some (legendre_pow (f0 (CubicOps B nr)) (f1 (CubicOps B nr)) (fmul (CubicOps B nr)) (feqb (CubicOps B nr))
          (((p ^ Z.of_nat k) ^ 3 - 1) / 2) a).
Proof. exact (@cubic_legendre_euler). Qed.
Print Assumptions C11_cubic_legendre_euler.

(* exactness, both directions: when moreover the extension E is a field with a correct equality test,
   q^3 - 1 = 2^s (2 tm + 1), Fermat holds in E and z has exact order 2^s (the premises of the Tonelli-Shanks
   theorems of Props/C11.v for K := E) *)
Theorem C11_cubic_legendre_exact :
  forall (T : Type) (B : Fops T),
  ring_theory (f0 B) (f1 B) (fadd B) (fmul B) (fsub B) (fneg B) eq ->
  (forall a : T, feqb B a a = true) ->
  forall (nr : T) (p : Z) (k m h : nat),
  prime p -> nmul B (Z.to_nat p) (f1 B) = f0 B ->
  (Z.to_nat p ^ k = 3 * m + 1)%nat -> (Z.to_nat p ^ k = 2 * h + 1)%nat ->
  (forall x : T, npow B x (Z.to_nat p ^ k) = x) ->
  fadd B (fadd B (fmul B (npow B nr m) (npow B nr m)) (npow B nr m)) (f1 B) = f0 B ->
  let E := CubicOps B nr in
  field_theory (f0 E) (f1 E) (fadd E) (fmul E) (fsub E) (fneg E) (fdiv E) (finv E) eq ->
  (forall a b : T * T * T, feqb E a b = true <-> a = b) ->
  forall (s : nat) (tm : Z) (z : T * T * T),
  (1 <= s)%nat -> 0 <= tm ->
  (p ^ Z.of_nat k) ^ 3 - 1 = 2 ^ Z.of_nat s * (2 * tm + 1) ->
  (forall x, x <> f0 E -> pow (f1 E) (fmul E) x (2 ^ Z.of_nat s * (2 * tm + 1)) = f1 E) ->
  sqn (fmul E) (s - 1) z = fneg E (f1 E) ->
  forall a : T * T * T,
  let cleg := cubic_legendre (f0 B) (fadd B) (fmul B) (feqb B) nr
                [f1 B; npow B nr m; fmul B (npow B nr m) (npow B nr m)]
                [f1 B; fmul B (npow B nr m) (npow B nr m); npow B nr m]
                (legendre_pow (f0 B) (f1 B) (fmul B) (feqb B) ((p ^ Z.of_nat k - 1) / 2)) in
  (a = f0 E /\ cleg a = Some 0) \/
  (a <> f0 E /\ is_sq (fmul E) a /\ cleg a = Some 1) \/
  (~ is_sq (fmul E) a /\ cleg a = Some (-1)).
Proof. exact (@cubic_legendre_exact). Qed.
Print Assumptions C11_cubic_legendre_exact.

(* over the real prime field (FpOps p, k = 1): characteristic, x^p = x, field, Fermat in Fp3 are all PROVED
   (NumTh); what remains: p prime, p > 2, p = 1 mod 3, the closed fact w^2 + w + 1 = 0 for w = nr^((p-1)/3) *)
Theorem C11_fp3_cubic_legendre_euler :
  forall p : Z, prime p -> 2 < p -> p mod 3 = 1 ->
  forall nr : Fp p,
  let F := FpOps p in let w := fpow F nr ((p - 1) / 3) in
  fadd F (fadd F (fmul F w w) w) (f1 F) = f0 F ->
  forall a : Fp p * Fp p * Fp p,
  cubic_legendre (f0 F) (fadd F) (fmul F) (feqb F) nr [f1 F; w; fmul F w w] [f1 F; fmul F w w; w]
    (legendre_pow (f0 F) (f1 F) (fmul F) (feqb F) ((p - 1) / 2)) a =
  Some (legendre_pow (f0 (CubicOps F nr)) (f1 (CubicOps F nr)) (fmul (CubicOps F nr)) (feqb (CubicOps F nr))
          ((p ^ 3 - 1) / 2) a).
Proof. exact fp3_cubic_legendre_euler. Qed.
Print Assumptions C11_fp3_cubic_legendre_euler.

(* ... and exactness: nr a non-cube, p^3 - 1 = 2^s (2 tm + 1), z of exact order 2^s in Fp3 *)
Theorem C11_fp3_cubic_legendre_exact :
  forall p : Z, prime p -> 2 < p -> p mod 3 = 1 ->
  forall nr : Fp p,
  let F := FpOps p in let w := fpow F nr ((p - 1) / 3) in
  fadd F (fadd F (fmul F w w) w) (f1 F) = f0 F ->
  (forall c : Fp p, fmul F (fmul F c c) c <> nr) ->
  let E3 := CubicOps F nr in
  forall (s : nat) (tm : Z) (z : Fp p * Fp p * Fp p),
  (1 <= s)%nat -> 0 <= tm -> p ^ 3 - 1 = 2 ^ Z.of_nat s * (2 * tm + 1) ->
  sqn (fmul E3) (s - 1) z = fneg E3 (f1 E3) ->
  forall a : Fp p * Fp p * Fp p,
  let cleg := cubic_legendre (f0 F) (fadd F) (fmul F) (feqb F) nr [f1 F; w; fmul F w w] [f1 F; fmul F w w; w]
                (legendre_pow (f0 F) (f1 F) (fmul F) (feqb F) ((p - 1) / 2)) in
  (a = f0 E3 /\ cleg a = Some 0) \/
  (a <> f0 E3 /\ is_sq (fmul E3) a /\ cleg a = Some 1) \/
  (~ is_sq (fmul E3) a /\ cleg a = Some (-1)).
Proof. exact fp3_cubic_legendre_exact. Qed.
Print Assumptions C11_fp3_cubic_legendre_exact.

(* non-vacuity: p = 7, nr = 3 (w = 2), 7^3 - 1 = 2 * 171 (s = 1, tm = 85, z = -1); every premise proved *)
Example C11_toy7_fp3_legendre_exact :
  forall a : Fp 7 * Fp 7 * Fp 7,
  let F := FpOps 7 in let w := fpow F (fp_of 7 3) ((7 - 1) / 3) in
  let E3 := CubicOps F (fp_of 7 3) in
  let cleg := cubic_legendre (f0 F) (fadd F) (fmul F) (feqb F) (fp_of 7 3) [f1 F; w; fmul F w w] [f1 F; fmul F w w; w]
                (legendre_pow (f0 F) (f1 F) (fmul F) (feqb F) ((7 - 1) / 2)) in
  (a = f0 E3 /\ cleg a = Some 0) \/
  (a <> f0 E3 /\ is_sq (fmul E3) a /\ cleg a = Some 1) \/
  (~ is_sq (fmul E3) a /\ cleg a = Some (-1)).
Proof. exact toy7_fp3_legendre_exact. Qed.
Print Assumptions C11_toy7_fp3_legendre_exact.
