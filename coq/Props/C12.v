(* C12 -- property theorems only: pinned statements, each closed by `exact`.
   [good_field F]: F is a field (Leibniz equality), feqb decides equality, 1 + 1 <> 0 (C03).
   [aff_on F a b P]: P is the point at infinity or satisfies y^2 = x^3 + a x + b.
   [sw_nsmul F a n P]: the n-fold sum P + ... + P in the affine chord-and-tangent law of C03
   (the definition of n * P).  Premises that are mathematics not formalised here:
   [sw_law_assoc] (the law is associative on curve points), [sw_killed_by F a b (m * r)]
   (every curve point is killed by m r: #E = h r for m = h; exponent of E divides h_eff r). *)
From V Require Import Base.Field C03.CurveExec C03.SWProofs C03.FieldHyp
  C03.TEProofs C12.SubgroupModel C12.GroupProofs C12.SWSubgroupProofs C12.TESubgroupProofs C12.BPProofs.

(* double-and-add over an abstract group given through representatives *)
Theorem C12_double_and_add_abstract :
  forall (G : Type) (inG : G -> Prop) (gop : G -> G -> G) (gid : G),
  inG gid -> (forall x y, inG x -> inG y -> inG (gop x y)) ->
  (forall x y z, inG x -> inG y -> inG z -> gop x (gop y z) = gop (gop x y) z) ->
  (forall x, inG x -> gop gid x = x) -> (forall x, inG x -> gop x gid = x) ->
  forall (R A : Type) (val : R -> G) (okR : R -> Prop) (aval : A -> G) (okA : A -> Prop)
         (zero : R) (dbl : R -> R) (add : R -> A -> R),
  (forall a, okA a -> inG (aval a)) ->
  okR zero /\ val zero = gid ->
  (forall r, okR r -> okR (dbl r) /\ val (dbl r) = gop (val r) (val r)) ->
  (forall r a, okR r -> okA a -> okR (add r a) /\ val (add r a) = gop (val r) (aval a)) ->
  forall a n, okA a ->
  okR (da zero dbl add a n) /\ val (da zero dbl add a n) = nsmul gop gid (Z.to_nat n) (aval a).
Proof. exact (@da_correct). Qed.

(* mul_affine / mul_projective compute n * P, for every curve point and every n *)
Theorem C12_sw_mul_affine : forall T (F : Fops T) (a b : T), good_field F -> sw_law_assoc F a b ->
  forall P n, aff_on F a b P ->
  jac_on F a b (sw_mul_affine F a P n) /\
  sw_to_affine F (sw_mul_affine F a P n) = sw_nsmul F a (Z.to_nat n) P.
Proof. exact (fun T F a b G H => sw_mul_affine_correct F a b G H). Qed.
Theorem C12_sw_mul_projective : forall T (F : Fops T) (a b : T), good_field F -> sw_law_assoc F a b ->
  forall P n, jac_on F a b P ->
  jac_on F a b (sw_mul_projective F a P n) /\
  sw_to_affine F (sw_mul_projective F a P n) = sw_nsmul F a (Z.to_nat n) (sw_to_affine F P).
Proof. exact (fun T F a b G H => sw_mul_projective_correct F a b G H). Qed.

(* the default test (cofactor > 1 path) answers yes exactly when r * P = O *)
Theorem C12_default_test_iff_rP_zero : forall T (F : Fops T) (a b : T), good_field F -> sw_law_assoc F a b ->
  forall hl r P, cofactor_is_one hl = false -> aff_on F a b P ->
  (sw_in_subgroup_default F a hl r P = true <-> sw_nsmul F a (Z.to_nat r) P = None).
Proof. exact (fun T F a b G H => default_test_iff_rP_zero F a b G H). Qed.
(* including the cofactor-one shortcut, given that #E = h r *)
Theorem C12_default_test_all_cofactors : forall T (F : Fops T) (a b : T), good_field F -> sw_law_assoc F a b ->
  forall hl r P, 0 <= r -> sw_killed_by F a b (limbs_val hl * r) -> aff_on F a b P ->
  (sw_in_subgroup_default F a hl r P = true <-> sw_nsmul F a (Z.to_nat r) P = None).
Proof. exact (fun T F a b G H => default_test_all F a b G H). Qed.
Theorem C12_cofactor_is_one_value : forall hl, cofactor_is_one hl = true -> limbs_val hl = 1.
Proof. exact cofactor_is_one_val. Qed.

(* clearing by a fixed integer m (h by default, h_eff for the G1 overrides): the result is m * P,
   on the curve, and in the r-torsion for EVERY curve point when m r kills the curve *)
Theorem C12_clear_is_multiplication : forall T (F : Fops T) (a b : T), good_field F -> sw_law_assoc F a b ->
  forall m P, aff_on F a b P ->
  aff_on F a b (sw_clear_heff F a m P) /\ sw_clear_heff F a m P = sw_nsmul F a (Z.to_nat m) P.
Proof. exact (fun T F a b G H => clear_heff_is_mul F a b G H). Qed.
Theorem C12_clear_heff_in_subgroup : forall T (F : Fops T) (a b : T), good_field F -> sw_law_assoc F a b ->
  forall m r P, 0 <= m -> 0 <= r -> sw_killed_by F a b (m * r) -> aff_on F a b P ->
  sw_nsmul F a (Z.to_nat r) (sw_clear_heff F a m P) = None.
Proof. exact (fun T F a b G H => clear_in_subgroup F a b G H). Qed.
Theorem C12_clear_cofactor_in_subgroup : forall T (F : Fops T) (a b : T), good_field F -> sw_law_assoc F a b ->
  forall hl r P, 0 <= limbs_val hl -> 0 <= r -> sw_killed_by F a b (limbs_val hl * r) -> aff_on F a b P ->
  aff_on F a b (sw_clear_cofactor_default F a hl P) /\
  sw_clear_cofactor_default F a hl P = sw_nsmul F a (Z.to_nat (limbs_val hl)) P /\
  sw_nsmul F a (Z.to_nat r) (sw_clear_cofactor_default F a hl P) = None.
Proof. exact (fun T F a b G H => clear_cofactor_default_in_subgroup F a b G H). Qed.

(* COFACTOR * COFACTOR_INV = 1 (mod r) and r P = O  =>  mul_by_cofactor_inv (mul_by_cofactor P) = P *)
Theorem C12_cofactor_inv_composes : forall T (F : Fops T) (a b : T), good_field F -> sw_law_assoc F a b ->
  forall hl cinv r P, 0 <= limbs_val hl -> 0 <= cinv -> 0 < r ->
  (limbs_val hl * cinv) mod r = 1 -> aff_on F a b P -> sw_nsmul F a (Z.to_nat r) P = None ->
  sw_mul_by_cofactor_inv F a cinv (sw_mul_by_cofactor F a hl P) = P.
Proof. exact (fun T F a b G H => cofactor_inv_composes F a b G H). Qed.

(* sampling: the point built from x is on the curve; after cofactor multiplication it is in the subgroup *)
Theorem C12_point_from_x_on_curve : forall T (F : Fops T) (a b : T), good_field F ->
  forall x g hint Q, sw_get_point_from_x F a b x g hint = Some (Some Q) ->
  aff_on F a b Q /\ exists y, Q = Some (x, y).
Proof. exact (fun T F a b G => point_from_x_on_curve F a b G). Qed.
Theorem C12_sampling_in_subgroup : forall T (F : Fops T) (a b : T), good_field F -> sw_law_assoc F a b ->
  forall hl r x g hint S, 0 <= limbs_val hl -> 0 <= r -> sw_killed_by F a b (limbs_val hl * r) ->
  sw_sample_from_x F a b hl x g hint = Some (Some S) ->
  aff_on F a b S /\ sw_nsmul F a (Z.to_nat r) S = None.
Proof. exact (fun T F a b G H => sample_in_subgroup F a b G H). Qed.

(* psi tests (bls12_381 G2: s = |x|, sneg = (x < 0); bn254 G2: s = 6 x^2): the answer is yes
   exactly when psi(P) = (+-s) P, for every curve point P and every map psi *)
Theorem C12_psi_test_iff : forall T (F : Fops T) (a b : T), good_field F -> sw_law_assoc F a b ->
  forall psi s sneg P, aff_on F a b P ->
  (psi_test F a psi s sneg P = true <-> psi P = sgn_aff F sneg (sw_nsmul F a (Z.to_nat s) P)).
Proof. exact (fun T F a b G H => psi_test_iff F a b G H). Qed.
(* completeness: psi acts as the eigenvalue on the subgroup => subgroup points pass *)
Theorem C12_psi_test_complete : forall T (F : Fops T) (a b : T), good_field F -> sw_law_assoc F a b ->
  forall psi s sneg P, aff_on F a b P ->
  psi P = sgn_aff F sneg (sw_nsmul F a (Z.to_nat s) P) -> psi_test F a psi s sneg P = true.
Proof. exact (fun T F a b G H psi s sneg P HP => proj2 (psi_test_iff F a b G H psi s sneg P HP)). Qed.
(* soundness, partial: FULL statement "psi_test ... P = true -> r * P = O for every curve point" is
   the number-theoretic content of eprint 2021/1130 (sec. 4) / 2022/352 (sec. 4.3); here it is
   reduced to exactly that fact, taken as the premise [Hnt] *)
Theorem C12_psi_test_sound_partial : forall T (F : Fops T) (a b : T), good_field F -> sw_law_assoc F a b ->
  forall psi s sneg r,
  (forall P, aff_on F a b P -> psi P = sgn_aff F sneg (sw_nsmul F a (Z.to_nat s) P) ->
             sw_nsmul F a (Z.to_nat r) P = None) ->
  forall P, aff_on F a b P -> psi_test F a psi s sneg P = true -> sw_nsmul F a (Z.to_nat r) P = None.
Proof.
  exact (fun T F a b G H psi s sneg r Hnt P HP Ht =>
           Hnt P HP (proj1 (psi_test_iff F a b G H psi s sneg P HP) Ht)).
Qed.
(* sigma test of bls12_381 G1 (mul_projective = plain double-and-add): yes exactly when the
   early-out does not fire and sigma(P) = -(x^2) P *)
Theorem C12_bls_g1_test_iff : forall T (F : Fops T) (a b : T), good_field F -> sw_law_assoc F a b ->
  forall xabs beta P, aff_on F a b P ->
  (bls_g1_test F a (sw_mul_projective F a) xabs beta P = true <->
   ~ (sw_nsmul F a (Z.to_nat xabs) P = P /\ P <> None) /\
   endo_aff F beta P = aff_neg_sw F (sw_nsmul F a (Z.to_nat xabs) (sw_nsmul F a (Z.to_nat xabs) P))).
Proof. exact (fun T F a b G H => bls_g1_test_iff F a b G H). Qed.

(* Budroni-Pintore clearing (G2 of bls12_381 in both crates, bls12_377; a = 0, c = the
   coefficient of double_p_power_endomorphism with c^3 = 1): for EVERY curve point the coded
   sequence equals psi2(2P) + [x]([x]P + psi P) - [x]P - psi P - P and stays on the curve.
   PARTIAL: the full statement is
     bp_clear F 0 psi c |x| xneg P = sw_nsmul F 0 (Z.to_nat h_eff) P  /\  r * (bp_clear ... P) = O
   with h_eff = 3 (x^2 - 1) h2 (RFC 9380 8.8.2); the missing step (psi^2 - t psi + q = 0 on E' and
   the structure of E'(F_q^2), eprint 2017/419) is not formalised; the correspondence check compares
   the coded map with [h_eff]P on points outside the subgroup. *)
Theorem C12_bp_clear_formula_partial : forall T (F : Fops T) (b : T), good_field F -> sw_law_assoc F (f0 F) b ->
  forall psi c xabs xneg P,
  fmul F (fmul F c c) c = f1 F -> aff_on F (f0 F) b P -> aff_on F (f0 F) b (psi P) ->
  let XP := sgn_aff F xneg (sw_nsmul F (f0 F) (Z.to_nat xabs) P) in
  bp_clear F (f0 F) psi c xabs xneg P =
    aff_add_sw F (f0 F) (aff_add_sw F (f0 F) (aff_add_sw F (f0 F) (aff_add_sw F (f0 F)
      (psi2_aff F c (aff_add_sw F (f0 F) P P))
      (sgn_aff F xneg (sw_nsmul F (f0 F) (Z.to_nat xabs) (aff_add_sw F (f0 F) XP (psi P)))))
      (aff_neg_sw F XP)) (aff_neg_sw F (psi P))) (aff_neg_sw F P)
  /\ aff_on F (f0 F) b (bp_clear F (f0 F) psi c xabs xneg P).
Proof. exact (fun T F b G H => bp_clear_formula F b G H). Qed.

(* ---- twisted Edwards (curves whose law is complete on the curve points: [te_law_complete],
   provable by C03_te_complete when a is a square and d is not; [te_law_assoc]: associativity) ---- *)
Theorem C12_te_mul_affine : forall T (F : Fops T) (a d : T), good_field F -> te_law_complete F a d -> te_law_assoc F a d ->
  forall P n, te_aff_on F a d P ->
  (te_valid F (te_mul_affine F a d P n) /\ te_aff_on F a d (te_to_affine F (te_mul_affine F a d P n))) /\
  te_to_affine F (te_mul_affine F a d P n) = te_nsmul F a d (Z.to_nat n) P.
Proof. exact (fun T F a d G C H => te_mul_affine_correct F a d G C H). Qed.
(* no cofactor-one shortcut in the TE default: yes exactly when r * P = (0, 1), every curve point *)
Theorem C12_te_default_test_iff_rP_zero : forall T (F : Fops T) (a d : T), good_field F -> te_law_complete F a d -> te_law_assoc F a d ->
  forall r P, te_aff_on F a d P ->
  (te_in_subgroup_default F a d r P = true <-> te_nsmul F a d (Z.to_nat r) P = te_aff_zero F).
Proof. exact (fun T F a d G C H => te_default_test_iff_rP_zero F a d G C H). Qed.
Theorem C12_te_clear_cofactor_in_subgroup : forall T (F : Fops T) (a d : T), good_field F -> te_law_complete F a d -> te_law_assoc F a d ->
  forall hl r P, 0 <= limbs_val hl -> 0 <= r ->
  (forall Q, te_aff_on F a d Q -> te_nsmul F a d (Z.to_nat (limbs_val hl * r)) Q = te_aff_zero F) -> te_aff_on F a d P ->
  exists C, te_clear_cofactor_default F a d hl P = Some C /\ te_aff_on F a d C /\
            C = te_nsmul F a d (Z.to_nat (limbs_val hl)) P /\ te_nsmul F a d (Z.to_nat r) C = te_aff_zero F.
Proof. exact (fun T F a d G C H => te_clear_cofactor_in_subgroup F a d G C H). Qed.
Theorem C12_te_cofactor_inv_composes : forall T (F : Fops T) (a d : T), good_field F -> te_law_complete F a d -> te_law_assoc F a d ->
  forall hl cinv r P, 0 <= limbs_val hl -> 0 <= cinv -> 0 < r ->
  (limbs_val hl * cinv) mod r = 1 -> te_aff_on F a d P -> te_nsmul F a d (Z.to_nat r) P = te_aff_zero F ->
  exists Q, te_mul_by_cofactor F a d hl P = Some Q /\ te_mul_by_cofactor_inv F a d cinv Q = Some P.
Proof. exact (fun T F a d G C H => te_cofactor_inv_composes F a d G C H). Qed.

(* ---- executable instances (toy curve y^2 = x^3 + x + 4 over F_13: 14 points, r = 7, h = 2) ---- *)
Example C12_toy_default_test :
  sw_in_subgroup_default (ZpOps 13) 1 [2] 7 (Some (9, 12)) = true /\
  sw_in_subgroup_default (ZpOps 13) 1 [2] 7 (Some (2, 1)) = false /\
  sw_in_subgroup_default (ZpOps 13) 1 [1; 5] 7 (Some (2, 1)) = false /\
  sw_in_subgroup_default (ZpOps 13) 1 [1; 0] 7 (Some (2, 1)) = true.
Proof. vm_compute. repeat split; reflexivity. Qed.
Example C12_toy_clear_and_inverse :
  sw_in_subgroup_default (ZpOps 13) 1 [2] 7 (sw_clear_cofactor_default (ZpOps 13) 1 [2] (Some (2, 1))) = true /\
  (2 * 4) mod 7 = 1 /\
  sw_mul_by_cofactor_inv (ZpOps 13) 1 4 (sw_mul_by_cofactor (ZpOps 13) 1 [2] (Some (9, 12))) = Some (9, 12).
Proof. vm_compute. repeat split; reflexivity. Qed.
Example C12_hypotheses_satisfiable :
  good_field QcOps /\ aff_on QcOps (q 0) (q 1) (Some (q 2, q 3)) /\ cofactor_is_one [2] = false.
Proof. exact (conj QcOps_good (conj (proj2 (proj2 ex_sw_on)) eq_refl)). Qed.
(* toy TE curve -x^2 + y^2 = 1 + 6 x^2 y^2 over F_13 (20 points, r = 5, h = 4): subgroup / outside point *)
Example C12_toy_te_default_test :
  te_in_subgroup_default (ZpOps 13) 12 6 5 (4, 8) = true /\
  te_in_subgroup_default (ZpOps 13) 12 6 5 (0, 12) = false /\
  te_clear_cofactor_default (ZpOps 13) 12 6 [4] (0, 12) = Some (0, 1).
Proof. vm_compute. repeat split; reflexivity. Qed.
