(* C13 -- property theorems only: pinned statements, each closed by `exact`.
   Expander / hash_to_field statements quantify over every message, tag and length; the map
   statements over an arbitrary field (carrier with Leibniz equality, operations, a `field_theory`
   proof, a boolean equality test, a Legendre test `is_qr`, a square-root oracle, a parity function)
   and over EVERY field element u, the exceptional inputs included.  The Examples instantiate all
   premises (GF(13); SHA-256 itself), so no statement is vacuous. *)
From Coq Require Import ZArith List Bool Field.
From V Require Import Base.Field C11.SmallFields C13.Sha256 C13.Xmd C13.HashToField C13.Maps C13.Poly
                      C13.XmdProofs C13.MapProofs C13.IsoProofs C13.IsoData C13.Examples.
Import ListNotations.
Open Scope Z_scope.

(* ---------- SHA-256 model: FIPS 180-4 short-message vectors ---------- *)
Example C13_sha256_abc :
  bytes_to_Z (sha256 [97; 98; 99]) = 0xba7816bf8f01cfea414140de5dae2223b00361a396177a9cb410ff61f20015ad.
Proof. vm_compute; reflexivity. Qed.
Example C13_sha256_empty :
  bytes_to_Z (sha256 []) = 0xe3b0c44298fc1c149afbf4c8996fb92427ae41e4649b934ca495991b7852b855.
Proof. vm_compute; reflexivity. Qed.
(* "abcdbcdecdefdefgefghfghighijhijkijkljklmklmnlmnomnopnopq" (448 bits: two blocks after padding) *)
Example C13_sha256_448 :
  bytes_to_Z (sha256 [97;98;99;100;98;99;100;101;99;100;101;102;100;101;102;103;101;102;103;104;102;103;104;105;
                      103;104;105;106;104;105;106;107;105;106;107;108;106;107;108;109;107;108;109;110;108;109;110;111;
                      109;110;111;112;110;111;112;113])
  = 0x248d6a61d20638b8e5c026930c3e6039a33ce45964ff2167f6ecedd419db06c1.
Proof. vm_compute; reflexivity. Qed.

Theorem C13_sha256_output_is_32_bytes : forall m, length (sha256 m) = 32%nat.
Proof. exact sha256_length. Qed.

(* ---------- expand_message_xmd ---------- *)
(* the coded expander (ExpanderXmd::expand) equals RFC 9380 5.3.1 (with the 5.3.3 oversize-tag rule) for every
   message, every tag (longer than 255 bytes included) and every length, whenever the struct's block_size is the
   hash's input block size s_in_bytes; H is any hash with b_len <= 255 output bytes *)
Theorem C13_xmd_coded_equals_rfc :
  forall (H : list Z -> list Z) (b_len : Z), 0 < b_len ->
  (forall x, Z.of_nat (length (H x)) = b_len) ->
  forall s_len msg dst n, 0 <= n -> 0 <= s_len <= 256 -> b_len <= 255 ->
  xmd_coded H b_len s_len msg dst n = xmd_rfc H b_len s_len msg dst n.
Proof. exact xmd_coded_equals_rfc. Qed.

Theorem C13_xmd_sha256_coded_equals_rfc :
  forall msg dst n, 0 <= n -> xmd_coded sha256 32 64 msg dst n = xmd_rfc sha256 32 64 msg dst n.
Proof. exact xmd_sha256_coded_equals_rfc. Qed.
Theorem C13_xmd_sha256_length :
  forall bs msg dst n bytes, 0 <= n -> xmd_coded sha256 32 bs msg dst n = XOk bytes -> Z.of_nat (length bytes) = n.
Proof. exact xmd_sha256_length. Qed.

(* output length = requested length *)
Theorem C13_xmd_length :
  forall (H : list Z -> list Z) (b_len : Z), 0 < b_len ->
  (forall x, Z.of_nat (length (H x)) = b_len) ->
  forall bs msg dst n bytes, 0 <= n -> xmd_coded H b_len bs msg dst n = XOk bytes -> Z.of_nat (length bytes) = n.
Proof. exact xmd_coded_length. Qed.

(* a request is rejected exactly when it needs more than 255 blocks or 2^16 bytes *)
Theorem C13_xmd_panics_iff :
  forall (H : list Z -> list Z) (b_len : Z),
  (forall x, Z.of_nat (length (H x)) = b_len) ->
  forall bs msg dst n, 0 <= n -> 0 <= bs <= 256 -> b_len <= 255 ->
  (xmd_coded H b_len bs msg dst n = XPanic <-> (div_ceil n b_len > 255 \/ n >= 65536)).
Proof. exact xmd_coded_panics_iff. Qed.

(* RFC 9380 appendix K.1 (expand_message_xmd, SHA-256), first two vectors, on both variants *)
Definition dst_k1 : list Z :=
  [81;85;85;88;45;86;48;49;45;67;83;48;50;45;119;105;116;104;45;101;120;112;97;110;100;101;114;45;83;72;65;50;53;54;45;49;50;56].
Example C13_xmd_vector_empty :
  xmd_rfc sha256 32 64 [] dst_k1 32 = xmd_coded sha256 32 64 [] dst_k1 32 /\
  match xmd_coded sha256 32 64 [] dst_k1 32 with
  | XOk b => os2ip b = 0x68a985b87eb6b46952128911f2a4412bbc302a9d759667f87f7a21d803f07235 | XPanic => False end.
Proof. vm_compute; split; reflexivity. Qed.
Example C13_xmd_vector_abc :
  match xmd_coded sha256 32 64 [97; 98; 99] dst_k1 32 with
  | XOk b => os2ip b = 0xd8ccab23b5985ccea865c6c97b6e5b8350e794e603b4b97902f53a8a0d605615 | XPanic => False end.
Proof. vm_compute; reflexivity. Qed.

(* ---------- hash_to_field ---------- *)
(* L = ceil((bits + k) / 8) *)
Theorem C13_len_per_elem_is_ceiling : forall bits sec, 0 <= bits + sec ->
  8 * (len_per_elem bits sec - 1) < bits + sec <= 8 * len_per_elem bits sec.
Proof. exact len_per_elem_ceil. Qed.
(* the shipped SHA-256 suites (381- and 377-bit base fields, k = 128) have L = 64 = SHA-256's block size, so the
   hasher's Z_pad (block_size = L) is the RFC's; for a 255-bit field L = 48 and it is not (observation O2) *)
Example C13_len_per_elem_suites :
  len_per_elem 381 128 = 64 /\ len_per_elem 377 128 = 64 /\ len_per_elem 255 128 = 48.
Proof. vm_compute; repeat split; reflexivity. Qed.

Theorem C13_hash_to_field_shape : forall expand p m sec count dst msg elems,
  0 < p -> 0 <= m -> 0 <= count ->
  hash_to_field expand p m sec count dst msg = HOk elems ->
  length elems = Z.to_nat count /\
  Forall (fun e => length e = Z.to_nat m /\ Forall (fun c => 0 <= c < p) e) elems.
Proof. exact hash_to_field_shape. Qed.

(* RFC 9380 5.2 steps 5-8: coordinate j of element i is OS2IP(substr(uniform_bytes, L (j + i m), L)) mod p *)
Theorem C13_hash_to_field_is_rfc : forall expand p m sec count dst msg elems bytes i j,
  hash_to_field expand p m sec count dst msg = HOk elems ->
  expand (len_per_elem (modulus_bits p) sec) msg dst (count * m * len_per_elem (modulus_bits p) sec) = XOk bytes ->
  (i < Z.to_nat count)%nat -> (j < Z.to_nat m)%nat ->
  nth j (nth i elems []) 0 =
  os2ip (substr bytes (len_per_elem (modulus_bits p) sec * (Z.of_nat j + Z.of_nat i * m))
                (len_per_elem (modulus_bits p) sec)) mod p.
Proof. exact hash_to_field_is_rfc. Qed.

(* ---------- simplified SWU (swu.rs, inversion-free variant) ---------- *)
(* for EVERY u: no panic (neither `expect`, nor the div3 / is_on_curve debug assertions), the point is on
   y^2 = x^3 + a x + b, and sgn0(y) = sgn0(u) unless y = 0 *)
Theorem C13_swu_correct :
  forall (K : Type) (zero one : K) (add sub mul : K -> K -> K) (neg inv : K -> K) (div : K -> K -> K)
         (eqb : K -> K -> bool),
  field_theory zero one add mul sub neg div inv eq -> (forall a b, eqb a b = true <-> a = b) ->
  forall (is_qr : K -> bool) (sqrt : K -> option K) (parity : K -> bool) (a b zeta : K),
  a <> zero -> zeta <> zero ->
  (forall x, is_qr x = true -> exists r, sqrt x = Some r /\ mul r r = x) ->
  sqrt zero = Some zero ->
  (forall x, x <> zero -> is_qr x = false -> is_qr (mul zeta x) = true) ->
  is_qr (sw_g add mul a b (mul b (inv (mul zeta a)))) = true ->
  forall u, exists x y,
    swu_coded zero one add mul neg inv eqb is_qr sqrt parity a b zeta u = MOk (x, y) /\
    mul y y = add (add (mul (mul x x) x) (mul a x)) b /\
    ((forall z, z <> zero -> parity (neg z) = negb (parity z)) -> y <> zero -> parity y = parity u).
Proof. exact (@swu_correct). Qed.

Example C13_ex_swu_gf13 : forall u, exists x y,
  F13_swu u = MOk (x, y) /\
  F13_mul y y = F13_add (F13_add (F13_mul (F13_mul x x) x) (F13_mul F13_1 x)) F13_1 /\
  (y <> F13_0 -> F13_parity y = F13_parity u).
Proof. exact F13_swu_correct. Qed.

(* ---------- Elligator 2 (elligator2.rs) ---------- *)
(* for EVERY u (u = 0, 1 + Z u^2 = 0, gx1 = 0, t (s + 1) = 0 included): no panic (`expect`s, the is_on_curve debug
   assertion) and the result is on a x^2 + y^2 = 1 + d x^2 y^2, a = (J + 2) / K, d = (J - 2) / K *)
Theorem C13_elligator2_correct :
  forall (K : Type) (zero one : K) (add sub mul : K -> K -> K) (neg inv : K -> K) (div : K -> K -> K)
         (eqb : K -> K -> bool),
  field_theory zero one add mul sub neg div inv eq -> (forall a b, eqb a b = true <-> a = b) ->
  forall (is_qr : K -> bool) (sqrt : K -> option K) (parity : K -> bool) (k j jk ki z ta td : K),
  k <> zero -> mul jk k = j -> mul ki (mul k k) = one ->
  mul ta k = add j (add one one) -> mul td k = sub j (add one one) ->
  (forall x, is_qr x = true -> exists r, sqrt x = Some r /\ mul r r = x) ->
  sqrt zero = Some zero ->
  (forall x, x <> zero -> is_qr x = false -> is_qr (mul z x) = true) ->
  (forall c x, c <> zero -> is_qr (mul (mul c c) x) = is_qr x) ->
  forall u, exists v w,
    ell2_coded zero one add sub mul neg inv eqb is_qr sqrt parity k jk ki z ta td u = MOk (v, w) /\
    add (mul ta (mul v v)) (mul w w) = add one (mul td (mul (mul v v) (mul w w))).
Proof. exact (@ell2_correct). Qed.

Example C13_ex_elligator2_gf13 : forall u, exists v w,
  F13_ell2 u = MOk (v, w) /\
  F13_add (F13_mul F13_5 (F13_mul v v)) (F13_mul w w) =
  F13_add F13_1 (F13_mul F13_1 (F13_mul (F13_mul v v) (F13_mul w w))).
Proof. exact F13_ell2_correct. Qed.

(* ---------- Elligator 2: the coded map IS the RFC 9380 map, exceptional inputs included ---------- *)
(* RFC 9380 section 6.7.1 steps 1-10 (`ell2_rfc_mont`; step 2: "if x1 == 0, set x1 = -(J/K)") followed by the rational
   map of appendix D.1 (`mont_to_te`).  No premise on the shape of the field (nothing like p = 1 mod 4): over
   p = 3 (mod 4) the exceptional denominator 1 + Z u^2 has the roots u = +-sqrt(-1/Z) and they are covered.  The only
   excluded inputs are those with gx1 = 0, where the code (Legendre symbol of 0 is not "QR") takes x2 and the RFC
   (is_square(0) = true) takes x1 -- observation O-a in NOTES.md; for such u C13_elligator2_correct still applies. *)
Theorem C13_elligator2_equals_rfc :
  forall (K : Type) (zero one : K) (add sub mul : K -> K -> K) (neg inv : K -> K) (div : K -> K -> K)
         (eqb : K -> K -> bool),
  field_theory zero one add mul sub neg div inv eq -> (forall a b, eqb a b = true <-> a = b) ->
  forall (is_qr : K -> bool) (sqrt : K -> option K) (parity : K -> bool) (k j jk ki z ta td : K),
  k <> zero -> mul jk k = j -> mul ki (mul k k) = one ->
  mul ta k = add j (add one one) -> mul td k = sub j (add one one) ->
  (forall x, is_qr x = true -> exists r, sqrt x = Some r /\ mul r r = x) ->
  sqrt zero = Some zero ->
  (forall x, x <> zero -> is_qr x = false -> is_qr (mul z x) = true) ->
  (forall c x, c <> zero -> is_qr (mul (mul c c) x) = is_qr x) ->
  forall u,
    (let x1 := ell2_rfc_x1 zero one add mul neg inv eqb jk z u in
     add (add (mul (mul x1 x1) x1) (mul jk (mul x1 x1))) (mul x1 ki) <> zero) ->
    exists Q,
      ell2_rfc_mont zero one add sub mul neg inv eqb is_qr sqrt parity k j z u = Some Q /\
      ell2_coded zero one add sub mul neg inv eqb is_qr sqrt parity k jk ki z ta td u =
        MOk (mont_to_te zero one add sub mul inv eqb Q).
Proof. exact (@ell2_coded_equals_rfc). Qed.

(* the exceptional inputs: 1 + Z u^2 = 0.  J <> 0 (a precondition of Elligator 2) is all that is needed *)
Theorem C13_elligator2_exceptional_is_rfc :
  forall (K : Type) (zero one : K) (add sub mul : K -> K -> K) (neg inv : K -> K) (div : K -> K -> K)
         (eqb : K -> K -> bool),
  field_theory zero one add mul sub neg div inv eq -> (forall a b, eqb a b = true <-> a = b) ->
  forall (is_qr : K -> bool) (sqrt : K -> option K) (parity : K -> bool) (k j jk ki z ta td : K),
  k <> zero -> mul jk k = j -> mul ki (mul k k) = one ->
  mul ta k = add j (add one one) -> mul td k = sub j (add one one) ->
  (forall x, is_qr x = true -> exists r, sqrt x = Some r /\ mul r r = x) ->
  sqrt zero = Some zero ->
  (forall x, x <> zero -> is_qr x = false -> is_qr (mul z x) = true) ->
  (forall c x, c <> zero -> is_qr (mul (mul c c) x) = is_qr x) ->
  forall u, jk <> zero -> add one (mul z (mul u u)) = zero ->
    exists Q,
      ell2_rfc_mont zero one add sub mul neg inv eqb is_qr sqrt parity k j z u = Some Q /\
      ell2_coded zero one add sub mul neg inv eqb is_qr sqrt parity k jk ki z ta td u =
        MOk (mont_to_te zero one add sub mul inv eqb Q).
Proof. exact (@ell2_exceptional_is_rfc). Qed.

(* ... and their value (RFC steps 1-2: x1 = -(J/K); gx1 = g(-J/K) = -(J/K)/K^2): if gx1 is a square the Montgomery
   point is (-J, K y) with y^2 = gx1 and sgn0(y) = 1; otherwise x2 = 0, the point is (0, 0) and its image the identity *)
Theorem C13_elligator2_exceptional_value :
  forall (K : Type) (zero one : K) (add sub mul : K -> K -> K) (neg inv : K -> K) (div : K -> K -> K)
         (eqb : K -> K -> bool),
  field_theory zero one add mul sub neg div inv eq -> (forall a b, eqb a b = true <-> a = b) ->
  forall (is_qr : K -> bool) (sqrt : K -> option K) (parity : K -> bool) (k j jk ki z ta td : K),
  k <> zero -> mul jk k = j -> mul ki (mul k k) = one ->
  mul ta k = add j (add one one) -> mul td k = sub j (add one one) ->
  (forall x, is_qr x = true -> exists r, sqrt x = Some r /\ mul r r = x) ->
  sqrt zero = Some zero ->
  (forall x, x <> zero -> is_qr x = false -> is_qr (mul z x) = true) ->
  (forall c x, c <> zero -> is_qr (mul (mul c c) x) = is_qr x) ->
  forall u, add one (mul z (mul u u)) = zero ->
    (is_qr (neg (mul jk ki)) = true ->
       exists y0, sqrt (neg (mul jk ki)) = Some y0 /\ mul y0 y0 = neg (mul jk ki) /\
         ell2_coded zero one add sub mul neg inv eqb is_qr sqrt parity k jk ki z ta td u =
           MOk (mont_to_te zero one add sub mul inv eqb
                  (mul (neg jk) k, mul (if parity y0 then y0 else neg y0) k))) /\
    (is_qr (neg (mul jk ki)) = false ->
       ell2_coded zero one add sub mul neg inv eqb is_qr sqrt parity k jk ki z ta td u = MOk (zero, one)).
Proof. exact (@ell2_exceptional_value). Qed.

(* GF(7) is a field with p = 3 (mod 4): for Z = -1 = 6 the inputs u = 1, 6 are exceptional (1 + Z u^2 = 0), and with
   J = 3, K = 1 every premise holds for every u (x^2 + 3 x + 1 has no root, so gx1 <> 0 throughout) *)
Example C13_ex_elligator2_gf7_is_rfc : forall u, exists Q,
  F7_ell2_rfc u = Some Q /\ F7_ell2 u = MOk (F7_mont_to_te Q).
Proof. exact F7_ell2_is_rfc. Qed.
Example C13_ex_elligator2_gf7_exceptional :
  F7_add F7_1 (F7_mul F7_6 (F7_mul F7_1 F7_1)) = F7_0 /\
  F7_ell2_rfc F7_1 = Some (F7_4, F7_5) /\ F7_ell2 F7_1 = MOk (F7_5, F7_2) /\ F7_ell2 F7_6 = MOk (F7_5, F7_2).
Proof. exact F7_ell2_exceptional. Qed.

(* ---------- isogeny of the Wahby-Boneh map (wb.rs) ---------- *)
(* if the coefficient-wise identity yn^2 (x^3 + a' x + b') xd^3 = (xn^3 + A xn xd^2 + B xd^3) yd^2 holds in K[x]
   (`iso_identity`, a closed computation), then EVERY point of E' with non-vanishing denominators is sent to a point of
   E (by the code as written and by the model alike), and the points where a denominator vanishes -- the kernel -- are
   sent to the identity by the model (RFC 9380 6.6.3; the shipped code returns (0,0) there: DEFECT-1 in NOTES.md) *)
Theorem C13_isogeny_maps_curve_to_curve :
  forall (K : Type) (zero one : K) (add sub mul : K -> K -> K) (neg inv : K -> K) (div : K -> K -> K)
         (eqb : K -> K -> bool),
  field_theory zero one add mul sub neg div inv eq -> (forall a b, eqb a b = true <-> a = b) ->
  forall (a' b' A B : K) (xn xd yn yd : list K),
  iso_identity zero one add mul eqb a' b' A B xn xd yn yd = true ->
  forall x y, mul y y = add (add (mul (mul x x) x) (mul a' x)) b' ->
  (peval zero add mul xd x <> zero -> peval zero add mul yd x <> zero ->
   exists X Y, iso_apply zero add mul inv eqb xn xd yn yd (Some (x, y)) = Some (X, Y) /\
               iso_apply_as_coded zero add mul inv eqb xn xd yn yd (Some (x, y)) = Some (X, Y) /\
               mul Y Y = add (add (mul (mul X X) X) (mul A X)) B) /\
  ((peval zero add mul xd x = zero \/ peval zero add mul yd x = zero) ->
   iso_apply zero add mul inv eqb xn xd yn yd (Some (x, y)) = None).
Proof. exact (@iso_maps_curve_to_curve). Qed.

(* the identity holds for shipped isogeny constants (coq/C13/IsoData.v is regenerated from the compiled Rust
   constants every run).  Kernel-checked here: the toy isogeny of the ec tests, BLS12-377 G1, BLS12-381 G2
   (test-curves).  The 11-isogeny of BLS12-381 G1 takes ~9 min per crate under vm_compute on stdlib Z (done once,
   all seven true); every run re-checks all of them on the extracted model (op config_ok). *)
Example C13_iso_identity_toy127 : iso_toy127_ok = true.
Proof. vm_compute; reflexivity. Qed.
Example C13_iso_identity_bls12_377_g1 : iso_c377_g1_ok = true.
Proof. vm_compute; reflexivity. Qed.
Example C13_iso_identity_bls12_381_g2 : iso_t381_g2_ok = true.
Proof. vm_compute; reflexivity. Qed.
