(* C13, extension 3 -- property theorems only (pinned statements closed by `exact`; Examples by `exact` / closed kernel
   computation): the coded simplified SWU map of ec/src/hashing/curve_maps/swu.rs IS the map of RFC 9380 section 6.6.2.
   Statements are over an arbitrary field (carrier with Leibniz equality, operations, a `field_theory` proof, a boolean
   equality test, a Legendre test `is_qr`, a square-root oracle `sqrt`, a parity function = sgn0) and over EVERY field
   element u with g(x1) <> 0, the exceptional inputs u = 0 and Z^2 u^4 + Z u^2 = 0 included. *)
From Coq Require Import ZArith List Bool Field.
From V Require Import C11.SmallFields C13.Maps C13.MapProofs C13.Examples C13.SwuRfc.
Import ListNotations.
Open Scope Z_scope.

(* Premises: those of C13_swu_correct (a <> 0, Z <> 0, sqrt_ok, sqrt_zero, nonsquare_mul, exceptional_ok), parity_neg
   (sgn0(-z) <> sgn0(z) for z <> 0) and ONE more mathematical premise, sqrt_complete: the oracle returns a root of every
   non-zero square (needed because in the non-square branch the RFC asks for sqrt(gx2) while the code asks for sqrt(Z gx1)
   and sets y = Z u^3 y1: the two roots of gx2 obtained that way may be opposite; y^2 = s^2 -> y = +-s is proved from the
   field axioms and the sign fix sgn0(y) = sgn0(u) sends both to the same value).
   The premise on u spells out RFC steps 1-4 with the definitions of Maps.v: x1 is literally the sub-term of `swu_rfc`.
   Conclusion: no panic, and the coded map and the RFC map return THE SAME affine point, sign included.
   Excluded: g(x1) = 0 (observation O-a of NOTES.md), see C13_swu_gx1_zero_value. *)
Theorem C13_swu_equals_rfc :
  forall (K : Type) (zero one : K) (add sub mul : K -> K -> K) (neg inv : K -> K) (div : K -> K -> K)
         (eqb : K -> K -> bool),
  field_theory zero one add mul sub neg div inv eq -> (forall a b, eqb a b = true <-> a = b) ->
  forall (is_qr : K -> bool) (sqrt : K -> option K) (parity : K -> bool) (a b zeta : K),
  a <> zero -> zeta <> zero ->
  (forall x, is_qr x = true -> exists r, sqrt x = Some r /\ mul r r = x) ->
  sqrt zero = Some zero ->
  (forall x, x <> zero -> is_qr x = false -> is_qr (mul zeta x) = true) ->
  is_qr (sw_g add mul a b (mul b (inv (mul zeta a)))) = true ->
  (forall z, z <> zero -> parity (neg z) = negb (parity z)) ->
  (forall x r, r <> zero -> mul r r = x -> exists s, sqrt x = Some s /\ mul s s = x) ->
  forall u,
    (let tv1 := inv0 zero inv eqb (add (mul (sq mul zeta) (sq mul (sq mul u))) (mul zeta (sq mul u))) in
     let x1 := if is0 zero eqb tv1 then mul b (inv (mul zeta a)) else mul (mul (neg b) (inv a)) (add one tv1) in
     sw_g add mul a b x1 <> zero) ->
    exists x y,
      swu_coded zero one add mul neg inv eqb is_qr sqrt parity a b zeta u = MOk (x, y) /\
      swu_rfc zero one add mul neg inv eqb is_qr sqrt parity a b zeta u = Some (x, y).
Proof. exact (@swu_coded_equals_rfc). Qed.

(* the excluded inputs, spelled out.  g(x1) = 0 (x1 a 2-torsion abscissa of E'): the Legendre symbol of 0 is Zero, not
   QuadraticResidue (premise `is_qr zero = false`), so the code takes the x2 branch and returns (Z u^2 x1, 0), whereas
   is_square(0) = true in the RFC, which returns (x1, 0).  Both are points of the curve (g(Z u^2 x1) = 0 as well). *)
Theorem C13_swu_gx1_zero_value :
  forall (K : Type) (zero one : K) (add sub mul : K -> K -> K) (neg inv : K -> K) (div : K -> K -> K)
         (eqb : K -> K -> bool),
  field_theory zero one add mul sub neg div inv eq -> (forall a b, eqb a b = true <-> a = b) ->
  forall (is_qr : K -> bool) (sqrt : K -> option K) (parity : K -> bool) (a b zeta : K),
  a <> zero -> zeta <> zero ->
  (forall x, is_qr x = true -> exists r, sqrt x = Some r /\ mul r r = x) ->
  sqrt zero = Some zero ->
  (forall x, x <> zero -> is_qr x = false -> is_qr (mul zeta x) = true) ->
  is_qr (sw_g add mul a b (mul b (inv (mul zeta a)))) = true ->
  is_qr zero = false ->
  forall u,
    let tv1 := inv0 zero inv eqb (add (mul (sq mul zeta) (sq mul (sq mul u))) (mul zeta (sq mul u))) in
    let x1 := if is0 zero eqb tv1 then mul b (inv (mul zeta a)) else mul (mul (neg b) (inv a)) (add one tv1) in
    sw_g add mul a b x1 = zero ->
    swu_coded zero one add mul neg inv eqb is_qr sqrt parity a b zeta u = MOk (mul (mul zeta (sq mul u)) x1, zero) /\
    swu_rfc zero one add mul neg inv eqb is_qr sqrt parity a b zeta u = Some (x1, zero) /\
    sw_g add mul a b (mul (mul zeta (sq mul u)) x1) = zero.
Proof. exact (@swu_gx1_zero_value). Qed.

Print Assumptions C13_swu_equals_rfc.
Print Assumptions C13_swu_gx1_zero_value.

(* ---------- (1) GF(13), y^2 = x^3 + x + 1, Z = 5: the instance of C13_ex_swu_gf13.  Every premise of C13_swu_equals_rfc is
   proved (C13/SwuRfc.v: F13_swu_is_rfc applies the theorem), g(x1) <> 0 for all 13 values of u, hence: *)
Example C13_ex_swu_gf13_is_rfc : forall u, exists x y, F13_swu u = MOk (x, y) /\ F13_swu_rfc u = Some (x, y).
Proof. exact F13_swu_is_rfc. Qed.
(* ... and the same in the kernel, value by value (u = 0, 1, ..., 12; u = 0 is exceptional: x1 = B/(Z A) = 8) *)
Example C13_ex_swu_gf13_table :
  F13_coded_tbl F13_swu = F13_rfc_tbl F13_swu_rfc /\
  F13_rfc_tbl F13_swu_rfc =
    [Some (8, 12); Some (10, 7); Some (1, 4); Some (5, 1); Some (1, 4); Some (10, 7); Some (5, 12);
     Some (5, 1); Some (10, 6); Some (1, 9); Some (5, 12); Some (1, 9); Some (10, 6)].
Proof. vm_compute; split; reflexivity. Qed.

(* ---------- (2) GF(13), y^2 = x^3 + 4 x + 2, Z = 5: g has the roots 8 and 9, reached by x1 exactly at u = 3, 6, 7, 10.
   Away from them the theorem applies; at them C13_swu_gx1_zero_value applies and the two maps differ (O-a) *)
Example C13_ex_swu_gf13b_gx1_zero_inputs : filter F13b_gx1_zero F13_all = [F13_3; F13_6; F13_7; F13_10].
Proof. vm_compute; reflexivity. Qed.
Example C13_ex_swu_gf13b_is_rfc : forall u, F13b_gx1_zero u = false ->
  exists x y, F13b_swu u = MOk (x, y) /\ F13b_swu_rfc u = Some (x, y).
Proof. exact F13b_swu_is_rfc. Qed.
Example C13_ex_swu_gf13b_gx1_zero : forall u, F13b_gx1_zero u = true ->
  F13b_swu u = MOk (F13_mul (F13_mul F13_5 (F13_mul u u)) (F13b_swu_x1 u), F13_0) /\
  F13b_swu_rfc u = Some (F13b_swu_x1 u, F13_0).
Proof. exact F13b_swu_gx1_zero. Qed.
Example C13_ex_swu_gf13b_table :
  F13_coded_tbl F13b_swu =
    [Some (4, 2); Some (5, 11); Some (7, 10); Some (9, 0); Some (7, 10); Some (5, 11); Some (8, 0);
     Some (8, 0); Some (5, 2); Some (7, 3); Some (9, 0); Some (7, 3); Some (5, 2)] /\
  F13_rfc_tbl F13b_swu_rfc =
    [Some (4, 2); Some (5, 11); Some (7, 10); Some (8, 0); Some (7, 10); Some (5, 11); Some (9, 0);
     Some (9, 0); Some (5, 2); Some (7, 3); Some (8, 0); Some (7, 3); Some (5, 2)].
Proof. vm_compute; split; reflexivity. Qed.

(* ---------- (3) GF(7) (p = 3 mod 4), y^2 = x^3 + x + 6, Z = 6 = -1: the exceptional inputs Z u^2 = -1 exist (u = 1, 6;
   x1 = B/(Z A) = 1 there, as for u = 0); all premises hold, g has no root, the maps agree for all 7 values of u *)
Example C13_ex_swu_gf7_is_rfc : forall u, exists x y, F7_swu u = MOk (x, y) /\ F7_swu_rfc u = Some (x, y).
Proof. exact F7_swu_is_rfc. Qed.
Example C13_ex_swu_gf7_table :
  map F7_swu_x1 F7_all = [F7_1; F7_1; F7_4; F7_5; F7_5; F7_4; F7_1] /\
  F7_coded_tbl F7_swu = F7_rfc_tbl F7_swu_rfc /\
  F7_rfc_tbl F7_swu_rfc = [Some (1, 6); Some (1, 1); Some (4, 2); Some (4, 5); Some (4, 2); Some (4, 5); Some (1, 6)].
Proof. vm_compute; repeat split; reflexivity. Qed.
