(* C14 -- property theorems only: pinned statements, each closed by `exact`.
   Models (coq/C14/Par.v) take the number of rayon threads [nt] as an explicit parameter and
   mirror the chunk arithmetic of the `parallel` code paths; every theorem holds for EVERY nt
   (non powers of two, larger than the input, even nt <= 0) and every input.
   F : Fops T is an arbitrary field dictionary; `is_field F` (field_theory of its operations,
   Leibniz equality) and `eqb_correct F` are explicit premises (definitions in C07/DomainProofs.v).
   rayon's scheduling is not modelled (closures are pure functions of disjoint chunks): the
   property is partial on its `schedules` quantifier -- see props/C14/NOTES.md. *)
From V Require Import Base.Field C07.Dft C07.Radix2 C07.MixedRadix C07.Domain C07.DomainProofs
  C14.Par C14.ParProofs C14.ParFftProofs.

(* parallel distribute_powers_and_mul_by_const (chunks of max(len/nt, 1024), chunk i starting at
   c * g^(i*chunk)) = the serial loop *)
Theorem C14_distribute_powers_par_equals_serial : forall T (F : Fops T), is_field F ->
  forall nt coeffs g c,
  par_distribute_powers_and_mul_by_const F nt coeffs g c = distribute_powers_and_mul_by_const F coeffs g c.
Proof. exact (@distribute_powers_par_equals_serial). Qed.

(* chunked Horner (chunks of max(len/nt, 16), partial value scaled by x^(i*chunk), summed) = plain Horner *)
Theorem C14_horner_par_equals_serial : forall T (F : Fops T), is_field F ->
  forall nt coeffs x, par_internal_evaluate F nt coeffs x = horner F coeffs x.
Proof. exact (@horner_par_equals_serial). Qed.
(* ... which is the value of the polynomial (C07's specification-level `eval`) *)
Theorem C14_horner_is_eval : forall T (F : Fops T), is_field F ->
  forall c x, horner F c x = eval F c x.
Proof. exact (@horner_eval). Qed.
(* DensePolynomial::evaluate including its zero-polynomial / zero-point shortcuts *)
Theorem C14_evaluate_par_equals_serial : forall T (F : Fops T), is_field F ->
  forall nt coeffs x, par_evaluate F nt coeffs x = serial_evaluate F coeffs x.
Proof. exact (@evaluate_par_equals_serial). Qed.

(* batch_inversion_and_mul on chunks of max(len/nt, 1), independent Montgomery trick per chunk:
   element-wise coeff / v_i, zero entries left untouched; equal to the one-chunk (serial) run *)
Theorem C14_batch_inv_par_spec : forall T (F : Fops T), is_field F -> eqb_correct F ->
  forall nt v coeff,
  par_batch_inversion_and_mul F nt v coeff =
  map (fun f => if fis0 F f then f else fmul F coeff (finv F f)) v.
Proof. exact (@batch_inv_par_spec). Qed.
Theorem C14_batch_inv_par_equals_serial : forall T (F : Fops T), is_field F -> eqb_correct F ->
  forall nt v coeff,
  par_batch_inversion_and_mul F nt v coeff = serial_batch_inversion_and_mul F v coeff.
Proof. exact (@batch_inv_par_equals_serial). Qed.

(* the recursive roots-of-unity table (log_powers split, rayon::join, chunk-wise recombination)
   = [1, g, g^2, ..., g^(size/2 - 1)] = the serial compute_powers_serial(size/2, root) *)
Theorem C14_roots_recursive_spec : forall T (F : Fops T), is_field F ->
  forall log_size root,
  par_roots_of_unity F log_size root = powers F (Nat.div (2 ^ log_size) 2) root (f1 F).
Proof. exact (@roots_recursive_spec). Qed.

(* Radix2EvaluationDomain::fft_in_place / ifft_in_place of the parallel build (parallel
   distribute_powers, parallel roots table) = the serial model of C07, which C07 proves to be the DFT *)
Theorem C14_par_radix2_fft_equals_serial : forall T (F : Fops T), is_field F ->
  forall nt d coeffs, par_radix2_fft F nt d coeffs = radix2_fft F d coeffs.
Proof. exact (@par_radix2_fft_equals_serial). Qed.
Theorem C14_par_radix2_ifft_equals_serial : forall T (F : Fops T), is_field F ->
  forall nt d evals, par_radix2_ifft F nt d evals = radix2_ifft F d evals.
Proof. exact (@par_radix2_ifft_equals_serial). Qed.

(* parallel_fft: split into ntn = 2^log_cpus cosets, build the k-th coset polynomial with the
   running twiddle (omega_k, omega_step; the accumulator returns to omega^(k(i+1)) because
   omega^m = 1), sub-FFT with omega^ntn, re-interleave tmp[i mod ntn][i / ntn]: computes the DFT
   of the whole array whenever the sub-FFT computes the DFT of a coset-sized array *)
Theorem C14_parallel_fft_equals_dft : forall T (F : Fops T), is_field F ->
  forall (sfft : list T -> T -> Z -> option (list T)) (ntn csn : nat) a omega log_n log_cpus,
  (0 <= log_cpus <= log_n)%Z -> (2 ^ log_cpus)%Z = Z.of_nat ntn -> (1 <= csn)%nat ->
  length a = (ntn * csn)%nat ->
  pown F omega (ntn * csn) = f1 F ->
  (forall x, length x = csn ->
     sfft x (pown F omega ntn) (k_adicity 2 (Z.of_nat csn)) = Some (dft F csn (pown F omega ntn) x)) ->
  parallel_fft F sfft a omega log_n log_cpus = Some (dft F (ntn * csn) omega a).
Proof. exact (@parallel_fft_equals_dft). Qed.

(* best_fft (switch on floor(log2 nt)) returns what the serial transform returns, for every nt *)
Theorem C14_best_fft_equals_serial : forall T (F : Fops T), is_field F ->
  forall (sfft : list T -> T -> Z -> option (list T)) (nt : Z) (csn : nat) a omega log_n,
  let ntn := Z.to_nat (2 ^ log2_floor nt) in
  (1 <= csn)%nat -> length a = (ntn * csn)%nat ->
  pown F omega (ntn * csn) = f1 F ->
  sfft a omega log_n = Some (dft F (ntn * csn) omega a) ->
  (forall x, length x = csn ->
     sfft x (pown F omega ntn) (k_adicity 2 (Z.of_nat csn)) = Some (dft F csn (pown F omega ntn) x)) ->
  best_fft F nt sfft a omega log_n = sfft a omega log_n.
Proof. exact (@best_fft_equals_serial). Qed.

(* MixedRadixEvaluationDomain::fft_in_place / ifft_in_place, parallel = serial.
   PARTIAL: conditional on `mixed_serial_is_dft` -- C07's serial mixed-radix model computing the
   DFT on the array and on a coset-sized array -- which C07 does not prove (its mixed-radix part
   is correspondence-only).  FULL STATEMENT wanted:
     forall nt q d coeffs, <d built by mixed_new> -> par_mixed_fft F nt q d coeffs = mixed_fft F q d coeffs. *)
Theorem C14_par_mixed_fft_equals_serial_partial : forall T (F : Fops T), is_field F ->
  forall nt q d coeffs csn,
  mixed_serial_is_dft F q nt
    (resize F (Z.to_nat (d_size d))
       (if is_one F (d_offset d) then coeffs else distribute_powers F coeffs (d_offset d)))
    (d_gen d) (d_log d) csn ->
  par_mixed_fft F nt q d coeffs = mixed_fft F q d coeffs.
Proof. exact (@par_mixed_fft_equals_serial). Qed.
Theorem C14_par_mixed_ifft_equals_serial_partial : forall T (F : Fops T), is_field F ->
  forall nt q d evals csn,
  mixed_serial_is_dft F q nt (resize F (Z.to_nat (d_size d)) evals) (d_gen_inv d) (d_log d) csn ->
  par_mixed_ifft F nt q d evals = mixed_ifft F q d evals.
Proof. exact (@par_mixed_ifft_equals_serial). Qed.

(* ---------- the hypotheses are satisfiable / the conclusions on concrete inputs (F_17, F_97) ---------- *)
(* thread counts that are not powers of two and exceed the input length *)
Example C14_example_horner :
  par_internal_evaluate (ZpOps 97) 3 (map Z.of_nat (seq 1 53)) 5 = horner (ZpOps 97) (map Z.of_nat (seq 1 53)) 5
  /\ par_internal_evaluate (ZpOps 97) 64 [1;2;3] 5 = eval (ZpOps 97) [1;2;3] 5.
Proof. vm_compute. split; reflexivity. Qed.
Example C14_example_batch_inv :
  par_batch_inversion_and_mul (ZpOps 97) 3 [5;0;7;11;0;13;96] 2 = [78;0;28;9;0;30;95]
  /\ par_batch_inversion_and_mul (ZpOps 97) 64 [5;0;7] 2 = serial_batch_inversion_and_mul (ZpOps 97) [5;0;7] 2.
Proof. vm_compute. split; reflexivity. Qed.
Example C14_example_roots :
  par_roots_of_unity (ZpOps 12289) 10 1945 = powers (ZpOps 12289) 512 1945 1.
Proof. vm_compute. reflexivity. Qed.
(* parallel_fft premises in F_17: omega = 2 has order 8 = 2 cosets * 4; the naive sub-FFT satisfies
   the sub-FFT premise by definition; 3 threads -> floor(log2 3) = 1 -> 2 cosets *)
Example C14_example_parallel_fft :
  pown (ZpOps 17) 2 (2 * 4) = f1 (ZpOps 17)
  /\ parallel_fft (ZpOps 17) (fun x w _ => Some (dft (ZpOps 17) (length x) w x)) [1;2;3;4;5;6;7;8] 2 3 1
     = Some (dft (ZpOps 17) 8 2 [1;2;3;4;5;6;7;8])
  /\ best_fft (ZpOps 17) 3 (fun x w _ => Some (dft (ZpOps 17) (length x) w x)) [1;2;3;4;5;6;7;8] 2 3
     = Some (dft (ZpOps 17) 8 2 [1;2;3;4;5;6;7;8]).
Proof. vm_compute. repeat split; reflexivity. Qed.
(* the mixed-radix premise holds on a concrete domain: F_97 (q = 3), size 12 = 3 * 2^2, generator 64^... *)
Example C14_example_mixed :
  let F := ZpOps 97 in
  let w := pown F 5 8 in                      (* 5 generates F_97^*, so w has order 12 *)
  serial_mixed_radix_fft F 3 [1;2;3;4;5;6;7;8;9;10;11;12] w 2 = Some (dft F 12 w [1;2;3;4;5;6;7;8;9;10;11;12])
  /\ best_fft F 5 (serial_mixed_radix_fft F 3) [1;2;3;4;5;6;7;8;9;10;11;12] w 2
     = serial_mixed_radix_fft F 3 [1;2;3;4;5;6;7;8;9;10;11;12] w 2.
Proof. vm_compute. split; reflexivity. Qed.

(* ====================================================================================== *)
(* Extension: the premise `mixed_serial_is_dft` of the two `_partial` theorems above is    *)
(* discharged by C07/MixedSpec.v (serial_mixed_radix_fft computes the DFT): FULL statements *)
(* for a mixed-radix domain of size n = 2^s q^t (q odd >= 3, d_log = s) whose generator has *)
(* gen^n = 1 and gen^(n/2) = -1 when s >= 1 (what get_root_of_unity returns, C07); EVERY nt. *)
(* ====================================================================================== *)
From V Require Import C14.MixedFull.

(* best_fft over the serial mixed-radix transform is independent of the thread count *)
Theorem C14_best_fft_mixed_equals_serial : forall T (F : Fops T), is_field F ->
  forall (nt : Z) (q s t : nat) omega (a : list T),
  (3 <= q)%nat -> Z.odd (Z.of_nat q) = true -> length a = (2 ^ s * q ^ t)%nat ->
  pown F omega (2 ^ s * q ^ t) = f1 F ->
  ((1 <= s)%nat -> pown F omega (2 ^ (s - 1) * q ^ t) = fneg F (f1 F)) ->
  best_fft F nt (serial_mixed_radix_fft F (Z.of_nat q)) a omega (Z.of_nat s)
  = serial_mixed_radix_fft F (Z.of_nat q) a omega (Z.of_nat s).
Proof. exact (@best_fft_mixed). Qed.

Theorem C14_par_mixed_fft_equals_serial : forall T (F : Fops T), is_field F ->
  forall (nt : Z) (q s t : nat) (d : domain T) coeffs,
  (3 <= q)%nat -> Z.odd (Z.of_nat q) = true ->
  d_size d = Z.of_nat (2 ^ s * q ^ t) -> d_log d = Z.of_nat s ->
  pown F (d_gen d) (2 ^ s * q ^ t) = f1 F ->
  ((1 <= s)%nat -> pown F (d_gen d) (2 ^ (s - 1) * q ^ t) = fneg F (f1 F)) ->
  par_mixed_fft F nt (Z.of_nat q) d coeffs = mixed_fft F (Z.of_nat q) d coeffs.
Proof. exact (@par_mixed_fft_equals_serial_full). Qed.

Theorem C14_par_mixed_ifft_equals_serial : forall T (F : Fops T), is_field F ->
  forall (nt : Z) (q s t : nat) (d : domain T) evals,
  (3 <= q)%nat -> Z.odd (Z.of_nat q) = true ->
  d_size d = Z.of_nat (2 ^ s * q ^ t) -> d_log d = Z.of_nat s ->
  fmul F (d_gen d) (d_gen_inv d) = f1 F ->
  pown F (d_gen d) (2 ^ s * q ^ t) = f1 F ->
  ((1 <= s)%nat -> pown F (d_gen d) (2 ^ (s - 1) * q ^ t) = fneg F (f1 F)) ->
  par_mixed_ifft F nt (Z.of_nat q) d evals = mixed_ifft F (Z.of_nat q) d evals.
Proof. exact (@par_mixed_ifft_equals_serial_full). Qed.

(* non-vacuity: F_97 (q = 3), w = 5^8 of order 12 = 2^2 * 3 (w^6 = -1), domain record of size 12, 5 and 64 threads *)
Example C14_example_mixed_full :
  let F := ZpOps 97 in
  let w := pown F 5 8 in
  let d := mkDomain true 12 2 12 (finv F 12) w (finv F w) 1 1 1 in
  pown F w 12 = f1 F /\ pown F w 6 = fneg F (f1 F) /\ fmul F w (finv F w) = f1 F
  /\ par_mixed_fft F 5 3 d [1;2;3;4;5;6;7] = mixed_fft F 3 d [1;2;3;4;5;6;7]
  /\ par_mixed_fft F 64 3 d [1;2;3;4;5;6;7] = mixed_fft F 3 d [1;2;3;4;5;6;7]
  /\ par_mixed_ifft F 5 3 d [1;2;3;4;5;6;7;8;9;10;11;12] = mixed_ifft F 3 d [1;2;3;4;5;6;7;8;9;10;11;12].
Proof. vm_compute. repeat split; reflexivity. Qed.
