(* C14 property theorems (filled in below; see coq/C14/ParProofs.v) *)
From V Require Import Base.Field C14.Par.
Theorem C14_log2_floor_one : log2_floor 1 = 0.
Proof. vm_compute; reflexivity. Qed.
