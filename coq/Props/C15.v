(* C15 -- property theorems only: pinned statements, each closed by `exact`. *)
From V Require Import Base.Word C15.GenArith C15.LeafSpecs C15.BigIntModel C15.BigIntProofs
  C15.ShiftProofs C15.MulProofs C15.BitsProofs C15.RecodeProofs C15.ConstProofs
  C15.DecimalProofs C15.BitwiseProofs C15.MiscProofs.

(* leaf arithmetic, about the definitions regenerated from arithmetic.rs *)
Theorem C15_adc : forall a b c, u64 a -> u64 b -> u64 c ->
  adc a b c = ((a + b + c) mod W64, (a + b + c) / W64).
Proof. exact adc_spec. Qed.
Theorem C15_sbb : forall a b c, u64 a -> u64 b -> 0 <= c <= 1 ->
  sbb a b c = ((a - b - c) mod W64, borrow_of a b c).
Proof. exact sbb_spec. Qed.
Theorem C15_mac_with_carry : forall a b c k, u64 a -> u64 b -> u64 c -> u64 k ->
  mac_with_carry a b c k = ((a + b * c + k) mod W64, (a + b * c + k) / W64).
Proof. exact mac_with_carry_spec. Qed.

(* add_with_carry / sub_with_borrow: exact value and exact flag, every limb count *)
Theorem C15_add_with_carry : forall a b, wf a -> wf b -> length a = length b ->
  let '(r, c) := add_with_carry a b in
  wf r /\ length r = length a /\ val r + Wn (length a) * Z.b2z c = val a + val b.
Proof. exact add_with_carry_spec. Qed.
Theorem C15_add_with_carry_mod : forall a b, wf a -> wf b -> length a = length b ->
  val (fst (add_with_carry a b)) = (val a + val b) mod Wn (length a) /\
  snd (add_with_carry a b) = (Wn (length a) <=? val a + val b).
Proof. exact add_with_carry_mod. Qed.
Theorem C15_sub_with_borrow : forall a b, wf a -> wf b -> length a = length b ->
  let '(r, c) := sub_with_borrow a b in
  wf r /\ length r = length a /\ val r - Wn (length a) * Z.b2z c = val a - val b.
Proof. exact sub_with_borrow_spec. Qed.
Theorem C15_sub_with_borrow_mod : forall a b, wf a -> wf b -> length a = length b ->
  val (fst (sub_with_borrow a b)) = (val a - val b) mod Wn (length a) /\
  snd (sub_with_borrow a b) = (val a <? val b).
Proof. exact sub_with_borrow_mod. Qed.
Theorem C15_cmp : forall a b, wf a -> wf b -> length a = length b ->
  cmp a b = Z.compare (val a) (val b).
Proof. exact cmp_spec. Qed.
Theorem C15_is_zero : forall a, wf a -> is_zero a = (val a =? 0).
Proof. exact is_zero_spec. Qed.

(* non-vacuity: a concrete two-limb carry case *)
Example C15_add_example :
  add_with_carry [W64 - 1; W64 - 1] [1; 0] = ([0; 0], true).
Proof. vm_compute. reflexivity. Qed.

(* ---------- mul2 / div2 / shifts (ShiftProofs.v) ---------- *)
Theorem C15_mul2 : forall a, wf a ->
  let '(r, c) := mul2 a in
  wf r /\ length r = length a /\ val r + Wn (length a) * Z.b2z c = 2 * val a.
Proof. exact mul2_spec. Qed.
Theorem C15_mul2_mod : forall a, wf a ->
  val (fst (mul2 a)) = (2 * val a) mod Wn (length a) /\
  snd (mul2 a) = (Wn (length a) <=? 2 * val a).
Proof. exact mul2_mod. Qed.
Theorem C15_div2 : forall a, wf a ->
  wf (div2 a) /\ length (div2 a) = length a /\ val (div2 a) = val a / 2.
Proof. exact div2_spec. Qed.
(* shl is the model of both `<<`/`<<=` and the deprecated muln; shr of `>>`/`>>=` and divn *)
Theorem C15_shl : forall a n, wf a -> 0 <= n ->
  wf (shl a n) /\ length (shl a n) = length a /\
  val (shl a n) = (val a * 2 ^ n) mod Wn (length a).
Proof. exact shl_spec. Qed.
Theorem C15_shl_ge_width : forall a n, wf a -> 64 * Z.of_nat (length a) <= n -> val (shl a n) = 0.
Proof. exact shl_ge_width. Qed.
Theorem C15_shr : forall a n, wf a -> 0 <= n ->
  wf (shr a n) /\ length (shr a n) = length a /\ val (shr a n) = val a / 2 ^ n.
Proof. exact shr_spec. Qed.

(* ---------- multiplication (MulProofs.v) ---------- *)
Theorem C15_mac_row : forall ys acc x c, wf ys -> wf acc -> u64 x -> u64 c ->
  (length ys <= length acc)%nat ->
  let '(row, cf) := mac_row acc x ys c in
  wf row /\ length row = length ys /\ u64 cf /\
  val row + Wn (length ys) * cf = val (firstn (length ys) acc) + x * val ys + c.
Proof. exact mac_row_spec. Qed.
Theorem C15_mul : forall a b, wf a -> wf b -> length a = length b ->
  let '(lo, hi) := mul a b in
  wf lo /\ wf hi /\ length lo = length a /\ length hi = length a /\
  val lo + Wn (length a) * val hi = val a * val b.
Proof. exact mul_spec. Qed.
Theorem C15_mul_low : forall a b, wf a -> wf b -> length a = length b ->
  wf (mul_low a b) /\ length (mul_low a b) = length a /\
  val (mul_low a b) = (val a * val b) mod Wn (length a).
Proof. exact mul_low_spec. Qed.
Theorem C15_mul_high : forall a b, wf a -> wf b -> length a = length b ->
  wf (mul_high a b) /\ length (mul_high a b) = length a /\
  val (mul_high a b) = (val a * val b) / Wn (length a).
Proof. exact mul_high_spec. Qed.
Theorem C15_mul_low_eq_mul : forall a b, wf a -> wf b -> length a = length b ->
  mul_low a b = fst (mul a b).
Proof. exact mul_low_eq_mul. Qed.

(* ---------- bits and bytes (BitsProofs.v) ---------- *)
Theorem C15_num_bits : forall a, wf a ->
  num_bits a = (if val a =? 0 then 0 else Z.log2 (val a) + 1).
Proof. exact num_bits_spec. Qed.
Theorem C15_get_bit : forall a i, wf a -> 0 <= i -> get_bit a i = Z.testbit (val a) i.
Proof. exact get_bit_spec. Qed.
Theorem C15_get_bit_beyond : forall a i, 64 * Z.of_nat (length a) <= i -> get_bit a i = false.
Proof. exact get_bit_beyond. Qed.
(* dval k l = sum l_i 2^(k i): little-endian value of a digit string in base 2^k *)
Theorem C15_to_bits_le : forall a, wf a ->
  length (to_bits_le a) = (64 * length a)%nat /\ Forall is_bit (to_bits_le a) /\
  dval 1 (to_bits_le a) = val a /\
  forall i, (i < 64 * length a)%nat -> nth i (to_bits_le a) 0 = Z.b2z (Z.testbit (val a) (Z.of_nat i)).
Proof. exact to_bits_le_spec. Qed.
(* bits beyond 64N are silently dropped, as coded *)
Theorem C15_from_bits_le : forall N bits, Forall is_bit bits ->
  wf (from_bits_le N bits) /\ length (from_bits_le N bits) = N /\
  val (from_bits_le N bits) = dval 1 bits mod Wn N.
Proof. exact from_bits_le_spec. Qed.
Theorem C15_from_bits_be : forall N bits, Forall is_bit bits ->
  wf (from_bits_be N bits) /\ length (from_bits_be N bits) = N /\
  val (from_bits_be N bits) = dval 1 (rev bits) mod Wn N.
Proof. exact from_bits_be_spec. Qed.
Theorem C15_bits_le_roundtrip : forall a, wf a -> from_bits_le (length a) (to_bits_le a) = a.
Proof. exact bits_le_roundtrip. Qed.
Theorem C15_bits_be_roundtrip : forall a, wf a -> from_bits_be (length a) (to_bits_be a) = a.
Proof. exact bits_be_roundtrip. Qed.
Theorem C15_bits_le_roundtrip' : forall N bits, Forall is_bit bits -> length bits = (64 * N)%nat ->
  to_bits_le (from_bits_le N bits) = bits.
Proof. exact bits_le_roundtrip'. Qed.
Theorem C15_bits_be_roundtrip' : forall N bits, Forall is_bit bits -> length bits = (64 * N)%nat ->
  to_bits_be (from_bits_be N bits) = bits.
Proof. exact bits_be_roundtrip'. Qed.
Theorem C15_to_bytes_le : forall a, wf a ->
  length (to_bytes_le a) = (8 * length a)%nat /\
  Forall (fun d => 0 <= d < 256) (to_bytes_le a) /\ dval 8 (to_bytes_le a) = val a.
Proof. exact to_bytes_le_spec. Qed.
Theorem C15_to_bytes_be : forall a, wf a ->
  length (to_bytes_be a) = (8 * length a)%nat /\
  Forall (fun d => 0 <= d < 256) (to_bytes_be a) /\ dval 8 (rev (to_bytes_be a)) = val a.
Proof. exact to_bytes_be_spec. Qed.

(* ---------- signed-digit recodings (RecodeProofs.v) ----------
   deval ds = sum d_i 2^i; digit_ok w d: d = 0 or d odd with |d| < 2^(w-1).
   No side condition on the value: the carry out of `+ |d|` re-enters after the halving. *)
Theorem C15_find_wnaf : forall a w, wf a -> 2 <= w < 64 ->
  exists ds, find_wnaf a w = WnafDigits ds /\
    deval ds = val a /\
    Forall (digit_ok w) ds /\
    (forall i k, (0 < k <= Z.to_nat (w - 1))%nat -> nth i ds 0 <> 0 -> nth (i + k) ds 0 = 0) /\
    (ds = [] \/ 0 < last ds 0) /\
    (length ds <= 64 * length a + 1)%nat.
Proof. exact find_wnaf_spec. Qed.
Theorem C15_find_wnaf_bad_window : forall a w, ~ (2 <= w < 64) -> find_wnaf a w = WnafNone.
Proof. exact find_wnaf_bad_window. Qed.
Theorem C15_find_naf : forall a, wf a ->
  exists ds, find_naf a = Some ds /\
    deval ds = val a /\
    Forall naf_digit ds /\
    (forall i, nth i ds 0 <> 0 -> nth (i + 1) ds 0 = 0) /\
    (ds = [] \/ last ds 0 = 1) /\
    (length ds <= 64 * length a + 1)%nat.
Proof. exact find_naf_spec. Qed.
Theorem C15_find_relaxed_naf : forall a, wf a ->
  exists ds naf, find_naf a = Some naf /\ find_relaxed_naf a = Some ds /\
    deval ds = val a /\
    Forall naf_digit ds /\
    (length ds <= length naf)%nat.
Proof. exact find_relaxed_naf_spec. Qed.
Theorem C15_is_odd : forall e, is_odd e = (val e mod 2 =? 1).
Proof. exact is_odd_spec. Qed.
Theorem C15_signed_mod_reduction : forall n w, 0 <= n -> 1 <= w ->
  let z := signed_mod_reduction n (2 ^ w) in
  (exists q, n - z = 2 ^ w * q) /\ - 2 ^ (w - 1) <= z < 2 ^ (w - 1) /\ (0 <= z -> z <= n) /\
  (z < 0 -> - z <= 2 ^ (w - 1)).
Proof. exact smr_spec. Qed.

(* ---------- const helpers (ConstProofs.v) ---------- *)
(* the long-division loop of const_modulo!: never hits its assertion, returns the remainder;
   bitsum bit i = value of the low i bits of the dividend *)
Theorem C15_const_modulo_loop : forall bit i rem d, wf rem -> wf d -> length rem = length d ->
  val rem < val d ->
  exists r, const_modulo_loop bit i rem d = Some r /\ wf r /\ length r = length d /\
    val r = (val rem * 2 ^ Z.of_nat i + bitsum bit i) mod val d.
Proof. exact const_modulo_loop_spec. Qed.
Theorem C15_montgomery_r : forall m, wf m -> val m <> 0 ->
  exists r, montgomery_r m = Some r /\ wf r /\ length r = length m /\
    val r = Wn (length m) mod val m.
Proof. exact montgomery_r_spec. Qed.
Theorem C15_montgomery_r2 : forall m, wf m -> val m <> 0 ->
  exists r, montgomery_r2 m = Some r /\ wf r /\ length r = length m /\
    val r = (Wn (length m) * Wn (length m)) mod val m.
Proof. exact montgomery_r2_spec. Qed.
Theorem C15_two_adic : forall a, wf a -> val a mod 2 = 1 -> 1 < val a ->
  exists s t, two_adic a = Some (s, t) /\ wf t /\ length t = length a /\
    0 <= s /\ val a - 1 = 2 ^ s * val t /\ val t mod 2 = 1.
Proof. exact two_adic_spec. Qed.
Theorem C15_divide_by_2_round_down : forall a, wf a ->
  wf (divide_by_2_round_down a) /\ length (divide_by_2_round_down a) = length a /\
  val (divide_by_2_round_down a) = val a / 2.
Proof. exact divide_by_2_round_down_spec. Qed.
Theorem C15_mod_4 : forall a, wf a -> mod_4 a = val a mod 4.
Proof. exact mod_4_spec. Qed.

(* ---------- BigUint / decimal conversions (DecimalProofs.v) ---------- *)
Theorem C15_try_from_biguint : forall N v, 0 <= v -> (0 < N)%nat ->
  (v < Wn N -> exists a, try_from_biguint N v = Some a /\ wf a /\ length a = N /\ val a = v) /\
  (Wn N <= v -> try_from_biguint N v = None).
Proof. exact try_from_biguint_spec. Qed.
Theorem C15_display : forall a, wf a ->
  Forall is_digit (display a) /\ display a <> [] /\ parse_decimal (display a) = Some (val a).
Proof. exact display_spec. Qed.
Theorem C15_decimal_roundtrip : forall a, wf a -> a <> [] -> from_str (length a) (display a) = Some a.
Proof. exact decimal_roundtrip. Qed.
Theorem C15_from_str_value : forall N s v, (0 < N)%nat -> parse_decimal s = Some v -> 0 <= v ->
  (v < Wn N -> exists a, from_str N s = Some a /\ wf a /\ length a = N /\ val a = v) /\
  (Wn N <= v -> from_str N s = None).
Proof. exact from_str_value. Qed.

(* ---------- bitwise operators (BitwiseProofs.v) ---------- *)
Theorem C15_bitand : forall a b, wf a -> wf b -> length a = length b ->
  wf (map2 Z.land a b) /\ length (map2 Z.land a b) = length a /\
  val (map2 Z.land a b) = Z.land (val a) (val b).
Proof. exact bitand_spec. Qed.
Theorem C15_bitor : forall a b, wf a -> wf b -> length a = length b ->
  wf (map2 Z.lor a b) /\ length (map2 Z.lor a b) = length a /\
  val (map2 Z.lor a b) = Z.lor (val a) (val b).
Proof. exact bitor_spec. Qed.
Theorem C15_bitxor : forall a b, wf a -> wf b -> length a = length b ->
  wf (map2 Z.lxor a b) /\ length (map2 Z.lxor a b) = length a /\
  val (map2 Z.lxor a b) = Z.lxor (val a) (val b).
Proof. exact bitxor_spec. Qed.
Theorem C15_bitnot : forall a, wf a ->
  wf (map not64 a) /\ length (map not64 a) = length a /\
  val (map not64 a) = Wn (length a) - 1 - val a.
Proof. exact bitnot_spec. Qed.

(* ---------- order, parity, const_num_bits, zero-skipping bit iterators (MiscProofs.v) ---------- *)
Theorem C15_cmp_eq_iff : forall a b, wf a -> wf b -> length a = length b ->
  (cmp a b = Eq <-> a = b).
Proof. exact cmp_eq_iff. Qed.
Theorem C15_cmp_antisym : forall a b, wf a -> wf b -> length a = length b ->
  cmp b a = CompOpp (cmp a b).
Proof. exact cmp_antisym. Qed.
Theorem C15_cmp_lt_trans : forall a b c, wf a -> wf b -> wf c -> length a = length b -> length b = length c ->
  cmp a b = Lt -> cmp b c = Lt -> cmp a c = Lt.
Proof. exact cmp_lt_trans. Qed.
Theorem C15_is_even : forall a, is_even a = (val a mod 2 =? 0).
Proof. exact is_even_spec. Qed.
(* const_num_bits inspects the top limb only: it is the bit length when that limb is non-zero *)
Theorem C15_const_num_bits : forall a, wf a -> a <> [] -> last a 0 <> 0 ->
  const_num_bits a = num_bits a /\ const_num_bits a = bit_length (val a).
Proof. exact const_num_bits_spec. Qed.
Theorem C15_bits_le_ntz : forall a, wf a ->
  Z.of_nat (length (bits_le_ntz a)) = num_bits a /\ Forall is_bit (bits_le_ntz a) /\
  dval 1 (bits_le_ntz a) = val a.
Proof. exact bits_le_ntz_spec. Qed.
Theorem C15_bits_be_nlz : forall a, wf a -> bits_be_nlz a = rev (bits_le_ntz a).
Proof. exact bits_be_nlz_spec. Qed.

(* ---------- non-vacuity: concrete inputs satisfying the hypotheses ---------- *)
Example C15_mul2_example : mul2 [W64 - 1; W64 - 1] = ([W64 - 2; W64 - 1], true).
Proof. vm_compute. reflexivity. Qed.
Example C15_div2_example : div2 [1; 1] = [9223372036854775808; 0].
Proof. vm_compute. reflexivity. Qed.
Example C15_shl_example : shl [W64 - 1; 1] 65 = [0; W64 - 2] /\ shl [5; 7] 128 = [0; 0] /\ shl [5; 7] 64 = [0; 5].
Proof. vm_compute. repeat split. Qed.
Example C15_shr_example : shr [W64 - 1; 3] 65 = [1; 0] /\ shr [5; 7] 128 = [0; 0] /\ shr [5; 7] 64 = [7; 0].
Proof. vm_compute. repeat split. Qed.
Example C15_mul_example :
  mul [W64 - 1; W64 - 1] [W64 - 1; W64 - 1] = ([1; 0], [W64 - 2; W64 - 1]) /\
  mul_low [W64 - 1; W64 - 1] [W64 - 1; W64 - 1] = [1; 0] /\
  mul_high [W64 - 1; W64 - 1] [W64 - 1; W64 - 1] = [W64 - 2; W64 - 1].
Proof. vm_compute. repeat split. Qed.
Example C15_bits_example : num_bits [0; 1] = 65 /\ get_bit [0; 1] 64 = true /\ get_bit [0; 1] 128 = false /\
  from_bits_le 1 (to_bits_le [11]) = [11] /\ to_bytes_be [258] = [0; 0; 0; 0; 0; 0; 1; 2].
Proof. vm_compute. repeat split. Qed.
(* the value 2^64 - 1 (within 2^(w-1) of the top of the range): the carry re-enters *)
Example C15_find_wnaf_example :
  find_wnaf [W64 - 1] 2 = WnafDigits (-1 :: repeat 0 63 ++ [1]) /\
  deval (-1 :: repeat 0 63 ++ [1]) = val [W64 - 1] /\
  find_wnaf [W64 - 1] 4 = WnafDigits (-1 :: repeat 0 63 ++ [1]) /\
  find_wnaf [183] 3 = WnafDigits [-1; 0; 0; -1; 0; 0; 3].
Proof. vm_compute. repeat split. Qed.
Example C15_find_naf_example :
  find_naf [7] = Some [-1; 0; 0; 1] /\ find_relaxed_naf [7] = Some [-1; 0; 0; 1] /\
  find_naf [3] = Some [-1; 0; 1] /\ find_relaxed_naf [3] = Some [1; 1] /\
  find_naf [0] = Some [] /\ find_relaxed_naf [0] = Some [].
Proof. vm_compute. repeat split. Qed.
Example C15_misc_example :
  cmp [5; 7] [6; 6] = Gt /\ const_num_bits [0; 5] = 67 /\ const_num_bits [5; 0] = 64 /\ num_bits [5; 0] = 3 /\
  bits_be_nlz [6] = [1; 1; 0] /\ bits_le_ntz [6] = [0; 1; 1].
Proof. vm_compute. repeat split. Qed.
Example C15_montgomery_example :
  montgomery_r [5] = Some [1] /\ montgomery_r2 [7] = Some [4] /\
  montgomery_r [W64 - 1; W64 - 1] = Some [1; 0] /\ two_adic [97] = Some (5, [3]).
Proof. vm_compute. repeat split. Qed.
(* "18446744073709551615" and "18446744073709551616" for one limb *)
Example C15_decimal_example :
  from_str 1 [49;56;52;52;54;55;52;52;48;55;51;55;48;57;53;53;49;54;49;53] = Some [W64 - 1] /\
  from_str 1 [49;56;52;52;54;55;52;52;48;55;51;55;48;57;53;53;49;54;49;54] = None /\
  display [W64 - 1] = [49;56;52;52;54;55;52;52;48;55;51;55;48;57;53;53;49;54;49;53].
Proof. vm_compute. repeat split. Qed.
