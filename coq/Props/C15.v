(* C15 -- property theorems only: pinned statements, each closed by `exact`. *)
From V Require Import Base.Word C15.GenArith C15.LeafSpecs C15.BigIntModel C15.BigIntProofs.

(* leaf arithmetic, about the definitions regenerated from arithmetic.rs *)
Theorem C15_adc : forall a b c, u64 a -> u64 b -> u64 c ->
  adc a b c = ((a + b + c) mod W64, (a + b + c) / W64).
Proof. exact adc_spec. Qed.
Theorem C15_sbb : forall a b c, u64 a -> u64 b -> 0 <= c <= 1 ->
  sbb a b c = ((a - b - c) mod W64, borrow_of a b c).
Proof. exact sbb_spec. Qed.
Theorem C15_mac_with_carry : forall a b c k, u64 a -> u64 b -> u64 c -> u64 k ->
  mac_with_carry a b c k = ((a + b * c + k) mod W64, (a + b * c + k) / W64).
Proof. exact mac_with_carry_spec. Qed.

(* add_with_carry / sub_with_borrow: exact value and exact flag, every limb count *)
Theorem C15_add_with_carry : forall a b, wf a -> wf b -> length a = length b ->
  let '(r, c) := add_with_carry a b in
  wf r /\ length r = length a /\ val r + Wn (length a) * Z.b2z c = val a + val b.
Proof. exact add_with_carry_spec. Qed.
Theorem C15_add_with_carry_mod : forall a b, wf a -> wf b -> length a = length b ->
  val (fst (add_with_carry a b)) = (val a + val b) mod Wn (length a) /\
  snd (add_with_carry a b) = (Wn (length a) <=? val a + val b).
Proof. exact add_with_carry_mod. Qed.
Theorem C15_sub_with_borrow : forall a b, wf a -> wf b -> length a = length b ->
  let '(r, c) := sub_with_borrow a b in
  wf r /\ length r = length a /\ val r - Wn (length a) * Z.b2z c = val a - val b.
Proof. exact sub_with_borrow_spec. Qed.
Theorem C15_sub_with_borrow_mod : forall a b, wf a -> wf b -> length a = length b ->
  val (fst (sub_with_borrow a b)) = (val a - val b) mod Wn (length a) /\
  snd (sub_with_borrow a b) = (val a <? val b).
Proof. exact sub_with_borrow_mod. Qed.
Theorem C15_cmp : forall a b, wf a -> wf b -> length a = length b ->
  cmp a b = Z.compare (val a) (val b).
Proof. exact cmp_spec. Qed.
Theorem C15_is_zero : forall a, wf a -> is_zero a = (val a =? 0).
Proof. exact is_zero_spec. Qed.

(* non-vacuity: a concrete two-limb carry case *)
Example C15_add_example :
  add_with_carry [W64 - 1; W64 - 1] [1; 0] = ([0; 0], true).
Proof. vm_compute. reflexivity. Qed.
