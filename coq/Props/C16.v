(* C16 -- property theorems only.

   Every shipped configuration is covered by the generated closed facts
   (coq/C16/Facts_<crate>.v: one `<checker> <constants> = true` per defining equation, proved
   by kernel computation on constants regenerated from /repo on every run).  The theorems
   below (1) say what a `true` of each checker means -- over Z for the integer-level
   checkers, over the specification-level field dictionaries Z1 p = ZpOps p,
   Z2 p beta = F_p[u]/(u^2 - beta), Z3 p beta = F_p[u]/(u^3 - beta) of Base/Field.v for the
   field-level ones, to which the BigZ-backed dictionaries B1/B2/B3 used for the computation
   are tied by a logical relation (stands_for) -- and (2) collect, per crate, the fact that
   every generated check evaluates to true. *)
From V Require Import Base.Field C13.Poly C16.ConfigChecks C16.ConfigSpecs C16.ModelSpecs.
From V Require Import C16.Facts_t_bls12_381 C16.Facts_t_bn384 C16.Facts_t_mnt4_753 C16.Facts_t_mnt6_753 C16.Facts_t_secp256k1 C16.Facts_t_ed_on_bls12_381 C16.Facts_t_fp128 C16.Facts_bls12_381 C16.Facts_bls12_377 C16.Facts_bn254 C16.Facts_secp256k1 C16.Facts_ed25519 C16.Facts_curve25519 C16.Facts_pallas C16.Facts_vesta C16.Facts_grumpkin C16.Facts_ed_on_bls12_381 C16.Facts_ed_on_bls12_381_bandersnatch C16.Facts_ed_on_bls12_377 C16.Facts_ed_on_bn254 C16.Facts_ed_on_cp6_782 C16.Facts_ed_on_mnt4_298 C16.Facts_ed_on_mnt4_753 C16.Facts_mnt4_298 C16.Facts_mnt6_298 C16.Facts_mnt4_753 C16.Facts_mnt6_753 C16.Facts_bw6_761 C16.Facts_bw6_767 C16.Facts_cp6_782 C16.Facts_secp256r1 C16.Facts_secp384r1 C16.Facts_secq256k1.
Require Import ZArith List Bool. Import ListNotations. Open Scope Z_scope.

(* ---------- modular exponentiation used inside the checkers ---------- *)
Theorem C16_fast_pow_mod : forall a e m, 0 <= e -> m <> 0 -> fast_pow_mod a e m = a ^ e mod m.
Proof. exact fast_pow_mod_spec. Qed.

(* ---------- the model functions run_C16 evaluates against the const fns of /repo ---------- *)
Theorem C16_two_adic_model : forall p, 1 < p ->
  let '(s, t) := two_adic p in p - 1 = 2 ^ s * t /\ Z.odd t = true /\ 0 <= s.
Proof. exact two_adic_model_spec. Qed.
(* the 63-round square-and-multiply of montgomery_backend.rs `inv` yields -p^(-1) mod 2^64 for EVERY odd p *)
Theorem C16_mont_inv_model : forall p, Z.odd p = true ->
  0 <= mont_inv p < W64 /\ (mont_inv p * p) mod W64 = W64 - 1.
Proof. exact mont_inv_model_spec. Qed.
Theorem C16_num_bits_model : forall p, 0 < p -> 2 ^ (num_bits p - 1) <= p < 2 ^ num_bits p.
Proof. exact num_bits_model_spec. Qed.
Theorem C16_pow_mod_model : forall a e p, 0 <= e -> p <> 0 -> pow_mod a e p = a ^ e mod p.
Proof. exact pow_mod_model_spec. Qed.

(* ---------- the computation dictionaries stand for the specification fields ---------- *)
Theorem C16_B1_stands_for_Fp : forall p, stands_for (B1 p) (Z1 p).
Proof. exact B1_stands_for_Z1. Qed.
Theorem C16_B2_stands_for_Fp2 : forall p beta, stands_for (B2 p beta) (Z2 p beta).
Proof. exact B2_stands_for_Z2. Qed.
Theorem C16_B3_stands_for_Fp3 : forall p beta, stands_for (B3 p beta) (Z3 p beta).
Proof. exact B3_stands_for_Z3. Qed.

(* any further quadratic / cubic level (Fp4, Fp6, Fp12) built on dictionaries that stand for each other *)
Theorem C16_BQ_stands_for : forall T U (B : Fops T) (G : Fops U) nr,
  stands_for B G -> stands_for (BQ B nr) (BQ G nr).
Proof. exact (@BQ_stands_for). Qed.
Theorem C16_BC_stands_for : forall T U (B : Fops T) (G : Fops U) nr,
  stands_for B G -> stands_for (BC B nr) (BC G nr).
Proof. exact (@BC_stands_for). Qed.

(* ---------- prime fields ---------- *)
(* Montgomery constants match the modulus; N is the minimal limb count *)
Theorem C16_mont_consts : forall p n r r2 inv, mont_consts_ok p n r r2 inv = true ->
  1 < p /\ Z.odd p = true /\ 2 ^ (64 * (n - 1)) <= p < 2 ^ (64 * n) /\
  r = 2 ^ (64 * n) mod p /\ r2 = (r * r) mod p /\
  0 <= inv < 2 ^ 64 /\ (inv * p) mod 2 ^ 64 = 2 ^ 64 - 1.
Proof. exact mont_consts_spec. Qed.
Theorem C16_mont_r2_is_r_squared : forall p n, 0 <= n -> p <> 0 ->
  mont_r2 p n = (mont_r p n * mont_r p n) mod p.
Proof. exact mont_r2_is_r_squared. Qed.
Theorem C16_limbs : forall n l v, (val_limbs l =? v) && limbs_wf n l = true ->
  val_limbs l = v /\ Z.of_nat (length l) = n /\ Forall (fun x => 0 <= x < 2 ^ 64) l.
Proof. exact limbs_spec. Qed.
Theorem C16_mont_form : forall p r std raw, mont_form_ok p r std raw = true -> raw = (std * r) mod p.
Proof. exact mont_form_spec. Qed.
Theorem C16_bits : forall p bits, bits_ok p bits = true -> 0 < bits /\ 2 ^ (bits - 1) <= p < 2 ^ bits.
Proof. exact bits_spec. Qed.
Theorem C16_two_adic : forall p s t tm pm, two_adic_ok p s t tm pm = true ->
  0 < s /\ p - 1 = 2 ^ s * t /\ Z.odd t = true /\ tm = (t - 1) / 2 /\ pm = (p - 1) / 2.
Proof. exact two_adic_spec. Qed.
(* the stated generator is a quadratic non-residue (Euler) *)
Theorem C16_gen_nonresidue : forall p g, gen_nonresidue_ok p g = true ->
  2 < p /\ g ^ ((p - 1) / 2) mod p = p - 1.
Proof. exact gen_nonresidue_spec. Qed.
(* the 2-adic root of unity is g^t and has order exactly 2^s *)
Theorem C16_two_adic_root : forall p g s t root, two_adic_root_ok p g s t root = true ->
  2 < p /\ 0 < s /\ root = g ^ t mod p /\ root ^ (2 ^ s) mod p = 1 /\ root ^ (2 ^ (s - 1)) mod p = p - 1.
Proof. exact two_adic_root_spec. Qed.
Theorem C16_plus_one_div_four : forall p o, plus_one_div_four_ok p o = true ->
  (p mod 4 = 3 /\ o = [(p + 1) / 4]) \/ (p mod 4 <> 3 /\ o = []).
Proof. exact plus_one_div_four_spec. Qed.
Theorem C16_large_subgroup : forall p g s b k w, large_subgroup_ok p g s b k w = true ->
  let n := 2 ^ s * b ^ k in
  2 < p /\ 0 < s /\ 1 < b /\ 0 < k /\ (p - 1) mod n = 0 /\ w = g ^ ((p - 1) / n) mod p /\
  w ^ (n / 2) mod p <> 1 /\ w ^ (n / b) mod p <> 1.
Proof. exact large_subgroup_spec. Qed.
Theorem C16_flags : forall p n spare mul, flags_ok p n spare mul = true ->
  spare = (p <? 2 ^ (64 * n - 1)) /\
  mul = ((p <? 2 ^ (64 * n - 1)) && negb (p =? 2 ^ (64 * n - 1) - 1)).
Proof. exact flags_spec. Qed.
Theorem C16_flag_square : forall p n sq, flag_square_ok p n sq = true ->
  sq = ((p <? 2 ^ (64 * n - 2)) && negb (p =? 2 ^ (64 * n - 2) - 1)).
Proof. exact flag_square_spec. Qed.

(* Field::SQRT_PRECOMP (what sqrt() reads): Case3Mod4 with (p+1)/4 exactly when p = 3 mod 4, otherwise
   TonelliShanks with p - 1 = 2^s (2 tm + 1) and g^(2 tm + 1) of exact order 2^s *)
Theorem C16_sqrt_precomp : forall p g kind v, sqrt_precomp_ok p g kind v = true ->
  (p mod 4 = 3 /\ kind = 2 /\ v = [(p + 1) / 4]) \/
  (p mod 4 <> 3 /\ kind = 1 /\ exists s q tm, v = [s; q; tm] /\ 2 < p /\ 0 < s /\ 0 <= tm /\
     p - 1 = 2 ^ s * (2 * tm + 1) /\ q = g ^ (2 * tm + 1) mod p /\ q ^ (2 ^ (s - 1)) mod p = p - 1).
Proof. exact sqrt_precomp_spec. Qed.

(* FftField constants of an extension field: the embedded base-prime-field constant (c, 0, .., 0), Options as lists *)
Theorem C16_fft_embeds : forall x c deg, embeds_ok x c deg = true -> x = c :: repeat 0 (Z.to_nat deg - 1).
Proof. exact embeds_ok_spec. Qed.
Theorem C16_fft_opt_embeds : forall o c deg, opt_embeds_ok o c deg = true ->
  (o = [] /\ c = []) \/ (exists v, c = [v] /\ o = [v :: repeat 0 (Z.to_nat deg - 1)]).
Proof. exact opt_embeds_ok_spec. Qed.

(* ---------- curve groups, GLV, pairing parameter sets (integer level) ---------- *)
Theorem C16_cofactor_inv : forall r h hinv, cofactor_inv_ok r h hinv = true ->
  1 < r /\ 0 <= hinv < r /\ (h * hinv) mod r = 1.
Proof. exact cofactor_inv_spec. Qed.
Theorem C16_hasse : forall q h r, hasse_ok q h r = true -> (h * r - (q + 1)) ^ 2 <= 4 * q.
Proof. exact hasse_spec. Qed.
Theorem C16_glv_lambda : forall r lam, glv_lambda_ok r lam = true ->
  0 <= lam < r /\ (lam * lam + lam + 1) mod r = 0.
Proof. exact glv_lambda_spec. Qed.
Theorem C16_glv_lattice : forall r lam co, glv_lattice_ok r lam co = true ->
  exists n11 n12 n21 n22, co = [n11; n12; n21; n22] /\ 0 < r /\
    (n11 + lam * n12) mod r = 0 /\ (n21 + lam * n22) mod r = 0 /\ Z.abs (n11 * n22 - n12 * n21) = r.
Proof. exact glv_lattice_spec. Qed.
Theorem C16_bls12_params : forall x p r, bls12_params_ok x p r = true ->
  r = x ^ 4 - x ^ 2 + 1 /\ 3 * p = (x - 1) ^ 2 * r + 3 * x.
Proof. exact bls12_params_spec. Qed.
Theorem C16_bn_params : forall x p r, bn_params_ok x p r = true ->
  p = 36 * x ^ 4 + 36 * x ^ 3 + 24 * x ^ 2 + 6 * x + 1 /\ r = 36 * x ^ 4 + 36 * x ^ 3 + 18 * x ^ 2 + 6 * x + 1.
Proof. exact bn_params_spec. Qed.
Theorem C16_bw6_params : forall x r xm l1, bw6_params_ok x r xm l1 = true ->
  3 * r = (x - 1) ^ 2 * (x ^ 4 - x ^ 2 + 1) + 3 * x /\ 3 * xm = Z.abs (x - 1) /\ l1 = x.
Proof. exact bw6_params_spec. Qed.
(* BW6: the base-field modulus, the trace of G1 and the order of the G2 twist are what the seed x and
   H_T / H_Y / T_MOD_R_IS_ZERO say (4p = t^2 + 3y^2, stated as 12p = 3t^2 + (3y)^2) *)
Theorem C16_bw6_curve : forall x p r ht hy t0 h1 h2, bw6_curve_ok x p r ht hy t0 h1 h2 = true ->
  let t := bw6_t x r ht t0 in let y3 := bw6_y3 x r hy t0 in
  12 * p = 3 * t ^ 2 + y3 ^ 2 /\ t = p + 1 - h1 * r /\ (2 * (p + 1 - h2 * r) - t) ^ 2 = y3 ^ 2.
Proof. exact bw6_curve_spec. Qed.
Theorem C16_ate_loop_mod : forall l p r, ate_loop_mod_ok l p r = true -> 0 < l /\ 0 < r /\ (l - p) mod r = 0.
Proof. exact ate_loop_mod_spec. Qed.
Theorem C16_mnt4_final_exp : forall p r w1 w0, mnt4_final_exp_ok p r w1 w0 = true ->
  (w1 * p + w0) * r = p * p + 1.
Proof. exact mnt4_final_exp_spec. Qed.
Theorem C16_mnt6_final_exp : forall p r w1 w0, mnt6_final_exp_ok p r w1 w0 = true ->
  (w1 * p + w0) * r = p * p - p + 1.
Proof. exact mnt6_final_exp_spec. Qed.
Theorem C16_naf_digits : forall l, naf_ok l = true -> Forall (fun d => -1 <= d <= 1) l.
Proof. exact naf_ok_spec. Qed.

(* ---------- field level: G is the specification field the computation dictionary B stands for ---------- *)
Theorem C16_el_eq : forall T U (B : Fops T) (G : Fops U), stands_for B G ->
  forall a b, el_eq B a b = true -> el G a = el G b.
Proof. exact (@el_eq_spec). Qed.
Theorem C16_mul_is : forall T U (B : Fops T) (G : Fops U), stands_for B G ->
  forall a b c, mul_is B a b c = true -> fmul G (el G a) (el G b) = el G c.
Proof. exact (@mul_is_spec). Qed.
Theorem C16_pow_is : forall T U (B : Fops T) (G : Fops U), stands_for B G ->
  forall a e c, pow_is B a e c = true -> 0 <= e /\ fpow G (el G a) e = el G c.
Proof. exact (@pow_is_spec). Qed.
Theorem C16_pow_isnt : forall T U (B : Fops T) (G : Fops U), stands_for B G ->
  forall a e c, pow_isnt B a e c = true -> 0 <= e /\ fpow G (el G a) e <> el G c.
Proof. exact (@pow_isnt_spec). Qed.
Theorem C16_nonzero : forall T U (B : Fops T) (G : Fops U), stands_for B G ->
  forall a, nonzero_ok B a = true -> el G a <> f0 G.
Proof. exact (@nonzero_ok_spec). Qed.
Theorem C16_mul_pow_is : forall T U (B : Fops T) (G : Fops U), stands_for B G ->
  forall a b e c, mul_pow_is B a b e c = true -> 0 <= e /\ fmul G (el G a) (fpow G (el G b) e) = el G c.
Proof. exact (@mul_pow_is_spec). Qed.
(* FftField roots of unity of an extension field have the exact stated order in that field *)
Theorem C16_fft_root_order : forall T U (B : Fops T) (G : Fops U), stands_for B G ->
  forall root s, fft_root_ok B root s = true ->
  0 < s /\ fpow G (el G root) (2 ^ s) = el G [1] /\ fpow G (el G root) (2 ^ (s - 1)) = el G [-1].
Proof. exact (@fft_root_ok_spec). Qed.
Theorem C16_fft_large_order : forall T U (B : Fops T) (G : Fops U), stands_for B G ->
  forall w s b k, fft_large_ok B w s b k = true ->
  let n := 2 ^ s * b ^ k in
  0 < s /\ 1 < b /\ 0 < k /\ fpow G (el G w) n = el G [1] /\
  fpow G (el G w) (n / 2) <> el G [1] /\ fpow G (el G w) (n / b) <> el G [1].
Proof. exact (@fft_large_ok_spec). Qed.
(* simplified SWU: g(b/(ZETA a)) is a square, so the exceptional input u = 0 is mapped to a curve point *)
Theorem C16_swu_exceptional : forall T U (B : Fops T) (G : Fops U), stands_for B G ->
  forall q a b z, swu_exceptional_ok B q a b z = true ->
  let x := fmul G (el G b) (finv G (fmul G (el G z) (el G a))) in
  Z.odd q = true /\
  fpow G (fadd G (fadd G (fmul G (fmul G x x) x) (fmul G (el G a) x)) (el G b)) ((q - 1) / 2) = f1 G.
Proof. exact (@swu_exceptional_ok_spec). Qed.
(* Wahby-Boneh isogeny coefficient lists: the polynomial identity
   yn^2 (x^3 + a' x + b') xd^3 = (xn^3 + A xn xd^2 + B xd^3) yd^2 holds coefficient-wise over the
   specification field, and no denominator / y-numerator is the zero polynomial *)
Theorem C16_wb_isogeny : forall T U (B : Fops T) (G : Fops U), stands_for B G ->
  forall a' b' A Bc xn xd yn yd, wb_iso_ok B a' b' A Bc xn xd yn yd = true ->
  pzero (f0 G) (feqb G) (els G xd) = false /\ pzero (f0 G) (feqb G) (els G yd) = false /\
  pzero (f0 G) (feqb G) (els G yn) = false /\
  iso_identity (f0 G) (f1 G) (fadd G) (fmul G) (feqb G) (el G a') (el G b') (el G A) (el G Bc)
               (els G xn) (els G xd) (els G yn) (els G yd) = true.
Proof. exact (@wb_iso_ok_spec). Qed.
(* a curve shipped as twisted Edwards (+ Montgomery) and as short Weierstrass: the SW model is the
   Weierstrass form of the Montgomery model and the SW generator is the image of the TE generator *)
Theorem C16_sw_te_models : forall T U (B : Fops T) (G : Fops U), stands_for B G ->
  forall a d x y mA mB sa sb X Y, sw_te_ok B a d x y mA mB sa sb X Y = true ->
  let two := fadd G (f1 G) (f1 G) in let three := fadd G two (f1 G) in let four := fadd G two two in
  let nine := fmul G three three in
  let Am := el G mA in let Bm := el G mB in
  let u3 := fsub G (fmul G three (fmul G Bm (el G X))) Am in
  let v3 := fmul G three (fmul G (el G x) (fmul G Bm (el G Y))) in
  let k := fmul G Bm (fsub G (el G a) (el G d)) in
  three <> f0 G /\ Bm <> f0 G /\
  fmul G (fmul G three (fmul G Bm Bm)) (el G sa) = fsub G three (fmul G Am Am) /\
  fmul G (fmul G (fmul G nine three) (fmul G (fmul G Bm Bm) Bm)) (el G sb) =
    fsub G (fmul G two (fmul G (fmul G Am Am) Am)) (fmul G nine Am) /\
  el G y <> f1 G /\
  fmul G u3 (fsub G (f1 G) (el G y)) = fmul G three (fadd G (f1 G) (el G y)) /\
  ((k = four /\ v3 = u3) \/ fmul G (fmul G v3 v3) k = fmul G four (fmul G u3 u3)).
Proof. exact (@sw_te_ok_spec). Qed.
(* Frobenius tables hold the corresponding powers of the non-residue *)
Theorem C16_frobenius_table : forall T U (B : Fops T) (G : Fops U), stands_for B G ->
  forall beta p k m tbl, frob_ok B beta p k m tbl = true ->
  0 < k /\ 0 < m /\ 1 < p /\
  forall i, (i < length tbl)%nat ->
    (p ^ Z.of_nat i - 1) mod k = 0 /\
    fpow G (el G beta) (m * ((p ^ Z.of_nat i - 1) / k)) = el G (nth i tbl []).
Proof. exact (@frob_ok_spec). Qed.
Theorem C16_fp3_sqrt_params : forall T U (B : Fops T) (G : Fops U), stands_for B G ->
  forall p s tm q, fp3_sqrt_ok B p s tm q = true ->
  0 < s /\ p ^ 3 - 1 = 2 ^ s * (2 * tm + 1) /\
  fpow G (el G q) (2 ^ s) = el G [1] /\ fpow G (el G q) (2 ^ (s - 1)) = el G [-1].
Proof. exact (@fp3_sqrt_spec). Qed.
(* curve generators lie on the curve ... *)
Theorem C16_sw_on_curve : forall T U (B : Fops T) (G : Fops U), stands_for B G ->
  forall a b x y, sw_on_ok B a b x y = true ->
  fmul G (el G y) (el G y) =
  fadd G (fadd G (fmul G (fmul G (el G x) (el G x)) (el G x)) (fmul G (el G a) (el G x))) (el G b).
Proof. exact (@sw_on_ok_spec). Qed.
(* ... and r * G = O in the affine chord-and-tangent law *)
Theorem C16_sw_order : forall T U (B : Fops T) (G : Fops U), stands_for B G ->
  forall a x y r, sw_order_ok B a x y r = true ->
  0 < r /\ sw_mul G (el G a) r (Some (el G x, el G y)) = None.
Proof. exact (@sw_order_ok_spec). Qed.
Theorem C16_glv_endomorphism : forall T U (B : Fops T) (G : Fops U), stands_for B G ->
  forall a x y beta lam, glv_endo_ok B a x y beta lam = true ->
  0 < lam /\
  sw_mul G (el G a) lam (Some (el G x, el G y)) = Some (fmul G (el G beta) (el G x), el G y).
Proof. exact (@glv_endo_ok_spec). Qed.
Theorem C16_te_on_curve : forall T U (B : Fops T) (G : Fops U), stands_for B G ->
  forall a d x y, te_on_ok B a d x y = true ->
  fadd G (fmul G (el G a) (fmul G (el G x) (el G x))) (fmul G (el G y) (el G y)) =
  fadd G (f1 G) (fmul G (el G d) (fmul G (fmul G (el G x) (el G x)) (fmul G (el G y) (el G y)))).
Proof. exact (@te_on_ok_spec). Qed.
Theorem C16_te_order : forall T U (B : Fops T) (G : Fops U), stands_for B G ->
  forall a d x y r, te_order_ok B a d x y r = true ->
  0 < r /\ te_mul G (el G a) (el G d) r (el G x, el G y) = (f0 G, f1 G) /\
  (el G x, el G y) <> (f0 G, f1 G).
Proof. exact (@te_order_ok_spec). Qed.
Theorem C16_montgomery_form : forall T U (B : Fops T) (G : Fops U), stands_for B G ->
  forall q a d ma mb, mont_te_ok B q a d ma mb = true ->
  fsub G (el G a) (el G d) <> f0 G /\
  fmul G (el G ma) (fsub G (el G a) (el G d)) =
    fadd G (fadd G (el G a) (el G d)) (fadd G (el G a) (el G d)) /\
  fpow G (fmul G (el G mb) (fsub G (el G a) (el G d))) ((q - 1) / 2) = f1 G.
Proof. exact (@mont_te_ok_spec). Qed.

(* ---------- per crate: every generated check of that crate evaluates to true ---------- *)
Theorem C16_facts_t_bls12_381 : Forall (fun b => b = true) Facts_t_bls12_381.checks.
Proof. exact Facts_t_bls12_381.all_facts. Qed.
Theorem C16_facts_t_bn384 : Forall (fun b => b = true) Facts_t_bn384.checks.
Proof. exact Facts_t_bn384.all_facts. Qed.
Theorem C16_facts_t_mnt4_753 : Forall (fun b => b = true) Facts_t_mnt4_753.checks.
Proof. exact Facts_t_mnt4_753.all_facts. Qed.
Theorem C16_facts_t_mnt6_753 : Forall (fun b => b = true) Facts_t_mnt6_753.checks.
Proof. exact Facts_t_mnt6_753.all_facts. Qed.
Theorem C16_facts_t_secp256k1 : Forall (fun b => b = true) Facts_t_secp256k1.checks.
Proof. exact Facts_t_secp256k1.all_facts. Qed.
Theorem C16_facts_t_ed_on_bls12_381 : Forall (fun b => b = true) Facts_t_ed_on_bls12_381.checks.
Proof. exact Facts_t_ed_on_bls12_381.all_facts. Qed.
Theorem C16_facts_t_fp128 : Forall (fun b => b = true) Facts_t_fp128.checks.
Proof. exact Facts_t_fp128.all_facts. Qed.
Theorem C16_facts_bls12_381 : Forall (fun b => b = true) Facts_bls12_381.checks.
Proof. exact Facts_bls12_381.all_facts. Qed.
Theorem C16_facts_bls12_377 : Forall (fun b => b = true) Facts_bls12_377.checks.
Proof. exact Facts_bls12_377.all_facts. Qed.
Theorem C16_facts_bn254 : Forall (fun b => b = true) Facts_bn254.checks.
Proof. exact Facts_bn254.all_facts. Qed.
Theorem C16_facts_secp256k1 : Forall (fun b => b = true) Facts_secp256k1.checks.
Proof. exact Facts_secp256k1.all_facts. Qed.
Theorem C16_facts_ed25519 : Forall (fun b => b = true) Facts_ed25519.checks.
Proof. exact Facts_ed25519.all_facts. Qed.
Theorem C16_facts_curve25519 : Forall (fun b => b = true) Facts_curve25519.checks.
Proof. exact Facts_curve25519.all_facts. Qed.
Theorem C16_facts_pallas : Forall (fun b => b = true) Facts_pallas.checks.
Proof. exact Facts_pallas.all_facts. Qed.
Theorem C16_facts_vesta : Forall (fun b => b = true) Facts_vesta.checks.
Proof. exact Facts_vesta.all_facts. Qed.
Theorem C16_facts_grumpkin : Forall (fun b => b = true) Facts_grumpkin.checks.
Proof. exact Facts_grumpkin.all_facts. Qed.
Theorem C16_facts_ed_on_bls12_381 : Forall (fun b => b = true) Facts_ed_on_bls12_381.checks.
Proof. exact Facts_ed_on_bls12_381.all_facts. Qed.
Theorem C16_facts_ed_on_bls12_381_bandersnatch : Forall (fun b => b = true) Facts_ed_on_bls12_381_bandersnatch.checks.
Proof. exact Facts_ed_on_bls12_381_bandersnatch.all_facts. Qed.
Theorem C16_facts_ed_on_bls12_377 : Forall (fun b => b = true) Facts_ed_on_bls12_377.checks.
Proof. exact Facts_ed_on_bls12_377.all_facts. Qed.
Theorem C16_facts_ed_on_bn254 : Forall (fun b => b = true) Facts_ed_on_bn254.checks.
Proof. exact Facts_ed_on_bn254.all_facts. Qed.
Theorem C16_facts_ed_on_cp6_782 : Forall (fun b => b = true) Facts_ed_on_cp6_782.checks.
Proof. exact Facts_ed_on_cp6_782.all_facts. Qed.
Theorem C16_facts_ed_on_mnt4_298 : Forall (fun b => b = true) Facts_ed_on_mnt4_298.checks.
Proof. exact Facts_ed_on_mnt4_298.all_facts. Qed.
Theorem C16_facts_ed_on_mnt4_753 : Forall (fun b => b = true) Facts_ed_on_mnt4_753.checks.
Proof. exact Facts_ed_on_mnt4_753.all_facts. Qed.
Theorem C16_facts_mnt4_298 : Forall (fun b => b = true) Facts_mnt4_298.checks.
Proof. exact Facts_mnt4_298.all_facts. Qed.
Theorem C16_facts_mnt6_298 : Forall (fun b => b = true) Facts_mnt6_298.checks.
Proof. exact Facts_mnt6_298.all_facts. Qed.
Theorem C16_facts_mnt4_753 : Forall (fun b => b = true) Facts_mnt4_753.checks.
Proof. exact Facts_mnt4_753.all_facts. Qed.
Theorem C16_facts_mnt6_753 : Forall (fun b => b = true) Facts_mnt6_753.checks.
Proof. exact Facts_mnt6_753.all_facts. Qed.
Theorem C16_facts_bw6_761 : Forall (fun b => b = true) Facts_bw6_761.checks.
Proof. exact Facts_bw6_761.all_facts. Qed.
Theorem C16_facts_bw6_767 : Forall (fun b => b = true) Facts_bw6_767.checks.
Proof. exact Facts_bw6_767.all_facts. Qed.
Theorem C16_facts_cp6_782 : Forall (fun b => b = true) Facts_cp6_782.checks.
Proof. exact Facts_cp6_782.all_facts. Qed.
Theorem C16_facts_secp256r1 : Forall (fun b => b = true) Facts_secp256r1.checks.
Proof. exact Facts_secp256r1.all_facts. Qed.
Theorem C16_facts_secp384r1 : Forall (fun b => b = true) Facts_secp384r1.checks.
Proof. exact Facts_secp384r1.all_facts. Qed.
Theorem C16_facts_secq256k1 : Forall (fun b => b = true) Facts_secq256k1.checks.
Proof. exact Facts_secq256k1.all_facts. Qed.

(* ---------- instances: spec lemma + generated fact, for a flagship configuration ---------- *)
Theorem C16_bls12_381_fq_montgomery :
  Dump_bls12_381.fq_R = 2 ^ (64 * Dump_bls12_381.fq_N) mod Dump_bls12_381.fq_MODULUS /\
  Dump_bls12_381.fq_R2 = (Dump_bls12_381.fq_R * Dump_bls12_381.fq_R) mod Dump_bls12_381.fq_MODULUS /\
  (Dump_bls12_381.fq_INV * Dump_bls12_381.fq_MODULUS) mod 2 ^ 64 = 2 ^ 64 - 1.
Proof.
  exact (let H := mont_consts_spec _ _ _ _ _ Facts_bls12_381.fact_fq_mont in
         conj (proj1 (proj2 (proj2 (proj2 H))))
              (conj (proj1 (proj2 (proj2 (proj2 (proj2 H)))))
                    (proj2 (proj2 (proj2 (proj2 (proj2 (proj2 H)))))))).
Qed.
Theorem C16_bls12_381_g1_order :
  0 < Dump_bls12_381.fr_MODULUS /\
  let G := Z1 Dump_bls12_381.fq_MODULUS in
  sw_mul G (el G Dump_bls12_381.g1_COEFF_A) Dump_bls12_381.fr_MODULUS
         (Some (el G Dump_bls12_381.g1_GENERATOR_X, el G Dump_bls12_381.g1_GENERATOR_Y)) = None.
Proof. exact (sw_order_ok_spec _ _ (B1_stands_for_Z1 _) _ _ _ _ Facts_bls12_381.fact_g1_order). Qed.
Theorem C16_bls12_381_g2_order :
  0 < Dump_bls12_381.fr_MODULUS /\
  let G := Z2 Dump_bls12_381.fq_MODULUS Dump_bls12_381.fq2_BETA in
  sw_mul G (el G Dump_bls12_381.g2_COEFF_A) Dump_bls12_381.fr_MODULUS
         (Some (el G Dump_bls12_381.g2_GENERATOR_X, el G Dump_bls12_381.g2_GENERATOR_Y)) = None.
Proof. exact (sw_order_ok_spec _ _ (B2_stands_for_Z2 _ _) _ _ _ _ Facts_bls12_381.fact_g2_order). Qed.

(* the 11-isogeny of the Wahby-Boneh map of BLS12-381 G1, over Z1 p *)
Theorem C16_bls12_381_g1_isogeny :
  let G := Z1 Dump_bls12_381.fq_MODULUS in
  iso_identity (f0 G) (f1 G) (fadd G) (fmul G) (feqb G)
    (el G Dump_bls12_381.g1_swu_iso_COEFF_A) (el G Dump_bls12_381.g1_swu_iso_COEFF_B)
    (el G Dump_bls12_381.g1_COEFF_A) (el G Dump_bls12_381.g1_COEFF_B)
    (els G Dump_bls12_381.g1_wb_X_NUM) (els G Dump_bls12_381.g1_wb_X_DEN)
    (els G Dump_bls12_381.g1_wb_Y_NUM) (els G Dump_bls12_381.g1_wb_Y_DEN) = true.
Proof.
  exact (proj2 (proj2 (proj2 (wb_iso_ok_spec _ _ (B1_stands_for_Z1 _) _ _ _ _ _ _ _ _
                                Facts_bls12_381.fact_g1_wb_isogeny_identity)))).
Qed.
(* BW6-761: 4p = t^2 + 3y^2 for the t, y determined by x, H_T = 13, H_Y = 9 *)
Theorem C16_bw6_761_modulus :
  let t := bw6_t Dump_bw6_761.pairing_X Dump_bw6_761.fr_MODULUS Dump_bw6_761.pairing_H_T false in
  let y3 := bw6_y3 Dump_bw6_761.pairing_X Dump_bw6_761.fr_MODULUS Dump_bw6_761.pairing_H_Y false in
  12 * Dump_bw6_761.fq_MODULUS = 3 * t ^ 2 + y3 ^ 2.
Proof. exact (proj1 (bw6_curve_spec _ _ _ _ _ _ _ _ Facts_bw6_761.fact_pairing_bw6_curve)). Qed.

(* non-vacuity of the implications: the hypotheses are satisfied by shipped constants *)
Example C16_ex_mont : mont_consts_ok Dump_t_fp128.fq_MODULUS Dump_t_fp128.fq_N Dump_t_fp128.fq_R
                                     Dump_t_fp128.fq_R2 Dump_t_fp128.fq_INV = true.
Proof. vm_compute. reflexivity. Qed.
Example C16_ex_root : two_adic_root_ok 17 3 4 1 3 = true.
Proof. vm_compute. reflexivity. Qed.
Example C16_ex_frob : frob_ok (B1 7) [3] 7 2 1 [[1]; [6]] = true.
Proof. vm_compute. reflexivity. Qed.
Example C16_ex_sw_order : sw_order_ok (B1 17) [2] [5] [1] 19 = true.
Proof. vm_compute. reflexivity. Qed.
Example C16_ex_te_order : te_order_ok (B1 13) [1] [2] [1] [0] 4 = true.
Proof. vm_compute. reflexivity. Qed.
Example C16_ex_sqrt_precomp : sqrt_precomp_ok 17 3 1 [4; 3; 0] = true /\ sqrt_precomp_ok 7 3 2 [2] = true.
Proof. vm_compute. split; reflexivity. Qed.
(* the 2-isogeny (x, y) -> ((x^2+1)/x, y (x^2-1)/x^2) from y^2 = x^3 + x to y^2 = x^3 - 4x over F_13 *)
Example C16_ex_wb_iso : wb_iso_ok (B1 13) [1] [0] [-4] [0] [[1]; [0]; [1]] [[0]; [1]] [[-1]; [0]; [1]] [[0]; [0]; [1]] = true.
Proof. vm_compute. reflexivity. Qed.
Example C16_ex_bw6_curve : bw6_curve_ok Dump_bw6_767.pairing_X Dump_bw6_767.fq_MODULUS Dump_bw6_767.fr_MODULUS
                                         Dump_bw6_767.pairing_H_T Dump_bw6_767.pairing_H_Y true
                                         Dump_bw6_767.g1_COFACTOR Dump_bw6_767.g2_COFACTOR = true.
Proof. vm_compute. reflexivity. Qed.
Example C16_ex_sw_te : sw_te_ok (B1 Dump_ed_on_bls12_381.fq_MODULUS) Dump_ed_on_bls12_381.te_COEFF_A Dump_ed_on_bls12_381.te_COEFF_D
    Dump_ed_on_bls12_381.te_GENERATOR_X Dump_ed_on_bls12_381.te_GENERATOR_Y Dump_ed_on_bls12_381.te_MONT_COEFF_A
    Dump_ed_on_bls12_381.te_MONT_COEFF_B Dump_ed_on_bls12_381.sw_COEFF_A Dump_ed_on_bls12_381.sw_COEFF_B
    Dump_ed_on_bls12_381.sw_GENERATOR_X Dump_ed_on_bls12_381.sw_GENERATOR_Y = true.
Proof. vm_compute. reflexivity. Qed.
(* F_49 = F_7[u]/(u^2 - 3): 6 = -1 has order 2; F_13^2: 5 has order 4, 4 = 2^2 * 3^0 ... large root 2 of order 12 = 2^2 * 3 *)
Example C16_ex_fft_root : fft_root_ok (BQ (B1 13) [2]) [5; 0] 2 = true /\ fft_large_ok (BQ (B1 13) [2]) [2; 0] 2 3 1 = true.
Proof. vm_compute. split; reflexivity. Qed.
Example C16_ex_fft_embed : embeds_ok [5; 0; 0] 5 3 = true /\ opt_embeds_ok [[2; 0]] [2] 2 = true /\ opt_embeds_ok [] [] 2 = true.
Proof. vm_compute. repeat split; reflexivity. Qed.
