(* C18 -- property theorems only: pinned statements, each closed by `exact`.
   Model: coq/C18/Codec.v (enc = serialize_with_mode, size = serialized_size,
   dec = deserialize_with_mode, check = Valid::check; c = Compress::Yes, vl = Validate::Yes). *)
From V Require Import Base.Word C18.Codec C18.CodecProofs C18.CodecLaws C18.Utf8Proofs C18.Validate.

(* Compositional round trip: for every type descriptor (any nesting depth, any sizes) whose
   length-prefixed containers have no zero-sized elements, every well-typed valid value, both
   compress modes, both validate modes and every continuation of the input. *)
Theorem C18_roundtrip : forall t, ty_ok t = true -> forall c vl x rest,
  wt t x -> check t x = true -> dec c vl t (enc c t x ++ rest) = Ok (x, rest).
Proof. exact roundtrip. Qed.

(* serialized_size(mode) is exactly the number of bytes serialize_with_mode(mode) writes *)
Theorem C18_size_exact : forall t c x, wt t x -> zlen (enc c t x) = size c t x.
Proof. exact size_exact. Qed.

(* Totality on ALL byte strings: never a panic / fuel exhaustion; on success the unread rest is
   a suffix of the input, and non-zero-sized types consume at least one byte. *)
Theorem C18_dec_total : forall t, ty_ok t = true -> forall c vl bs,
  match dec c vl t bs with
  | Ok (_, r) => exists u, bs = u ++ r /\ (negb (zst t) = true -> u <> [])
  | Err _ => True
  | Panic _ => False
  end.
Proof. exact dec_total. Qed.

(* every strict prefix of a valid encoding is rejected with an error *)
Theorem C18_truncation_is_err : forall t, ty_ok t = true -> forall c vl x p q,
  wt t x -> check t x = true -> enc c t x = p ++ q -> q <> [] ->
  exists k, dec c vl t p = Err k.
Proof. exact truncation_is_err. Qed.

(* a successful decode does not depend on the bytes after the ones it consumed *)
Theorem C18_dec_extends : forall t c vl bs x r s,
  dec c vl t bs = Ok (x, r) -> dec c vl t (bs ++ s) = Ok (x, r ++ s).
Proof. exact dec_extends. Qed.

(* bool bytes and option tags other than 0 / 1 are InvalidData *)
Theorem C18_bool_strict : forall c vl b r, b <> 0 -> b <> 1 -> dec c vl TBool (b :: r) = Err EINVALID.
Proof. exact bool_strict. Qed.
Theorem C18_bool_values : forall c vl bs x r, dec c vl TBool bs = Ok (x, r) ->
  exists b, bs = b :: r /\ (b = 0 \/ b = 1) /\ x = VInt b.
Proof. exact bool_values. Qed.
Theorem C18_option_tag_strict : forall c vl t b r, b <> 0 -> b <> 1 ->
  dec c vl (TOption t) (b :: r) = Err EINVALID.
Proof. exact option_tag_strict. Qed.

(* UTF-8: the validator accepts exactly the encodings of sequences of Unicode scalar values
   (no overlong forms, surrogates, code points above U+10FFFF, stray / missing continuations) *)
Theorem C18_utf8_valid_iff : forall l, Forall byte l ->
  (utf8_valid l = true <-> exists cps, Forall scalar cps /\ l = flat_map utf8_encode cps).
Proof. exact utf8_valid_iff. Qed.
Theorem C18_string_strict : forall c vl bs x r, dec c vl TString bs = Ok (x, r) ->
  exists l, x = VList (map VInt l) /\ utf8_valid l = true.
Proof. exact string_strict. Qed.
Theorem C18_string_invalid : forall c vl body rest, utf8_valid body = false -> zlen body < W64 ->
  dec c vl TString (le_bytes 8 (zlen body) ++ body ++ rest) = Err EINVALID.
Proof. exact string_invalid. Qed.

(* the four wrappers pin both modes and ignore the outer ones *)
Theorem C18_wrapper_pins_mode : forall c vl c' vl' t x bs,
  enc c (TWrap c' vl' t) x = enc c' t x /\ size c (TWrap c' vl' t) x = size c' t x /\
  dec c vl (TWrap c' vl' t) bs = dec c' vl' t bs /\ check (TWrap c' vl' t) x = check t x.
Proof. exact wrapper_pins_mode. Qed.

(* derive: serialize / serialized_size / check of a struct = those of its flattened leaf fields,
   in declaration order *)
Theorem C18_derive_is_field_sequence : forall t c x, wt t x ->
  enc c (TStruct t) x = flat_map (fun f => enc c (fst f) (snd f)) (leaves t x) /\
  size c (TStruct t) x = zsum (map (fun f => size c (fst f) (snd f)) (leaves t x)) /\
  check (TStruct t) x = forallb (fun f => check (fst f) (snd f)) (leaves t x).
Proof. exact derive_fields. Qed.

(* ---- validation: what Validate::Yes adds to Validate::No ----
   [valid t v] (= [check t v], Valid::check) is structural: a container / derived struct is valid iff all its
   components are; the leaves TEven / TLeaf carry the non-trivial predicates.
   [checked t]: no *Unchecked wrapper (which pins Validate::No) around a type that has invalid values.
   [exact_ty t]: [checked t], and BTreeMap / BTreeSet hold trivially valid entries only (collect() drops an entry
   whose key is repeated later, so "the decoded map is valid" is weaker than "every decoded entry was valid"). *)
(* for every type built from the modelled constructors: a value returned under Validate::Yes is valid ... *)
Theorem C18_decode_validates : forall t, checked t = true -> forall c bs v r,
  dec c true t bs = Ok (v, r) -> valid t v = true.
Proof. exact dec_yes_valid. Qed.
(* ... and what Validate::No accepts, Validate::Yes accepts iff it is valid, rejecting with InvalidData otherwise *)
Theorem C18_decode_validates_exact : forall t, exact_ty t = true -> forall c bs v r,
  dec c false t bs = Ok (v, r) ->
  dec c true t bs = if valid t v then Ok (v, r) else Err EINVALID.
Proof. exact dec_no_yes_exact. Qed.
(* for ALL types (also maps / sets of validity-bearing entries, Unchecked wrappers): Validate::Yes is a restriction
   of Validate::No (same value, same bytes consumed) whose only additional outcome is InvalidData *)
Theorem C18_validate_yes_restricts_no : forall t c bs v r,
  dec c true t bs = Ok (v, r) -> dec c false t bs = Ok (v, r).
Proof. exact dec_yes_no. Qed.
Theorem C18_validate_only_rejects : forall t c bs v r, dec c false t bs = Ok (v, r) ->
  dec c true t bs = Ok (v, r) \/ dec c true t bs = Err EINVALID.
Proof. exact dec_no_yes_weak. Qed.
(* the instance seeded change 6 broke: Vec<Vec<S>> with one invalid leaf anywhere is rejected under Validate::Yes *)
Theorem C18_nested_seq_invalid_leaf : forall t c bs l r, exact_ty t = true ->
  dec c false (TSeq (TSeq t)) bs = Ok (VList l, r) ->
  existsb (fun inner => match inner with VList xs => existsb (fun x => negb (valid t x)) xs | _ => false end) l = true ->
  dec c true (TSeq (TSeq t)) bs = Err EINVALID.
Proof. exact nested_seq_invalid_leaf. Qed.

(* ordered maps / sets: entries in strictly increasing key order round-trip *)
Theorem C18_btreemap_roundtrip : forall k v, ty_ok (TMap k v) = true -> forall c vl l rest,
  Forall (fun e => match e with VPair a b => wt k a /\ wt v b | _ => False end) l ->
  incr (kcmp k) (map entry_key l) -> zlen l < W64 -> check (TMap k v) (VList l) = true ->
  dec c vl (TMap k v) (enc c (TMap k v) (VList l) ++ rest) = Ok (VList l, rest).
Proof. exact btreemap_roundtrip. Qed.
Theorem C18_btreeset_roundtrip : forall k, ty_ok (TSet k) = true -> forall c vl l rest,
  Forall (wt k) l -> incr (kcmp k) l -> zlen l < W64 -> check (TSet k) (VList l) = true ->
  dec c vl (TSet k) (enc c (TSet k) (VList l) ++ rest) = Ok (VList l, rest).
Proof. exact btreeset_roundtrip. Qed.

(* zero-sized elements (Vec<()>): round trip within the model's iteration budget ... *)
Theorem C18_zst_seq_small_partial : forall c vl n rest, (n <= ZST_BUDGET)%nat ->
  dec c vl (TSeq TUnit) (enc c (TSeq TUnit) (VList (repeat VUnit n)) ++ rest) = Ok (VList (repeat VUnit n), rest).
Proof. exact zst_seq_small. Qed.
(* ... beyond it the modelled loop (which, like the Rust loop, runs `len` times whatever the input
   length) does not finish: 8 bytes of input, 5000 iterations requested *)
Example C18_zst_seq_hang : forall c vl, dec c vl (TSeq TUnit) (le_bytes 8 5000) = Panic OutOfFuel.
Proof. exact zst_seq_hang. Qed.

(* ---- non-vacuity: concrete instances of the hypotheses ---- *)
(* Vec<Option<(u16, Vec<bool>)>> = [Some((513, [true,false])), None] *)
Definition ex_ty : ty := TSeq (TOption (TPair (TUInt 2) (TPair (TSeq TBool) TUnit))).
Definition ex_val : value :=
  VList [VSome (VPair (VInt 513) (VPair (VList [VInt 1; VInt 0]) VUnit)); VNone].
Example C18_ex_ok : ty_ok ex_ty = true /\ check ex_ty ex_val = true.
Proof. vm_compute. split; reflexivity. Qed.
Example C18_ex_enc : enc true ex_ty ex_val =
  [2;0;0;0;0;0;0;0; 1; 1;2; 2;0;0;0;0;0;0;0; 1;0; 0].
Proof. vm_compute. reflexivity. Qed.
Example C18_ex_dec : dec true true ex_ty (enc true ex_ty ex_val ++ [7]) = Ok (ex_val, [7]).
Proof. vm_compute. reflexivity. Qed.
Example C18_ex_trunc : dec true true ex_ty (firstn 21 (enc true ex_ty ex_val)) = Err EIO.
Proof. vm_compute. reflexivity. Qed.
(* BTreeMap<u8, Even> {1: 2, 5: 4}; an odd payload is rejected only when validating *)
Example C18_ex_map :
  dec true true (TMap (TUInt 1) TEven) (enc true (TMap (TUInt 1) TEven) (VList [VPair (VInt 1) (VInt 2); VPair (VInt 5) (VInt 4)]))
  = Ok (VList [VPair (VInt 1) (VInt 2); VPair (VInt 5) (VInt 4)], []).
Proof. vm_compute. reflexivity. Qed.
Example C18_ex_validate : dec true true (TSeq TEven) [1;0;0;0;0;0;0;0; 3] = Err EINVALID /\
                          dec true false (TSeq TEven) [1;0;0;0;0;0;0;0; 3] = Ok (VList [VInt 3], []).
Proof. vm_compute. split; reflexivity. Qed.
(* UTF-8: "é€" is valid; an overlong slash, a surrogate and U+110000 are not *)
Example C18_ex_utf8 : utf8_valid [195;169;226;130;172] = true /\ utf8_valid [192;175] = false /\
                      utf8_valid [237;160;128] = false /\ utf8_valid [244;144;128;128] = false.
Proof. vm_compute. repeat split; reflexivity. Qed.
(* oversized length prefix 2^64-1 on a Vec<u32> with 4 bytes of payload: an error, not a panic *)
Example C18_ex_prefix : dec true true (TSeq (TUInt 4)) ([255;255;255;255;255;255;255;255] ++ [1;0;0;0]) = Err EIO.
Proof. vm_compute. reflexivity. Qed.
(* validation. S = struct VT(Lt200, Even32) = TStruct (TLeaf 1 1 * (TLeaf 4 0 * 1)); Vec<Vec<S>> = [[ (7, 10) ], [ (5, 2), (250, 4) ]]:
   the last leaf pair has 250 >= 200 *)
Definition ex_S : ty := TStruct (TPair (TLeaf 1 1) (TPair (TLeaf 4 0) TUnit)).
Definition ex_vv : list Z := [2;0;0;0;0;0;0;0;  1;0;0;0;0;0;0;0; 7; 10;0;0;0;  2;0;0;0;0;0;0;0; 5; 2;0;0;0; 250; 4;0;0;0].
Example C18_ex_exact_ty : exact_ty (TSeq (TSeq ex_S)) = true /\ checked (TMap (TUInt 1) ex_S) = true /\
                          exact_ty (TMap (TUInt 1) ex_S) = false /\ checked (TWrap true false ex_S) = false.
Proof. vm_compute. repeat split; reflexivity. Qed.
Example C18_ex_nested_invalid :
  dec true true (TSeq (TSeq ex_S)) ex_vv = Err EINVALID /\
  match dec true false (TSeq (TSeq ex_S)) ex_vv with Ok (v, []) => valid (TSeq (TSeq ex_S)) v | _ => true end = false.
Proof. vm_compute. split; reflexivity. Qed.
(* why maps are excluded from the exact statement: {1: (250,4)} overwritten by {1: (5,2)} is a valid map under
   Validate::No, while Validate::Yes rejects the first entry *)
Definition ex_dup : list Z := [2;0;0;0;0;0;0;0; 1; 250; 4;0;0;0; 1; 5; 2;0;0;0].
Example C18_ex_map_dup :
  dec true true (TMap (TUInt 1) ex_S) ex_dup = Err EINVALID /\
  match dec true false (TMap (TUInt 1) ex_S) ex_dup with Ok (v, []) => negb (valid (TMap (TUInt 1) ex_S) v) | _ => true end = false.
Proof. vm_compute. split; reflexivity. Qed.
