(* C19 -- equality, ordering and hashing coincide with mathematical identity.
   Only statements here; proofs are in coq/C19/{OrdProofs,PointProofs,TorsionProofs,PolyProofs}.v.

   Conventions: an Fp element is its stored Montgomery limb vector [a]; [fp_valid m a] is the
   invariant of every stored element (wf, N limbs, val a < p -- preserved by all operations, C01);
   [std m a] = val (into_bigint m a) is the canonical integer it denotes.  A hasher is an arbitrary
   function [h] of the structure a type feeds to it ([*_hash_key]). *)
From V Require Import Base.Word Base.Field C15.BigIntModel C01.MontModel C01.MontProofs
  C03.CurveExec C03.FieldHyp C03.TEProofs C08.Model C08.Common
  C19.OrdModel C19.Exprs C19.PolyExprs C19.OrdProofs C19.PointProofs C19.TorsionProofs C19.PolyProofs C19.Examples
  C17.MvPoly C17.Spec C19.MvModel C19.MvEqProofs.
From V Require C09.Bytes C09.FpCodec C09.PointCodec C09.Exec C19.DecProofs.
Require Import Coq.setoid_ring.Field_theory Coq.setoid_ring.Ring_theory.

(* ================= prime fields ================= *)

Theorem C19_fp_eq_iff_same_residue : forall m, wf m -> val m mod 2 = 1 ->
  forall a b, fp_valid m a -> fp_valid m b -> (fp_eqb a b = true <-> std m a = std m b).
Proof. exact fp_eq_iff_same_residue. Qed.

Theorem C19_fp_ord_is_integer_order : forall m, wf m -> val m mod 2 = 1 ->
  forall a b, fp_valid m a -> fp_valid m b -> fp_cmp m a b = Z.compare (std m a) (std m b).
Proof. exact fp_cmp_is_integer_order. Qed.

(* total (to_total), antisymmetric, transitive, Eq exactly on identical elements *)
Theorem C19_fp_ord_total_order : forall m, wf m -> val m mod 2 = 1 -> total_order_on (fp_valid m) (fp_cmp m).
Proof. exact fp_cmp_total_order. Qed.

Theorem C19_total_order_is_total : forall T (D : T -> Prop) cmpf, total_order_on D cmpf ->
  forall a b, D a -> D b -> cmpf a b = Lt \/ a = b \/ cmpf b a = Lt.
Proof. exact (fun T => @to_total T). Qed.

Theorem C19_fp_ord_consistent_with_eq : forall m, wf m -> val m mod 2 = 1 ->
  forall a b, fp_valid m a -> fp_valid m b -> (fp_cmp m a b = Eq <-> fp_eqb a b = true).
Proof. exact fp_cmp_consistent_with_eq. Qed.

Theorem C19_fp_is_zero_spec : forall m, wf m -> val m mod 2 = 1 -> 1 < val m ->
  forall a, fp_valid m a -> (fp_is_zero m a = true <-> std m a = 0).
Proof. exact fp_is_zero_spec. Qed.

Theorem C19_fp_is_one_spec : forall m, wf m -> val m mod 2 = 1 -> 1 < val m ->
  forall a, fp_valid m a -> (fp_is_one m a = true <-> std m a = 1).
Proof. exact fp_is_one_spec. Qed.

Theorem C19_fp_hash_respects_eq : forall (H : Type) (h : list Z -> H) a b,
  fp_eqb a b = true -> h (fp_hash_key a) = h (fp_hash_key b).
Proof. exact fp_hash_respects_eq. Qed.

(* the stored form of the residue v used by the executable model *)
Theorem C19_fp_of_int_spec : forall m, wf m -> val m mod 2 = 1 -> 1 < val m ->
  forall v, fp_valid m (fp_of_int m v) /\ std m (fp_of_int m v) = v mod val m.
Proof. exact fp_of_int_spec. Qed.

Example C19_fp_example : (wf [13] /\ val [13] mod 2 = 1 /\ 1 < val [13]) /\
  fp_valid [13] (fp_of_int [13] 5) /\ fp_valid [13] (fp_of_int [13] 11) /\
  fp_of_int [13] 5 = [2] /\ std [13] (fp_of_int [13] 5) = 5.
Proof. exact (conj ex_mod13 ex_fp_valid). Qed.
(* 4 < 5 although the stored limbs are [12] and [2]: the order is the integer order, not the limb order *)
Example C19_fp_cmp_example : fp_cmp [13] (fp_of_int [13] 5) (fp_of_int [13] 11) = Lt /\
  fp_cmp [13] (fp_of_int [13] 4) (fp_of_int [13] 5) = Lt /\ cmp (fp_of_int [13] 4) (fp_of_int [13] 5) = Gt.
Proof. exact (conj eq_refl (conj eq_refl eq_refl)). Qed.

(* ================= big integers ================= *)

Theorem C19_bigint_cmp_total_order : forall N, total_order_on (limbs_N N) bigint_cmp.
Proof. exact bigint_cmp_total_order. Qed.
Theorem C19_bigint_cmp_is_integer_order : forall a b, wf a -> wf b -> length a = length b ->
  bigint_cmp a b = Z.compare (val a) (val b).
Proof. exact bigint_cmp_is_integer_order. Qed.
Theorem C19_bigint_eq_iff_same_integer : forall a b, wf a -> wf b -> length a = length b ->
  (bigint_eqb a b = true <-> val a = val b).
Proof. exact bigint_eq_iff_same_integer. Qed.
Theorem C19_bigint_is_zero_spec : forall a, wf a -> (bigint_is_zero a = true <-> val a = 0).
Proof. exact bigint_is_zero_spec. Qed.
Theorem C19_bigint_hash_respects_eq : forall (H : Type) (h : list Z -> H) a b,
  bigint_eqb a b = true -> h (bigint_hash_key a) = h (bigint_hash_key b).
Proof. exact bigint_hash_respects_eq. Qed.
Example C19_bigint_example : limbs_N 2 [5; 7] /\ limbs_N 2 [6; 7].
Proof. exact ex_limbs. Qed.

(* ================= extension towers ================= *)

(* generic: the lexicographic product (major key g1, minor key g2) of two total orders *)
Theorem C19_lex_product_total_order :
  forall (P T1 T2 : Type) (g1 : P -> T1) (g2 : P -> T2) (D : P -> Prop) (D1 : T1 -> Prop) (D2 : T2 -> Prop)
         (c1 : T1 -> T1 -> comparison) (c2 : T2 -> T2 -> comparison),
  (forall a, D a -> D1 (g1 a) /\ D2 (g2 a)) ->
  (forall a b, D a -> D b -> g1 a = g1 b -> g2 a = g2 b -> a = b) ->
  total_order_on D1 c1 -> total_order_on D2 c2 ->
  total_order_on D (fun a b => lex (c1 (g1 a) (g1 b)) (c2 (g2 a) (g2 b))).
Proof. exact (fun P T1 T2 => @lex2_total_order P T1 T2). Qed.

(* any base whose relations coincide with mathematical identity gives a quadratic / cubic
   extension with the same property: == iff same coordinates, one stored structure per value,
   total order, is_zero / is_one iff the coordinates of 0 / 1 *)
Theorem C19_quad_ext_relations : forall T (D : T -> Prop) (den : T -> list Z) (B : Cops T),
  good_cops D den B -> good_cops (quad_D D) (quad_den den) (QuadC B).
Proof. exact (fun T => @quad_good T). Qed.
Theorem C19_cubic_ext_relations : forall T (D : T -> Prop) (den : T -> list Z) (B : Cops T),
  good_cops D den B -> good_cops (cubic_D D) (cubic_den den) (CubicC B).
Proof. exact (fun T => @cubic_good T). Qed.
Theorem C19_fp_relations : forall m, wf m -> val m mod 2 = 1 -> 1 < val m ->
  good_cops (fp_valid m) (fun a => [std m a]) (FpC m).
Proof. exact fp_good. Qed.

(* the documented orders: c1 first then c0; c2, c1, c0 *)
Theorem C19_quad_cmp_lexicographic : forall T (B : Cops T) a b,
  quad_cmp B a b = Lt <->
  c_cmp B (snd a) (snd b) = Lt \/ (c_cmp B (snd a) (snd b) = Eq /\ c_cmp B (fst a) (fst b) = Lt).
Proof. exact (fun T => @quad_cmp_lexicographic T). Qed.
Theorem C19_cubic_cmp_lexicographic : forall T (B : Cops T) a b,
  cubic_cmp B a b = Lt <->
  c_cmp B (c2 a) (c2 b) = Lt \/
  (c_cmp B (c2 a) (c2 b) = Eq /\
   (c_cmp B (c1 a) (c1 b) = Lt \/ (c_cmp B (c1 a) (c1 b) = Eq /\ c_cmp B (c0 a) (c0 b) = Lt))).
Proof. exact (fun T => @cubic_cmp_lexicographic T). Qed.

Theorem C19_ext_hash_respects_eq : forall T (D : T -> Prop) (den : T -> list Z) (B : Cops T),
  good_cops D den B -> forall (H : Type) (h : T -> H) a b, D a -> D b -> c_eqb B a b = true -> h a = h b.
Proof. exact (fun T => @hash_respects_eq T). Qed.
Theorem C19_ext_cmp_consistent_with_eq : forall T (D : T -> Prop) (den : T -> list Z) (B : Cops T),
  good_cops D den B -> forall a b, D a -> D b -> (c_cmp B a b = Eq <-> c_eqb B a b = true).
Proof. exact (fun T => @cmp_eq_iff_eqb T). Qed.

(* instances: Fq12 = ((Fp[u])[v])[w] of BLS12 / BN curves; Fq3 of MNT6 *)
Theorem C19_fq12_relations : forall m, wf m -> val m mod 2 = 1 -> 1 < val m ->
  good_cops (quad_D (cubic_D (quad_D (fp_valid m))))
            (quad_den (cubic_den (quad_den (fun a => [std m a]))))
            (QuadC (CubicC (QuadC (FpC m)))).
Proof. exact fq12_tower_good. Qed.
Theorem C19_fq3_relations : forall m, wf m -> val m mod 2 = 1 -> 1 < val m ->
  good_cops (cubic_D (fp_valid m)) (cubic_den (fun a => [std m a])) (CubicC (FpC m)).
Proof. exact fq3_tower_good. Qed.

(* PairingOutput: relations of the target field; is_zero is the field's is_one *)
Theorem C19_pairing_output_is_zero : forall T (D : T -> Prop) (den : T -> list Z) (B : Cops T),
  good_cops D den B -> forall a, D a -> (gt_is_zero B a = true <-> den a = 1 :: repeat 0 (c_deg B - 1)).
Proof. exact (fun T => @gt_is_zero_spec T). Qed.

(* ================= curve points ================= *)

Theorem C19_sw_proj_eq_iff_same_affine : forall T (F : Fops T), good_field F ->
  forall P Q, sw_eqb F P Q = true <-> sw_to_affine F P = sw_to_affine F Q.
Proof. exact (fun T => @sw_proj_eq_iff_same_affine T). Qed.

Theorem C19_sw_proj_eq_iff_same_hash_key : forall T (F : Fops T), good_field F ->
  forall P Q, sw_eqb F P Q = true <-> sw_hash_key F P = sw_hash_key F Q.
Proof. exact (fun T => @sw_proj_eq_iff_same_hash_key T). Qed.

Theorem C19_sw_proj_hash_respects_eq : forall T (F : Fops T), good_field F ->
  forall (H : Type) (h : sw_raw -> H) P Q, sw_eqb F P Q = true -> h (sw_hash_key F P) = h (sw_hash_key F Q).
Proof. exact (fun T => @sw_proj_hash_respects_eq T). Qed.

Theorem C19_sw_into_affine_eq : forall T (F : Fops T), good_field F ->
  forall P Q, sw_raw_eqb F (sw_into_affine F P) (sw_into_affine F Q) = sw_eqb F P Q.
Proof. exact (fun T => @sw_into_affine_eq T). Qed.

Theorem C19_sw_affine_eq_canonical : forall T (F : Fops T), good_field F ->
  forall r s, sw_raw_canonical F r -> sw_raw_canonical F s ->
  (sw_raw_eqb F r s = true <-> sw_aff_of_raw r = sw_aff_of_raw s).
Proof. exact (fun T => @sw_raw_canonical_eq T). Qed.

Theorem C19_sw_proj_eq_aff : forall T (F : Fops T), good_field F ->
  forall P A, sw_proj_eq_aff F P A = true <-> sw_to_affine F P = A.
Proof. exact (fun T => @sw_proj_eq_aff_spec T). Qed.
Theorem C19_sw_aff_eq_proj : forall T (F : Fops T), good_field F ->
  forall A P, sw_aff_eq_proj F A P = true <-> A = sw_to_affine F P.
Proof. exact (fun T => @sw_aff_eq_proj_spec T). Qed.

Theorem C19_sw_is_zero_spec : forall T (F : Fops T), good_field F ->
  forall P, sw_is_zero F P = true <-> sw_to_affine F P = None.
Proof. exact (fun T => @sw_is_zero_spec T). Qed.

Theorem C19_sw_identity_any_coords : forall T (F : Fops T), good_field F ->
  forall x y x' y', sw_eqb F (x, y, f0 F) (x', y', f0 F) = true.
Proof. exact (fun T => @sw_identity_any_coords T). Qed.

Theorem C19_sw_rescale_same_point : forall T (F : Fops T), good_field F ->
  forall lam P, lam <> f0 F -> sw_to_affine F (sw_rescale F lam P) = sw_to_affine F P.
Proof. exact (fun T => @sw_rescale_same_point T). Qed.

Theorem C19_te_proj_eq_iff_same_affine : forall T (F : Fops T), good_field F ->
  forall P Q, te_valid F P -> te_valid F Q ->
  (te_eqb F P Q = true <-> te_to_affine F P = te_to_affine F Q).
Proof. exact (fun T => @te_proj_eq_iff_same_affine T). Qed.

Theorem C19_te_proj_hash_respects_eq : forall T (F : Fops T), good_field F ->
  forall (H : Type) (h : te_aff -> H) P Q, te_valid F P -> te_valid F Q ->
  te_eqb F P Q = true -> h (te_hash_key F P) = h (te_hash_key F Q).
Proof. exact (fun T => @te_proj_hash_respects_eq T). Qed.

Theorem C19_te_into_affine_eq : forall T (F : Fops T), good_field F ->
  forall P Q, te_valid F P -> te_valid F Q ->
  te_aff_eqb F (te_hash_key F P) (te_hash_key F Q) = te_eqb F P Q.
Proof. exact (fun T => @te_into_affine_eq T). Qed.

Theorem C19_te_proj_eq_aff : forall T (F : Fops T), good_field F ->
  forall P A, te_valid F P -> (te_proj_eq_aff F P A = true <-> te_to_affine F P = A).
Proof. exact (fun T => @te_proj_eq_aff_spec T). Qed.
Theorem C19_te_aff_eq_proj : forall T (F : Fops T), good_field F ->
  forall A P, te_valid F P -> (te_aff_eq_proj F A P = true <-> A = te_to_affine F P).
Proof. exact (fun T => @te_aff_eq_proj_spec T). Qed.

Theorem C19_te_rescale_same_point : forall T (F : Fops T), good_field F ->
  forall lam P, lam <> f0 F -> te_valid F P ->
  te_valid F (te_rescale F lam P) /\ te_to_affine F (te_rescale F lam P) = te_to_affine F P.
Proof. exact (fun T => @te_rescale_same_point T). Qed.

Theorem C19_te_identity_any_z : forall T (F : Fops T), good_field F ->
  forall z z', z <> f0 F -> z' <> f0 F -> te_eqb F (f0 F, z, f0 F, z) (f0 F, z', f0 F, z') = true.
Proof. exact (fun T => @te_identity_any_z T). Qed.

(* ---- points anywhere on the curve: small order, outside the prime-order subgroup, zero coordinates.
   No statement below (or above) assumes a subgroup or the curve equation: a representative is any
   (X, Y, Z) resp. any valid (X : Y : T : Z) (Z <> 0, T Z = X Y). ---- *)

(* is_zero answers "the denoted affine point is the neutral element (0, 1)" for EVERY valid representative *)
Theorem C19_te_is_zero_iff : forall T (F : Fops T), good_field F ->
  forall P, te_valid F P -> (te_is_zero F P = true <-> te_to_affine F P = (f0 F, f1 F)).
Proof. exact (fun T => @te_is_zero_iff T). Qed.

(* P == zero() and zero() == P are is_zero *)
Theorem C19_te_eq_zero_is_zero : forall T (F : Fops T), good_field F ->
  forall P, te_eqb F P (te_zero F) = te_is_zero F P /\ te_eqb F (te_zero F) P = te_is_zero F P.
Proof. exact (fun T => @te_eq_zero_is_zero T). Qed.

Theorem C19_te_aff_is_zero_spec : forall T (F : Fops T), good_field F ->
  forall A, te_aff_is_zero F A = true <-> A = (f0 F, f1 F).
Proof. exact (fun T => @te_aff_is_zero_spec T). Qed.

(* Affine::is_zero of into_affine() = Projective::is_zero *)
Theorem C19_te_into_affine_is_zero : forall T (F : Fops T), good_field F ->
  forall P, te_valid F P -> te_aff_is_zero F (te_to_affine F P) = te_is_zero F P.
Proof. exact (fun T => @te_into_affine_is_zero T). Qed.

Theorem C19_te_eqb_sym : forall T (F : Fops T), good_field F ->
  forall P Q, te_valid F P -> te_valid F Q -> te_eqb F P Q = te_eqb F Q P.
Proof. exact (fun T => @te_eqb_sym T). Qed.

(* rescaling (X l : Y l : T l : Z l) of a point anywhere on the curve: same point for ==, same is_zero *)
Theorem C19_te_rescale_eq : forall T (F : Fops T), good_field F ->
  forall lam P, lam <> f0 F -> te_valid F P ->
  te_eqb F (te_rescale F lam P) P = true /\ te_is_zero F (te_rescale F lam P) = te_is_zero F P.
Proof. exact (fun T => @te_rescale_eq T). Qed.

(* the point of order two (0, -1) in any representative (0 : -z : 0 : z) is valid, is NOT the neutral
   element for is_zero, == (both argument orders, against every representative of the identity) and
   Affine::is_zero *)
Theorem C19_te_order_two_not_zero : forall T (F : Fops T), good_field F ->
  forall z z', z <> f0 F -> z' <> f0 F ->
  te_valid F (f0 F, fneg F z, f0 F, z) /\
  te_to_affine F (f0 F, fneg F z, f0 F, z) = (f0 F, fneg F (f1 F)) /\
  te_is_zero F (f0 F, fneg F z, f0 F, z) = false /\
  te_eqb F (f0 F, fneg F z, f0 F, z) (f0 F, z', f0 F, z') = false /\
  te_eqb F (f0 F, z', f0 F, z') (f0 F, fneg F z, f0 F, z) = false /\
  te_aff_is_zero F (f0 F, fneg F (f1 F)) = false.
Proof. exact (fun T => @te_order_two_not_zero T). Qed.

(* normalize_batch = into_affine point by point *)
Theorem C19_te_normalize_batch : forall T (F : Fops T), good_field F ->
  forall v, Forall (te_valid F) v -> te_normalize_batch F v = map (te_to_affine F) v.
Proof. exact (fun T => @te_normalize_batch_valid T). Qed.

Theorem C19_sw_eq_zero_is_zero : forall T (F : Fops T), good_field F ->
  forall P, sw_eqb F P (sw_zero F) = sw_is_zero F P /\ sw_eqb F (sw_zero F) P = sw_is_zero F P.
Proof. exact (fun T => @sw_eq_zero_is_zero T). Qed.

(* the infinity flag of into_affine() = Projective::is_zero *)
Theorem C19_sw_into_affine_is_zero : forall T (F : Fops T), good_field F ->
  forall P, sw_aff_is_zero (sw_into_affine F P) = sw_is_zero F P.
Proof. exact (fun T => @sw_into_affine_is_zero T). Qed.

Theorem C19_sw_eqb_sym : forall T (F : Fops T), good_field F ->
  forall P Q, sw_eqb F P Q = sw_eqb F Q P.
Proof. exact (fun T => @sw_eqb_sym T). Qed.

(* points of order two (Y = 0, Z <> 0): P == -P, but P is not the identity *)
Theorem C19_sw_order_two : forall T (F : Fops T), good_field F ->
  forall x z, z <> f0 F ->
  sw_is_zero F (x, f0 F, z) = false /\
  sw_eqb F (x, f0 F, z) (sw_neg F (x, f0 F, z)) = true /\
  sw_eqb F (x, f0 F, z) (sw_zero F) = false.
Proof. exact (fun T => @sw_order_two T). Qed.

Theorem C19_sw_rescale_eq : forall T (F : Fops T), good_field F ->
  forall lam P, lam <> f0 F -> sw_eqb F (sw_rescale F lam P) P = true.
Proof. exact (fun T => @sw_rescale_eq T). Qed.
Theorem C19_sw_rescale_is_zero : forall T (F : Fops T), good_field F ->
  forall lam P, lam <> f0 F -> sw_is_zero F (sw_rescale F lam P) = sw_is_zero F P.
Proof. exact (fun T => @sw_rescale_is_zero T). Qed.

Theorem C19_sw_normalize_batch : forall T (F : Fops T), good_field F ->
  forall v, sw_normalize_batch F v = map (sw_to_affine F) v.
Proof. exact (fun T => @sw_normalize_batch_all T). Qed.

(* the order-two point (0 : -3 : 0 : 3) of a twisted Edwards curve and the order-two point (-1, 0) of
   y^2 = x^3 + 1 in the representative (-4, 0, 2), over Q *)
Example C19_te_order_two_example : q 3 <> f0 QcOps /\ q 5 <> f0 QcOps /\ te_valid QcOps (q 0, q (-3), q 0, q 3) /\
  te_is_zero QcOps (q 0, q (-3), q 0, q 3) = false /\ te_is_zero QcOps (q 0, q 5, q 0, q 5) = true /\
  te_eqb QcOps (q 0, q (-3), q 0, q 3) (q 0, q 5, q 0, q 5) = false.
Proof. exact (conj ex_three_nz (conj ex_five_nz (conj ex_te_valid_ord2 (conj eq_refl (conj eq_refl eq_refl))))). Qed.
Example C19_sw_order_two_example : q 2 <> f0 QcOps /\
  sw_is_zero QcOps (q (-4), q 0, q 2) = false /\
  sw_eqb QcOps (q (-4), q 0, q 2) (sw_neg QcOps (q (-4), q 0, q 2)) = true /\
  sw_to_affine QcOps (q (-4), q 0, q 2) = Some (q (-1), q 0).
Proof. exact (conj ex_rescale_nz (conj eq_refl (conj eq_refl ex_sw_order_two_affine))). Qed.

Example C19_good_field_example : good_field QcOps.
Proof. exact QcOps_good. Qed.
Example C19_rescale_example : q 2 <> f0 QcOps /\ te_valid QcOps (q 0, q 3, q 0, q 3).
Proof. exact (conj ex_rescale_nz ex_te_valid). Qed.
(* (2, 3) on y^2 = x^3 + 1, rescaled by 2: (8, 24, 2) is the same point, (8, -24, 2) is not *)
Example C19_sw_rescale_example :
  sw_rescale QcOps (q 2) (q 2, q 3, q 1) = (q 8, q 24, q 2) /\
  sw_eqb QcOps (q 8, q 24, q 2) (q 2, q 3, q 1) = true /\
  sw_eqb QcOps (q 8, q (-24), q 2) (q 2, q 3, q 1) = false.
Proof. exact (conj eq_refl (conj eq_refl eq_refl)). Qed.

(* ================= polynomials ================= *)

Theorem C19_poly_eq_iff_same_poly : forall T (z : T) (eqb : T -> T -> bool),
  (forall x y, eqb x y = true <-> x = y) ->
  forall p q, dense_canonical z p -> dense_canonical z q ->
  (dense_eqb eqb p q = true <-> forall i, nth i p z = nth i q z).
Proof. exact (fun T => @poly_eq_iff_same_poly T). Qed.

Theorem C19_poly_hash_respects_eq : forall T (eqb : T -> T -> bool),
  (forall x y, eqb x y = true <-> x = y) ->
  forall (H : Type) (h : list T -> H) p q, dense_eqb eqb p q = true -> h p = h q.
Proof. exact (fun T => @dense_hash_respects_eq T). Qed.

Theorem C19_poly_is_zero_spec : forall T (z : T) (is0 : T -> bool),
  (forall x, is0 x = true <-> x = z) ->
  forall p, dense_is_zero is0 p = true <-> forall i, nth i p z = z.
Proof. exact (fun T => @dense_is_zero_spec T). Qed.

Theorem C19_poly_is_zero_canonical : forall T (z : T) (is0 : T -> bool),
  (forall x, is0 x = true <-> x = z) ->
  forall p, dense_canonical z p -> (dense_is_zero is0 p = true <-> p = []).
Proof. exact (fun T => @dense_is_zero_canonical T). Qed.

Theorem C19_poly_trim_canonical : forall T (z : T) (is0 : T -> bool),
  (forall x, is0 x = true <-> x = z) ->
  forall p, dense_canonical z (trim is0 p) /\ forall i, nth i (trim is0 p) z = nth i p z.
Proof. exact (fun T => @trim_spec T). Qed.

(* sparse: exponents strictly increasing, coefficients non-zero; [scoeff p i] = coefficient of x^i *)
Theorem C19_sparse_eq_iff_same_poly : forall T (z : T) (eqb : T -> T -> bool),
  (forall x y, eqb x y = true <-> x = y) ->
  forall p q lo, sparse_canonical z lo p -> sparse_canonical z lo q ->
  (sparse_eqb eqb p q = true <-> forall i, scoeff z p i = scoeff z q i).
Proof. exact (fun T => @sparse_eq_iff_same_poly T). Qed.

(* From<DensePolynomial> for SparsePolynomial: canonical, same coefficients *)
Theorem C19_sparse_of_dense_spec : forall T (z : T) (is0 : T -> bool),
  (forall x, is0 x = true <-> x = z) ->
  forall p k, 0 <= k ->
  sparse_canonical z k (sparse_of_dense is0 k p) /\
  forall i, scoeff z (sparse_of_dense is0 k p) i = if i <? k then z else nth (Z.to_nat (i - k)) p z.
Proof. exact (fun T => @sparse_of_dense_spec T). Qed.

Example C19_poly_example : dense_canonical 0 [1; 0; 2] /\ dense_canonical 0 (trim (Z.eqb 0) [1; 0; 2; 0; 0]).
Proof. exact ex_canonical. Qed.
Example C19_sparse_example : sparse_canonical 0 0 [(0, 1); (3, 5)] /\
  sparse_of_dense (Z.eqb 0) 0 [1; 0; 0; 5] = [(0, 1); (3, 5)].
Proof. exact ex_sparse. Qed.

(* Operator results are stored canonically.  [oks F res f] / [okd F res f] (coq/C08/Common.v) = "res = ROk v, v
   canonical, v evaluates to f"; coq/Props/C08.v proves it for sparse + += -= +=(f,q) neg mul scale, both conversions,
   dense + += -= +=(f,q) neg * naive_mul, dense/sparse mixed operators, division and interpolation on canonical
   operands.  [r] is any coefficient encoding that sends only 0 to z (for Fp: the Montgomery limb vector).  Hence
   C19_poly_eq_iff_same_poly / C19_sparse_eq_iff_same_poly apply to every pair of operator results: `==` (and the
   hash) on them is identity of the coefficient functions. *)
Theorem C19_sparse_result_canonical : forall (K : Type) (F : Fops K) (T : Type) (z : T) (r : K -> T),
  (forall c, c <> f0 F -> r c <> z) ->
  forall (res : Model.res (list (nat * K))) (f : K -> K), oks F res f ->
  exists v, res = ROk v /\ sparse_canonical z 0 (stored_sparse r v).
Proof. exact @sparse_result_canonical. Qed.

Theorem C19_dense_result_canonical : forall (K : Type) (F : Fops K) (T : Type) (z : T) (r : K -> T),
  r (f0 F) = z -> (forall c, c <> f0 F -> r c <> z) ->
  forall (res : Model.res (list K)) (f : K -> K), okd F res f ->
  exists v, res = ROk v /\ dense_canonical z (stored_dense r v).
Proof. exact @dense_result_canonical. Qed.

(* `a -= &b` on canonical sparse operands never panics and stores no zero coefficient, no unsorted / repeated degree *)
Theorem C19_sparse_sub_assign_canonical : forall (K : Type) (F : Fops K),
  field_theory (f0 F) (f1 F) (fadd F) (fmul F) (fsub F) (fneg F) (fun a b => fmul F a (finv F b)) (finv F) eq ->
  (forall a b, feqb F a b = true <-> a = b) ->
  forall (T : Type) (z : T) (r : K -> T), (forall c, c <> f0 F -> r c <> z) ->
  forall a b, scanon F a -> scanon F b ->
  exists v, s_sub_assign F a b = ROk v /\ sparse_canonical z 0 (stored_sparse r v).
Proof. exact @sparse_sub_assign_canonical. Qed.

(* `p -= &p` is the empty term list, i.e. structurally SparsePolynomial::zero() *)
Theorem C19_sparse_sub_self_zero : forall (K : Type) (F : Fops K),
  field_theory (f0 F) (f1 F) (fadd F) (fmul F) (fsub F) (fneg F) (fun a b => fmul F a (finv F b)) (finv F) eq ->
  (forall a b, feqb F a b = true <-> a = b) ->
  forall a, scanon F a -> s_sub_assign F a a = ROk [].
Proof. exact @sparse_sub_self_zero. Qed.

Example C19_poly_results_example : scanon QcOps [(1%nat, q 2); (3%nat, q 5)] /\ Common.canon QcOps [q 2; q 0; q 5] /\
  (forall c, c <> f0 QcOps -> (fun x => x) c <> f0 QcOps).
Proof. exact ex_scanon. Qed.

(* ================= multivariate sparse polynomials ================= *)

(* Stored form of SparsePolynomial<F, SparseTerm>: the `terms` vector (coefficients through any encoding).
   [mv_canonical z p]: canonical terms, strictly increasing in the term order, no coefficient z;
   [mcoeff z p t] = coefficient of the monomial t.  Derived `==` on canonical lists is identity of the
   monomial -> coefficient maps. *)
Theorem C19_mv_eq_iff_same_poly : forall T (z : T) (eqb : T -> T -> bool),
  (forall x y, eqb x y = true <-> x = y) ->
  forall p q, mv_canonical z p -> mv_canonical z q ->
  (mv_eqb eqb p q = true <-> forall t, term_canon t -> mcoeff z p t = mcoeff z q t).
Proof. exact (fun T => @mv_eq_iff_same_poly T). Qed.

(* the hash key is the compared structure (`terms`): equal values hash equally *)
Theorem C19_mv_hash_respects_eq : forall T (eqb : T -> T -> bool),
  (forall x y, eqb x y = true <-> x = y) ->
  forall (H : Type) (h : list (T * term) -> H) p q,
  mv_eqb eqb p q = true -> h (mv_hash_key p) = h (mv_hash_key q).
Proof. exact (fun T => @mv_hash_respects_eq T). Qed.

Theorem C19_mv_is_zero_canonical : forall T (z : T) (is0 : T -> bool),
  (forall x, is0 x = true <-> x = z) ->
  forall p, mv_canonical z p -> (mv_is_zero is0 p = true <-> p = []).
Proof. exact (fun T => @mv_is_zero_canonical T). Qed.

(* A canonical value is stored canonically under any coefficient encoding [r] that sends only 0 to z (for Fp: the
   Montgomery limb vector).  coq/Props/C17.v proves [p_canon] for from_coefficients_vec (C17_mv_from_terms_canonical)
   and for + - neg +=(f,q) on canonical operands (C17_mv_add_canonical, _sub_, _neg_, _scaled_add_canonical): hence
   C19_mv_eq_iff_same_poly applies to every pair of operator results. *)
Theorem C19_mv_result_canonical : forall (K : Type) (F : Fops K) (T : Type) (z : T) (r : K -> T),
  (forall c, c <> f0 F -> r c <> z) ->
  forall q : mvpoly K, p_canon F q -> mv_canonical z (stored_mv r q).
Proof. exact @mv_stored_canonical. Qed.

(* `p += (0, &q)` stores exactly the terms of p (whatever q is): the result == p, hashes like p, has p's degree and
   term count; on the empty polynomial nothing is stored.  The Rust `AddAssign<(F, &Self)>` builds f * q term by term
   and relies on the final "remove zero terms" pass of `Add` for this. *)
Theorem C19_mv_scaled_add_zero_scalar : forall (K : Type) (F : Fops K),
  ring_theory (f0 F) (f1 F) (fadd F) (fmul F) (fsub F) (fneg F) (@eq K) ->
  (forall a b, feqb F a b = true <-> a = b) ->
  forall p q : mvpoly K, p_canon F p -> p_terms (p_add_scaled F p (f0 F) q) = p_terms p.
Proof. exact @mv_scaled_add_zero_scalar. Qed.

Theorem C19_mv_zero_scaled_add_zero_scalar : forall (K : Type) (F : Fops K),
  ring_theory (f0 F) (f1 F) (fadd F) (fmul F) (fsub F) (fneg F) (@eq K) ->
  (forall a b, feqb F a b = true <-> a = b) ->
  forall (nv : nat) (q : mvpoly K), p_terms (p_add_scaled F (mkP nv []) (f0 F) q) = [].
Proof. exact @mv_zero_scaled_add_zero_scalar. Qed.

(* 3 x0 + 5 x0 x1 over Q (identity encoding): the hypotheses of the theorems above are satisfiable *)
Example C19_mv_example :
  ring_theory (f0 QcOps) (f1 QcOps) (fadd QcOps) (fmul QcOps) (fsub QcOps) (fneg QcOps) (@eq Qcanon.Qc) /\
  (forall a b, feqb QcOps a b = true <-> a = b) /\
  (forall c : Qcanon.Qc, c <> f0 QcOps -> (fun x => x) c <> f0 QcOps) /\
  p_canon QcOps ex_mv_p /\
  mv_canonical (f0 QcOps) (stored_mv (fun x => x) ex_mv_p) /\
  mcoeff (f0 QcOps) (stored_mv (fun x => x) ex_mv_p) [(0%nat, 1); (1%nat, 1)] = q 5.
Proof. exact ex_mv_hyps. Qed.

(* ================= points obtained by deserialization ================= *)

(* Whatever buffer the codec model (coq/C09: sw_dec, both Compress and both Validate modes) accepts, a decoded value with
   the infinity flag set is structurally Affine::identity() = (0, 0, true) -- also when the coordinate bytes under
   the infinity flag were not blank.  So on decoded values `== identity()` and the hash agree with is_zero(). *)
Theorem C19_sw_decoded_infinity_is_identity : forall (K : Type) (F : Fops K) (C : FpCodec.Codec K)
  (sqrt : K -> option K) (cmp : K -> K -> comparison) (ca cb : K) (sub : PointCodec.swaff (K := K) -> bool)
  bs compress validate P rest,
  PointCodec.sw_dec F C sqrt cmp ca cb sub bs compress validate = Bytes.Ok (P, rest) ->
  PointCodec.sinf P = true -> P = PointCodec.sw_identity F.
Proof. exact @DecProofs.sw_dec_infinity_is_identity. Qed.

(* y^2 = x^3 + 7 over F_13: the uncompressed bytes of (7, 8) with the infinity bit on top decode to the identity *)
Example C19_sw_decoded_example :
  let F := ZpOps 13 in let C := FpCodec.fp_codec 1 13 in let sq := C09.Exec.fsqrt F 2 in
  let sub := fun P : PointCodec.swaff => C09.Exec.sw_order_divides F 0 7 (PointCodec.sx P) (PointCodec.sy P) in
  PointCodec.sw_dec F C sq Z.compare 0 7 sub [7; 72] false true = Bytes.Ok (PointCodec.sw_identity F, []) /\
  PointCodec.sw_dec F C sq Z.compare 0 7 sub [7; 72] false false = Bytes.Ok (PointCodec.mkSW 0 0 true, []) /\
  PointCodec.sw_dec F C sq Z.compare 0 7 sub [71] true false = Bytes.Ok (PointCodec.sw_identity F, []).
Proof. exact DecProofs.ex_dec_infinity_nonblank. Qed.
