(* C19 -- property theorems (placeholder while the package is being built) *)
From V Require Import Base.Word Base.Field C19.OrdModel.

Theorem C19_lex_eq_iff : forall c1 c2, lex c1 c2 = Eq <-> c1 = Eq /\ c2 = Eq.
Proof. exact (fun c1 c2 => match c1, c2 with
  | Eq, Eq => conj (fun _ => conj eq_refl eq_refl) (fun _ => eq_refl)
  | Eq, Lt => conj (fun H => conj eq_refl H) (fun H => proj2 H)
  | Eq, Gt => conj (fun H => conj eq_refl H) (fun H => proj2 H)
  | Lt, _ => conj (fun H => match Bool.diff_false_true (f_equal (fun c => match c with Lt => false | _ => true end) H) with end) (fun H => match Bool.diff_false_true (f_equal (fun c => match c with Lt => false | _ => true end) (proj1 H)) with end)
  | Gt, _ => conj (fun H => match Bool.diff_false_true (f_equal (fun c => match c with Gt => false | _ => true end) H) with end) (fun H => match Bool.diff_false_true (f_equal (fun c => match c with Gt => false | _ => true end) (proj1 H)) with end)
  end). Qed.
