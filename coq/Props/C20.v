(* C20 -- property theorems only: pinned statements, each closed by `exact`.
   Compile-time literals (MontFp!, BigInt!, Fp::new, Fp::from_sign_and_limbs) denote the number
   that is written; the derive macro computes the limb count, modulus limbs and roots of unity
   that run-time arithmetic gives.  W = Wn N = 2^(64 N), N = length m, std = C01's decoder. *)
From V Require Import Base.Word C15.GenArith C15.BigIntModel C15.BitsProofs
  C01.MontModel C01.MontProofs
  C20.Literals C20.ParseProofs C20.MontFpProofs C20.DeriveProofs C20.SpecProofs.

(* ---------- parse_value: string -> sign and minimal limbs ---------- *)

Theorem C20_parse_literal_value : forall radix upper neg ds,
  (radix = 2 \/ radix = 8 \/ radix = 10 \/ radix = 16) -> ds <> [] -> Forall (is_digit_char radix) ds ->
  parse_literal (literal neg radix upper ds)
  = Some (if neg then - digits_value radix ds 0 else digits_value radix ds 0).
Proof. exact parse_literal_value. Qed.

Theorem C20_parse_literal_plus : forall radix upper neg ds,
  (radix = 2 \/ radix = 8 \/ radix = 10 \/ radix = 16) -> ds <> [] -> Forall (is_digit_char radix) ds ->
  parse_literal (literal neg radix upper (43 :: ds))
  = Some (if neg then - digits_value radix ds 0 else digits_value radix ds 0).
Proof. exact parse_literal_plus. Qed.

Theorem C20_parse_underscore : forall radix l1 l2 acc,
  parse_radix_digits radix (l1 ++ 95 :: l2) acc = parse_radix_digits radix (l1 ++ l2) acc.
Proof. exact parse_radix_digits_underscore. Qed.

Theorem C20_digits_value_leading_zero : forall radix ds,
  digits_value radix (48 :: ds) 0 = digits_value radix ds 0.
Proof. exact digits_value_leading_zero. Qed.

Theorem C20_to_radix16_le : forall v, 0 <= v ->
  let d := to_radix16_le v in
  Forall (fun h => 0 <= h < 2 ^ 4) d /\ dval 4 d = v /\ d <> [] /\ (v = 0 -> d = [0]) /\ (0 < v -> last d 0 <> 0).
Proof. exact to_radix16_le_spec. Qed.

Theorem C20_limbs_of_hexits : forall d, Forall (fun h => 0 <= h < 2 ^ 4) d -> d <> [] ->
  let l := limbs_of_hexits d in
  wf l /\ val l = dval 4 d /\ l <> [] /\ (last d 0 <> 0 -> last l 0 <> 0) /\ (d = [0] -> l = [0]).
Proof. exact limbs_of_hexits_spec. Qed.

Theorem C20_str_to_limbs : forall s z, parse_literal s = Some z ->
  exists limbs, str_to_limbs_u64 s = Some (negb (z <? 0), limbs) /\
    wf limbs /\ val limbs = Z.abs z /\ limbs <> [] /\
    (z = 0 -> limbs = [0]) /\ (z <> 0 -> last limbs 0 <> 0).
Proof. exact str_to_limbs_spec. Qed.

Theorem C20_parse_value : forall radix upper neg ds,
  (radix = 2 \/ radix = 8 \/ radix = 10 \/ radix = 16) -> ds <> [] -> Forall (is_digit_char radix) ds ->
  let V := digits_value radix ds 0 in
  exists limbs, str_to_limbs_u64 (literal neg radix upper ds) = Some (negb (neg && (0 <? V)), limbs) /\
    wf limbs /\ val limbs = V /\ (V = 0 -> limbs = [0]) /\ (V <> 0 -> last limbs 0 <> 0).
Proof. exact parse_value. Qed.

Theorem C20_limbs_fit_iff : forall limbs N, wf limbs -> limbs <> [] ->
  (limbs = [0] \/ last limbs 0 <> 0) -> (0 < N)%nat ->
  ((length limbs <= N)%nat <-> val limbs < Wn N).
Proof. exact limbs_fit_iff. Qed.

(* "-0x00ff" : negative, hex, leading zeros *)
Example C20_parse_value_example :
  Forall (is_digit_char 16) [48; 48; 102; 70] /\
  literal true 16 false [48; 48; 102; 70] = [45; 48; 120; 48; 48; 102; 70] /\
  str_to_limbs_u64 [45; 48; 120; 48; 48; 102; 70] = Some (false, [255]).
Proof. vm_compute. repeat split; repeat constructor; discriminate. Qed.

(* ---------- the const path ---------- *)

Theorem C20_const_is_valid : forall m a, wf m -> wf a -> length a = length m ->
  const_is_valid m a = (val a <? val m).
Proof. exact const_is_valid_spec. Qed.

Theorem C20_const_mul : forall m a b, wf m -> wf a -> wf b ->
  length a = length m -> length b = length m ->
  val m mod 2 = 1 -> val b < val m ->
  let r := const_mul m a b in
  wf r /\ length r = length m /\ val r < val m /\
  (val r * Wn (length m)) mod val m = (val a * val b) mod val m.
Proof. exact const_mul_spec. Qed.

Theorem C20_fp_new : forall m e, wf m -> wf e -> length e = length m -> val m mod 2 = 1 ->
  let r := fp_new m e in
  wf r /\ length r = length m /\ val r < val m /\
  val r = (val e * Wn (length m)) mod val m.
Proof. exact fp_new_spec. Qed.

Theorem C20_from_sign_and_limbs : forall m (pos : bool) limbs, wf m -> wf limbs ->
  val m mod 2 = 1 -> (length limbs <= length m)%nat ->
  exists r, from_sign_and_limbs m pos limbs = LitOk r /\
    wf r /\ length r = length m /\ val r < val m /\
    val r = (signed pos (val limbs) * Wn (length m)) mod val m.
Proof. exact from_sign_and_limbs_spec. Qed.

Theorem C20_from_sign_and_limbs_std : forall m (pos : bool) limbs, wf m -> wf limbs ->
  val m mod 2 = 1 -> (length limbs <= length m)%nat ->
  exists r, from_sign_and_limbs m pos limbs = LitOk r /\
    wf r /\ length r = length m /\ val r < val m /\
    std m r = signed pos (val limbs) mod val m.
Proof. exact from_sign_and_limbs_std. Qed.

Theorem C20_from_sign_and_limbs_too_long : forall m pos limbs, (length m < length limbs)%nat ->
  from_sign_and_limbs m pos limbs = LitPanic.
Proof. exact from_sign_and_limbs_too_long. Qed.

(* secp256k1 base field (no spare bit): operand 2^256 - 1 >= p, negative sign *)
Definition secp_m : list Z :=
  [18446744069414583343; 18446744073709551615; 18446744073709551615; 18446744073709551615].
Example C20_from_sign_and_limbs_example :
  let all1 := [18446744073709551615; 18446744073709551615; 18446744073709551615; 18446744073709551615] in
  val secp_m mod 2 = 1 /\ has_spare_bit secp_m = false /\ val secp_m <= val all1 /\
  fst (mul_without_cond_subtract secp_m all1 (R2_of secp_m)) = true /\
  match from_sign_and_limbs secp_m false all1 with
  | LitOk r => std secp_m r = (- val all1) mod val secp_m
  | _ => False
  end.
Proof. vm_compute. repeat split; try reflexivity. discriminate. Qed.

(* ---------- MontFp! ---------- *)

Theorem C20_montfp : forall m s z, wf m -> val m mod 2 = 1 ->
  parse_literal s = Some z -> Z.abs z < Wn (length m) ->
  exists r, montfp m s = LitOk r /\
    wf r /\ length r = length m /\ val r < val m /\
    val r = (z * Wn (length m)) mod val m /\
    std m r = z mod val m.
Proof. exact montfp_spec. Qed.

Theorem C20_montfp_literal : forall m radix upper (neg : bool) ds, wf m -> val m mod 2 = 1 ->
  (radix = 2 \/ radix = 8 \/ radix = 10 \/ radix = 16) -> ds <> [] -> Forall (is_digit_char radix) ds ->
  let V := digits_value radix ds 0 in
  let z := if neg then - V else V in
  V < Wn (length m) ->
  exists r, montfp m (literal neg radix upper ds) = LitOk r /\
    wf r /\ length r = length m /\ val r < val m /\
    val r = (z * Wn (length m)) mod val m /\ std m r = z mod val m.
Proof. exact montfp_literal. Qed.

Theorem C20_montfp_too_long : forall m s z, m <> [] ->
  parse_literal s = Some z -> Wn (length m) <= Z.abs z ->
  montfp m s = LitPanic.
Proof. exact montfp_too_long. Qed.

Theorem C20_montfp_reject : forall m s, parse_literal s = None -> montfp m s = LitReject.
Proof. exact montfp_reject. Qed.

(* MontFp!("-0o17") over F_7 : -15 mod 7 = 6 *)
Example C20_montfp_example :
  parse_literal [45; 48; 111; 49; 55] = Some (-15) /\
  match montfp [7] [45; 48; 111; 49; 55] with LitOk r => std [7] r = 6 | _ => False end /\
  montfp [7] [48; 120; 49; 48; 48; 48; 48; 48; 48; 48; 48; 48; 48; 48; 48; 48; 48; 48; 48] = LitPanic.
Proof. vm_compute. repeat split; reflexivity. Qed.

(* ---------- BigInt! ---------- *)

Theorem C20_bigint_macro : forall N s z, (0 < N)%nat -> parse_literal s = Some z ->
  (0 <= z < Wn N ->
     exists l, bigint_macro N s = LitOk l /\ wf l /\ length l = N /\ val l = z) /\
  (z < 0 -> bigint_macro N s = LitPanic) /\
  (Wn N <= z -> bigint_macro N s = LitPanic).
Proof. exact bigint_macro_spec. Qed.

Example C20_bigint_macro_example :
  bigint_macro 2 [48; 98; 49; 48; 49] = LitOk [5; 0] /\ bigint_macro 2 [45; 49] = LitPanic.
Proof. vm_compute. split; reflexivity. Qed.

(* ---------- constant = run-time conversion of the same integer ---------- *)

Theorem C20_const_eq_from_str : forall (d : bool) m lit dec z, wf m -> val m mod 2 = 1 ->
  parse_literal lit = Some z -> parse_signed dec = Some z -> Z.abs z < Wn (length m) ->
  exists r, montfp m lit = LitOk r /\ from_str d m dec = StrOk r.
Proof. exact const_eq_from_str. Qed.

Theorem C20_const_eq_from_biguint : forall (d : bool) m lit z, wf m -> val m mod 2 = 1 -> last m 0 <> 0 ->
  parse_literal lit = Some z -> Z.abs z < Wn (length m) ->
  exists r r0, montfp m lit = LitOk r /\ from_biguint d m (Z.abs z) = Some r0 /\
    (if z <? 0 then neg_in_place m r0 else r0) = r.
Proof. exact const_eq_from_biguint. Qed.

Theorem C20_radix10_is_from_str_parser : forall s, bigint_from_str_radix 10 s = parse_signed s.
Proof. exact bigint_from_str_radix_10. Qed.

(* ---------- the derive macro ---------- *)

Theorem C20_derive_limb_count : forall p, 0 < p ->
  exists k, derive_limb_count p = Some (Z.of_nat k) /\ (1 <= k)%nat /\ p <= Wn k /\
    (k = 1%nat \/ Wn (k - 1) < p).
Proof. exact derive_limb_count_spec. Qed.

Theorem C20_derive_limb_count_ceil : forall p, 1 < p -> (forall j, p <> Wn j) ->
  derive_limb_count p = Some ((Z.log2 p + 1 + 63) / 64).
Proof. exact derive_limb_count_ceil. Qed.

Theorem C20_derive_limb_count_odd : forall p, 1 < p -> p mod 2 = 1 ->
  derive_limb_count p = Some ((Z.log2 p + 1 + 63) / 64).
Proof. exact derive_limb_count_odd. Qed.

Theorem C20_derive_trace : forall p, 1 < p ->
  exists s t, derive_trace p = Some t /\ 0 <= s /\ t mod 2 = 1 /\ 0 < t /\ p - 1 = 2 ^ s * t.
Proof. exact derive_trace_spec. Qed.

Theorem C20_derive_trace_eq_two_adic : forall m, wf m -> val m mod 2 = 1 -> 1 < val m ->
  exists s t, two_adic m = Some (s, t) /\ wf t /\ length t = length m /\ 0 <= s /\
    derive_trace (val m) = Some (val t) /\ val m - 1 = 2 ^ s * val t /\ val t mod 2 = 1.
Proof. exact derive_trace_eq_two_adic. Qed.

Theorem C20_modpow : forall b e n, 0 <= e -> 0 < n -> modpow b e n = (b ^ e) mod n.
Proof. exact modpow_spec. Qed.

Theorem C20_to_string_roundtrip : forall v, 0 <= v -> parse_literal (to_string v) = Some v.
Proof. exact parse_literal_to_string. Qed.

Theorem C20_derive_macro : forall p g small, 1 < p -> p mod 2 = 1 -> 0 <= g ->
  match small with Some (b, k) => 0 < b ^ k | None => True end ->
  exists d ml s t,
    derive_macro p g small = Some d /\
    d_limbs d = (Z.log2 p + 1 + 63) / 64 /\ d_limbs d = Z.of_nat (length ml) /\
    d_modulus d = ml /\ wf ml /\ val ml = p /\ last ml 0 <> 0 /\
    two_adic ml = Some (s, t) /\ 0 <= s /\ p - 1 = 2 ^ s * val t /\ val t mod 2 = 1 /\
    (exists r, d_root d = LitOk r /\ wf r /\ length r = length ml /\ val r < p /\
               std ml r = (g ^ val t) mod p) /\
    (g < Wn (length ml) ->
       exists r, d_generator d = LitOk r /\ wf r /\ length r = length ml /\ val r < p /\
                 std ml r = g mod p) /\
    match small with
    | Some (b, k) => exists r, d_large d = Some (LitOk r) /\ wf r /\ length r = length ml /\ val r < p /\
                               std ml r = (g ^ (val t / b ^ k)) mod p
    | None => d_large d = None
    end.
Proof. exact derive_macro_spec. Qed.

(* p = 97 = 2^5 * 3 + 1, g = 5, small subgroup 3^1 *)
Example C20_derive_macro_example :
  match derive_macro 97 5 (Some (3, 1)) with
  | Some d => d_limbs d = 1 /\ d_modulus d = [97] /\ two_adic [97] = Some (5, [3]) /\
              match d_root d, d_large d with
              | LitOk r, Some (LitOk l) => std [97] r = 5 ^ 3 mod 97 /\ std [97] l = 5 ^ 1 mod 97
              | _, _ => False
              end
  | None => False
  end.
Proof. vm_compute. repeat split; reflexivity. Qed.
