(* C20: compile-time literals denote the number that is written. *)
From V Require Import Base.Word C15.GenArith C15.BigIntModel C01.MontModel C20.Literals.

Example C20_str_to_limbs_ex :
  str_to_limbs_u64 [45; 48; 120; 49; 48] = Some (false, [16]).
Proof. vm_compute; reflexivity. Qed.
