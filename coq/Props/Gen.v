(* Gen -- pinned theorems about the definitions that lib/xlate_field.py re-generates from the
   current /repo source on every check run (coq/Gen/GenField.v).  Two kinds:
   `*_eq`   : the generated definition equals the hand-written model function of C02/C03
              (so every C02/C03 theorem about that model function speaks about the current code);
              stated under the [ring_theory] premise so that the proof survives refactorings of
              /repo that change an expression only up to a ring identity;
   the rest : the headline corollaries, composed with the C02/C03 theorems.
   [good_field F], [jac_on], [aff_on], [te_valid], [te_dens_ok]: as in Props/C03.v.
   [nrops_ok B N], [qmul], [cmul], [qnorm], [cnorm], [gs_cyclotomic]: as in Props/C02.v.
   [sw_aff_repr F A]: the Rust struct (x, y, infinity) of the model point A : option (T * T).
   [cubic_inv_as_gen] / [te_opt_as_gen]: model outcome -> GRet / GPanic of the generated code.
   Configuration hooks are parameters of the generated definitions: P::mul_by_a is any function
   with mul_by_a e = e * a (resp. = the default body), the non-residue hooks are the record N /
   the function mul_nr with their C02 specifications, Frobenius maps/coefficients are functions.
   The statements below are the types of the lemmas of Gen/GenFieldSpecs.v, written out. *)
From V Require Import Base.Field Gen.GenField Gen.GenFieldSpecs.
From V Require Import C03.SWModel C03.TEModel C03.SWProofs C03.TEProofs C03.FieldHyp.
From V Require Import C02.Quad C02.Cubic C02.Towers C02.QuadProofs C02.CubicProofs C02.TowerProofs C02.CycProofs.

Theorem Gen_sw_is_zero_eq :
  forall (T : Type) (F : Fops T),
  ring_theory (f0 F) (f1 F) (fadd F) (fmul F) (fsub F) (fneg F) eq ->
  forall P : T * T * T, gen_sw_is_zero F P = SWModel.sw_is_zero F P.
Proof. exact (@gen_sw_is_zero_eq). Qed.
Theorem Gen_sw_zero_eq :
  forall (T : Type) (F : Fops T),
  ring_theory (f0 F) (f1 F) (fadd F) (fmul F) (fsub F) (fneg F) eq -> gen_sw_zero F = SWModel.sw_zero F.
Proof. exact (@gen_sw_zero_eq). Qed.
Theorem Gen_sw_double_eq :
  forall (T : Type) (F : Fops T) (a : T),
  ring_theory (f0 F) (f1 F) (fadd F) (fmul F) (fsub F) (fneg F) eq ->
  forall mba : T -> T,
  (forall e : T, mba e = SWModel.sw_mul_by_a F a e) ->
  forall P : T * T * T, gen_sw_double_in_place F a mba P = SWModel.sw_double F a P.
Proof. exact (@gen_sw_double_eq). Qed.
Theorem Gen_sw_add_eq :
  forall (T : Type) (F : Fops T) (a : T),
  ring_theory (f0 F) (f1 F) (fadd F) (fmul F) (fsub F) (fneg F) eq ->
  forall mba : T -> T,
  (forall e : T, mba e = SWModel.sw_mul_by_a F a e) ->
  forall P Q : T * T * T, gen_sw_add_assign F a mba P Q = SWModel.sw_add F a P Q.
Proof. exact (@gen_sw_add_eq). Qed.
Theorem Gen_sw_madd_eq :
  forall (T : Type) (F : Fops T) (a : T),
  ring_theory (f0 F) (f1 F) (fadd F) (fmul F) (fsub F) (fneg F) eq ->
  forall mba : T -> T,
  (forall e : T, mba e = SWModel.sw_mul_by_a F a e) ->
  forall (P : T * T * T) (Q : option (T * T)),
  gen_sw_add_assign_affine F a mba P Q = SWModel.sw_madd F a P Q.
Proof. exact (@gen_sw_madd_eq). Qed.
Theorem Gen_sw_eq_eq :
  forall (T : Type) (F : Fops T),
  ring_theory (f0 F) (f1 F) (fadd F) (fmul F) (fsub F) (fneg F) eq ->
  forall P Q : T * T * T, gen_sw_eq F P Q = SWModel.sw_eqb F P Q.
Proof. exact (@gen_sw_eq_eq). Qed.
Theorem Gen_sw_neg_eq :
  forall (T : Type) (F : Fops T),
  ring_theory (f0 F) (f1 F) (fadd F) (fmul F) (fsub F) (fneg F) eq ->
  forall P : T * T * T, gen_sw_neg F P = SWModel.sw_neg F P.
Proof. exact (@gen_sw_neg_eq). Qed.
Theorem Gen_sw_from_affine_eq :
  forall (T : Type) (F : Fops T),
  ring_theory (f0 F) (f1 F) (fadd F) (fmul F) (fsub F) (fneg F) eq ->
  forall A : option (T * T), gen_sw_from_affine F A = SWModel.sw_of_affine F A.
Proof. exact (@gen_sw_from_affine_eq). Qed.
Theorem Gen_sw_into_affine_eq :
  forall (T : Type) (F : Fops T),
  ring_theory (f0 F) (f1 F) (fadd F) (fmul F) (fsub F) (fneg F) eq ->
  forall P : T * T * T, gen_sw_into_affine F P = GRet (sw_aff_repr F (SWModel.sw_to_affine F P)).
Proof. exact (@gen_sw_into_affine_eq). Qed.
Theorem Gen_sw_aff_is_on_curve_eq :
  forall (T : Type) (F : Fops T) (a b : T),
  ring_theory (f0 F) (f1 F) (fadd F) (fmul F) (fsub F) (fneg F) eq ->
  forall mba : T -> T,
  (forall e : T, mba e = SWModel.sw_mul_by_a F a e) ->
  forall addb : T -> T,
  (forall e : T, addb e = SWModel.sw_add_b F b e) ->
  forall A : option (T * T),
  gen_sw_aff_is_on_curve F a mba addb (sw_aff_repr F A) = SWModel.sw_aff_on_curve F a b A.
Proof. exact (@gen_sw_aff_is_on_curve_eq). Qed.
Theorem Gen_sw_aff_neg_eq :
  forall (T : Type) (F : Fops T),
  ring_theory (f0 F) (f1 F) (fadd F) (fmul F) (fsub F) (fneg F) eq ->
  forall A : option (T * T), gen_sw_aff_neg F (sw_aff_repr F A) = sw_aff_repr F (SWModel.sw_aff_neg F A).
Proof. exact (@gen_sw_aff_neg_eq). Qed.
Theorem Gen_sw_aff_identity_eq :
  forall (T : Type) (F : Fops T), gen_sw_aff_identity F = sw_aff_repr F None.
Proof. exact (@gen_sw_aff_identity_eq). Qed.
Theorem Gen_sw_aff_new_unchecked_eq :
  forall (T : Type) (F : Fops T) (x y : T), gen_sw_aff_new_unchecked F x y = sw_aff_repr F (Some (x, y)).
Proof. exact (@gen_sw_aff_new_unchecked_eq). Qed.
Theorem Gen_sw_double_correct :
  forall (T : Type) (F : Fops T) (a : T),
  FieldHyp.good_field F ->
  forall mba : T -> T,
  (forall e : T, mba e = fmul F e a) ->
  forall P : T * T * T,
  SWModel.sw_to_affine F (gen_sw_double_in_place F a mba P) =
  SWModel.aff_add_sw F a (SWModel.sw_to_affine F P) (SWModel.sw_to_affine F P).
Proof. exact (@gen_sw_double_correct). Qed.
Theorem Gen_sw_add_correct :
  forall (T : Type) (F : Fops T) (a b : T),
  FieldHyp.good_field F ->
  forall mba : T -> T,
  (forall e : T, mba e = fmul F e a) ->
  forall P Q : SWModel.sw_jac,
  SWProofs.jac_on F a b P ->
  SWProofs.jac_on F a b Q ->
  SWModel.sw_to_affine F (gen_sw_add_assign F a mba P Q) =
  SWModel.aff_add_sw F a (SWModel.sw_to_affine F P) (SWModel.sw_to_affine F Q).
Proof. exact (@gen_sw_add_correct). Qed.
Theorem Gen_sw_madd_correct :
  forall (T : Type) (F : Fops T) (a b : T),
  FieldHyp.good_field F ->
  forall mba : T -> T,
  (forall e : T, mba e = fmul F e a) ->
  forall (P : SWModel.sw_jac) (Q : SWModel.sw_aff),
  SWProofs.jac_on F a b P ->
  SWProofs.aff_on F a b Q ->
  SWModel.sw_to_affine F (gen_sw_add_assign_affine F a mba P Q) =
  SWModel.aff_add_sw F a (SWModel.sw_to_affine F P) Q.
Proof. exact (@gen_sw_madd_correct). Qed.
Theorem Gen_sw_double_on_curve :
  forall (T : Type) (F : Fops T) (a b : T),
  FieldHyp.good_field F ->
  forall mba : T -> T,
  (forall e : T, mba e = fmul F e a) ->
  forall P : SWModel.sw_jac,
  SWProofs.jac_on F a b P -> SWProofs.jac_on F a b (gen_sw_double_in_place F a mba P).
Proof. exact (@gen_sw_double_on_curve). Qed.
Theorem Gen_sw_add_on_curve :
  forall (T : Type) (F : Fops T) (a b : T),
  FieldHyp.good_field F ->
  forall mba : T -> T,
  (forall e : T, mba e = fmul F e a) ->
  forall P Q : SWModel.sw_jac,
  SWProofs.jac_on F a b P ->
  SWProofs.jac_on F a b Q -> SWProofs.jac_on F a b (gen_sw_add_assign F a mba P Q).
Proof. exact (@gen_sw_add_on_curve). Qed.
Theorem Gen_sw_madd_on_curve :
  forall (T : Type) (F : Fops T) (a b : T),
  FieldHyp.good_field F ->
  forall mba : T -> T,
  (forall e : T, mba e = fmul F e a) ->
  forall (P : SWModel.sw_jac) (Q : SWModel.sw_aff),
  SWProofs.jac_on F a b P ->
  SWProofs.aff_on F a b Q -> SWProofs.jac_on F a b (gen_sw_add_assign_affine F a mba P Q).
Proof. exact (@gen_sw_madd_on_curve). Qed.
Theorem Gen_sw_eq_spec :
  forall (T : Type) (F : Fops T),
  FieldHyp.good_field F ->
  forall P Q : T * T * T, gen_sw_eq F P Q = true <-> SWModel.sw_to_affine F P = SWModel.sw_to_affine F Q.
Proof. exact (@gen_sw_eq_spec). Qed.
Theorem Gen_sw_neg_correct :
  forall (T : Type) (F : Fops T),
  FieldHyp.good_field F ->
  forall P : T * T * T,
  SWModel.sw_to_affine F (gen_sw_neg F P) = SWModel.aff_neg_sw F (SWModel.sw_to_affine F P).
Proof. exact (@gen_sw_neg_correct). Qed.
Theorem Gen_sw_into_affine_spec :
  forall (T : Type) (F : Fops T),
  FieldHyp.good_field F ->
  forall x y z : T,
  gen_sw_into_affine F (x, y, z) =
  GRet
  (sw_aff_repr F
  (if feqb F z (f0 F) then None else Some (fdiv F x (fmul F z z), fdiv F y (fmul F (fmul F z z) z)))).
Proof. exact (@gen_sw_into_affine_spec). Qed.
Theorem Gen_sw_roundtrip_affine :
  forall (T : Type) (F : Fops T),
  FieldHyp.good_field F ->
  forall A : option (T * T), gen_sw_into_affine F (gen_sw_from_affine F A) = GRet (sw_aff_repr F A).
Proof. exact (@gen_sw_roundtrip_affine). Qed.
Theorem Gen_sw_aff_is_on_curve_spec :
  forall (T : Type) (F : Fops T) (a b : T),
  FieldHyp.good_field F ->
  forall mba : T -> T,
  (forall e : T, mba e = fmul F e a) ->
  forall addb : T -> T,
  (forall e : T, addb e = fadd F e b) ->
  forall A : option (T * T),
  gen_sw_aff_is_on_curve F a mba addb (sw_aff_repr F A) = true <-> SWProofs.aff_on F a b A.
Proof. exact (@gen_sw_aff_is_on_curve_spec). Qed.
Theorem Gen_te_double_eq :
  forall (T : Type) (F : Fops T) (a : T),
  ring_theory (f0 F) (f1 F) (fadd F) (fmul F) (fsub F) (fneg F) eq ->
  forall mba : T -> T,
  (forall e : T, mba e = fmul F e a) ->
  forall P : T * T * T * T, gen_te_double_in_place F mba P = TEModel.te_double F a P.
Proof. exact (@gen_te_double_eq). Qed.
Theorem Gen_te_add_eq :
  forall (T : Type) (F : Fops T) (a d : T),
  ring_theory (f0 F) (f1 F) (fadd F) (fmul F) (fsub F) (fneg F) eq ->
  forall mba : T -> T,
  (forall e : T, mba e = fmul F e a) ->
  forall P Q : T * T * T * T, gen_te_add_assign F d mba P Q = TEModel.te_add F a d P Q.
Proof. exact (@gen_te_add_eq). Qed.
Theorem Gen_te_madd_eq :
  forall (T : Type) (F : Fops T) (a d : T),
  ring_theory (f0 F) (f1 F) (fadd F) (fmul F) (fsub F) (fneg F) eq ->
  forall mba : T -> T,
  (forall e : T, mba e = fmul F e a) ->
  forall (P : T * T * T * T) (Q : T * T),
  gen_te_add_assign_affine F d mba P Q = TEModel.te_madd F a d P Q.
Proof. exact (@gen_te_madd_eq). Qed.
Theorem Gen_te_zero_eq :
  forall (T : Type) (F : Fops T),
  ring_theory (f0 F) (f1 F) (fadd F) (fmul F) (fsub F) (fneg F) eq -> gen_te_zero F = TEModel.te_zero F.
Proof. exact (@gen_te_zero_eq). Qed.
Theorem Gen_te_is_zero_eq :
  forall (T : Type) (F : Fops T),
  ring_theory (f0 F) (f1 F) (fadd F) (fmul F) (fsub F) (fneg F) eq ->
  forall P : T * T * T * T, gen_te_is_zero F P = TEModel.te_is_zero F P.
Proof. exact (@gen_te_is_zero_eq). Qed.
Theorem Gen_te_eq_eq :
  forall (T : Type) (F : Fops T),
  ring_theory (f0 F) (f1 F) (fadd F) (fmul F) (fsub F) (fneg F) eq ->
  forall P Q : T * T * T * T, gen_te_eq F P Q = TEModel.te_eqb F P Q.
Proof. exact (@gen_te_eq_eq). Qed.
Theorem Gen_te_neg_eq :
  forall (T : Type) (F : Fops T),
  ring_theory (f0 F) (f1 F) (fadd F) (fmul F) (fsub F) (fneg F) eq ->
  forall P : T * T * T * T, gen_te_neg F P = TEModel.te_neg F P.
Proof. exact (@gen_te_neg_eq). Qed.
Theorem Gen_te_from_affine_eq :
  forall (T : Type) (F : Fops T),
  ring_theory (f0 F) (f1 F) (fadd F) (fmul F) (fsub F) (fneg F) eq ->
  forall A : T * T, gen_te_from_affine F A = TEModel.te_of_affine F A.
Proof. exact (@gen_te_from_affine_eq). Qed.
Theorem Gen_te_aff_zero_eq :
  forall (T : Type) (F : Fops T),
  ring_theory (f0 F) (f1 F) (fadd F) (fmul F) (fsub F) (fneg F) eq ->
  gen_te_aff_zero F = TEModel.te_aff_zero F.
Proof. exact (@gen_te_aff_zero_eq). Qed.
Theorem Gen_te_aff_is_zero_eq :
  forall (T : Type) (F : Fops T),
  ring_theory (f0 F) (f1 F) (fadd F) (fmul F) (fsub F) (fneg F) eq ->
  forall A : T * T, gen_te_aff_is_zero F A = TEModel.te_aff_is_zero F A.
Proof. exact (@gen_te_aff_is_zero_eq). Qed.
Theorem Gen_te_aff_is_on_curve_eq :
  forall (T : Type) (F : Fops T) (a d : T),
  ring_theory (f0 F) (f1 F) (fadd F) (fmul F) (fsub F) (fneg F) eq ->
  forall mba : T -> T,
  (forall e : T, mba e = fmul F e a) ->
  forall A : T * T, gen_te_aff_is_on_curve F d mba A = TEModel.te_aff_on_curve F a d A.
Proof. exact (@gen_te_aff_is_on_curve_eq). Qed.
Theorem Gen_te_aff_neg_eq :
  forall (T : Type) (F : Fops T),
  ring_theory (f0 F) (f1 F) (fadd F) (fmul F) (fsub F) (fneg F) eq ->
  forall A : T * T, gen_te_aff_neg F A = TEModel.te_aff_neg F A.
Proof. exact (@gen_te_aff_neg_eq). Qed.
Theorem Gen_te_into_affine_eq :
  forall (T : Type) (F : Fops T),
  ring_theory (f0 F) (f1 F) (fadd F) (fmul F) (fsub F) (fneg F) eq ->
  FieldHyp.good_field F ->
  forall P : T * T * T * T, gen_te_into_affine F P = te_opt_as_gen (TEModel.te_to_affine_opt F P).
Proof. exact (@gen_te_into_affine_eq). Qed.
Theorem Gen_te_add_correct :
  forall (T : Type) (F : Fops T) (a d : T),
  ring_theory (f0 F) (f1 F) (fadd F) (fmul F) (fsub F) (fneg F) eq ->
  forall mba : T -> T,
  (forall e : T, mba e = fmul F e a) ->
  FieldHyp.good_field F ->
  forall P Q : TEModel.te_ext,
  TEProofs.te_valid F P ->
  TEProofs.te_valid F Q ->
  TEProofs.te_dens_ok F d (TEModel.te_to_affine F P) (TEModel.te_to_affine F Q) ->
  TEProofs.te_valid F (gen_te_add_assign F d mba P Q) /\
  TEModel.te_to_affine F (gen_te_add_assign F d mba P Q) =
  TEModel.aff_add_te F a d (TEModel.te_to_affine F P) (TEModel.te_to_affine F Q).
Proof. exact (@gen_te_add_correct). Qed.
Theorem Gen_te_madd_correct :
  forall (T : Type) (F : Fops T) (a d : T),
  ring_theory (f0 F) (f1 F) (fadd F) (fmul F) (fsub F) (fneg F) eq ->
  forall mba : T -> T,
  (forall e : T, mba e = fmul F e a) ->
  FieldHyp.good_field F ->
  forall (P : TEModel.te_ext) (Q : TEModel.te_aff),
  TEProofs.te_valid F P ->
  TEProofs.te_dens_ok F d (TEModel.te_to_affine F P) Q ->
  TEProofs.te_valid F (gen_te_add_assign_affine F d mba P Q) /\
  TEModel.te_to_affine F (gen_te_add_assign_affine F d mba P Q) =
  TEModel.aff_add_te F a d (TEModel.te_to_affine F P) Q.
Proof. exact (@gen_te_madd_correct). Qed.
Theorem Gen_te_double_correct :
  forall (T : Type) (F : Fops T) (a d : T),
  ring_theory (f0 F) (f1 F) (fadd F) (fmul F) (fsub F) (fneg F) eq ->
  forall mba : T -> T,
  (forall e : T, mba e = fmul F e a) ->
  FieldHyp.good_field F ->
  forall P : TEModel.te_ext,
  TEProofs.te_valid F P ->
  TEProofs.te_aff_on F a d (TEModel.te_to_affine F P) ->
  TEProofs.te_dens_ok F d (TEModel.te_to_affine F P) (TEModel.te_to_affine F P) ->
  TEProofs.te_valid F (gen_te_double_in_place F mba P) /\
  TEModel.te_to_affine F (gen_te_double_in_place F mba P) =
  TEModel.aff_add_te F a d (TEModel.te_to_affine F P) (TEModel.te_to_affine F P).
Proof. exact (@gen_te_double_correct). Qed.
Theorem Gen_te_eq_spec :
  forall (T : Type) (F : Fops T),
  ring_theory (f0 F) (f1 F) (fadd F) (fmul F) (fsub F) (fneg F) eq ->
  FieldHyp.good_field F ->
  forall P Q : TEModel.te_ext,
  TEProofs.te_valid F P ->
  TEProofs.te_valid F Q ->
  gen_te_eq F P Q = true <-> TEModel.te_to_affine F P = TEModel.te_to_affine F Q.
Proof. exact (@gen_te_eq_spec). Qed.
Theorem Gen_te_neg_correct :
  forall (T : Type) (F : Fops T),
  ring_theory (f0 F) (f1 F) (fadd F) (fmul F) (fsub F) (fneg F) eq ->
  FieldHyp.good_field F ->
  forall P : TEModel.te_ext,
  TEProofs.te_valid F P ->
  TEProofs.te_valid F (gen_te_neg F P) /\
  TEModel.te_to_affine F (gen_te_neg F P) = TEModel.aff_neg_te F (TEModel.te_to_affine F P).
Proof. exact (@gen_te_neg_correct). Qed.
Theorem Gen_te_is_zero_spec :
  forall (T : Type) (F : Fops T),
  ring_theory (f0 F) (f1 F) (fadd F) (fmul F) (fsub F) (fneg F) eq ->
  FieldHyp.good_field F ->
  forall P : TEModel.te_ext,
  TEProofs.te_valid F P ->
  gen_te_is_zero F P = true <-> TEModel.te_to_affine F P = TEModel.te_aff_zero F.
Proof. exact (@gen_te_is_zero_spec). Qed.
Theorem Gen_te_aff_is_on_curve_spec :
  forall (T : Type) (F : Fops T) (a d : T),
  ring_theory (f0 F) (f1 F) (fadd F) (fmul F) (fsub F) (fneg F) eq ->
  forall mba : T -> T,
  (forall e : T, mba e = fmul F e a) ->
  FieldHyp.good_field F ->
  forall A : T * T, gen_te_aff_is_on_curve F d mba A = true <-> TEProofs.te_aff_on F a d A.
Proof. exact (@gen_te_aff_is_on_curve_spec). Qed.
Theorem Gen_te_into_affine_spec :
  forall (T : Type) (F : Fops T),
  ring_theory (f0 F) (f1 F) (fadd F) (fmul F) (fsub F) (fneg F) eq ->
  FieldHyp.good_field F ->
  forall x y t z : T,
  z <> f0 F -> gen_te_into_affine F (x, y, t, z) = GRet (TEModel.te_to_affine F (x, y, t, z)).
Proof. exact (@gen_te_into_affine_spec). Qed.
Theorem Gen_quad_is_zero_eq :
  forall (T : Type) (B : Fops T),
  ring_theory (f0 B) (f1 B) (fadd B) (fmul B) (fsub B) (fneg B) eq ->
  forall a : T * T, gen_quad_is_zero B a = Quad.quad_is_zero B a.
Proof. exact (@gen_quad_is_zero_eq). Qed.
Theorem Gen_quad_square_eq :
  forall (T : Type) (B : Fops T) (N : Quad.nrops T),
  ring_theory (f0 B) (f1 B) (fadd B) (fmul B) (fsub B) (fneg B) eq ->
  forall a : T * T,
  gen_quad_square_in_place B (Quad.nr_const N) (Quad.nr_p1_add N) (Quad.nr_sub N) a =
  Quad.quad_square B N a.
Proof. exact (@gen_quad_square_eq). Qed.
Theorem Gen_quad_inverse_eq :
  forall (T : Type) (B : Fops T) (N : Quad.nrops T),
  ring_theory (f0 B) (f1 B) (fadd B) (fmul B) (fsub B) (fneg B) eq ->
  forall a : T * T, gen_quad_inverse B (Quad.nr_sub N) a = Quad.quad_inverse B N a.
Proof. exact (@gen_quad_inverse_eq). Qed.
Theorem Gen_quad_mul_eq :
  forall (T : Type) (B : Fops T) (N : Quad.nrops T),
  ring_theory (f0 B) (f1 B) (fadd B) (fmul B) (fsub B) (fneg B) eq ->
  forall a b : T * T,
  gen_quad_mul_assign B (Quad.nr_mul N) (Quad.nr_mul_add N) a b = Quad.quad_mul B N a b.
Proof. exact (@gen_quad_mul_eq). Qed.
Theorem Gen_quad_conjugate_eq :
  forall (T : Type) (B : Fops T),
  ring_theory (f0 B) (f1 B) (fadd B) (fmul B) (fsub B) (fneg B) eq ->
  forall a : T * T, gen_quad_conjugate_in_place B a = Quad.quad_conjugate B a.
Proof. exact (@gen_quad_conjugate_eq). Qed.
Theorem Gen_quad_norm_eq :
  forall (T : Type) (B : Fops T) (N : Quad.nrops T),
  ring_theory (f0 B) (f1 B) (fadd B) (fmul B) (fsub B) (fneg B) eq ->
  forall a : T * T, gen_quad_norm B (Quad.nr_sub N) a = Quad.quad_norm B N a.
Proof. exact (@gen_quad_norm_eq). Qed.
Theorem Gen_quad_mul_by_basefield_eq :
  forall (T : Type) (B : Fops T),
  ring_theory (f0 B) (f1 B) (fadd B) (fmul B) (fsub B) (fneg B) eq ->
  forall (a : T * T) (e : T), gen_quad_mul_assign_by_basefield B a e = Quad.quad_mul_by_basefield B a e.
Proof. exact (@gen_quad_mul_by_basefield_eq). Qed.
Theorem Gen_quad_double_eq :
  forall (T : Type) (B : Fops T),
  ring_theory (f0 B) (f1 B) (fadd B) (fmul B) (fsub B) (fneg B) eq ->
  forall a : T * T, gen_quad_double_in_place B a = qadd B a a.
Proof. exact (@gen_quad_double_eq). Qed.
Theorem Gen_quad_neg_eq :
  forall (T : Type) (B : Fops T),
  ring_theory (f0 B) (f1 B) (fadd B) (fmul B) (fsub B) (fneg B) eq ->
  forall a : T * T, gen_quad_neg_in_place B a = qneg B a.
Proof. exact (@gen_quad_neg_eq). Qed.
Theorem Gen_quad_add_eq :
  forall (T : Type) (B : Fops T),
  ring_theory (f0 B) (f1 B) (fadd B) (fmul B) (fsub B) (fneg B) eq ->
  forall a b : T * T, gen_quad_add_assign B a b = qadd B a b.
Proof. exact (@gen_quad_add_eq). Qed.
Theorem Gen_quad_sub_eq :
  forall (T : Type) (B : Fops T),
  ring_theory (f0 B) (f1 B) (fadd B) (fmul B) (fsub B) (fneg B) eq ->
  forall a b : T * T, gen_quad_sub_assign B a b = qsub B a b.
Proof. exact (@gen_quad_sub_eq). Qed.
Theorem Gen_quad_frobenius_eq :
  forall (T : Type) (B : Fops T),
  ring_theory (f0 B) (f1 B) (fadd B) (fmul B) (fsub B) (fneg B) eq ->
  forall (frobB coef : T -> T) (a : T * T),
  gen_quad_frobenius_map_in_place B frobB coef a = Quad.quad_frobenius frobB coef a.
Proof. exact (@gen_quad_frobenius_eq). Qed.
Theorem Gen_quad_mul_spec :
  forall (T : Type) (B : Fops T) (N : Quad.nrops T),
  ring_theory (f0 B) (f1 B) (fadd B) (fmul B) (fsub B) (fneg B) eq ->
  QuadProofs.nrops_ok B N ->
  forall a b : T * T,
  gen_quad_mul_assign B (Quad.nr_mul N) (Quad.nr_mul_add N) a b = qmul B (Quad.nr_const N) a b.
Proof. exact (@gen_quad_mul_spec). Qed.
Theorem Gen_quad_square_spec :
  forall (T : Type) (B : Fops T) (N : Quad.nrops T),
  ring_theory (f0 B) (f1 B) (fadd B) (fmul B) (fsub B) (fneg B) eq ->
  QuadProofs.nrops_ok B N ->
  forall a : T * T,
  (forall x y : T, feqb B x y = true -> x = y) ->
  gen_quad_square_in_place B (Quad.nr_const N) (Quad.nr_p1_add N) (Quad.nr_sub N) a =
  qmul B (Quad.nr_const N) a a.
Proof. exact (@gen_quad_square_spec). Qed.
Theorem Gen_quad_inverse_spec :
  forall (T : Type) (B : Fops T) (N : Quad.nrops T),
  ring_theory (f0 B) (f1 B) (fadd B) (fmul B) (fsub B) (fneg B) eq ->
  QuadProofs.nrops_ok B N ->
  forall a r : T * T,
  gen_quad_inverse B (Quad.nr_sub N) a = Some r ->
  fmul B (qnorm B (Quad.nr_const N) a) (finv B (qnorm B (Quad.nr_const N) a)) = f1 B ->
  qmul B (Quad.nr_const N) a r = (f1 B, f0 B).
Proof. exact (@gen_quad_inverse_spec). Qed.
Theorem Gen_quad_inverse_none :
  forall (T : Type) (B : Fops T) (N : Quad.nrops T),
  ring_theory (f0 B) (f1 B) (fadd B) (fmul B) (fsub B) (fneg B) eq ->
  QuadProofs.nrops_ok B N ->
  forall a : T * T,
  gen_quad_inverse B (Quad.nr_sub N) a = None ->
  Quad.quad_is_zero B a = true \/ fis0 B (qnorm B (Quad.nr_const N) a) = true.
Proof. exact (@gen_quad_inverse_none). Qed.
Theorem Gen_quad_norm_spec :
  forall (T : Type) (B : Fops T) (N : Quad.nrops T),
  ring_theory (f0 B) (f1 B) (fadd B) (fmul B) (fsub B) (fneg B) eq ->
  QuadProofs.nrops_ok B N ->
  forall a : T * T, gen_quad_norm B (Quad.nr_sub N) a = qnorm B (Quad.nr_const N) a.
Proof. exact (@gen_quad_norm_spec). Qed.
Theorem Gen_quad_mul_by_basefield_spec :
  forall (T : Type) (B : Fops T) (N : Quad.nrops T),
  ring_theory (f0 B) (f1 B) (fadd B) (fmul B) (fsub B) (fneg B) eq ->
  forall (a : T * T) (e : T),
  gen_quad_mul_assign_by_basefield B a e = qmul B (Quad.nr_const N) a (e, f0 B).
Proof. exact (@gen_quad_mul_by_basefield_spec). Qed.
Theorem Gen_cubic_is_zero_eq :
  forall (T : Type) (B : Fops T),
  ring_theory (f0 B) (f1 B) (fadd B) (fmul B) (fsub B) (fneg B) eq ->
  forall s : T * T * T, gen_cubic_is_zero B s = Cubic.cubic_is_zero B s.
Proof. exact (@gen_cubic_is_zero_eq). Qed.
Theorem Gen_cubic_mul_eq :
  forall (T : Type) (B : Fops T) (mul_nr : T -> T),
  ring_theory (f0 B) (f1 B) (fadd B) (fmul B) (fsub B) (fneg B) eq ->
  forall s o : T * T * T, gen_cubic_mul_assign B mul_nr s o = Cubic.cubic_mul B mul_nr s o.
Proof. exact (@gen_cubic_mul_eq). Qed.
Theorem Gen_cubic_square_eq :
  forall (T : Type) (B : Fops T) (mul_nr : T -> T),
  ring_theory (f0 B) (f1 B) (fadd B) (fmul B) (fsub B) (fneg B) eq ->
  forall s : T * T * T, gen_cubic_square_in_place B mul_nr s = Cubic.cubic_square B mul_nr s.
Proof. exact (@gen_cubic_square_eq). Qed.
Theorem Gen_cubic_inverse_eq :
  forall (T : Type) (B : Fops T) (mul_nr : T -> T),
  ring_theory (f0 B) (f1 B) (fadd B) (fmul B) (fsub B) (fneg B) eq ->
  forall s : T * T * T, gen_cubic_inverse B mul_nr s = cubic_inv_as_gen (Cubic.cubic_inverse B mul_nr s).
Proof. exact (@gen_cubic_inverse_eq). Qed.
Theorem Gen_cubic_mul_by_basefield_eq :
  forall (T : Type) (B : Fops T),
  ring_theory (f0 B) (f1 B) (fadd B) (fmul B) (fsub B) (fneg B) eq ->
  forall (s : T * T * T) (e : T),
  gen_cubic_mul_assign_by_base_field B s e = Cubic.cubic_mul_by_basefield B s e.
Proof. exact (@gen_cubic_mul_by_basefield_eq). Qed.
Theorem Gen_cubic_double_eq :
  forall (T : Type) (B : Fops T),
  ring_theory (f0 B) (f1 B) (fadd B) (fmul B) (fsub B) (fneg B) eq ->
  forall s : T * T * T, gen_cubic_double_in_place B s = cadd B s s.
Proof. exact (@gen_cubic_double_eq). Qed.
Theorem Gen_cubic_neg_eq :
  forall (T : Type) (B : Fops T),
  ring_theory (f0 B) (f1 B) (fadd B) (fmul B) (fsub B) (fneg B) eq ->
  forall s : T * T * T, gen_cubic_neg_in_place B s = cneg B s.
Proof. exact (@gen_cubic_neg_eq). Qed.
Theorem Gen_cubic_add_eq :
  forall (T : Type) (B : Fops T),
  ring_theory (f0 B) (f1 B) (fadd B) (fmul B) (fsub B) (fneg B) eq ->
  forall s o : T * T * T, gen_cubic_add_assign B s o = cadd B s o.
Proof. exact (@gen_cubic_add_eq). Qed.
Theorem Gen_cubic_sub_eq :
  forall (T : Type) (B : Fops T),
  ring_theory (f0 B) (f1 B) (fadd B) (fmul B) (fsub B) (fneg B) eq ->
  forall s o : T * T * T, gen_cubic_sub_assign B s o = csub B s o.
Proof. exact (@gen_cubic_sub_eq). Qed.
Theorem Gen_cubic_frobenius_eq :
  forall (T : Type) (B : Fops T),
  ring_theory (f0 B) (f1 B) (fadd B) (fmul B) (fsub B) (fneg B) eq ->
  forall (frobB coef1 coef2 : T -> T) (s : T * T * T),
  gen_cubic_frobenius_map_in_place B frobB coef1 coef2 s = Cubic.cubic_frobenius frobB coef1 coef2 s.
Proof. exact (@gen_cubic_frobenius_eq). Qed.
Theorem Gen_cubic_mul_spec :
  forall (T : Type) (B : Fops T) (mul_nr : T -> T),
  ring_theory (f0 B) (f1 B) (fadd B) (fmul B) (fsub B) (fneg B) eq ->
  forall nr : T,
  (forall y : T, mul_nr y = fmul B nr y) ->
  forall s o : T * T * T, gen_cubic_mul_assign B mul_nr s o = cmul B nr s o.
Proof. exact (@gen_cubic_mul_spec). Qed.
Theorem Gen_cubic_square_spec :
  forall (T : Type) (B : Fops T) (mul_nr : T -> T),
  ring_theory (f0 B) (f1 B) (fadd B) (fmul B) (fsub B) (fneg B) eq ->
  forall nr : T,
  (forall y : T, mul_nr y = fmul B nr y) ->
  forall s : T * T * T, gen_cubic_square_in_place B mul_nr s = cmul B nr s s.
Proof. exact (@gen_cubic_square_spec). Qed.
Theorem Gen_cubic_inverse_spec :
  forall (T : Type) (B : Fops T) (mul_nr : T -> T),
  ring_theory (f0 B) (f1 B) (fadd B) (fmul B) (fsub B) (fneg B) eq ->
  forall nr : T,
  (forall y : T, mul_nr y = fmul B nr y) ->
  forall s r : T * T * T,
  gen_cubic_inverse B mul_nr s = GRet (Some r) ->
  fmul B (CubicProofs.cnorm B nr s) (finv B (CubicProofs.cnorm B nr s)) = f1 B ->
  cmul B nr s r = (f1 B, f0 B, f0 B).
Proof. exact (@gen_cubic_inverse_spec). Qed.
Theorem Gen_cubic_inverse_total :
  forall (T : Type) (B : Fops T) (mul_nr : T -> T),
  ring_theory (f0 B) (f1 B) (fadd B) (fmul B) (fsub B) (fneg B) eq ->
  forall nr : T,
  (forall y : T, mul_nr y = fmul B nr y) ->
  forall s : T * T * T,
  Cubic.cubic_is_zero B s = false ->
  fis0 B (CubicProofs.cnorm B nr s) = false ->
  exists r : T * T * T, gen_cubic_inverse B mul_nr s = GRet (Some r).
Proof. exact (@gen_cubic_inverse_total). Qed.
Theorem Gen_cubic_mul_by_basefield_spec :
  forall (T : Type) (B : Fops T),
  ring_theory (f0 B) (f1 B) (fadd B) (fmul B) (fsub B) (fneg B) eq ->
  forall (nr : T) (s : T * T * T) (e : T),
  gen_cubic_mul_assign_by_base_field B s e = cmul B nr s (e, f0 B, f0 B).
Proof. exact (@gen_cubic_mul_by_basefield_spec). Qed.
Theorem Gen_fp6b_mul_by_034_eq :
  forall (T : Type) (B : Fops T),
  ring_theory (f0 B) (f1 B) (fadd B) (fmul B) (fsub B) (fneg B) eq ->
  forall (nr3 : T) (s : T * T * T * (T * T * T)) (x0 x3 x4 : T),
  gen_fp6_2over3_mul_by_034 B nr3 s x0 x3 x4 = Towers.fp6b_mul_by_034 B nr3 s x0 x3 x4.
Proof. exact (@gen_fp6b_mul_by_034_eq). Qed.
Theorem Gen_fp6b_mul_by_014_eq :
  forall (T : Type) (B : Fops T),
  ring_theory (f0 B) (f1 B) (fadd B) (fmul B) (fsub B) (fneg B) eq ->
  forall (nr3 : T) (s : T * T * T * (T * T * T)) (x0 x1 x4 : T),
  gen_fp6_2over3_mul_by_014 B nr3 s x0 x1 x4 = Towers.fp6b_mul_by_014 B nr3 s x0 x1 x4.
Proof. exact (@gen_fp6b_mul_by_014_eq). Qed.
Theorem Gen_fp6a_mul_by_1_eq :
  forall (T : Type) (B : Fops T),
  ring_theory (f0 B) (f1 B) (fadd B) (fmul B) (fsub B) (fneg B) eq ->
  forall (mul_nr : T -> T) (s : T * T * T) (e1 : T),
  gen_fp6_3over2_mul_by_1 B mul_nr s e1 = Towers.fp6a_mul_by_1 B mul_nr s e1.
Proof. exact (@gen_fp6a_mul_by_1_eq). Qed.
Theorem Gen_fp6a_mul_by_01_eq :
  forall (T : Type) (B : Fops T),
  ring_theory (f0 B) (f1 B) (fadd B) (fmul B) (fsub B) (fneg B) eq ->
  forall (mul_nr : T -> T) (s : T * T * T) (e0 e1 : T),
  gen_fp6_3over2_mul_by_01 B mul_nr s e0 e1 = Towers.fp6a_mul_by_01 B mul_nr s e0 e1.
Proof. exact (@gen_fp6a_mul_by_01_eq). Qed.
Theorem Gen_fp12_mul_by_034_eq :
  forall (T : Type) (B : Fops T),
  ring_theory (f0 B) (f1 B) (fadd B) (fmul B) (fsub B) (fneg B) eq ->
  forall (mul_nr : T -> T) (D6 : Fops (T * T * T)) (mul_nr6 : T * T * T -> T * T * T)
  (s : T * T * T * (T * T * T)) (e0 e3 e4 : T),
  gen_fp12_mul_by_034 B D6 mul_nr mul_nr6 s e0 e3 e4 =
  Towers.fp12_mul_by_034 B mul_nr D6 mul_nr6 s e0 e3 e4.
Proof. exact (@gen_fp12_mul_by_034_eq). Qed.
Theorem Gen_fp12_mul_by_014_eq :
  forall (T : Type) (B : Fops T),
  ring_theory (f0 B) (f1 B) (fadd B) (fmul B) (fsub B) (fneg B) eq ->
  forall (mul_nr : T -> T) (D6 : Fops (T * T * T)) (mul_nr6 : T * T * T -> T * T * T)
  (s : T * T * T * (T * T * T)) (e0 e1 e4 : T),
  gen_fp12_mul_by_014 B D6 mul_nr mul_nr6 s e0 e1 e4 =
  Towers.fp12_mul_by_014 B mul_nr D6 mul_nr6 s e0 e1 e4.
Proof. exact (@gen_fp12_mul_by_014_eq). Qed.
Theorem Gen_fp12_cyc_square_eq :
  forall (T : Type) (B : Fops T),
  ring_theory (f0 B) (f1 B) (fadd B) (fmul B) (fsub B) (fneg B) eq ->
  forall (fp2_nr : T -> T) (sq : T * T * T * (T * T * T) -> T * T * T * (T * T * T))
  (s : T * T * T * (T * T * T)),
  gen_fp12_cyclotomic_square_in_place B fp2_nr true sq s = Towers.gs_square B fp2_nr s.
Proof. exact (@gen_fp12_cyc_square_eq). Qed.
Theorem Gen_fp12_cyc_square_fallback :
  forall (T : Type) (B : Fops T),
  ring_theory (f0 B) (f1 B) (fadd B) (fmul B) (fsub B) (fneg B) eq ->
  forall (fp2_nr : T -> T) (sq : T * T * T * (T * T * T) -> T * T * T * (T * T * T))
  (s : T * T * T * (T * T * T)), gen_fp12_cyclotomic_square_in_place B fp2_nr false sq s = sq s.
Proof. exact (@gen_fp12_cyc_square_fallback). Qed.
Theorem Gen_fp6b_mul_by_034_spec :
  forall (T : Type) (B : Fops T),
  ring_theory (f0 B) (f1 B) (fadd B) (fmul B) (fsub B) (fneg B) eq ->
  forall (nr3 : T) (s : T * T * T * (T * T * T)) (x0 x3 x4 : T),
  gen_fp6_2over3_mul_by_034 B nr3 s x0 x3 x4 =
  qmul (CubicOps B nr3) (f0 B, f1 B, f0 B) s (x0, f0 B, f0 B, (x3, x4, f0 B)).
Proof. exact (@gen_fp6b_mul_by_034_spec). Qed.
Theorem Gen_fp6b_mul_by_014_spec :
  forall (T : Type) (B : Fops T),
  ring_theory (f0 B) (f1 B) (fadd B) (fmul B) (fsub B) (fneg B) eq ->
  forall (nr3 : T) (s : T * T * T * (T * T * T)) (x0 x1 x4 : T),
  gen_fp6_2over3_mul_by_014 B nr3 s x0 x1 x4 =
  qmul (CubicOps B nr3) (f0 B, f1 B, f0 B) s (x0, x1, f0 B, (f0 B, x4, f0 B)).
Proof. exact (@gen_fp6b_mul_by_014_spec). Qed.
Theorem Gen_fp6a_mul_by_1_spec :
  forall (T : Type) (B : Fops T),
  ring_theory (f0 B) (f1 B) (fadd B) (fmul B) (fsub B) (fneg B) eq ->
  forall (xi : T) (mul_nr : T -> T),
  (forall y : T, mul_nr y = fmul B xi y) ->
  forall (s : T * T * T) (e1 : T), gen_fp6_3over2_mul_by_1 B mul_nr s e1 = cmul B xi s (f0 B, e1, f0 B).
Proof. exact (@gen_fp6a_mul_by_1_spec). Qed.
Theorem Gen_fp6a_mul_by_01_spec :
  forall (T : Type) (B : Fops T),
  ring_theory (f0 B) (f1 B) (fadd B) (fmul B) (fsub B) (fneg B) eq ->
  forall (xi : T) (mul_nr : T -> T),
  (forall y : T, mul_nr y = fmul B xi y) ->
  forall (s : T * T * T) (e0 e1 : T),
  gen_fp6_3over2_mul_by_01 B mul_nr s e0 e1 = cmul B xi s (e0, e1, f0 B).
Proof. exact (@gen_fp6a_mul_by_01_spec). Qed.
Theorem Gen_fp12_mul_by_034_spec :
  forall (T : Type) (B : Fops T),
  ring_theory (f0 B) (f1 B) (fadd B) (fmul B) (fsub B) (fneg B) eq ->
  forall (xi : T) (mul_nr : T -> T),
  (forall y : T, mul_nr y = fmul B xi y) ->
  forall D6 : Fops (T * T * T),
  fadd D6 = cadd B ->
  fsub D6 = csub B ->
  forall mul_nr6 : T * T * T -> T * T * T,
  (forall y : T * T * T, mul_nr6 y = cmul B xi (f0 B, f1 B, f0 B) y) ->
  forall (s : T * T * T * (T * T * T)) (e0 e3 e4 : T),
  gen_fp12_mul_by_034 B D6 mul_nr mul_nr6 s e0 e3 e4 =
  qmul (CubicOps B xi) (f0 B, f1 B, f0 B) s (e0, f0 B, f0 B, (e3, e4, f0 B)).
Proof. exact (@gen_fp12_mul_by_034_spec). Qed.
Theorem Gen_fp12_mul_by_014_spec :
  forall (T : Type) (B : Fops T),
  ring_theory (f0 B) (f1 B) (fadd B) (fmul B) (fsub B) (fneg B) eq ->
  forall (xi : T) (mul_nr : T -> T),
  (forall y : T, mul_nr y = fmul B xi y) ->
  forall D6 : Fops (T * T * T),
  fadd D6 = cadd B ->
  fsub D6 = csub B ->
  forall mul_nr6 : T * T * T -> T * T * T,
  (forall y : T * T * T, mul_nr6 y = cmul B xi (f0 B, f1 B, f0 B) y) ->
  forall (s : T * T * T * (T * T * T)) (e0 e1 e4 : T),
  gen_fp12_mul_by_014 B D6 mul_nr mul_nr6 s e0 e1 e4 =
  qmul (CubicOps B xi) (f0 B, f1 B, f0 B) s (e0, e1, f0 B, (f0 B, e4, f0 B)).
Proof. exact (@gen_fp12_mul_by_014_spec). Qed.
Theorem Gen_fp12_cyc_square_partial :
  forall (T : Type) (B : Fops T),
  ring_theory (f0 B) (f1 B) (fadd B) (fmul B) (fsub B) (fneg B) eq ->
  forall (xi : T) (mul_nr : T -> T),
  (forall y : T, mul_nr y = fmul B xi y) ->
  forall (sq : T * T * T * (T * T * T) -> T * T * T * (T * T * T)) (x : T * T * T * (T * T * T)),
  CycProofs.gs_cyclotomic B xi x ->
  gen_fp12_cyclotomic_square_in_place B mul_nr true sq x = qmul (CubicOps B xi) (f0 B, f1 B, f0 B) x x.
Proof. exact (@gen_fp12_cyc_square_partial). Qed.
Theorem Gen_sw_mul_by_a_eq :
  forall (T : Type) (F : Fops T),
  ring_theory (f0 F) (f1 F) (fadd F) (fmul F) (fsub F) (fneg F) eq ->
  forall a e : T, gen_sw_mul_by_a F a e = SWModel.sw_mul_by_a F a e.
Proof. exact (@gen_sw_mul_by_a_eq). Qed.
Theorem Gen_sw_add_b_eq :
  forall (T : Type) (F : Fops T),
  ring_theory (f0 F) (f1 F) (fadd F) (fmul F) (fsub F) (fneg F) eq ->
  forall b e : T, gen_sw_add_b F b e = SWModel.sw_add_b F b e.
Proof. exact (@gen_sw_add_b_eq). Qed.
Theorem Gen_te_mul_by_a_eq :
  forall (T : Type) (F : Fops T),
  ring_theory (f0 F) (f1 F) (fadd F) (fmul F) (fsub F) (fneg F) eq ->
  forall a e : T, gen_te_mul_by_a F a e = TEModel.te_mul_by_a F a e.
Proof. exact (@gen_te_mul_by_a_eq). Qed.
Theorem Gen_quad_default_mul_and_add_eq :
  forall (T : Type) (F : Fops T),
  ring_theory (f0 F) (f1 F) (fadd F) (fmul F) (fsub F) (fneg F) eq ->
  forall (nr : T) (mul_nr : T -> T) (y x : T),
  gen_quad_default_mul_and_add F mul_nr y x = Quad.nr_mul_add (Quad.default_nrops F nr mul_nr) y x.
Proof. exact (@gen_quad_default_mul_and_add_eq). Qed.
Theorem Gen_quad_default_plus_one_and_add_eq :
  forall (T : Type) (F : Fops T),
  ring_theory (f0 F) (f1 F) (fadd F) (fmul F) (fsub F) (fneg F) eq ->
  forall (nr : T) (mul_nr : T -> T) (y x : T),
  gen_quad_default_plus_one_and_add F (Quad.nr_mul_add (Quad.default_nrops F nr mul_nr)) y x =
  Quad.nr_p1_add (Quad.default_nrops F nr mul_nr) y x.
Proof. exact (@gen_quad_default_plus_one_and_add_eq). Qed.
Theorem Gen_quad_default_sub_and_mul_eq :
  forall (T : Type) (F : Fops T),
  ring_theory (f0 F) (f1 F) (fadd F) (fmul F) (fsub F) (fneg F) eq ->
  forall (nr : T) (mul_nr : T -> T) (y x : T),
  gen_quad_default_sub_and_mul F mul_nr y x = Quad.nr_sub (Quad.default_nrops F nr mul_nr) y x.
Proof. exact (@gen_quad_default_sub_and_mul_eq). Qed.
Theorem Gen_fp4_mul_fp2_by_nonresidue_eq :
  forall (T : Type) (F : Fops T),
  ring_theory (f0 F) (f1 F) (fadd F) (fmul F) (fsub F) (fneg F) eq ->
  forall (mul_nr_below : T -> T) (fe : T * T),
  gen_fp4_mul_fp2_by_nonresidue F mul_nr_below fe = Towers.mul_nr_swap mul_nr_below fe.
Proof. exact (@gen_fp4_mul_fp2_by_nonresidue_eq). Qed.
Theorem Gen_fp6_2over3_mul_fp3_by_nonresidue_eq :
  forall (T : Type) (F : Fops T),
  ring_theory (f0 F) (f1 F) (fadd F) (fmul F) (fsub F) (fneg F) eq ->
  forall (mul_nr_below : T -> T) (fe : T * T * T),
  gen_fp6_2over3_mul_fp3_by_nonresidue F mul_nr_below fe = Towers.mul_nr_rot mul_nr_below fe.
Proof. exact (@gen_fp6_2over3_mul_fp3_by_nonresidue_eq). Qed.
Theorem Gen_fp12_mul_fp6_by_nonresidue_eq :
  forall (T : Type) (F : Fops T),
  ring_theory (f0 F) (f1 F) (fadd F) (fmul F) (fsub F) (fneg F) eq ->
  forall (mul_nr_below : T -> T) (fe : T * T * T),
  gen_fp12_mul_fp6_by_nonresidue F mul_nr_below fe = Towers.mul_nr_rot mul_nr_below fe.
Proof. exact (@gen_fp12_mul_fp6_by_nonresidue_eq). Qed.
Theorem Gen_sw_double_default_eq :
  forall (T : Type) (F : Fops T),
  ring_theory (f0 F) (f1 F) (fadd F) (fmul F) (fsub F) (fneg F) eq ->
  forall (a : T) (P : T * T * T),
  gen_sw_double_in_place F a (gen_sw_mul_by_a F a) P = SWModel.sw_double F a P.
Proof. exact (@gen_sw_double_default_eq). Qed.

(* ---------------- the generated definitions run: y^2 = x^3 + 2 over F_13 ---------------- *)
Example Gen_run_example :
  sw_to_affine (ZpOps 13) (gen_sw_add_assign (ZpOps 13) 0 (fun _ => 0) (1, 4, 1) (4, 6, 2)) = Some (2, 7)
  /\ sw_to_affine (ZpOps 13) (gen_sw_add_assign (ZpOps 13) 0 (fun _ => 0) (1, 4, 1) (4, 7, 2)) = None
  /\ gen_sw_double_in_place (ZpOps 13) 0 (fun _ => 0) (1, 4, 1) = sw_double (ZpOps 13) 0 (1, 4, 1)
  /\ gen_sw_into_affine (ZpOps 13) (4, 6, 2) = GRet (1, 4, false)
  /\ gen_sw_eq (ZpOps 13) (4, 6, 2) (1, 4, 1) = true.
Proof. vm_compute. repeat split; reflexivity. Qed.
