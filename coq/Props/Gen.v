(* Gen -- pinned theorems about the definitions that lib/xlate_field.py re-generates from the
   current /repo source on every check run (coq/Gen/GenField.v).  Two kinds:
   `*_eq`   : the generated definition equals the hand-written model function of C02/C03
              (so every C02/C03 theorem about that model function speaks about the current code);
   the rest : the headline corollaries, composed with the C02/C03 theorems.
   [good_field F], [jac_on], [aff_on], [te_valid], [te_dens_ok]: as in Props/C03.v.
   [nrops_ok B N], [qmul], [cmul], [qnorm], [cnorm], [gs_cyclotomic]: as in Props/C02.v.
   Configuration hooks are parameters of the generated definitions: P::mul_by_a is any
   function with mul_by_a e = e * a; the non-residue hooks are the record N / the function
   mul_nr with their C02 specifications. *)
From V Require Import Base.Field Gen.GenField Gen.GenFieldSpecs.
From V Require Import C03.SWModel C03.TEModel C03.SWProofs C03.TEProofs C03.FieldHyp.
From V Require Import C02.Quad C02.Cubic C02.Towers C02.QuadProofs C02.CubicProofs C02.TowerProofs C02.CycProofs.

(* ---------------- generated = model ---------------- *)
Theorem Gen_sw_double_eq : forall T (F : Fops T) (a : T),
  ring_theory (f0 F) (f1 F) (fadd F) (fmul F) (fsub F) (fneg F) eq ->
  forall mul_by_a : T -> T, (forall e, mul_by_a e = sw_mul_by_a F a e) ->
  forall P, gen_sw_double_in_place F a mul_by_a P = sw_double F a P.
Proof. exact (@gen_sw_double_eq). Qed.
Theorem Gen_sw_add_eq : forall T (F : Fops T) (a : T),
  ring_theory (f0 F) (f1 F) (fadd F) (fmul F) (fsub F) (fneg F) eq ->
  forall mul_by_a : T -> T, (forall e, mul_by_a e = sw_mul_by_a F a e) ->
  forall P Q, gen_sw_add_assign F a mul_by_a P Q = sw_add F a P Q.
Proof. exact (@gen_sw_add_eq). Qed.
Theorem Gen_sw_madd_eq : forall T (F : Fops T) (a : T),
  ring_theory (f0 F) (f1 F) (fadd F) (fmul F) (fsub F) (fneg F) eq ->
  forall mul_by_a : T -> T, (forall e, mul_by_a e = sw_mul_by_a F a e) ->
  forall P Q, gen_sw_add_assign_affine F a mul_by_a P Q = sw_madd F a P Q.
Proof. exact (@gen_sw_madd_eq). Qed.
Theorem Gen_te_double_eq : forall T (F : Fops T) (a : T) (mul_by_a : T -> T),
  (forall e, mul_by_a e = fmul F e a) ->
  forall P, gen_te_double_in_place F mul_by_a P = te_double F a P.
Proof. exact (@gen_te_double_eq). Qed.
Theorem Gen_te_add_eq : forall T (F : Fops T) (a d : T) (mul_by_a : T -> T),
  (forall e, mul_by_a e = fmul F e a) ->
  forall P Q, gen_te_add_assign F d mul_by_a P Q = te_add F a d P Q.
Proof. exact (@gen_te_add_eq). Qed.
Theorem Gen_te_madd_eq : forall T (F : Fops T) (a d : T) (mul_by_a : T -> T),
  (forall e, mul_by_a e = fmul F e a) ->
  forall P Q, gen_te_add_assign_affine F d mul_by_a P Q = te_madd F a d P Q.
Proof. exact (@gen_te_madd_eq). Qed.
Theorem Gen_quad_mul_eq : forall T (B : Fops T) (N : nrops T),
  ring_theory (f0 B) (f1 B) (fadd B) (fmul B) (fsub B) (fneg B) eq ->
  forall a b, gen_quad_mul_assign B (nr_mul N) (nr_mul_add N) a b = quad_mul B N a b.
Proof. exact (@gen_quad_mul_eq). Qed.
Theorem Gen_quad_square_eq : forall T (B : Fops T) (N : nrops T) a,
  gen_quad_square_in_place B (nr_const N) (nr_p1_add N) (nr_sub N) a = quad_square B N a.
Proof. exact (@gen_quad_square_eq). Qed.
Theorem Gen_quad_inverse_eq : forall T (B : Fops T) (N : nrops T) a,
  gen_quad_inverse B (nr_sub N) a = quad_inverse B N a.
Proof. exact (@gen_quad_inverse_eq). Qed.
Theorem Gen_cubic_mul_eq : forall T (B : Fops T) (mul_nr : T -> T) s o,
  gen_cubic_mul_assign B mul_nr s o = cubic_mul B mul_nr s o.
Proof. exact (@gen_cubic_mul_eq). Qed.
Theorem Gen_cubic_square_eq : forall T (B : Fops T) (mul_nr : T -> T) s,
  gen_cubic_square_in_place B mul_nr s = cubic_square B mul_nr s.
Proof. exact (@gen_cubic_square_eq). Qed.
(* GRet None / GPanic / GRet (Some r)  <->  CubicInvNone / CubicInvPanic / CubicInvSome r *)
Theorem Gen_cubic_inverse_eq : forall T (B : Fops T) (mul_nr : T -> T) s,
  gen_cubic_inverse B mul_nr s = cubic_inv_as_gen (cubic_inverse B mul_nr s).
Proof. exact (@gen_cubic_inverse_eq). Qed.
Theorem Gen_fp6b_mul_by_034_eq : forall T (B : Fops T) nr3 s x0 x3 x4,
  gen_fp6_2over3_mul_by_034 B nr3 s x0 x3 x4 = fp6b_mul_by_034 B nr3 s x0 x3 x4.
Proof. exact (@gen_fp6b_mul_by_034_eq). Qed.
Theorem Gen_fp6b_mul_by_014_eq : forall T (B : Fops T) nr3 s x0 x1 x4,
  gen_fp6_2over3_mul_by_014 B nr3 s x0 x1 x4 = fp6b_mul_by_014 B nr3 s x0 x1 x4.
Proof. exact (@gen_fp6b_mul_by_014_eq). Qed.
Theorem Gen_fp6a_mul_by_1_eq : forall T (B : Fops T) mul_nr s e1,
  gen_fp6_3over2_mul_by_1 B mul_nr s e1 = fp6a_mul_by_1 B mul_nr s e1.
Proof. exact (@gen_fp6a_mul_by_1_eq). Qed.
Theorem Gen_fp6a_mul_by_01_eq : forall T (B : Fops T) mul_nr s e0 e1,
  gen_fp6_3over2_mul_by_01 B mul_nr s e0 e1 = fp6a_mul_by_01 B mul_nr s e0 e1.
Proof. exact (@gen_fp6a_mul_by_01_eq). Qed.
Theorem Gen_fp12_mul_by_034_eq : forall T (B : Fops T) mul_nr (D6 : Fops (T * T * T)) mul_nr6 s e0 e3 e4,
  gen_fp12_mul_by_034 B D6 mul_nr mul_nr6 s e0 e3 e4 = fp12_mul_by_034 B mul_nr D6 mul_nr6 s e0 e3 e4.
Proof. exact (@gen_fp12_mul_by_034_eq). Qed.
Theorem Gen_fp12_mul_by_014_eq : forall T (B : Fops T) mul_nr (D6 : Fops (T * T * T)) mul_nr6 s e0 e1 e4,
  gen_fp12_mul_by_014 B D6 mul_nr mul_nr6 s e0 e1 e4 = fp12_mul_by_014 B mul_nr D6 mul_nr6 s e0 e1 e4.
Proof. exact (@gen_fp12_mul_by_014_eq). Qed.
Theorem Gen_fp12_cyc_square_eq : forall T (B : Fops T) fp2_nr sq s,
  gen_fp12_cyclotomic_square_in_place B fp2_nr true sq s = gs_square B fp2_nr s.
Proof. exact (@gen_fp12_cyc_square_eq). Qed.
Theorem Gen_fp12_cyc_square_fallback : forall T (B : Fops T) fp2_nr sq s,
  gen_fp12_cyclotomic_square_in_place B fp2_nr false sq s = sq s.
Proof. exact (@gen_fp12_cyc_square_fallback). Qed.

(* ---------------- headline corollaries: curve group law ---------------- *)
Theorem Gen_sw_double_correct : forall T (F : Fops T) (a : T), good_field F ->
  forall mul_by_a : T -> T, (forall e, mul_by_a e = fmul F e a) ->
  forall P, sw_to_affine F (gen_sw_double_in_place F a mul_by_a P)
            = aff_add_sw F a (sw_to_affine F P) (sw_to_affine F P).
Proof. exact (@gen_sw_double_correct). Qed.
Theorem Gen_sw_add_correct : forall T (F : Fops T) (a b : T), good_field F ->
  forall mul_by_a : T -> T, (forall e, mul_by_a e = fmul F e a) ->
  forall P Q, jac_on F a b P -> jac_on F a b Q ->
  sw_to_affine F (gen_sw_add_assign F a mul_by_a P Q) = aff_add_sw F a (sw_to_affine F P) (sw_to_affine F Q).
Proof. exact (@gen_sw_add_correct). Qed.
Theorem Gen_sw_madd_correct : forall T (F : Fops T) (a b : T), good_field F ->
  forall mul_by_a : T -> T, (forall e, mul_by_a e = fmul F e a) ->
  forall P Q, jac_on F a b P -> aff_on F a b Q ->
  sw_to_affine F (gen_sw_add_assign_affine F a mul_by_a P Q) = aff_add_sw F a (sw_to_affine F P) Q.
Proof. exact (@gen_sw_madd_correct). Qed.
Theorem Gen_sw_double_on_curve : forall T (F : Fops T) (a b : T), good_field F ->
  forall mul_by_a : T -> T, (forall e, mul_by_a e = fmul F e a) ->
  forall P, jac_on F a b P -> jac_on F a b (gen_sw_double_in_place F a mul_by_a P).
Proof. exact (@gen_sw_double_on_curve). Qed.
Theorem Gen_sw_add_on_curve : forall T (F : Fops T) (a b : T), good_field F ->
  forall mul_by_a : T -> T, (forall e, mul_by_a e = fmul F e a) ->
  forall P Q, jac_on F a b P -> jac_on F a b Q -> jac_on F a b (gen_sw_add_assign F a mul_by_a P Q).
Proof. exact (@gen_sw_add_on_curve). Qed.
Theorem Gen_sw_madd_on_curve : forall T (F : Fops T) (a b : T), good_field F ->
  forall mul_by_a : T -> T, (forall e, mul_by_a e = fmul F e a) ->
  forall P Q, jac_on F a b P -> aff_on F a b Q -> jac_on F a b (gen_sw_add_assign_affine F a mul_by_a P Q).
Proof. exact (@gen_sw_madd_on_curve). Qed.
Theorem Gen_te_add_correct : forall T (F : Fops T) (a d : T) (mul_by_a : T -> T),
  (forall e, mul_by_a e = fmul F e a) -> good_field F ->
  forall P Q, te_valid F P -> te_valid F Q -> te_dens_ok F d (te_to_affine F P) (te_to_affine F Q) ->
  te_valid F (gen_te_add_assign F d mul_by_a P Q) /\
  te_to_affine F (gen_te_add_assign F d mul_by_a P Q) = aff_add_te F a d (te_to_affine F P) (te_to_affine F Q).
Proof. exact (@gen_te_add_correct). Qed.
Theorem Gen_te_madd_correct : forall T (F : Fops T) (a d : T) (mul_by_a : T -> T),
  (forall e, mul_by_a e = fmul F e a) -> good_field F ->
  forall P Q, te_valid F P -> te_dens_ok F d (te_to_affine F P) Q ->
  te_valid F (gen_te_add_assign_affine F d mul_by_a P Q) /\
  te_to_affine F (gen_te_add_assign_affine F d mul_by_a P Q) = aff_add_te F a d (te_to_affine F P) Q.
Proof. exact (@gen_te_madd_correct). Qed.
Theorem Gen_te_double_correct : forall T (F : Fops T) (a d : T) (mul_by_a : T -> T),
  (forall e, mul_by_a e = fmul F e a) -> good_field F ->
  forall P, te_valid F P -> te_aff_on F a d (te_to_affine F P) ->
  te_dens_ok F d (te_to_affine F P) (te_to_affine F P) ->
  te_valid F (gen_te_double_in_place F mul_by_a P) /\
  te_to_affine F (gen_te_double_in_place F mul_by_a P) = aff_add_te F a d (te_to_affine F P) (te_to_affine F P).
Proof. exact (@gen_te_double_correct). Qed.

(* ---------------- headline corollaries: extension towers ---------------- *)
Theorem Gen_quad_mul_spec : forall T (B : Fops T) (N : nrops T),
  ring_theory (f0 B) (f1 B) (fadd B) (fmul B) (fsub B) (fneg B) eq -> nrops_ok B N ->
  forall a b, gen_quad_mul_assign B (nr_mul N) (nr_mul_add N) a b = qmul B (nr_const N) a b.
Proof. exact (@gen_quad_mul_spec). Qed.
Theorem Gen_quad_square_spec : forall T (B : Fops T) (N : nrops T),
  ring_theory (f0 B) (f1 B) (fadd B) (fmul B) (fsub B) (fneg B) eq -> nrops_ok B N ->
  forall a, (forall x y, feqb B x y = true -> x = y) ->
  gen_quad_square_in_place B (nr_const N) (nr_p1_add N) (nr_sub N) a = qmul B (nr_const N) a a.
Proof. exact (@gen_quad_square_spec). Qed.
Theorem Gen_quad_inverse_spec : forall T (B : Fops T) (N : nrops T),
  ring_theory (f0 B) (f1 B) (fadd B) (fmul B) (fsub B) (fneg B) eq -> nrops_ok B N ->
  forall a r, gen_quad_inverse B (nr_sub N) a = Some r ->
  fmul B (qnorm B (nr_const N) a) (finv B (qnorm B (nr_const N) a)) = f1 B ->
  qmul B (nr_const N) a r = (f1 B, f0 B).
Proof. exact (@gen_quad_inverse_spec). Qed.
Theorem Gen_quad_inverse_none : forall T (B : Fops T) (N : nrops T), nrops_ok B N ->
  forall a, gen_quad_inverse B (nr_sub N) a = None ->
  quad_is_zero B a = true \/ fis0 B (qnorm B (nr_const N) a) = true.
Proof. exact (@gen_quad_inverse_none). Qed.
Theorem Gen_cubic_mul_spec : forall T (B : Fops T) (mul_nr : T -> T),
  ring_theory (f0 B) (f1 B) (fadd B) (fmul B) (fsub B) (fneg B) eq ->
  forall nr : T, (forall y, mul_nr y = fmul B nr y) ->
  forall s o, gen_cubic_mul_assign B mul_nr s o = cmul B nr s o.
Proof. exact (@gen_cubic_mul_spec). Qed.
Theorem Gen_cubic_square_spec : forall T (B : Fops T) (mul_nr : T -> T),
  ring_theory (f0 B) (f1 B) (fadd B) (fmul B) (fsub B) (fneg B) eq ->
  forall nr : T, (forall y, mul_nr y = fmul B nr y) ->
  forall s, gen_cubic_square_in_place B mul_nr s = cmul B nr s s.
Proof. exact (@gen_cubic_square_spec). Qed.
Theorem Gen_cubic_inverse_spec : forall T (B : Fops T) (mul_nr : T -> T),
  ring_theory (f0 B) (f1 B) (fadd B) (fmul B) (fsub B) (fneg B) eq ->
  forall nr : T, (forall y, mul_nr y = fmul B nr y) ->
  forall s r, gen_cubic_inverse B mul_nr s = GRet (Some r) ->
  fmul B (cnorm B nr s) (finv B (cnorm B nr s)) = f1 B -> cmul B nr s r = (f1 B, f0 B, f0 B).
Proof. exact (@gen_cubic_inverse_spec). Qed.
Theorem Gen_cubic_inverse_total : forall T (B : Fops T) (mul_nr : T -> T),
  ring_theory (f0 B) (f1 B) (fadd B) (fmul B) (fsub B) (fneg B) eq ->
  forall nr : T, (forall y, mul_nr y = fmul B nr y) ->
  forall s, cubic_is_zero B s = false -> fis0 B (cnorm B nr s) = false ->
  exists r, gen_cubic_inverse B mul_nr s = GRet (Some r).
Proof. exact (@gen_cubic_inverse_total). Qed.
Theorem Gen_fp6b_mul_by_034_spec : forall T (B : Fops T),
  ring_theory (f0 B) (f1 B) (fadd B) (fmul B) (fsub B) (fneg B) eq ->
  forall nr3 s x0 x3 x4, gen_fp6_2over3_mul_by_034 B nr3 s x0 x3 x4 =
  qmul (CubicOps B nr3) (f0 B, f1 B, f0 B) s (x0, f0 B, f0 B, (x3, x4, f0 B)).
Proof. exact (@gen_fp6b_mul_by_034_spec). Qed.
Theorem Gen_fp6b_mul_by_014_spec : forall T (B : Fops T),
  ring_theory (f0 B) (f1 B) (fadd B) (fmul B) (fsub B) (fneg B) eq ->
  forall nr3 s x0 x1 x4, gen_fp6_2over3_mul_by_014 B nr3 s x0 x1 x4 =
  qmul (CubicOps B nr3) (f0 B, f1 B, f0 B) s (x0, x1, f0 B, (f0 B, x4, f0 B)).
Proof. exact (@gen_fp6b_mul_by_014_spec). Qed.
Theorem Gen_fp6a_mul_by_1_spec : forall T (B : Fops T),
  ring_theory (f0 B) (f1 B) (fadd B) (fmul B) (fsub B) (fneg B) eq ->
  forall (xi : T) (mul_nr : T -> T), (forall y, mul_nr y = fmul B xi y) ->
  forall s e1, gen_fp6_3over2_mul_by_1 B mul_nr s e1 = cmul B xi s (f0 B, e1, f0 B).
Proof. exact (@gen_fp6a_mul_by_1_spec). Qed.
Theorem Gen_fp6a_mul_by_01_spec : forall T (B : Fops T),
  ring_theory (f0 B) (f1 B) (fadd B) (fmul B) (fsub B) (fneg B) eq ->
  forall (xi : T) (mul_nr : T -> T), (forall y, mul_nr y = fmul B xi y) ->
  forall s e0 e1, gen_fp6_3over2_mul_by_01 B mul_nr s e0 e1 = cmul B xi s (e0, e1, f0 B).
Proof. exact (@gen_fp6a_mul_by_01_spec). Qed.
Theorem Gen_fp12_mul_by_034_spec : forall T (B : Fops T),
  ring_theory (f0 B) (f1 B) (fadd B) (fmul B) (fsub B) (fneg B) eq ->
  forall (xi : T) (mul_nr : T -> T), (forall y, mul_nr y = fmul B xi y) ->
  forall D6 : Fops (T * T * T), fadd D6 = cadd B -> fsub D6 = csub B ->
  forall mul_nr6 : T * T * T -> T * T * T, (forall y, mul_nr6 y = cmul B xi (f0 B, f1 B, f0 B) y) ->
  forall s e0 e3 e4, gen_fp12_mul_by_034 B D6 mul_nr mul_nr6 s e0 e3 e4 =
  qmul (CubicOps B xi) (f0 B, f1 B, f0 B) s (e0, f0 B, f0 B, (e3, e4, f0 B)).
Proof. exact (@gen_fp12_mul_by_034_spec). Qed.
Theorem Gen_fp12_mul_by_014_spec : forall T (B : Fops T),
  ring_theory (f0 B) (f1 B) (fadd B) (fmul B) (fsub B) (fneg B) eq ->
  forall (xi : T) (mul_nr : T -> T), (forall y, mul_nr y = fmul B xi y) ->
  forall D6 : Fops (T * T * T), fadd D6 = cadd B -> fsub D6 = csub B ->
  forall mul_nr6 : T * T * T -> T * T * T, (forall y, mul_nr6 y = cmul B xi (f0 B, f1 B, f0 B) y) ->
  forall s e0 e1 e4, gen_fp12_mul_by_014 B D6 mul_nr mul_nr6 s e0 e1 e4 =
  qmul (CubicOps B xi) (f0 B, f1 B, f0 B) s (e0, e1, f0 B, (f0 B, e4, f0 B)).
Proof. exact (@gen_fp12_mul_by_014_spec). Qed.
(* PARTIAL (as C02_gs_square_partial): the coordinate relations of the cyclotomic subgroup are a premise *)
Theorem Gen_fp12_cyc_square_partial : forall T (B : Fops T),
  ring_theory (f0 B) (f1 B) (fadd B) (fmul B) (fsub B) (fneg B) eq ->
  forall (xi : T) (fp2_nr : T -> T), (forall y, fp2_nr y = fmul B xi y) ->
  forall sq x, gs_cyclotomic B xi x ->
  gen_fp12_cyclotomic_square_in_place B fp2_nr true sq x = qmul (CubicOps B xi) (f0 B, f1 B, f0 B) x x.
Proof. exact (@gen_fp12_cyc_square_partial). Qed.

(* ---------------- default bodies of the configuration hooks = their models ---------------- *)
Theorem Gen_sw_mul_by_a_eq : forall T (F : Fops T) a e, gen_sw_mul_by_a F a e = sw_mul_by_a F a e.
Proof. exact (@gen_sw_mul_by_a_eq). Qed.
Theorem Gen_sw_add_b_eq : forall T (F : Fops T) b e, gen_sw_add_b F b e = sw_add_b F b e.
Proof. exact (@gen_sw_add_b_eq). Qed.
Theorem Gen_te_mul_by_a_eq : forall T (F : Fops T) a e, gen_te_mul_by_a F a e = te_mul_by_a F a e.
Proof. exact (@gen_te_mul_by_a_eq). Qed.
Theorem Gen_quad_default_mul_and_add_eq : forall T (F : Fops T) nr mul_nr y x,
  gen_quad_default_mul_and_add F mul_nr y x = nr_mul_add (default_nrops F nr mul_nr) y x.
Proof. exact (@gen_quad_default_mul_and_add_eq). Qed.
Theorem Gen_quad_default_plus_one_and_add_eq : forall T (F : Fops T) nr mul_nr y x,
  gen_quad_default_plus_one_and_add F (nr_mul_add (default_nrops F nr mul_nr)) y x
  = nr_p1_add (default_nrops F nr mul_nr) y x.
Proof. exact (@gen_quad_default_plus_one_and_add_eq). Qed.
Theorem Gen_quad_default_sub_and_mul_eq : forall T (F : Fops T) nr mul_nr y x,
  gen_quad_default_sub_and_mul F mul_nr y x = nr_sub (default_nrops F nr mul_nr) y x.
Proof. exact (@gen_quad_default_sub_and_mul_eq). Qed.
Theorem Gen_fp4_mul_fp2_by_nonresidue_eq : forall T (F : Fops T) mul_nr_below fe,
  gen_fp4_mul_fp2_by_nonresidue F mul_nr_below fe = mul_nr_swap mul_nr_below fe.
Proof. exact (@gen_fp4_mul_fp2_by_nonresidue_eq). Qed.
Theorem Gen_fp6_2over3_mul_fp3_by_nonresidue_eq : forall T (F : Fops T) mul_nr_below fe,
  gen_fp6_2over3_mul_fp3_by_nonresidue F mul_nr_below fe = mul_nr_rot mul_nr_below fe.
Proof. exact (@gen_fp6_2over3_mul_fp3_by_nonresidue_eq). Qed.
Theorem Gen_fp12_mul_fp6_by_nonresidue_eq : forall T (F : Fops T) mul_nr_below fe,
  gen_fp12_mul_fp6_by_nonresidue F mul_nr_below fe = mul_nr_rot mul_nr_below fe.
Proof. exact (@gen_fp12_mul_fp6_by_nonresidue_eq). Qed.
(* the generated doubling with the generated default mul_by_a *)
Theorem Gen_sw_double_default_eq : forall T (F : Fops T),
  ring_theory (f0 F) (f1 F) (fadd F) (fmul F) (fsub F) (fneg F) eq ->
  forall a P, gen_sw_double_in_place F a (gen_sw_mul_by_a F a) P = sw_double F a P.
Proof. exact (@gen_sw_double_default_eq). Qed.

(* ---------------- the generated definitions run: y^2 = x^3 + 2 over F_13 ---------------- *)
Example Gen_run_example :
  sw_to_affine (ZpOps 13) (gen_sw_add_assign (ZpOps 13) 0 (fun _ => 0) (1, 4, 1) (4, 6, 2)) = Some (2, 7)
  /\ sw_to_affine (ZpOps 13) (gen_sw_add_assign (ZpOps 13) 0 (fun _ => 0) (1, 4, 1) (4, 7, 2)) = None
  /\ gen_sw_double_in_place (ZpOps 13) 0 (fun _ => 0) (1, 4, 1) = sw_double (ZpOps 13) 0 (1, 4, 1).
Proof. vm_compute. repeat split; reflexivity. Qed.
