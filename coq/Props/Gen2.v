(* Gen2 -- pinned theorems about the definitions that lib/xlate_field.py --table2 re-generates from the
   current /repo source on every check run (coq/Gen/GenField2.v): hash-to-curve maps (C13 models),
   coordinate recovery and sign flags of point (de)compression (C09 models), subgroup tests, cofactor
   clearing and endomorphisms (C12 models).
   `*_eq`: the generated definition equals the hand-written model function, for all arguments; the rest are
   corollaries composed with the C13 theorems.  `x.sqrt()`, `x.legendre().is_qr()`, `parity`, `<` / `<=`
   (here PointCodec.flt / fle of an `Ord::cmp`), scalar multiplications (mul_affine / mul_projective, specified to
   agree with the C12 model on point representations) and configuration constants are parameters of the generated
   definitions.  [sw_aff_repr F A]: the Rust struct (x, y, infinity) of the model point A; [mres_*_as_gen],
   [swflag_as_gen], [teflag_as_gen]: model outcome / flag -> generated outcome / flag; GPanic = a panic site
   (`expect`, `unwrap`, `debug_assert!`, division by zero) fires.
   The statements are the types of the lemmas of Gen/GenField2Specs.v, written out. *)
From V Require Import Base.Field Gen.GenField Gen.GenFieldSpecs Gen.GenField2 Gen.GenField2Specs.
From V Require Import C03.SWModel C03.TEModel C03.FieldHyp C13.Maps.
From V Require C09.FpCodec C09.PointCodec C12.SubgroupModel.

Theorem Gen2_swu_map_to_curve_eq :
  forall (T : Type) (F : Fops T),
  good_field F ->
  forall (is_qr : T -> bool) (sqrt : T -> option T) (parity : T -> bool) (mba addb : T -> T) (a b zeta : T),
  (forall e : T, mba e = fmul F e a) ->
  (forall e : T, addb e = fadd F e b) ->
  feqb F a (f0 F) = false ->
  forall u : T,
  gen_swu_map_to_curve F sqrt is_qr parity b zeta a mba addb u =
  mres_sw_as_gen
  (swu_coded (f0 F) (f1 F) (fadd F) (fmul F) (fneg F) (finv F) (feqb F) is_qr sqrt parity a b zeta u).
Proof. exact (@gen_swu_map_to_curve_eq). Qed.

Theorem Gen2_elligator2_map_to_curve_eq :
  forall (T : Type) (F : Fops T),
  good_field F ->
  forall (is_qr : T -> bool) (sqrt : T -> option T) (parity : T -> bool) (mba : T -> T)
  (k j_on_k ksq_inv z ta td : T),
  (forall e : T, mba e = fmul F e ta) ->
  forall u : T,
  gen_elligator2_map_to_curve F sqrt is_qr parity k j_on_k ksq_inv z td mba u =
  mres_te_as_gen
  (ell2_coded (f0 F) (f1 F) (fadd F) (fsub F) (fmul F) (fneg F) (finv F) (feqb F) is_qr sqrt parity k j_on_k
  ksq_inv z ta td u).
Proof. exact (@gen_elligator2_map_to_curve_eq). Qed.

Theorem Gen2_swu_correct :
  forall (T : Type) (F : Fops T),
  good_field F ->
  forall (is_qr : T -> bool) (sqrt : T -> option T) (parity : T -> bool) (mba addb : T -> T) (a b zeta : T),
  (forall e : T, mba e = fmul F e a) ->
  (forall e : T, addb e = fadd F e b) ->
  a <> f0 F ->
  zeta <> f0 F ->
  (forall x : T, is_qr x = true -> exists r : T, sqrt x = Some r /\ fmul F r r = x) ->
  sqrt (f0 F) = Some (f0 F) ->
  (forall x : T, x <> f0 F -> is_qr x = false -> is_qr (fmul F zeta x) = true) ->
  is_qr (sw_g (fadd F) (fmul F) a b (fmul F b (finv F (fmul F zeta a)))) = true ->
  forall u : T,
  exists x y : T,
  gen_swu_map_to_curve F sqrt is_qr parity b zeta a mba addb u = GRet (x, y, false) /\
  fmul F y y = fadd F (fadd F (fmul F (fmul F x x) x) (fmul F a x)) b /\
  ((forall w : T, w <> f0 F -> parity (fneg F w) = negb (parity w)) -> y <> f0 F -> parity y = parity u).
Proof. exact (@gen_swu_correct). Qed.

Theorem Gen2_elligator2_correct :
  forall (T : Type) (F : Fops T),
  good_field F ->
  forall (is_qr : T -> bool) (sqrt : T -> option T) (parity : T -> bool) (mba : T -> T) (k j jk ki z ta td : T),
  (forall e : T, mba e = fmul F e ta) ->
  k <> f0 F ->
  fmul F jk k = j ->
  fmul F ki (fmul F k k) = f1 F ->
  fmul F ta k = fadd F j (fadd F (f1 F) (f1 F)) ->
  fmul F td k = fsub F j (fadd F (f1 F) (f1 F)) ->
  (forall x : T, is_qr x = true -> exists r : T, sqrt x = Some r /\ fmul F r r = x) ->
  sqrt (f0 F) = Some (f0 F) ->
  (forall x : T, x <> f0 F -> is_qr x = false -> is_qr (fmul F z x) = true) ->
  (forall c x : T, c <> f0 F -> is_qr (fmul F (fmul F c c) x) = is_qr x) ->
  forall u : T,
  exists v w : T,
  gen_elligator2_map_to_curve F sqrt is_qr parity k jk ki z td mba u = GRet (v, w) /\
  fadd F (fmul F ta (fmul F v v)) (fmul F w w) = fadd F (f1 F) (fmul F td (fmul F (fmul F v v) (fmul F w w))).
Proof. exact (@gen_elligator2_correct). Qed.

Theorem Gen2_sw_get_ys_eq :
  forall (T : Type) (F : Fops T),
  ring_theory (f0 F) (f1 F) (fadd F) (fmul F) (fsub F) (fneg F) eq ->
  forall (sqrt : T -> option T) (cmp : T -> T -> comparison) (ca cb : T) (mba : T -> T),
  (forall e : T, mba e = fmul F e ca) ->
  forall addb : T -> T,
  (forall e : T, addb e = fadd F e cb) ->
  forall x : T,
  gen_sw_get_ys_from_x_unchecked F sqrt (PointCodec.flt cmp) (PointCodec.fle cmp) ca mba addb x =
  PointCodec.sw_get_ys F sqrt cmp ca cb x.
Proof. exact (@gen_sw_get_ys_eq). Qed.

Theorem Gen2_sw_get_point_from_x_eq :
  forall (T : Type) (F : Fops T),
  ring_theory (f0 F) (f1 F) (fadd F) (fmul F) (fsub F) (fneg F) eq ->
  forall (sqrt : T -> option T) (cmp : T -> T -> comparison) (ca cb : T) (mba : T -> T),
  (forall e : T, mba e = fmul F e ca) ->
  forall addb : T -> T,
  (forall e : T, addb e = fadd F e cb) ->
  forall (x : T) (greatest : bool),
  gen_sw_get_point_from_x_unchecked F sqrt (PointCodec.flt cmp) (PointCodec.fle cmp) ca mba addb x greatest =
  sw_point_from_x_model (PointCodec.sw_get_ys F sqrt cmp ca cb x) x greatest.
Proof. exact (@gen_sw_get_point_from_x_eq). Qed.

Theorem Gen2_sw_to_flags_eq :
  forall (T : Type) (F : Fops T),
  ring_theory (f0 F) (f1 F) (fadd F) (fmul F) (fsub F) (fneg F) eq ->
  forall (cmp : T -> T -> comparison) (x y : T) (inf : bool),
  gen_sw_to_flags F (PointCodec.flt cmp) (PointCodec.fle cmp) (x, y, inf) =
  swflag_as_gen
  (PointCodec.sw_to_flags F cmp {| PointCodec.sx := x; PointCodec.sy := y; PointCodec.sinf := inf |}).
Proof. exact (@gen_sw_to_flags_eq). Qed.

Theorem Gen2_te_get_xs_eq :
  forall (T : Type) (F : Fops T),
  ring_theory (f0 F) (f1 F) (fadd F) (fmul F) (fsub F) (fneg F) eq ->
  forall (sqrt : T -> option T) (cmp : T -> T -> comparison) (ta td y : T),
  gen_te_get_xs_from_y_unchecked F sqrt (PointCodec.flt cmp) (PointCodec.fle cmp) ta td y =
  PointCodec.te_get_xs F sqrt cmp ta td y.
Proof. exact (@gen_te_get_xs_eq). Qed.

Theorem Gen2_te_get_point_from_y_eq :
  forall (T : Type) (F : Fops T),
  ring_theory (f0 F) (f1 F) (fadd F) (fmul F) (fsub F) (fneg F) eq ->
  forall (sqrt : T -> option T) (cmp : T -> T -> comparison) (ta td y : T) (greatest : bool),
  gen_te_get_point_from_y_unchecked F sqrt (PointCodec.flt cmp) (PointCodec.fle cmp) ta td y greatest =
  te_point_from_y_model (PointCodec.te_get_xs F sqrt cmp ta td y) y greatest.
Proof. exact (@gen_te_get_point_from_y_eq). Qed.

Theorem Gen2_te_flags_from_x_eq :
  forall (T : Type) (F : Fops T),
  ring_theory (f0 F) (f1 F) (fadd F) (fmul F) (fsub F) (fneg F) eq ->
  forall (cmp : T -> T -> comparison) (x : T),
  gen_te_flags_from_x_coordinate F (PointCodec.flt cmp) (PointCodec.fle cmp) x =
  teflag_as_gen (PointCodec.te_from_x F cmp x).
Proof. exact (@gen_te_flags_from_x_eq). Qed.

Theorem Gen2_sw_aff_xy_eq :
  forall (T : Type) (F : Fops T),
  ring_theory (f0 F) (f1 F) (fadd F) (fmul F) (fsub F) (fneg F) eq ->
  forall A : option (T * T), gen_sw_aff_xy F (sw_aff_repr F A) = A.
Proof. exact (@gen_sw_aff_xy_eq). Qed.

Theorem Gen2_sw_eq_affine_eq :
  forall (T : Type) (F : Fops T),
  ring_theory (f0 F) (f1 F) (fadd F) (fmul F) (fsub F) (fneg F) eq ->
  forall (P : T * T * T) (A : option (T * T)),
  gen_sw_eq_affine F P (sw_aff_repr F A) = SubgroupModel.sw_eq_proj_aff F P A.
Proof. exact (@gen_sw_eq_affine_eq). Qed.

Theorem Gen2_sw_default_subgroup_eq :
  forall (T : Type) (F : Fops T) (a : T),
  ring_theory (f0 F) (f1 F) (fadd F) (fmul F) (fsub F) (fneg F) eq ->
  forall mula : T * T * bool -> Z -> T * T * T,
  (forall (A : option (T * T)) (n : Z), mula (sw_aff_repr F A) n = SubgroupModel.sw_mul_affine F a A n) ->
  forall (hl : list Z) (r : Z) (A : option (T * T)),
  gen_sw_default_is_in_correct_subgroup F (SubgroupModel.cofactor_is_one hl) r mula (sw_aff_repr F A) =
  SubgroupModel.sw_in_subgroup_default F a hl r A.
Proof. exact (@gen_sw_default_subgroup_eq). Qed.

Theorem Gen2_sw_mul_by_cofactor_to_group_eq :
  forall (T : Type) (F : Fops T) (a : T),
  ring_theory (f0 F) (f1 F) (fadd F) (fmul F) (fsub F) (fneg F) eq ->
  forall mula : T * T * bool -> Z -> T * T * T,
  (forall (A : option (T * T)) (n : Z), mula (sw_aff_repr F A) n = SubgroupModel.sw_mul_affine F a A n) ->
  forall (hl : list Z) (A : option (T * T)),
  gen_sw_aff_mul_by_cofactor_to_group F (SubgroupModel.limbs_val hl) mula (sw_aff_repr F A) =
  SubgroupModel.sw_mul_by_cofactor_to_group F a hl A.
Proof. exact (@gen_sw_mul_by_cofactor_to_group_eq). Qed.

Theorem Gen2_bls12_381_g1_endomorphism_eq :
  forall (T : Type) (F : Fops T),
  ring_theory (f0 F) (f1 F) (fadd F) (fmul F) (fsub F) (fneg F) eq ->
  forall (beta : T) (A : option (T * T)),
  gen_bls12_381_g1_endomorphism F beta (sw_aff_repr F A) = sw_aff_repr F (SubgroupModel.endo_aff F beta A).
Proof. exact (@gen_bls12_381_g1_endomorphism_eq). Qed.

Theorem Gen2_bls12_381_g1_subgroup_eq :
  forall (T : Type) (F : Fops T) (a : T),
  ring_theory (f0 F) (f1 F) (fadd F) (fmul F) (fsub F) (fneg F) eq ->
  forall mula : T * T * bool -> Z -> T * T * T,
  (forall (A : option (T * T)) (n : Z), mula (sw_aff_repr F A) n = SubgroupModel.sw_mul_affine F a A n) ->
  forall (beta : T) (endo : T * T * bool -> T * T * bool),
  (forall A : option (T * T), endo (sw_aff_repr F A) = sw_aff_repr F (SubgroupModel.endo_aff F beta A)) ->
  forall (mulp : T * T * T -> Z -> T * T * T) (xabs : Z) (A : option (T * T)),
  gen_bls12_381_g1_is_in_correct_subgroup F xabs mula mulp endo (sw_aff_repr F A) =
  SubgroupModel.bls_g1_test F a mulp xabs beta A.
Proof. exact (@gen_bls12_381_g1_subgroup_eq). Qed.

Theorem Gen2_bls12_381_g1_clear_cofactor_eq :
  forall (T : Type) (F : Fops T) (a : T),
  ring_theory (f0 F) (f1 F) (fadd F) (fmul F) (fsub F) (fneg F) eq ->
  forall mula : T * T * bool -> Z -> T * T * T,
  (forall (A : option (T * T)) (n : Z), mula (sw_aff_repr F A) n = SubgroupModel.sw_mul_affine F a A n) ->
  forall (heff : Z) (A : option (T * T)),
  gen_bls12_381_g1_clear_cofactor F heff mula (sw_aff_repr F A) =
  GRet (sw_aff_repr F (SubgroupModel.sw_clear_heff F a heff A)).
Proof. exact (@gen_bls12_381_g1_clear_cofactor_eq). Qed.

Theorem Gen2_bls12_381_g2_subgroup_eq :
  forall (T : Type) (F : Fops T) (a : T),
  ring_theory (f0 F) (f1 F) (fadd F) (fmul F) (fsub F) (fneg F) eq ->
  forall mula : T * T * bool -> Z -> T * T * T,
  (forall (A : option (T * T)) (n : Z), mula (sw_aff_repr F A) n = SubgroupModel.sw_mul_affine F a A n) ->
  forall (psi : option (T * T) -> option (T * T)) (psig : T * T * bool -> T * T * bool),
  (forall A : option (T * T), psig (sw_aff_repr F A) = sw_aff_repr F (psi A)) ->
  forall (xabs : Z) (xneg : bool) (A : option (T * T)),
  gen_bls12_381_g2_is_in_correct_subgroup F xabs xneg mula psig (sw_aff_repr F A) =
  SubgroupModel.psi_test F a psi xabs xneg A.
Proof. exact (@gen_bls12_381_g2_subgroup_eq). Qed.

Theorem Gen2_bn254_g2_subgroup_eq :
  forall (T : Type) (F : Fops T) (a : T),
  ring_theory (f0 F) (f1 F) (fadd F) (fmul F) (fsub F) (fneg F) eq ->
  forall mula : T * T * bool -> Z -> T * T * T,
  (forall (A : option (T * T)) (n : Z), mula (sw_aff_repr F A) n = SubgroupModel.sw_mul_affine F a A n) ->
  forall (psi : option (T * T) -> option (T * T)) (psig : T * T * bool -> T * T * bool),
  (forall A : option (T * T), psig (sw_aff_repr F A) = sw_aff_repr F (psi A)) ->
  forall (s : Z) (A : option (T * T)),
  gen_bn254_g2_is_in_correct_subgroup F s mula psig (sw_aff_repr F A) = SubgroupModel.psi_test F a psi s false A.
Proof. exact (@gen_bn254_g2_subgroup_eq). Qed.

Theorem Gen2_bls12_381_g2_double_p_power_eq :
  forall (T : Type) (F : Fops T),
  ring_theory (f0 F) (f1 F) (fadd F) (fmul F) (fsub F) (fneg F) eq ->
  forall (c : T) (P : T * T * T),
  gen_bls12_381_g2_double_p_power_endomorphism F c P = (let '(x, y, z) := P in (fmul F x c, fneg F y, z)).
Proof. exact (@gen_bls12_381_g2_double_p_power_eq). Qed.

Theorem Gen2_te_default_subgroup_eq :
  forall (T : Type) (F : Fops T) (a d : T),
  ring_theory (f0 F) (f1 F) (fadd F) (fmul F) (fsub F) (fneg F) eq ->
  forall (r : Z) (A : T * T),
  gen_te_default_is_in_correct_subgroup F r (SubgroupModel.te_mul_affine F a d) A =
  SubgroupModel.te_in_subgroup_default F a d r A.
Proof. exact (@gen_te_default_subgroup_eq). Qed.

Theorem Gen2_bls12_381_g2_psi_eq :
  forall (T : Type) (B : Fops T) (nr : T),
  ring_theory (f0 B) (f1 B) (fadd B) (fmul B) (fsub B) (fneg B) eq ->
  forall (fc : T) (c0 c1 : T * T) (A : option (T * T * (T * T))),
  gen_bls12_381_g2_p_power_endomorphism B (SubgroupModel.F2 B nr) c0 c1 (SubgroupModel.fp2_frob B fc)
  (sw_aff_repr (SubgroupModel.F2 B nr) A) =
  sw_aff_repr (SubgroupModel.F2 B nr) (SubgroupModel.psi_bls381 B nr fc (snd c0) c1 A).
Proof. exact (@gen_bls12_381_g2_psi_eq). Qed.

Theorem Gen2_bn254_g2_psi_eq :
  forall (T : Type) (B : Fops T) (nr : T),
  ring_theory (f0 B) (f1 B) (fadd B) (fmul B) (fsub B) (fneg B) eq ->
  forall (fc : T) (c0 c1 : T * T) (A : option (T * T * (T * T))),
  gen_bn254_g2_p_power_endomorphism (SubgroupModel.F2 B nr) c0 c1 (SubgroupModel.fp2_frob B fc)
  (sw_aff_repr (SubgroupModel.F2 B nr) A) =
  sw_aff_repr (SubgroupModel.F2 B nr) (SubgroupModel.psi_generic B nr fc c0 c1 A).
Proof. exact (@gen_bn254_g2_psi_eq). Qed.

(* ---------------- the generated definitions run: SWU on y^2 = x^3 + x + 1 over F_13 with a toy oracle ----- *)
Example Gen2_run_example :
  gen_sw_to_flags (ZpOps 13) Z.ltb Z.leb (3, 4, false) = GYIsPositive
  /\ gen_sw_to_flags (ZpOps 13) Z.ltb Z.leb (3, 9, false) = GYIsNegative
  /\ gen_sw_aff_xy (ZpOps 13) (3, 4, false) = Some (3, 4)
  /\ gen_bls12_381_g1_endomorphism (ZpOps 13) 3 (2, 5, false) = (6, 5, false)
  /\ gen_te_flags_from_x_coordinate (ZpOps 13) Z.ltb Z.leb 0 = GXIsPositive.
Proof. vm_compute. repeat split; reflexivity. Qed.
