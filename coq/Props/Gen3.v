(* Gen3 -- pinned theorems about the definitions that lib/xlate_field.py --table3 re-generates from the current
   /repo source on every check run (coq/Gen/GenField3.v): per-curve overrides of the non-residue hooks of
   Fp2Config / Fp3Config / Fp6Config (C02 models `nrops_*`, `mul_nr_*`; composed with C02's `nrops_ok` theorems:
   multiplication by the declared NONRESIDUE, schoolbook products with the generated hooks), per-curve overrides of
   SWCurveConfig / TECurveConfig :: mul_by_a (= e * COEFF_A under the premise on the declared constant), cubic norm,
   cyclotomic inverses, mul_by_fp helpers, Frobenius-coefficient hooks (C02), subtraction wrappers (C03), cofactor
   multiplication / clearing and Budroni-Pintore clearing on bls12_381 G2 (C12 `bp_clear`), point serialisation
   `serialize_with_mode` / `serialized_size` of both curve models (C09 `sw_enc`, `te_enc`, `sw_size`, `te_size`; the writer
   is the list of items written, read back by [items_bytes]).
   `*_eq`: the generated definition equals the hand-written model function, for all arguments; `*_spec` / `*_ok` /
   `*_correct`: corollaries composed with the C02 / C03 theorems.  Premises of the form "nr = -1", "a = 0", "k1 = k0"
   are the facts about declared constants that C16 checks on every shipped configuration.
   The statements are the types of the lemmas of Gen/GenField3Specs.v, written out. *)
From V Require Import Base.Field Gen.GenField Gen.GenFieldSpecs Gen.GenField2 Gen.GenField2Specs Gen.GenField3 Gen.GenField3Specs.
From V Require Import C03.SWModel C03.TEModel C03.SWProofs C03.TEProofs C03.FieldHyp.
From V Require Import C02.Quad C02.Cubic C02.Towers C02.QuadProofs C02.Inst.
From V Require C12.SubgroupModel C09.Bytes C09.FpCodec C09.PointCodec.

Theorem Gen3_bls12_381_fq2_mul_fp_by_nonresidue_eq :
  forall (T : Type) (F : Fops T),
  ring_theory (f0 F) (f1 F) (fadd F) (fmul F) (fsub F) (fneg F) eq ->
  forall nr fe : T, gen_bls12_381_fq2_mul_fp_by_nonresidue F fe = nr_mul (nrops_bls12_381_fq2 F nr) fe.
Proof. exact (@gen_bls12_381_fq2_mul_fp_by_nonresidue_eq). Qed.

Theorem Gen3_bls12_381_fq2_mul_fp_by_nonresidue_and_add_eq :
  forall (T : Type) (F : Fops T),
  ring_theory (f0 F) (f1 F) (fadd F) (fmul F) (fsub F) (fneg F) eq ->
  forall nr y x : T,
  gen_bls12_381_fq2_mul_fp_by_nonresidue_and_add F y x = nr_mul_add (nrops_bls12_381_fq2 F nr) y x.
Proof. exact (@gen_bls12_381_fq2_mul_fp_by_nonresidue_and_add_eq). Qed.

Theorem Gen3_bls12_381_fq2_mul_fp_by_nonresidue_plus_one_and_add_eq :
  forall (T : Type) (F : Fops T),
  ring_theory (f0 F) (f1 F) (fadd F) (fmul F) (fsub F) (fneg F) eq ->
  forall nr y x : T,
  gen_bls12_381_fq2_mul_fp_by_nonresidue_plus_one_and_add F y x = nr_p1_add (nrops_bls12_381_fq2 F nr) y x.
Proof. exact (@gen_bls12_381_fq2_mul_fp_by_nonresidue_plus_one_and_add_eq). Qed.

Theorem Gen3_bls12_381_fq2_sub_and_mul_fp_by_nonresidue_eq :
  forall (T : Type) (F : Fops T),
  ring_theory (f0 F) (f1 F) (fadd F) (fmul F) (fsub F) (fneg F) eq ->
  forall nr y x : T,
  gen_bls12_381_fq2_sub_and_mul_fp_by_nonresidue F y x = nr_sub (nrops_bls12_381_fq2 F nr) y x.
Proof. exact (@gen_bls12_381_fq2_sub_and_mul_fp_by_nonresidue_eq). Qed.

Theorem Gen3_nrops_bls12_381_fq2_ok :
  forall (T : Type) (F : Fops T),
  ring_theory (f0 F) (f1 F) (fadd F) (fmul F) (fsub F) (fneg F) eq ->
  forall nr : T, nr = fneg F (f1 F) -> nrops_ok F (gen_nrops_bls12_381_fq2 F nr).
Proof. exact (@gen_nrops_bls12_381_fq2_ok). Qed.

Theorem Gen3_bls12_381_fp2_mul_spec :
  forall (T : Type) (F : Fops T),
  ring_theory (f0 F) (f1 F) (fadd F) (fmul F) (fsub F) (fneg F) eq ->
  forall (nr : T) (a b : T * T),
  nr = fneg F (f1 F) ->
  gen_quad_mul_assign F (gen_bls12_381_fq2_mul_fp_by_nonresidue F)
  (gen_bls12_381_fq2_mul_fp_by_nonresidue_and_add F) a b = qmul F nr a b.
Proof. exact (@gen_bls12_381_fp2_mul_spec). Qed.

Theorem Gen3_bls12_377_fq2_mul_fp_by_nonresidue_eq :
  forall (T : Type) (F : Fops T),
  ring_theory (f0 F) (f1 F) (fadd F) (fmul F) (fsub F) (fneg F) eq ->
  forall nr fe : T, gen_bls12_377_fq2_mul_fp_by_nonresidue F fe = nr_mul (nrops_bls12_377_fq2 F nr) fe.
Proof. exact (@gen_bls12_377_fq2_mul_fp_by_nonresidue_eq). Qed.

Theorem Gen3_bls12_377_fq2_mul_fp_by_nonresidue_and_add_eq :
  forall (T : Type) (F : Fops T),
  ring_theory (f0 F) (f1 F) (fadd F) (fmul F) (fsub F) (fneg F) eq ->
  forall nr y x : T,
  gen_bls12_377_fq2_mul_fp_by_nonresidue_and_add F y x = nr_mul_add (nrops_bls12_377_fq2 F nr) y x.
Proof. exact (@gen_bls12_377_fq2_mul_fp_by_nonresidue_and_add_eq). Qed.

Theorem Gen3_bls12_377_fq2_mul_fp_by_nonresidue_plus_one_and_add_eq :
  forall (T : Type) (F : Fops T),
  ring_theory (f0 F) (f1 F) (fadd F) (fmul F) (fsub F) (fneg F) eq ->
  forall nr y x : T,
  gen_bls12_377_fq2_mul_fp_by_nonresidue_plus_one_and_add F y x = nr_p1_add (nrops_bls12_377_fq2 F nr) y x.
Proof. exact (@gen_bls12_377_fq2_mul_fp_by_nonresidue_plus_one_and_add_eq). Qed.

Theorem Gen3_bls12_377_fq2_sub_and_mul_fp_by_nonresidue_eq :
  forall (T : Type) (F : Fops T),
  ring_theory (f0 F) (f1 F) (fadd F) (fmul F) (fsub F) (fneg F) eq ->
  forall nr y x : T,
  gen_bls12_377_fq2_sub_and_mul_fp_by_nonresidue F y x = nr_sub (nrops_bls12_377_fq2 F nr) y x.
Proof. exact (@gen_bls12_377_fq2_sub_and_mul_fp_by_nonresidue_eq). Qed.

Theorem Gen3_nrops_bls12_377_fq2_ok :
  forall (T : Type) (F : Fops T),
  ring_theory (f0 F) (f1 F) (fadd F) (fmul F) (fsub F) (fneg F) eq ->
  forall nr : T,
  nr = fneg F (fadd F (fadd F (fadd F (f1 F) (f1 F)) (fadd F (f1 F) (f1 F))) (f1 F)) ->
  nrops_ok F (gen_nrops_bls12_377_fq2 F nr).
Proof. exact (@gen_nrops_bls12_377_fq2_ok). Qed.

Theorem Gen3_bls12_377_fp2_mul_spec :
  forall (T : Type) (F : Fops T),
  ring_theory (f0 F) (f1 F) (fadd F) (fmul F) (fsub F) (fneg F) eq ->
  forall (nr : T) (a b : T * T),
  nr = fneg F (fadd F (fadd F (fadd F (f1 F) (f1 F)) (fadd F (f1 F) (f1 F))) (f1 F)) ->
  gen_quad_mul_assign F (gen_bls12_377_fq2_mul_fp_by_nonresidue F)
  (gen_bls12_377_fq2_mul_fp_by_nonresidue_and_add F) a b = qmul F nr a b.
Proof. exact (@gen_bls12_377_fp2_mul_spec). Qed.

Theorem Gen3_test_bls12_381_fq2_mul_fp_by_nonresidue_eq :
  forall (T : Type) (F : Fops T),
  ring_theory (f0 F) (f1 F) (fadd F) (fmul F) (fsub F) (fneg F) eq ->
  forall nr fe : T, gen_test_bls12_381_fq2_mul_fp_by_nonresidue F fe = nr_mul (nrops_bls12_381_fq2 F nr) fe.
Proof. exact (@gen_test_bls12_381_fq2_mul_fp_by_nonresidue_eq). Qed.

Theorem Gen3_test_bls12_381_fq2_mul_fp_by_nonresidue_and_add_eq :
  forall (T : Type) (F : Fops T),
  ring_theory (f0 F) (f1 F) (fadd F) (fmul F) (fsub F) (fneg F) eq ->
  forall nr y x : T,
  gen_test_bls12_381_fq2_mul_fp_by_nonresidue_and_add F y x = nr_mul_add (nrops_bls12_381_fq2 F nr) y x.
Proof. exact (@gen_test_bls12_381_fq2_mul_fp_by_nonresidue_and_add_eq). Qed.

Theorem Gen3_test_bls12_381_fq2_mul_fp_by_nonresidue_plus_one_and_add_eq :
  forall (T : Type) (F : Fops T),
  ring_theory (f0 F) (f1 F) (fadd F) (fmul F) (fsub F) (fneg F) eq ->
  forall nr y x : T,
  gen_test_bls12_381_fq2_mul_fp_by_nonresidue_plus_one_and_add F y x =
  nr_p1_add (nrops_bls12_381_fq2 F nr) y x.
Proof. exact (@gen_test_bls12_381_fq2_mul_fp_by_nonresidue_plus_one_and_add_eq). Qed.

Theorem Gen3_test_bls12_381_fq2_sub_and_mul_fp_by_nonresidue_eq :
  forall (T : Type) (F : Fops T),
  ring_theory (f0 F) (f1 F) (fadd F) (fmul F) (fsub F) (fneg F) eq ->
  forall nr y x : T,
  gen_test_bls12_381_fq2_sub_and_mul_fp_by_nonresidue F y x = nr_sub (nrops_bls12_381_fq2 F nr) y x.
Proof. exact (@gen_test_bls12_381_fq2_sub_and_mul_fp_by_nonresidue_eq). Qed.

Theorem Gen3_nrops_test_bls12_381_fq2_ok :
  forall (T : Type) (F : Fops T),
  ring_theory (f0 F) (f1 F) (fadd F) (fmul F) (fsub F) (fneg F) eq ->
  forall nr : T, nr = fneg F (f1 F) -> nrops_ok F (gen_nrops_test_bls12_381_fq2 F nr).
Proof. exact (@gen_nrops_test_bls12_381_fq2_ok). Qed.

Theorem Gen3_test_bls12_381_fp2_mul_spec :
  forall (T : Type) (F : Fops T),
  ring_theory (f0 F) (f1 F) (fadd F) (fmul F) (fsub F) (fneg F) eq ->
  forall (nr : T) (a b : T * T),
  nr = fneg F (f1 F) ->
  gen_quad_mul_assign F (gen_test_bls12_381_fq2_mul_fp_by_nonresidue F)
  (gen_test_bls12_381_fq2_mul_fp_by_nonresidue_and_add F) a b = qmul F nr a b.
Proof. exact (@gen_test_bls12_381_fp2_mul_spec). Qed.

Theorem Gen3_bn254_fq2_mul_fp_by_nonresidue_eq :
  forall (T : Type) (F : Fops T),
  ring_theory (f0 F) (f1 F) (fadd F) (fmul F) (fsub F) (fneg F) eq ->
  forall nr fe : T, gen_bn254_fq2_mul_fp_by_nonresidue F fe = nr_mul (nrops_bn254_fq2 F nr) fe.
Proof. exact (@gen_bn254_fq2_mul_fp_by_nonresidue_eq). Qed.

Theorem Gen3_nrops_bn254_fq2_ok :
  forall (T : Type) (F : Fops T),
  ring_theory (f0 F) (f1 F) (fadd F) (fmul F) (fsub F) (fneg F) eq ->
  forall nr : T, nr = fneg F (f1 F) -> nrops_ok F (gen_nrops_bn254_fq2 F nr).
Proof. exact (@gen_nrops_bn254_fq2_ok). Qed.

Theorem Gen3_bls12_381_fq2_mul_spec :
  forall (T : Type) (F : Fops T),
  ring_theory (f0 F) (f1 F) (fadd F) (fmul F) (fsub F) (fneg F) eq ->
  forall nr fe : T, nr = fneg F (f1 F) -> gen_bls12_381_fq2_mul_fp_by_nonresidue F fe = fmul F nr fe.
Proof. exact (@gen_bls12_381_fq2_mul_spec). Qed.

Theorem Gen3_bls12_377_fq2_mul_spec :
  forall (T : Type) (F : Fops T),
  ring_theory (f0 F) (f1 F) (fadd F) (fmul F) (fsub F) (fneg F) eq ->
  forall nr fe : T,
  nr = fneg F (fadd F (fadd F (fadd F (f1 F) (f1 F)) (fadd F (f1 F) (f1 F))) (f1 F)) ->
  gen_bls12_377_fq2_mul_fp_by_nonresidue F fe = fmul F nr fe.
Proof. exact (@gen_bls12_377_fq2_mul_spec). Qed.

Theorem Gen3_bn254_fq2_mul_spec :
  forall (T : Type) (F : Fops T),
  ring_theory (f0 F) (f1 F) (fadd F) (fmul F) (fsub F) (fneg F) eq ->
  forall nr fe : T, nr = fneg F (f1 F) -> gen_bn254_fq2_mul_fp_by_nonresidue F fe = fmul F nr fe.
Proof. exact (@gen_bn254_fq2_mul_spec). Qed.

Theorem Gen3_test_bls12_381_fq2_mul_spec :
  forall (T : Type) (F : Fops T),
  ring_theory (f0 F) (f1 F) (fadd F) (fmul F) (fsub F) (fneg F) eq ->
  forall nr fe : T, nr = fneg F (f1 F) -> gen_test_bls12_381_fq2_mul_fp_by_nonresidue F fe = fmul F nr fe.
Proof. exact (@gen_test_bls12_381_fq2_mul_spec). Qed.

Theorem Gen3_bw6_761_fq3_mul_fp_by_nonresidue_eq :
  forall (T : Type) (F : Fops T),
  ring_theory (f0 F) (f1 F) (fadd F) (fmul F) (fsub F) (fneg F) eq ->
  forall fe : T, gen_bw6_761_fq3_mul_fp_by_nonresidue F fe = mul_nr_bw6_761_fq3 F fe.
Proof. exact (@gen_bw6_761_fq3_mul_fp_by_nonresidue_eq). Qed.

Theorem Gen3_cp6_782_fq3_mul_fp_by_nonresidue_eq :
  forall (T : Type) (F : Fops T),
  ring_theory (f0 F) (f1 F) (fadd F) (fmul F) (fsub F) (fneg F) eq ->
  forall fe : T, gen_cp6_782_fq3_mul_fp_by_nonresidue F fe = mul_nr_cp6_782_fq3 F fe.
Proof. exact (@gen_cp6_782_fq3_mul_fp_by_nonresidue_eq). Qed.

Theorem Gen3_bw6_761_fq3_mul_spec :
  forall (T : Type) (F : Fops T),
  ring_theory (f0 F) (f1 F) (fadd F) (fmul F) (fsub F) (fneg F) eq ->
  forall nr fe : T,
  nr = fneg F (fadd F (fadd F (f1 F) (f1 F)) (fadd F (f1 F) (f1 F))) ->
  gen_bw6_761_fq3_mul_fp_by_nonresidue F fe = fmul F nr fe.
Proof. exact (@gen_bw6_761_fq3_mul_spec). Qed.

Theorem Gen3_cp6_782_fq3_mul_spec :
  forall (T : Type) (F : Fops T),
  ring_theory (f0 F) (f1 F) (fadd F) (fmul F) (fsub F) (fneg F) eq ->
  forall nr fe : T,
  nr =
  fadd F
  (fadd F
  (fadd F (fadd F (fadd F (f1 F) (f1 F)) (fadd F (f1 F) (f1 F)))
  (fadd F (fadd F (f1 F) (f1 F)) (fadd F (f1 F) (f1 F))))
  (fadd F (fadd F (f1 F) (f1 F)) (fadd F (f1 F) (f1 F)))) (f1 F) ->
  gen_cp6_782_fq3_mul_fp_by_nonresidue F fe = fmul F nr fe.
Proof. exact (@gen_cp6_782_fq3_mul_spec). Qed.

Theorem Gen3_bw6_761_fp3_mul_spec :
  forall (T : Type) (F : Fops T),
  ring_theory (f0 F) (f1 F) (fadd F) (fmul F) (fsub F) (fneg F) eq ->
  forall (nr : T) (s o : T * T * T),
  nr = fneg F (fadd F (fadd F (f1 F) (f1 F)) (fadd F (f1 F) (f1 F))) ->
  gen_cubic_mul_assign F (gen_bw6_761_fq3_mul_fp_by_nonresidue F) s o = cmul F nr s o.
Proof. exact (@gen_bw6_761_fp3_mul_spec). Qed.

Theorem Gen3_cp6_782_fp3_mul_spec :
  forall (T : Type) (F : Fops T),
  ring_theory (f0 F) (f1 F) (fadd F) (fmul F) (fsub F) (fneg F) eq ->
  forall (nr : T) (s o : T * T * T),
  nr =
  fadd F
  (fadd F
  (fadd F (fadd F (fadd F (f1 F) (f1 F)) (fadd F (f1 F) (f1 F)))
  (fadd F (fadd F (f1 F) (f1 F)) (fadd F (f1 F) (f1 F))))
  (fadd F (fadd F (f1 F) (f1 F)) (fadd F (f1 F) (f1 F)))) (f1 F) ->
  gen_cubic_mul_assign F (gen_cp6_782_fq3_mul_fp_by_nonresidue F) s o = cmul F nr s o.
Proof. exact (@gen_cp6_782_fp3_mul_spec). Qed.

Theorem Gen3_bls12_381_fq6_mul_fp2_by_nonresidue_eq :
  forall (T : Type) (F : Fops T),
  ring_theory (f0 F) (f1 F) (fadd F) (fmul F) (fsub F) (fneg F) eq ->
  forall fe : T * T, gen_bls12_381_fq6_mul_fp2_by_nonresidue F fe = mul_nr_bls12_381_fq6 F fe.
Proof. exact (@gen_bls12_381_fq6_mul_fp2_by_nonresidue_eq). Qed.

Theorem Gen3_test_bls12_381_fq6_mul_fp2_by_nonresidue_eq :
  forall (T : Type) (F : Fops T),
  ring_theory (f0 F) (f1 F) (fadd F) (fmul F) (fsub F) (fneg F) eq ->
  forall fe : T * T, gen_test_bls12_381_fq6_mul_fp2_by_nonresidue F fe = mul_nr_bls12_381_fq6 F fe.
Proof. exact (@gen_test_bls12_381_fq6_mul_fp2_by_nonresidue_eq). Qed.

Theorem Gen3_bls12_377_fq6_mul_fp2_by_nonresidue_eq :
  forall (T : Type) (F : Fops T),
  ring_theory (f0 F) (f1 F) (fadd F) (fmul F) (fsub F) (fneg F) eq ->
  forall (fp2_nr_mul : T -> T) (fe : T * T),
  gen_bls12_377_fq6_mul_fp2_by_nonresidue F fp2_nr_mul fe = mul_nr_bls12_377_fq6 fp2_nr_mul fe.
Proof. exact (@gen_bls12_377_fq6_mul_fp2_by_nonresidue_eq). Qed.

Theorem Gen3_bn254_fq6_mul_fp2_by_nonresidue_eq :
  forall (T : Type) (F : Fops T),
  ring_theory (f0 F) (f1 F) (fadd F) (fmul F) (fsub F) (fneg F) eq ->
  forall (fp2_nr_mul : T -> T) (fe : T * T),
  gen_bn254_fq6_mul_fp2_by_nonresidue F fp2_nr_mul fe = mul_nr_bn254_fq6 F fp2_nr_mul fe.
Proof. exact (@gen_bn254_fq6_mul_fp2_by_nonresidue_eq). Qed.

Theorem Gen3_bls12_381_fq6_mul_spec :
  forall (T : Type) (F : Fops T),
  ring_theory (f0 F) (f1 F) (fadd F) (fmul F) (fsub F) (fneg F) eq ->
  forall fe : T * T, gen_bls12_381_fq6_mul_fp2_by_nonresidue F fe = qmul F (fneg F (f1 F)) (f1 F, f1 F) fe.
Proof. exact (@gen_bls12_381_fq6_mul_spec). Qed.

Theorem Gen3_test_bls12_381_fq6_mul_spec :
  forall (T : Type) (F : Fops T),
  ring_theory (f0 F) (f1 F) (fadd F) (fmul F) (fsub F) (fneg F) eq ->
  forall fe : T * T,
  gen_test_bls12_381_fq6_mul_fp2_by_nonresidue F fe = qmul F (fneg F (f1 F)) (f1 F, f1 F) fe.
Proof. exact (@gen_test_bls12_381_fq6_mul_spec). Qed.

Theorem Gen3_bls12_377_fq6_mul_spec :
  forall (T : Type) (F : Fops T),
  ring_theory (f0 F) (f1 F) (fadd F) (fmul F) (fsub F) (fneg F) eq ->
  forall (nr2 : T) (fp2_nr_mul : T -> T) (fe : T * T),
  (forall y : T, fp2_nr_mul y = fmul F nr2 y) ->
  gen_bls12_377_fq6_mul_fp2_by_nonresidue F fp2_nr_mul fe = qmul F nr2 (f0 F, f1 F) fe.
Proof. exact (@gen_bls12_377_fq6_mul_spec). Qed.

Theorem Gen3_bn254_fq6_mul_spec :
  forall (T : Type) (F : Fops T),
  ring_theory (f0 F) (f1 F) (fadd F) (fmul F) (fsub F) (fneg F) eq ->
  forall (nr2 : T) (fp2_nr_mul : T -> T) (fe : T * T),
  (forall y : T, fp2_nr_mul y = fmul F nr2 y) ->
  gen_bn254_fq6_mul_fp2_by_nonresidue F fp2_nr_mul fe =
  qmul F nr2
  (fadd F
  (fadd F (fadd F (fadd F (f1 F) (f1 F)) (fadd F (f1 F) (f1 F)))
  (fadd F (fadd F (f1 F) (f1 F)) (fadd F (f1 F) (f1 F)))) (f1 F), f1 F) fe.
Proof. exact (@gen_bn254_fq6_mul_spec). Qed.

Theorem Gen3_bls12_377_fq6_over_fq2_spec :
  forall (T : Type) (F : Fops T),
  ring_theory (f0 F) (f1 F) (fadd F) (fmul F) (fsub F) (fneg F) eq ->
  forall (nr2 : T) (fe : T * T),
  nr2 = fneg F (fadd F (fadd F (fadd F (f1 F) (f1 F)) (fadd F (f1 F) (f1 F))) (f1 F)) ->
  gen_bls12_377_fq6_mul_fp2_by_nonresidue F (gen_bls12_377_fq2_mul_fp_by_nonresidue F) fe =
  qmul F nr2 (f0 F, f1 F) fe.
Proof. exact (@gen_bls12_377_fq6_over_fq2_spec). Qed.

Theorem Gen3_bn254_fq6_over_fq2_spec :
  forall (T : Type) (F : Fops T),
  ring_theory (f0 F) (f1 F) (fadd F) (fmul F) (fsub F) (fneg F) eq ->
  forall (nr2 : T) (fe : T * T),
  nr2 = fneg F (f1 F) ->
  gen_bn254_fq6_mul_fp2_by_nonresidue F (gen_bn254_fq2_mul_fp_by_nonresidue F) fe =
  qmul F nr2
  (fadd F
  (fadd F (fadd F (fadd F (f1 F) (f1 F)) (fadd F (f1 F) (f1 F)))
  (fadd F (fadd F (f1 F) (f1 F)) (fadd F (f1 F) (f1 F)))) (f1 F), f1 F) fe.
Proof. exact (@gen_bn254_fq6_over_fq2_spec). Qed.

Theorem Gen3_bls12_377_g1_mul_by_a_spec :
  forall (T : Type) (F : Fops T),
  ring_theory (f0 F) (f1 F) (fadd F) (fmul F) (fsub F) (fneg F) eq ->
  forall a e : T, a = f0 F -> gen_bls12_377_g1_mul_by_a F e = fmul F e a.
Proof. exact (@gen_bls12_377_g1_mul_by_a_spec). Qed.

Theorem Gen3_bls12_377_g1_te_mul_by_a_spec :
  forall (T : Type) (F : Fops T),
  ring_theory (f0 F) (f1 F) (fadd F) (fmul F) (fsub F) (fneg F) eq ->
  forall a e : T, a = fneg F (f1 F) -> gen_bls12_377_g1_te_mul_by_a F e = fmul F e a.
Proof. exact (@gen_bls12_377_g1_te_mul_by_a_spec). Qed.

Theorem Gen3_bls12_377_g2_mul_by_a_spec :
  forall (T : Type) (F : Fops T),
  ring_theory (f0 F) (f1 F) (fadd F) (fmul F) (fsub F) (fneg F) eq ->
  forall a e : T, a = f0 F -> gen_bls12_377_g2_mul_by_a F e = fmul F e a.
Proof. exact (@gen_bls12_377_g2_mul_by_a_spec). Qed.

Theorem Gen3_bls12_381_g1_mul_by_a_spec :
  forall (T : Type) (F : Fops T),
  ring_theory (f0 F) (f1 F) (fadd F) (fmul F) (fsub F) (fneg F) eq ->
  forall a e : T, a = f0 F -> gen_bls12_381_g1_mul_by_a F e = fmul F e a.
Proof. exact (@gen_bls12_381_g1_mul_by_a_spec). Qed.

Theorem Gen3_bls12_381_g2_mul_by_a_spec :
  forall (T : Type) (F : Fops T),
  ring_theory (f0 F) (f1 F) (fadd F) (fmul F) (fsub F) (fneg F) eq ->
  forall a e : T, a = f0 F -> gen_bls12_381_g2_mul_by_a F e = fmul F e a.
Proof. exact (@gen_bls12_381_g2_mul_by_a_spec). Qed.

Theorem Gen3_bn254_g1_mul_by_a_spec :
  forall (T : Type) (F : Fops T),
  ring_theory (f0 F) (f1 F) (fadd F) (fmul F) (fsub F) (fneg F) eq ->
  forall a e : T, a = f0 F -> gen_bn254_g1_mul_by_a F e = fmul F e a.
Proof. exact (@gen_bn254_g1_mul_by_a_spec). Qed.

Theorem Gen3_bn254_g2_mul_by_a_spec :
  forall (T : Type) (F : Fops T),
  ring_theory (f0 F) (f1 F) (fadd F) (fmul F) (fsub F) (fneg F) eq ->
  forall a e : T, a = f0 F -> gen_bn254_g2_mul_by_a F e = fmul F e a.
Proof. exact (@gen_bn254_g2_mul_by_a_spec). Qed.

Theorem Gen3_bw6_761_g1_mul_by_a_spec :
  forall (T : Type) (F : Fops T),
  ring_theory (f0 F) (f1 F) (fadd F) (fmul F) (fsub F) (fneg F) eq ->
  forall a e : T, a = f0 F -> gen_bw6_761_g1_mul_by_a F e = fmul F e a.
Proof. exact (@gen_bw6_761_g1_mul_by_a_spec). Qed.

Theorem Gen3_bw6_761_g2_mul_by_a_spec :
  forall (T : Type) (F : Fops T),
  ring_theory (f0 F) (f1 F) (fadd F) (fmul F) (fsub F) (fneg F) eq ->
  forall a e : T, a = f0 F -> gen_bw6_761_g2_mul_by_a F e = fmul F e a.
Proof. exact (@gen_bw6_761_g2_mul_by_a_spec). Qed.

Theorem Gen3_bw6_767_g1_mul_by_a_spec :
  forall (T : Type) (F : Fops T),
  ring_theory (f0 F) (f1 F) (fadd F) (fmul F) (fsub F) (fneg F) eq ->
  forall a e : T, a = f0 F -> gen_bw6_767_g1_mul_by_a F e = fmul F e a.
Proof. exact (@gen_bw6_767_g1_mul_by_a_spec). Qed.

Theorem Gen3_bw6_767_g2_mul_by_a_spec :
  forall (T : Type) (F : Fops T),
  ring_theory (f0 F) (f1 F) (fadd F) (fmul F) (fsub F) (fneg F) eq ->
  forall a e : T, a = f0 F -> gen_bw6_767_g2_mul_by_a F e = fmul F e a.
Proof. exact (@gen_bw6_767_g2_mul_by_a_spec). Qed.

Theorem Gen3_ed25519_mul_by_a_spec :
  forall (T : Type) (F : Fops T),
  ring_theory (f0 F) (f1 F) (fadd F) (fmul F) (fsub F) (fneg F) eq ->
  forall a e : T, a = fneg F (f1 F) -> gen_ed25519_mul_by_a F e = fmul F e a.
Proof. exact (@gen_ed25519_mul_by_a_spec). Qed.

Theorem Gen3_ed_on_bls12_377_mul_by_a_spec :
  forall (T : Type) (F : Fops T),
  ring_theory (f0 F) (f1 F) (fadd F) (fmul F) (fsub F) (fneg F) eq ->
  forall a e : T, a = fneg F (f1 F) -> gen_ed_on_bls12_377_mul_by_a F e = fmul F e a.
Proof. exact (@gen_ed_on_bls12_377_mul_by_a_spec). Qed.

Theorem Gen3_ed_on_bls12_381_mul_by_a_spec :
  forall (T : Type) (F : Fops T),
  ring_theory (f0 F) (f1 F) (fadd F) (fmul F) (fsub F) (fneg F) eq ->
  forall a e : T, a = fneg F (f1 F) -> gen_ed_on_bls12_381_mul_by_a F e = fmul F e a.
Proof. exact (@gen_ed_on_bls12_381_mul_by_a_spec). Qed.

Theorem Gen3_bandersnatch_mul_by_a_spec :
  forall (T : Type) (F : Fops T),
  ring_theory (f0 F) (f1 F) (fadd F) (fmul F) (fsub F) (fneg F) eq ->
  forall a e : T,
  a = fneg F (fadd F (fadd F (fadd F (f1 F) (f1 F)) (fadd F (f1 F) (f1 F))) (f1 F)) ->
  gen_bandersnatch_mul_by_a F e = fmul F e a.
Proof. exact (@gen_bandersnatch_mul_by_a_spec). Qed.

Theorem Gen3_ed_on_bn254_mul_by_a_spec :
  forall (T : Type) (F : Fops T),
  ring_theory (f0 F) (f1 F) (fadd F) (fmul F) (fsub F) (fneg F) eq ->
  forall a e : T, a = f1 F -> gen_ed_on_bn254_mul_by_a F e = fmul F e a.
Proof. exact (@gen_ed_on_bn254_mul_by_a_spec). Qed.

Theorem Gen3_ed_on_cp6_782_mul_by_a_spec :
  forall (T : Type) (F : Fops T),
  ring_theory (f0 F) (f1 F) (fadd F) (fmul F) (fsub F) (fneg F) eq ->
  forall a e : T, a = fneg F (f1 F) -> gen_ed_on_cp6_782_mul_by_a F e = fmul F e a.
Proof. exact (@gen_ed_on_cp6_782_mul_by_a_spec). Qed.

Theorem Gen3_ed_on_mnt4_298_mul_by_a_spec :
  forall (T : Type) (F : Fops T),
  ring_theory (f0 F) (f1 F) (fadd F) (fmul F) (fsub F) (fneg F) eq ->
  forall a e : T, a = fneg F (f1 F) -> gen_ed_on_mnt4_298_mul_by_a F e = fmul F e a.
Proof. exact (@gen_ed_on_mnt4_298_mul_by_a_spec). Qed.

Theorem Gen3_ed_on_mnt4_753_mul_by_a_spec :
  forall (T : Type) (F : Fops T),
  ring_theory (f0 F) (f1 F) (fadd F) (fmul F) (fsub F) (fneg F) eq ->
  forall a e : T, a = fneg F (f1 F) -> gen_ed_on_mnt4_753_mul_by_a F e = fmul F e a.
Proof. exact (@gen_ed_on_mnt4_753_mul_by_a_spec). Qed.

Theorem Gen3_grumpkin_mul_by_a_spec :
  forall (T : Type) (F : Fops T),
  ring_theory (f0 F) (f1 F) (fadd F) (fmul F) (fsub F) (fneg F) eq ->
  forall a e : T, a = f0 F -> gen_grumpkin_mul_by_a F e = fmul F e a.
Proof. exact (@gen_grumpkin_mul_by_a_spec). Qed.

Theorem Gen3_pallas_mul_by_a_spec :
  forall (T : Type) (F : Fops T),
  ring_theory (f0 F) (f1 F) (fadd F) (fmul F) (fsub F) (fneg F) eq ->
  forall a e : T, a = f0 F -> gen_pallas_mul_by_a F e = fmul F e a.
Proof. exact (@gen_pallas_mul_by_a_spec). Qed.

Theorem Gen3_secp256k1_mul_by_a_spec :
  forall (T : Type) (F : Fops T),
  ring_theory (f0 F) (f1 F) (fadd F) (fmul F) (fsub F) (fneg F) eq ->
  forall a e : T, a = f0 F -> gen_secp256k1_mul_by_a F e = fmul F e a.
Proof. exact (@gen_secp256k1_mul_by_a_spec). Qed.

Theorem Gen3_secq256k1_mul_by_a_spec :
  forall (T : Type) (F : Fops T),
  ring_theory (f0 F) (f1 F) (fadd F) (fmul F) (fsub F) (fneg F) eq ->
  forall a e : T, a = f0 F -> gen_secq256k1_mul_by_a F e = fmul F e a.
Proof. exact (@gen_secq256k1_mul_by_a_spec). Qed.

Theorem Gen3_vesta_mul_by_a_spec :
  forall (T : Type) (F : Fops T),
  ring_theory (f0 F) (f1 F) (fadd F) (fmul F) (fsub F) (fneg F) eq ->
  forall a e : T, a = f0 F -> gen_vesta_mul_by_a F e = fmul F e a.
Proof. exact (@gen_vesta_mul_by_a_spec). Qed.

Theorem Gen3_test_bn384_g1_mul_by_a_spec :
  forall (T : Type) (F : Fops T),
  ring_theory (f0 F) (f1 F) (fadd F) (fmul F) (fsub F) (fneg F) eq ->
  forall a e : T, a = f0 F -> gen_test_bn384_g1_mul_by_a F e = fmul F e a.
Proof. exact (@gen_test_bn384_g1_mul_by_a_spec). Qed.

Theorem Gen3_test_secp256k1_mul_by_a_spec :
  forall (T : Type) (F : Fops T),
  ring_theory (f0 F) (f1 F) (fadd F) (fmul F) (fsub F) (fneg F) eq ->
  forall a e : T, a = f0 F -> gen_test_secp256k1_mul_by_a F e = fmul F e a.
Proof. exact (@gen_test_secp256k1_mul_by_a_spec). Qed.

Theorem Gen3_test_bls12_381_g1_mul_by_a_spec :
  forall (T : Type) (F : Fops T),
  ring_theory (f0 F) (f1 F) (fadd F) (fmul F) (fsub F) (fneg F) eq ->
  forall a e : T, a = f0 F -> gen_test_bls12_381_g1_mul_by_a F e = fmul F e a.
Proof. exact (@gen_test_bls12_381_g1_mul_by_a_spec). Qed.

Theorem Gen3_test_bls12_381_g2_mul_by_a_spec :
  forall (T : Type) (F : Fops T),
  ring_theory (f0 F) (f1 F) (fadd F) (fmul F) (fsub F) (fneg F) eq ->
  forall a e : T, a = f0 F -> gen_test_bls12_381_g2_mul_by_a F e = fmul F e a.
Proof. exact (@gen_test_bls12_381_g2_mul_by_a_spec). Qed.

Theorem Gen3_test_ed_on_bls12_381_mul_by_a_spec :
  forall (T : Type) (F : Fops T),
  ring_theory (f0 F) (f1 F) (fadd F) (fmul F) (fsub F) (fneg F) eq ->
  forall a e : T, a = fneg F (f1 F) -> gen_test_ed_on_bls12_381_mul_by_a F e = fmul F e a.
Proof. exact (@gen_test_ed_on_bls12_381_mul_by_a_spec). Qed.

Theorem Gen3_mnt4_298_g2_mul_by_a_spec :
  forall (T : Type) (F : Fops T),
  ring_theory (f0 F) (f1 F) (fadd F) (fmul F) (fsub F) (fneg F) eq ->
  forall (nr k0 k1 : T) (e : T * T),
  k1 = k0 -> gen_mnt4_298_g2_mul_by_a F k0 k1 e = fmul (QuadOps F nr) e (k0, f0 F).
Proof. exact (@gen_mnt4_298_g2_mul_by_a_spec). Qed.

Theorem Gen3_mnt4_753_g2_mul_by_a_spec :
  forall (T : Type) (F : Fops T),
  ring_theory (f0 F) (f1 F) (fadd F) (fmul F) (fsub F) (fneg F) eq ->
  forall (nr k0 k1 : T) (e : T * T),
  k1 = k0 -> gen_mnt4_753_g2_mul_by_a F k0 k1 e = fmul (QuadOps F nr) e (k0, f0 F).
Proof. exact (@gen_mnt4_753_g2_mul_by_a_spec). Qed.

Theorem Gen3_mnt6_298_g2_mul_by_a_spec :
  forall (T : Type) (F : Fops T),
  ring_theory (f0 F) (f1 F) (fadd F) (fmul F) (fsub F) (fneg F) eq ->
  forall (nr k0 k1 k2 : T) (e : T * T * T),
  k0 = fmul F nr k2 ->
  k1 = fmul F nr k2 -> gen_mnt6_298_g2_mul_by_a F k0 k1 k2 e = fmul (CubicOps F nr) e (f0 F, f0 F, k2).
Proof. exact (@gen_mnt6_298_g2_mul_by_a_spec). Qed.

Theorem Gen3_mnt6_753_g2_mul_by_a_spec :
  forall (T : Type) (F : Fops T),
  ring_theory (f0 F) (f1 F) (fadd F) (fmul F) (fsub F) (fneg F) eq ->
  forall (nr k0 k1 k2 : T) (e : T * T * T),
  k0 = fmul F nr k2 ->
  k1 = fmul F nr k2 -> gen_mnt6_753_g2_mul_by_a F k0 k1 k2 e = fmul (CubicOps F nr) e (f0 F, f0 F, k2).
Proof. exact (@gen_mnt6_753_g2_mul_by_a_spec). Qed.

Theorem Gen3_bls12_381_g1_double_correct :
  forall (T : Type) (F : Fops T),
  good_field F ->
  forall a : T,
  a = f0 F ->
  forall P : T * T * T,
  sw_to_affine F (gen_sw_double_in_place F a (gen_bls12_381_g1_mul_by_a F) P) =
  aff_add_sw F a (sw_to_affine F P) (sw_to_affine F P).
Proof. exact (@gen_bls12_381_g1_double_correct). Qed.

Theorem Gen3_bls12_381_g1_add_correct :
  forall (T : Type) (F : Fops T),
  good_field F ->
  forall a b : T,
  a = f0 F ->
  forall P Q : sw_jac,
  jac_on F a b P ->
  jac_on F a b Q ->
  sw_to_affine F (gen_sw_add_assign F a (gen_bls12_381_g1_mul_by_a F) P Q) =
  aff_add_sw F a (sw_to_affine F P) (sw_to_affine F Q).
Proof. exact (@gen_bls12_381_g1_add_correct). Qed.

Theorem Gen3_ed_on_bls12_381_add_correct :
  forall (T : Type) (F : Fops T),
  good_field F ->
  forall a d : T,
  a = fneg F (f1 F) ->
  forall P Q : te_ext,
  te_valid F P ->
  te_valid F Q ->
  te_dens_ok F d (te_to_affine F P) (te_to_affine F Q) ->
  te_valid F (gen_te_add_assign F d (gen_ed_on_bls12_381_mul_by_a F) P Q) /\
  te_to_affine F (gen_te_add_assign F d (gen_ed_on_bls12_381_mul_by_a F) P Q) =
  aff_add_te F a d (te_to_affine F P) (te_to_affine F Q).
Proof. exact (@gen_ed_on_bls12_381_add_correct). Qed.

Theorem Gen3_bandersnatch_add_correct :
  forall (T : Type) (F : Fops T),
  good_field F ->
  forall a d : T,
  a = fneg F (fadd F (fadd F (fadd F (f1 F) (f1 F)) (fadd F (f1 F) (f1 F))) (f1 F)) ->
  forall P Q : te_ext,
  te_valid F P ->
  te_valid F Q ->
  te_dens_ok F d (te_to_affine F P) (te_to_affine F Q) ->
  te_valid F (gen_te_add_assign F d (gen_bandersnatch_mul_by_a F) P Q) /\
  te_to_affine F (gen_te_add_assign F d (gen_bandersnatch_mul_by_a F) P Q) =
  aff_add_te F a d (te_to_affine F P) (te_to_affine F Q).
Proof. exact (@gen_bandersnatch_add_correct). Qed.

Theorem Gen3_cubic_norm_eq :
  forall (T : Type) (F : Fops T),
  ring_theory (f0 F) (f1 F) (fadd F) (fmul F) (fsub F) (fneg F) eq ->
  forall (mul_nr : T -> T) (frob : nat -> T * T * T -> T * T * T) (s : T * T * T),
  gen_cubic_norm F mul_nr frob s = norm_as_gen (cubic_norm F mul_nr (frob (fdeg F)) (frob (2 * fdeg F)%nat) s).
Proof. exact (@gen_cubic_norm_eq). Qed.

Theorem Gen3_fp2_cyclotomic_inverse_eq :
  forall (T : Type) (F : Fops T),
  ring_theory (f0 F) (f1 F) (fadd F) (fmul F) (fsub F) (fneg F) eq ->
  forall a : T * T, gen_fp2_cyclotomic_inverse_in_place F a = quad_cyclotomic_inverse F a.
Proof. exact (@gen_fp2_cyclotomic_inverse_eq). Qed.

Theorem Gen3_fp4_cyclotomic_inverse_eq :
  forall (T : Type) (F : Fops T),
  ring_theory (f0 F) (f1 F) (fadd F) (fmul F) (fsub F) (fneg F) eq ->
  forall a : T * T, gen_fp4_cyclotomic_inverse_in_place F a = quad_cyclotomic_inverse F a.
Proof. exact (@gen_fp4_cyclotomic_inverse_eq). Qed.

Theorem Gen3_fp6_2over3_cyclotomic_inverse_eq :
  forall (T : Type) (F : Fops T),
  ring_theory (f0 F) (f1 F) (fadd F) (fmul F) (fsub F) (fneg F) eq ->
  forall a : T * T, gen_fp6_2over3_cyclotomic_inverse_in_place F a = quad_cyclotomic_inverse F a.
Proof. exact (@gen_fp6_2over3_cyclotomic_inverse_eq). Qed.

Theorem Gen3_fp12_cyclotomic_inverse_eq :
  forall (T : Type) (F : Fops T),
  ring_theory (f0 F) (f1 F) (fadd F) (fmul F) (fsub F) (fneg F) eq ->
  forall a : T * T, gen_fp12_cyclotomic_inverse_in_place F a = quad_cyclotomic_inverse F a.
Proof. exact (@gen_fp12_cyclotomic_inverse_eq). Qed.

Theorem Gen3_fp12_cyclotomic_inverse_spec :
  forall (T : Type) (F : Fops T),
  ring_theory (f0 F) (f1 F) (fadd F) (fmul F) (fsub F) (fneg F) eq ->
  forall (N : nrops T) (a : T * T),
  nrops_ok F N ->
  qmul F (nr_const N) a (quad_conjugate F a) = (f1 F, f0 F) ->
  forall r : T * T,
  gen_fp12_cyclotomic_inverse_in_place F a = Some r -> qmul F (nr_const N) a r = (f1 F, f0 F).
Proof. exact (@gen_fp12_cyclotomic_inverse_spec). Qed.

Theorem Gen3_fp2_mul_assign_by_fp_eq :
  forall (T : Type) (F : Fops T),
  ring_theory (f0 F) (f1 F) (fadd F) (fmul F) (fsub F) (fneg F) eq ->
  forall (a : T * T) (e : T), gen_fp2_mul_assign_by_fp F a e = quad_mul_by_basefield F a e.
Proof. exact (@gen_fp2_mul_assign_by_fp_eq). Qed.

Theorem Gen3_fp3_mul_assign_by_fp_eq :
  forall (T : Type) (F : Fops T),
  ring_theory (f0 F) (f1 F) (fadd F) (fmul F) (fsub F) (fneg F) eq ->
  forall (s : T * T * T) (e : T), gen_fp3_mul_assign_by_fp F s e = cubic_mul_by_basefield F s e.
Proof. exact (@gen_fp3_mul_assign_by_fp_eq). Qed.

Theorem Gen3_fp4_mul_by_fp_eq :
  forall (T : Type) (F : Fops T),
  ring_theory (f0 F) (f1 F) (fadd F) (fmul F) (fsub F) (fneg F) eq ->
  forall (s : T * T * (T * T)) (e : T), gen_fp4_mul_by_fp F s e = fp4_mulfp F s e.
Proof. exact (@gen_fp4_mul_by_fp_eq). Qed.

Theorem Gen3_fp4_mul_by_fp2_eq :
  forall (T : Type) (F : Fops T),
  ring_theory (f0 F) (f1 F) (fadd F) (fmul F) (fsub F) (fneg F) eq ->
  forall (a : T * T) (e : T), gen_fp4_mul_by_fp2 F a e = quad_mul_by_basefield F a e.
Proof. exact (@gen_fp4_mul_by_fp2_eq). Qed.

Theorem Gen3_fp6_3over2_mul_assign_by_fp2_eq :
  forall (T : Type) (F : Fops T),
  ring_theory (f0 F) (f1 F) (fadd F) (fmul F) (fsub F) (fneg F) eq ->
  forall (s : T * T * T) (e : T), gen_fp6_3over2_mul_assign_by_fp2 F s e = cubic_mul_by_basefield F s e.
Proof. exact (@gen_fp6_3over2_mul_assign_by_fp2_eq). Qed.

Theorem Gen3_fp6_3over2_mul_by_fp2_eq :
  forall (T : Type) (F : Fops T),
  ring_theory (f0 F) (f1 F) (fadd F) (fmul F) (fsub F) (fneg F) eq ->
  forall (s : T * T * T) (e : T), gen_fp6_3over2_mul_by_fp2 F s e = cubic_mul_by_basefield F s e.
Proof. exact (@gen_fp6_3over2_mul_by_fp2_eq). Qed.

Theorem Gen3_fp6_3over2_mul_by_fp_eq :
  forall (T : Type) (F : Fops T),
  ring_theory (f0 F) (f1 F) (fadd F) (fmul F) (fsub F) (fneg F) eq ->
  forall (s : T * T * (T * T) * (T * T)) (e : T), gen_fp6_3over2_mul_by_fp F s e = fp6a_mulfp F s e.
Proof. exact (@gen_fp6_3over2_mul_by_fp_eq). Qed.

Theorem Gen3_fp12_mul_by_fp_eq :
  forall (T : Type) (F : Fops T),
  ring_theory (f0 F) (f1 F) (fadd F) (fmul F) (fsub F) (fneg F) eq ->
  forall (s : T * T * (T * T) * (T * T) * (T * T * (T * T) * (T * T))) (e : T),
  gen_fp12_mul_by_fp F s e = fp12_mulfp F s e.
Proof. exact (@gen_fp12_mul_by_fp_eq). Qed.

Theorem Gen3_fp4_mul_by_fp2_spec :
  forall (T : Type) (F : Fops T),
  ring_theory (f0 F) (f1 F) (fadd F) (fmul F) (fsub F) (fneg F) eq ->
  forall (N : nrops T) (a : T * T) (e : T), gen_fp4_mul_by_fp2 F a e = qmul F (nr_const N) a (e, f0 F).
Proof. exact (@gen_fp4_mul_by_fp2_spec). Qed.

Theorem Gen3_fp6_3over2_mul_by_fp2_spec :
  forall (T : Type) (F : Fops T),
  ring_theory (f0 F) (f1 F) (fadd F) (fmul F) (fsub F) (fneg F) eq ->
  forall (nr : T) (s : T * T * T) (e : T), gen_fp6_3over2_mul_by_fp2 F s e = cmul F nr s (e, f0 F, f0 F).
Proof. exact (@gen_fp6_3over2_mul_by_fp2_spec). Qed.

Theorem Gen3_fp2_frob_coeff_eq :
  forall (T : Type) (F : Fops T),
  ring_theory (f0 F) (f1 F) (fadd F) (fmul F) (fsub F) (fneg F) eq ->
  forall (d : T) (tab : list T) (fe : T) (k : Z),
  gen_fp2_mul_base_field_by_frob_coeff F (tabfun d tab) fe k = fmul F fe (tabsel d tab 2 k).
Proof. exact (@gen_fp2_frob_coeff_eq). Qed.

Theorem Gen3_fp3_frob_coeff_eq :
  forall (T : Type) (F : Fops T),
  ring_theory (f0 F) (f1 F) (fadd F) (fmul F) (fsub F) (fneg F) eq ->
  forall (d : T) (tab1 tab2 : list T) (x1 x2 : T) (k : Z),
  gen_fp3_mul_base_field_by_frob_coeff F (tabfun d tab1) (tabfun d tab2) x1 x2 k =
  (fmul F x1 (tabsel d tab1 3 k), fmul F x2 (tabsel d tab2 3 k)).
Proof. exact (@gen_fp3_frob_coeff_eq). Qed.

Theorem Gen3_fp4_frob_coeff_eq :
  forall (T : Type) (F : Fops T),
  ring_theory (f0 F) (f1 F) (fadd F) (fmul F) (fsub F) (fneg F) eq ->
  forall (d : T) (tab : list T) (fe : T * T) (k : Z),
  gen_fp4_mul_base_field_by_frob_coeff F (tabfun d tab) fe k = quad_mul_by_basefield F fe (tabsel d tab 4 k).
Proof. exact (@gen_fp4_frob_coeff_eq). Qed.

Theorem Gen3_fp6_2over3_frob_coeff_eq :
  forall (T : Type) (F : Fops T),
  ring_theory (f0 F) (f1 F) (fadd F) (fmul F) (fsub F) (fneg F) eq ->
  forall (d : T) (tab : list T) (fe : T * T * T) (k : Z),
  gen_fp6_2over3_mul_base_field_by_frob_coeff F (tabfun d tab) fe k =
  cubic_mul_by_basefield F fe (tabsel d tab 6 k).
Proof. exact (@gen_fp6_2over3_frob_coeff_eq). Qed.

Theorem Gen3_fp6_3over2_frob_coeff_eq :
  forall (T : Type) (F : Fops T),
  ring_theory (f0 F) (f1 F) (fadd F) (fmul F) (fsub F) (fneg F) eq ->
  forall (d : T) (tab1 tab2 : list T) (x1 x2 : T) (k : Z),
  gen_fp6_3over2_mul_base_field_by_frob_coeff F (tabfun d tab1) (tabfun d tab2) x1 x2 k =
  (fmul F x1 (tabsel d tab1 6 k), fmul F x2 (tabsel d tab2 6 k)).
Proof. exact (@gen_fp6_3over2_frob_coeff_eq). Qed.

Theorem Gen3_fp12_frob_coeff_eq :
  forall (T : Type) (F : Fops T),
  ring_theory (f0 F) (f1 F) (fadd F) (fmul F) (fsub F) (fneg F) eq ->
  forall (d : T) (tab : list T) (fe : T * T * T) (k : Z),
  gen_fp12_mul_base_field_by_frob_coeff F (tabfun d tab) fe k =
  cubic_mul_by_basefield F fe (tabsel d tab 12 k).
Proof. exact (@gen_fp12_frob_coeff_eq). Qed.

Theorem Gen3_fp2_frobenius_eq :
  forall (T : Type) (F : Fops T),
  ring_theory (f0 F) (f1 F) (fadd F) (fmul F) (fsub F) (fneg F) eq ->
  forall (tab : list T) (k : Z) (x : T * T),
  gen_quad_frobenius_map_in_place F (fun y : T => y)
  (fun y : T => gen_fp2_mul_base_field_by_frob_coeff F (tabfun (f0 F) tab) y k) x =
  fp2_frob F tab k x.
Proof. exact (@gen_fp2_frobenius_eq). Qed.

Theorem Gen3_fp3_frobenius_eq :
  forall (T : Type) (F : Fops T),
  ring_theory (f0 F) (f1 F) (fadd F) (fmul F) (fsub F) (fneg F) eq ->
  forall (tab1 tab2 : list T) (k : Z) (x : T * T * T),
  gen_cubic_frobenius_map_in_place F (fun y : T => y)
  (fun y : T => fst (gen_fp3_mul_base_field_by_frob_coeff F (tabfun (f0 F) tab1) (tabfun (f0 F) tab2) y y k))
  (fun y : T => snd (gen_fp3_mul_base_field_by_frob_coeff F (tabfun (f0 F) tab1) (tabfun (f0 F) tab2) y y k))
  x = fp3_frob F tab1 tab2 k x.
Proof. exact (@gen_fp3_frobenius_eq). Qed.

Theorem Gen3_sw_sub_assign_eq :
  forall (T : Type) (F : Fops T) (a : T),
  ring_theory (f0 F) (f1 F) (fadd F) (fmul F) (fsub F) (fneg F) eq ->
  forall mba : T -> T,
  (forall e : T, mba e = sw_mul_by_a F a e) ->
  forall P Q : T * T * T, gen_sw_sub_assign F a mba P Q = sw_sub F a P Q.
Proof. exact (@gen_sw_sub_assign_eq). Qed.

Theorem Gen3_sw_sub_assign_affine_eq :
  forall (T : Type) (F : Fops T) (a : T),
  ring_theory (f0 F) (f1 F) (fadd F) (fmul F) (fsub F) (fneg F) eq ->
  forall mba : T -> T,
  (forall e : T, mba e = sw_mul_by_a F a e) ->
  forall (P : T * T * T) (A : option (T * T)),
  gen_sw_sub_assign_affine F a mba P (sw_aff_repr F A) = sw_msub F a P A.
Proof. exact (@gen_sw_sub_assign_affine_eq). Qed.

Theorem Gen3_sw_aff_mul_by_cofactor_eq :
  forall (T : Type) (F : Fops T) (a : T),
  ring_theory (f0 F) (f1 F) (fadd F) (fmul F) (fsub F) (fneg F) eq ->
  forall mula : T * T * bool -> Z -> T * T * T,
  (forall (A : option (T * T)) (n : Z), mula (sw_aff_repr F A) n = SubgroupModel.sw_mul_affine F a A n) ->
  forall (hl : list Z) (A : option (T * T)),
  gen_sw_aff_mul_by_cofactor F (SubgroupModel.limbs_val hl) mula (sw_aff_repr F A) =
  GRet (sw_aff_repr F (SubgroupModel.sw_mul_by_cofactor F a hl A)).
Proof. exact (@gen_sw_aff_mul_by_cofactor_eq). Qed.

Theorem Gen3_sw_default_clear_cofactor_eq :
  forall (T : Type) (F : Fops T) (a : T),
  ring_theory (f0 F) (f1 F) (fadd F) (fmul F) (fsub F) (fneg F) eq ->
  forall mula : T * T * bool -> Z -> T * T * T,
  (forall (A : option (T * T)) (n : Z), mula (sw_aff_repr F A) n = SubgroupModel.sw_mul_affine F a A n) ->
  forall (hl : list Z) (A : option (T * T)),
  gen_sw_default_clear_cofactor F (SubgroupModel.limbs_val hl) mula (sw_aff_repr F A) =
  GRet (sw_aff_repr F (SubgroupModel.sw_clear_cofactor_default F a hl A)).
Proof. exact (@gen_sw_default_clear_cofactor_eq). Qed.

Theorem Gen3_bls12_381_g2_clear_cofactor_eq :
  forall (T : Type) (F : Fops T) (a : T),
  ring_theory (f0 F) (f1 F) (fadd F) (fmul F) (fsub F) (fneg F) eq ->
  forall mba : T -> T,
  (forall e : T, mba e = sw_mul_by_a F a e) ->
  forall mula : T * T * bool -> Z -> T * T * T,
  (forall (A : option (T * T)) (n : Z), mula (sw_aff_repr F A) n = SubgroupModel.sw_mul_affine F a A n) ->
  forall mulp : T * T * T -> Z -> T * T * T,
  (forall (P : T * T * T) (n : Z), mulp P n = SubgroupModel.sw_mul_projective F a P n) ->
  forall (psi : option (T * T) -> option (T * T)) (psig : T * T * bool -> T * T * bool),
  (forall A : option (T * T), psig (sw_aff_repr F A) = sw_aff_repr F (psi A)) ->
  forall (psi2c : T) (psi2g : T * T * T -> T * T * T),
  (forall P : T * T * T, psi2g P = (let '(x, y, z) := P in (fmul F x psi2c, fneg F y, z))) ->
  forall (xabs : Z) (A : option (T * T)),
  gen_bls12_381_g2_clear_cofactor F xabs mula mulp psig psi2g a mba (sw_aff_repr F A) =
  GRet (sw_aff_repr F (SubgroupModel.bp_clear F a psi psi2c xabs true A)).
Proof. exact (@gen_bls12_381_g2_clear_cofactor_eq). Qed.

Theorem Gen3_te_sub_assign_eq :
  forall (T : Type) (F : Fops T) (a d : T),
  ring_theory (f0 F) (f1 F) (fadd F) (fmul F) (fsub F) (fneg F) eq ->
  forall mba : T -> T,
  (forall e : T, mba e = fmul F e a) ->
  forall P Q : T * T * T * T, gen_te_sub_assign F d mba P Q = te_sub F a d P Q.
Proof. exact (@gen_te_sub_assign_eq). Qed.

Theorem Gen3_te_sub_assign_affine_eq :
  forall (T : Type) (F : Fops T) (a d : T),
  ring_theory (f0 F) (f1 F) (fadd F) (fmul F) (fsub F) (fneg F) eq ->
  forall mba : T -> T,
  (forall e : T, mba e = fmul F e a) ->
  forall (P : T * T * T * T) (A : T * T), gen_te_sub_assign_affine F d mba P A = te_msub F a d P A.
Proof. exact (@gen_te_sub_assign_affine_eq). Qed.

Theorem Gen3_te_mul_by_cofactor_to_group_eq :
  forall (T : Type) (F : Fops T) (a d : T),
  ring_theory (f0 F) (f1 F) (fadd F) (fmul F) (fsub F) (fneg F) eq ->
  forall (hl : list Z) (A : T * T),
  gen_te_aff_mul_by_cofactor_to_group F (SubgroupModel.limbs_val hl) (SubgroupModel.te_mul_affine F a d) A =
  SubgroupModel.te_mul_by_cofactor_to_group F a d hl A.
Proof. exact (@gen_te_mul_by_cofactor_to_group_eq). Qed.

Theorem Gen3_te_aff_mul_by_cofactor_eq :
  forall (T : Type) (F : Fops T) (a d : T),
  ring_theory (f0 F) (f1 F) (fadd F) (fmul F) (fsub F) (fneg F) eq ->
  good_field F ->
  forall (hl : list Z) (A : T * T),
  gen_te_aff_mul_by_cofactor F (SubgroupModel.limbs_val hl) (SubgroupModel.te_mul_affine F a d) A =
  te_opt_as_gen (SubgroupModel.te_mul_by_cofactor F a d hl A).
Proof. exact (@gen_te_aff_mul_by_cofactor_eq). Qed.

Theorem Gen3_te_default_clear_cofactor_eq :
  forall (T : Type) (F : Fops T) (a d : T),
  ring_theory (f0 F) (f1 F) (fadd F) (fmul F) (fsub F) (fneg F) eq ->
  good_field F ->
  forall (hl : list Z) (A : T * T),
  gen_te_default_clear_cofactor F (SubgroupModel.limbs_val hl) (SubgroupModel.te_mul_affine F a d) A =
  te_opt_as_gen (SubgroupModel.te_clear_cofactor_default F a d hl A).
Proof. exact (@gen_te_default_clear_cofactor_eq). Qed.

Theorem Gen3_swflag_of_as_gen :
  forall f : FpCodec.swflag, swflag_of_gen (swflag_as_gen f) = f.
Proof. exact (@swflag_of_as_gen). Qed.

Theorem Gen3_teflag_of_as_gen :
  forall f : FpCodec.teflag, teflag_of_gen (teflag_as_gen f) = f.
Proof. exact (@teflag_of_as_gen). Qed.

Theorem Gen3_swflags_infinity_eq :
  forall (K : Type) (F : Fops K), gen_swflags_infinity F = swflag_as_gen FpCodec.PointAtInfinity.
Proof. exact (@gen_swflags_infinity_eq). Qed.

Theorem Gen3_sw_serialize_with_mode_eq :
  forall (K : Type) (F : Fops K) (C : FpCodec.Codec K),
  ring_theory (f0 F) (f1 F) (fadd F) (fmul F) (fsub F) (fneg F) eq ->
  forall (cmp : K -> K -> comparison) (x y : K) (inf compress : bool),
  items_bytes (sw_item_bytes C)
  (gen_sw_serialize_with_mode F (PointCodec.flt cmp) (PointCodec.fle cmp) (x, y, inf) [] compress) =
  PointCodec.sw_enc F C cmp {| PointCodec.sx := x; PointCodec.sy := y; PointCodec.sinf := inf |} compress.
Proof. exact (@gen_sw_serialize_with_mode_eq). Qed.

Theorem Gen3_te_serialize_with_mode_eq :
  forall (K : Type) (F : Fops K) (C : FpCodec.Codec K),
  ring_theory (f0 F) (f1 F) (fadd F) (fmul F) (fsub F) (fneg F) eq ->
  forall (cmp : K -> K -> comparison) (x y : K) (compress : bool),
  items_bytes (te_item_bytes C)
  (gen_te_serialize_with_mode F (PointCodec.flt cmp) (PointCodec.fle cmp) (x, y) [] compress) =
  PointCodec.te_enc F C cmp {| PointCodec.tx := x; PointCodec.ty := y |} compress.
Proof. exact (@gen_te_serialize_with_mode_eq). Qed.

Theorem Gen3_sw_serialized_size_eq :
  forall (K : Type) (F : Fops K) (C : FpCodec.Codec K) (compress : bool),
  gen_sw_serialized_size F (FpCodec.c_size C FpCodec.SWFlags) (FpCodec.c_sizep C) compress =
  PointCodec.sw_size C compress.
Proof. exact (@gen_sw_serialized_size_eq). Qed.

Theorem Gen3_te_serialized_size_eq :
  forall (K : Type) (F : Fops K) (C : FpCodec.Codec K) (compress : bool),
  gen_te_serialized_size F (FpCodec.c_size C FpCodec.TEFlags) (FpCodec.c_sizep C) compress =
  PointCodec.te_size C compress.
Proof. exact (@gen_te_serialized_size_eq). Qed.
