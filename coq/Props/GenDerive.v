(* GenDerive -- pinned statements about the code that #[derive(MontConfig)] GENERATES (translated from the macro
   expansion on every check run: lib/expand_derive.py + lib/xlate_limb.py -> GenLimb/GenDerive.v).
   `GenDerive_<field>_<f>_eq`: generated definition = C01 derive-flavour model at the literal modulus, all limb values.
   `GenDerive_<field>_<f>_spec`: composed with the all-N theorems of C01, modulus as a decimal literal. *)
From V Require Import Base.Word C15.GenArith C15.BigIntModel C01.InvModel C01.MontModel C01.MontProofs C01.SopProofs
  GenLimb.GenLimb GenLimb.GenLimbSpecs GenLimb.GenDerive GenLimb.GenDeriveSpecs.

Theorem GenDerive_mul_assign_w_derived_eq : forall m a b, wf m -> wf a -> wf b ->
  length a = length m -> length b = length m -> val m mod 2 = 1 -> val a < val m ->
  mul_assign_w (nocarry_macro m) (has_spare_bit m) m a b = mul_assign true m a b.
Proof. exact mul_assign_w_derived_eq. Qed.


(* ================= R62 (N = 1, 62 bits) ================= *)
Theorem GenDerive_r62_modulus_val :
  val gen_r62_modulus = gen_r62_modulus_attr /\ length gen_r62_modulus = 1%nat /\ wf gen_r62_modulus /\ gen_r62_modulus_attr mod 2 = 1 /\
  gen_r62_modulus_attr = 2849647038907036733.
Proof. exact gen_r62_modulus_val. Qed.
Theorem GenDerive_r62_flags :
  has_spare_bit gen_r62_modulus = true /\ nocarry_macro gen_r62_modulus = true.
Proof. exact gen_r62_flags. Qed.
Theorem GenDerive_r62_add_with_carry_eq : forall a0 b0,
  gen_r62_add_with_carry a0 b0 = add_with_carry [a0] [b0].
Proof. exact gen_r62_add_with_carry_eq. Qed.
Theorem GenDerive_r62_sub_with_borrow_eq : forall a0 b0,
  gen_r62_sub_with_borrow a0 b0 = sub_with_borrow [a0] [b0].
Proof. exact gen_r62_sub_with_borrow_eq. Qed.
Theorem GenDerive_r62_subtract_modulus_eq : forall a0,
  gen_r62_subtract_modulus a0 = subtract_modulus gen_r62_modulus [a0].
Proof. exact gen_r62_subtract_modulus_eq. Qed.
Theorem GenDerive_r62_subtract_modulus_with_carry_eq : forall a0 carry,
  gen_r62_subtract_modulus_with_carry a0 carry = subtract_modulus_with_carry gen_r62_modulus [a0] carry.
Proof. exact gen_r62_subtract_modulus_with_carry_eq. Qed.
Theorem GenDerive_r62_add_assign_eq : forall a0 b0,
  gen_r62_add_assign a0 b0 = add_assign gen_r62_modulus [a0] [b0].
Proof. exact gen_r62_add_assign_eq. Qed.
Theorem GenDerive_r62_sub_assign_eq : forall a0 b0,
  gen_r62_sub_assign a0 b0 = sub_assign gen_r62_modulus [a0] [b0].
Proof. exact gen_r62_sub_assign_eq. Qed.
Theorem GenDerive_r62_double_in_place_eq : forall a0,
  gen_r62_double_in_place a0 = double_in_place gen_r62_modulus [a0].
Proof. exact gen_r62_double_in_place_eq. Qed.
Theorem GenDerive_r62_neg_in_place_eq : forall a0,
  gen_r62_neg_in_place a0 = neg_in_place gen_r62_modulus [a0].
Proof. exact gen_r62_neg_in_place_eq. Qed.
Theorem GenDerive_r62_mul_assign_eq : forall a0 b0,
  gen_r62_mul_assign (inv_of gen_r62_modulus) a0 b0 = mul_assign_w (nocarry_macro gen_r62_modulus) (has_spare_bit gen_r62_modulus) gen_r62_modulus [a0] [b0].
Proof. exact gen_r62_mul_assign_eq. Qed.
Theorem GenDerive_r62_square_in_place_eq : forall a0,
  gen_r62_square_in_place (inv_of gen_r62_modulus) a0 = mul_assign_w (nocarry_macro gen_r62_modulus) (has_spare_bit gen_r62_modulus) gen_r62_modulus [a0] [a0].
Proof. exact gen_r62_square_in_place_eq. Qed.
Theorem GenDerive_r62_add_assign_spec : forall a0 b0,
  wf [a0] -> val [a0] < gen_r62_modulus_attr -> wf [b0] -> val [b0] < gen_r62_modulus_attr ->
  let r := gen_r62_add_assign a0 b0 in
  wf r /\ length r = 1%nat /\ val r < gen_r62_modulus_attr /\ val r = (val [a0] + val [b0]) mod gen_r62_modulus_attr.
Proof. exact gen_r62_add_assign_spec. Qed.
Theorem GenDerive_r62_sub_assign_spec : forall a0 b0,
  wf [a0] -> val [a0] < gen_r62_modulus_attr -> wf [b0] -> val [b0] < gen_r62_modulus_attr ->
  let r := gen_r62_sub_assign a0 b0 in
  wf r /\ length r = 1%nat /\ val r < gen_r62_modulus_attr /\ val r = (val [a0] - val [b0]) mod gen_r62_modulus_attr.
Proof. exact gen_r62_sub_assign_spec. Qed.
Theorem GenDerive_r62_double_in_place_spec : forall a0,
  wf [a0] -> val [a0] < gen_r62_modulus_attr ->
  let r := gen_r62_double_in_place a0 in
  wf r /\ length r = 1%nat /\ val r < gen_r62_modulus_attr /\ val r = (2 * val [a0]) mod gen_r62_modulus_attr.
Proof. exact gen_r62_double_in_place_spec. Qed.
Theorem GenDerive_r62_neg_in_place_spec : forall a0,
  wf [a0] -> val [a0] < gen_r62_modulus_attr ->
  let r := gen_r62_neg_in_place a0 in
  wf r /\ length r = 1%nat /\ val r < gen_r62_modulus_attr /\ val r = (- val [a0]) mod gen_r62_modulus_attr.
Proof. exact gen_r62_neg_in_place_spec. Qed.
Theorem GenDerive_r62_mul_assign_spec : forall a0 b0,
  wf [a0] -> val [a0] < gen_r62_modulus_attr -> wf [b0] -> val [b0] < gen_r62_modulus_attr ->
  let r := gen_r62_mul_assign (inv_of gen_r62_modulus) a0 b0 in
  wf r /\ length r = 1%nat /\ val r < gen_r62_modulus_attr /\ (val r * Wn 1) mod gen_r62_modulus_attr = (val [a0] * val [b0]) mod gen_r62_modulus_attr.
Proof. exact gen_r62_mul_assign_spec. Qed.
Theorem GenDerive_r62_square_in_place_spec : forall a0,
  wf [a0] -> val [a0] < gen_r62_modulus_attr ->
  let r := gen_r62_square_in_place (inv_of gen_r62_modulus) a0 in
  wf r /\ length r = 1%nat /\ val r < gen_r62_modulus_attr /\ (val r * Wn 1) mod gen_r62_modulus_attr = (val [a0] * val [a0]) mod gen_r62_modulus_attr.
Proof. exact gen_r62_square_in_place_spec. Qed.
Theorem GenDerive_r62_mul_assign_model : forall a0 b0,
  wf [a0] -> wf [b0] -> val [a0] < gen_r62_modulus_attr ->
  gen_r62_mul_assign (inv_of gen_r62_modulus) a0 b0 = mul_assign true gen_r62_modulus [a0] [b0].
Proof. exact gen_r62_mul_assign_model. Qed.
Theorem GenDerive_r62_square_in_place_model : forall a0,
  wf [a0] -> val [a0] < gen_r62_modulus_attr ->
  gen_r62_square_in_place (inv_of gen_r62_modulus) a0 = square_in_place true gen_r62_modulus [a0].
Proof. exact gen_r62_square_in_place_model. Qed.

(* ================= P64 (N = 1, 64 bits) ================= *)
Theorem GenDerive_p64_modulus_val :
  val gen_p64_modulus = gen_p64_modulus_attr /\ length gen_p64_modulus = 1%nat /\ wf gen_p64_modulus /\ gen_p64_modulus_attr mod 2 = 1 /\
  gen_p64_modulus_attr = 18446744073709551557.
Proof. exact gen_p64_modulus_val. Qed.
Theorem GenDerive_p64_flags :
  has_spare_bit gen_p64_modulus = false /\ nocarry_macro gen_p64_modulus = false.
Proof. exact gen_p64_flags. Qed.
Theorem GenDerive_p64_add_with_carry_eq : forall a0 b0,
  gen_p64_add_with_carry a0 b0 = add_with_carry [a0] [b0].
Proof. exact gen_p64_add_with_carry_eq. Qed.
Theorem GenDerive_p64_sub_with_borrow_eq : forall a0 b0,
  gen_p64_sub_with_borrow a0 b0 = sub_with_borrow [a0] [b0].
Proof. exact gen_p64_sub_with_borrow_eq. Qed.
Theorem GenDerive_p64_subtract_modulus_eq : forall a0,
  gen_p64_subtract_modulus a0 = subtract_modulus gen_p64_modulus [a0].
Proof. exact gen_p64_subtract_modulus_eq. Qed.
Theorem GenDerive_p64_subtract_modulus_with_carry_eq : forall a0 carry,
  gen_p64_subtract_modulus_with_carry a0 carry = subtract_modulus_with_carry gen_p64_modulus [a0] carry.
Proof. exact gen_p64_subtract_modulus_with_carry_eq. Qed.
Theorem GenDerive_p64_add_assign_eq : forall a0 b0,
  gen_p64_add_assign a0 b0 = add_assign gen_p64_modulus [a0] [b0].
Proof. exact gen_p64_add_assign_eq. Qed.
Theorem GenDerive_p64_sub_assign_eq : forall a0 b0,
  gen_p64_sub_assign a0 b0 = sub_assign gen_p64_modulus [a0] [b0].
Proof. exact gen_p64_sub_assign_eq. Qed.
Theorem GenDerive_p64_double_in_place_eq : forall a0,
  gen_p64_double_in_place a0 = double_in_place gen_p64_modulus [a0].
Proof. exact gen_p64_double_in_place_eq. Qed.
Theorem GenDerive_p64_neg_in_place_eq : forall a0,
  gen_p64_neg_in_place a0 = neg_in_place gen_p64_modulus [a0].
Proof. exact gen_p64_neg_in_place_eq. Qed.
Theorem GenDerive_p64_mul_assign_eq : forall a0 b0,
  gen_p64_mul_assign (inv_of gen_p64_modulus) a0 b0 = mul_assign_w (nocarry_macro gen_p64_modulus) (has_spare_bit gen_p64_modulus) gen_p64_modulus [a0] [b0].
Proof. exact gen_p64_mul_assign_eq. Qed.
Theorem GenDerive_p64_square_in_place_eq : forall a0,
  gen_p64_square_in_place (inv_of gen_p64_modulus) a0 = mul_assign_w (nocarry_macro gen_p64_modulus) (has_spare_bit gen_p64_modulus) gen_p64_modulus [a0] [a0].
Proof. exact gen_p64_square_in_place_eq. Qed.
Theorem GenDerive_p64_add_assign_spec : forall a0 b0,
  wf [a0] -> val [a0] < gen_p64_modulus_attr -> wf [b0] -> val [b0] < gen_p64_modulus_attr ->
  let r := gen_p64_add_assign a0 b0 in
  wf r /\ length r = 1%nat /\ val r < gen_p64_modulus_attr /\ val r = (val [a0] + val [b0]) mod gen_p64_modulus_attr.
Proof. exact gen_p64_add_assign_spec. Qed.
Theorem GenDerive_p64_sub_assign_spec : forall a0 b0,
  wf [a0] -> val [a0] < gen_p64_modulus_attr -> wf [b0] -> val [b0] < gen_p64_modulus_attr ->
  let r := gen_p64_sub_assign a0 b0 in
  wf r /\ length r = 1%nat /\ val r < gen_p64_modulus_attr /\ val r = (val [a0] - val [b0]) mod gen_p64_modulus_attr.
Proof. exact gen_p64_sub_assign_spec. Qed.
Theorem GenDerive_p64_double_in_place_spec : forall a0,
  wf [a0] -> val [a0] < gen_p64_modulus_attr ->
  let r := gen_p64_double_in_place a0 in
  wf r /\ length r = 1%nat /\ val r < gen_p64_modulus_attr /\ val r = (2 * val [a0]) mod gen_p64_modulus_attr.
Proof. exact gen_p64_double_in_place_spec. Qed.
Theorem GenDerive_p64_neg_in_place_spec : forall a0,
  wf [a0] -> val [a0] < gen_p64_modulus_attr ->
  let r := gen_p64_neg_in_place a0 in
  wf r /\ length r = 1%nat /\ val r < gen_p64_modulus_attr /\ val r = (- val [a0]) mod gen_p64_modulus_attr.
Proof. exact gen_p64_neg_in_place_spec. Qed.
Theorem GenDerive_p64_mul_assign_spec : forall a0 b0,
  wf [a0] -> val [a0] < gen_p64_modulus_attr -> wf [b0] -> val [b0] < gen_p64_modulus_attr ->
  let r := gen_p64_mul_assign (inv_of gen_p64_modulus) a0 b0 in
  wf r /\ length r = 1%nat /\ val r < gen_p64_modulus_attr /\ (val r * Wn 1) mod gen_p64_modulus_attr = (val [a0] * val [b0]) mod gen_p64_modulus_attr.
Proof. exact gen_p64_mul_assign_spec. Qed.
Theorem GenDerive_p64_square_in_place_spec : forall a0,
  wf [a0] -> val [a0] < gen_p64_modulus_attr ->
  let r := gen_p64_square_in_place (inv_of gen_p64_modulus) a0 in
  wf r /\ length r = 1%nat /\ val r < gen_p64_modulus_attr /\ (val r * Wn 1) mod gen_p64_modulus_attr = (val [a0] * val [a0]) mod gen_p64_modulus_attr.
Proof. exact gen_p64_square_in_place_spec. Qed.
Theorem GenDerive_p64_mul_assign_model : forall a0 b0,
  wf [a0] -> wf [b0] -> val [a0] < gen_p64_modulus_attr ->
  gen_p64_mul_assign (inv_of gen_p64_modulus) a0 b0 = mul_assign true gen_p64_modulus [a0] [b0].
Proof. exact gen_p64_mul_assign_model. Qed.
Theorem GenDerive_p64_square_in_place_model : forall a0,
  wf [a0] -> val [a0] < gen_p64_modulus_attr ->
  gen_p64_square_in_place (inv_of gen_p64_modulus) a0 = square_in_place true gen_p64_modulus [a0].
Proof. exact gen_p64_square_in_place_model. Qed.

(* ================= R125 (N = 2, 125 bits) ================= *)
Theorem GenDerive_r125_modulus_val :
  val gen_r125_modulus = gen_r125_modulus_attr /\ length gen_r125_modulus = 2%nat /\ wf gen_r125_modulus /\ gen_r125_modulus_attr mod 2 = 1 /\
  gen_r125_modulus_attr = 27997046152645192579209348579381818623.
Proof. exact gen_r125_modulus_val. Qed.
Theorem GenDerive_r125_flags :
  has_spare_bit gen_r125_modulus = true /\ nocarry_macro gen_r125_modulus = true.
Proof. exact gen_r125_flags. Qed.
Theorem GenDerive_r125_add_with_carry_eq : forall a0 a1 b0 b1,
  gen_r125_add_with_carry a0 a1 b0 b1 = add_with_carry [a0; a1] [b0; b1].
Proof. exact gen_r125_add_with_carry_eq. Qed.
Theorem GenDerive_r125_sub_with_borrow_eq : forall a0 a1 b0 b1,
  gen_r125_sub_with_borrow a0 a1 b0 b1 = sub_with_borrow [a0; a1] [b0; b1].
Proof. exact gen_r125_sub_with_borrow_eq. Qed.
Theorem GenDerive_r125_subtract_modulus_eq : forall a0 a1,
  gen_r125_subtract_modulus a0 a1 = subtract_modulus gen_r125_modulus [a0; a1].
Proof. exact gen_r125_subtract_modulus_eq. Qed.
Theorem GenDerive_r125_subtract_modulus_with_carry_eq : forall a0 a1 carry,
  gen_r125_subtract_modulus_with_carry a0 a1 carry = subtract_modulus_with_carry gen_r125_modulus [a0; a1] carry.
Proof. exact gen_r125_subtract_modulus_with_carry_eq. Qed.
Theorem GenDerive_r125_add_assign_eq : forall a0 a1 b0 b1,
  gen_r125_add_assign a0 a1 b0 b1 = add_assign gen_r125_modulus [a0; a1] [b0; b1].
Proof. exact gen_r125_add_assign_eq. Qed.
Theorem GenDerive_r125_sub_assign_eq : forall a0 a1 b0 b1,
  gen_r125_sub_assign a0 a1 b0 b1 = sub_assign gen_r125_modulus [a0; a1] [b0; b1].
Proof. exact gen_r125_sub_assign_eq. Qed.
Theorem GenDerive_r125_double_in_place_eq : forall a0 a1,
  gen_r125_double_in_place a0 a1 = double_in_place gen_r125_modulus [a0; a1].
Proof. exact gen_r125_double_in_place_eq. Qed.
Theorem GenDerive_r125_neg_in_place_eq : forall a0 a1,
  gen_r125_neg_in_place a0 a1 = neg_in_place gen_r125_modulus [a0; a1].
Proof. exact gen_r125_neg_in_place_eq. Qed.
Theorem GenDerive_r125_mul_assign_eq : forall a0 a1 b0 b1,
  gen_r125_mul_assign (inv_of gen_r125_modulus) a0 a1 b0 b1 = mul_assign_w (nocarry_macro gen_r125_modulus) (has_spare_bit gen_r125_modulus) gen_r125_modulus [a0; a1] [b0; b1].
Proof. exact gen_r125_mul_assign_eq. Qed.
Theorem GenDerive_r125_square_in_place_eq : forall a0 a1,
  gen_r125_square_in_place (inv_of gen_r125_modulus) a0 a1 = square_full gen_r125_modulus [a0; a1].
Proof. exact gen_r125_square_in_place_eq. Qed.
Theorem GenDerive_r125_add_assign_spec : forall a0 a1 b0 b1,
  wf [a0; a1] -> val [a0; a1] < gen_r125_modulus_attr -> wf [b0; b1] -> val [b0; b1] < gen_r125_modulus_attr ->
  let r := gen_r125_add_assign a0 a1 b0 b1 in
  wf r /\ length r = 2%nat /\ val r < gen_r125_modulus_attr /\ val r = (val [a0; a1] + val [b0; b1]) mod gen_r125_modulus_attr.
Proof. exact gen_r125_add_assign_spec. Qed.
Theorem GenDerive_r125_sub_assign_spec : forall a0 a1 b0 b1,
  wf [a0; a1] -> val [a0; a1] < gen_r125_modulus_attr -> wf [b0; b1] -> val [b0; b1] < gen_r125_modulus_attr ->
  let r := gen_r125_sub_assign a0 a1 b0 b1 in
  wf r /\ length r = 2%nat /\ val r < gen_r125_modulus_attr /\ val r = (val [a0; a1] - val [b0; b1]) mod gen_r125_modulus_attr.
Proof. exact gen_r125_sub_assign_spec. Qed.
Theorem GenDerive_r125_double_in_place_spec : forall a0 a1,
  wf [a0; a1] -> val [a0; a1] < gen_r125_modulus_attr ->
  let r := gen_r125_double_in_place a0 a1 in
  wf r /\ length r = 2%nat /\ val r < gen_r125_modulus_attr /\ val r = (2 * val [a0; a1]) mod gen_r125_modulus_attr.
Proof. exact gen_r125_double_in_place_spec. Qed.
Theorem GenDerive_r125_neg_in_place_spec : forall a0 a1,
  wf [a0; a1] -> val [a0; a1] < gen_r125_modulus_attr ->
  let r := gen_r125_neg_in_place a0 a1 in
  wf r /\ length r = 2%nat /\ val r < gen_r125_modulus_attr /\ val r = (- val [a0; a1]) mod gen_r125_modulus_attr.
Proof. exact gen_r125_neg_in_place_spec. Qed.
Theorem GenDerive_r125_mul_assign_spec : forall a0 a1 b0 b1,
  wf [a0; a1] -> val [a0; a1] < gen_r125_modulus_attr -> wf [b0; b1] -> val [b0; b1] < gen_r125_modulus_attr ->
  let r := gen_r125_mul_assign (inv_of gen_r125_modulus) a0 a1 b0 b1 in
  wf r /\ length r = 2%nat /\ val r < gen_r125_modulus_attr /\ (val r * Wn 2) mod gen_r125_modulus_attr = (val [a0; a1] * val [b0; b1]) mod gen_r125_modulus_attr.
Proof. exact gen_r125_mul_assign_spec. Qed.
Theorem GenDerive_r125_square_in_place_spec : forall a0 a1,
  wf [a0; a1] -> val [a0; a1] < gen_r125_modulus_attr ->
  let r := gen_r125_square_in_place (inv_of gen_r125_modulus) a0 a1 in
  wf r /\ length r = 2%nat /\ val r < gen_r125_modulus_attr /\ (val r * Wn 2) mod gen_r125_modulus_attr = (val [a0; a1] * val [a0; a1]) mod gen_r125_modulus_attr.
Proof. exact gen_r125_square_in_place_spec. Qed.
Theorem GenDerive_r125_mul_assign_model : forall a0 a1 b0 b1,
  wf [a0; a1] -> wf [b0; b1] -> val [a0; a1] < gen_r125_modulus_attr ->
  gen_r125_mul_assign (inv_of gen_r125_modulus) a0 a1 b0 b1 = mul_assign true gen_r125_modulus [a0; a1] [b0; b1].
Proof. exact gen_r125_mul_assign_model. Qed.
Theorem GenDerive_r125_square_in_place_model : forall a0 a1,
  wf [a0; a1] -> val [a0; a1] < gen_r125_modulus_attr ->
  gen_r125_square_in_place (inv_of gen_r125_modulus) a0 a1 = square_in_place true gen_r125_modulus [a0; a1].
Proof. exact gen_r125_square_in_place_model. Qed.

(* ================= M127 (N = 2, 127 bits) ================= *)
Theorem GenDerive_m127_modulus_val :
  val gen_m127_modulus = gen_m127_modulus_attr /\ length gen_m127_modulus = 2%nat /\ wf gen_m127_modulus /\ gen_m127_modulus_attr mod 2 = 1 /\
  gen_m127_modulus_attr = 170141183460469231731687303715884105727.
Proof. exact gen_m127_modulus_val. Qed.
Theorem GenDerive_m127_flags :
  has_spare_bit gen_m127_modulus = true /\ nocarry_macro gen_m127_modulus = false.
Proof. exact gen_m127_flags. Qed.
Theorem GenDerive_m127_add_with_carry_eq : forall a0 a1 b0 b1,
  gen_m127_add_with_carry a0 a1 b0 b1 = add_with_carry [a0; a1] [b0; b1].
Proof. exact gen_m127_add_with_carry_eq. Qed.
Theorem GenDerive_m127_sub_with_borrow_eq : forall a0 a1 b0 b1,
  gen_m127_sub_with_borrow a0 a1 b0 b1 = sub_with_borrow [a0; a1] [b0; b1].
Proof. exact gen_m127_sub_with_borrow_eq. Qed.
Theorem GenDerive_m127_subtract_modulus_eq : forall a0 a1,
  gen_m127_subtract_modulus a0 a1 = subtract_modulus gen_m127_modulus [a0; a1].
Proof. exact gen_m127_subtract_modulus_eq. Qed.
Theorem GenDerive_m127_subtract_modulus_with_carry_eq : forall a0 a1 carry,
  gen_m127_subtract_modulus_with_carry a0 a1 carry = subtract_modulus_with_carry gen_m127_modulus [a0; a1] carry.
Proof. exact gen_m127_subtract_modulus_with_carry_eq. Qed.
Theorem GenDerive_m127_add_assign_eq : forall a0 a1 b0 b1,
  gen_m127_add_assign a0 a1 b0 b1 = add_assign gen_m127_modulus [a0; a1] [b0; b1].
Proof. exact gen_m127_add_assign_eq. Qed.
Theorem GenDerive_m127_sub_assign_eq : forall a0 a1 b0 b1,
  gen_m127_sub_assign a0 a1 b0 b1 = sub_assign gen_m127_modulus [a0; a1] [b0; b1].
Proof. exact gen_m127_sub_assign_eq. Qed.
Theorem GenDerive_m127_double_in_place_eq : forall a0 a1,
  gen_m127_double_in_place a0 a1 = double_in_place gen_m127_modulus [a0; a1].
Proof. exact gen_m127_double_in_place_eq. Qed.
Theorem GenDerive_m127_neg_in_place_eq : forall a0 a1,
  gen_m127_neg_in_place a0 a1 = neg_in_place gen_m127_modulus [a0; a1].
Proof. exact gen_m127_neg_in_place_eq. Qed.
Theorem GenDerive_m127_mul_assign_eq : forall a0 a1 b0 b1,
  gen_m127_mul_assign (inv_of gen_m127_modulus) a0 a1 b0 b1 = mul_assign_w (nocarry_macro gen_m127_modulus) (has_spare_bit gen_m127_modulus) gen_m127_modulus [a0; a1] [b0; b1].
Proof. exact gen_m127_mul_assign_eq. Qed.
Theorem GenDerive_m127_square_in_place_eq : forall a0 a1,
  gen_m127_square_in_place (inv_of gen_m127_modulus) a0 a1 = square_full gen_m127_modulus [a0; a1].
Proof. exact gen_m127_square_in_place_eq. Qed.
Theorem GenDerive_m127_add_assign_spec : forall a0 a1 b0 b1,
  wf [a0; a1] -> val [a0; a1] < gen_m127_modulus_attr -> wf [b0; b1] -> val [b0; b1] < gen_m127_modulus_attr ->
  let r := gen_m127_add_assign a0 a1 b0 b1 in
  wf r /\ length r = 2%nat /\ val r < gen_m127_modulus_attr /\ val r = (val [a0; a1] + val [b0; b1]) mod gen_m127_modulus_attr.
Proof. exact gen_m127_add_assign_spec. Qed.
Theorem GenDerive_m127_sub_assign_spec : forall a0 a1 b0 b1,
  wf [a0; a1] -> val [a0; a1] < gen_m127_modulus_attr -> wf [b0; b1] -> val [b0; b1] < gen_m127_modulus_attr ->
  let r := gen_m127_sub_assign a0 a1 b0 b1 in
  wf r /\ length r = 2%nat /\ val r < gen_m127_modulus_attr /\ val r = (val [a0; a1] - val [b0; b1]) mod gen_m127_modulus_attr.
Proof. exact gen_m127_sub_assign_spec. Qed.
Theorem GenDerive_m127_double_in_place_spec : forall a0 a1,
  wf [a0; a1] -> val [a0; a1] < gen_m127_modulus_attr ->
  let r := gen_m127_double_in_place a0 a1 in
  wf r /\ length r = 2%nat /\ val r < gen_m127_modulus_attr /\ val r = (2 * val [a0; a1]) mod gen_m127_modulus_attr.
Proof. exact gen_m127_double_in_place_spec. Qed.
Theorem GenDerive_m127_neg_in_place_spec : forall a0 a1,
  wf [a0; a1] -> val [a0; a1] < gen_m127_modulus_attr ->
  let r := gen_m127_neg_in_place a0 a1 in
  wf r /\ length r = 2%nat /\ val r < gen_m127_modulus_attr /\ val r = (- val [a0; a1]) mod gen_m127_modulus_attr.
Proof. exact gen_m127_neg_in_place_spec. Qed.
Theorem GenDerive_m127_mul_assign_spec : forall a0 a1 b0 b1,
  wf [a0; a1] -> val [a0; a1] < gen_m127_modulus_attr -> wf [b0; b1] -> val [b0; b1] < gen_m127_modulus_attr ->
  let r := gen_m127_mul_assign (inv_of gen_m127_modulus) a0 a1 b0 b1 in
  wf r /\ length r = 2%nat /\ val r < gen_m127_modulus_attr /\ (val r * Wn 2) mod gen_m127_modulus_attr = (val [a0; a1] * val [b0; b1]) mod gen_m127_modulus_attr.
Proof. exact gen_m127_mul_assign_spec. Qed.
Theorem GenDerive_m127_square_in_place_spec : forall a0 a1,
  wf [a0; a1] -> val [a0; a1] < gen_m127_modulus_attr ->
  let r := gen_m127_square_in_place (inv_of gen_m127_modulus) a0 a1 in
  wf r /\ length r = 2%nat /\ val r < gen_m127_modulus_attr /\ (val r * Wn 2) mod gen_m127_modulus_attr = (val [a0; a1] * val [a0; a1]) mod gen_m127_modulus_attr.
Proof. exact gen_m127_square_in_place_spec. Qed.
Theorem GenDerive_m127_mul_assign_model : forall a0 a1 b0 b1,
  wf [a0; a1] -> wf [b0; b1] -> val [a0; a1] < gen_m127_modulus_attr ->
  gen_m127_mul_assign (inv_of gen_m127_modulus) a0 a1 b0 b1 = mul_assign true gen_m127_modulus [a0; a1] [b0; b1].
Proof. exact gen_m127_mul_assign_model. Qed.
Theorem GenDerive_m127_square_in_place_model : forall a0 a1,
  wf [a0; a1] -> val [a0; a1] < gen_m127_modulus_attr ->
  gen_m127_square_in_place (inv_of gen_m127_modulus) a0 a1 = square_in_place true gen_m127_modulus [a0; a1].
Proof. exact gen_m127_square_in_place_model. Qed.

(* ================= P128 (N = 2, 128 bits) ================= *)
Theorem GenDerive_p128_modulus_val :
  val gen_p128_modulus = gen_p128_modulus_attr /\ length gen_p128_modulus = 2%nat /\ wf gen_p128_modulus /\ gen_p128_modulus_attr mod 2 = 1 /\
  gen_p128_modulus_attr = 340282366920938463463374607431768211297.
Proof. exact gen_p128_modulus_val. Qed.
Theorem GenDerive_p128_flags :
  has_spare_bit gen_p128_modulus = false /\ nocarry_macro gen_p128_modulus = false.
Proof. exact gen_p128_flags. Qed.
Theorem GenDerive_p128_add_with_carry_eq : forall a0 a1 b0 b1,
  gen_p128_add_with_carry a0 a1 b0 b1 = add_with_carry [a0; a1] [b0; b1].
Proof. exact gen_p128_add_with_carry_eq. Qed.
Theorem GenDerive_p128_sub_with_borrow_eq : forall a0 a1 b0 b1,
  gen_p128_sub_with_borrow a0 a1 b0 b1 = sub_with_borrow [a0; a1] [b0; b1].
Proof. exact gen_p128_sub_with_borrow_eq. Qed.
Theorem GenDerive_p128_subtract_modulus_eq : forall a0 a1,
  gen_p128_subtract_modulus a0 a1 = subtract_modulus gen_p128_modulus [a0; a1].
Proof. exact gen_p128_subtract_modulus_eq. Qed.
Theorem GenDerive_p128_subtract_modulus_with_carry_eq : forall a0 a1 carry,
  gen_p128_subtract_modulus_with_carry a0 a1 carry = subtract_modulus_with_carry gen_p128_modulus [a0; a1] carry.
Proof. exact gen_p128_subtract_modulus_with_carry_eq. Qed.
Theorem GenDerive_p128_add_assign_eq : forall a0 a1 b0 b1,
  gen_p128_add_assign a0 a1 b0 b1 = add_assign gen_p128_modulus [a0; a1] [b0; b1].
Proof. exact gen_p128_add_assign_eq. Qed.
Theorem GenDerive_p128_sub_assign_eq : forall a0 a1 b0 b1,
  gen_p128_sub_assign a0 a1 b0 b1 = sub_assign gen_p128_modulus [a0; a1] [b0; b1].
Proof. exact gen_p128_sub_assign_eq. Qed.
Theorem GenDerive_p128_double_in_place_eq : forall a0 a1,
  gen_p128_double_in_place a0 a1 = double_in_place gen_p128_modulus [a0; a1].
Proof. exact gen_p128_double_in_place_eq. Qed.
Theorem GenDerive_p128_neg_in_place_eq : forall a0 a1,
  gen_p128_neg_in_place a0 a1 = neg_in_place gen_p128_modulus [a0; a1].
Proof. exact gen_p128_neg_in_place_eq. Qed.
Theorem GenDerive_p128_mul_assign_eq : forall a0 a1 b0 b1,
  gen_p128_mul_assign (inv_of gen_p128_modulus) a0 a1 b0 b1 = mul_assign_w (nocarry_macro gen_p128_modulus) (has_spare_bit gen_p128_modulus) gen_p128_modulus [a0; a1] [b0; b1].
Proof. exact gen_p128_mul_assign_eq. Qed.
Theorem GenDerive_p128_square_in_place_eq : forall a0 a1,
  gen_p128_square_in_place (inv_of gen_p128_modulus) a0 a1 = square_full gen_p128_modulus [a0; a1].
Proof. exact gen_p128_square_in_place_eq. Qed.
Theorem GenDerive_p128_add_assign_spec : forall a0 a1 b0 b1,
  wf [a0; a1] -> val [a0; a1] < gen_p128_modulus_attr -> wf [b0; b1] -> val [b0; b1] < gen_p128_modulus_attr ->
  let r := gen_p128_add_assign a0 a1 b0 b1 in
  wf r /\ length r = 2%nat /\ val r < gen_p128_modulus_attr /\ val r = (val [a0; a1] + val [b0; b1]) mod gen_p128_modulus_attr.
Proof. exact gen_p128_add_assign_spec. Qed.
Theorem GenDerive_p128_sub_assign_spec : forall a0 a1 b0 b1,
  wf [a0; a1] -> val [a0; a1] < gen_p128_modulus_attr -> wf [b0; b1] -> val [b0; b1] < gen_p128_modulus_attr ->
  let r := gen_p128_sub_assign a0 a1 b0 b1 in
  wf r /\ length r = 2%nat /\ val r < gen_p128_modulus_attr /\ val r = (val [a0; a1] - val [b0; b1]) mod gen_p128_modulus_attr.
Proof. exact gen_p128_sub_assign_spec. Qed.
Theorem GenDerive_p128_double_in_place_spec : forall a0 a1,
  wf [a0; a1] -> val [a0; a1] < gen_p128_modulus_attr ->
  let r := gen_p128_double_in_place a0 a1 in
  wf r /\ length r = 2%nat /\ val r < gen_p128_modulus_attr /\ val r = (2 * val [a0; a1]) mod gen_p128_modulus_attr.
Proof. exact gen_p128_double_in_place_spec. Qed.
Theorem GenDerive_p128_neg_in_place_spec : forall a0 a1,
  wf [a0; a1] -> val [a0; a1] < gen_p128_modulus_attr ->
  let r := gen_p128_neg_in_place a0 a1 in
  wf r /\ length r = 2%nat /\ val r < gen_p128_modulus_attr /\ val r = (- val [a0; a1]) mod gen_p128_modulus_attr.
Proof. exact gen_p128_neg_in_place_spec. Qed.
Theorem GenDerive_p128_mul_assign_spec : forall a0 a1 b0 b1,
  wf [a0; a1] -> val [a0; a1] < gen_p128_modulus_attr -> wf [b0; b1] -> val [b0; b1] < gen_p128_modulus_attr ->
  let r := gen_p128_mul_assign (inv_of gen_p128_modulus) a0 a1 b0 b1 in
  wf r /\ length r = 2%nat /\ val r < gen_p128_modulus_attr /\ (val r * Wn 2) mod gen_p128_modulus_attr = (val [a0; a1] * val [b0; b1]) mod gen_p128_modulus_attr.
Proof. exact gen_p128_mul_assign_spec. Qed.
Theorem GenDerive_p128_square_in_place_spec : forall a0 a1,
  wf [a0; a1] -> val [a0; a1] < gen_p128_modulus_attr ->
  let r := gen_p128_square_in_place (inv_of gen_p128_modulus) a0 a1 in
  wf r /\ length r = 2%nat /\ val r < gen_p128_modulus_attr /\ (val r * Wn 2) mod gen_p128_modulus_attr = (val [a0; a1] * val [a0; a1]) mod gen_p128_modulus_attr.
Proof. exact gen_p128_square_in_place_spec. Qed.
Theorem GenDerive_p128_mul_assign_model : forall a0 a1 b0 b1,
  wf [a0; a1] -> wf [b0; b1] -> val [a0; a1] < gen_p128_modulus_attr ->
  gen_p128_mul_assign (inv_of gen_p128_modulus) a0 a1 b0 b1 = mul_assign true gen_p128_modulus [a0; a1] [b0; b1].
Proof. exact gen_p128_mul_assign_model. Qed.
Theorem GenDerive_p128_square_in_place_model : forall a0 a1,
  wf [a0; a1] -> val [a0; a1] < gen_p128_modulus_attr ->
  gen_p128_square_in_place (inv_of gen_p128_modulus) a0 a1 = square_in_place true gen_p128_modulus [a0; a1].
Proof. exact gen_p128_square_in_place_model. Qed.

(* ================= Bn254Fr (N = 4, 254 bits) ================= *)
Theorem GenDerive_bn254fr_modulus_val :
  val gen_bn254fr_modulus = gen_bn254fr_modulus_attr /\ length gen_bn254fr_modulus = 4%nat /\ wf gen_bn254fr_modulus /\ gen_bn254fr_modulus_attr mod 2 = 1 /\
  gen_bn254fr_modulus_attr = 21888242871839275222246405745257275088548364400416034343698204186575808495617.
Proof. exact gen_bn254fr_modulus_val. Qed.
Theorem GenDerive_bn254fr_flags :
  has_spare_bit gen_bn254fr_modulus = true /\ nocarry_macro gen_bn254fr_modulus = true.
Proof. exact gen_bn254fr_flags. Qed.
Theorem GenDerive_bn254fr_add_with_carry_eq : forall a0 a1 a2 a3 b0 b1 b2 b3,
  gen_bn254fr_add_with_carry a0 a1 a2 a3 b0 b1 b2 b3 = add_with_carry [a0; a1; a2; a3] [b0; b1; b2; b3].
Proof. exact gen_bn254fr_add_with_carry_eq. Qed.
Theorem GenDerive_bn254fr_sub_with_borrow_eq : forall a0 a1 a2 a3 b0 b1 b2 b3,
  gen_bn254fr_sub_with_borrow a0 a1 a2 a3 b0 b1 b2 b3 = sub_with_borrow [a0; a1; a2; a3] [b0; b1; b2; b3].
Proof. exact gen_bn254fr_sub_with_borrow_eq. Qed.
Theorem GenDerive_bn254fr_subtract_modulus_eq : forall a0 a1 a2 a3,
  gen_bn254fr_subtract_modulus a0 a1 a2 a3 = subtract_modulus gen_bn254fr_modulus [a0; a1; a2; a3].
Proof. exact gen_bn254fr_subtract_modulus_eq. Qed.
Theorem GenDerive_bn254fr_subtract_modulus_with_carry_eq : forall a0 a1 a2 a3 carry,
  gen_bn254fr_subtract_modulus_with_carry a0 a1 a2 a3 carry = subtract_modulus_with_carry gen_bn254fr_modulus [a0; a1; a2; a3] carry.
Proof. exact gen_bn254fr_subtract_modulus_with_carry_eq. Qed.
Theorem GenDerive_bn254fr_add_assign_eq : forall a0 a1 a2 a3 b0 b1 b2 b3,
  gen_bn254fr_add_assign a0 a1 a2 a3 b0 b1 b2 b3 = add_assign gen_bn254fr_modulus [a0; a1; a2; a3] [b0; b1; b2; b3].
Proof. exact gen_bn254fr_add_assign_eq. Qed.
Theorem GenDerive_bn254fr_sub_assign_eq : forall a0 a1 a2 a3 b0 b1 b2 b3,
  gen_bn254fr_sub_assign a0 a1 a2 a3 b0 b1 b2 b3 = sub_assign gen_bn254fr_modulus [a0; a1; a2; a3] [b0; b1; b2; b3].
Proof. exact gen_bn254fr_sub_assign_eq. Qed.
Theorem GenDerive_bn254fr_double_in_place_eq : forall a0 a1 a2 a3,
  gen_bn254fr_double_in_place a0 a1 a2 a3 = double_in_place gen_bn254fr_modulus [a0; a1; a2; a3].
Proof. exact gen_bn254fr_double_in_place_eq. Qed.
Theorem GenDerive_bn254fr_neg_in_place_eq : forall a0 a1 a2 a3,
  gen_bn254fr_neg_in_place a0 a1 a2 a3 = neg_in_place gen_bn254fr_modulus [a0; a1; a2; a3].
Proof. exact gen_bn254fr_neg_in_place_eq. Qed.
Theorem GenDerive_bn254fr_mul_assign_eq : forall a0 a1 a2 a3 b0 b1 b2 b3,
  gen_bn254fr_mul_assign (inv_of gen_bn254fr_modulus) a0 a1 a2 a3 b0 b1 b2 b3 = mul_assign_w (nocarry_macro gen_bn254fr_modulus) (has_spare_bit gen_bn254fr_modulus) gen_bn254fr_modulus [a0; a1; a2; a3] [b0; b1; b2; b3].
Proof. exact gen_bn254fr_mul_assign_eq. Qed.
Theorem GenDerive_bn254fr_square_in_place_eq : forall a0 a1 a2 a3,
  gen_bn254fr_square_in_place (inv_of gen_bn254fr_modulus) a0 a1 a2 a3 = square_full gen_bn254fr_modulus [a0; a1; a2; a3].
Proof. exact gen_bn254fr_square_in_place_eq. Qed.
Theorem GenDerive_bn254fr_add_assign_spec : forall a0 a1 a2 a3 b0 b1 b2 b3,
  wf [a0; a1; a2; a3] -> val [a0; a1; a2; a3] < gen_bn254fr_modulus_attr -> wf [b0; b1; b2; b3] -> val [b0; b1; b2; b3] < gen_bn254fr_modulus_attr ->
  let r := gen_bn254fr_add_assign a0 a1 a2 a3 b0 b1 b2 b3 in
  wf r /\ length r = 4%nat /\ val r < gen_bn254fr_modulus_attr /\ val r = (val [a0; a1; a2; a3] + val [b0; b1; b2; b3]) mod gen_bn254fr_modulus_attr.
Proof. exact gen_bn254fr_add_assign_spec. Qed.
Theorem GenDerive_bn254fr_sub_assign_spec : forall a0 a1 a2 a3 b0 b1 b2 b3,
  wf [a0; a1; a2; a3] -> val [a0; a1; a2; a3] < gen_bn254fr_modulus_attr -> wf [b0; b1; b2; b3] -> val [b0; b1; b2; b3] < gen_bn254fr_modulus_attr ->
  let r := gen_bn254fr_sub_assign a0 a1 a2 a3 b0 b1 b2 b3 in
  wf r /\ length r = 4%nat /\ val r < gen_bn254fr_modulus_attr /\ val r = (val [a0; a1; a2; a3] - val [b0; b1; b2; b3]) mod gen_bn254fr_modulus_attr.
Proof. exact gen_bn254fr_sub_assign_spec. Qed.
Theorem GenDerive_bn254fr_double_in_place_spec : forall a0 a1 a2 a3,
  wf [a0; a1; a2; a3] -> val [a0; a1; a2; a3] < gen_bn254fr_modulus_attr ->
  let r := gen_bn254fr_double_in_place a0 a1 a2 a3 in
  wf r /\ length r = 4%nat /\ val r < gen_bn254fr_modulus_attr /\ val r = (2 * val [a0; a1; a2; a3]) mod gen_bn254fr_modulus_attr.
Proof. exact gen_bn254fr_double_in_place_spec. Qed.
Theorem GenDerive_bn254fr_neg_in_place_spec : forall a0 a1 a2 a3,
  wf [a0; a1; a2; a3] -> val [a0; a1; a2; a3] < gen_bn254fr_modulus_attr ->
  let r := gen_bn254fr_neg_in_place a0 a1 a2 a3 in
  wf r /\ length r = 4%nat /\ val r < gen_bn254fr_modulus_attr /\ val r = (- val [a0; a1; a2; a3]) mod gen_bn254fr_modulus_attr.
Proof. exact gen_bn254fr_neg_in_place_spec. Qed.
Theorem GenDerive_bn254fr_mul_assign_spec : forall a0 a1 a2 a3 b0 b1 b2 b3,
  wf [a0; a1; a2; a3] -> val [a0; a1; a2; a3] < gen_bn254fr_modulus_attr -> wf [b0; b1; b2; b3] -> val [b0; b1; b2; b3] < gen_bn254fr_modulus_attr ->
  let r := gen_bn254fr_mul_assign (inv_of gen_bn254fr_modulus) a0 a1 a2 a3 b0 b1 b2 b3 in
  wf r /\ length r = 4%nat /\ val r < gen_bn254fr_modulus_attr /\ (val r * Wn 4) mod gen_bn254fr_modulus_attr = (val [a0; a1; a2; a3] * val [b0; b1; b2; b3]) mod gen_bn254fr_modulus_attr.
Proof. exact gen_bn254fr_mul_assign_spec. Qed.
Theorem GenDerive_bn254fr_square_in_place_spec : forall a0 a1 a2 a3,
  wf [a0; a1; a2; a3] -> val [a0; a1; a2; a3] < gen_bn254fr_modulus_attr ->
  let r := gen_bn254fr_square_in_place (inv_of gen_bn254fr_modulus) a0 a1 a2 a3 in
  wf r /\ length r = 4%nat /\ val r < gen_bn254fr_modulus_attr /\ (val r * Wn 4) mod gen_bn254fr_modulus_attr = (val [a0; a1; a2; a3] * val [a0; a1; a2; a3]) mod gen_bn254fr_modulus_attr.
Proof. exact gen_bn254fr_square_in_place_spec. Qed.
Theorem GenDerive_bn254fr_mul_assign_model : forall a0 a1 a2 a3 b0 b1 b2 b3,
  wf [a0; a1; a2; a3] -> wf [b0; b1; b2; b3] -> val [a0; a1; a2; a3] < gen_bn254fr_modulus_attr ->
  gen_bn254fr_mul_assign (inv_of gen_bn254fr_modulus) a0 a1 a2 a3 b0 b1 b2 b3 = mul_assign true gen_bn254fr_modulus [a0; a1; a2; a3] [b0; b1; b2; b3].
Proof. exact gen_bn254fr_mul_assign_model. Qed.
Theorem GenDerive_bn254fr_square_in_place_model : forall a0 a1 a2 a3,
  wf [a0; a1; a2; a3] -> val [a0; a1; a2; a3] < gen_bn254fr_modulus_attr ->
  gen_bn254fr_square_in_place (inv_of gen_bn254fr_modulus) a0 a1 a2 a3 = square_in_place true gen_bn254fr_modulus [a0; a1; a2; a3].
Proof. exact gen_bn254fr_square_in_place_model. Qed.

(* ================= P25519 (N = 4, 255 bits) ================= *)
Theorem GenDerive_p25519_modulus_val :
  val gen_p25519_modulus = gen_p25519_modulus_attr /\ length gen_p25519_modulus = 4%nat /\ wf gen_p25519_modulus /\ gen_p25519_modulus_attr mod 2 = 1 /\
  gen_p25519_modulus_attr = 57896044618658097711785492504343953926634992332820282019728792003956564819949.
Proof. exact gen_p25519_modulus_val. Qed.
Theorem GenDerive_p25519_flags :
  has_spare_bit gen_p25519_modulus = true /\ nocarry_macro gen_p25519_modulus = false.
Proof. exact gen_p25519_flags. Qed.
Theorem GenDerive_p25519_add_with_carry_eq : forall a0 a1 a2 a3 b0 b1 b2 b3,
  gen_p25519_add_with_carry a0 a1 a2 a3 b0 b1 b2 b3 = add_with_carry [a0; a1; a2; a3] [b0; b1; b2; b3].
Proof. exact gen_p25519_add_with_carry_eq. Qed.
Theorem GenDerive_p25519_sub_with_borrow_eq : forall a0 a1 a2 a3 b0 b1 b2 b3,
  gen_p25519_sub_with_borrow a0 a1 a2 a3 b0 b1 b2 b3 = sub_with_borrow [a0; a1; a2; a3] [b0; b1; b2; b3].
Proof. exact gen_p25519_sub_with_borrow_eq. Qed.
Theorem GenDerive_p25519_subtract_modulus_eq : forall a0 a1 a2 a3,
  gen_p25519_subtract_modulus a0 a1 a2 a3 = subtract_modulus gen_p25519_modulus [a0; a1; a2; a3].
Proof. exact gen_p25519_subtract_modulus_eq. Qed.
Theorem GenDerive_p25519_subtract_modulus_with_carry_eq : forall a0 a1 a2 a3 carry,
  gen_p25519_subtract_modulus_with_carry a0 a1 a2 a3 carry = subtract_modulus_with_carry gen_p25519_modulus [a0; a1; a2; a3] carry.
Proof. exact gen_p25519_subtract_modulus_with_carry_eq. Qed.
Theorem GenDerive_p25519_add_assign_eq : forall a0 a1 a2 a3 b0 b1 b2 b3,
  gen_p25519_add_assign a0 a1 a2 a3 b0 b1 b2 b3 = add_assign gen_p25519_modulus [a0; a1; a2; a3] [b0; b1; b2; b3].
Proof. exact gen_p25519_add_assign_eq. Qed.
Theorem GenDerive_p25519_sub_assign_eq : forall a0 a1 a2 a3 b0 b1 b2 b3,
  gen_p25519_sub_assign a0 a1 a2 a3 b0 b1 b2 b3 = sub_assign gen_p25519_modulus [a0; a1; a2; a3] [b0; b1; b2; b3].
Proof. exact gen_p25519_sub_assign_eq. Qed.
Theorem GenDerive_p25519_double_in_place_eq : forall a0 a1 a2 a3,
  gen_p25519_double_in_place a0 a1 a2 a3 = double_in_place gen_p25519_modulus [a0; a1; a2; a3].
Proof. exact gen_p25519_double_in_place_eq. Qed.
Theorem GenDerive_p25519_neg_in_place_eq : forall a0 a1 a2 a3,
  gen_p25519_neg_in_place a0 a1 a2 a3 = neg_in_place gen_p25519_modulus [a0; a1; a2; a3].
Proof. exact gen_p25519_neg_in_place_eq. Qed.
Theorem GenDerive_p25519_mul_assign_eq : forall a0 a1 a2 a3 b0 b1 b2 b3,
  gen_p25519_mul_assign (inv_of gen_p25519_modulus) a0 a1 a2 a3 b0 b1 b2 b3 = mul_assign_w (nocarry_macro gen_p25519_modulus) (has_spare_bit gen_p25519_modulus) gen_p25519_modulus [a0; a1; a2; a3] [b0; b1; b2; b3].
Proof. exact gen_p25519_mul_assign_eq. Qed.
Theorem GenDerive_p25519_square_in_place_eq : forall a0 a1 a2 a3,
  gen_p25519_square_in_place (inv_of gen_p25519_modulus) a0 a1 a2 a3 = square_full gen_p25519_modulus [a0; a1; a2; a3].
Proof. exact gen_p25519_square_in_place_eq. Qed.
Theorem GenDerive_p25519_add_assign_spec : forall a0 a1 a2 a3 b0 b1 b2 b3,
  wf [a0; a1; a2; a3] -> val [a0; a1; a2; a3] < gen_p25519_modulus_attr -> wf [b0; b1; b2; b3] -> val [b0; b1; b2; b3] < gen_p25519_modulus_attr ->
  let r := gen_p25519_add_assign a0 a1 a2 a3 b0 b1 b2 b3 in
  wf r /\ length r = 4%nat /\ val r < gen_p25519_modulus_attr /\ val r = (val [a0; a1; a2; a3] + val [b0; b1; b2; b3]) mod gen_p25519_modulus_attr.
Proof. exact gen_p25519_add_assign_spec. Qed.
Theorem GenDerive_p25519_sub_assign_spec : forall a0 a1 a2 a3 b0 b1 b2 b3,
  wf [a0; a1; a2; a3] -> val [a0; a1; a2; a3] < gen_p25519_modulus_attr -> wf [b0; b1; b2; b3] -> val [b0; b1; b2; b3] < gen_p25519_modulus_attr ->
  let r := gen_p25519_sub_assign a0 a1 a2 a3 b0 b1 b2 b3 in
  wf r /\ length r = 4%nat /\ val r < gen_p25519_modulus_attr /\ val r = (val [a0; a1; a2; a3] - val [b0; b1; b2; b3]) mod gen_p25519_modulus_attr.
Proof. exact gen_p25519_sub_assign_spec. Qed.
Theorem GenDerive_p25519_double_in_place_spec : forall a0 a1 a2 a3,
  wf [a0; a1; a2; a3] -> val [a0; a1; a2; a3] < gen_p25519_modulus_attr ->
  let r := gen_p25519_double_in_place a0 a1 a2 a3 in
  wf r /\ length r = 4%nat /\ val r < gen_p25519_modulus_attr /\ val r = (2 * val [a0; a1; a2; a3]) mod gen_p25519_modulus_attr.
Proof. exact gen_p25519_double_in_place_spec. Qed.
Theorem GenDerive_p25519_neg_in_place_spec : forall a0 a1 a2 a3,
  wf [a0; a1; a2; a3] -> val [a0; a1; a2; a3] < gen_p25519_modulus_attr ->
  let r := gen_p25519_neg_in_place a0 a1 a2 a3 in
  wf r /\ length r = 4%nat /\ val r < gen_p25519_modulus_attr /\ val r = (- val [a0; a1; a2; a3]) mod gen_p25519_modulus_attr.
Proof. exact gen_p25519_neg_in_place_spec. Qed.
Theorem GenDerive_p25519_mul_assign_spec : forall a0 a1 a2 a3 b0 b1 b2 b3,
  wf [a0; a1; a2; a3] -> val [a0; a1; a2; a3] < gen_p25519_modulus_attr -> wf [b0; b1; b2; b3] -> val [b0; b1; b2; b3] < gen_p25519_modulus_attr ->
  let r := gen_p25519_mul_assign (inv_of gen_p25519_modulus) a0 a1 a2 a3 b0 b1 b2 b3 in
  wf r /\ length r = 4%nat /\ val r < gen_p25519_modulus_attr /\ (val r * Wn 4) mod gen_p25519_modulus_attr = (val [a0; a1; a2; a3] * val [b0; b1; b2; b3]) mod gen_p25519_modulus_attr.
Proof. exact gen_p25519_mul_assign_spec. Qed.
Theorem GenDerive_p25519_square_in_place_spec : forall a0 a1 a2 a3,
  wf [a0; a1; a2; a3] -> val [a0; a1; a2; a3] < gen_p25519_modulus_attr ->
  let r := gen_p25519_square_in_place (inv_of gen_p25519_modulus) a0 a1 a2 a3 in
  wf r /\ length r = 4%nat /\ val r < gen_p25519_modulus_attr /\ (val r * Wn 4) mod gen_p25519_modulus_attr = (val [a0; a1; a2; a3] * val [a0; a1; a2; a3]) mod gen_p25519_modulus_attr.
Proof. exact gen_p25519_square_in_place_spec. Qed.
Theorem GenDerive_p25519_mul_assign_model : forall a0 a1 a2 a3 b0 b1 b2 b3,
  wf [a0; a1; a2; a3] -> wf [b0; b1; b2; b3] -> val [a0; a1; a2; a3] < gen_p25519_modulus_attr ->
  gen_p25519_mul_assign (inv_of gen_p25519_modulus) a0 a1 a2 a3 b0 b1 b2 b3 = mul_assign true gen_p25519_modulus [a0; a1; a2; a3] [b0; b1; b2; b3].
Proof. exact gen_p25519_mul_assign_model. Qed.
Theorem GenDerive_p25519_square_in_place_model : forall a0 a1 a2 a3,
  wf [a0; a1; a2; a3] -> val [a0; a1; a2; a3] < gen_p25519_modulus_attr ->
  gen_p25519_square_in_place (inv_of gen_p25519_modulus) a0 a1 a2 a3 = square_in_place true gen_p25519_modulus [a0; a1; a2; a3].
Proof. exact gen_p25519_square_in_place_model. Qed.

(* ================= Secp256k1P (N = 4, 256 bits) ================= *)
Theorem GenDerive_secp256k1p_modulus_val :
  val gen_secp256k1p_modulus = gen_secp256k1p_modulus_attr /\ length gen_secp256k1p_modulus = 4%nat /\ wf gen_secp256k1p_modulus /\ gen_secp256k1p_modulus_attr mod 2 = 1 /\
  gen_secp256k1p_modulus_attr = 115792089237316195423570985008687907853269984665640564039457584007908834671663.
Proof. exact gen_secp256k1p_modulus_val. Qed.
Theorem GenDerive_secp256k1p_flags :
  has_spare_bit gen_secp256k1p_modulus = false /\ nocarry_macro gen_secp256k1p_modulus = false.
Proof. exact gen_secp256k1p_flags. Qed.
Theorem GenDerive_secp256k1p_add_with_carry_eq : forall a0 a1 a2 a3 b0 b1 b2 b3,
  gen_secp256k1p_add_with_carry a0 a1 a2 a3 b0 b1 b2 b3 = add_with_carry [a0; a1; a2; a3] [b0; b1; b2; b3].
Proof. exact gen_secp256k1p_add_with_carry_eq. Qed.
Theorem GenDerive_secp256k1p_sub_with_borrow_eq : forall a0 a1 a2 a3 b0 b1 b2 b3,
  gen_secp256k1p_sub_with_borrow a0 a1 a2 a3 b0 b1 b2 b3 = sub_with_borrow [a0; a1; a2; a3] [b0; b1; b2; b3].
Proof. exact gen_secp256k1p_sub_with_borrow_eq. Qed.
Theorem GenDerive_secp256k1p_subtract_modulus_eq : forall a0 a1 a2 a3,
  gen_secp256k1p_subtract_modulus a0 a1 a2 a3 = subtract_modulus gen_secp256k1p_modulus [a0; a1; a2; a3].
Proof. exact gen_secp256k1p_subtract_modulus_eq. Qed.
Theorem GenDerive_secp256k1p_subtract_modulus_with_carry_eq : forall a0 a1 a2 a3 carry,
  gen_secp256k1p_subtract_modulus_with_carry a0 a1 a2 a3 carry = subtract_modulus_with_carry gen_secp256k1p_modulus [a0; a1; a2; a3] carry.
Proof. exact gen_secp256k1p_subtract_modulus_with_carry_eq. Qed.
Theorem GenDerive_secp256k1p_add_assign_eq : forall a0 a1 a2 a3 b0 b1 b2 b3,
  gen_secp256k1p_add_assign a0 a1 a2 a3 b0 b1 b2 b3 = add_assign gen_secp256k1p_modulus [a0; a1; a2; a3] [b0; b1; b2; b3].
Proof. exact gen_secp256k1p_add_assign_eq. Qed.
Theorem GenDerive_secp256k1p_sub_assign_eq : forall a0 a1 a2 a3 b0 b1 b2 b3,
  gen_secp256k1p_sub_assign a0 a1 a2 a3 b0 b1 b2 b3 = sub_assign gen_secp256k1p_modulus [a0; a1; a2; a3] [b0; b1; b2; b3].
Proof. exact gen_secp256k1p_sub_assign_eq. Qed.
Theorem GenDerive_secp256k1p_double_in_place_eq : forall a0 a1 a2 a3,
  gen_secp256k1p_double_in_place a0 a1 a2 a3 = double_in_place gen_secp256k1p_modulus [a0; a1; a2; a3].
Proof. exact gen_secp256k1p_double_in_place_eq. Qed.
Theorem GenDerive_secp256k1p_neg_in_place_eq : forall a0 a1 a2 a3,
  gen_secp256k1p_neg_in_place a0 a1 a2 a3 = neg_in_place gen_secp256k1p_modulus [a0; a1; a2; a3].
Proof. exact gen_secp256k1p_neg_in_place_eq. Qed.
Theorem GenDerive_secp256k1p_mul_assign_eq : forall a0 a1 a2 a3 b0 b1 b2 b3,
  gen_secp256k1p_mul_assign (inv_of gen_secp256k1p_modulus) a0 a1 a2 a3 b0 b1 b2 b3 = mul_assign_w (nocarry_macro gen_secp256k1p_modulus) (has_spare_bit gen_secp256k1p_modulus) gen_secp256k1p_modulus [a0; a1; a2; a3] [b0; b1; b2; b3].
Proof. exact gen_secp256k1p_mul_assign_eq. Qed.
Theorem GenDerive_secp256k1p_square_in_place_eq : forall a0 a1 a2 a3,
  gen_secp256k1p_square_in_place (inv_of gen_secp256k1p_modulus) a0 a1 a2 a3 = square_full gen_secp256k1p_modulus [a0; a1; a2; a3].
Proof. exact gen_secp256k1p_square_in_place_eq. Qed.
Theorem GenDerive_secp256k1p_add_assign_spec : forall a0 a1 a2 a3 b0 b1 b2 b3,
  wf [a0; a1; a2; a3] -> val [a0; a1; a2; a3] < gen_secp256k1p_modulus_attr -> wf [b0; b1; b2; b3] -> val [b0; b1; b2; b3] < gen_secp256k1p_modulus_attr ->
  let r := gen_secp256k1p_add_assign a0 a1 a2 a3 b0 b1 b2 b3 in
  wf r /\ length r = 4%nat /\ val r < gen_secp256k1p_modulus_attr /\ val r = (val [a0; a1; a2; a3] + val [b0; b1; b2; b3]) mod gen_secp256k1p_modulus_attr.
Proof. exact gen_secp256k1p_add_assign_spec. Qed.
Theorem GenDerive_secp256k1p_sub_assign_spec : forall a0 a1 a2 a3 b0 b1 b2 b3,
  wf [a0; a1; a2; a3] -> val [a0; a1; a2; a3] < gen_secp256k1p_modulus_attr -> wf [b0; b1; b2; b3] -> val [b0; b1; b2; b3] < gen_secp256k1p_modulus_attr ->
  let r := gen_secp256k1p_sub_assign a0 a1 a2 a3 b0 b1 b2 b3 in
  wf r /\ length r = 4%nat /\ val r < gen_secp256k1p_modulus_attr /\ val r = (val [a0; a1; a2; a3] - val [b0; b1; b2; b3]) mod gen_secp256k1p_modulus_attr.
Proof. exact gen_secp256k1p_sub_assign_spec. Qed.
Theorem GenDerive_secp256k1p_double_in_place_spec : forall a0 a1 a2 a3,
  wf [a0; a1; a2; a3] -> val [a0; a1; a2; a3] < gen_secp256k1p_modulus_attr ->
  let r := gen_secp256k1p_double_in_place a0 a1 a2 a3 in
  wf r /\ length r = 4%nat /\ val r < gen_secp256k1p_modulus_attr /\ val r = (2 * val [a0; a1; a2; a3]) mod gen_secp256k1p_modulus_attr.
Proof. exact gen_secp256k1p_double_in_place_spec. Qed.
Theorem GenDerive_secp256k1p_neg_in_place_spec : forall a0 a1 a2 a3,
  wf [a0; a1; a2; a3] -> val [a0; a1; a2; a3] < gen_secp256k1p_modulus_attr ->
  let r := gen_secp256k1p_neg_in_place a0 a1 a2 a3 in
  wf r /\ length r = 4%nat /\ val r < gen_secp256k1p_modulus_attr /\ val r = (- val [a0; a1; a2; a3]) mod gen_secp256k1p_modulus_attr.
Proof. exact gen_secp256k1p_neg_in_place_spec. Qed.
Theorem GenDerive_secp256k1p_mul_assign_spec : forall a0 a1 a2 a3 b0 b1 b2 b3,
  wf [a0; a1; a2; a3] -> val [a0; a1; a2; a3] < gen_secp256k1p_modulus_attr -> wf [b0; b1; b2; b3] -> val [b0; b1; b2; b3] < gen_secp256k1p_modulus_attr ->
  let r := gen_secp256k1p_mul_assign (inv_of gen_secp256k1p_modulus) a0 a1 a2 a3 b0 b1 b2 b3 in
  wf r /\ length r = 4%nat /\ val r < gen_secp256k1p_modulus_attr /\ (val r * Wn 4) mod gen_secp256k1p_modulus_attr = (val [a0; a1; a2; a3] * val [b0; b1; b2; b3]) mod gen_secp256k1p_modulus_attr.
Proof. exact gen_secp256k1p_mul_assign_spec. Qed.
Theorem GenDerive_secp256k1p_square_in_place_spec : forall a0 a1 a2 a3,
  wf [a0; a1; a2; a3] -> val [a0; a1; a2; a3] < gen_secp256k1p_modulus_attr ->
  let r := gen_secp256k1p_square_in_place (inv_of gen_secp256k1p_modulus) a0 a1 a2 a3 in
  wf r /\ length r = 4%nat /\ val r < gen_secp256k1p_modulus_attr /\ (val r * Wn 4) mod gen_secp256k1p_modulus_attr = (val [a0; a1; a2; a3] * val [a0; a1; a2; a3]) mod gen_secp256k1p_modulus_attr.
Proof. exact gen_secp256k1p_square_in_place_spec. Qed.
Theorem GenDerive_secp256k1p_mul_assign_model : forall a0 a1 a2 a3 b0 b1 b2 b3,
  wf [a0; a1; a2; a3] -> wf [b0; b1; b2; b3] -> val [a0; a1; a2; a3] < gen_secp256k1p_modulus_attr ->
  gen_secp256k1p_mul_assign (inv_of gen_secp256k1p_modulus) a0 a1 a2 a3 b0 b1 b2 b3 = mul_assign true gen_secp256k1p_modulus [a0; a1; a2; a3] [b0; b1; b2; b3].
Proof. exact gen_secp256k1p_mul_assign_model. Qed.
Theorem GenDerive_secp256k1p_square_in_place_model : forall a0 a1 a2 a3,
  wf [a0; a1; a2; a3] -> val [a0; a1; a2; a3] < gen_secp256k1p_modulus_attr ->
  gen_secp256k1p_square_in_place (inv_of gen_secp256k1p_modulus) a0 a1 a2 a3 = square_in_place true gen_secp256k1p_modulus [a0; a1; a2; a3].
Proof. exact gen_secp256k1p_square_in_place_model. Qed.

(* ================= Bls381Fq (N = 6, 381 bits) ================= *)
Theorem GenDerive_bls381fq_modulus_val :
  val gen_bls381fq_modulus = gen_bls381fq_modulus_attr /\ length gen_bls381fq_modulus = 6%nat /\ wf gen_bls381fq_modulus /\ gen_bls381fq_modulus_attr mod 2 = 1 /\
  gen_bls381fq_modulus_attr = 4002409555221667393417789825735904156556882819939007885332058136124031650490837864442687629129015664037894272559787.
Proof. exact gen_bls381fq_modulus_val. Qed.
Theorem GenDerive_bls381fq_flags :
  has_spare_bit gen_bls381fq_modulus = true /\ nocarry_macro gen_bls381fq_modulus = true.
Proof. exact gen_bls381fq_flags. Qed.
Theorem GenDerive_bls381fq_add_with_carry_eq : forall a0 a1 a2 a3 a4 a5 b0 b1 b2 b3 b4 b5,
  gen_bls381fq_add_with_carry a0 a1 a2 a3 a4 a5 b0 b1 b2 b3 b4 b5 = add_with_carry [a0; a1; a2; a3; a4; a5] [b0; b1; b2; b3; b4; b5].
Proof. exact gen_bls381fq_add_with_carry_eq. Qed.
Theorem GenDerive_bls381fq_sub_with_borrow_eq : forall a0 a1 a2 a3 a4 a5 b0 b1 b2 b3 b4 b5,
  gen_bls381fq_sub_with_borrow a0 a1 a2 a3 a4 a5 b0 b1 b2 b3 b4 b5 = sub_with_borrow [a0; a1; a2; a3; a4; a5] [b0; b1; b2; b3; b4; b5].
Proof. exact gen_bls381fq_sub_with_borrow_eq. Qed.
Theorem GenDerive_bls381fq_subtract_modulus_eq : forall a0 a1 a2 a3 a4 a5,
  gen_bls381fq_subtract_modulus a0 a1 a2 a3 a4 a5 = subtract_modulus gen_bls381fq_modulus [a0; a1; a2; a3; a4; a5].
Proof. exact gen_bls381fq_subtract_modulus_eq. Qed.
Theorem GenDerive_bls381fq_subtract_modulus_with_carry_eq : forall a0 a1 a2 a3 a4 a5 carry,
  gen_bls381fq_subtract_modulus_with_carry a0 a1 a2 a3 a4 a5 carry = subtract_modulus_with_carry gen_bls381fq_modulus [a0; a1; a2; a3; a4; a5] carry.
Proof. exact gen_bls381fq_subtract_modulus_with_carry_eq. Qed.
Theorem GenDerive_bls381fq_add_assign_eq : forall a0 a1 a2 a3 a4 a5 b0 b1 b2 b3 b4 b5,
  gen_bls381fq_add_assign a0 a1 a2 a3 a4 a5 b0 b1 b2 b3 b4 b5 = add_assign gen_bls381fq_modulus [a0; a1; a2; a3; a4; a5] [b0; b1; b2; b3; b4; b5].
Proof. exact gen_bls381fq_add_assign_eq. Qed.
Theorem GenDerive_bls381fq_sub_assign_eq : forall a0 a1 a2 a3 a4 a5 b0 b1 b2 b3 b4 b5,
  gen_bls381fq_sub_assign a0 a1 a2 a3 a4 a5 b0 b1 b2 b3 b4 b5 = sub_assign gen_bls381fq_modulus [a0; a1; a2; a3; a4; a5] [b0; b1; b2; b3; b4; b5].
Proof. exact gen_bls381fq_sub_assign_eq. Qed.
Theorem GenDerive_bls381fq_double_in_place_eq : forall a0 a1 a2 a3 a4 a5,
  gen_bls381fq_double_in_place a0 a1 a2 a3 a4 a5 = double_in_place gen_bls381fq_modulus [a0; a1; a2; a3; a4; a5].
Proof. exact gen_bls381fq_double_in_place_eq. Qed.
Theorem GenDerive_bls381fq_neg_in_place_eq : forall a0 a1 a2 a3 a4 a5,
  gen_bls381fq_neg_in_place a0 a1 a2 a3 a4 a5 = neg_in_place gen_bls381fq_modulus [a0; a1; a2; a3; a4; a5].
Proof. exact gen_bls381fq_neg_in_place_eq. Qed.
Theorem GenDerive_bls381fq_mul_assign_eq : forall a0 a1 a2 a3 a4 a5 b0 b1 b2 b3 b4 b5,
  gen_bls381fq_mul_assign (inv_of gen_bls381fq_modulus) a0 a1 a2 a3 a4 a5 b0 b1 b2 b3 b4 b5 = mul_assign_w (nocarry_macro gen_bls381fq_modulus) (has_spare_bit gen_bls381fq_modulus) gen_bls381fq_modulus [a0; a1; a2; a3; a4; a5] [b0; b1; b2; b3; b4; b5].
Proof. exact gen_bls381fq_mul_assign_eq. Qed.
Theorem GenDerive_bls381fq_square_in_place_eq : forall a0 a1 a2 a3 a4 a5,
  gen_bls381fq_square_in_place (inv_of gen_bls381fq_modulus) a0 a1 a2 a3 a4 a5 = square_full gen_bls381fq_modulus [a0; a1; a2; a3; a4; a5].
Proof. exact gen_bls381fq_square_in_place_eq. Qed.
Theorem GenDerive_bls381fq_add_assign_spec : forall a0 a1 a2 a3 a4 a5 b0 b1 b2 b3 b4 b5,
  wf [a0; a1; a2; a3; a4; a5] -> val [a0; a1; a2; a3; a4; a5] < gen_bls381fq_modulus_attr -> wf [b0; b1; b2; b3; b4; b5] -> val [b0; b1; b2; b3; b4; b5] < gen_bls381fq_modulus_attr ->
  let r := gen_bls381fq_add_assign a0 a1 a2 a3 a4 a5 b0 b1 b2 b3 b4 b5 in
  wf r /\ length r = 6%nat /\ val r < gen_bls381fq_modulus_attr /\ val r = (val [a0; a1; a2; a3; a4; a5] + val [b0; b1; b2; b3; b4; b5]) mod gen_bls381fq_modulus_attr.
Proof. exact gen_bls381fq_add_assign_spec. Qed.
Theorem GenDerive_bls381fq_sub_assign_spec : forall a0 a1 a2 a3 a4 a5 b0 b1 b2 b3 b4 b5,
  wf [a0; a1; a2; a3; a4; a5] -> val [a0; a1; a2; a3; a4; a5] < gen_bls381fq_modulus_attr -> wf [b0; b1; b2; b3; b4; b5] -> val [b0; b1; b2; b3; b4; b5] < gen_bls381fq_modulus_attr ->
  let r := gen_bls381fq_sub_assign a0 a1 a2 a3 a4 a5 b0 b1 b2 b3 b4 b5 in
  wf r /\ length r = 6%nat /\ val r < gen_bls381fq_modulus_attr /\ val r = (val [a0; a1; a2; a3; a4; a5] - val [b0; b1; b2; b3; b4; b5]) mod gen_bls381fq_modulus_attr.
Proof. exact gen_bls381fq_sub_assign_spec. Qed.
Theorem GenDerive_bls381fq_double_in_place_spec : forall a0 a1 a2 a3 a4 a5,
  wf [a0; a1; a2; a3; a4; a5] -> val [a0; a1; a2; a3; a4; a5] < gen_bls381fq_modulus_attr ->
  let r := gen_bls381fq_double_in_place a0 a1 a2 a3 a4 a5 in
  wf r /\ length r = 6%nat /\ val r < gen_bls381fq_modulus_attr /\ val r = (2 * val [a0; a1; a2; a3; a4; a5]) mod gen_bls381fq_modulus_attr.
Proof. exact gen_bls381fq_double_in_place_spec. Qed.
Theorem GenDerive_bls381fq_neg_in_place_spec : forall a0 a1 a2 a3 a4 a5,
  wf [a0; a1; a2; a3; a4; a5] -> val [a0; a1; a2; a3; a4; a5] < gen_bls381fq_modulus_attr ->
  let r := gen_bls381fq_neg_in_place a0 a1 a2 a3 a4 a5 in
  wf r /\ length r = 6%nat /\ val r < gen_bls381fq_modulus_attr /\ val r = (- val [a0; a1; a2; a3; a4; a5]) mod gen_bls381fq_modulus_attr.
Proof. exact gen_bls381fq_neg_in_place_spec. Qed.
Theorem GenDerive_bls381fq_mul_assign_spec : forall a0 a1 a2 a3 a4 a5 b0 b1 b2 b3 b4 b5,
  wf [a0; a1; a2; a3; a4; a5] -> val [a0; a1; a2; a3; a4; a5] < gen_bls381fq_modulus_attr -> wf [b0; b1; b2; b3; b4; b5] -> val [b0; b1; b2; b3; b4; b5] < gen_bls381fq_modulus_attr ->
  let r := gen_bls381fq_mul_assign (inv_of gen_bls381fq_modulus) a0 a1 a2 a3 a4 a5 b0 b1 b2 b3 b4 b5 in
  wf r /\ length r = 6%nat /\ val r < gen_bls381fq_modulus_attr /\ (val r * Wn 6) mod gen_bls381fq_modulus_attr = (val [a0; a1; a2; a3; a4; a5] * val [b0; b1; b2; b3; b4; b5]) mod gen_bls381fq_modulus_attr.
Proof. exact gen_bls381fq_mul_assign_spec. Qed.
Theorem GenDerive_bls381fq_square_in_place_spec : forall a0 a1 a2 a3 a4 a5,
  wf [a0; a1; a2; a3; a4; a5] -> val [a0; a1; a2; a3; a4; a5] < gen_bls381fq_modulus_attr ->
  let r := gen_bls381fq_square_in_place (inv_of gen_bls381fq_modulus) a0 a1 a2 a3 a4 a5 in
  wf r /\ length r = 6%nat /\ val r < gen_bls381fq_modulus_attr /\ (val r * Wn 6) mod gen_bls381fq_modulus_attr = (val [a0; a1; a2; a3; a4; a5] * val [a0; a1; a2; a3; a4; a5]) mod gen_bls381fq_modulus_attr.
Proof. exact gen_bls381fq_square_in_place_spec. Qed.
Theorem GenDerive_bls381fq_mul_assign_model : forall a0 a1 a2 a3 a4 a5 b0 b1 b2 b3 b4 b5,
  wf [a0; a1; a2; a3; a4; a5] -> wf [b0; b1; b2; b3; b4; b5] -> val [a0; a1; a2; a3; a4; a5] < gen_bls381fq_modulus_attr ->
  gen_bls381fq_mul_assign (inv_of gen_bls381fq_modulus) a0 a1 a2 a3 a4 a5 b0 b1 b2 b3 b4 b5 = mul_assign true gen_bls381fq_modulus [a0; a1; a2; a3; a4; a5] [b0; b1; b2; b3; b4; b5].
Proof. exact gen_bls381fq_mul_assign_model. Qed.
Theorem GenDerive_bls381fq_square_in_place_model : forall a0 a1 a2 a3 a4 a5,
  wf [a0; a1; a2; a3; a4; a5] -> val [a0; a1; a2; a3; a4; a5] < gen_bls381fq_modulus_attr ->
  gen_bls381fq_square_in_place (inv_of gen_bls381fq_modulus) a0 a1 a2 a3 a4 a5 = square_in_place true gen_bls381fq_modulus [a0; a1; a2; a3; a4; a5].
Proof. exact gen_bls381fq_square_in_place_model. Qed.

(* ================= Z191 (N = 3, 191 bits) ================= *)
Theorem GenDerive_z191_modulus_val :
  val gen_z191_modulus = gen_z191_modulus_attr /\ length gen_z191_modulus = 3%nat /\ wf gen_z191_modulus /\ gen_z191_modulus_attr mod 2 = 1 /\
  gen_z191_modulus_attr = 3138550867693340381577612344682894744587803114800249045299.
Proof. exact gen_z191_modulus_val. Qed.
Theorem GenDerive_z191_flags :
  has_spare_bit gen_z191_modulus = true /\ nocarry_macro gen_z191_modulus = false.
Proof. exact gen_z191_flags. Qed.
Theorem GenDerive_z191_add_with_carry_eq : forall a0 a1 a2 b0 b1 b2,
  gen_z191_add_with_carry a0 a1 a2 b0 b1 b2 = add_with_carry [a0; a1; a2] [b0; b1; b2].
Proof. exact gen_z191_add_with_carry_eq. Qed.
Theorem GenDerive_z191_sub_with_borrow_eq : forall a0 a1 a2 b0 b1 b2,
  gen_z191_sub_with_borrow a0 a1 a2 b0 b1 b2 = sub_with_borrow [a0; a1; a2] [b0; b1; b2].
Proof. exact gen_z191_sub_with_borrow_eq. Qed.
Theorem GenDerive_z191_subtract_modulus_eq : forall a0 a1 a2,
  gen_z191_subtract_modulus a0 a1 a2 = subtract_modulus gen_z191_modulus [a0; a1; a2].
Proof. exact gen_z191_subtract_modulus_eq. Qed.
Theorem GenDerive_z191_subtract_modulus_with_carry_eq : forall a0 a1 a2 carry,
  gen_z191_subtract_modulus_with_carry a0 a1 a2 carry = subtract_modulus_with_carry gen_z191_modulus [a0; a1; a2] carry.
Proof. exact gen_z191_subtract_modulus_with_carry_eq. Qed.
Theorem GenDerive_z191_add_assign_eq : forall a0 a1 a2 b0 b1 b2,
  gen_z191_add_assign a0 a1 a2 b0 b1 b2 = add_assign gen_z191_modulus [a0; a1; a2] [b0; b1; b2].
Proof. exact gen_z191_add_assign_eq. Qed.
Theorem GenDerive_z191_sub_assign_eq : forall a0 a1 a2 b0 b1 b2,
  gen_z191_sub_assign a0 a1 a2 b0 b1 b2 = sub_assign gen_z191_modulus [a0; a1; a2] [b0; b1; b2].
Proof. exact gen_z191_sub_assign_eq. Qed.
Theorem GenDerive_z191_double_in_place_eq : forall a0 a1 a2,
  gen_z191_double_in_place a0 a1 a2 = double_in_place gen_z191_modulus [a0; a1; a2].
Proof. exact gen_z191_double_in_place_eq. Qed.
Theorem GenDerive_z191_neg_in_place_eq : forall a0 a1 a2,
  gen_z191_neg_in_place a0 a1 a2 = neg_in_place gen_z191_modulus [a0; a1; a2].
Proof. exact gen_z191_neg_in_place_eq. Qed.
Theorem GenDerive_z191_mul_assign_eq : forall a0 a1 a2 b0 b1 b2,
  gen_z191_mul_assign (inv_of gen_z191_modulus) a0 a1 a2 b0 b1 b2 = mul_assign_w (nocarry_macro gen_z191_modulus) (has_spare_bit gen_z191_modulus) gen_z191_modulus [a0; a1; a2] [b0; b1; b2].
Proof. exact gen_z191_mul_assign_eq. Qed.
Theorem GenDerive_z191_square_in_place_eq : forall a0 a1 a2,
  gen_z191_square_in_place (inv_of gen_z191_modulus) a0 a1 a2 = square_full gen_z191_modulus [a0; a1; a2].
Proof. exact gen_z191_square_in_place_eq. Qed.
Theorem GenDerive_z191_add_assign_spec : forall a0 a1 a2 b0 b1 b2,
  wf [a0; a1; a2] -> val [a0; a1; a2] < gen_z191_modulus_attr -> wf [b0; b1; b2] -> val [b0; b1; b2] < gen_z191_modulus_attr ->
  let r := gen_z191_add_assign a0 a1 a2 b0 b1 b2 in
  wf r /\ length r = 3%nat /\ val r < gen_z191_modulus_attr /\ val r = (val [a0; a1; a2] + val [b0; b1; b2]) mod gen_z191_modulus_attr.
Proof. exact gen_z191_add_assign_spec. Qed.
Theorem GenDerive_z191_sub_assign_spec : forall a0 a1 a2 b0 b1 b2,
  wf [a0; a1; a2] -> val [a0; a1; a2] < gen_z191_modulus_attr -> wf [b0; b1; b2] -> val [b0; b1; b2] < gen_z191_modulus_attr ->
  let r := gen_z191_sub_assign a0 a1 a2 b0 b1 b2 in
  wf r /\ length r = 3%nat /\ val r < gen_z191_modulus_attr /\ val r = (val [a0; a1; a2] - val [b0; b1; b2]) mod gen_z191_modulus_attr.
Proof. exact gen_z191_sub_assign_spec. Qed.
Theorem GenDerive_z191_double_in_place_spec : forall a0 a1 a2,
  wf [a0; a1; a2] -> val [a0; a1; a2] < gen_z191_modulus_attr ->
  let r := gen_z191_double_in_place a0 a1 a2 in
  wf r /\ length r = 3%nat /\ val r < gen_z191_modulus_attr /\ val r = (2 * val [a0; a1; a2]) mod gen_z191_modulus_attr.
Proof. exact gen_z191_double_in_place_spec. Qed.
Theorem GenDerive_z191_neg_in_place_spec : forall a0 a1 a2,
  wf [a0; a1; a2] -> val [a0; a1; a2] < gen_z191_modulus_attr ->
  let r := gen_z191_neg_in_place a0 a1 a2 in
  wf r /\ length r = 3%nat /\ val r < gen_z191_modulus_attr /\ val r = (- val [a0; a1; a2]) mod gen_z191_modulus_attr.
Proof. exact gen_z191_neg_in_place_spec. Qed.
Theorem GenDerive_z191_mul_assign_spec : forall a0 a1 a2 b0 b1 b2,
  wf [a0; a1; a2] -> val [a0; a1; a2] < gen_z191_modulus_attr -> wf [b0; b1; b2] -> val [b0; b1; b2] < gen_z191_modulus_attr ->
  let r := gen_z191_mul_assign (inv_of gen_z191_modulus) a0 a1 a2 b0 b1 b2 in
  wf r /\ length r = 3%nat /\ val r < gen_z191_modulus_attr /\ (val r * Wn 3) mod gen_z191_modulus_attr = (val [a0; a1; a2] * val [b0; b1; b2]) mod gen_z191_modulus_attr.
Proof. exact gen_z191_mul_assign_spec. Qed.
Theorem GenDerive_z191_square_in_place_spec : forall a0 a1 a2,
  wf [a0; a1; a2] -> val [a0; a1; a2] < gen_z191_modulus_attr ->
  let r := gen_z191_square_in_place (inv_of gen_z191_modulus) a0 a1 a2 in
  wf r /\ length r = 3%nat /\ val r < gen_z191_modulus_attr /\ (val r * Wn 3) mod gen_z191_modulus_attr = (val [a0; a1; a2] * val [a0; a1; a2]) mod gen_z191_modulus_attr.
Proof. exact gen_z191_square_in_place_spec. Qed.
Theorem GenDerive_z191_mul_assign_model : forall a0 a1 a2 b0 b1 b2,
  wf [a0; a1; a2] -> wf [b0; b1; b2] -> val [a0; a1; a2] < gen_z191_modulus_attr ->
  gen_z191_mul_assign (inv_of gen_z191_modulus) a0 a1 a2 b0 b1 b2 = mul_assign true gen_z191_modulus [a0; a1; a2] [b0; b1; b2].
Proof. exact gen_z191_mul_assign_model. Qed.
Theorem GenDerive_z191_square_in_place_model : forall a0 a1 a2,
  wf [a0; a1; a2] -> val [a0; a1; a2] < gen_z191_modulus_attr ->
  gen_z191_square_in_place (inv_of gen_z191_modulus) a0 a1 a2 = square_in_place true gen_z191_modulus [a0; a1; a2].
Proof. exact gen_z191_square_in_place_model. Qed.

(* ================= Z254 (N = 4, 254 bits) ================= *)
Theorem GenDerive_z254_modulus_val :
  val gen_z254_modulus = gen_z254_modulus_attr /\ length gen_z254_modulus = 4%nat /\ wf gen_z254_modulus /\ gen_z254_modulus_attr mod 2 = 1 /\
  gen_z254_modulus_attr = 14474011154664524434223474861472669245494537506412736921034553445453175718117.
Proof. exact gen_z254_modulus_val. Qed.
Theorem GenDerive_z254_flags :
  has_spare_bit gen_z254_modulus = true /\ nocarry_macro gen_z254_modulus = true.
Proof. exact gen_z254_flags. Qed.
Theorem GenDerive_z254_add_with_carry_eq : forall a0 a1 a2 a3 b0 b1 b2 b3,
  gen_z254_add_with_carry a0 a1 a2 a3 b0 b1 b2 b3 = add_with_carry [a0; a1; a2; a3] [b0; b1; b2; b3].
Proof. exact gen_z254_add_with_carry_eq. Qed.
Theorem GenDerive_z254_sub_with_borrow_eq : forall a0 a1 a2 a3 b0 b1 b2 b3,
  gen_z254_sub_with_borrow a0 a1 a2 a3 b0 b1 b2 b3 = sub_with_borrow [a0; a1; a2; a3] [b0; b1; b2; b3].
Proof. exact gen_z254_sub_with_borrow_eq. Qed.
Theorem GenDerive_z254_subtract_modulus_eq : forall a0 a1 a2 a3,
  gen_z254_subtract_modulus a0 a1 a2 a3 = subtract_modulus gen_z254_modulus [a0; a1; a2; a3].
Proof. exact gen_z254_subtract_modulus_eq. Qed.
Theorem GenDerive_z254_subtract_modulus_with_carry_eq : forall a0 a1 a2 a3 carry,
  gen_z254_subtract_modulus_with_carry a0 a1 a2 a3 carry = subtract_modulus_with_carry gen_z254_modulus [a0; a1; a2; a3] carry.
Proof. exact gen_z254_subtract_modulus_with_carry_eq. Qed.
Theorem GenDerive_z254_add_assign_eq : forall a0 a1 a2 a3 b0 b1 b2 b3,
  gen_z254_add_assign a0 a1 a2 a3 b0 b1 b2 b3 = add_assign gen_z254_modulus [a0; a1; a2; a3] [b0; b1; b2; b3].
Proof. exact gen_z254_add_assign_eq. Qed.
Theorem GenDerive_z254_sub_assign_eq : forall a0 a1 a2 a3 b0 b1 b2 b3,
  gen_z254_sub_assign a0 a1 a2 a3 b0 b1 b2 b3 = sub_assign gen_z254_modulus [a0; a1; a2; a3] [b0; b1; b2; b3].
Proof. exact gen_z254_sub_assign_eq. Qed.
Theorem GenDerive_z254_double_in_place_eq : forall a0 a1 a2 a3,
  gen_z254_double_in_place a0 a1 a2 a3 = double_in_place gen_z254_modulus [a0; a1; a2; a3].
Proof. exact gen_z254_double_in_place_eq. Qed.
Theorem GenDerive_z254_neg_in_place_eq : forall a0 a1 a2 a3,
  gen_z254_neg_in_place a0 a1 a2 a3 = neg_in_place gen_z254_modulus [a0; a1; a2; a3].
Proof. exact gen_z254_neg_in_place_eq. Qed.
Theorem GenDerive_z254_mul_assign_eq : forall a0 a1 a2 a3 b0 b1 b2 b3,
  gen_z254_mul_assign (inv_of gen_z254_modulus) a0 a1 a2 a3 b0 b1 b2 b3 = mul_assign_w (nocarry_macro gen_z254_modulus) (has_spare_bit gen_z254_modulus) gen_z254_modulus [a0; a1; a2; a3] [b0; b1; b2; b3].
Proof. exact gen_z254_mul_assign_eq. Qed.
Theorem GenDerive_z254_square_in_place_eq : forall a0 a1 a2 a3,
  gen_z254_square_in_place (inv_of gen_z254_modulus) a0 a1 a2 a3 = square_full gen_z254_modulus [a0; a1; a2; a3].
Proof. exact gen_z254_square_in_place_eq. Qed.
Theorem GenDerive_z254_add_assign_spec : forall a0 a1 a2 a3 b0 b1 b2 b3,
  wf [a0; a1; a2; a3] -> val [a0; a1; a2; a3] < gen_z254_modulus_attr -> wf [b0; b1; b2; b3] -> val [b0; b1; b2; b3] < gen_z254_modulus_attr ->
  let r := gen_z254_add_assign a0 a1 a2 a3 b0 b1 b2 b3 in
  wf r /\ length r = 4%nat /\ val r < gen_z254_modulus_attr /\ val r = (val [a0; a1; a2; a3] + val [b0; b1; b2; b3]) mod gen_z254_modulus_attr.
Proof. exact gen_z254_add_assign_spec. Qed.
Theorem GenDerive_z254_sub_assign_spec : forall a0 a1 a2 a3 b0 b1 b2 b3,
  wf [a0; a1; a2; a3] -> val [a0; a1; a2; a3] < gen_z254_modulus_attr -> wf [b0; b1; b2; b3] -> val [b0; b1; b2; b3] < gen_z254_modulus_attr ->
  let r := gen_z254_sub_assign a0 a1 a2 a3 b0 b1 b2 b3 in
  wf r /\ length r = 4%nat /\ val r < gen_z254_modulus_attr /\ val r = (val [a0; a1; a2; a3] - val [b0; b1; b2; b3]) mod gen_z254_modulus_attr.
Proof. exact gen_z254_sub_assign_spec. Qed.
Theorem GenDerive_z254_double_in_place_spec : forall a0 a1 a2 a3,
  wf [a0; a1; a2; a3] -> val [a0; a1; a2; a3] < gen_z254_modulus_attr ->
  let r := gen_z254_double_in_place a0 a1 a2 a3 in
  wf r /\ length r = 4%nat /\ val r < gen_z254_modulus_attr /\ val r = (2 * val [a0; a1; a2; a3]) mod gen_z254_modulus_attr.
Proof. exact gen_z254_double_in_place_spec. Qed.
Theorem GenDerive_z254_neg_in_place_spec : forall a0 a1 a2 a3,
  wf [a0; a1; a2; a3] -> val [a0; a1; a2; a3] < gen_z254_modulus_attr ->
  let r := gen_z254_neg_in_place a0 a1 a2 a3 in
  wf r /\ length r = 4%nat /\ val r < gen_z254_modulus_attr /\ val r = (- val [a0; a1; a2; a3]) mod gen_z254_modulus_attr.
Proof. exact gen_z254_neg_in_place_spec. Qed.
Theorem GenDerive_z254_mul_assign_spec : forall a0 a1 a2 a3 b0 b1 b2 b3,
  wf [a0; a1; a2; a3] -> val [a0; a1; a2; a3] < gen_z254_modulus_attr -> wf [b0; b1; b2; b3] -> val [b0; b1; b2; b3] < gen_z254_modulus_attr ->
  let r := gen_z254_mul_assign (inv_of gen_z254_modulus) a0 a1 a2 a3 b0 b1 b2 b3 in
  wf r /\ length r = 4%nat /\ val r < gen_z254_modulus_attr /\ (val r * Wn 4) mod gen_z254_modulus_attr = (val [a0; a1; a2; a3] * val [b0; b1; b2; b3]) mod gen_z254_modulus_attr.
Proof. exact gen_z254_mul_assign_spec. Qed.
Theorem GenDerive_z254_square_in_place_spec : forall a0 a1 a2 a3,
  wf [a0; a1; a2; a3] -> val [a0; a1; a2; a3] < gen_z254_modulus_attr ->
  let r := gen_z254_square_in_place (inv_of gen_z254_modulus) a0 a1 a2 a3 in
  wf r /\ length r = 4%nat /\ val r < gen_z254_modulus_attr /\ (val r * Wn 4) mod gen_z254_modulus_attr = (val [a0; a1; a2; a3] * val [a0; a1; a2; a3]) mod gen_z254_modulus_attr.
Proof. exact gen_z254_square_in_place_spec. Qed.
Theorem GenDerive_z254_mul_assign_model : forall a0 a1 a2 a3 b0 b1 b2 b3,
  wf [a0; a1; a2; a3] -> wf [b0; b1; b2; b3] -> val [a0; a1; a2; a3] < gen_z254_modulus_attr ->
  gen_z254_mul_assign (inv_of gen_z254_modulus) a0 a1 a2 a3 b0 b1 b2 b3 = mul_assign true gen_z254_modulus [a0; a1; a2; a3] [b0; b1; b2; b3].
Proof. exact gen_z254_mul_assign_model. Qed.
Theorem GenDerive_z254_square_in_place_model : forall a0 a1 a2 a3,
  wf [a0; a1; a2; a3] -> val [a0; a1; a2; a3] < gen_z254_modulus_attr ->
  gen_z254_square_in_place (inv_of gen_z254_modulus) a0 a1 a2 a3 = square_in_place true gen_z254_modulus [a0; a1; a2; a3].
Proof. exact gen_z254_square_in_place_model. Qed.

(* ================= Z255 (N = 4, 255 bits) ================= *)
Theorem GenDerive_z255_modulus_val :
  val gen_z255_modulus = gen_z255_modulus_attr /\ length gen_z255_modulus = 4%nat /\ wf gen_z255_modulus /\ gen_z255_modulus_attr mod 2 = 1 /\
  gen_z255_modulus_attr = 57896044618658097705508390768957273162799202909612615603626436559492530307207.
Proof. exact gen_z255_modulus_val. Qed.
Theorem GenDerive_z255_flags :
  has_spare_bit gen_z255_modulus = true /\ nocarry_macro gen_z255_modulus = false.
Proof. exact gen_z255_flags. Qed.
Theorem GenDerive_z255_add_with_carry_eq : forall a0 a1 a2 a3 b0 b1 b2 b3,
  gen_z255_add_with_carry a0 a1 a2 a3 b0 b1 b2 b3 = add_with_carry [a0; a1; a2; a3] [b0; b1; b2; b3].
Proof. exact gen_z255_add_with_carry_eq. Qed.
Theorem GenDerive_z255_sub_with_borrow_eq : forall a0 a1 a2 a3 b0 b1 b2 b3,
  gen_z255_sub_with_borrow a0 a1 a2 a3 b0 b1 b2 b3 = sub_with_borrow [a0; a1; a2; a3] [b0; b1; b2; b3].
Proof. exact gen_z255_sub_with_borrow_eq. Qed.
Theorem GenDerive_z255_subtract_modulus_eq : forall a0 a1 a2 a3,
  gen_z255_subtract_modulus a0 a1 a2 a3 = subtract_modulus gen_z255_modulus [a0; a1; a2; a3].
Proof. exact gen_z255_subtract_modulus_eq. Qed.
Theorem GenDerive_z255_subtract_modulus_with_carry_eq : forall a0 a1 a2 a3 carry,
  gen_z255_subtract_modulus_with_carry a0 a1 a2 a3 carry = subtract_modulus_with_carry gen_z255_modulus [a0; a1; a2; a3] carry.
Proof. exact gen_z255_subtract_modulus_with_carry_eq. Qed.
Theorem GenDerive_z255_add_assign_eq : forall a0 a1 a2 a3 b0 b1 b2 b3,
  gen_z255_add_assign a0 a1 a2 a3 b0 b1 b2 b3 = add_assign gen_z255_modulus [a0; a1; a2; a3] [b0; b1; b2; b3].
Proof. exact gen_z255_add_assign_eq. Qed.
Theorem GenDerive_z255_sub_assign_eq : forall a0 a1 a2 a3 b0 b1 b2 b3,
  gen_z255_sub_assign a0 a1 a2 a3 b0 b1 b2 b3 = sub_assign gen_z255_modulus [a0; a1; a2; a3] [b0; b1; b2; b3].
Proof. exact gen_z255_sub_assign_eq. Qed.
Theorem GenDerive_z255_double_in_place_eq : forall a0 a1 a2 a3,
  gen_z255_double_in_place a0 a1 a2 a3 = double_in_place gen_z255_modulus [a0; a1; a2; a3].
Proof. exact gen_z255_double_in_place_eq. Qed.
Theorem GenDerive_z255_neg_in_place_eq : forall a0 a1 a2 a3,
  gen_z255_neg_in_place a0 a1 a2 a3 = neg_in_place gen_z255_modulus [a0; a1; a2; a3].
Proof. exact gen_z255_neg_in_place_eq. Qed.
Theorem GenDerive_z255_mul_assign_eq : forall a0 a1 a2 a3 b0 b1 b2 b3,
  gen_z255_mul_assign (inv_of gen_z255_modulus) a0 a1 a2 a3 b0 b1 b2 b3 = mul_assign_w (nocarry_macro gen_z255_modulus) (has_spare_bit gen_z255_modulus) gen_z255_modulus [a0; a1; a2; a3] [b0; b1; b2; b3].
Proof. exact gen_z255_mul_assign_eq. Qed.
Theorem GenDerive_z255_square_in_place_eq : forall a0 a1 a2 a3,
  gen_z255_square_in_place (inv_of gen_z255_modulus) a0 a1 a2 a3 = square_full gen_z255_modulus [a0; a1; a2; a3].
Proof. exact gen_z255_square_in_place_eq. Qed.
Theorem GenDerive_z255_add_assign_spec : forall a0 a1 a2 a3 b0 b1 b2 b3,
  wf [a0; a1; a2; a3] -> val [a0; a1; a2; a3] < gen_z255_modulus_attr -> wf [b0; b1; b2; b3] -> val [b0; b1; b2; b3] < gen_z255_modulus_attr ->
  let r := gen_z255_add_assign a0 a1 a2 a3 b0 b1 b2 b3 in
  wf r /\ length r = 4%nat /\ val r < gen_z255_modulus_attr /\ val r = (val [a0; a1; a2; a3] + val [b0; b1; b2; b3]) mod gen_z255_modulus_attr.
Proof. exact gen_z255_add_assign_spec. Qed.
Theorem GenDerive_z255_sub_assign_spec : forall a0 a1 a2 a3 b0 b1 b2 b3,
  wf [a0; a1; a2; a3] -> val [a0; a1; a2; a3] < gen_z255_modulus_attr -> wf [b0; b1; b2; b3] -> val [b0; b1; b2; b3] < gen_z255_modulus_attr ->
  let r := gen_z255_sub_assign a0 a1 a2 a3 b0 b1 b2 b3 in
  wf r /\ length r = 4%nat /\ val r < gen_z255_modulus_attr /\ val r = (val [a0; a1; a2; a3] - val [b0; b1; b2; b3]) mod gen_z255_modulus_attr.
Proof. exact gen_z255_sub_assign_spec. Qed.
Theorem GenDerive_z255_double_in_place_spec : forall a0 a1 a2 a3,
  wf [a0; a1; a2; a3] -> val [a0; a1; a2; a3] < gen_z255_modulus_attr ->
  let r := gen_z255_double_in_place a0 a1 a2 a3 in
  wf r /\ length r = 4%nat /\ val r < gen_z255_modulus_attr /\ val r = (2 * val [a0; a1; a2; a3]) mod gen_z255_modulus_attr.
Proof. exact gen_z255_double_in_place_spec. Qed.
Theorem GenDerive_z255_neg_in_place_spec : forall a0 a1 a2 a3,
  wf [a0; a1; a2; a3] -> val [a0; a1; a2; a3] < gen_z255_modulus_attr ->
  let r := gen_z255_neg_in_place a0 a1 a2 a3 in
  wf r /\ length r = 4%nat /\ val r < gen_z255_modulus_attr /\ val r = (- val [a0; a1; a2; a3]) mod gen_z255_modulus_attr.
Proof. exact gen_z255_neg_in_place_spec. Qed.
Theorem GenDerive_z255_mul_assign_spec : forall a0 a1 a2 a3 b0 b1 b2 b3,
  wf [a0; a1; a2; a3] -> val [a0; a1; a2; a3] < gen_z255_modulus_attr -> wf [b0; b1; b2; b3] -> val [b0; b1; b2; b3] < gen_z255_modulus_attr ->
  let r := gen_z255_mul_assign (inv_of gen_z255_modulus) a0 a1 a2 a3 b0 b1 b2 b3 in
  wf r /\ length r = 4%nat /\ val r < gen_z255_modulus_attr /\ (val r * Wn 4) mod gen_z255_modulus_attr = (val [a0; a1; a2; a3] * val [b0; b1; b2; b3]) mod gen_z255_modulus_attr.
Proof. exact gen_z255_mul_assign_spec. Qed.
Theorem GenDerive_z255_square_in_place_spec : forall a0 a1 a2 a3,
  wf [a0; a1; a2; a3] -> val [a0; a1; a2; a3] < gen_z255_modulus_attr ->
  let r := gen_z255_square_in_place (inv_of gen_z255_modulus) a0 a1 a2 a3 in
  wf r /\ length r = 4%nat /\ val r < gen_z255_modulus_attr /\ (val r * Wn 4) mod gen_z255_modulus_attr = (val [a0; a1; a2; a3] * val [a0; a1; a2; a3]) mod gen_z255_modulus_attr.
Proof. exact gen_z255_square_in_place_spec. Qed.
Theorem GenDerive_z255_mul_assign_model : forall a0 a1 a2 a3 b0 b1 b2 b3,
  wf [a0; a1; a2; a3] -> wf [b0; b1; b2; b3] -> val [a0; a1; a2; a3] < gen_z255_modulus_attr ->
  gen_z255_mul_assign (inv_of gen_z255_modulus) a0 a1 a2 a3 b0 b1 b2 b3 = mul_assign true gen_z255_modulus [a0; a1; a2; a3] [b0; b1; b2; b3].
Proof. exact gen_z255_mul_assign_model. Qed.
Theorem GenDerive_z255_square_in_place_model : forall a0 a1 a2 a3,
  wf [a0; a1; a2; a3] -> val [a0; a1; a2; a3] < gen_z255_modulus_attr ->
  gen_z255_square_in_place (inv_of gen_z255_modulus) a0 a1 a2 a3 = square_in_place true gen_z255_modulus [a0; a1; a2; a3].
Proof. exact gen_z255_square_in_place_model. Qed.

(* ================= P124 (N = 2, 124 bits) ================= *)
Theorem GenDerive_p124_modulus_val :
  val gen_p124_modulus = gen_p124_modulus_attr /\ length gen_p124_modulus = 2%nat /\ wf gen_p124_modulus /\ gen_p124_modulus_attr mod 2 = 1 /\
  gen_p124_modulus_attr = 21267647932558653948014168890775961601.
Proof. exact gen_p124_modulus_val. Qed.
Theorem GenDerive_p124_flags :
  has_spare_bit gen_p124_modulus = true /\ nocarry_macro gen_p124_modulus = true.
Proof. exact gen_p124_flags. Qed.
Theorem GenDerive_p124_add_with_carry_eq : forall a0 a1 b0 b1,
  gen_p124_add_with_carry a0 a1 b0 b1 = add_with_carry [a0; a1] [b0; b1].
Proof. exact gen_p124_add_with_carry_eq. Qed.
Theorem GenDerive_p124_sub_with_borrow_eq : forall a0 a1 b0 b1,
  gen_p124_sub_with_borrow a0 a1 b0 b1 = sub_with_borrow [a0; a1] [b0; b1].
Proof. exact gen_p124_sub_with_borrow_eq. Qed.
Theorem GenDerive_p124_subtract_modulus_eq : forall a0 a1,
  gen_p124_subtract_modulus a0 a1 = subtract_modulus gen_p124_modulus [a0; a1].
Proof. exact gen_p124_subtract_modulus_eq. Qed.
Theorem GenDerive_p124_subtract_modulus_with_carry_eq : forall a0 a1 carry,
  gen_p124_subtract_modulus_with_carry a0 a1 carry = subtract_modulus_with_carry gen_p124_modulus [a0; a1] carry.
Proof. exact gen_p124_subtract_modulus_with_carry_eq. Qed.
Theorem GenDerive_p124_add_assign_eq : forall a0 a1 b0 b1,
  gen_p124_add_assign a0 a1 b0 b1 = add_assign gen_p124_modulus [a0; a1] [b0; b1].
Proof. exact gen_p124_add_assign_eq. Qed.
Theorem GenDerive_p124_sub_assign_eq : forall a0 a1 b0 b1,
  gen_p124_sub_assign a0 a1 b0 b1 = sub_assign gen_p124_modulus [a0; a1] [b0; b1].
Proof. exact gen_p124_sub_assign_eq. Qed.
Theorem GenDerive_p124_double_in_place_eq : forall a0 a1,
  gen_p124_double_in_place a0 a1 = double_in_place gen_p124_modulus [a0; a1].
Proof. exact gen_p124_double_in_place_eq. Qed.
Theorem GenDerive_p124_neg_in_place_eq : forall a0 a1,
  gen_p124_neg_in_place a0 a1 = neg_in_place gen_p124_modulus [a0; a1].
Proof. exact gen_p124_neg_in_place_eq. Qed.
Theorem GenDerive_p124_mul_assign_eq : forall a0 a1 b0 b1,
  gen_p124_mul_assign (inv_of gen_p124_modulus) a0 a1 b0 b1 = mul_assign_w (nocarry_macro gen_p124_modulus) (has_spare_bit gen_p124_modulus) gen_p124_modulus [a0; a1] [b0; b1].
Proof. exact gen_p124_mul_assign_eq. Qed.
Theorem GenDerive_p124_square_in_place_eq : forall a0 a1,
  gen_p124_square_in_place (inv_of gen_p124_modulus) a0 a1 = square_full gen_p124_modulus [a0; a1].
Proof. exact gen_p124_square_in_place_eq. Qed.
Theorem GenDerive_p124_add_assign_spec : forall a0 a1 b0 b1,
  wf [a0; a1] -> val [a0; a1] < gen_p124_modulus_attr -> wf [b0; b1] -> val [b0; b1] < gen_p124_modulus_attr ->
  let r := gen_p124_add_assign a0 a1 b0 b1 in
  wf r /\ length r = 2%nat /\ val r < gen_p124_modulus_attr /\ val r = (val [a0; a1] + val [b0; b1]) mod gen_p124_modulus_attr.
Proof. exact gen_p124_add_assign_spec. Qed.
Theorem GenDerive_p124_sub_assign_spec : forall a0 a1 b0 b1,
  wf [a0; a1] -> val [a0; a1] < gen_p124_modulus_attr -> wf [b0; b1] -> val [b0; b1] < gen_p124_modulus_attr ->
  let r := gen_p124_sub_assign a0 a1 b0 b1 in
  wf r /\ length r = 2%nat /\ val r < gen_p124_modulus_attr /\ val r = (val [a0; a1] - val [b0; b1]) mod gen_p124_modulus_attr.
Proof. exact gen_p124_sub_assign_spec. Qed.
Theorem GenDerive_p124_double_in_place_spec : forall a0 a1,
  wf [a0; a1] -> val [a0; a1] < gen_p124_modulus_attr ->
  let r := gen_p124_double_in_place a0 a1 in
  wf r /\ length r = 2%nat /\ val r < gen_p124_modulus_attr /\ val r = (2 * val [a0; a1]) mod gen_p124_modulus_attr.
Proof. exact gen_p124_double_in_place_spec. Qed.
Theorem GenDerive_p124_neg_in_place_spec : forall a0 a1,
  wf [a0; a1] -> val [a0; a1] < gen_p124_modulus_attr ->
  let r := gen_p124_neg_in_place a0 a1 in
  wf r /\ length r = 2%nat /\ val r < gen_p124_modulus_attr /\ val r = (- val [a0; a1]) mod gen_p124_modulus_attr.
Proof. exact gen_p124_neg_in_place_spec. Qed.
Theorem GenDerive_p124_mul_assign_spec : forall a0 a1 b0 b1,
  wf [a0; a1] -> val [a0; a1] < gen_p124_modulus_attr -> wf [b0; b1] -> val [b0; b1] < gen_p124_modulus_attr ->
  let r := gen_p124_mul_assign (inv_of gen_p124_modulus) a0 a1 b0 b1 in
  wf r /\ length r = 2%nat /\ val r < gen_p124_modulus_attr /\ (val r * Wn 2) mod gen_p124_modulus_attr = (val [a0; a1] * val [b0; b1]) mod gen_p124_modulus_attr.
Proof. exact gen_p124_mul_assign_spec. Qed.
Theorem GenDerive_p124_square_in_place_spec : forall a0 a1,
  wf [a0; a1] -> val [a0; a1] < gen_p124_modulus_attr ->
  let r := gen_p124_square_in_place (inv_of gen_p124_modulus) a0 a1 in
  wf r /\ length r = 2%nat /\ val r < gen_p124_modulus_attr /\ (val r * Wn 2) mod gen_p124_modulus_attr = (val [a0; a1] * val [a0; a1]) mod gen_p124_modulus_attr.
Proof. exact gen_p124_square_in_place_spec. Qed.
Theorem GenDerive_p124_mul_assign_model : forall a0 a1 b0 b1,
  wf [a0; a1] -> wf [b0; b1] -> val [a0; a1] < gen_p124_modulus_attr ->
  gen_p124_mul_assign (inv_of gen_p124_modulus) a0 a1 b0 b1 = mul_assign true gen_p124_modulus [a0; a1] [b0; b1].
Proof. exact gen_p124_mul_assign_model. Qed.
Theorem GenDerive_p124_square_in_place_model : forall a0 a1,
  wf [a0; a1] -> val [a0; a1] < gen_p124_modulus_attr ->
  gen_p124_square_in_place (inv_of gen_p124_modulus) a0 a1 = square_in_place true gen_p124_modulus [a0; a1].
Proof. exact gen_p124_square_in_place_model. Qed.

(* ================= sum_of_products::<M>, the generated interleaved branch ================= *)
Theorem GenDerive_r62_sop_branch : forall ab,
  (length ab <= 3)%nat -> sum_of_products true gen_r62_modulus ab = sop_interleaved_ab gen_r62_modulus ab.
Proof. exact gen_r62_sop_branch. Qed.
Theorem GenDerive_r62_sum_of_products_1_eq : forall a0l0 b0l0,
  gen_r62_sum_of_products_1 (inv_of gen_r62_modulus) a0l0 b0l0 = sop_interleaved_ab gen_r62_modulus
    [([a0l0], [b0l0])].
Proof. exact gen_r62_sum_of_products_1_eq. Qed.
Theorem GenDerive_r62_sum_of_products_1_spec : forall a0l0 b0l0,
  let ab := [([a0l0], [b0l0])] in
  Forall (okpair gen_r62_modulus) ab ->
  let r := gen_r62_sum_of_products_1 (inv_of gen_r62_modulus) a0l0 b0l0 in
  r = sum_of_products true gen_r62_modulus ab /\ elem_ok gen_r62_modulus r /\ std gen_r62_modulus r = dot gen_r62_modulus ab 0 mod gen_r62_modulus_attr.
Proof. exact gen_r62_sum_of_products_1_spec. Qed.
Theorem GenDerive_r62_sum_of_products_2_eq : forall a0l0 a1l0 b0l0 b1l0,
  gen_r62_sum_of_products_2 (inv_of gen_r62_modulus) a0l0 a1l0 b0l0 b1l0 = sop_interleaved_ab gen_r62_modulus
    [([a0l0], [b0l0]); ([a1l0], [b1l0])].
Proof. exact gen_r62_sum_of_products_2_eq. Qed.
Theorem GenDerive_r62_sum_of_products_2_spec : forall a0l0 a1l0 b0l0 b1l0,
  let ab := [([a0l0], [b0l0]); ([a1l0], [b1l0])] in
  Forall (okpair gen_r62_modulus) ab ->
  let r := gen_r62_sum_of_products_2 (inv_of gen_r62_modulus) a0l0 a1l0 b0l0 b1l0 in
  r = sum_of_products true gen_r62_modulus ab /\ elem_ok gen_r62_modulus r /\ std gen_r62_modulus r = dot gen_r62_modulus ab 0 mod gen_r62_modulus_attr.
Proof. exact gen_r62_sum_of_products_2_spec. Qed.
Theorem GenDerive_r62_sum_of_products_3_eq : forall a0l0 a1l0 a2l0 b0l0 b1l0 b2l0,
  gen_r62_sum_of_products_3 (inv_of gen_r62_modulus) a0l0 a1l0 a2l0 b0l0 b1l0 b2l0 = sop_interleaved_ab gen_r62_modulus
    [([a0l0], [b0l0]); ([a1l0], [b1l0]); ([a2l0], [b2l0])].
Proof. exact gen_r62_sum_of_products_3_eq. Qed.
Theorem GenDerive_r62_sum_of_products_3_spec : forall a0l0 a1l0 a2l0 b0l0 b1l0 b2l0,
  let ab := [([a0l0], [b0l0]); ([a1l0], [b1l0]); ([a2l0], [b2l0])] in
  Forall (okpair gen_r62_modulus) ab ->
  let r := gen_r62_sum_of_products_3 (inv_of gen_r62_modulus) a0l0 a1l0 a2l0 b0l0 b1l0 b2l0 in
  r = sum_of_products true gen_r62_modulus ab /\ elem_ok gen_r62_modulus r /\ std gen_r62_modulus r = dot gen_r62_modulus ab 0 mod gen_r62_modulus_attr.
Proof. exact gen_r62_sum_of_products_3_spec. Qed.
Theorem GenDerive_r125_sop_branch : forall ab,
  (length ab <= 5)%nat -> sum_of_products true gen_r125_modulus ab = sop_interleaved_ab gen_r125_modulus ab.
Proof. exact gen_r125_sop_branch. Qed.
Theorem GenDerive_r125_sum_of_products_1_eq : forall a0l0 a0l1 b0l0 b0l1,
  gen_r125_sum_of_products_1 (inv_of gen_r125_modulus) a0l0 a0l1 b0l0 b0l1 = sop_interleaved_ab gen_r125_modulus
    [([a0l0; a0l1], [b0l0; b0l1])].
Proof. exact gen_r125_sum_of_products_1_eq. Qed.
Theorem GenDerive_r125_sum_of_products_1_spec : forall a0l0 a0l1 b0l0 b0l1,
  let ab := [([a0l0; a0l1], [b0l0; b0l1])] in
  Forall (okpair gen_r125_modulus) ab ->
  let r := gen_r125_sum_of_products_1 (inv_of gen_r125_modulus) a0l0 a0l1 b0l0 b0l1 in
  r = sum_of_products true gen_r125_modulus ab /\ elem_ok gen_r125_modulus r /\ std gen_r125_modulus r = dot gen_r125_modulus ab 0 mod gen_r125_modulus_attr.
Proof. exact gen_r125_sum_of_products_1_spec. Qed.
Theorem GenDerive_r125_sum_of_products_2_eq : forall a0l0 a0l1 a1l0 a1l1 b0l0 b0l1 b1l0 b1l1,
  gen_r125_sum_of_products_2 (inv_of gen_r125_modulus) a0l0 a0l1 a1l0 a1l1 b0l0 b0l1 b1l0 b1l1 = sop_interleaved_ab gen_r125_modulus
    [([a0l0; a0l1], [b0l0; b0l1]); ([a1l0; a1l1], [b1l0; b1l1])].
Proof. exact gen_r125_sum_of_products_2_eq. Qed.
Theorem GenDerive_r125_sum_of_products_2_spec : forall a0l0 a0l1 a1l0 a1l1 b0l0 b0l1 b1l0 b1l1,
  let ab := [([a0l0; a0l1], [b0l0; b0l1]); ([a1l0; a1l1], [b1l0; b1l1])] in
  Forall (okpair gen_r125_modulus) ab ->
  let r := gen_r125_sum_of_products_2 (inv_of gen_r125_modulus) a0l0 a0l1 a1l0 a1l1 b0l0 b0l1 b1l0 b1l1 in
  r = sum_of_products true gen_r125_modulus ab /\ elem_ok gen_r125_modulus r /\ std gen_r125_modulus r = dot gen_r125_modulus ab 0 mod gen_r125_modulus_attr.
Proof. exact gen_r125_sum_of_products_2_spec. Qed.
Theorem GenDerive_bn254fr_sop_branch : forall ab,
  (length ab <= 3)%nat -> sum_of_products true gen_bn254fr_modulus ab = sop_interleaved_ab gen_bn254fr_modulus ab.
Proof. exact gen_bn254fr_sop_branch. Qed.
Theorem GenDerive_bn254fr_sum_of_products_1_eq : forall a0l0 a0l1 a0l2 a0l3 b0l0 b0l1 b0l2 b0l3,
  gen_bn254fr_sum_of_products_1 (inv_of gen_bn254fr_modulus) a0l0 a0l1 a0l2 a0l3 b0l0 b0l1 b0l2 b0l3 = sop_interleaved_ab gen_bn254fr_modulus
    [([a0l0; a0l1; a0l2; a0l3], [b0l0; b0l1; b0l2; b0l3])].
Proof. exact gen_bn254fr_sum_of_products_1_eq. Qed.
Theorem GenDerive_bn254fr_sum_of_products_1_spec : forall a0l0 a0l1 a0l2 a0l3 b0l0 b0l1 b0l2 b0l3,
  let ab := [([a0l0; a0l1; a0l2; a0l3], [b0l0; b0l1; b0l2; b0l3])] in
  Forall (okpair gen_bn254fr_modulus) ab ->
  let r := gen_bn254fr_sum_of_products_1 (inv_of gen_bn254fr_modulus) a0l0 a0l1 a0l2 a0l3 b0l0 b0l1 b0l2 b0l3 in
  r = sum_of_products true gen_bn254fr_modulus ab /\ elem_ok gen_bn254fr_modulus r /\ std gen_bn254fr_modulus r = dot gen_bn254fr_modulus ab 0 mod gen_bn254fr_modulus_attr.
Proof. exact gen_bn254fr_sum_of_products_1_spec. Qed.
Theorem GenDerive_bn254fr_sum_of_products_2_eq : forall a0l0 a0l1 a0l2 a0l3 a1l0 a1l1 a1l2 a1l3 b0l0 b0l1 b0l2 b0l3 b1l0 b1l1 b1l2 b1l3,
  gen_bn254fr_sum_of_products_2 (inv_of gen_bn254fr_modulus) a0l0 a0l1 a0l2 a0l3 a1l0 a1l1 a1l2 a1l3 b0l0 b0l1 b0l2 b0l3 b1l0 b1l1 b1l2 b1l3 = sop_interleaved_ab gen_bn254fr_modulus
    [([a0l0; a0l1; a0l2; a0l3], [b0l0; b0l1; b0l2; b0l3]); ([a1l0; a1l1; a1l2; a1l3], [b1l0; b1l1; b1l2; b1l3])].
Proof. exact gen_bn254fr_sum_of_products_2_eq. Qed.
Theorem GenDerive_bn254fr_sum_of_products_2_spec : forall a0l0 a0l1 a0l2 a0l3 a1l0 a1l1 a1l2 a1l3 b0l0 b0l1 b0l2 b0l3 b1l0 b1l1 b1l2 b1l3,
  let ab := [([a0l0; a0l1; a0l2; a0l3], [b0l0; b0l1; b0l2; b0l3]); ([a1l0; a1l1; a1l2; a1l3], [b1l0; b1l1; b1l2; b1l3])] in
  Forall (okpair gen_bn254fr_modulus) ab ->
  let r := gen_bn254fr_sum_of_products_2 (inv_of gen_bn254fr_modulus) a0l0 a0l1 a0l2 a0l3 a1l0 a1l1 a1l2 a1l3 b0l0 b0l1 b0l2 b0l3 b1l0 b1l1 b1l2 b1l3 in
  r = sum_of_products true gen_bn254fr_modulus ab /\ elem_ok gen_bn254fr_modulus r /\ std gen_bn254fr_modulus r = dot gen_bn254fr_modulus ab 0 mod gen_bn254fr_modulus_attr.
Proof. exact gen_bn254fr_sum_of_products_2_spec. Qed.
Theorem GenDerive_bn254fr_sum_of_products_3_eq : forall a0l0 a0l1 a0l2 a0l3 a1l0 a1l1 a1l2 a1l3 a2l0 a2l1 a2l2 a2l3 b0l0 b0l1 b0l2 b0l3 b1l0 b1l1 b1l2 b1l3 b2l0 b2l1 b2l2 b2l3,
  gen_bn254fr_sum_of_products_3 (inv_of gen_bn254fr_modulus) a0l0 a0l1 a0l2 a0l3 a1l0 a1l1 a1l2 a1l3 a2l0 a2l1 a2l2 a2l3 b0l0 b0l1 b0l2 b0l3 b1l0 b1l1 b1l2 b1l3 b2l0 b2l1 b2l2 b2l3 = sop_interleaved_ab gen_bn254fr_modulus
    [([a0l0; a0l1; a0l2; a0l3], [b0l0; b0l1; b0l2; b0l3]); ([a1l0; a1l1; a1l2; a1l3], [b1l0; b1l1; b1l2; b1l3]); ([a2l0; a2l1; a2l2; a2l3], [b2l0; b2l1; b2l2; b2l3])].
Proof. exact gen_bn254fr_sum_of_products_3_eq. Qed.
Theorem GenDerive_bn254fr_sum_of_products_3_spec : forall a0l0 a0l1 a0l2 a0l3 a1l0 a1l1 a1l2 a1l3 a2l0 a2l1 a2l2 a2l3 b0l0 b0l1 b0l2 b0l3 b1l0 b1l1 b1l2 b1l3 b2l0 b2l1 b2l2 b2l3,
  let ab := [([a0l0; a0l1; a0l2; a0l3], [b0l0; b0l1; b0l2; b0l3]); ([a1l0; a1l1; a1l2; a1l3], [b1l0; b1l1; b1l2; b1l3]); ([a2l0; a2l1; a2l2; a2l3], [b2l0; b2l1; b2l2; b2l3])] in
  Forall (okpair gen_bn254fr_modulus) ab ->
  let r := gen_bn254fr_sum_of_products_3 (inv_of gen_bn254fr_modulus) a0l0 a0l1 a0l2 a0l3 a1l0 a1l1 a1l2 a1l3 a2l0 a2l1 a2l2 a2l3 b0l0 b0l1 b0l2 b0l3 b1l0 b1l1 b1l2 b1l3 b2l0 b2l1 b2l2 b2l3 in
  r = sum_of_products true gen_bn254fr_modulus ab /\ elem_ok gen_bn254fr_modulus r /\ std gen_bn254fr_modulus r = dot gen_bn254fr_modulus ab 0 mod gen_bn254fr_modulus_attr.
Proof. exact gen_bn254fr_sum_of_products_3_spec. Qed.
Theorem GenDerive_bls381fq_sop_branch : forall ab,
  (length ab <= 5)%nat -> sum_of_products true gen_bls381fq_modulus ab = sop_interleaved_ab gen_bls381fq_modulus ab.
Proof. exact gen_bls381fq_sop_branch. Qed.
Theorem GenDerive_bls381fq_sum_of_products_1_eq : forall a0l0 a0l1 a0l2 a0l3 a0l4 a0l5 b0l0 b0l1 b0l2 b0l3 b0l4 b0l5,
  gen_bls381fq_sum_of_products_1 (inv_of gen_bls381fq_modulus) a0l0 a0l1 a0l2 a0l3 a0l4 a0l5 b0l0 b0l1 b0l2 b0l3 b0l4 b0l5 = sop_interleaved_ab gen_bls381fq_modulus
    [([a0l0; a0l1; a0l2; a0l3; a0l4; a0l5], [b0l0; b0l1; b0l2; b0l3; b0l4; b0l5])].
Proof. exact gen_bls381fq_sum_of_products_1_eq. Qed.
Theorem GenDerive_bls381fq_sum_of_products_1_spec : forall a0l0 a0l1 a0l2 a0l3 a0l4 a0l5 b0l0 b0l1 b0l2 b0l3 b0l4 b0l5,
  let ab := [([a0l0; a0l1; a0l2; a0l3; a0l4; a0l5], [b0l0; b0l1; b0l2; b0l3; b0l4; b0l5])] in
  Forall (okpair gen_bls381fq_modulus) ab ->
  let r := gen_bls381fq_sum_of_products_1 (inv_of gen_bls381fq_modulus) a0l0 a0l1 a0l2 a0l3 a0l4 a0l5 b0l0 b0l1 b0l2 b0l3 b0l4 b0l5 in
  r = sum_of_products true gen_bls381fq_modulus ab /\ elem_ok gen_bls381fq_modulus r /\ std gen_bls381fq_modulus r = dot gen_bls381fq_modulus ab 0 mod gen_bls381fq_modulus_attr.
Proof. exact gen_bls381fq_sum_of_products_1_spec. Qed.

(* ================= GenShift: BigInt shifts by concrete amounts (N = 1..4) ================= *)
Theorem GenDerive_muln_1_eq : forall a0,
  gen_muln_1_0 a0 = shl [a0] 0 /\
  gen_muln_1_1 a0 = shl [a0] 1 /\
  gen_muln_1_63 a0 = shl [a0] 63 /\
  gen_muln_1_64 a0 = shl [a0] 64 /\
  gen_muln_1_65 a0 = shl [a0] 65 /\
  gen_muln_1_127 a0 = shl [a0] 127 /\
  gen_muln_1_128 a0 = shl [a0] 128.
Proof. exact gen_muln_1_eq. Qed.
Theorem GenDerive_muln_1_spec : forall a0,
  wf [a0] ->
  (wf (gen_muln_1_0 a0) /\ val (gen_muln_1_0 a0) = (val [a0] * 2 ^ 0) mod Wn 1) /\
  (wf (gen_muln_1_1 a0) /\ val (gen_muln_1_1 a0) = (val [a0] * 2 ^ 1) mod Wn 1) /\
  (wf (gen_muln_1_63 a0) /\ val (gen_muln_1_63 a0) = (val [a0] * 2 ^ 63) mod Wn 1) /\
  (wf (gen_muln_1_64 a0) /\ val (gen_muln_1_64 a0) = (val [a0] * 2 ^ 64) mod Wn 1) /\
  (wf (gen_muln_1_65 a0) /\ val (gen_muln_1_65 a0) = (val [a0] * 2 ^ 65) mod Wn 1) /\
  (wf (gen_muln_1_127 a0) /\ val (gen_muln_1_127 a0) = (val [a0] * 2 ^ 127) mod Wn 1) /\
  (wf (gen_muln_1_128 a0) /\ val (gen_muln_1_128 a0) = (val [a0] * 2 ^ 128) mod Wn 1).
Proof. exact gen_muln_1_spec. Qed.
Theorem GenDerive_muln_2_eq : forall a0 a1,
  gen_muln_2_0 a0 a1 = shl [a0; a1] 0 /\
  gen_muln_2_1 a0 a1 = shl [a0; a1] 1 /\
  gen_muln_2_63 a0 a1 = shl [a0; a1] 63 /\
  gen_muln_2_64 a0 a1 = shl [a0; a1] 64 /\
  gen_muln_2_65 a0 a1 = shl [a0; a1] 65 /\
  gen_muln_2_127 a0 a1 = shl [a0; a1] 127 /\
  gen_muln_2_128 a0 a1 = shl [a0; a1] 128 /\
  gen_muln_2_129 a0 a1 = shl [a0; a1] 129.
Proof. exact gen_muln_2_eq. Qed.
Theorem GenDerive_muln_2_spec : forall a0 a1,
  wf [a0; a1] ->
  (wf (gen_muln_2_0 a0 a1) /\ val (gen_muln_2_0 a0 a1) = (val [a0; a1] * 2 ^ 0) mod Wn 2) /\
  (wf (gen_muln_2_1 a0 a1) /\ val (gen_muln_2_1 a0 a1) = (val [a0; a1] * 2 ^ 1) mod Wn 2) /\
  (wf (gen_muln_2_63 a0 a1) /\ val (gen_muln_2_63 a0 a1) = (val [a0; a1] * 2 ^ 63) mod Wn 2) /\
  (wf (gen_muln_2_64 a0 a1) /\ val (gen_muln_2_64 a0 a1) = (val [a0; a1] * 2 ^ 64) mod Wn 2) /\
  (wf (gen_muln_2_65 a0 a1) /\ val (gen_muln_2_65 a0 a1) = (val [a0; a1] * 2 ^ 65) mod Wn 2) /\
  (wf (gen_muln_2_127 a0 a1) /\ val (gen_muln_2_127 a0 a1) = (val [a0; a1] * 2 ^ 127) mod Wn 2) /\
  (wf (gen_muln_2_128 a0 a1) /\ val (gen_muln_2_128 a0 a1) = (val [a0; a1] * 2 ^ 128) mod Wn 2) /\
  (wf (gen_muln_2_129 a0 a1) /\ val (gen_muln_2_129 a0 a1) = (val [a0; a1] * 2 ^ 129) mod Wn 2).
Proof. exact gen_muln_2_spec. Qed.
Theorem GenDerive_muln_3_eq : forall a0 a1 a2,
  gen_muln_3_0 a0 a1 a2 = shl [a0; a1; a2] 0 /\
  gen_muln_3_1 a0 a1 a2 = shl [a0; a1; a2] 1 /\
  gen_muln_3_63 a0 a1 a2 = shl [a0; a1; a2] 63 /\
  gen_muln_3_64 a0 a1 a2 = shl [a0; a1; a2] 64 /\
  gen_muln_3_65 a0 a1 a2 = shl [a0; a1; a2] 65 /\
  gen_muln_3_127 a0 a1 a2 = shl [a0; a1; a2] 127 /\
  gen_muln_3_128 a0 a1 a2 = shl [a0; a1; a2] 128 /\
  gen_muln_3_191 a0 a1 a2 = shl [a0; a1; a2] 191 /\
  gen_muln_3_192 a0 a1 a2 = shl [a0; a1; a2] 192 /\
  gen_muln_3_193 a0 a1 a2 = shl [a0; a1; a2] 193.
Proof. exact gen_muln_3_eq. Qed.
Theorem GenDerive_muln_3_spec : forall a0 a1 a2,
  wf [a0; a1; a2] ->
  (wf (gen_muln_3_0 a0 a1 a2) /\ val (gen_muln_3_0 a0 a1 a2) = (val [a0; a1; a2] * 2 ^ 0) mod Wn 3) /\
  (wf (gen_muln_3_1 a0 a1 a2) /\ val (gen_muln_3_1 a0 a1 a2) = (val [a0; a1; a2] * 2 ^ 1) mod Wn 3) /\
  (wf (gen_muln_3_63 a0 a1 a2) /\ val (gen_muln_3_63 a0 a1 a2) = (val [a0; a1; a2] * 2 ^ 63) mod Wn 3) /\
  (wf (gen_muln_3_64 a0 a1 a2) /\ val (gen_muln_3_64 a0 a1 a2) = (val [a0; a1; a2] * 2 ^ 64) mod Wn 3) /\
  (wf (gen_muln_3_65 a0 a1 a2) /\ val (gen_muln_3_65 a0 a1 a2) = (val [a0; a1; a2] * 2 ^ 65) mod Wn 3) /\
  (wf (gen_muln_3_127 a0 a1 a2) /\ val (gen_muln_3_127 a0 a1 a2) = (val [a0; a1; a2] * 2 ^ 127) mod Wn 3) /\
  (wf (gen_muln_3_128 a0 a1 a2) /\ val (gen_muln_3_128 a0 a1 a2) = (val [a0; a1; a2] * 2 ^ 128) mod Wn 3) /\
  (wf (gen_muln_3_191 a0 a1 a2) /\ val (gen_muln_3_191 a0 a1 a2) = (val [a0; a1; a2] * 2 ^ 191) mod Wn 3) /\
  (wf (gen_muln_3_192 a0 a1 a2) /\ val (gen_muln_3_192 a0 a1 a2) = (val [a0; a1; a2] * 2 ^ 192) mod Wn 3) /\
  (wf (gen_muln_3_193 a0 a1 a2) /\ val (gen_muln_3_193 a0 a1 a2) = (val [a0; a1; a2] * 2 ^ 193) mod Wn 3).
Proof. exact gen_muln_3_spec. Qed.
Theorem GenDerive_muln_4_eq : forall a0 a1 a2 a3,
  gen_muln_4_0 a0 a1 a2 a3 = shl [a0; a1; a2; a3] 0 /\
  gen_muln_4_1 a0 a1 a2 a3 = shl [a0; a1; a2; a3] 1 /\
  gen_muln_4_63 a0 a1 a2 a3 = shl [a0; a1; a2; a3] 63 /\
  gen_muln_4_64 a0 a1 a2 a3 = shl [a0; a1; a2; a3] 64 /\
  gen_muln_4_65 a0 a1 a2 a3 = shl [a0; a1; a2; a3] 65 /\
  gen_muln_4_127 a0 a1 a2 a3 = shl [a0; a1; a2; a3] 127 /\
  gen_muln_4_128 a0 a1 a2 a3 = shl [a0; a1; a2; a3] 128 /\
  gen_muln_4_255 a0 a1 a2 a3 = shl [a0; a1; a2; a3] 255 /\
  gen_muln_4_256 a0 a1 a2 a3 = shl [a0; a1; a2; a3] 256 /\
  gen_muln_4_257 a0 a1 a2 a3 = shl [a0; a1; a2; a3] 257.
Proof. exact gen_muln_4_eq. Qed.
Theorem GenDerive_muln_4_spec : forall a0 a1 a2 a3,
  wf [a0; a1; a2; a3] ->
  (wf (gen_muln_4_0 a0 a1 a2 a3) /\ val (gen_muln_4_0 a0 a1 a2 a3) = (val [a0; a1; a2; a3] * 2 ^ 0) mod Wn 4) /\
  (wf (gen_muln_4_1 a0 a1 a2 a3) /\ val (gen_muln_4_1 a0 a1 a2 a3) = (val [a0; a1; a2; a3] * 2 ^ 1) mod Wn 4) /\
  (wf (gen_muln_4_63 a0 a1 a2 a3) /\ val (gen_muln_4_63 a0 a1 a2 a3) = (val [a0; a1; a2; a3] * 2 ^ 63) mod Wn 4) /\
  (wf (gen_muln_4_64 a0 a1 a2 a3) /\ val (gen_muln_4_64 a0 a1 a2 a3) = (val [a0; a1; a2; a3] * 2 ^ 64) mod Wn 4) /\
  (wf (gen_muln_4_65 a0 a1 a2 a3) /\ val (gen_muln_4_65 a0 a1 a2 a3) = (val [a0; a1; a2; a3] * 2 ^ 65) mod Wn 4) /\
  (wf (gen_muln_4_127 a0 a1 a2 a3) /\ val (gen_muln_4_127 a0 a1 a2 a3) = (val [a0; a1; a2; a3] * 2 ^ 127) mod Wn 4) /\
  (wf (gen_muln_4_128 a0 a1 a2 a3) /\ val (gen_muln_4_128 a0 a1 a2 a3) = (val [a0; a1; a2; a3] * 2 ^ 128) mod Wn 4) /\
  (wf (gen_muln_4_255 a0 a1 a2 a3) /\ val (gen_muln_4_255 a0 a1 a2 a3) = (val [a0; a1; a2; a3] * 2 ^ 255) mod Wn 4) /\
  (wf (gen_muln_4_256 a0 a1 a2 a3) /\ val (gen_muln_4_256 a0 a1 a2 a3) = (val [a0; a1; a2; a3] * 2 ^ 256) mod Wn 4) /\
  (wf (gen_muln_4_257 a0 a1 a2 a3) /\ val (gen_muln_4_257 a0 a1 a2 a3) = (val [a0; a1; a2; a3] * 2 ^ 257) mod Wn 4).
Proof. exact gen_muln_4_spec. Qed.
Theorem GenDerive_divn_1_eq : forall a0,
  gen_divn_1_0 a0 = shr [a0] 0 /\
  gen_divn_1_1 a0 = shr [a0] 1 /\
  gen_divn_1_63 a0 = shr [a0] 63 /\
  gen_divn_1_64 a0 = shr [a0] 64 /\
  gen_divn_1_65 a0 = shr [a0] 65 /\
  gen_divn_1_127 a0 = shr [a0] 127 /\
  gen_divn_1_128 a0 = shr [a0] 128.
Proof. exact gen_divn_1_eq. Qed.
Theorem GenDerive_divn_1_spec : forall a0,
  wf [a0] ->
  (wf (gen_divn_1_0 a0) /\ val (gen_divn_1_0 a0) = val [a0] / 2 ^ 0) /\
  (wf (gen_divn_1_1 a0) /\ val (gen_divn_1_1 a0) = val [a0] / 2 ^ 1) /\
  (wf (gen_divn_1_63 a0) /\ val (gen_divn_1_63 a0) = val [a0] / 2 ^ 63) /\
  (wf (gen_divn_1_64 a0) /\ val (gen_divn_1_64 a0) = val [a0] / 2 ^ 64) /\
  (wf (gen_divn_1_65 a0) /\ val (gen_divn_1_65 a0) = val [a0] / 2 ^ 65) /\
  (wf (gen_divn_1_127 a0) /\ val (gen_divn_1_127 a0) = val [a0] / 2 ^ 127) /\
  (wf (gen_divn_1_128 a0) /\ val (gen_divn_1_128 a0) = val [a0] / 2 ^ 128).
Proof. exact gen_divn_1_spec. Qed.
Theorem GenDerive_divn_2_eq : forall a0 a1,
  gen_divn_2_0 a0 a1 = shr [a0; a1] 0 /\
  gen_divn_2_1 a0 a1 = shr [a0; a1] 1 /\
  gen_divn_2_63 a0 a1 = shr [a0; a1] 63 /\
  gen_divn_2_64 a0 a1 = shr [a0; a1] 64 /\
  gen_divn_2_65 a0 a1 = shr [a0; a1] 65 /\
  gen_divn_2_127 a0 a1 = shr [a0; a1] 127 /\
  gen_divn_2_128 a0 a1 = shr [a0; a1] 128 /\
  gen_divn_2_129 a0 a1 = shr [a0; a1] 129.
Proof. exact gen_divn_2_eq. Qed.
Theorem GenDerive_divn_2_spec : forall a0 a1,
  wf [a0; a1] ->
  (wf (gen_divn_2_0 a0 a1) /\ val (gen_divn_2_0 a0 a1) = val [a0; a1] / 2 ^ 0) /\
  (wf (gen_divn_2_1 a0 a1) /\ val (gen_divn_2_1 a0 a1) = val [a0; a1] / 2 ^ 1) /\
  (wf (gen_divn_2_63 a0 a1) /\ val (gen_divn_2_63 a0 a1) = val [a0; a1] / 2 ^ 63) /\
  (wf (gen_divn_2_64 a0 a1) /\ val (gen_divn_2_64 a0 a1) = val [a0; a1] / 2 ^ 64) /\
  (wf (gen_divn_2_65 a0 a1) /\ val (gen_divn_2_65 a0 a1) = val [a0; a1] / 2 ^ 65) /\
  (wf (gen_divn_2_127 a0 a1) /\ val (gen_divn_2_127 a0 a1) = val [a0; a1] / 2 ^ 127) /\
  (wf (gen_divn_2_128 a0 a1) /\ val (gen_divn_2_128 a0 a1) = val [a0; a1] / 2 ^ 128) /\
  (wf (gen_divn_2_129 a0 a1) /\ val (gen_divn_2_129 a0 a1) = val [a0; a1] / 2 ^ 129).
Proof. exact gen_divn_2_spec. Qed.
Theorem GenDerive_divn_3_eq : forall a0 a1 a2,
  gen_divn_3_0 a0 a1 a2 = shr [a0; a1; a2] 0 /\
  gen_divn_3_1 a0 a1 a2 = shr [a0; a1; a2] 1 /\
  gen_divn_3_63 a0 a1 a2 = shr [a0; a1; a2] 63 /\
  gen_divn_3_64 a0 a1 a2 = shr [a0; a1; a2] 64 /\
  gen_divn_3_65 a0 a1 a2 = shr [a0; a1; a2] 65 /\
  gen_divn_3_127 a0 a1 a2 = shr [a0; a1; a2] 127 /\
  gen_divn_3_128 a0 a1 a2 = shr [a0; a1; a2] 128 /\
  gen_divn_3_191 a0 a1 a2 = shr [a0; a1; a2] 191 /\
  gen_divn_3_192 a0 a1 a2 = shr [a0; a1; a2] 192 /\
  gen_divn_3_193 a0 a1 a2 = shr [a0; a1; a2] 193.
Proof. exact gen_divn_3_eq. Qed.
Theorem GenDerive_divn_3_spec : forall a0 a1 a2,
  wf [a0; a1; a2] ->
  (wf (gen_divn_3_0 a0 a1 a2) /\ val (gen_divn_3_0 a0 a1 a2) = val [a0; a1; a2] / 2 ^ 0) /\
  (wf (gen_divn_3_1 a0 a1 a2) /\ val (gen_divn_3_1 a0 a1 a2) = val [a0; a1; a2] / 2 ^ 1) /\
  (wf (gen_divn_3_63 a0 a1 a2) /\ val (gen_divn_3_63 a0 a1 a2) = val [a0; a1; a2] / 2 ^ 63) /\
  (wf (gen_divn_3_64 a0 a1 a2) /\ val (gen_divn_3_64 a0 a1 a2) = val [a0; a1; a2] / 2 ^ 64) /\
  (wf (gen_divn_3_65 a0 a1 a2) /\ val (gen_divn_3_65 a0 a1 a2) = val [a0; a1; a2] / 2 ^ 65) /\
  (wf (gen_divn_3_127 a0 a1 a2) /\ val (gen_divn_3_127 a0 a1 a2) = val [a0; a1; a2] / 2 ^ 127) /\
  (wf (gen_divn_3_128 a0 a1 a2) /\ val (gen_divn_3_128 a0 a1 a2) = val [a0; a1; a2] / 2 ^ 128) /\
  (wf (gen_divn_3_191 a0 a1 a2) /\ val (gen_divn_3_191 a0 a1 a2) = val [a0; a1; a2] / 2 ^ 191) /\
  (wf (gen_divn_3_192 a0 a1 a2) /\ val (gen_divn_3_192 a0 a1 a2) = val [a0; a1; a2] / 2 ^ 192) /\
  (wf (gen_divn_3_193 a0 a1 a2) /\ val (gen_divn_3_193 a0 a1 a2) = val [a0; a1; a2] / 2 ^ 193).
Proof. exact gen_divn_3_spec. Qed.
Theorem GenDerive_divn_4_eq : forall a0 a1 a2 a3,
  gen_divn_4_0 a0 a1 a2 a3 = shr [a0; a1; a2; a3] 0 /\
  gen_divn_4_1 a0 a1 a2 a3 = shr [a0; a1; a2; a3] 1 /\
  gen_divn_4_63 a0 a1 a2 a3 = shr [a0; a1; a2; a3] 63 /\
  gen_divn_4_64 a0 a1 a2 a3 = shr [a0; a1; a2; a3] 64 /\
  gen_divn_4_65 a0 a1 a2 a3 = shr [a0; a1; a2; a3] 65 /\
  gen_divn_4_127 a0 a1 a2 a3 = shr [a0; a1; a2; a3] 127 /\
  gen_divn_4_128 a0 a1 a2 a3 = shr [a0; a1; a2; a3] 128 /\
  gen_divn_4_255 a0 a1 a2 a3 = shr [a0; a1; a2; a3] 255 /\
  gen_divn_4_256 a0 a1 a2 a3 = shr [a0; a1; a2; a3] 256 /\
  gen_divn_4_257 a0 a1 a2 a3 = shr [a0; a1; a2; a3] 257.
Proof. exact gen_divn_4_eq. Qed.
Theorem GenDerive_divn_4_spec : forall a0 a1 a2 a3,
  wf [a0; a1; a2; a3] ->
  (wf (gen_divn_4_0 a0 a1 a2 a3) /\ val (gen_divn_4_0 a0 a1 a2 a3) = val [a0; a1; a2; a3] / 2 ^ 0) /\
  (wf (gen_divn_4_1 a0 a1 a2 a3) /\ val (gen_divn_4_1 a0 a1 a2 a3) = val [a0; a1; a2; a3] / 2 ^ 1) /\
  (wf (gen_divn_4_63 a0 a1 a2 a3) /\ val (gen_divn_4_63 a0 a1 a2 a3) = val [a0; a1; a2; a3] / 2 ^ 63) /\
  (wf (gen_divn_4_64 a0 a1 a2 a3) /\ val (gen_divn_4_64 a0 a1 a2 a3) = val [a0; a1; a2; a3] / 2 ^ 64) /\
  (wf (gen_divn_4_65 a0 a1 a2 a3) /\ val (gen_divn_4_65 a0 a1 a2 a3) = val [a0; a1; a2; a3] / 2 ^ 65) /\
  (wf (gen_divn_4_127 a0 a1 a2 a3) /\ val (gen_divn_4_127 a0 a1 a2 a3) = val [a0; a1; a2; a3] / 2 ^ 127) /\
  (wf (gen_divn_4_128 a0 a1 a2 a3) /\ val (gen_divn_4_128 a0 a1 a2 a3) = val [a0; a1; a2; a3] / 2 ^ 128) /\
  (wf (gen_divn_4_255 a0 a1 a2 a3) /\ val (gen_divn_4_255 a0 a1 a2 a3) = val [a0; a1; a2; a3] / 2 ^ 255) /\
  (wf (gen_divn_4_256 a0 a1 a2 a3) /\ val (gen_divn_4_256 a0 a1 a2 a3) = val [a0; a1; a2; a3] / 2 ^ 256) /\
  (wf (gen_divn_4_257 a0 a1 a2 a3) /\ val (gen_divn_4_257 a0 a1 a2 a3) = val [a0; a1; a2; a3] / 2 ^ 257).
Proof. exact gen_divn_4_spec. Qed.
Theorem GenDerive_shl_assign_1_eq : forall a0,
  gen_shl_assign_1_0 a0 = shl [a0] 0 /\
  gen_shl_assign_1_1 a0 = shl [a0] 1 /\
  gen_shl_assign_1_63 a0 = shl [a0] 63 /\
  gen_shl_assign_1_64 a0 = shl [a0] 64 /\
  gen_shl_assign_1_65 a0 = shl [a0] 65 /\
  gen_shl_assign_1_127 a0 = shl [a0] 127 /\
  gen_shl_assign_1_128 a0 = shl [a0] 128.
Proof. exact gen_shl_assign_1_eq. Qed.
Theorem GenDerive_shl_assign_1_spec : forall a0,
  wf [a0] ->
  (wf (gen_shl_assign_1_0 a0) /\ val (gen_shl_assign_1_0 a0) = (val [a0] * 2 ^ 0) mod Wn 1) /\
  (wf (gen_shl_assign_1_1 a0) /\ val (gen_shl_assign_1_1 a0) = (val [a0] * 2 ^ 1) mod Wn 1) /\
  (wf (gen_shl_assign_1_63 a0) /\ val (gen_shl_assign_1_63 a0) = (val [a0] * 2 ^ 63) mod Wn 1) /\
  (wf (gen_shl_assign_1_64 a0) /\ val (gen_shl_assign_1_64 a0) = (val [a0] * 2 ^ 64) mod Wn 1) /\
  (wf (gen_shl_assign_1_65 a0) /\ val (gen_shl_assign_1_65 a0) = (val [a0] * 2 ^ 65) mod Wn 1) /\
  (wf (gen_shl_assign_1_127 a0) /\ val (gen_shl_assign_1_127 a0) = (val [a0] * 2 ^ 127) mod Wn 1) /\
  (wf (gen_shl_assign_1_128 a0) /\ val (gen_shl_assign_1_128 a0) = (val [a0] * 2 ^ 128) mod Wn 1).
Proof. exact gen_shl_assign_1_spec. Qed.
Theorem GenDerive_shl_assign_2_eq : forall a0 a1,
  gen_shl_assign_2_0 a0 a1 = shl [a0; a1] 0 /\
  gen_shl_assign_2_1 a0 a1 = shl [a0; a1] 1 /\
  gen_shl_assign_2_63 a0 a1 = shl [a0; a1] 63 /\
  gen_shl_assign_2_64 a0 a1 = shl [a0; a1] 64 /\
  gen_shl_assign_2_65 a0 a1 = shl [a0; a1] 65 /\
  gen_shl_assign_2_127 a0 a1 = shl [a0; a1] 127 /\
  gen_shl_assign_2_128 a0 a1 = shl [a0; a1] 128 /\
  gen_shl_assign_2_129 a0 a1 = shl [a0; a1] 129.
Proof. exact gen_shl_assign_2_eq. Qed.
Theorem GenDerive_shl_assign_2_spec : forall a0 a1,
  wf [a0; a1] ->
  (wf (gen_shl_assign_2_0 a0 a1) /\ val (gen_shl_assign_2_0 a0 a1) = (val [a0; a1] * 2 ^ 0) mod Wn 2) /\
  (wf (gen_shl_assign_2_1 a0 a1) /\ val (gen_shl_assign_2_1 a0 a1) = (val [a0; a1] * 2 ^ 1) mod Wn 2) /\
  (wf (gen_shl_assign_2_63 a0 a1) /\ val (gen_shl_assign_2_63 a0 a1) = (val [a0; a1] * 2 ^ 63) mod Wn 2) /\
  (wf (gen_shl_assign_2_64 a0 a1) /\ val (gen_shl_assign_2_64 a0 a1) = (val [a0; a1] * 2 ^ 64) mod Wn 2) /\
  (wf (gen_shl_assign_2_65 a0 a1) /\ val (gen_shl_assign_2_65 a0 a1) = (val [a0; a1] * 2 ^ 65) mod Wn 2) /\
  (wf (gen_shl_assign_2_127 a0 a1) /\ val (gen_shl_assign_2_127 a0 a1) = (val [a0; a1] * 2 ^ 127) mod Wn 2) /\
  (wf (gen_shl_assign_2_128 a0 a1) /\ val (gen_shl_assign_2_128 a0 a1) = (val [a0; a1] * 2 ^ 128) mod Wn 2) /\
  (wf (gen_shl_assign_2_129 a0 a1) /\ val (gen_shl_assign_2_129 a0 a1) = (val [a0; a1] * 2 ^ 129) mod Wn 2).
Proof. exact gen_shl_assign_2_spec. Qed.
Theorem GenDerive_shl_assign_3_eq : forall a0 a1 a2,
  gen_shl_assign_3_0 a0 a1 a2 = shl [a0; a1; a2] 0 /\
  gen_shl_assign_3_1 a0 a1 a2 = shl [a0; a1; a2] 1 /\
  gen_shl_assign_3_63 a0 a1 a2 = shl [a0; a1; a2] 63 /\
  gen_shl_assign_3_64 a0 a1 a2 = shl [a0; a1; a2] 64 /\
  gen_shl_assign_3_65 a0 a1 a2 = shl [a0; a1; a2] 65 /\
  gen_shl_assign_3_127 a0 a1 a2 = shl [a0; a1; a2] 127 /\
  gen_shl_assign_3_128 a0 a1 a2 = shl [a0; a1; a2] 128 /\
  gen_shl_assign_3_191 a0 a1 a2 = shl [a0; a1; a2] 191 /\
  gen_shl_assign_3_192 a0 a1 a2 = shl [a0; a1; a2] 192 /\
  gen_shl_assign_3_193 a0 a1 a2 = shl [a0; a1; a2] 193.
Proof. exact gen_shl_assign_3_eq. Qed.
Theorem GenDerive_shl_assign_3_spec : forall a0 a1 a2,
  wf [a0; a1; a2] ->
  (wf (gen_shl_assign_3_0 a0 a1 a2) /\ val (gen_shl_assign_3_0 a0 a1 a2) = (val [a0; a1; a2] * 2 ^ 0) mod Wn 3) /\
  (wf (gen_shl_assign_3_1 a0 a1 a2) /\ val (gen_shl_assign_3_1 a0 a1 a2) = (val [a0; a1; a2] * 2 ^ 1) mod Wn 3) /\
  (wf (gen_shl_assign_3_63 a0 a1 a2) /\ val (gen_shl_assign_3_63 a0 a1 a2) = (val [a0; a1; a2] * 2 ^ 63) mod Wn 3) /\
  (wf (gen_shl_assign_3_64 a0 a1 a2) /\ val (gen_shl_assign_3_64 a0 a1 a2) = (val [a0; a1; a2] * 2 ^ 64) mod Wn 3) /\
  (wf (gen_shl_assign_3_65 a0 a1 a2) /\ val (gen_shl_assign_3_65 a0 a1 a2) = (val [a0; a1; a2] * 2 ^ 65) mod Wn 3) /\
  (wf (gen_shl_assign_3_127 a0 a1 a2) /\ val (gen_shl_assign_3_127 a0 a1 a2) = (val [a0; a1; a2] * 2 ^ 127) mod Wn 3) /\
  (wf (gen_shl_assign_3_128 a0 a1 a2) /\ val (gen_shl_assign_3_128 a0 a1 a2) = (val [a0; a1; a2] * 2 ^ 128) mod Wn 3) /\
  (wf (gen_shl_assign_3_191 a0 a1 a2) /\ val (gen_shl_assign_3_191 a0 a1 a2) = (val [a0; a1; a2] * 2 ^ 191) mod Wn 3) /\
  (wf (gen_shl_assign_3_192 a0 a1 a2) /\ val (gen_shl_assign_3_192 a0 a1 a2) = (val [a0; a1; a2] * 2 ^ 192) mod Wn 3) /\
  (wf (gen_shl_assign_3_193 a0 a1 a2) /\ val (gen_shl_assign_3_193 a0 a1 a2) = (val [a0; a1; a2] * 2 ^ 193) mod Wn 3).
Proof. exact gen_shl_assign_3_spec. Qed.
Theorem GenDerive_shl_assign_4_eq : forall a0 a1 a2 a3,
  gen_shl_assign_4_0 a0 a1 a2 a3 = shl [a0; a1; a2; a3] 0 /\
  gen_shl_assign_4_1 a0 a1 a2 a3 = shl [a0; a1; a2; a3] 1 /\
  gen_shl_assign_4_63 a0 a1 a2 a3 = shl [a0; a1; a2; a3] 63 /\
  gen_shl_assign_4_64 a0 a1 a2 a3 = shl [a0; a1; a2; a3] 64 /\
  gen_shl_assign_4_65 a0 a1 a2 a3 = shl [a0; a1; a2; a3] 65 /\
  gen_shl_assign_4_127 a0 a1 a2 a3 = shl [a0; a1; a2; a3] 127 /\
  gen_shl_assign_4_128 a0 a1 a2 a3 = shl [a0; a1; a2; a3] 128 /\
  gen_shl_assign_4_255 a0 a1 a2 a3 = shl [a0; a1; a2; a3] 255 /\
  gen_shl_assign_4_256 a0 a1 a2 a3 = shl [a0; a1; a2; a3] 256 /\
  gen_shl_assign_4_257 a0 a1 a2 a3 = shl [a0; a1; a2; a3] 257.
Proof. exact gen_shl_assign_4_eq. Qed.
Theorem GenDerive_shl_assign_4_spec : forall a0 a1 a2 a3,
  wf [a0; a1; a2; a3] ->
  (wf (gen_shl_assign_4_0 a0 a1 a2 a3) /\ val (gen_shl_assign_4_0 a0 a1 a2 a3) = (val [a0; a1; a2; a3] * 2 ^ 0) mod Wn 4) /\
  (wf (gen_shl_assign_4_1 a0 a1 a2 a3) /\ val (gen_shl_assign_4_1 a0 a1 a2 a3) = (val [a0; a1; a2; a3] * 2 ^ 1) mod Wn 4) /\
  (wf (gen_shl_assign_4_63 a0 a1 a2 a3) /\ val (gen_shl_assign_4_63 a0 a1 a2 a3) = (val [a0; a1; a2; a3] * 2 ^ 63) mod Wn 4) /\
  (wf (gen_shl_assign_4_64 a0 a1 a2 a3) /\ val (gen_shl_assign_4_64 a0 a1 a2 a3) = (val [a0; a1; a2; a3] * 2 ^ 64) mod Wn 4) /\
  (wf (gen_shl_assign_4_65 a0 a1 a2 a3) /\ val (gen_shl_assign_4_65 a0 a1 a2 a3) = (val [a0; a1; a2; a3] * 2 ^ 65) mod Wn 4) /\
  (wf (gen_shl_assign_4_127 a0 a1 a2 a3) /\ val (gen_shl_assign_4_127 a0 a1 a2 a3) = (val [a0; a1; a2; a3] * 2 ^ 127) mod Wn 4) /\
  (wf (gen_shl_assign_4_128 a0 a1 a2 a3) /\ val (gen_shl_assign_4_128 a0 a1 a2 a3) = (val [a0; a1; a2; a3] * 2 ^ 128) mod Wn 4) /\
  (wf (gen_shl_assign_4_255 a0 a1 a2 a3) /\ val (gen_shl_assign_4_255 a0 a1 a2 a3) = (val [a0; a1; a2; a3] * 2 ^ 255) mod Wn 4) /\
  (wf (gen_shl_assign_4_256 a0 a1 a2 a3) /\ val (gen_shl_assign_4_256 a0 a1 a2 a3) = (val [a0; a1; a2; a3] * 2 ^ 256) mod Wn 4) /\
  (wf (gen_shl_assign_4_257 a0 a1 a2 a3) /\ val (gen_shl_assign_4_257 a0 a1 a2 a3) = (val [a0; a1; a2; a3] * 2 ^ 257) mod Wn 4).
Proof. exact gen_shl_assign_4_spec. Qed.
Theorem GenDerive_shr_assign_1_eq : forall a0,
  gen_shr_assign_1_0 a0 = shr [a0] 0 /\
  gen_shr_assign_1_1 a0 = shr [a0] 1 /\
  gen_shr_assign_1_63 a0 = shr [a0] 63 /\
  gen_shr_assign_1_64 a0 = shr [a0] 64 /\
  gen_shr_assign_1_65 a0 = shr [a0] 65 /\
  gen_shr_assign_1_127 a0 = shr [a0] 127 /\
  gen_shr_assign_1_128 a0 = shr [a0] 128.
Proof. exact gen_shr_assign_1_eq. Qed.
Theorem GenDerive_shr_assign_1_spec : forall a0,
  wf [a0] ->
  (wf (gen_shr_assign_1_0 a0) /\ val (gen_shr_assign_1_0 a0) = val [a0] / 2 ^ 0) /\
  (wf (gen_shr_assign_1_1 a0) /\ val (gen_shr_assign_1_1 a0) = val [a0] / 2 ^ 1) /\
  (wf (gen_shr_assign_1_63 a0) /\ val (gen_shr_assign_1_63 a0) = val [a0] / 2 ^ 63) /\
  (wf (gen_shr_assign_1_64 a0) /\ val (gen_shr_assign_1_64 a0) = val [a0] / 2 ^ 64) /\
  (wf (gen_shr_assign_1_65 a0) /\ val (gen_shr_assign_1_65 a0) = val [a0] / 2 ^ 65) /\
  (wf (gen_shr_assign_1_127 a0) /\ val (gen_shr_assign_1_127 a0) = val [a0] / 2 ^ 127) /\
  (wf (gen_shr_assign_1_128 a0) /\ val (gen_shr_assign_1_128 a0) = val [a0] / 2 ^ 128).
Proof. exact gen_shr_assign_1_spec. Qed.
Theorem GenDerive_shr_assign_2_eq : forall a0 a1,
  gen_shr_assign_2_0 a0 a1 = shr [a0; a1] 0 /\
  gen_shr_assign_2_1 a0 a1 = shr [a0; a1] 1 /\
  gen_shr_assign_2_63 a0 a1 = shr [a0; a1] 63 /\
  gen_shr_assign_2_64 a0 a1 = shr [a0; a1] 64 /\
  gen_shr_assign_2_65 a0 a1 = shr [a0; a1] 65 /\
  gen_shr_assign_2_127 a0 a1 = shr [a0; a1] 127 /\
  gen_shr_assign_2_128 a0 a1 = shr [a0; a1] 128 /\
  gen_shr_assign_2_129 a0 a1 = shr [a0; a1] 129.
Proof. exact gen_shr_assign_2_eq. Qed.
Theorem GenDerive_shr_assign_2_spec : forall a0 a1,
  wf [a0; a1] ->
  (wf (gen_shr_assign_2_0 a0 a1) /\ val (gen_shr_assign_2_0 a0 a1) = val [a0; a1] / 2 ^ 0) /\
  (wf (gen_shr_assign_2_1 a0 a1) /\ val (gen_shr_assign_2_1 a0 a1) = val [a0; a1] / 2 ^ 1) /\
  (wf (gen_shr_assign_2_63 a0 a1) /\ val (gen_shr_assign_2_63 a0 a1) = val [a0; a1] / 2 ^ 63) /\
  (wf (gen_shr_assign_2_64 a0 a1) /\ val (gen_shr_assign_2_64 a0 a1) = val [a0; a1] / 2 ^ 64) /\
  (wf (gen_shr_assign_2_65 a0 a1) /\ val (gen_shr_assign_2_65 a0 a1) = val [a0; a1] / 2 ^ 65) /\
  (wf (gen_shr_assign_2_127 a0 a1) /\ val (gen_shr_assign_2_127 a0 a1) = val [a0; a1] / 2 ^ 127) /\
  (wf (gen_shr_assign_2_128 a0 a1) /\ val (gen_shr_assign_2_128 a0 a1) = val [a0; a1] / 2 ^ 128) /\
  (wf (gen_shr_assign_2_129 a0 a1) /\ val (gen_shr_assign_2_129 a0 a1) = val [a0; a1] / 2 ^ 129).
Proof. exact gen_shr_assign_2_spec. Qed.
Theorem GenDerive_shr_assign_3_eq : forall a0 a1 a2,
  gen_shr_assign_3_0 a0 a1 a2 = shr [a0; a1; a2] 0 /\
  gen_shr_assign_3_1 a0 a1 a2 = shr [a0; a1; a2] 1 /\
  gen_shr_assign_3_63 a0 a1 a2 = shr [a0; a1; a2] 63 /\
  gen_shr_assign_3_64 a0 a1 a2 = shr [a0; a1; a2] 64 /\
  gen_shr_assign_3_65 a0 a1 a2 = shr [a0; a1; a2] 65 /\
  gen_shr_assign_3_127 a0 a1 a2 = shr [a0; a1; a2] 127 /\
  gen_shr_assign_3_128 a0 a1 a2 = shr [a0; a1; a2] 128 /\
  gen_shr_assign_3_191 a0 a1 a2 = shr [a0; a1; a2] 191 /\
  gen_shr_assign_3_192 a0 a1 a2 = shr [a0; a1; a2] 192 /\
  gen_shr_assign_3_193 a0 a1 a2 = shr [a0; a1; a2] 193.
Proof. exact gen_shr_assign_3_eq. Qed.
Theorem GenDerive_shr_assign_3_spec : forall a0 a1 a2,
  wf [a0; a1; a2] ->
  (wf (gen_shr_assign_3_0 a0 a1 a2) /\ val (gen_shr_assign_3_0 a0 a1 a2) = val [a0; a1; a2] / 2 ^ 0) /\
  (wf (gen_shr_assign_3_1 a0 a1 a2) /\ val (gen_shr_assign_3_1 a0 a1 a2) = val [a0; a1; a2] / 2 ^ 1) /\
  (wf (gen_shr_assign_3_63 a0 a1 a2) /\ val (gen_shr_assign_3_63 a0 a1 a2) = val [a0; a1; a2] / 2 ^ 63) /\
  (wf (gen_shr_assign_3_64 a0 a1 a2) /\ val (gen_shr_assign_3_64 a0 a1 a2) = val [a0; a1; a2] / 2 ^ 64) /\
  (wf (gen_shr_assign_3_65 a0 a1 a2) /\ val (gen_shr_assign_3_65 a0 a1 a2) = val [a0; a1; a2] / 2 ^ 65) /\
  (wf (gen_shr_assign_3_127 a0 a1 a2) /\ val (gen_shr_assign_3_127 a0 a1 a2) = val [a0; a1; a2] / 2 ^ 127) /\
  (wf (gen_shr_assign_3_128 a0 a1 a2) /\ val (gen_shr_assign_3_128 a0 a1 a2) = val [a0; a1; a2] / 2 ^ 128) /\
  (wf (gen_shr_assign_3_191 a0 a1 a2) /\ val (gen_shr_assign_3_191 a0 a1 a2) = val [a0; a1; a2] / 2 ^ 191) /\
  (wf (gen_shr_assign_3_192 a0 a1 a2) /\ val (gen_shr_assign_3_192 a0 a1 a2) = val [a0; a1; a2] / 2 ^ 192) /\
  (wf (gen_shr_assign_3_193 a0 a1 a2) /\ val (gen_shr_assign_3_193 a0 a1 a2) = val [a0; a1; a2] / 2 ^ 193).
Proof. exact gen_shr_assign_3_spec. Qed.
Theorem GenDerive_shr_assign_4_eq : forall a0 a1 a2 a3,
  gen_shr_assign_4_0 a0 a1 a2 a3 = shr [a0; a1; a2; a3] 0 /\
  gen_shr_assign_4_1 a0 a1 a2 a3 = shr [a0; a1; a2; a3] 1 /\
  gen_shr_assign_4_63 a0 a1 a2 a3 = shr [a0; a1; a2; a3] 63 /\
  gen_shr_assign_4_64 a0 a1 a2 a3 = shr [a0; a1; a2; a3] 64 /\
  gen_shr_assign_4_65 a0 a1 a2 a3 = shr [a0; a1; a2; a3] 65 /\
  gen_shr_assign_4_127 a0 a1 a2 a3 = shr [a0; a1; a2; a3] 127 /\
  gen_shr_assign_4_128 a0 a1 a2 a3 = shr [a0; a1; a2; a3] 128 /\
  gen_shr_assign_4_255 a0 a1 a2 a3 = shr [a0; a1; a2; a3] 255 /\
  gen_shr_assign_4_256 a0 a1 a2 a3 = shr [a0; a1; a2; a3] 256 /\
  gen_shr_assign_4_257 a0 a1 a2 a3 = shr [a0; a1; a2; a3] 257.
Proof. exact gen_shr_assign_4_eq. Qed.
Theorem GenDerive_shr_assign_4_spec : forall a0 a1 a2 a3,
  wf [a0; a1; a2; a3] ->
  (wf (gen_shr_assign_4_0 a0 a1 a2 a3) /\ val (gen_shr_assign_4_0 a0 a1 a2 a3) = val [a0; a1; a2; a3] / 2 ^ 0) /\
  (wf (gen_shr_assign_4_1 a0 a1 a2 a3) /\ val (gen_shr_assign_4_1 a0 a1 a2 a3) = val [a0; a1; a2; a3] / 2 ^ 1) /\
  (wf (gen_shr_assign_4_63 a0 a1 a2 a3) /\ val (gen_shr_assign_4_63 a0 a1 a2 a3) = val [a0; a1; a2; a3] / 2 ^ 63) /\
  (wf (gen_shr_assign_4_64 a0 a1 a2 a3) /\ val (gen_shr_assign_4_64 a0 a1 a2 a3) = val [a0; a1; a2; a3] / 2 ^ 64) /\
  (wf (gen_shr_assign_4_65 a0 a1 a2 a3) /\ val (gen_shr_assign_4_65 a0 a1 a2 a3) = val [a0; a1; a2; a3] / 2 ^ 65) /\
  (wf (gen_shr_assign_4_127 a0 a1 a2 a3) /\ val (gen_shr_assign_4_127 a0 a1 a2 a3) = val [a0; a1; a2; a3] / 2 ^ 127) /\
  (wf (gen_shr_assign_4_128 a0 a1 a2 a3) /\ val (gen_shr_assign_4_128 a0 a1 a2 a3) = val [a0; a1; a2; a3] / 2 ^ 128) /\
  (wf (gen_shr_assign_4_255 a0 a1 a2 a3) /\ val (gen_shr_assign_4_255 a0 a1 a2 a3) = val [a0; a1; a2; a3] / 2 ^ 255) /\
  (wf (gen_shr_assign_4_256 a0 a1 a2 a3) /\ val (gen_shr_assign_4_256 a0 a1 a2 a3) = val [a0; a1; a2; a3] / 2 ^ 256) /\
  (wf (gen_shr_assign_4_257 a0 a1 a2 a3) /\ val (gen_shr_assign_4_257 a0 a1 a2 a3) = val [a0; a1; a2; a3] / 2 ^ 257).
Proof. exact gen_shr_assign_4_spec. Qed.
Theorem GenDerive_shl_1_eq : forall a0,
  gen_shl_1_0 a0 = shl [a0] 0 /\
  gen_shl_1_1 a0 = shl [a0] 1 /\
  gen_shl_1_63 a0 = shl [a0] 63 /\
  gen_shl_1_64 a0 = shl [a0] 64 /\
  gen_shl_1_65 a0 = shl [a0] 65 /\
  gen_shl_1_127 a0 = shl [a0] 127 /\
  gen_shl_1_128 a0 = shl [a0] 128.
Proof. exact gen_shl_1_eq. Qed.
Theorem GenDerive_shl_1_spec : forall a0,
  wf [a0] ->
  (wf (gen_shl_1_0 a0) /\ val (gen_shl_1_0 a0) = (val [a0] * 2 ^ 0) mod Wn 1) /\
  (wf (gen_shl_1_1 a0) /\ val (gen_shl_1_1 a0) = (val [a0] * 2 ^ 1) mod Wn 1) /\
  (wf (gen_shl_1_63 a0) /\ val (gen_shl_1_63 a0) = (val [a0] * 2 ^ 63) mod Wn 1) /\
  (wf (gen_shl_1_64 a0) /\ val (gen_shl_1_64 a0) = (val [a0] * 2 ^ 64) mod Wn 1) /\
  (wf (gen_shl_1_65 a0) /\ val (gen_shl_1_65 a0) = (val [a0] * 2 ^ 65) mod Wn 1) /\
  (wf (gen_shl_1_127 a0) /\ val (gen_shl_1_127 a0) = (val [a0] * 2 ^ 127) mod Wn 1) /\
  (wf (gen_shl_1_128 a0) /\ val (gen_shl_1_128 a0) = (val [a0] * 2 ^ 128) mod Wn 1).
Proof. exact gen_shl_1_spec. Qed.
Theorem GenDerive_shl_2_eq : forall a0 a1,
  gen_shl_2_0 a0 a1 = shl [a0; a1] 0 /\
  gen_shl_2_1 a0 a1 = shl [a0; a1] 1 /\
  gen_shl_2_63 a0 a1 = shl [a0; a1] 63 /\
  gen_shl_2_64 a0 a1 = shl [a0; a1] 64 /\
  gen_shl_2_65 a0 a1 = shl [a0; a1] 65 /\
  gen_shl_2_127 a0 a1 = shl [a0; a1] 127 /\
  gen_shl_2_128 a0 a1 = shl [a0; a1] 128 /\
  gen_shl_2_129 a0 a1 = shl [a0; a1] 129.
Proof. exact gen_shl_2_eq. Qed.
Theorem GenDerive_shl_2_spec : forall a0 a1,
  wf [a0; a1] ->
  (wf (gen_shl_2_0 a0 a1) /\ val (gen_shl_2_0 a0 a1) = (val [a0; a1] * 2 ^ 0) mod Wn 2) /\
  (wf (gen_shl_2_1 a0 a1) /\ val (gen_shl_2_1 a0 a1) = (val [a0; a1] * 2 ^ 1) mod Wn 2) /\
  (wf (gen_shl_2_63 a0 a1) /\ val (gen_shl_2_63 a0 a1) = (val [a0; a1] * 2 ^ 63) mod Wn 2) /\
  (wf (gen_shl_2_64 a0 a1) /\ val (gen_shl_2_64 a0 a1) = (val [a0; a1] * 2 ^ 64) mod Wn 2) /\
  (wf (gen_shl_2_65 a0 a1) /\ val (gen_shl_2_65 a0 a1) = (val [a0; a1] * 2 ^ 65) mod Wn 2) /\
  (wf (gen_shl_2_127 a0 a1) /\ val (gen_shl_2_127 a0 a1) = (val [a0; a1] * 2 ^ 127) mod Wn 2) /\
  (wf (gen_shl_2_128 a0 a1) /\ val (gen_shl_2_128 a0 a1) = (val [a0; a1] * 2 ^ 128) mod Wn 2) /\
  (wf (gen_shl_2_129 a0 a1) /\ val (gen_shl_2_129 a0 a1) = (val [a0; a1] * 2 ^ 129) mod Wn 2).
Proof. exact gen_shl_2_spec. Qed.
Theorem GenDerive_shl_3_eq : forall a0 a1 a2,
  gen_shl_3_0 a0 a1 a2 = shl [a0; a1; a2] 0 /\
  gen_shl_3_1 a0 a1 a2 = shl [a0; a1; a2] 1 /\
  gen_shl_3_63 a0 a1 a2 = shl [a0; a1; a2] 63 /\
  gen_shl_3_64 a0 a1 a2 = shl [a0; a1; a2] 64 /\
  gen_shl_3_65 a0 a1 a2 = shl [a0; a1; a2] 65 /\
  gen_shl_3_127 a0 a1 a2 = shl [a0; a1; a2] 127 /\
  gen_shl_3_128 a0 a1 a2 = shl [a0; a1; a2] 128 /\
  gen_shl_3_191 a0 a1 a2 = shl [a0; a1; a2] 191 /\
  gen_shl_3_192 a0 a1 a2 = shl [a0; a1; a2] 192 /\
  gen_shl_3_193 a0 a1 a2 = shl [a0; a1; a2] 193.
Proof. exact gen_shl_3_eq. Qed.
Theorem GenDerive_shl_3_spec : forall a0 a1 a2,
  wf [a0; a1; a2] ->
  (wf (gen_shl_3_0 a0 a1 a2) /\ val (gen_shl_3_0 a0 a1 a2) = (val [a0; a1; a2] * 2 ^ 0) mod Wn 3) /\
  (wf (gen_shl_3_1 a0 a1 a2) /\ val (gen_shl_3_1 a0 a1 a2) = (val [a0; a1; a2] * 2 ^ 1) mod Wn 3) /\
  (wf (gen_shl_3_63 a0 a1 a2) /\ val (gen_shl_3_63 a0 a1 a2) = (val [a0; a1; a2] * 2 ^ 63) mod Wn 3) /\
  (wf (gen_shl_3_64 a0 a1 a2) /\ val (gen_shl_3_64 a0 a1 a2) = (val [a0; a1; a2] * 2 ^ 64) mod Wn 3) /\
  (wf (gen_shl_3_65 a0 a1 a2) /\ val (gen_shl_3_65 a0 a1 a2) = (val [a0; a1; a2] * 2 ^ 65) mod Wn 3) /\
  (wf (gen_shl_3_127 a0 a1 a2) /\ val (gen_shl_3_127 a0 a1 a2) = (val [a0; a1; a2] * 2 ^ 127) mod Wn 3) /\
  (wf (gen_shl_3_128 a0 a1 a2) /\ val (gen_shl_3_128 a0 a1 a2) = (val [a0; a1; a2] * 2 ^ 128) mod Wn 3) /\
  (wf (gen_shl_3_191 a0 a1 a2) /\ val (gen_shl_3_191 a0 a1 a2) = (val [a0; a1; a2] * 2 ^ 191) mod Wn 3) /\
  (wf (gen_shl_3_192 a0 a1 a2) /\ val (gen_shl_3_192 a0 a1 a2) = (val [a0; a1; a2] * 2 ^ 192) mod Wn 3) /\
  (wf (gen_shl_3_193 a0 a1 a2) /\ val (gen_shl_3_193 a0 a1 a2) = (val [a0; a1; a2] * 2 ^ 193) mod Wn 3).
Proof. exact gen_shl_3_spec. Qed.
Theorem GenDerive_shl_4_eq : forall a0 a1 a2 a3,
  gen_shl_4_0 a0 a1 a2 a3 = shl [a0; a1; a2; a3] 0 /\
  gen_shl_4_1 a0 a1 a2 a3 = shl [a0; a1; a2; a3] 1 /\
  gen_shl_4_63 a0 a1 a2 a3 = shl [a0; a1; a2; a3] 63 /\
  gen_shl_4_64 a0 a1 a2 a3 = shl [a0; a1; a2; a3] 64 /\
  gen_shl_4_65 a0 a1 a2 a3 = shl [a0; a1; a2; a3] 65 /\
  gen_shl_4_127 a0 a1 a2 a3 = shl [a0; a1; a2; a3] 127 /\
  gen_shl_4_128 a0 a1 a2 a3 = shl [a0; a1; a2; a3] 128 /\
  gen_shl_4_255 a0 a1 a2 a3 = shl [a0; a1; a2; a3] 255 /\
  gen_shl_4_256 a0 a1 a2 a3 = shl [a0; a1; a2; a3] 256 /\
  gen_shl_4_257 a0 a1 a2 a3 = shl [a0; a1; a2; a3] 257.
Proof. exact gen_shl_4_eq. Qed.
Theorem GenDerive_shl_4_spec : forall a0 a1 a2 a3,
  wf [a0; a1; a2; a3] ->
  (wf (gen_shl_4_0 a0 a1 a2 a3) /\ val (gen_shl_4_0 a0 a1 a2 a3) = (val [a0; a1; a2; a3] * 2 ^ 0) mod Wn 4) /\
  (wf (gen_shl_4_1 a0 a1 a2 a3) /\ val (gen_shl_4_1 a0 a1 a2 a3) = (val [a0; a1; a2; a3] * 2 ^ 1) mod Wn 4) /\
  (wf (gen_shl_4_63 a0 a1 a2 a3) /\ val (gen_shl_4_63 a0 a1 a2 a3) = (val [a0; a1; a2; a3] * 2 ^ 63) mod Wn 4) /\
  (wf (gen_shl_4_64 a0 a1 a2 a3) /\ val (gen_shl_4_64 a0 a1 a2 a3) = (val [a0; a1; a2; a3] * 2 ^ 64) mod Wn 4) /\
  (wf (gen_shl_4_65 a0 a1 a2 a3) /\ val (gen_shl_4_65 a0 a1 a2 a3) = (val [a0; a1; a2; a3] * 2 ^ 65) mod Wn 4) /\
  (wf (gen_shl_4_127 a0 a1 a2 a3) /\ val (gen_shl_4_127 a0 a1 a2 a3) = (val [a0; a1; a2; a3] * 2 ^ 127) mod Wn 4) /\
  (wf (gen_shl_4_128 a0 a1 a2 a3) /\ val (gen_shl_4_128 a0 a1 a2 a3) = (val [a0; a1; a2; a3] * 2 ^ 128) mod Wn 4) /\
  (wf (gen_shl_4_255 a0 a1 a2 a3) /\ val (gen_shl_4_255 a0 a1 a2 a3) = (val [a0; a1; a2; a3] * 2 ^ 255) mod Wn 4) /\
  (wf (gen_shl_4_256 a0 a1 a2 a3) /\ val (gen_shl_4_256 a0 a1 a2 a3) = (val [a0; a1; a2; a3] * 2 ^ 256) mod Wn 4) /\
  (wf (gen_shl_4_257 a0 a1 a2 a3) /\ val (gen_shl_4_257 a0 a1 a2 a3) = (val [a0; a1; a2; a3] * 2 ^ 257) mod Wn 4).
Proof. exact gen_shl_4_spec. Qed.
Theorem GenDerive_shr_1_eq : forall a0,
  gen_shr_1_0 a0 = shr [a0] 0 /\
  gen_shr_1_1 a0 = shr [a0] 1 /\
  gen_shr_1_63 a0 = shr [a0] 63 /\
  gen_shr_1_64 a0 = shr [a0] 64 /\
  gen_shr_1_65 a0 = shr [a0] 65 /\
  gen_shr_1_127 a0 = shr [a0] 127 /\
  gen_shr_1_128 a0 = shr [a0] 128.
Proof. exact gen_shr_1_eq. Qed.
Theorem GenDerive_shr_1_spec : forall a0,
  wf [a0] ->
  (wf (gen_shr_1_0 a0) /\ val (gen_shr_1_0 a0) = val [a0] / 2 ^ 0) /\
  (wf (gen_shr_1_1 a0) /\ val (gen_shr_1_1 a0) = val [a0] / 2 ^ 1) /\
  (wf (gen_shr_1_63 a0) /\ val (gen_shr_1_63 a0) = val [a0] / 2 ^ 63) /\
  (wf (gen_shr_1_64 a0) /\ val (gen_shr_1_64 a0) = val [a0] / 2 ^ 64) /\
  (wf (gen_shr_1_65 a0) /\ val (gen_shr_1_65 a0) = val [a0] / 2 ^ 65) /\
  (wf (gen_shr_1_127 a0) /\ val (gen_shr_1_127 a0) = val [a0] / 2 ^ 127) /\
  (wf (gen_shr_1_128 a0) /\ val (gen_shr_1_128 a0) = val [a0] / 2 ^ 128).
Proof. exact gen_shr_1_spec. Qed.
Theorem GenDerive_shr_2_eq : forall a0 a1,
  gen_shr_2_0 a0 a1 = shr [a0; a1] 0 /\
  gen_shr_2_1 a0 a1 = shr [a0; a1] 1 /\
  gen_shr_2_63 a0 a1 = shr [a0; a1] 63 /\
  gen_shr_2_64 a0 a1 = shr [a0; a1] 64 /\
  gen_shr_2_65 a0 a1 = shr [a0; a1] 65 /\
  gen_shr_2_127 a0 a1 = shr [a0; a1] 127 /\
  gen_shr_2_128 a0 a1 = shr [a0; a1] 128 /\
  gen_shr_2_129 a0 a1 = shr [a0; a1] 129.
Proof. exact gen_shr_2_eq. Qed.
Theorem GenDerive_shr_2_spec : forall a0 a1,
  wf [a0; a1] ->
  (wf (gen_shr_2_0 a0 a1) /\ val (gen_shr_2_0 a0 a1) = val [a0; a1] / 2 ^ 0) /\
  (wf (gen_shr_2_1 a0 a1) /\ val (gen_shr_2_1 a0 a1) = val [a0; a1] / 2 ^ 1) /\
  (wf (gen_shr_2_63 a0 a1) /\ val (gen_shr_2_63 a0 a1) = val [a0; a1] / 2 ^ 63) /\
  (wf (gen_shr_2_64 a0 a1) /\ val (gen_shr_2_64 a0 a1) = val [a0; a1] / 2 ^ 64) /\
  (wf (gen_shr_2_65 a0 a1) /\ val (gen_shr_2_65 a0 a1) = val [a0; a1] / 2 ^ 65) /\
  (wf (gen_shr_2_127 a0 a1) /\ val (gen_shr_2_127 a0 a1) = val [a0; a1] / 2 ^ 127) /\
  (wf (gen_shr_2_128 a0 a1) /\ val (gen_shr_2_128 a0 a1) = val [a0; a1] / 2 ^ 128) /\
  (wf (gen_shr_2_129 a0 a1) /\ val (gen_shr_2_129 a0 a1) = val [a0; a1] / 2 ^ 129).
Proof. exact gen_shr_2_spec. Qed.
Theorem GenDerive_shr_3_eq : forall a0 a1 a2,
  gen_shr_3_0 a0 a1 a2 = shr [a0; a1; a2] 0 /\
  gen_shr_3_1 a0 a1 a2 = shr [a0; a1; a2] 1 /\
  gen_shr_3_63 a0 a1 a2 = shr [a0; a1; a2] 63 /\
  gen_shr_3_64 a0 a1 a2 = shr [a0; a1; a2] 64 /\
  gen_shr_3_65 a0 a1 a2 = shr [a0; a1; a2] 65 /\
  gen_shr_3_127 a0 a1 a2 = shr [a0; a1; a2] 127 /\
  gen_shr_3_128 a0 a1 a2 = shr [a0; a1; a2] 128 /\
  gen_shr_3_191 a0 a1 a2 = shr [a0; a1; a2] 191 /\
  gen_shr_3_192 a0 a1 a2 = shr [a0; a1; a2] 192 /\
  gen_shr_3_193 a0 a1 a2 = shr [a0; a1; a2] 193.
Proof. exact gen_shr_3_eq. Qed.
Theorem GenDerive_shr_3_spec : forall a0 a1 a2,
  wf [a0; a1; a2] ->
  (wf (gen_shr_3_0 a0 a1 a2) /\ val (gen_shr_3_0 a0 a1 a2) = val [a0; a1; a2] / 2 ^ 0) /\
  (wf (gen_shr_3_1 a0 a1 a2) /\ val (gen_shr_3_1 a0 a1 a2) = val [a0; a1; a2] / 2 ^ 1) /\
  (wf (gen_shr_3_63 a0 a1 a2) /\ val (gen_shr_3_63 a0 a1 a2) = val [a0; a1; a2] / 2 ^ 63) /\
  (wf (gen_shr_3_64 a0 a1 a2) /\ val (gen_shr_3_64 a0 a1 a2) = val [a0; a1; a2] / 2 ^ 64) /\
  (wf (gen_shr_3_65 a0 a1 a2) /\ val (gen_shr_3_65 a0 a1 a2) = val [a0; a1; a2] / 2 ^ 65) /\
  (wf (gen_shr_3_127 a0 a1 a2) /\ val (gen_shr_3_127 a0 a1 a2) = val [a0; a1; a2] / 2 ^ 127) /\
  (wf (gen_shr_3_128 a0 a1 a2) /\ val (gen_shr_3_128 a0 a1 a2) = val [a0; a1; a2] / 2 ^ 128) /\
  (wf (gen_shr_3_191 a0 a1 a2) /\ val (gen_shr_3_191 a0 a1 a2) = val [a0; a1; a2] / 2 ^ 191) /\
  (wf (gen_shr_3_192 a0 a1 a2) /\ val (gen_shr_3_192 a0 a1 a2) = val [a0; a1; a2] / 2 ^ 192) /\
  (wf (gen_shr_3_193 a0 a1 a2) /\ val (gen_shr_3_193 a0 a1 a2) = val [a0; a1; a2] / 2 ^ 193).
Proof. exact gen_shr_3_spec. Qed.
Theorem GenDerive_shr_4_eq : forall a0 a1 a2 a3,
  gen_shr_4_0 a0 a1 a2 a3 = shr [a0; a1; a2; a3] 0 /\
  gen_shr_4_1 a0 a1 a2 a3 = shr [a0; a1; a2; a3] 1 /\
  gen_shr_4_63 a0 a1 a2 a3 = shr [a0; a1; a2; a3] 63 /\
  gen_shr_4_64 a0 a1 a2 a3 = shr [a0; a1; a2; a3] 64 /\
  gen_shr_4_65 a0 a1 a2 a3 = shr [a0; a1; a2; a3] 65 /\
  gen_shr_4_127 a0 a1 a2 a3 = shr [a0; a1; a2; a3] 127 /\
  gen_shr_4_128 a0 a1 a2 a3 = shr [a0; a1; a2; a3] 128 /\
  gen_shr_4_255 a0 a1 a2 a3 = shr [a0; a1; a2; a3] 255 /\
  gen_shr_4_256 a0 a1 a2 a3 = shr [a0; a1; a2; a3] 256 /\
  gen_shr_4_257 a0 a1 a2 a3 = shr [a0; a1; a2; a3] 257.
Proof. exact gen_shr_4_eq. Qed.
Theorem GenDerive_shr_4_spec : forall a0 a1 a2 a3,
  wf [a0; a1; a2; a3] ->
  (wf (gen_shr_4_0 a0 a1 a2 a3) /\ val (gen_shr_4_0 a0 a1 a2 a3) = val [a0; a1; a2; a3] / 2 ^ 0) /\
  (wf (gen_shr_4_1 a0 a1 a2 a3) /\ val (gen_shr_4_1 a0 a1 a2 a3) = val [a0; a1; a2; a3] / 2 ^ 1) /\
  (wf (gen_shr_4_63 a0 a1 a2 a3) /\ val (gen_shr_4_63 a0 a1 a2 a3) = val [a0; a1; a2; a3] / 2 ^ 63) /\
  (wf (gen_shr_4_64 a0 a1 a2 a3) /\ val (gen_shr_4_64 a0 a1 a2 a3) = val [a0; a1; a2; a3] / 2 ^ 64) /\
  (wf (gen_shr_4_65 a0 a1 a2 a3) /\ val (gen_shr_4_65 a0 a1 a2 a3) = val [a0; a1; a2; a3] / 2 ^ 65) /\
  (wf (gen_shr_4_127 a0 a1 a2 a3) /\ val (gen_shr_4_127 a0 a1 a2 a3) = val [a0; a1; a2; a3] / 2 ^ 127) /\
  (wf (gen_shr_4_128 a0 a1 a2 a3) /\ val (gen_shr_4_128 a0 a1 a2 a3) = val [a0; a1; a2; a3] / 2 ^ 128) /\
  (wf (gen_shr_4_255 a0 a1 a2 a3) /\ val (gen_shr_4_255 a0 a1 a2 a3) = val [a0; a1; a2; a3] / 2 ^ 255) /\
  (wf (gen_shr_4_256 a0 a1 a2 a3) /\ val (gen_shr_4_256 a0 a1 a2 a3) = val [a0; a1; a2; a3] / 2 ^ 256) /\
  (wf (gen_shr_4_257 a0 a1 a2 a3) /\ val (gen_shr_4_257 a0 a1 a2 a3) = val [a0; a1; a2; a3] / 2 ^ 257).
Proof. exact gen_shr_4_spec. Qed.
