(* GenLimb -- pinned theorems about the definitions that lib/xlate_limb.py re-generates from the
   current /repo source on every check run (coq/GenLimb/GenLimb.v): the limb-level loops of
   ff/src/biginteger/mod.rs (BigInt<N>) and the trait-default methods of MontConfig<N>
   (ff/src/fields/models/fp/montgomery_backend.rs, with the helpers of fp/mod.rs), symbolically
   executed for the concrete limb counts N listed in each statement.  One theorem per function =
   conjunction over the validated N.  Two kinds:
   `*_eq`   : for ALL limb values the generated definition equals the hand-written model of
              C15.BigIntModel / C01.MontModel on the literal-length lists (so every all-N theorem of
              Props/C15.v / Props/C01.v about that model function speaks about the current code at N);
   `*_spec` : the headline statement, composed with the all-N theorem.
   Configuration constants are parameters of the generated definitions: the modulus limbs m_i, INV
   (instantiated with the modelled `inv_of M`), the flags MODULUS_HAS_SPARE_BIT / CAN_USE_NO_CARRY_MUL_OPT
   (instantiated with `has_spare_bit M` / `nocarry_trait M`, or universally quantified), R2.
   [mul_assign_w], [from_bigint_w], [nc_rows_w]: GenLimb/GenLimbSpecs.v -- trait-default mul_assign with
   the flags as parameters and the last limb of a no-carry row computed as the wrapping u64 sum
   `carry1 + carry2`, as the code does; GenLimb_mul_assign_w_eq shows it equals the model for all N. *)
From V Require Import Base.Word C15.GenArith C15.BigIntModel C01.InvModel C01.MontModel
  GenLimb.GenLimb GenLimb.GenLimbSpecs.

Theorem GenLimb_add_with_carry_eq :
  (forall a0 b0,
    gen_add_with_carry_1 a0 b0 = add_with_carry [a0] [b0]) /\
  (forall a0 a1 b0 b1,
    gen_add_with_carry_2 a0 a1 b0 b1 = add_with_carry [a0; a1] [b0; b1]) /\
  (forall a0 a1 a2 b0 b1 b2,
    gen_add_with_carry_3 a0 a1 a2 b0 b1 b2 = add_with_carry [a0; a1; a2] [b0; b1; b2]) /\
  (forall a0 a1 a2 a3 b0 b1 b2 b3,
    gen_add_with_carry_4 a0 a1 a2 a3 b0 b1 b2 b3 = add_with_carry [a0; a1; a2; a3] [b0; b1; b2; b3]) /\
  (forall a0 a1 a2 a3 a4 a5 b0 b1 b2 b3 b4 b5,
    gen_add_with_carry_6 a0 a1 a2 a3 a4 a5 b0 b1 b2 b3 b4 b5 = add_with_carry [a0; a1; a2; a3; a4; a5] [b0; b1; b2; b3; b4; b5]) /\
  (forall a0 a1 a2 a3 a4 a5 a6 a7 a8 a9 a10 a11 b0 b1 b2 b3 b4 b5 b6 b7 b8 b9 b10 b11,
    gen_add_with_carry_12 a0 a1 a2 a3 a4 a5 a6 a7 a8 a9 a10 a11 b0 b1 b2 b3 b4 b5 b6 b7 b8 b9 b10 b11 = add_with_carry [a0; a1; a2; a3; a4; a5; a6; a7; a8; a9; a10; a11] [b0; b1; b2; b3; b4; b5; b6; b7; b8; b9; b10; b11]).
Proof. exact (conj gen_add_with_carry_1_eq (conj gen_add_with_carry_2_eq (conj gen_add_with_carry_3_eq (conj gen_add_with_carry_4_eq (conj gen_add_with_carry_6_eq gen_add_with_carry_12_eq))))). Qed.
Theorem GenLimb_sub_with_borrow_eq :
  (forall a0 b0,
    gen_sub_with_borrow_1 a0 b0 = sub_with_borrow [a0] [b0]) /\
  (forall a0 a1 b0 b1,
    gen_sub_with_borrow_2 a0 a1 b0 b1 = sub_with_borrow [a0; a1] [b0; b1]) /\
  (forall a0 a1 a2 b0 b1 b2,
    gen_sub_with_borrow_3 a0 a1 a2 b0 b1 b2 = sub_with_borrow [a0; a1; a2] [b0; b1; b2]) /\
  (forall a0 a1 a2 a3 b0 b1 b2 b3,
    gen_sub_with_borrow_4 a0 a1 a2 a3 b0 b1 b2 b3 = sub_with_borrow [a0; a1; a2; a3] [b0; b1; b2; b3]) /\
  (forall a0 a1 a2 a3 a4 a5 b0 b1 b2 b3 b4 b5,
    gen_sub_with_borrow_6 a0 a1 a2 a3 a4 a5 b0 b1 b2 b3 b4 b5 = sub_with_borrow [a0; a1; a2; a3; a4; a5] [b0; b1; b2; b3; b4; b5]) /\
  (forall a0 a1 a2 a3 a4 a5 a6 a7 a8 a9 a10 a11 b0 b1 b2 b3 b4 b5 b6 b7 b8 b9 b10 b11,
    gen_sub_with_borrow_12 a0 a1 a2 a3 a4 a5 a6 a7 a8 a9 a10 a11 b0 b1 b2 b3 b4 b5 b6 b7 b8 b9 b10 b11 = sub_with_borrow [a0; a1; a2; a3; a4; a5; a6; a7; a8; a9; a10; a11] [b0; b1; b2; b3; b4; b5; b6; b7; b8; b9; b10; b11]).
Proof. exact (conj gen_sub_with_borrow_1_eq (conj gen_sub_with_borrow_2_eq (conj gen_sub_with_borrow_3_eq (conj gen_sub_with_borrow_4_eq (conj gen_sub_with_borrow_6_eq gen_sub_with_borrow_12_eq))))). Qed.
Theorem GenLimb_mul2_eq :
  (forall a0,
    gen_mul2_1 a0 = mul2 [a0]) /\
  (forall a0 a1,
    gen_mul2_2 a0 a1 = mul2 [a0; a1]) /\
  (forall a0 a1 a2,
    gen_mul2_3 a0 a1 a2 = mul2 [a0; a1; a2]) /\
  (forall a0 a1 a2 a3,
    gen_mul2_4 a0 a1 a2 a3 = mul2 [a0; a1; a2; a3]) /\
  (forall a0 a1 a2 a3 a4 a5,
    gen_mul2_6 a0 a1 a2 a3 a4 a5 = mul2 [a0; a1; a2; a3; a4; a5]) /\
  (forall a0 a1 a2 a3 a4 a5 a6 a7 a8 a9 a10 a11,
    gen_mul2_12 a0 a1 a2 a3 a4 a5 a6 a7 a8 a9 a10 a11 = mul2 [a0; a1; a2; a3; a4; a5; a6; a7; a8; a9; a10; a11]).
Proof. exact (conj gen_mul2_1_eq (conj gen_mul2_2_eq (conj gen_mul2_3_eq (conj gen_mul2_4_eq (conj gen_mul2_6_eq gen_mul2_12_eq))))). Qed.
Theorem GenLimb_div2_eq :
  (forall a0,
    gen_div2_1 a0 = div2 [a0]) /\
  (forall a0 a1,
    gen_div2_2 a0 a1 = div2 [a0; a1]) /\
  (forall a0 a1 a2,
    gen_div2_3 a0 a1 a2 = div2 [a0; a1; a2]) /\
  (forall a0 a1 a2 a3,
    gen_div2_4 a0 a1 a2 a3 = div2 [a0; a1; a2; a3]) /\
  (forall a0 a1 a2 a3 a4 a5,
    gen_div2_6 a0 a1 a2 a3 a4 a5 = div2 [a0; a1; a2; a3; a4; a5]) /\
  (forall a0 a1 a2 a3 a4 a5 a6 a7 a8 a9 a10 a11,
    gen_div2_12 a0 a1 a2 a3 a4 a5 a6 a7 a8 a9 a10 a11 = div2 [a0; a1; a2; a3; a4; a5; a6; a7; a8; a9; a10; a11]).
Proof. exact (conj gen_div2_1_eq (conj gen_div2_2_eq (conj gen_div2_3_eq (conj gen_div2_4_eq (conj gen_div2_6_eq gen_div2_12_eq))))). Qed.
Theorem GenLimb_is_zero_eq :
  (forall a0,
    gen_is_zero_1 a0 = is_zero [a0]) /\
  (forall a0 a1,
    gen_is_zero_2 a0 a1 = is_zero [a0; a1]) /\
  (forall a0 a1 a2,
    gen_is_zero_3 a0 a1 a2 = is_zero [a0; a1; a2]) /\
  (forall a0 a1 a2 a3,
    gen_is_zero_4 a0 a1 a2 a3 = is_zero [a0; a1; a2; a3]) /\
  (forall a0 a1 a2 a3 a4 a5,
    gen_is_zero_6 a0 a1 a2 a3 a4 a5 = is_zero [a0; a1; a2; a3; a4; a5]) /\
  (forall a0 a1 a2 a3 a4 a5 a6 a7 a8 a9 a10 a11,
    gen_is_zero_12 a0 a1 a2 a3 a4 a5 a6 a7 a8 a9 a10 a11 = is_zero [a0; a1; a2; a3; a4; a5; a6; a7; a8; a9; a10; a11]).
Proof. exact (conj gen_is_zero_1_eq (conj gen_is_zero_2_eq (conj gen_is_zero_3_eq (conj gen_is_zero_4_eq (conj gen_is_zero_6_eq gen_is_zero_12_eq))))). Qed.
Theorem GenLimb_is_odd_eq :
  (forall a0,
    gen_is_odd_1 a0 = is_odd [a0]) /\
  (forall a0 a1,
    gen_is_odd_2 a0 a1 = is_odd [a0; a1]) /\
  (forall a0 a1 a2,
    gen_is_odd_3 a0 a1 a2 = is_odd [a0; a1; a2]) /\
  (forall a0 a1 a2 a3,
    gen_is_odd_4 a0 a1 a2 a3 = is_odd [a0; a1; a2; a3]) /\
  (forall a0 a1 a2 a3 a4 a5,
    gen_is_odd_6 a0 a1 a2 a3 a4 a5 = is_odd [a0; a1; a2; a3; a4; a5]) /\
  (forall a0 a1 a2 a3 a4 a5 a6 a7 a8 a9 a10 a11,
    gen_is_odd_12 a0 a1 a2 a3 a4 a5 a6 a7 a8 a9 a10 a11 = is_odd [a0; a1; a2; a3; a4; a5; a6; a7; a8; a9; a10; a11]).
Proof. exact (conj gen_is_odd_1_eq (conj gen_is_odd_2_eq (conj gen_is_odd_3_eq (conj gen_is_odd_4_eq (conj gen_is_odd_6_eq gen_is_odd_12_eq))))). Qed.
Theorem GenLimb_is_even_eq :
  (forall a0,
    gen_is_even_1 a0 = is_even [a0]) /\
  (forall a0 a1,
    gen_is_even_2 a0 a1 = is_even [a0; a1]) /\
  (forall a0 a1 a2,
    gen_is_even_3 a0 a1 a2 = is_even [a0; a1; a2]) /\
  (forall a0 a1 a2 a3,
    gen_is_even_4 a0 a1 a2 a3 = is_even [a0; a1; a2; a3]) /\
  (forall a0 a1 a2 a3 a4 a5,
    gen_is_even_6 a0 a1 a2 a3 a4 a5 = is_even [a0; a1; a2; a3; a4; a5]) /\
  (forall a0 a1 a2 a3 a4 a5 a6 a7 a8 a9 a10 a11,
    gen_is_even_12 a0 a1 a2 a3 a4 a5 a6 a7 a8 a9 a10 a11 = is_even [a0; a1; a2; a3; a4; a5; a6; a7; a8; a9; a10; a11]).
Proof. exact (conj gen_is_even_1_eq (conj gen_is_even_2_eq (conj gen_is_even_3_eq (conj gen_is_even_4_eq (conj gen_is_even_6_eq gen_is_even_12_eq))))). Qed.
Theorem GenLimb_cmp_eq :
  (forall a0 b0,
    gen_cmp_1 a0 b0 = cmp [a0] [b0]) /\
  (forall a0 a1 b0 b1,
    gen_cmp_2 a0 a1 b0 b1 = cmp [a0; a1] [b0; b1]) /\
  (forall a0 a1 a2 b0 b1 b2,
    gen_cmp_3 a0 a1 a2 b0 b1 b2 = cmp [a0; a1; a2] [b0; b1; b2]) /\
  (forall a0 a1 a2 a3 b0 b1 b2 b3,
    gen_cmp_4 a0 a1 a2 a3 b0 b1 b2 b3 = cmp [a0; a1; a2; a3] [b0; b1; b2; b3]) /\
  (forall a0 a1 a2 a3 a4 a5 b0 b1 b2 b3 b4 b5,
    gen_cmp_6 a0 a1 a2 a3 a4 a5 b0 b1 b2 b3 b4 b5 = cmp [a0; a1; a2; a3; a4; a5] [b0; b1; b2; b3; b4; b5]) /\
  (forall a0 a1 a2 a3 a4 a5 a6 a7 a8 a9 a10 a11 b0 b1 b2 b3 b4 b5 b6 b7 b8 b9 b10 b11,
    gen_cmp_12 a0 a1 a2 a3 a4 a5 a6 a7 a8 a9 a10 a11 b0 b1 b2 b3 b4 b5 b6 b7 b8 b9 b10 b11 = cmp [a0; a1; a2; a3; a4; a5; a6; a7; a8; a9; a10; a11] [b0; b1; b2; b3; b4; b5; b6; b7; b8; b9; b10; b11]).
Proof. exact (conj gen_cmp_1_eq (conj gen_cmp_2_eq (conj gen_cmp_3_eq (conj gen_cmp_4_eq (conj gen_cmp_6_eq gen_cmp_12_eq))))). Qed.
Theorem GenLimb_const_mul2_with_carry_eq :
  (forall a0,
    gen_const_mul2_with_carry_1 a0 = mul2 [a0]) /\
  (forall a0 a1,
    gen_const_mul2_with_carry_2 a0 a1 = mul2 [a0; a1]) /\
  (forall a0 a1 a2,
    gen_const_mul2_with_carry_3 a0 a1 a2 = mul2 [a0; a1; a2]) /\
  (forall a0 a1 a2 a3,
    gen_const_mul2_with_carry_4 a0 a1 a2 a3 = mul2 [a0; a1; a2; a3]) /\
  (forall a0 a1 a2 a3 a4 a5,
    gen_const_mul2_with_carry_6 a0 a1 a2 a3 a4 a5 = mul2 [a0; a1; a2; a3; a4; a5]) /\
  (forall a0 a1 a2 a3 a4 a5 a6 a7 a8 a9 a10 a11,
    gen_const_mul2_with_carry_12 a0 a1 a2 a3 a4 a5 a6 a7 a8 a9 a10 a11 = mul2 [a0; a1; a2; a3; a4; a5; a6; a7; a8; a9; a10; a11]).
Proof. exact (conj gen_const_mul2_with_carry_1_eq (conj gen_const_mul2_with_carry_2_eq (conj gen_const_mul2_with_carry_3_eq (conj gen_const_mul2_with_carry_4_eq (conj gen_const_mul2_with_carry_6_eq gen_const_mul2_with_carry_12_eq))))). Qed.
Theorem GenLimb_const_shr_eq :
  (forall a0,
    gen_const_shr_1 a0 = const_shr [a0]) /\
  (forall a0 a1,
    gen_const_shr_2 a0 a1 = const_shr [a0; a1]) /\
  (forall a0 a1 a2,
    gen_const_shr_3 a0 a1 a2 = const_shr [a0; a1; a2]) /\
  (forall a0 a1 a2 a3,
    gen_const_shr_4 a0 a1 a2 a3 = const_shr [a0; a1; a2; a3]) /\
  (forall a0 a1 a2 a3 a4 a5,
    gen_const_shr_6 a0 a1 a2 a3 a4 a5 = const_shr [a0; a1; a2; a3; a4; a5]) /\
  (forall a0 a1 a2 a3 a4 a5 a6 a7 a8 a9 a10 a11,
    gen_const_shr_12 a0 a1 a2 a3 a4 a5 a6 a7 a8 a9 a10 a11 = const_shr [a0; a1; a2; a3; a4; a5; a6; a7; a8; a9; a10; a11]).
Proof. exact (conj gen_const_shr_1_eq (conj gen_const_shr_2_eq (conj gen_const_shr_3_eq (conj gen_const_shr_4_eq (conj gen_const_shr_6_eq gen_const_shr_12_eq))))). Qed.
Theorem GenLimb_const_is_zero_eq :
  (forall a0,
    gen_const_is_zero_1 a0 = is_zero [a0]) /\
  (forall a0 a1,
    gen_const_is_zero_2 a0 a1 = is_zero [a0; a1]) /\
  (forall a0 a1 a2,
    gen_const_is_zero_3 a0 a1 a2 = is_zero [a0; a1; a2]) /\
  (forall a0 a1 a2 a3,
    gen_const_is_zero_4 a0 a1 a2 a3 = is_zero [a0; a1; a2; a3]) /\
  (forall a0 a1 a2 a3 a4 a5,
    gen_const_is_zero_6 a0 a1 a2 a3 a4 a5 = is_zero [a0; a1; a2; a3; a4; a5]) /\
  (forall a0 a1 a2 a3 a4 a5 a6 a7 a8 a9 a10 a11,
    gen_const_is_zero_12 a0 a1 a2 a3 a4 a5 a6 a7 a8 a9 a10 a11 = is_zero [a0; a1; a2; a3; a4; a5; a6; a7; a8; a9; a10; a11]).
Proof. exact (conj gen_const_is_zero_1_eq (conj gen_const_is_zero_2_eq (conj gen_const_is_zero_3_eq (conj gen_const_is_zero_4_eq (conj gen_const_is_zero_6_eq gen_const_is_zero_12_eq))))). Qed.
Theorem GenLimb_const_sub_with_borrow_eq :
  (forall a0 b0,
    gen_const_sub_with_borrow_1 a0 b0 = sub_with_borrow [a0] [b0]) /\
  (forall a0 a1 b0 b1,
    gen_const_sub_with_borrow_2 a0 a1 b0 b1 = sub_with_borrow [a0; a1] [b0; b1]) /\
  (forall a0 a1 a2 b0 b1 b2,
    gen_const_sub_with_borrow_3 a0 a1 a2 b0 b1 b2 = sub_with_borrow [a0; a1; a2] [b0; b1; b2]) /\
  (forall a0 a1 a2 a3 b0 b1 b2 b3,
    gen_const_sub_with_borrow_4 a0 a1 a2 a3 b0 b1 b2 b3 = sub_with_borrow [a0; a1; a2; a3] [b0; b1; b2; b3]) /\
  (forall a0 a1 a2 a3 a4 a5 b0 b1 b2 b3 b4 b5,
    gen_const_sub_with_borrow_6 a0 a1 a2 a3 a4 a5 b0 b1 b2 b3 b4 b5 = sub_with_borrow [a0; a1; a2; a3; a4; a5] [b0; b1; b2; b3; b4; b5]) /\
  (forall a0 a1 a2 a3 a4 a5 a6 a7 a8 a9 a10 a11 b0 b1 b2 b3 b4 b5 b6 b7 b8 b9 b10 b11,
    gen_const_sub_with_borrow_12 a0 a1 a2 a3 a4 a5 a6 a7 a8 a9 a10 a11 b0 b1 b2 b3 b4 b5 b6 b7 b8 b9 b10 b11 = sub_with_borrow [a0; a1; a2; a3; a4; a5; a6; a7; a8; a9; a10; a11] [b0; b1; b2; b3; b4; b5; b6; b7; b8; b9; b10; b11]).
Proof. exact (conj gen_const_sub_with_borrow_1_eq (conj gen_const_sub_with_borrow_2_eq (conj gen_const_sub_with_borrow_3_eq (conj gen_const_sub_with_borrow_4_eq (conj gen_const_sub_with_borrow_6_eq gen_const_sub_with_borrow_12_eq))))). Qed.
Theorem GenLimb_const_geq_eq :
  (forall a0 b0,
    gen_const_geq_1 a0 b0 = const_geq [a0] [b0]) /\
  (forall a0 a1 b0 b1,
    gen_const_geq_2 a0 a1 b0 b1 = const_geq [a0; a1] [b0; b1]) /\
  (forall a0 a1 a2 b0 b1 b2,
    gen_const_geq_3 a0 a1 a2 b0 b1 b2 = const_geq [a0; a1; a2] [b0; b1; b2]) /\
  (forall a0 a1 a2 a3 b0 b1 b2 b3,
    gen_const_geq_4 a0 a1 a2 a3 b0 b1 b2 b3 = const_geq [a0; a1; a2; a3] [b0; b1; b2; b3]) /\
  (forall a0 a1 a2 a3 a4 a5 b0 b1 b2 b3 b4 b5,
    gen_const_geq_6 a0 a1 a2 a3 a4 a5 b0 b1 b2 b3 b4 b5 = const_geq [a0; a1; a2; a3; a4; a5] [b0; b1; b2; b3; b4; b5]) /\
  (forall a0 a1 a2 a3 a4 a5 a6 a7 a8 a9 a10 a11 b0 b1 b2 b3 b4 b5 b6 b7 b8 b9 b10 b11,
    gen_const_geq_12 a0 a1 a2 a3 a4 a5 a6 a7 a8 a9 a10 a11 b0 b1 b2 b3 b4 b5 b6 b7 b8 b9 b10 b11 = const_geq [a0; a1; a2; a3; a4; a5; a6; a7; a8; a9; a10; a11] [b0; b1; b2; b3; b4; b5; b6; b7; b8; b9; b10; b11]).
Proof. exact (conj gen_const_geq_1_eq (conj gen_const_geq_2_eq (conj gen_const_geq_3_eq (conj gen_const_geq_4_eq (conj gen_const_geq_6_eq gen_const_geq_12_eq))))). Qed.
Theorem GenLimb_mul_eq :
  (forall a0 b0,
    gen_mul_1 a0 b0 = mul [a0] [b0]) /\
  (forall a0 a1 b0 b1,
    gen_mul_2 a0 a1 b0 b1 = mul [a0; a1] [b0; b1]) /\
  (forall a0 a1 a2 b0 b1 b2,
    gen_mul_3 a0 a1 a2 b0 b1 b2 = mul [a0; a1; a2] [b0; b1; b2]) /\
  (forall a0 a1 a2 a3 b0 b1 b2 b3,
    gen_mul_4 a0 a1 a2 a3 b0 b1 b2 b3 = mul [a0; a1; a2; a3] [b0; b1; b2; b3]) /\
  (forall a0 a1 a2 a3 a4 a5 b0 b1 b2 b3 b4 b5,
    gen_mul_6 a0 a1 a2 a3 a4 a5 b0 b1 b2 b3 b4 b5 = mul [a0; a1; a2; a3; a4; a5] [b0; b1; b2; b3; b4; b5]).
Proof. exact (conj gen_mul_1_eq (conj gen_mul_2_eq (conj gen_mul_3_eq (conj gen_mul_4_eq gen_mul_6_eq)))). Qed.
Theorem GenLimb_mul_low_eq :
  (forall a0 b0,
    gen_mul_low_1 a0 b0 = mul_low [a0] [b0]) /\
  (forall a0 a1 b0 b1,
    gen_mul_low_2 a0 a1 b0 b1 = mul_low [a0; a1] [b0; b1]) /\
  (forall a0 a1 a2 b0 b1 b2,
    gen_mul_low_3 a0 a1 a2 b0 b1 b2 = mul_low [a0; a1; a2] [b0; b1; b2]) /\
  (forall a0 a1 a2 a3 b0 b1 b2 b3,
    gen_mul_low_4 a0 a1 a2 a3 b0 b1 b2 b3 = mul_low [a0; a1; a2; a3] [b0; b1; b2; b3]) /\
  (forall a0 a1 a2 a3 a4 a5 b0 b1 b2 b3 b4 b5,
    gen_mul_low_6 a0 a1 a2 a3 a4 a5 b0 b1 b2 b3 b4 b5 = mul_low [a0; a1; a2; a3; a4; a5] [b0; b1; b2; b3; b4; b5]).
Proof. exact (conj gen_mul_low_1_eq (conj gen_mul_low_2_eq (conj gen_mul_low_3_eq (conj gen_mul_low_4_eq gen_mul_low_6_eq)))). Qed.
Theorem GenLimb_mul_high_eq :
  (forall a0 b0,
    gen_mul_high_1 a0 b0 = mul_high [a0] [b0]) /\
  (forall a0 a1 b0 b1,
    gen_mul_high_2 a0 a1 b0 b1 = mul_high [a0; a1] [b0; b1]) /\
  (forall a0 a1 a2 b0 b1 b2,
    gen_mul_high_3 a0 a1 a2 b0 b1 b2 = mul_high [a0; a1; a2] [b0; b1; b2]) /\
  (forall a0 a1 a2 a3 b0 b1 b2 b3,
    gen_mul_high_4 a0 a1 a2 a3 b0 b1 b2 b3 = mul_high [a0; a1; a2; a3] [b0; b1; b2; b3]) /\
  (forall a0 a1 a2 a3 a4 a5 b0 b1 b2 b3 b4 b5,
    gen_mul_high_6 a0 a1 a2 a3 a4 a5 b0 b1 b2 b3 b4 b5 = mul_high [a0; a1; a2; a3; a4; a5] [b0; b1; b2; b3; b4; b5]).
Proof. exact (conj gen_mul_high_1_eq (conj gen_mul_high_2_eq (conj gen_mul_high_3_eq (conj gen_mul_high_4_eq gen_mul_high_6_eq)))). Qed.
Theorem GenLimb_fp_is_geq_modulus_eq :
  (forall m0 a0,
    gen_fp_is_geq_modulus_1 m0 a0 = is_geq_modulus [m0] [a0]) /\
  (forall m0 m1 a0 a1,
    gen_fp_is_geq_modulus_2 m0 m1 a0 a1 = is_geq_modulus [m0; m1] [a0; a1]) /\
  (forall m0 m1 m2 m3 a0 a1 a2 a3,
    gen_fp_is_geq_modulus_4 m0 m1 m2 m3 a0 a1 a2 a3 = is_geq_modulus [m0; m1; m2; m3] [a0; a1; a2; a3]) /\
  (forall m0 m1 m2 m3 m4 m5 a0 a1 a2 a3 a4 a5,
    gen_fp_is_geq_modulus_6 m0 m1 m2 m3 m4 m5 a0 a1 a2 a3 a4 a5 = is_geq_modulus [m0; m1; m2; m3; m4; m5] [a0; a1; a2; a3; a4; a5]).
Proof. exact (conj gen_fp_is_geq_modulus_1_eq (conj gen_fp_is_geq_modulus_2_eq (conj gen_fp_is_geq_modulus_4_eq gen_fp_is_geq_modulus_6_eq))). Qed.
Theorem GenLimb_fp_subtract_modulus_eq :
  (forall m0 a0,
    gen_fp_subtract_modulus_1 m0 a0 = subtract_modulus [m0] [a0]) /\
  (forall m0 m1 a0 a1,
    gen_fp_subtract_modulus_2 m0 m1 a0 a1 = subtract_modulus [m0; m1] [a0; a1]) /\
  (forall m0 m1 m2 m3 a0 a1 a2 a3,
    gen_fp_subtract_modulus_4 m0 m1 m2 m3 a0 a1 a2 a3 = subtract_modulus [m0; m1; m2; m3] [a0; a1; a2; a3]) /\
  (forall m0 m1 m2 m3 m4 m5 a0 a1 a2 a3 a4 a5,
    gen_fp_subtract_modulus_6 m0 m1 m2 m3 m4 m5 a0 a1 a2 a3 a4 a5 = subtract_modulus [m0; m1; m2; m3; m4; m5] [a0; a1; a2; a3; a4; a5]).
Proof. exact (conj gen_fp_subtract_modulus_1_eq (conj gen_fp_subtract_modulus_2_eq (conj gen_fp_subtract_modulus_4_eq gen_fp_subtract_modulus_6_eq))). Qed.
Theorem GenLimb_fp_subtract_modulus_with_carry_eq :
  (forall m0 a0 carry,
    gen_fp_subtract_modulus_with_carry_1 m0 a0 carry = subtract_modulus_with_carry [m0] [a0] carry) /\
  (forall m0 m1 a0 a1 carry,
    gen_fp_subtract_modulus_with_carry_2 m0 m1 a0 a1 carry = subtract_modulus_with_carry [m0; m1] [a0; a1] carry) /\
  (forall m0 m1 m2 m3 a0 a1 a2 a3 carry,
    gen_fp_subtract_modulus_with_carry_4 m0 m1 m2 m3 a0 a1 a2 a3 carry = subtract_modulus_with_carry [m0; m1; m2; m3] [a0; a1; a2; a3] carry) /\
  (forall m0 m1 m2 m3 m4 m5 a0 a1 a2 a3 a4 a5 carry,
    gen_fp_subtract_modulus_with_carry_6 m0 m1 m2 m3 m4 m5 a0 a1 a2 a3 a4 a5 carry = subtract_modulus_with_carry [m0; m1; m2; m3; m4; m5] [a0; a1; a2; a3; a4; a5] carry).
Proof. exact (conj gen_fp_subtract_modulus_with_carry_1_eq (conj gen_fp_subtract_modulus_with_carry_2_eq (conj gen_fp_subtract_modulus_with_carry_4_eq gen_fp_subtract_modulus_with_carry_6_eq))). Qed.
Theorem GenLimb_fp_const_is_valid_eq :
  (forall m0 a0,
    gen_fp_const_is_valid_1 m0 a0 = negb (is_geq_modulus [m0] [a0])) /\
  (forall m0 m1 a0 a1,
    gen_fp_const_is_valid_2 m0 m1 a0 a1 = negb (is_geq_modulus [m0; m1] [a0; a1])) /\
  (forall m0 m1 m2 m3 a0 a1 a2 a3,
    gen_fp_const_is_valid_4 m0 m1 m2 m3 a0 a1 a2 a3 = negb (is_geq_modulus [m0; m1; m2; m3] [a0; a1; a2; a3])) /\
  (forall m0 m1 m2 m3 m4 m5 a0 a1 a2 a3 a4 a5,
    gen_fp_const_is_valid_6 m0 m1 m2 m3 m4 m5 a0 a1 a2 a3 a4 a5 = negb (is_geq_modulus [m0; m1; m2; m3; m4; m5] [a0; a1; a2; a3; a4; a5])).
Proof. exact (conj gen_fp_const_is_valid_1_eq (conj gen_fp_const_is_valid_2_eq (conj gen_fp_const_is_valid_4_eq gen_fp_const_is_valid_6_eq))). Qed.
Theorem GenLimb_mont_add_assign_eq :
  (forall m0 a0 b0,
    gen_mont_add_assign_1 (has_spare_bit [m0]) m0 a0 b0 = add_assign [m0] [a0] [b0]) /\
  (forall m0 m1 a0 a1 b0 b1,
    gen_mont_add_assign_2 (has_spare_bit [m0; m1]) m0 m1 a0 a1 b0 b1 = add_assign [m0; m1] [a0; a1] [b0; b1]) /\
  (forall m0 m1 m2 m3 a0 a1 a2 a3 b0 b1 b2 b3,
    gen_mont_add_assign_4 (has_spare_bit [m0; m1; m2; m3]) m0 m1 m2 m3 a0 a1 a2 a3 b0 b1 b2 b3 = add_assign [m0; m1; m2; m3] [a0; a1; a2; a3] [b0; b1; b2; b3]) /\
  (forall m0 m1 m2 m3 m4 m5 a0 a1 a2 a3 a4 a5 b0 b1 b2 b3 b4 b5,
    gen_mont_add_assign_6 (has_spare_bit [m0; m1; m2; m3; m4; m5]) m0 m1 m2 m3 m4 m5 a0 a1 a2 a3 a4 a5 b0 b1 b2 b3 b4 b5 = add_assign [m0; m1; m2; m3; m4; m5] [a0; a1; a2; a3; a4; a5] [b0; b1; b2; b3; b4; b5]).
Proof. exact (conj gen_mont_add_assign_1_eq (conj gen_mont_add_assign_2_eq (conj gen_mont_add_assign_4_eq gen_mont_add_assign_6_eq))). Qed.
Theorem GenLimb_mont_sub_assign_eq :
  (forall m0 a0 b0,
    gen_mont_sub_assign_1 m0 a0 b0 = sub_assign [m0] [a0] [b0]) /\
  (forall m0 m1 a0 a1 b0 b1,
    gen_mont_sub_assign_2 m0 m1 a0 a1 b0 b1 = sub_assign [m0; m1] [a0; a1] [b0; b1]) /\
  (forall m0 m1 m2 m3 a0 a1 a2 a3 b0 b1 b2 b3,
    gen_mont_sub_assign_4 m0 m1 m2 m3 a0 a1 a2 a3 b0 b1 b2 b3 = sub_assign [m0; m1; m2; m3] [a0; a1; a2; a3] [b0; b1; b2; b3]) /\
  (forall m0 m1 m2 m3 m4 m5 a0 a1 a2 a3 a4 a5 b0 b1 b2 b3 b4 b5,
    gen_mont_sub_assign_6 m0 m1 m2 m3 m4 m5 a0 a1 a2 a3 a4 a5 b0 b1 b2 b3 b4 b5 = sub_assign [m0; m1; m2; m3; m4; m5] [a0; a1; a2; a3; a4; a5] [b0; b1; b2; b3; b4; b5]).
Proof. exact (conj gen_mont_sub_assign_1_eq (conj gen_mont_sub_assign_2_eq (conj gen_mont_sub_assign_4_eq gen_mont_sub_assign_6_eq))). Qed.
Theorem GenLimb_mont_double_in_place_eq :
  (forall m0 a0,
    gen_mont_double_in_place_1 (has_spare_bit [m0]) m0 a0 = double_in_place [m0] [a0]) /\
  (forall m0 m1 a0 a1,
    gen_mont_double_in_place_2 (has_spare_bit [m0; m1]) m0 m1 a0 a1 = double_in_place [m0; m1] [a0; a1]) /\
  (forall m0 m1 m2 m3 a0 a1 a2 a3,
    gen_mont_double_in_place_4 (has_spare_bit [m0; m1; m2; m3]) m0 m1 m2 m3 a0 a1 a2 a3 = double_in_place [m0; m1; m2; m3] [a0; a1; a2; a3]) /\
  (forall m0 m1 m2 m3 m4 m5 a0 a1 a2 a3 a4 a5,
    gen_mont_double_in_place_6 (has_spare_bit [m0; m1; m2; m3; m4; m5]) m0 m1 m2 m3 m4 m5 a0 a1 a2 a3 a4 a5 = double_in_place [m0; m1; m2; m3; m4; m5] [a0; a1; a2; a3; a4; a5]).
Proof. exact (conj gen_mont_double_in_place_1_eq (conj gen_mont_double_in_place_2_eq (conj gen_mont_double_in_place_4_eq gen_mont_double_in_place_6_eq))). Qed.
Theorem GenLimb_mont_neg_in_place_eq :
  (forall m0 a0,
    gen_mont_neg_in_place_1 m0 a0 = neg_in_place [m0] [a0]) /\
  (forall m0 m1 a0 a1,
    gen_mont_neg_in_place_2 m0 m1 a0 a1 = neg_in_place [m0; m1] [a0; a1]) /\
  (forall m0 m1 m2 m3 a0 a1 a2 a3,
    gen_mont_neg_in_place_4 m0 m1 m2 m3 a0 a1 a2 a3 = neg_in_place [m0; m1; m2; m3] [a0; a1; a2; a3]) /\
  (forall m0 m1 m2 m3 m4 m5 a0 a1 a2 a3 a4 a5,
    gen_mont_neg_in_place_6 m0 m1 m2 m3 m4 m5 a0 a1 a2 a3 a4 a5 = neg_in_place [m0; m1; m2; m3; m4; m5] [a0; a1; a2; a3; a4; a5]).
Proof. exact (conj gen_mont_neg_in_place_1_eq (conj gen_mont_neg_in_place_2_eq (conj gen_mont_neg_in_place_4_eq gen_mont_neg_in_place_6_eq))). Qed.
Theorem GenLimb_mont_mul_without_cond_subtract_eq :
  (forall m0 a0 b0,
    gen_mont_mul_without_cond_subtract_1 (inv_of [m0]) m0 a0 b0 = mul_without_cond_subtract [m0] [a0] [b0]) /\
  (forall m0 m1 a0 a1 b0 b1,
    gen_mont_mul_without_cond_subtract_2 (inv_of [m0; m1]) m0 m1 a0 a1 b0 b1 = mul_without_cond_subtract [m0; m1] [a0; a1] [b0; b1]) /\
  (forall m0 m1 m2 m3 a0 a1 a2 a3 b0 b1 b2 b3,
    gen_mont_mul_without_cond_subtract_4 (inv_of [m0; m1; m2; m3]) m0 m1 m2 m3 a0 a1 a2 a3 b0 b1 b2 b3 = mul_without_cond_subtract [m0; m1; m2; m3] [a0; a1; a2; a3] [b0; b1; b2; b3]) /\
  (forall m0 m1 m2 m3 m4 m5 a0 a1 a2 a3 a4 a5 b0 b1 b2 b3 b4 b5,
    gen_mont_mul_without_cond_subtract_6 (inv_of [m0; m1; m2; m3; m4; m5]) m0 m1 m2 m3 m4 m5 a0 a1 a2 a3 a4 a5 b0 b1 b2 b3 b4 b5 = mul_without_cond_subtract [m0; m1; m2; m3; m4; m5] [a0; a1; a2; a3; a4; a5] [b0; b1; b2; b3; b4; b5]).
Proof. exact (conj gen_mont_mul_without_cond_subtract_1_eq (conj gen_mont_mul_without_cond_subtract_2_eq (conj gen_mont_mul_without_cond_subtract_4_eq gen_mont_mul_without_cond_subtract_6_eq))). Qed.
Theorem GenLimb_mont_mul_assign_eq :
  (forall can_nc spare m0 a0 b0,
    gen_mont_mul_assign_1 can_nc spare (inv_of [m0]) m0 a0 b0 = mul_assign_w can_nc spare [m0] [a0] [b0]) /\
  (forall can_nc spare m0 m1 a0 a1 b0 b1,
    gen_mont_mul_assign_2 can_nc spare (inv_of [m0; m1]) m0 m1 a0 a1 b0 b1 = mul_assign_w can_nc spare [m0; m1] [a0; a1] [b0; b1]) /\
  (forall can_nc spare m0 m1 m2 m3 a0 a1 a2 a3 b0 b1 b2 b3,
    gen_mont_mul_assign_4 can_nc spare (inv_of [m0; m1; m2; m3]) m0 m1 m2 m3 a0 a1 a2 a3 b0 b1 b2 b3 = mul_assign_w can_nc spare [m0; m1; m2; m3] [a0; a1; a2; a3] [b0; b1; b2; b3]) /\
  (forall can_nc spare m0 m1 m2 m3 m4 m5 a0 a1 a2 a3 a4 a5 b0 b1 b2 b3 b4 b5,
    gen_mont_mul_assign_6 can_nc spare (inv_of [m0; m1; m2; m3; m4; m5]) m0 m1 m2 m3 m4 m5 a0 a1 a2 a3 a4 a5 b0 b1 b2 b3 b4 b5 = mul_assign_w can_nc spare [m0; m1; m2; m3; m4; m5] [a0; a1; a2; a3; a4; a5] [b0; b1; b2; b3; b4; b5]).
Proof. exact (conj gen_mont_mul_assign_1_eq (conj gen_mont_mul_assign_2_eq (conj gen_mont_mul_assign_4_eq gen_mont_mul_assign_6_eq))). Qed.
Theorem GenLimb_mont_into_bigint_eq :
  (forall m0 a0,
    gen_mont_into_bigint_1 (inv_of [m0]) m0 a0 = into_bigint [m0] [a0]) /\
  (forall m0 m1 a0 a1,
    gen_mont_into_bigint_2 (inv_of [m0; m1]) m0 m1 a0 a1 = into_bigint [m0; m1] [a0; a1]) /\
  (forall m0 m1 m2 m3 a0 a1 a2 a3,
    gen_mont_into_bigint_4 (inv_of [m0; m1; m2; m3]) m0 m1 m2 m3 a0 a1 a2 a3 = into_bigint [m0; m1; m2; m3] [a0; a1; a2; a3]) /\
  (forall m0 m1 m2 m3 m4 m5 a0 a1 a2 a3 a4 a5,
    gen_mont_into_bigint_6 (inv_of [m0; m1; m2; m3; m4; m5]) m0 m1 m2 m3 m4 m5 a0 a1 a2 a3 a4 a5 = into_bigint [m0; m1; m2; m3; m4; m5] [a0; a1; a2; a3; a4; a5]).
Proof. exact (conj gen_mont_into_bigint_1_eq (conj gen_mont_into_bigint_2_eq (conj gen_mont_into_bigint_4_eq gen_mont_into_bigint_6_eq))). Qed.
Theorem GenLimb_mont_from_bigint_eq :
  (forall can_nc spare m0 rr0 x0,
    gen_mont_from_bigint_1 can_nc spare (inv_of [m0]) m0 rr0 x0 = from_bigint_w can_nc spare [m0] [rr0] [x0]) /\
  (forall can_nc spare m0 m1 rr0 rr1 x0 x1,
    gen_mont_from_bigint_2 can_nc spare (inv_of [m0; m1]) m0 m1 rr0 rr1 x0 x1 = from_bigint_w can_nc spare [m0; m1] [rr0; rr1] [x0; x1]) /\
  (forall can_nc spare m0 m1 m2 m3 rr0 rr1 rr2 rr3 x0 x1 x2 x3,
    gen_mont_from_bigint_4 can_nc spare (inv_of [m0; m1; m2; m3]) m0 m1 m2 m3 rr0 rr1 rr2 rr3 x0 x1 x2 x3 = from_bigint_w can_nc spare [m0; m1; m2; m3] [rr0; rr1; rr2; rr3] [x0; x1; x2; x3]) /\
  (forall can_nc spare m0 m1 m2 m3 m4 m5 rr0 rr1 rr2 rr3 rr4 rr5 x0 x1 x2 x3 x4 x5,
    gen_mont_from_bigint_6 can_nc spare (inv_of [m0; m1; m2; m3; m4; m5]) m0 m1 m2 m3 m4 m5 rr0 rr1 rr2 rr3 rr4 rr5 x0 x1 x2 x3 x4 x5 = from_bigint_w can_nc spare [m0; m1; m2; m3; m4; m5] [rr0; rr1; rr2; rr3; rr4; rr5] [x0; x1; x2; x3; x4; x5]).
Proof. exact (conj gen_mont_from_bigint_1_eq (conj gen_mont_from_bigint_2_eq (conj gen_mont_from_bigint_4_eq gen_mont_from_bigint_6_eq))). Qed.
Theorem GenLimb_mont_square_in_place_eq :
  (forall can_nc can_sq spare m0 a0,
    gen_mont_square_in_place_1 can_nc can_sq spare (inv_of [m0]) m0 a0 = mul_assign_w can_nc spare [m0] [a0] [a0]) /\
  (forall can_nc can_sq m0 m1 a0 a1,
    gen_mont_square_in_place_2 can_nc can_sq (has_spare_bit [m0; m1]) (inv_of [m0; m1]) m0 m1 a0 a1 = square_full [m0; m1] [a0; a1]) /\
  (forall can_nc can_sq m0 m1 m2 m3 a0 a1 a2 a3,
    gen_mont_square_in_place_4 can_nc can_sq (has_spare_bit [m0; m1; m2; m3]) (inv_of [m0; m1; m2; m3]) m0 m1 m2 m3 a0 a1 a2 a3 = square_full [m0; m1; m2; m3] [a0; a1; a2; a3]) /\
  (forall can_nc can_sq m0 m1 m2 m3 m4 m5 a0 a1 a2 a3 a4 a5,
    gen_mont_square_in_place_6 can_nc can_sq (has_spare_bit [m0; m1; m2; m3; m4; m5]) (inv_of [m0; m1; m2; m3; m4; m5]) m0 m1 m2 m3 m4 m5 a0 a1 a2 a3 a4 a5 = square_full [m0; m1; m2; m3; m4; m5] [a0; a1; a2; a3; a4; a5]).
Proof. exact (conj gen_mont_square_in_place_1_eq (conj gen_mont_square_in_place_2_eq (conj gen_mont_square_in_place_4_eq gen_mont_square_in_place_6_eq))). Qed.
Theorem GenLimb_add_with_carry_spec :
  (forall a0 b0,
    wf [a0] -> wf [b0] -> let '(r, c) := gen_add_with_carry_1 a0 b0 in wf r /\ length r = 1%nat /\ val r + Wn 1 * Z.b2z c = val [a0] + val [b0]) /\
  (forall a0 a1 b0 b1,
    wf [a0; a1] -> wf [b0; b1] -> let '(r, c) := gen_add_with_carry_2 a0 a1 b0 b1 in wf r /\ length r = 2%nat /\ val r + Wn 2 * Z.b2z c = val [a0; a1] + val [b0; b1]) /\
  (forall a0 a1 a2 b0 b1 b2,
    wf [a0; a1; a2] -> wf [b0; b1; b2] -> let '(r, c) := gen_add_with_carry_3 a0 a1 a2 b0 b1 b2 in wf r /\ length r = 3%nat /\ val r + Wn 3 * Z.b2z c = val [a0; a1; a2] + val [b0; b1; b2]) /\
  (forall a0 a1 a2 a3 b0 b1 b2 b3,
    wf [a0; a1; a2; a3] -> wf [b0; b1; b2; b3] -> let '(r, c) := gen_add_with_carry_4 a0 a1 a2 a3 b0 b1 b2 b3 in wf r /\ length r = 4%nat /\ val r + Wn 4 * Z.b2z c = val [a0; a1; a2; a3] + val [b0; b1; b2; b3]) /\
  (forall a0 a1 a2 a3 a4 a5 b0 b1 b2 b3 b4 b5,
    wf [a0; a1; a2; a3; a4; a5] -> wf [b0; b1; b2; b3; b4; b5] -> let '(r, c) := gen_add_with_carry_6 a0 a1 a2 a3 a4 a5 b0 b1 b2 b3 b4 b5 in wf r /\ length r = 6%nat /\ val r + Wn 6 * Z.b2z c = val [a0; a1; a2; a3; a4; a5] + val [b0; b1; b2; b3; b4; b5]) /\
  (forall a0 a1 a2 a3 a4 a5 a6 a7 a8 a9 a10 a11 b0 b1 b2 b3 b4 b5 b6 b7 b8 b9 b10 b11,
    wf [a0; a1; a2; a3; a4; a5; a6; a7; a8; a9; a10; a11] -> wf [b0; b1; b2; b3; b4; b5; b6; b7; b8; b9; b10; b11] -> let '(r, c) := gen_add_with_carry_12 a0 a1 a2 a3 a4 a5 a6 a7 a8 a9 a10 a11 b0 b1 b2 b3 b4 b5 b6 b7 b8 b9 b10 b11 in wf r /\ length r = 12%nat /\ val r + Wn 12 * Z.b2z c = val [a0; a1; a2; a3; a4; a5; a6; a7; a8; a9; a10; a11] + val [b0; b1; b2; b3; b4; b5; b6; b7; b8; b9; b10; b11]).
Proof. exact (conj gen_add_with_carry_1_spec (conj gen_add_with_carry_2_spec (conj gen_add_with_carry_3_spec (conj gen_add_with_carry_4_spec (conj gen_add_with_carry_6_spec gen_add_with_carry_12_spec))))). Qed.
Theorem GenLimb_sub_with_borrow_spec :
  (forall a0 b0,
    wf [a0] -> wf [b0] -> let '(r, c) := gen_sub_with_borrow_1 a0 b0 in wf r /\ length r = 1%nat /\ val r - Wn 1 * Z.b2z c = val [a0] - val [b0]) /\
  (forall a0 a1 b0 b1,
    wf [a0; a1] -> wf [b0; b1] -> let '(r, c) := gen_sub_with_borrow_2 a0 a1 b0 b1 in wf r /\ length r = 2%nat /\ val r - Wn 2 * Z.b2z c = val [a0; a1] - val [b0; b1]) /\
  (forall a0 a1 a2 b0 b1 b2,
    wf [a0; a1; a2] -> wf [b0; b1; b2] -> let '(r, c) := gen_sub_with_borrow_3 a0 a1 a2 b0 b1 b2 in wf r /\ length r = 3%nat /\ val r - Wn 3 * Z.b2z c = val [a0; a1; a2] - val [b0; b1; b2]) /\
  (forall a0 a1 a2 a3 b0 b1 b2 b3,
    wf [a0; a1; a2; a3] -> wf [b0; b1; b2; b3] -> let '(r, c) := gen_sub_with_borrow_4 a0 a1 a2 a3 b0 b1 b2 b3 in wf r /\ length r = 4%nat /\ val r - Wn 4 * Z.b2z c = val [a0; a1; a2; a3] - val [b0; b1; b2; b3]) /\
  (forall a0 a1 a2 a3 a4 a5 b0 b1 b2 b3 b4 b5,
    wf [a0; a1; a2; a3; a4; a5] -> wf [b0; b1; b2; b3; b4; b5] -> let '(r, c) := gen_sub_with_borrow_6 a0 a1 a2 a3 a4 a5 b0 b1 b2 b3 b4 b5 in wf r /\ length r = 6%nat /\ val r - Wn 6 * Z.b2z c = val [a0; a1; a2; a3; a4; a5] - val [b0; b1; b2; b3; b4; b5]) /\
  (forall a0 a1 a2 a3 a4 a5 a6 a7 a8 a9 a10 a11 b0 b1 b2 b3 b4 b5 b6 b7 b8 b9 b10 b11,
    wf [a0; a1; a2; a3; a4; a5; a6; a7; a8; a9; a10; a11] -> wf [b0; b1; b2; b3; b4; b5; b6; b7; b8; b9; b10; b11] -> let '(r, c) := gen_sub_with_borrow_12 a0 a1 a2 a3 a4 a5 a6 a7 a8 a9 a10 a11 b0 b1 b2 b3 b4 b5 b6 b7 b8 b9 b10 b11 in wf r /\ length r = 12%nat /\ val r - Wn 12 * Z.b2z c = val [a0; a1; a2; a3; a4; a5; a6; a7; a8; a9; a10; a11] - val [b0; b1; b2; b3; b4; b5; b6; b7; b8; b9; b10; b11]).
Proof. exact (conj gen_sub_with_borrow_1_spec (conj gen_sub_with_borrow_2_spec (conj gen_sub_with_borrow_3_spec (conj gen_sub_with_borrow_4_spec (conj gen_sub_with_borrow_6_spec gen_sub_with_borrow_12_spec))))). Qed.
Theorem GenLimb_mul2_spec :
  (forall a0,
    wf [a0] -> let '(r, c) := gen_mul2_1 a0 in wf r /\ length r = 1%nat /\ val r + Wn 1 * Z.b2z c = 2 * val [a0]) /\
  (forall a0 a1,
    wf [a0; a1] -> let '(r, c) := gen_mul2_2 a0 a1 in wf r /\ length r = 2%nat /\ val r + Wn 2 * Z.b2z c = 2 * val [a0; a1]) /\
  (forall a0 a1 a2,
    wf [a0; a1; a2] -> let '(r, c) := gen_mul2_3 a0 a1 a2 in wf r /\ length r = 3%nat /\ val r + Wn 3 * Z.b2z c = 2 * val [a0; a1; a2]) /\
  (forall a0 a1 a2 a3,
    wf [a0; a1; a2; a3] -> let '(r, c) := gen_mul2_4 a0 a1 a2 a3 in wf r /\ length r = 4%nat /\ val r + Wn 4 * Z.b2z c = 2 * val [a0; a1; a2; a3]) /\
  (forall a0 a1 a2 a3 a4 a5,
    wf [a0; a1; a2; a3; a4; a5] -> let '(r, c) := gen_mul2_6 a0 a1 a2 a3 a4 a5 in wf r /\ length r = 6%nat /\ val r + Wn 6 * Z.b2z c = 2 * val [a0; a1; a2; a3; a4; a5]) /\
  (forall a0 a1 a2 a3 a4 a5 a6 a7 a8 a9 a10 a11,
    wf [a0; a1; a2; a3; a4; a5; a6; a7; a8; a9; a10; a11] -> let '(r, c) := gen_mul2_12 a0 a1 a2 a3 a4 a5 a6 a7 a8 a9 a10 a11 in wf r /\ length r = 12%nat /\ val r + Wn 12 * Z.b2z c = 2 * val [a0; a1; a2; a3; a4; a5; a6; a7; a8; a9; a10; a11]).
Proof. exact (conj gen_mul2_1_spec (conj gen_mul2_2_spec (conj gen_mul2_3_spec (conj gen_mul2_4_spec (conj gen_mul2_6_spec gen_mul2_12_spec))))). Qed.
Theorem GenLimb_div2_spec :
  (forall a0,
    wf [a0] -> wf (gen_div2_1 a0) /\ length (gen_div2_1 a0) = 1%nat /\ val (gen_div2_1 a0) = val [a0] / 2) /\
  (forall a0 a1,
    wf [a0; a1] -> wf (gen_div2_2 a0 a1) /\ length (gen_div2_2 a0 a1) = 2%nat /\ val (gen_div2_2 a0 a1) = val [a0; a1] / 2) /\
  (forall a0 a1 a2,
    wf [a0; a1; a2] -> wf (gen_div2_3 a0 a1 a2) /\ length (gen_div2_3 a0 a1 a2) = 3%nat /\ val (gen_div2_3 a0 a1 a2) = val [a0; a1; a2] / 2) /\
  (forall a0 a1 a2 a3,
    wf [a0; a1; a2; a3] -> wf (gen_div2_4 a0 a1 a2 a3) /\ length (gen_div2_4 a0 a1 a2 a3) = 4%nat /\ val (gen_div2_4 a0 a1 a2 a3) = val [a0; a1; a2; a3] / 2) /\
  (forall a0 a1 a2 a3 a4 a5,
    wf [a0; a1; a2; a3; a4; a5] -> wf (gen_div2_6 a0 a1 a2 a3 a4 a5) /\ length (gen_div2_6 a0 a1 a2 a3 a4 a5) = 6%nat /\ val (gen_div2_6 a0 a1 a2 a3 a4 a5) = val [a0; a1; a2; a3; a4; a5] / 2) /\
  (forall a0 a1 a2 a3 a4 a5 a6 a7 a8 a9 a10 a11,
    wf [a0; a1; a2; a3; a4; a5; a6; a7; a8; a9; a10; a11] -> wf (gen_div2_12 a0 a1 a2 a3 a4 a5 a6 a7 a8 a9 a10 a11) /\ length (gen_div2_12 a0 a1 a2 a3 a4 a5 a6 a7 a8 a9 a10 a11) = 12%nat /\ val (gen_div2_12 a0 a1 a2 a3 a4 a5 a6 a7 a8 a9 a10 a11) = val [a0; a1; a2; a3; a4; a5; a6; a7; a8; a9; a10; a11] / 2).
Proof. exact (conj gen_div2_1_spec (conj gen_div2_2_spec (conj gen_div2_3_spec (conj gen_div2_4_spec (conj gen_div2_6_spec gen_div2_12_spec))))). Qed.
Theorem GenLimb_cmp_spec :
  (forall a0 b0,
    wf [a0] -> wf [b0] -> gen_cmp_1 a0 b0 = Z.compare (val [a0]) (val [b0])) /\
  (forall a0 a1 b0 b1,
    wf [a0; a1] -> wf [b0; b1] -> gen_cmp_2 a0 a1 b0 b1 = Z.compare (val [a0; a1]) (val [b0; b1])) /\
  (forall a0 a1 a2 b0 b1 b2,
    wf [a0; a1; a2] -> wf [b0; b1; b2] -> gen_cmp_3 a0 a1 a2 b0 b1 b2 = Z.compare (val [a0; a1; a2]) (val [b0; b1; b2])) /\
  (forall a0 a1 a2 a3 b0 b1 b2 b3,
    wf [a0; a1; a2; a3] -> wf [b0; b1; b2; b3] -> gen_cmp_4 a0 a1 a2 a3 b0 b1 b2 b3 = Z.compare (val [a0; a1; a2; a3]) (val [b0; b1; b2; b3])) /\
  (forall a0 a1 a2 a3 a4 a5 b0 b1 b2 b3 b4 b5,
    wf [a0; a1; a2; a3; a4; a5] -> wf [b0; b1; b2; b3; b4; b5] -> gen_cmp_6 a0 a1 a2 a3 a4 a5 b0 b1 b2 b3 b4 b5 = Z.compare (val [a0; a1; a2; a3; a4; a5]) (val [b0; b1; b2; b3; b4; b5])) /\
  (forall a0 a1 a2 a3 a4 a5 a6 a7 a8 a9 a10 a11 b0 b1 b2 b3 b4 b5 b6 b7 b8 b9 b10 b11,
    wf [a0; a1; a2; a3; a4; a5; a6; a7; a8; a9; a10; a11] -> wf [b0; b1; b2; b3; b4; b5; b6; b7; b8; b9; b10; b11] -> gen_cmp_12 a0 a1 a2 a3 a4 a5 a6 a7 a8 a9 a10 a11 b0 b1 b2 b3 b4 b5 b6 b7 b8 b9 b10 b11 = Z.compare (val [a0; a1; a2; a3; a4; a5; a6; a7; a8; a9; a10; a11]) (val [b0; b1; b2; b3; b4; b5; b6; b7; b8; b9; b10; b11])).
Proof. exact (conj gen_cmp_1_spec (conj gen_cmp_2_spec (conj gen_cmp_3_spec (conj gen_cmp_4_spec (conj gen_cmp_6_spec gen_cmp_12_spec))))). Qed.
Theorem GenLimb_is_zero_spec :
  (forall a0,
    wf [a0] -> gen_is_zero_1 a0 = (val [a0] =? 0)) /\
  (forall a0 a1,
    wf [a0; a1] -> gen_is_zero_2 a0 a1 = (val [a0; a1] =? 0)) /\
  (forall a0 a1 a2,
    wf [a0; a1; a2] -> gen_is_zero_3 a0 a1 a2 = (val [a0; a1; a2] =? 0)) /\
  (forall a0 a1 a2 a3,
    wf [a0; a1; a2; a3] -> gen_is_zero_4 a0 a1 a2 a3 = (val [a0; a1; a2; a3] =? 0)) /\
  (forall a0 a1 a2 a3 a4 a5,
    wf [a0; a1; a2; a3; a4; a5] -> gen_is_zero_6 a0 a1 a2 a3 a4 a5 = (val [a0; a1; a2; a3; a4; a5] =? 0)) /\
  (forall a0 a1 a2 a3 a4 a5 a6 a7 a8 a9 a10 a11,
    wf [a0; a1; a2; a3; a4; a5; a6; a7; a8; a9; a10; a11] -> gen_is_zero_12 a0 a1 a2 a3 a4 a5 a6 a7 a8 a9 a10 a11 = (val [a0; a1; a2; a3; a4; a5; a6; a7; a8; a9; a10; a11] =? 0)).
Proof. exact (conj gen_is_zero_1_spec (conj gen_is_zero_2_spec (conj gen_is_zero_3_spec (conj gen_is_zero_4_spec (conj gen_is_zero_6_spec gen_is_zero_12_spec))))). Qed.
Theorem GenLimb_mul_spec :
  (forall a0 b0,
    wf [a0] -> wf [b0] -> let '(lo, hi) := gen_mul_1 a0 b0 in wf lo /\ wf hi /\ length lo = 1%nat /\ length hi = 1%nat /\ val lo + Wn 1 * val hi = val [a0] * val [b0]) /\
  (forall a0 a1 b0 b1,
    wf [a0; a1] -> wf [b0; b1] -> let '(lo, hi) := gen_mul_2 a0 a1 b0 b1 in wf lo /\ wf hi /\ length lo = 2%nat /\ length hi = 2%nat /\ val lo + Wn 2 * val hi = val [a0; a1] * val [b0; b1]) /\
  (forall a0 a1 a2 b0 b1 b2,
    wf [a0; a1; a2] -> wf [b0; b1; b2] -> let '(lo, hi) := gen_mul_3 a0 a1 a2 b0 b1 b2 in wf lo /\ wf hi /\ length lo = 3%nat /\ length hi = 3%nat /\ val lo + Wn 3 * val hi = val [a0; a1; a2] * val [b0; b1; b2]) /\
  (forall a0 a1 a2 a3 b0 b1 b2 b3,
    wf [a0; a1; a2; a3] -> wf [b0; b1; b2; b3] -> let '(lo, hi) := gen_mul_4 a0 a1 a2 a3 b0 b1 b2 b3 in wf lo /\ wf hi /\ length lo = 4%nat /\ length hi = 4%nat /\ val lo + Wn 4 * val hi = val [a0; a1; a2; a3] * val [b0; b1; b2; b3]) /\
  (forall a0 a1 a2 a3 a4 a5 b0 b1 b2 b3 b4 b5,
    wf [a0; a1; a2; a3; a4; a5] -> wf [b0; b1; b2; b3; b4; b5] -> let '(lo, hi) := gen_mul_6 a0 a1 a2 a3 a4 a5 b0 b1 b2 b3 b4 b5 in wf lo /\ wf hi /\ length lo = 6%nat /\ length hi = 6%nat /\ val lo + Wn 6 * val hi = val [a0; a1; a2; a3; a4; a5] * val [b0; b1; b2; b3; b4; b5]).
Proof. exact (conj gen_mul_1_spec (conj gen_mul_2_spec (conj gen_mul_3_spec (conj gen_mul_4_spec gen_mul_6_spec)))). Qed.
Theorem GenLimb_mul_low_spec :
  (forall a0 b0,
    wf [a0] -> wf [b0] -> val (gen_mul_low_1 a0 b0) = (val [a0] * val [b0]) mod Wn 1) /\
  (forall a0 a1 b0 b1,
    wf [a0; a1] -> wf [b0; b1] -> val (gen_mul_low_2 a0 a1 b0 b1) = (val [a0; a1] * val [b0; b1]) mod Wn 2) /\
  (forall a0 a1 a2 b0 b1 b2,
    wf [a0; a1; a2] -> wf [b0; b1; b2] -> val (gen_mul_low_3 a0 a1 a2 b0 b1 b2) = (val [a0; a1; a2] * val [b0; b1; b2]) mod Wn 3) /\
  (forall a0 a1 a2 a3 b0 b1 b2 b3,
    wf [a0; a1; a2; a3] -> wf [b0; b1; b2; b3] -> val (gen_mul_low_4 a0 a1 a2 a3 b0 b1 b2 b3) = (val [a0; a1; a2; a3] * val [b0; b1; b2; b3]) mod Wn 4) /\
  (forall a0 a1 a2 a3 a4 a5 b0 b1 b2 b3 b4 b5,
    wf [a0; a1; a2; a3; a4; a5] -> wf [b0; b1; b2; b3; b4; b5] -> val (gen_mul_low_6 a0 a1 a2 a3 a4 a5 b0 b1 b2 b3 b4 b5) = (val [a0; a1; a2; a3; a4; a5] * val [b0; b1; b2; b3; b4; b5]) mod Wn 6).
Proof. exact (conj gen_mul_low_1_spec (conj gen_mul_low_2_spec (conj gen_mul_low_3_spec (conj gen_mul_low_4_spec gen_mul_low_6_spec)))). Qed.
Theorem GenLimb_mul_high_spec :
  (forall a0 b0,
    wf [a0] -> wf [b0] -> val (gen_mul_high_1 a0 b0) = (val [a0] * val [b0]) / Wn 1) /\
  (forall a0 a1 b0 b1,
    wf [a0; a1] -> wf [b0; b1] -> val (gen_mul_high_2 a0 a1 b0 b1) = (val [a0; a1] * val [b0; b1]) / Wn 2) /\
  (forall a0 a1 a2 b0 b1 b2,
    wf [a0; a1; a2] -> wf [b0; b1; b2] -> val (gen_mul_high_3 a0 a1 a2 b0 b1 b2) = (val [a0; a1; a2] * val [b0; b1; b2]) / Wn 3) /\
  (forall a0 a1 a2 a3 b0 b1 b2 b3,
    wf [a0; a1; a2; a3] -> wf [b0; b1; b2; b3] -> val (gen_mul_high_4 a0 a1 a2 a3 b0 b1 b2 b3) = (val [a0; a1; a2; a3] * val [b0; b1; b2; b3]) / Wn 4) /\
  (forall a0 a1 a2 a3 a4 a5 b0 b1 b2 b3 b4 b5,
    wf [a0; a1; a2; a3; a4; a5] -> wf [b0; b1; b2; b3; b4; b5] -> val (gen_mul_high_6 a0 a1 a2 a3 a4 a5 b0 b1 b2 b3 b4 b5) = (val [a0; a1; a2; a3; a4; a5] * val [b0; b1; b2; b3; b4; b5]) / Wn 6).
Proof. exact (conj gen_mul_high_1_spec (conj gen_mul_high_2_spec (conj gen_mul_high_3_spec (conj gen_mul_high_4_spec gen_mul_high_6_spec)))). Qed.
Theorem GenLimb_mont_add_assign_spec :
  (forall m0 a0 b0,
    wf [m0] -> wf [a0] -> wf [b0] -> val [a0] < val [m0] -> val [b0] < val [m0] -> let r := gen_mont_add_assign_1 (has_spare_bit [m0]) m0 a0 b0 in wf r /\ length r = 1%nat /\ val r < val [m0] /\ val r = (val [a0] + val [b0]) mod val [m0]) /\
  (forall m0 m1 a0 a1 b0 b1,
    wf [m0; m1] -> wf [a0; a1] -> wf [b0; b1] -> val [a0; a1] < val [m0; m1] -> val [b0; b1] < val [m0; m1] -> let r := gen_mont_add_assign_2 (has_spare_bit [m0; m1]) m0 m1 a0 a1 b0 b1 in wf r /\ length r = 2%nat /\ val r < val [m0; m1] /\ val r = (val [a0; a1] + val [b0; b1]) mod val [m0; m1]) /\
  (forall m0 m1 m2 m3 a0 a1 a2 a3 b0 b1 b2 b3,
    wf [m0; m1; m2; m3] -> wf [a0; a1; a2; a3] -> wf [b0; b1; b2; b3] -> val [a0; a1; a2; a3] < val [m0; m1; m2; m3] -> val [b0; b1; b2; b3] < val [m0; m1; m2; m3] -> let r := gen_mont_add_assign_4 (has_spare_bit [m0; m1; m2; m3]) m0 m1 m2 m3 a0 a1 a2 a3 b0 b1 b2 b3 in wf r /\ length r = 4%nat /\ val r < val [m0; m1; m2; m3] /\ val r = (val [a0; a1; a2; a3] + val [b0; b1; b2; b3]) mod val [m0; m1; m2; m3]) /\
  (forall m0 m1 m2 m3 m4 m5 a0 a1 a2 a3 a4 a5 b0 b1 b2 b3 b4 b5,
    wf [m0; m1; m2; m3; m4; m5] -> wf [a0; a1; a2; a3; a4; a5] -> wf [b0; b1; b2; b3; b4; b5] -> val [a0; a1; a2; a3; a4; a5] < val [m0; m1; m2; m3; m4; m5] -> val [b0; b1; b2; b3; b4; b5] < val [m0; m1; m2; m3; m4; m5] -> let r := gen_mont_add_assign_6 (has_spare_bit [m0; m1; m2; m3; m4; m5]) m0 m1 m2 m3 m4 m5 a0 a1 a2 a3 a4 a5 b0 b1 b2 b3 b4 b5 in wf r /\ length r = 6%nat /\ val r < val [m0; m1; m2; m3; m4; m5] /\ val r = (val [a0; a1; a2; a3; a4; a5] + val [b0; b1; b2; b3; b4; b5]) mod val [m0; m1; m2; m3; m4; m5]).
Proof. exact (conj gen_mont_add_assign_1_spec (conj gen_mont_add_assign_2_spec (conj gen_mont_add_assign_4_spec gen_mont_add_assign_6_spec))). Qed.
Theorem GenLimb_mont_sub_assign_spec :
  (forall m0 a0 b0,
    wf [m0] -> wf [a0] -> wf [b0] -> val [a0] < val [m0] -> val [b0] < val [m0] -> let r := gen_mont_sub_assign_1 m0 a0 b0 in wf r /\ length r = 1%nat /\ val r < val [m0] /\ val r = (val [a0] - val [b0]) mod val [m0]) /\
  (forall m0 m1 a0 a1 b0 b1,
    wf [m0; m1] -> wf [a0; a1] -> wf [b0; b1] -> val [a0; a1] < val [m0; m1] -> val [b0; b1] < val [m0; m1] -> let r := gen_mont_sub_assign_2 m0 m1 a0 a1 b0 b1 in wf r /\ length r = 2%nat /\ val r < val [m0; m1] /\ val r = (val [a0; a1] - val [b0; b1]) mod val [m0; m1]) /\
  (forall m0 m1 m2 m3 a0 a1 a2 a3 b0 b1 b2 b3,
    wf [m0; m1; m2; m3] -> wf [a0; a1; a2; a3] -> wf [b0; b1; b2; b3] -> val [a0; a1; a2; a3] < val [m0; m1; m2; m3] -> val [b0; b1; b2; b3] < val [m0; m1; m2; m3] -> let r := gen_mont_sub_assign_4 m0 m1 m2 m3 a0 a1 a2 a3 b0 b1 b2 b3 in wf r /\ length r = 4%nat /\ val r < val [m0; m1; m2; m3] /\ val r = (val [a0; a1; a2; a3] - val [b0; b1; b2; b3]) mod val [m0; m1; m2; m3]) /\
  (forall m0 m1 m2 m3 m4 m5 a0 a1 a2 a3 a4 a5 b0 b1 b2 b3 b4 b5,
    wf [m0; m1; m2; m3; m4; m5] -> wf [a0; a1; a2; a3; a4; a5] -> wf [b0; b1; b2; b3; b4; b5] -> val [a0; a1; a2; a3; a4; a5] < val [m0; m1; m2; m3; m4; m5] -> val [b0; b1; b2; b3; b4; b5] < val [m0; m1; m2; m3; m4; m5] -> let r := gen_mont_sub_assign_6 m0 m1 m2 m3 m4 m5 a0 a1 a2 a3 a4 a5 b0 b1 b2 b3 b4 b5 in wf r /\ length r = 6%nat /\ val r < val [m0; m1; m2; m3; m4; m5] /\ val r = (val [a0; a1; a2; a3; a4; a5] - val [b0; b1; b2; b3; b4; b5]) mod val [m0; m1; m2; m3; m4; m5]).
Proof. exact (conj gen_mont_sub_assign_1_spec (conj gen_mont_sub_assign_2_spec (conj gen_mont_sub_assign_4_spec gen_mont_sub_assign_6_spec))). Qed.
Theorem GenLimb_mont_double_in_place_spec :
  (forall m0 a0,
    wf [m0] -> wf [a0] -> val [a0] < val [m0] -> let r := gen_mont_double_in_place_1 (has_spare_bit [m0]) m0 a0 in wf r /\ length r = 1%nat /\ val r < val [m0] /\ val r = (2 * val [a0]) mod val [m0]) /\
  (forall m0 m1 a0 a1,
    wf [m0; m1] -> wf [a0; a1] -> val [a0; a1] < val [m0; m1] -> let r := gen_mont_double_in_place_2 (has_spare_bit [m0; m1]) m0 m1 a0 a1 in wf r /\ length r = 2%nat /\ val r < val [m0; m1] /\ val r = (2 * val [a0; a1]) mod val [m0; m1]) /\
  (forall m0 m1 m2 m3 a0 a1 a2 a3,
    wf [m0; m1; m2; m3] -> wf [a0; a1; a2; a3] -> val [a0; a1; a2; a3] < val [m0; m1; m2; m3] -> let r := gen_mont_double_in_place_4 (has_spare_bit [m0; m1; m2; m3]) m0 m1 m2 m3 a0 a1 a2 a3 in wf r /\ length r = 4%nat /\ val r < val [m0; m1; m2; m3] /\ val r = (2 * val [a0; a1; a2; a3]) mod val [m0; m1; m2; m3]) /\
  (forall m0 m1 m2 m3 m4 m5 a0 a1 a2 a3 a4 a5,
    wf [m0; m1; m2; m3; m4; m5] -> wf [a0; a1; a2; a3; a4; a5] -> val [a0; a1; a2; a3; a4; a5] < val [m0; m1; m2; m3; m4; m5] -> let r := gen_mont_double_in_place_6 (has_spare_bit [m0; m1; m2; m3; m4; m5]) m0 m1 m2 m3 m4 m5 a0 a1 a2 a3 a4 a5 in wf r /\ length r = 6%nat /\ val r < val [m0; m1; m2; m3; m4; m5] /\ val r = (2 * val [a0; a1; a2; a3; a4; a5]) mod val [m0; m1; m2; m3; m4; m5]).
Proof. exact (conj gen_mont_double_in_place_1_spec (conj gen_mont_double_in_place_2_spec (conj gen_mont_double_in_place_4_spec gen_mont_double_in_place_6_spec))). Qed.
Theorem GenLimb_mont_neg_in_place_spec :
  (forall m0 a0,
    wf [m0] -> wf [a0] -> val [a0] < val [m0] -> let r := gen_mont_neg_in_place_1 m0 a0 in wf r /\ length r = 1%nat /\ val r < val [m0] /\ val r = (- val [a0]) mod val [m0]) /\
  (forall m0 m1 a0 a1,
    wf [m0; m1] -> wf [a0; a1] -> val [a0; a1] < val [m0; m1] -> let r := gen_mont_neg_in_place_2 m0 m1 a0 a1 in wf r /\ length r = 2%nat /\ val r < val [m0; m1] /\ val r = (- val [a0; a1]) mod val [m0; m1]) /\
  (forall m0 m1 m2 m3 a0 a1 a2 a3,
    wf [m0; m1; m2; m3] -> wf [a0; a1; a2; a3] -> val [a0; a1; a2; a3] < val [m0; m1; m2; m3] -> let r := gen_mont_neg_in_place_4 m0 m1 m2 m3 a0 a1 a2 a3 in wf r /\ length r = 4%nat /\ val r < val [m0; m1; m2; m3] /\ val r = (- val [a0; a1; a2; a3]) mod val [m0; m1; m2; m3]) /\
  (forall m0 m1 m2 m3 m4 m5 a0 a1 a2 a3 a4 a5,
    wf [m0; m1; m2; m3; m4; m5] -> wf [a0; a1; a2; a3; a4; a5] -> val [a0; a1; a2; a3; a4; a5] < val [m0; m1; m2; m3; m4; m5] -> let r := gen_mont_neg_in_place_6 m0 m1 m2 m3 m4 m5 a0 a1 a2 a3 a4 a5 in wf r /\ length r = 6%nat /\ val r < val [m0; m1; m2; m3; m4; m5] /\ val r = (- val [a0; a1; a2; a3; a4; a5]) mod val [m0; m1; m2; m3; m4; m5]).
Proof. exact (conj gen_mont_neg_in_place_1_spec (conj gen_mont_neg_in_place_2_spec (conj gen_mont_neg_in_place_4_spec gen_mont_neg_in_place_6_spec))). Qed.
Theorem GenLimb_mont_mul_assign_spec :
  (forall m0 a0 b0,
    wf [m0] -> wf [a0] -> wf [b0] -> val [m0] mod 2 = 1 -> val [a0] < val [m0] -> val [b0] < val [m0] -> let r := gen_mont_mul_assign_1 (nocarry_trait [m0]) (has_spare_bit [m0]) (inv_of [m0]) m0 a0 b0 in wf r /\ length r = 1%nat /\ val r < val [m0] /\ (val r * Wn 1) mod val [m0] = (val [a0] * val [b0]) mod val [m0]) /\
  (forall m0 m1 a0 a1 b0 b1,
    wf [m0; m1] -> wf [a0; a1] -> wf [b0; b1] -> val [m0; m1] mod 2 = 1 -> val [a0; a1] < val [m0; m1] -> val [b0; b1] < val [m0; m1] -> let r := gen_mont_mul_assign_2 (nocarry_trait [m0; m1]) (has_spare_bit [m0; m1]) (inv_of [m0; m1]) m0 m1 a0 a1 b0 b1 in wf r /\ length r = 2%nat /\ val r < val [m0; m1] /\ (val r * Wn 2) mod val [m0; m1] = (val [a0; a1] * val [b0; b1]) mod val [m0; m1]) /\
  (forall m0 m1 m2 m3 a0 a1 a2 a3 b0 b1 b2 b3,
    wf [m0; m1; m2; m3] -> wf [a0; a1; a2; a3] -> wf [b0; b1; b2; b3] -> val [m0; m1; m2; m3] mod 2 = 1 -> val [a0; a1; a2; a3] < val [m0; m1; m2; m3] -> val [b0; b1; b2; b3] < val [m0; m1; m2; m3] -> let r := gen_mont_mul_assign_4 (nocarry_trait [m0; m1; m2; m3]) (has_spare_bit [m0; m1; m2; m3]) (inv_of [m0; m1; m2; m3]) m0 m1 m2 m3 a0 a1 a2 a3 b0 b1 b2 b3 in wf r /\ length r = 4%nat /\ val r < val [m0; m1; m2; m3] /\ (val r * Wn 4) mod val [m0; m1; m2; m3] = (val [a0; a1; a2; a3] * val [b0; b1; b2; b3]) mod val [m0; m1; m2; m3]) /\
  (forall m0 m1 m2 m3 m4 m5 a0 a1 a2 a3 a4 a5 b0 b1 b2 b3 b4 b5,
    wf [m0; m1; m2; m3; m4; m5] -> wf [a0; a1; a2; a3; a4; a5] -> wf [b0; b1; b2; b3; b4; b5] -> val [m0; m1; m2; m3; m4; m5] mod 2 = 1 -> val [a0; a1; a2; a3; a4; a5] < val [m0; m1; m2; m3; m4; m5] -> val [b0; b1; b2; b3; b4; b5] < val [m0; m1; m2; m3; m4; m5] -> let r := gen_mont_mul_assign_6 (nocarry_trait [m0; m1; m2; m3; m4; m5]) (has_spare_bit [m0; m1; m2; m3; m4; m5]) (inv_of [m0; m1; m2; m3; m4; m5]) m0 m1 m2 m3 m4 m5 a0 a1 a2 a3 a4 a5 b0 b1 b2 b3 b4 b5 in wf r /\ length r = 6%nat /\ val r < val [m0; m1; m2; m3; m4; m5] /\ (val r * Wn 6) mod val [m0; m1; m2; m3; m4; m5] = (val [a0; a1; a2; a3; a4; a5] * val [b0; b1; b2; b3; b4; b5]) mod val [m0; m1; m2; m3; m4; m5]).
Proof. exact (conj gen_mont_mul_assign_1_spec (conj gen_mont_mul_assign_2_spec (conj gen_mont_mul_assign_4_spec gen_mont_mul_assign_6_spec))). Qed.
Theorem GenLimb_mont_square_in_place_spec :
  (forall can_sq m0 a0,
    wf [m0] -> wf [a0] -> val [m0] mod 2 = 1 -> val [a0] < val [m0] -> let r := gen_mont_square_in_place_1 (nocarry_trait [m0]) can_sq (has_spare_bit [m0]) (inv_of [m0]) m0 a0 in wf r /\ length r = 1%nat /\ val r < val [m0] /\ (val r * Wn 1) mod val [m0] = (val [a0] * val [a0]) mod val [m0]) /\
  (forall can_nc can_sq m0 m1 a0 a1,
    wf [m0; m1] -> wf [a0; a1] -> val [m0; m1] mod 2 = 1 -> val [a0; a1] < val [m0; m1] -> let r := gen_mont_square_in_place_2 can_nc can_sq (has_spare_bit [m0; m1]) (inv_of [m0; m1]) m0 m1 a0 a1 in wf r /\ length r = 2%nat /\ val r < val [m0; m1] /\ (val r * Wn 2) mod val [m0; m1] = (val [a0; a1] * val [a0; a1]) mod val [m0; m1]) /\
  (forall can_nc can_sq m0 m1 m2 m3 a0 a1 a2 a3,
    wf [m0; m1; m2; m3] -> wf [a0; a1; a2; a3] -> val [m0; m1; m2; m3] mod 2 = 1 -> val [a0; a1; a2; a3] < val [m0; m1; m2; m3] -> let r := gen_mont_square_in_place_4 can_nc can_sq (has_spare_bit [m0; m1; m2; m3]) (inv_of [m0; m1; m2; m3]) m0 m1 m2 m3 a0 a1 a2 a3 in wf r /\ length r = 4%nat /\ val r < val [m0; m1; m2; m3] /\ (val r * Wn 4) mod val [m0; m1; m2; m3] = (val [a0; a1; a2; a3] * val [a0; a1; a2; a3]) mod val [m0; m1; m2; m3]) /\
  (forall can_nc can_sq m0 m1 m2 m3 m4 m5 a0 a1 a2 a3 a4 a5,
    wf [m0; m1; m2; m3; m4; m5] -> wf [a0; a1; a2; a3; a4; a5] -> val [m0; m1; m2; m3; m4; m5] mod 2 = 1 -> val [a0; a1; a2; a3; a4; a5] < val [m0; m1; m2; m3; m4; m5] -> let r := gen_mont_square_in_place_6 can_nc can_sq (has_spare_bit [m0; m1; m2; m3; m4; m5]) (inv_of [m0; m1; m2; m3; m4; m5]) m0 m1 m2 m3 m4 m5 a0 a1 a2 a3 a4 a5 in wf r /\ length r = 6%nat /\ val r < val [m0; m1; m2; m3; m4; m5] /\ (val r * Wn 6) mod val [m0; m1; m2; m3; m4; m5] = (val [a0; a1; a2; a3; a4; a5] * val [a0; a1; a2; a3; a4; a5]) mod val [m0; m1; m2; m3; m4; m5]).
Proof. exact (conj gen_mont_square_in_place_1_spec (conj gen_mont_square_in_place_2_spec (conj gen_mont_square_in_place_4_spec gen_mont_square_in_place_6_spec))). Qed.
Theorem GenLimb_mont_into_bigint_spec :
  (forall m0 a0,
    wf [m0] -> wf [a0] -> val [m0] mod 2 = 1 -> val [a0] < val [m0] -> let r := gen_mont_into_bigint_1 (inv_of [m0]) m0 a0 in wf r /\ length r = 1%nat /\ val r < val [m0] /\ (val r * Wn 1) mod val [m0] = val [a0] mod val [m0]) /\
  (forall m0 m1 a0 a1,
    wf [m0; m1] -> wf [a0; a1] -> val [m0; m1] mod 2 = 1 -> val [a0; a1] < val [m0; m1] -> let r := gen_mont_into_bigint_2 (inv_of [m0; m1]) m0 m1 a0 a1 in wf r /\ length r = 2%nat /\ val r < val [m0; m1] /\ (val r * Wn 2) mod val [m0; m1] = val [a0; a1] mod val [m0; m1]) /\
  (forall m0 m1 m2 m3 a0 a1 a2 a3,
    wf [m0; m1; m2; m3] -> wf [a0; a1; a2; a3] -> val [m0; m1; m2; m3] mod 2 = 1 -> val [a0; a1; a2; a3] < val [m0; m1; m2; m3] -> let r := gen_mont_into_bigint_4 (inv_of [m0; m1; m2; m3]) m0 m1 m2 m3 a0 a1 a2 a3 in wf r /\ length r = 4%nat /\ val r < val [m0; m1; m2; m3] /\ (val r * Wn 4) mod val [m0; m1; m2; m3] = val [a0; a1; a2; a3] mod val [m0; m1; m2; m3]) /\
  (forall m0 m1 m2 m3 m4 m5 a0 a1 a2 a3 a4 a5,
    wf [m0; m1; m2; m3; m4; m5] -> wf [a0; a1; a2; a3; a4; a5] -> val [m0; m1; m2; m3; m4; m5] mod 2 = 1 -> val [a0; a1; a2; a3; a4; a5] < val [m0; m1; m2; m3; m4; m5] -> let r := gen_mont_into_bigint_6 (inv_of [m0; m1; m2; m3; m4; m5]) m0 m1 m2 m3 m4 m5 a0 a1 a2 a3 a4 a5 in wf r /\ length r = 6%nat /\ val r < val [m0; m1; m2; m3; m4; m5] /\ (val r * Wn 6) mod val [m0; m1; m2; m3; m4; m5] = val [a0; a1; a2; a3; a4; a5] mod val [m0; m1; m2; m3; m4; m5]).
Proof. exact (conj gen_mont_into_bigint_1_spec (conj gen_mont_into_bigint_2_spec (conj gen_mont_into_bigint_4_spec gen_mont_into_bigint_6_spec))). Qed.
Theorem GenLimb_mont_from_bigint_spec :
  (forall m0 rr0 x0,
    wf [m0] -> wf [x0] -> val [m0] mod 2 = 1 -> [rr0] = R2_of [m0] -> match gen_mont_from_bigint_1 (nocarry_trait [m0]) (has_spare_bit [m0]) (inv_of [m0]) m0 rr0 x0 with | None => val [m0] <= val [x0] | Some r => val [x0] < val [m0] /\ wf r /\ length r = 1%nat /\ val r < val [m0] /\ val r = (val [x0] * Wn 1) mod val [m0] end) /\
  (forall m0 m1 rr0 rr1 x0 x1,
    wf [m0; m1] -> wf [x0; x1] -> val [m0; m1] mod 2 = 1 -> [rr0; rr1] = R2_of [m0; m1] -> match gen_mont_from_bigint_2 (nocarry_trait [m0; m1]) (has_spare_bit [m0; m1]) (inv_of [m0; m1]) m0 m1 rr0 rr1 x0 x1 with | None => val [m0; m1] <= val [x0; x1] | Some r => val [x0; x1] < val [m0; m1] /\ wf r /\ length r = 2%nat /\ val r < val [m0; m1] /\ val r = (val [x0; x1] * Wn 2) mod val [m0; m1] end) /\
  (forall m0 m1 m2 m3 rr0 rr1 rr2 rr3 x0 x1 x2 x3,
    wf [m0; m1; m2; m3] -> wf [x0; x1; x2; x3] -> val [m0; m1; m2; m3] mod 2 = 1 -> [rr0; rr1; rr2; rr3] = R2_of [m0; m1; m2; m3] -> match gen_mont_from_bigint_4 (nocarry_trait [m0; m1; m2; m3]) (has_spare_bit [m0; m1; m2; m3]) (inv_of [m0; m1; m2; m3]) m0 m1 m2 m3 rr0 rr1 rr2 rr3 x0 x1 x2 x3 with | None => val [m0; m1; m2; m3] <= val [x0; x1; x2; x3] | Some r => val [x0; x1; x2; x3] < val [m0; m1; m2; m3] /\ wf r /\ length r = 4%nat /\ val r < val [m0; m1; m2; m3] /\ val r = (val [x0; x1; x2; x3] * Wn 4) mod val [m0; m1; m2; m3] end) /\
  (forall m0 m1 m2 m3 m4 m5 rr0 rr1 rr2 rr3 rr4 rr5 x0 x1 x2 x3 x4 x5,
    wf [m0; m1; m2; m3; m4; m5] -> wf [x0; x1; x2; x3; x4; x5] -> val [m0; m1; m2; m3; m4; m5] mod 2 = 1 -> [rr0; rr1; rr2; rr3; rr4; rr5] = R2_of [m0; m1; m2; m3; m4; m5] -> match gen_mont_from_bigint_6 (nocarry_trait [m0; m1; m2; m3; m4; m5]) (has_spare_bit [m0; m1; m2; m3; m4; m5]) (inv_of [m0; m1; m2; m3; m4; m5]) m0 m1 m2 m3 m4 m5 rr0 rr1 rr2 rr3 rr4 rr5 x0 x1 x2 x3 x4 x5 with | None => val [m0; m1; m2; m3; m4; m5] <= val [x0; x1; x2; x3; x4; x5] | Some r => val [x0; x1; x2; x3; x4; x5] < val [m0; m1; m2; m3; m4; m5] /\ wf r /\ length r = 6%nat /\ val r < val [m0; m1; m2; m3; m4; m5] /\ val r = (val [x0; x1; x2; x3; x4; x5] * Wn 6) mod val [m0; m1; m2; m3; m4; m5] end).
Proof. exact (conj gen_mont_from_bigint_1_spec (conj gen_mont_from_bigint_2_spec (conj gen_mont_from_bigint_4_spec gen_mont_from_bigint_6_spec))). Qed.

(* ---------------- all-N bridges (hand-proved, GenLimbSpecs.v part 2) ---------------- *)
Theorem GenLimb_nc_fold_w_eq : forall m0 m' a inv,
  (forall x, (x + ((x * inv) mod W64) * m0) mod W64 = 0) ->
  wf (m0 :: m') -> wf a -> length a = length (m0 :: m') -> val a < val (m0 :: m') ->
  2 * val (m0 :: m') <= Wn (length (m0 :: m')) ->
  forall bs r, wf bs -> wf r -> length r = length (m0 :: m') -> val r < 2 * val (m0 :: m') ->
  fold_left (nc_row_w (m0 :: m') a inv) bs r = fold_left (nc_row (m0 :: m') a inv) bs r.
Proof. exact nc_fold_w_eq. Qed.
Theorem GenLimb_mul_assign_w_eq : forall m a b, wf m -> wf a -> wf b ->
  length a = length m -> length b = length m -> val m mod 2 = 1 -> val a < val m ->
  mul_assign_w (nocarry_trait m) (has_spare_bit m) m a b = mul_assign false m a b.
Proof. exact mul_assign_w_eq. Qed.
Theorem GenLimb_from_bigint_w_eq : forall m r2 x, wf m -> wf r2 -> wf x ->
  length x = length m -> length r2 = length m -> val m mod 2 = 1 ->
  from_bigint_w (nocarry_trait m) (has_spare_bit m) m r2 x = from_bigint_with false m r2 x.
Proof. exact from_bigint_w_eq. Qed.

(* ---------------- non-vacuity: concrete inputs satisfying the hypotheses ---------------- *)
(* p = 13 (one limb, spare bit): 5 + 11 = 3, 5 - 11 = 7, 2 * 11 = 9, -5 = 8 *)
Example GenLimb_mont_small_example :
  val [5] < val [13] /\ val [11] < val [13] /\ val [13] mod 2 = 1 /\
  gen_mont_add_assign_1 (has_spare_bit [13]) 13 5 11 = [3] /\
  gen_mont_sub_assign_1 13 5 11 = [7] /\
  gen_mont_double_in_place_1 (has_spare_bit [13]) 13 11 = [9] /\
  gen_mont_neg_in_place_1 13 5 = [8].
Proof. vm_compute. repeat split; reflexivity. Qed.
(* two limbs, modulus 2^128 - 159 WITHOUT a spare bit (plain CIOS branch with carry-aware subtraction):
   (p-1)^2 * R^-1 and the round trip through Montgomery form *)
Example GenLimb_mont_no_spare_bit_example :
  let m := [18446744073709551457; 18446744073709551615] in
  let a := [18446744073709551456; 18446744073709551615] in
  nocarry_trait m = false /\ has_spare_bit m = false /\ val m mod 2 = 1 /\ val a < val m /\
  (val (gen_mont_mul_assign_2 (nocarry_trait m) (has_spare_bit m) (inv_of m)
          18446744073709551457 18446744073709551615
          18446744073709551456 18446744073709551615 18446744073709551456 18446744073709551615)
     * Wn 2) mod val m = (val a * val a) mod val m.
Proof. vm_compute. repeat split; reflexivity. Qed.
(* carries: 2-limb add with carry out, 2-limb sub with borrow *)
Example GenLimb_bigint_example :
  gen_add_with_carry_2 (W64 - 1) (W64 - 1) 1 0 = ([0; 0], true) /\
  gen_sub_with_borrow_2 0 0 1 0 = ([W64 - 1; W64 - 1], true) /\
  gen_mul_2 (W64 - 1) (W64 - 1) (W64 - 1) (W64 - 1) = ([1; 0], [W64 - 2; W64 - 1]) /\
  gen_cmp_2 5 1 6 0 = Gt.
Proof. vm_compute. repeat split; reflexivity. Qed.
