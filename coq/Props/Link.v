(* Link -- property theorems only: pinned statements, each closed by `exact`.

   What is linked.  C04 (scalar multiplication) and C05 (MSM) prove their theorems for ANY operation
   dictionary that `realises` / is `gops_hom` to an abstract commutative group, and their correspondence
   checks EXECUTE the model functions with the curve dictionaries [C04.Run.sw_gops F a], [C04.Run.te_gops
   F a d], [C05.Run.sw_gops F a], [C05.Run.te_gops F a d] built from the C03 model.  The theorems below
   prove that these concrete dictionaries realise the affine group law on valid representatives
   ([Link_*_realises_on], [Link_*_gops_hom_on]: from C03's per-operation theorems, no associativity
   needed), that the affine points form a commutative group given ONE classical premise -- associativity
   of the affine law on curve points, [sw_law_assoc F a b] / [te_law_assoc F a d] (the C12 definitions;
   Section hypothesis `affine_law_assoc` in coq/Link) -- and they instantiate the C04/C05 headline
   theorems at the concrete dictionaries.

   Vocabulary.  [good_field F] (C03): field_theory with Leibniz equality, feqb decides equality, 1+1 <> 0.
   [jac_on F a b P] / [aff_on F a b A]: the (affine image of the) point satisfies y^2 = x^3 + a x + b.
   [okR F a d P] (C12): [te_valid] (Z <> 0, T Z = X Y) and the affine image satisfies the Edwards equation
   [te_aff_on F a d].  [te_law_complete F a d] (C12): both denominators of the Edwards law are non-zero
   for every pair of curve points ([C03_te_complete]: a a square, d a non-square).
   [abelian_group_on okA add neg zero]: closure + the commutative-group laws on the boolean subset okA.
   [realises_on] / [gops_hom_on]: the C04 / C05 premise relativised to invariants on the representations.
   Right-hand sides: [C04.GroupTheory.smul] / [C05.GroupProofs.smul] / [msum] iterate the RAW affine law
   on coordinate pairs -- k . A, sum_i k_i . A_i in the group of curve points. *)
From V Require Import Base.Field Base.Word Base.ZpField Base.ZpTransfer C03.CurveExec C03.SWProofs C03.TEProofs C03.FieldHyp
  C12.SWSubgroupProofs C12.TESubgroupProofs C15.BitsProofs.
From V Require C04.GroupOps C04.GroupTheory C04.ScalarMul C04.Wnaf C04.WnafProofs C04.Run.
From V Require C05.MsmModel C05.StreamModel C05.GroupProofs C05.MsmProofs C05.Run.
From V Require Import Link.SubGroup Link.SWGroup Link.TEGroup Link.SWRealises Link.TERealises
  Link.Examples Link.ExamplesTE.
From V Require Link.Transfer04 Link.Transfer05.

(* ================= generic: a group on a decidable subset; relativised C04 / C05 theorems ================= *)

(* the subset type {x | okA x = true} with the restricted operations is a commutative group in the sense of
   C04 and of C05, and k . X computed there is the raw iteration *)
Theorem Link_sub_abelian_group : forall (A : Type) (okA : A -> bool) (add : A -> A -> A) (neg : A -> A) (zero : A)
  (G : abelian_group_on okA add neg zero),
  C04.GroupTheory.abelian_group (sub_add okA add neg zero G) (sub_neg okA add neg zero G) (sub_zero okA add neg zero G)
  /\ C05.GroupProofs.group_laws (sub_add okA add neg zero G) (sub_neg okA add neg zero G) (sub_zero okA add neg zero G).
Proof. exact (fun A okA add neg zero G => conj (sub_abelian okA add neg zero G) (sub_group_laws okA add neg zero G)). Qed.

(* C04_double_and_add_spec under the relativised premise (any dictionary, any invariants) *)
Theorem Link_double_and_add_on : forall (A : Type) (okA : A -> bool) (aadd : A -> A -> A) (aneg : A -> A) (azero : A)
  (R B : Type) (Ops : C04.GroupOps.Gops R B) (okR : R -> Prop) (okB : B -> Prop) (phi : R -> A) (phib : B -> A),
  abelian_group_on okA aadd aneg azero -> Transfer04.realises_on okA aadd aneg azero Ops okR okB phi phib ->
  forall limbs P, wf limbs -> okR P ->
  okR (C04.ScalarMul.mul_bigint_proj Ops limbs P) /\
  phi (C04.ScalarMul.mul_bigint_proj Ops limbs P) = C04.GroupTheory.smul aadd aneg azero (val limbs) (phi P).
Proof. exact (@Transfer04.double_and_add_on). Qed.

(* C05_msm_bigint_spec under the relativised premise *)
Theorem Link_msm_bigint_on : forall (A : Type) (okA : A -> bool) (add : A -> A -> A) (neg : A -> A) (zero : A)
  (G B : Type) (GO : C05.MsmModel.Gops G B) (okG : G -> Prop) (okB : B -> Prop) (den : G -> A) (denB : B -> A),
  abelian_group_on okA add neg zero -> Transfer05.gops_hom_on okA add neg zero GO okG okB den denB ->
  forall cheap nb bases scalars,
  1 <= nb -> Z.min (C05.MsmModel.len bases) (C05.MsmModel.len scalars) < 2 ^ 64 -> Forall okB bases ->
  Forall (fun s => wf s /\ nb <= 64 * C05.MsmModel.len s /\ val s < 2 ^ nb) scalars ->
  exists g, C05.MsmModel.msm_bigint GO cheap nb bases scalars = C05.MsmModel.Ok g /\ okG g /\
            den g = C05.GroupProofs.msum add zero
                      (map (fun p => C05.GroupProofs.smul add neg zero (val (fst p)) (denB (snd p))) (combine scalars bases)).
Proof. exact (@Transfer05.msm_bigint_on). Qed.

(* ================= short Weierstrass, Jacobian coordinates ================= *)

(* commutativity of the chord-and-tangent law on curve points (proved: no hypothesis) *)
Theorem Link_sw_law_comm : forall T (F : Fops T) (a b : T), good_field F ->
  forall A B, aff_on F a b A -> aff_on F a b B -> aff_add_sw F a A B = aff_add_sw F a B A.
Proof. exact (@sw_law_comm). Qed.

(* the curve points are a commutative group, given associativity *)
Theorem Link_sw_group_on : forall T (F : Fops T) (a b : T), good_field F -> sw_law_assoc F a b ->
  abelian_group_on (sw_aff_on_curve F a b) (aff_add_sw F a) (aff_neg_sw F) None.
Proof. exact (@sw_group_on). Qed.
Theorem Link_sw_points_group : forall T (F : Fops T) (a b : T) (GF : good_field F) (H : sw_law_assoc F a b),
  C04.GroupTheory.abelian_group (sw_point_add F a b GF H) (sw_point_neg F a b GF H) (sw_point_zero F a b GF H) /\
  C05.GroupProofs.group_laws (sw_point_add F a b GF H) (sw_point_neg F a b GF H) (sw_point_zero F a b GF H).
Proof. exact (fun T F a b GF H => conj (sw_points_abelian_group F a b GF H) (sw_points_group_laws F a b GF H)). Qed.

(* the executed dictionaries realise the law on on-curve representatives (C03; no associativity) *)
Theorem Link_sw_realises_on : forall T (F : Fops T) (a b : T), good_field F ->
  Transfer04.realises_on (sw_aff_on_curve F a b) (aff_add_sw F a) (aff_neg_sw F) None
    (C04.Run.sw_gops F a) (jac_on F a b) (aff_on F a b) (sw_to_affine F) (fun A => A).
Proof. exact (@sw_realises_on). Qed.
Theorem Link_sw_gops_hom_on : forall T (F : Fops T) (a b : T), good_field F ->
  Transfer05.gops_hom_on (sw_aff_on_curve F a b) (aff_add_sw F a) (aff_neg_sw F) None
    (C05.Run.sw_gops F a) (jac_on F a b) (aff_on F a b) (sw_to_affine F) (fun A => A).
Proof. exact (@sw_gops_hom_on). Qed.

(* C04_double_and_add_spec for the Jacobian model: every on-curve P (any representative), every limb slice *)
Theorem Link_sw_double_and_add : forall T (F : Fops T) (a b : T), good_field F -> sw_law_assoc F a b ->
  forall limbs P, wf limbs -> jac_on F a b P ->
  jac_on F a b (C04.ScalarMul.mul_bigint_proj (C04.Run.sw_gops F a) limbs P) /\
  sw_to_affine F (C04.ScalarMul.mul_bigint_proj (C04.Run.sw_gops F a) limbs P)
  = C04.GroupTheory.smul (aff_add_sw F a) (aff_neg_sw F) None (val limbs) (sw_to_affine F P).
Proof. exact (@sw_double_and_add). Qed.
Theorem Link_sw_double_and_add_affine : forall T (F : Fops T) (a b : T), good_field F -> sw_law_assoc F a b ->
  forall limbs A, wf limbs -> aff_on F a b A ->
  jac_on F a b (C04.ScalarMul.mul_bigint_aff (C04.Run.sw_gops F a) limbs A) /\
  sw_to_affine F (C04.ScalarMul.mul_bigint_aff (C04.Run.sw_gops F a) limbs A)
  = C04.GroupTheory.smul (aff_add_sw F a) (aff_neg_sw F) None (val limbs) A.
Proof. exact (@sw_double_and_add_affine). Qed.
Theorem Link_sw_mul_bits_be : forall T (F : Fops T) (a b : T), good_field F -> sw_law_assoc F a b ->
  forall bits P, Forall is_bit bits -> jac_on F a b P ->
  jac_on F a b (C04.ScalarMul.mul_bits_be (C04.Run.sw_gops F a) bits P) /\
  sw_to_affine F (C04.ScalarMul.mul_bits_be (C04.Run.sw_gops F a) bits P)
  = C04.GroupTheory.smul (aff_add_sw F a) (aff_neg_sw F) None (C04.GroupOps.bval_be bits) (sw_to_affine F P).
Proof. exact (@sw_mul_bits_be). Qed.
Theorem Link_sw_mul_scalar : forall T (F : Fops T) (a b : T), good_field F -> sw_law_assoc F a b ->
  forall N r k P, 0 < r <= Wn N -> jac_on F a b P ->
  jac_on F a b (C04.ScalarMul.mul_scalar_proj (C04.Run.sw_gops F a) N r k P) /\
  sw_to_affine F (C04.ScalarMul.mul_scalar_proj (C04.Run.sw_gops F a) N r k P)
  = C04.GroupTheory.smul (aff_add_sw F a) (aff_neg_sw F) None (k mod r) (sw_to_affine F P).
Proof. exact (@sw_mul_scalar). Qed.

(* C04_wnaf_mul_fresh_spec / C04_wnaf_mul_spec / C04_wnaf_table_spec for the Jacobian model *)
Theorem Link_sw_wnaf_mul : forall T (F : Fops T) (a b : T), good_field F -> sw_law_assoc F a b ->
  forall w limbs P, 2 <= w < 64 -> wf limbs -> jac_on F a b P ->
  exists res, C04.Wnaf.wnaf_mul (C04.Run.sw_gops F a) w P limbs = C04.GroupOps.Ok res /\ jac_on F a b res /\
              sw_to_affine F res = C04.GroupTheory.smul (aff_add_sw F a) (aff_neg_sw F) None (val limbs) (sw_to_affine F P).
Proof. exact (@sw_wnaf_mul). Qed.
Theorem Link_sw_wnaf_mul_with_table : forall T (F : Fops T) (a b : T), good_field F -> sw_law_assoc F a b ->
  forall w table limbs X, 2 <= w < 64 -> wf limbs -> aff_on F a b X ->
  2 ^ (w - 1) <= Z.of_nat (length table) -> Forall (jac_on F a b) table ->
  C04.WnafProofs.table_ok (aff_add_sw F a) (aff_neg_sw F) None (sw_to_affine F) X table ->
  exists res, C04.Wnaf.wnaf_mul_with_table (C04.Run.sw_gops F a) w table limbs = C04.GroupOps.Ok res /\
              jac_on F a b res /\
              sw_to_affine F res = C04.GroupTheory.smul (aff_add_sw F a) (aff_neg_sw F) None (val limbs) X.
Proof. exact (@sw_wnaf_mul_with_table). Qed.
Theorem Link_sw_wnaf_table : forall T (F : Fops T) (a b : T), good_field F -> sw_law_assoc F a b ->
  forall w base, 1 <= w -> jac_on F a b base ->
  Z.of_nat (length (C04.Wnaf.wnaf_table (C04.Run.sw_gops F a) w base)) = 2 ^ (w - 1) /\
  Forall (jac_on F a b) (C04.Wnaf.wnaf_table (C04.Run.sw_gops F a) w base) /\
  C04.WnafProofs.table_ok (aff_add_sw F a) (aff_neg_sw F) None (sw_to_affine F) (sw_to_affine F base)
    (C04.Wnaf.wnaf_table (C04.Run.sw_gops F a) w base).
Proof. exact (@sw_wnaf_table). Qed.

(* C05_msm_bigint_spec (both bucket methods) for the Jacobian model: every pair of lengths, on-curve bases *)
Theorem Link_sw_msm : forall T (F : Fops T) (a b : T), good_field F -> sw_law_assoc F a b ->
  forall cheap nb bases scalars,
  1 <= nb -> Z.min (C05.MsmModel.len bases) (C05.MsmModel.len scalars) < 2 ^ 64 -> Forall (aff_on F a b) bases ->
  Forall (fun s => wf s /\ nb <= 64 * C05.MsmModel.len s /\ val s < 2 ^ nb) scalars ->
  exists g, C05.MsmModel.msm_bigint (C05.Run.sw_gops F a) cheap nb bases scalars = C05.MsmModel.Ok g /\
            jac_on F a b g /\
            sw_to_affine F g = C05.GroupProofs.msum (aff_add_sw F a) None
              (map (fun p => C05.GroupProofs.smul (aff_add_sw F a) (aff_neg_sw F) None (val (fst p)) (snd p))
                   (combine scalars bases)).
Proof. exact (@sw_msm). Qed.
(* C05_msm_checked_spec: Ok with the full sum iff equal lengths, otherwise Err (min len) *)
Theorem Link_sw_msm_checked : forall T (F : Fops T) (a b : T), good_field F -> sw_law_assoc F a b ->
  forall cheap nb N bases ks,
  1 <= nb <= 64 * Z.of_nat N -> C05.MsmModel.len bases < 2 ^ 64 -> Forall (aff_on F a b) bases ->
  Forall (fun k => 0 <= k < 2 ^ nb) ks ->
  (length bases = length ks ->
     exists g, C05.MsmModel.msm_checked (C05.Run.sw_gops F a) cheap nb N bases ks = C05.MsmModel.Ok g /\
               jac_on F a b g /\
               sw_to_affine F g = C05.GroupProofs.msum (aff_add_sw F a) None
                 (map (fun p => C05.GroupProofs.smul (aff_add_sw F a) (aff_neg_sw F) None (fst p) (snd p))
                      (combine ks bases))) /\
  (length bases <> length ks ->
     C05.MsmModel.msm_checked (C05.Run.sw_gops F a) cheap nb N bases ks
     = C05.MsmModel.Err (Z.min (C05.MsmModel.len bases) (C05.MsmModel.len ks))).
Proof. exact (@sw_msm_checked). Qed.
(* C05_msm_chunks_spec: every chunk size; the LAST len(scalars) bases are used *)
Theorem Link_sw_msm_chunks : forall T (F : Fops T) (a b : T), good_field F -> sw_law_assoc F a b ->
  forall cheap nb N step bases ks,
  1 <= nb <= 64 * Z.of_nat N -> 0 < step -> C05.MsmModel.len bases < 2 ^ 64 -> Forall (aff_on F a b) bases ->
  Forall (fun k => 0 <= k < 2 ^ nb) ks -> (length ks <= length bases)%nat ->
  exists g, C05.MsmModel.msm_chunks (C05.Run.sw_gops F a) cheap nb N step bases ks = C05.MsmModel.Ok g /\
            jac_on F a b g /\
            sw_to_affine F g = C05.GroupProofs.msum (aff_add_sw F a) None
              (map (fun p => C05.GroupProofs.smul (aff_add_sw F a) (aff_neg_sw F) None (fst p) (snd p))
                   (combine ks (skipn (length bases - length ks) bases))).
Proof. exact (@sw_msm_chunks). Qed.
(* C05_chunked_msm_refines_sum: every buffer size, every history of add calls *)
Theorem Link_sw_chunked_pippenger : forall T (F : Fops T) (a b : T), good_field F -> sw_law_assoc F a b ->
  forall cheap nb size ops,
  1 <= nb -> C05.MsmModel.len ops < 2 ^ 64 -> Forall (fun p => aff_on F a b (fst p)) ops ->
  Forall (fun p => wf (snd p) /\ nb <= 64 * C05.MsmModel.len (snd p) /\ val (snd p) < 2 ^ nb) ops ->
  exists g, C05.StreamModel.cp_run (C05.Run.sw_gops F a)
              (C05.MsmModel.msm_bigint (C05.Run.sw_gops F a) cheap nb) size ops = C05.MsmModel.Ok g /\
            jac_on F a b g /\
            sw_to_affine F g = C05.GroupProofs.msum (aff_add_sw F a) None
              (map (fun p => C05.GroupProofs.smul (aff_add_sw F a) (aff_neg_sw F) None (val (snd p)) (fst p)) ops).
Proof. exact (@sw_chunked_pippenger). Qed.

(* ================= twisted Edwards, extended coordinates, complete curves ================= *)

(* commutativity of the Edwards law on curve points (proved; completeness gives the denominators) *)
Theorem Link_te_law_comm : forall T (F : Fops T) (a d : T), good_field F -> te_law_complete F a d ->
  forall A B, te_aff_on F a d A -> te_aff_on F a d B -> aff_add_te F a d A B = aff_add_te F a d B A.
Proof. exact (@te_law_comm). Qed.

(* the curve points are a commutative group, given associativity *)
Theorem Link_te_group_on : forall T (F : Fops T) (a d : T), good_field F -> te_law_complete F a d -> te_law_assoc F a d ->
  abelian_group_on (te_aff_on_curve F a d) (aff_add_te F a d) (aff_neg_te F) (te_aff_zero F).
Proof. exact (@te_group_on). Qed.
Theorem Link_te_points_group : forall T (F : Fops T) (a d : T) (GF : good_field F) (C : te_law_complete F a d) (H : te_law_assoc F a d),
  C04.GroupTheory.abelian_group (te_point_add F a d GF C H) (te_point_neg F a d GF C H) (te_point_zero F a d GF C H) /\
  C05.GroupProofs.group_laws (te_point_add F a d GF C H) (te_point_neg F a d GF C H) (te_point_zero F a d GF C H).
Proof. exact (fun T F a d GF C H => conj (te_points_abelian_group F a d GF C H) (te_points_group_laws F a d GF C H)). Qed.

(* the executed dictionaries realise the law on valid on-curve representatives (C03; no associativity) *)
Theorem Link_te_realises_on : forall T (F : Fops T) (a d : T), good_field F -> te_law_complete F a d ->
  Transfer04.realises_on (te_aff_on_curve F a d) (aff_add_te F a d) (aff_neg_te F) (te_aff_zero F)
    (C04.Run.te_gops F a d) (okR F a d) (te_aff_on F a d) (te_to_affine F) (fun A => A).
Proof. exact (@te_realises_on). Qed.
Theorem Link_te_gops_hom_on : forall T (F : Fops T) (a d : T), good_field F -> te_law_complete F a d ->
  Transfer05.gops_hom_on (te_aff_on_curve F a d) (aff_add_te F a d) (aff_neg_te F) (te_aff_zero F)
    (C05.Run.te_gops F a d) (okR F a d) (te_aff_on F a d) (te_to_affine F) (fun A => A).
Proof. exact (@te_gops_hom_on). Qed.

(* C04_double_and_add_spec for the extended-coordinates model: every on-curve P (any representative), every limb slice *)
Theorem Link_te_double_and_add : forall T (F : Fops T) (a d : T), good_field F -> te_law_complete F a d -> te_law_assoc F a d ->
  forall limbs P, wf limbs -> okR F a d P ->
  okR F a d (C04.ScalarMul.mul_bigint_proj (C04.Run.te_gops F a d) limbs P) /\
  te_to_affine F (C04.ScalarMul.mul_bigint_proj (C04.Run.te_gops F a d) limbs P)
  = C04.GroupTheory.smul (aff_add_te F a d) (aff_neg_te F) (te_aff_zero F) (val limbs) (te_to_affine F P).
Proof. exact (@te_double_and_add). Qed.
Theorem Link_te_double_and_add_affine : forall T (F : Fops T) (a d : T), good_field F -> te_law_complete F a d -> te_law_assoc F a d ->
  forall limbs A, wf limbs -> te_aff_on F a d A ->
  okR F a d (C04.ScalarMul.mul_bigint_aff (C04.Run.te_gops F a d) limbs A) /\
  te_to_affine F (C04.ScalarMul.mul_bigint_aff (C04.Run.te_gops F a d) limbs A)
  = C04.GroupTheory.smul (aff_add_te F a d) (aff_neg_te F) (te_aff_zero F) (val limbs) A.
Proof. exact (@te_double_and_add_affine). Qed.
Theorem Link_te_mul_bits_be : forall T (F : Fops T) (a d : T), good_field F -> te_law_complete F a d -> te_law_assoc F a d ->
  forall bits P, Forall is_bit bits -> okR F a d P ->
  okR F a d (C04.ScalarMul.mul_bits_be (C04.Run.te_gops F a d) bits P) /\
  te_to_affine F (C04.ScalarMul.mul_bits_be (C04.Run.te_gops F a d) bits P)
  = C04.GroupTheory.smul (aff_add_te F a d) (aff_neg_te F) (te_aff_zero F) (C04.GroupOps.bval_be bits) (te_to_affine F P).
Proof. exact (@te_mul_bits_be). Qed.
Theorem Link_te_mul_scalar : forall T (F : Fops T) (a d : T), good_field F -> te_law_complete F a d -> te_law_assoc F a d ->
  forall N r k P, 0 < r <= Wn N -> okR F a d P ->
  okR F a d (C04.ScalarMul.mul_scalar_proj (C04.Run.te_gops F a d) N r k P) /\
  te_to_affine F (C04.ScalarMul.mul_scalar_proj (C04.Run.te_gops F a d) N r k P)
  = C04.GroupTheory.smul (aff_add_te F a d) (aff_neg_te F) (te_aff_zero F) (k mod r) (te_to_affine F P).
Proof. exact (@te_mul_scalar). Qed.

(* C04_wnaf_mul_fresh_spec / C04_wnaf_mul_spec / C04_wnaf_table_spec for the extended-coordinates model *)
Theorem Link_te_wnaf_mul : forall T (F : Fops T) (a d : T), good_field F -> te_law_complete F a d -> te_law_assoc F a d ->
  forall w limbs P, 2 <= w < 64 -> wf limbs -> okR F a d P ->
  exists res, C04.Wnaf.wnaf_mul (C04.Run.te_gops F a d) w P limbs = C04.GroupOps.Ok res /\ okR F a d res /\
              te_to_affine F res = C04.GroupTheory.smul (aff_add_te F a d) (aff_neg_te F) (te_aff_zero F) (val limbs) (te_to_affine F P).
Proof. exact (@te_wnaf_mul). Qed.
Theorem Link_te_wnaf_mul_with_table : forall T (F : Fops T) (a d : T), good_field F -> te_law_complete F a d -> te_law_assoc F a d ->
  forall w table limbs X, 2 <= w < 64 -> wf limbs -> te_aff_on F a d X ->
  2 ^ (w - 1) <= Z.of_nat (length table) -> Forall (okR F a d) table ->
  C04.WnafProofs.table_ok (aff_add_te F a d) (aff_neg_te F) (te_aff_zero F) (te_to_affine F) X table ->
  exists res, C04.Wnaf.wnaf_mul_with_table (C04.Run.te_gops F a d) w table limbs = C04.GroupOps.Ok res /\
              okR F a d res /\
              te_to_affine F res = C04.GroupTheory.smul (aff_add_te F a d) (aff_neg_te F) (te_aff_zero F) (val limbs) X.
Proof. exact (@te_wnaf_mul_with_table). Qed.
Theorem Link_te_wnaf_table : forall T (F : Fops T) (a d : T), good_field F -> te_law_complete F a d -> te_law_assoc F a d ->
  forall w base, 1 <= w -> okR F a d base ->
  Z.of_nat (length (C04.Wnaf.wnaf_table (C04.Run.te_gops F a d) w base)) = 2 ^ (w - 1) /\
  Forall (okR F a d) (C04.Wnaf.wnaf_table (C04.Run.te_gops F a d) w base) /\
  C04.WnafProofs.table_ok (aff_add_te F a d) (aff_neg_te F) (te_aff_zero F) (te_to_affine F) (te_to_affine F base)
    (C04.Wnaf.wnaf_table (C04.Run.te_gops F a d) w base).
Proof. exact (@te_wnaf_table). Qed.

(* C05_msm_bigint_spec (both bucket methods) for the extended-coordinates model: every pair of lengths, on-curve bases *)
Theorem Link_te_msm : forall T (F : Fops T) (a d : T), good_field F -> te_law_complete F a d -> te_law_assoc F a d ->
  forall cheap nb bases scalars,
  1 <= nb -> Z.min (C05.MsmModel.len bases) (C05.MsmModel.len scalars) < 2 ^ 64 -> Forall (te_aff_on F a d) bases ->
  Forall (fun s => wf s /\ nb <= 64 * C05.MsmModel.len s /\ val s < 2 ^ nb) scalars ->
  exists g, C05.MsmModel.msm_bigint (C05.Run.te_gops F a d) cheap nb bases scalars = C05.MsmModel.Ok g /\
            okR F a d g /\
            te_to_affine F g = C05.GroupProofs.msum (aff_add_te F a d) (te_aff_zero F)
              (map (fun p => C05.GroupProofs.smul (aff_add_te F a d) (aff_neg_te F) (te_aff_zero F) (val (fst p)) (snd p))
                   (combine scalars bases)).
Proof. exact (@te_msm). Qed.
(* C05_msm_checked_spec: Ok with the full sum iff equal lengths, otherwise Err (min len) *)
Theorem Link_te_msm_checked : forall T (F : Fops T) (a d : T), good_field F -> te_law_complete F a d -> te_law_assoc F a d ->
  forall cheap nb N bases ks,
  1 <= nb <= 64 * Z.of_nat N -> C05.MsmModel.len bases < 2 ^ 64 -> Forall (te_aff_on F a d) bases ->
  Forall (fun k => 0 <= k < 2 ^ nb) ks ->
  (length bases = length ks ->
     exists g, C05.MsmModel.msm_checked (C05.Run.te_gops F a d) cheap nb N bases ks = C05.MsmModel.Ok g /\
               okR F a d g /\
               te_to_affine F g = C05.GroupProofs.msum (aff_add_te F a d) (te_aff_zero F)
                 (map (fun p => C05.GroupProofs.smul (aff_add_te F a d) (aff_neg_te F) (te_aff_zero F) (fst p) (snd p))
                      (combine ks bases))) /\
  (length bases <> length ks ->
     C05.MsmModel.msm_checked (C05.Run.te_gops F a d) cheap nb N bases ks
     = C05.MsmModel.Err (Z.min (C05.MsmModel.len bases) (C05.MsmModel.len ks))).
Proof. exact (@te_msm_checked). Qed.
(* C05_msm_chunks_spec: every chunk size; the LAST len(scalars) bases are used *)
Theorem Link_te_msm_chunks : forall T (F : Fops T) (a d : T), good_field F -> te_law_complete F a d -> te_law_assoc F a d ->
  forall cheap nb N step bases ks,
  1 <= nb <= 64 * Z.of_nat N -> 0 < step -> C05.MsmModel.len bases < 2 ^ 64 -> Forall (te_aff_on F a d) bases ->
  Forall (fun k => 0 <= k < 2 ^ nb) ks -> (length ks <= length bases)%nat ->
  exists g, C05.MsmModel.msm_chunks (C05.Run.te_gops F a d) cheap nb N step bases ks = C05.MsmModel.Ok g /\
            okR F a d g /\
            te_to_affine F g = C05.GroupProofs.msum (aff_add_te F a d) (te_aff_zero F)
              (map (fun p => C05.GroupProofs.smul (aff_add_te F a d) (aff_neg_te F) (te_aff_zero F) (fst p) (snd p))
                   (combine ks (skipn (length bases - length ks) bases))).
Proof. exact (@te_msm_chunks). Qed.
(* C05_chunked_msm_refines_sum: every buffer size, every history of add calls *)
Theorem Link_te_chunked_pippenger : forall T (F : Fops T) (a d : T), good_field F -> te_law_complete F a d -> te_law_assoc F a d ->
  forall cheap nb size ops,
  1 <= nb -> C05.MsmModel.len ops < 2 ^ 64 -> Forall (fun p => te_aff_on F a d (fst p)) ops ->
  Forall (fun p => wf (snd p) /\ nb <= 64 * C05.MsmModel.len (snd p) /\ val (snd p) < 2 ^ nb) ops ->
  exists g, C05.StreamModel.cp_run (C05.Run.te_gops F a d)
              (C05.MsmModel.msm_bigint (C05.Run.te_gops F a d) cheap nb) size ops = C05.MsmModel.Ok g /\
            okR F a d g /\
            te_to_affine F g = C05.GroupProofs.msum (aff_add_te F a d) (te_aff_zero F)
              (map (fun p => C05.GroupProofs.smul (aff_add_te F a d) (aff_neg_te F) (te_aff_zero F) (val (snd p)) (fst p)) ops).
Proof. exact (@te_chunked_pippenger). Qed.

(* completeness is dischargeable: a a square, d a non-square (C03_te_complete) *)
Theorem Link_te_complete : forall T (F : Fops T) (a d s : T), good_field F ->
  a = fmul F s s -> (forall w, fmul F w w <> d) -> te_law_complete F a d.
Proof. exact (fun T F a d s G Ha Hd A B => Props.C03.C03_te_complete T F a d s G Ha Hd A B). Qed.

(* ================= the premises are satisfiable: F_13 ================= *)
(* y^2 = x^3 + 2 over F_13 (19 points): good field, on-curve representatives (Z = 2 and affine), and --
   because the field is finite -- even associativity, by exhausting the 19^3 triples *)
Example Link_example_sw_premises :
  good_field F13 /\ jac_on F13 a13 b13 P13 /\ aff_on F13 a13 b13 A13 /\ wf [5; 0] /\ sw_law_assoc F13 a13 b13.
Proof. exact (conj F13_good (conj P13_on (conj A13_on (conj ex_wf sw_assoc_13)))). Qed.
(* hence, with NO premise left: for every limb slice, mul_bigint of the C04 model on the representative
   (4, 6, 2) of (1, 4) is (val limbs) . (1, 4) *)
Example Link_example_sw_double_and_add : forall limbs, wf limbs ->
  sw_to_affine F13 (C04.ScalarMul.mul_bigint_proj (C04.Run.sw_gops F13 a13) limbs P13)
  = C04.GroupTheory.smul (aff_add_sw F13 a13) (aff_neg_sw F13) None (val limbs) A13.
Proof. exact sw_double_and_add_13. Qed.
(* 12 x^2 + y^2 = 1 + 6 x^2 y^2 over F_13 (a = 5^2, d = 6 non-square; 20 points): completeness from
   C03_te_complete, associativity by exhausting the 20^3 triples, a valid representative *)
Example Link_example_te_premises :
  te_law_complete F13 ta13 td13 /\ te_law_assoc F13 ta13 td13 /\ okR F13 ta13 td13 Q13.
Proof. exact (conj te_complete_13 (conj te_assoc_13 Q13_ok)). Qed.
Example Link_example_te_double_and_add : forall limbs, wf limbs ->
  te_to_affine F13 (C04.ScalarMul.mul_bigint_proj (C04.Run.te_gops F13 ta13 td13) limbs Q13)
  = C04.GroupTheory.smul (aff_add_te F13 ta13 td13) (aff_neg_te F13) (te_aff_zero F13) (val limbs)
      (fp_of 13 0, fp_of 13 12).
Proof. exact te_double_and_add_13. Qed.
(* evaluation: 5 . (1,4) on the Weierstrass curve, through the Jacobian model and through the affine law *)
Example Link_example_run :
  aff_val (sw_to_affine F13 (C04.ScalarMul.mul_bigint_proj (C04.Run.sw_gops F13 a13) [5; 0] P13)) = Some (5, 6) /\
  aff_val (C04.GroupTheory.smul (aff_add_sw F13 a13) (aff_neg_sw F13) None 5 A13) = Some (5, 6).
Proof. vm_compute. split; reflexivity. Qed.
