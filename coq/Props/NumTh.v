(* NumTh -- property theorems only: pinned statements, each closed by `exact`.
   The number-theoretic premises that C02 (Frobenius = p^k-th power: freshman identity and X^n = cX)
   and C11 (square roots: Fermat's little theorem for the field) carried as hypotheses, proved for
   every prime p and every element:
     1. Fermat's little theorem for the executed prime field ([FpOps p], [ZpOps p], Z.pow);
     2. binomial theorem and freshman identity in every commutative ring dictionary with p.1 = 0;
     3. table-driven Frobenius of the C02 tower model = x |-> x^(p^k), generic level and
        Fp2 / Fp3 / Fp4 / Fp6(2 over 3) over [FpOps p]; tables periodic, so `power mod degree` is right;
     4. Fermat in the towers (x^(p^d - 1) = 1), x^p = conj x and x^(p+1) = norm x in Fp2, and the
        C11 square-root theorems re-pinned WITHOUT the Fermat premise;
     5. Euler's criterion for Z_p (both directions; root bound for polynomials over a field).
   [npow F x n] : iterated product (C02/CycProofs); [fpow] : square-and-multiply of Base/Field.v;
   [nmul F n x] : iterated sum; [binom] : Pascal's recurrence; [fermatN F N] : forall x, x^N = x.
   Examples: p = 13, nr = 2 (neither a square nor a cube mod 13); p = 7 for Case3Mod4. *)
Require Import ZArith Znumtheory List Ring_theory Field_theory.
From V Require Import Base.Field Base.ZpField Base.ExtField Base.ZpInstances Base.ZpTransfer Base.ZpTransfer6
  C02.Quad C02.Cubic C02.CycProofs C02.Inst C02.InstProofs
  C11.SqrtModel C11.SqrtProofs C11.QuadProofs
  NumTh.Binom NumTh.Fermat NumTh.Frob NumTh.ExtFermat NumTh.Sqrt NumTh.Euler NumTh.FrobTable NumTh.Tower12 NumTh.FrobZp NumTh.Examples.
Import ListNotations.
Open Scope Z_scope.

(* ================= 2. binomial theorem, freshman identity ================= *)
Theorem NumTh_prime_div_binom : forall p k, prime p -> 0 < Z.of_nat k < p ->
  exists m, binom (Z.to_nat p) k = (m * Z.to_nat p)%nat.
Proof. exact prime_div_binom. Qed.

Theorem NumTh_binomial : forall (T : Type) (F : Fops T),
  ring_theory (f0 F) (f1 F) (fadd F) (fmul F) (fsub F) (fneg F) eq ->
  forall (u v : T) (n : nat),
  npow F (fadd F u v) n =
  sumf F (fun k => nmul F (binom n k) (fmul F (npow F u k) (npow F v (n - k)))) (S n).
Proof. exact (@binomial). Qed.

(* (u + v)^p = u^p + v^p in every commutative ring in which 1 + ... + 1 (p times) = 0 *)
Theorem NumTh_freshman : forall (T : Type) (F : Fops T),
  ring_theory (f0 F) (f1 F) (fadd F) (fmul F) (fsub F) (fneg F) eq ->
  forall p : Z, prime p -> nmul F (Z.to_nat p) (f1 F) = f0 F ->
  forall u v : T,
  npow F (fadd F u v) (Z.to_nat p) = fadd F (npow F u (Z.to_nat p)) (npow F v (Z.to_nat p)).
Proof. exact (@freshman). Qed.

Theorem NumTh_freshman_iter : forall (T : Type) (F : Fops T),
  ring_theory (f0 F) (f1 F) (fadd F) (fmul F) (fsub F) (fneg F) eq ->
  forall p : Z, prime p -> nmul F (Z.to_nat p) (f1 F) = f0 F ->
  forall (k : nat) (u v : T),
  npow F (fadd F u v) (Z.to_nat p ^ k) =
  fadd F (npow F u (Z.to_nat p ^ k)) (npow F v (Z.to_nat p ^ k)).
Proof. exact (@freshman_iter). Qed.

(* the same with the characteristic stated through the project's injection fofZ *)
Theorem NumTh_freshman_fofZ : forall (T : Type) (F : Fops T),
  ring_theory (f0 F) (f1 F) (fadd F) (fmul F) (fsub F) (fneg F) eq ->
  forall p : Z, prime p -> fofZ F p = f0 F ->
  forall (k : nat) (u v : T),
  npow F (fadd F u v) (Z.to_nat p ^ k) =
  fadd F (npow F u (Z.to_nat p ^ k)) (npow F v (Z.to_nat p ^ k)).
Proof. exact (@freshman_fofZ). Qed.

(* ================= 1. Fermat's little theorem ================= *)
Theorem NumTh_fermat_Fp : forall p, prime p -> forall x : Fp p,
  x <> f0 (FpOps p) -> fpow (FpOps p) x (p - 1) = f1 (FpOps p).
Proof. exact fermat_fpow. Qed.
Theorem NumTh_fermat_Fp_xp : forall p, prime p -> forall x : Fp p, fpow (FpOps p) x p = x.
Proof. exact fermat_fpow_p. Qed.
Theorem NumTh_fermat_Fp_xpk : forall p, prime p -> forall (x : Fp p) (k : Z), 0 <= k ->
  fpow (FpOps p) x (p ^ k) = x.
Proof. exact fermat_fpow_pk. Qed.
Theorem NumTh_Fp_char : forall p, prime p -> fofZ (FpOps p) p = f0 (FpOps p).
Proof. exact Fp_char_fofZ. Qed.
(* on the executed dictionary, canonical integers *)
Theorem NumTh_fermat_Zp : forall p x, prime p -> 0 < x < p -> fpow (ZpOps p) x (p - 1) = 1.
Proof. exact fermat_Zp. Qed.
Theorem NumTh_fermat_Zp_xp : forall p x, prime p -> canon p x -> fpow (ZpOps p) x p = x.
Proof. exact fermat_Zp_p. Qed.
(* in standard-library terms *)
Theorem NumTh_fermat_Z : forall p x, prime p -> x mod p <> 0 -> x ^ (p - 1) mod p = 1.
Proof. exact fermat_Z. Qed.
Theorem NumTh_fermat_Z_xp : forall p x, prime p -> x ^ p mod p = x mod p.
Proof. exact fermat_Z_p. Qed.
(* the `fermat` premise of the C11 theorems (C11 model power, any multiple of p - 1), both dictionaries *)
Theorem NumTh_fermat_premise_Fp : forall p, prime p -> forall e, 0 <= e -> (p - 1 | e) ->
  forall x : Fp p, x <> f0 (FpOps p) -> pow (f1 (FpOps p)) (fmul (FpOps p)) x e = f1 (FpOps p).
Proof. exact fermat_premise_Fp. Qed.
Theorem NumTh_fermat_premise_Zp : forall p, prime p -> forall e, 0 <= e -> (p - 1 | e) ->
  forall x, canon p x -> x <> 0 -> pow (f1 (ZpOps p)) (fmul (ZpOps p)) x e = f1 (ZpOps p).
Proof. exact fermat_premise_Zp. Qed.

(* ================= 3. Frobenius = p^k-th power ================= *)
(* generic quadratic level: C02_quad_frobenius_is_pow_partial with premises (ii) freshman and
   (iii) X^n = cX discharged; B any commutative ring with p.1 = 0, n = p^k = 2m + 1 *)
Theorem NumTh_quad_frobenius_is_pow : forall (T : Type) (B : Fops T),
  ring_theory (f0 B) (f1 B) (fadd B) (fmul B) (fsub B) (fneg B) eq ->
  forall (nr : T) (p : Z) (k m : nat) (frobB coef : T -> T),
  prime p -> nmul B (Z.to_nat p) (f1 B) = f0 B ->
  (Z.to_nat p ^ k = 2 * m + 1)%nat ->
  (forall a, frobB a = npow B a (Z.to_nat p ^ k)) ->
  (forall y, coef y = fmul B y (npow B nr m)) ->
  forall x : T * T, quad_frobenius frobB coef x = npow (QuadOps B nr) x (Z.to_nat p ^ k).
Proof. exact (@quad_frobenius_is_npow). Qed.

Theorem NumTh_quad_frobenius_is_fpow : forall (T : Type) (B : Fops T),
  ring_theory (f0 B) (f1 B) (fadd B) (fmul B) (fsub B) (fneg B) eq ->
  forall (nr : T) (p k : Z) (frobB coef : T -> T),
  prime p -> 2 < p -> 0 <= k -> fofZ B p = f0 B ->
  (forall a, frobB a = fpow B a (p ^ k)) ->
  (forall y, coef y = fmul B y (fpow B nr ((p ^ k - 1) / 2))) ->
  forall x : T * T, quad_frobenius frobB coef x = fpow (QuadOps B nr) x (p ^ k).
Proof. exact (@quad_frobenius_is_fpow). Qed.

(* generic cubic level: n = p^k = 3m + 1, c1 = nr^m, c2 = c1^2 *)
Theorem NumTh_cubic_frobenius_is_pow : forall (T : Type) (B : Fops T),
  ring_theory (f0 B) (f1 B) (fadd B) (fmul B) (fsub B) (fneg B) eq ->
  forall (nr : T) (p : Z) (k m : nat) (frobB coef1 coef2 : T -> T),
  prime p -> nmul B (Z.to_nat p) (f1 B) = f0 B ->
  (Z.to_nat p ^ k = 3 * m + 1)%nat ->
  (forall a, frobB a = npow B a (Z.to_nat p ^ k)) ->
  (forall y, coef1 y = fmul B y (npow B nr m)) ->
  (forall y, coef2 y = fmul B y (fmul B (npow B nr m) (npow B nr m))) ->
  forall x : T * T * T, cubic_frobenius frobB coef1 coef2 x = npow (CubicOps B nr) x (Z.to_nat p ^ k).
Proof. exact (@cubic_frobenius_is_npow). Qed.

Theorem NumTh_cubic_frobenius_is_fpow : forall (T : Type) (B : Fops T),
  ring_theory (f0 B) (f1 B) (fadd B) (fmul B) (fsub B) (fneg B) eq ->
  forall (nr : T) (p k : Z) (frobB coef1 coef2 : T -> T) (k1 : T),
  prime p -> 0 <= k -> p ^ k mod 3 = 1 -> fofZ B p = f0 B ->
  (forall a, frobB a = fpow B a (p ^ k)) ->
  k1 = fpow B nr ((p ^ k - 1) / 3) ->
  (forall y, coef1 y = fmul B y k1) ->
  (forall y, coef2 y = fmul B y (fmul B k1 k1)) ->
  forall x : T * T * T, cubic_frobenius frobB coef1 coef2 x = fpow (CubicOps B nr) x (p ^ k).
Proof. exact (@cubic_frobenius_is_fpow). Qed.

(* the characteristic is inherited by the towers *)
Theorem NumTh_quad_char : forall (T : Type) (B : Fops T),
  ring_theory (f0 B) (f1 B) (fadd B) (fmul B) (fsub B) (fneg B) eq ->
  forall (nr : T) (z : Z), 0 <= z -> fofZ B z = f0 B -> fofZ (QuadOps B nr) z = f0 (QuadOps B nr).
Proof. exact (@fofZ_quad). Qed.
Theorem NumTh_cubic_char : forall (T : Type) (B : Fops T),
  ring_theory (f0 B) (f1 B) (fadd B) (fmul B) (fsub B) (fneg B) eq ->
  forall (nr : T) (z : Z), 0 <= z -> fofZ B z = f0 B -> fofZ (CubicOps B nr) z = f0 (CubicOps B nr).
Proof. exact (@fofZ_cubic). Qed.

(* the towers of C02/Inst.v over FpOps p: only the table entry remains as hypothesis.
   RHS = ffrob (QuadOps (FpOps p) nr) k x, the specification-level Frobenius of Base/Field.v *)
Theorem NumTh_fp2_frobenius_is_pow : forall p, prime p ->
  forall (nr : Fp p) (tab2 : list (Fp p)) (k : Z), 2 < p -> 0 <= k ->
  tabsel (f0 (FpOps p)) tab2 2 k = fpow (FpOps p) nr ((p ^ k - 1) / 2) ->
  forall x : Fp p * Fp p, fp2_frob (FpOps p) tab2 k x = fpow (QuadOps (FpOps p) nr) x (p ^ k).
Proof. exact fp2_frobenius_is_pow. Qed.

Theorem NumTh_fp3_frobenius_is_pow : forall p, prime p ->
  forall (nr : Fp p) (tab3_1 tab3_2 : list (Fp p)) (k : Z), 0 <= k -> p ^ k mod 3 = 1 ->
  tabsel (f0 (FpOps p)) tab3_1 3 k = fpow (FpOps p) nr ((p ^ k - 1) / 3) ->
  tabsel (f0 (FpOps p)) tab3_2 3 k =
    fmul (FpOps p) (tabsel (f0 (FpOps p)) tab3_1 3 k) (tabsel (f0 (FpOps p)) tab3_1 3 k) ->
  forall x : Fp p * Fp p * Fp p,
  fp3_frob (FpOps p) tab3_1 tab3_2 k x = fpow (CubicOps (FpOps p) nr) x (p ^ k).
Proof. exact fp3_frobenius_is_pow. Qed.

(* two-level towers: Fp4 = Fp2[W]/(W^2 - nr4), Fp6 = Fp3[W]/(W^2 - nr6) *)
Theorem NumTh_fp4_frobenius_is_pow : forall p, prime p ->
  forall (nr2 : Fp p) (nr4 : Fp p * Fp p) (tab2 tab4 : list (Fp p)) (k : Z), 2 < p -> 0 <= k ->
  tabsel (f0 (FpOps p)) tab2 2 k = fpow (FpOps p) nr2 ((p ^ k - 1) / 2) ->
  (tabsel (f0 (FpOps p)) tab4 4 k, f0 (FpOps p)) = fpow (QuadOps (FpOps p) nr2) nr4 ((p ^ k - 1) / 2) ->
  forall x, fp4_frob (FpOps p) tab2 tab4 k x = fpow (QuadOps (QuadOps (FpOps p) nr2) nr4) x (p ^ k).
Proof. exact fp4_frobenius_is_pow. Qed.

Theorem NumTh_fp6b_frobenius_is_pow : forall p, prime p ->
  forall (nr3 : Fp p) (nr6 : Fp p * Fp p * Fp p) (tab3_1 tab3_2 tab6 : list (Fp p)) (k : Z),
  2 < p -> 0 <= k -> p ^ k mod 3 = 1 ->
  tabsel (f0 (FpOps p)) tab3_1 3 k = fpow (FpOps p) nr3 ((p ^ k - 1) / 3) ->
  tabsel (f0 (FpOps p)) tab3_2 3 k =
    fmul (FpOps p) (tabsel (f0 (FpOps p)) tab3_1 3 k) (tabsel (f0 (FpOps p)) tab3_1 3 k) ->
  (tabsel (f0 (FpOps p)) tab6 6 k, f0 (FpOps p), f0 (FpOps p)) =
    fpow (CubicOps (FpOps p) nr3) nr6 ((p ^ k - 1) / 2) ->
  forall x, fp6b_frob (FpOps p) tab3_1 tab3_2 tab6 k x =
            fpow (QuadOps (CubicOps (FpOps p) nr3) nr6) x (p ^ k).
Proof. exact fp6b_frobenius_is_pow. Qed.


(* the pairing tower Fp2 -> Fp6 = Fp2[V]/(V^3 - nr6) -> Fp12 = Fp6[W]/(W^2 - nr12) (bls12_381, bls12_377, bn254
   and the default shape; [fp2_consts_ok]: the constant hard-wired by the per-curve Fp2 override, C02/InstProofs.v) *)
Theorem NumTh_fp6a_frobenius_is_pow : forall p, prime p -> forall (cid : Z) (nr2 : Fp p),
  fp2_consts_ok cid (FpOps p) nr2 ->
  forall (nr6 : Fp p * Fp p) (tab2 : list (Fp p)) (tab6_1 tab6_2 : list (Fp p * Fp p)) (k : Z),
  2 < p -> 0 <= k -> p ^ k mod 3 = 1 ->
  tabsel (f0 (FpOps p)) tab2 2 k = fpow (FpOps p) nr2 ((p ^ k - 1) / 2) ->
  tabsel (f0 (FpOps p), f0 (FpOps p)) tab6_1 6 k = fpow (QuadOps (FpOps p) nr2) nr6 ((p ^ k - 1) / 3) ->
  tabsel (f0 (FpOps p), f0 (FpOps p)) tab6_2 6 k =
    fmul (QuadOps (FpOps p) nr2) (tabsel (f0 (FpOps p), f0 (FpOps p)) tab6_1 6 k)
                                 (tabsel (f0 (FpOps p), f0 (FpOps p)) tab6_1 6 k) ->
  forall x, fp6a_frob cid (FpOps p) nr2 tab2 tab6_1 tab6_2 k x =
            fpow (CubicOps (QuadOps (FpOps p) nr2) nr6) x (p ^ k).
Proof. exact fp6a_frobenius_is_pow. Qed.

Theorem NumTh_fp12_frobenius_is_pow : forall p, prime p -> forall (cid : Z) (nr2 : Fp p),
  fp2_consts_ok cid (FpOps p) nr2 ->
  forall (nr6 : Fp p * Fp p) (nr12 : Fp p * Fp p * (Fp p * Fp p) * (Fp p * Fp p))
         (tab2 : list (Fp p)) (tab6_1 tab6_2 tab12 : list (Fp p * Fp p)) (k : Z),
  2 < p -> 0 <= k -> p ^ k mod 3 = 1 ->
  tabsel (f0 (FpOps p)) tab2 2 k = fpow (FpOps p) nr2 ((p ^ k - 1) / 2) ->
  tabsel (f0 (FpOps p), f0 (FpOps p)) tab6_1 6 k = fpow (QuadOps (FpOps p) nr2) nr6 ((p ^ k - 1) / 3) ->
  tabsel (f0 (FpOps p), f0 (FpOps p)) tab6_2 6 k =
    fmul (QuadOps (FpOps p) nr2) (tabsel (f0 (FpOps p), f0 (FpOps p)) tab6_1 6 k)
                                 (tabsel (f0 (FpOps p), f0 (FpOps p)) tab6_1 6 k) ->
  (tabsel (f0 (FpOps p), f0 (FpOps p)) tab12 12 k, f0 (QuadOps (FpOps p) nr2), f0 (QuadOps (FpOps p) nr2)) =
    fpow (CubicOps (QuadOps (FpOps p) nr2) nr6) nr12 ((p ^ k - 1) / 2) ->
  forall x, fp12_frob cid (FpOps p) nr2 tab2 tab6_1 tab6_2 tab12 k x =
            fpow (QuadOps (CubicOps (QuadOps (FpOps p) nr2) nr6) nr12) x (p ^ k).
Proof. exact fp12_frobenius_is_pow. Qed.

(* periodicity: the `degree` entries C16 checks (entry i = nr^((p^i-1)/d), i < d) give every power k *)
Theorem NumTh_fp2_frobenius_table : forall p, prime p ->
  forall (nr : Fp p) (tab2 : list (Fp p)), 2 < p -> nr <> f0 (FpOps p) ->
  (forall i, 0 <= i < 2 -> nth (Z.to_nat i) tab2 (f0 (FpOps p)) = fpow (FpOps p) nr ((p ^ i - 1) / 2)) ->
  forall k, 0 <= k -> forall x : Fp p * Fp p,
  fp2_frob (FpOps p) tab2 k x = fpow (QuadOps (FpOps p) nr) x (p ^ k).
Proof. exact fp2_frobenius_table. Qed.

(* no coefficient hypothesis at all: for a non-square nr the table is [1; -1] (Euler's criterion) *)
Theorem NumTh_fp2_frobenius_table_nonresidue : forall p, prime p ->
  forall nr : Fp p, 2 < p -> (forall w, fmul (FpOps p) w w <> nr) ->
  forall k, 0 <= k -> forall x : Fp p * Fp p,
  fp2_frob (FpOps p) [f1 (FpOps p); fneg (FpOps p) (f1 (FpOps p))] k x =
  fpow (QuadOps (FpOps p) nr) x (p ^ k).
Proof. exact fp2_frobenius_table_nonresidue. Qed.

Theorem NumTh_fp3_frobenius_table : forall p, prime p ->
  forall (nr : Fp p) (tab3_1 tab3_2 : list (Fp p)), p mod 3 = 1 -> nr <> f0 (FpOps p) ->
  (forall i, 0 <= i < 3 -> nth (Z.to_nat i) tab3_1 (f0 (FpOps p)) = fpow (FpOps p) nr ((p ^ i - 1) / 3)) ->
  (forall i, 0 <= i < 3 -> nth (Z.to_nat i) tab3_2 (f0 (FpOps p)) =
     fmul (FpOps p) (nth (Z.to_nat i) tab3_1 (f0 (FpOps p))) (nth (Z.to_nat i) tab3_1 (f0 (FpOps p)))) ->
  forall k, 0 <= k -> forall x : Fp p * Fp p * Fp p,
  fp3_frob (FpOps p) tab3_1 tab3_2 k x = fpow (CubicOps (FpOps p) nr) x (p ^ k).
Proof. exact fp3_frobenius_table. Qed.

(* ================= 4. Fermat in the towers ================= *)
(* generic step: B a field of characteristic p with x^(p^k) = x for all x *)
Theorem NumTh_quad_fermat_tower : forall (T : Type) (B : Fops T),
  field_theory (f0 B) (f1 B) (fadd B) (fmul B) (fsub B) (fneg B) (fdiv B) (finv B) eq ->
  forall p : Z, prime p -> nmul B (Z.to_nat p) (f1 B) = f0 B ->
  forall k : nat, fermatN B (Z.to_nat p ^ k) ->
  forall nr : T, 2 < p -> (forall w, fmul B w w <> nr) ->
  fermatN (QuadOps B nr) (Z.to_nat p ^ (2 * k)).
Proof. exact (@quad_fermat_tower). Qed.
Theorem NumTh_cubic_fermat_tower : forall (T : Type) (B : Fops T),
  field_theory (f0 B) (f1 B) (fadd B) (fmul B) (fsub B) (fneg B) (fdiv B) (finv B) eq ->
  forall p : Z, prime p -> nmul B (Z.to_nat p) (f1 B) = f0 B ->
  forall k : nat, fermatN B (Z.to_nat p ^ k) ->
  forall nr : T, p ^ Z.of_nat k mod 3 = 1 -> (forall w, fmul B (fmul B w w) w <> nr) ->
  fermatN (CubicOps B nr) (Z.to_nat p ^ (3 * k)).
Proof. exact (@cubic_fermat_tower). Qed.
Theorem NumTh_fermatN_unit : forall (T : Type) (F : Fops T) (p : Z) (d : nat) (x : T) (e : Z),
  field_theory (f0 F) (f1 F) (fadd F) (fmul F) (fsub F) (fneg F) (fdiv F) (finv F) eq ->
  1 < p -> fermatN F (Z.to_nat p ^ d) -> x <> f0 F -> 0 <= e -> (p ^ Z.of_nat d - 1 | e) ->
  fpow F x e = f1 F.
Proof. exact (@fermatN_tower_fpow). Qed.

(* Fp2 = Fp[X]/(X^2 - nr), nr a non-square *)
Theorem NumTh_fermat_Fp2 : forall p, prime p -> forall nr : Fp p, 2 < p ->
  (forall w, fmul (FpOps p) w w <> nr) ->
  forall x : Fp p * Fp p, x <> f0 (QuadOps (FpOps p) nr) ->
  fpow (QuadOps (FpOps p) nr) x (p ^ 2 - 1) = f1 (QuadOps (FpOps p) nr).
Proof. exact fp2_fermat. Qed.
Theorem NumTh_fermat_Fp2_xp2 : forall p, prime p -> forall nr : Fp p, 2 < p ->
  (forall w, fmul (FpOps p) w w <> nr) ->
  forall x : Fp p * Fp p, fpow (QuadOps (FpOps p) nr) x (p ^ 2) = x.
Proof. exact fp2_fermat_xp2. Qed.
(* x^p is the conjugate, x^(p+1) the norm (an element of Fp) *)
Theorem NumTh_fp2_pow_p_is_conjugate : forall p, prime p -> 2 < p -> forall nr : Fp p,
  (forall w, fmul (FpOps p) w w <> nr) ->
  forall x : Fp p * Fp p, fpow (QuadOps (FpOps p) nr) x p = quad_conjugate (FpOps p) x.
Proof. exact fp2_pow_p_is_conjugate. Qed.
Theorem NumTh_fp2_pow_p1_is_norm : forall p, prime p -> 2 < p -> forall nr : Fp p,
  (forall w, fmul (FpOps p) w w <> nr) ->
  forall x : Fp p * Fp p, fpow (QuadOps (FpOps p) nr) x (p + 1) = (qnorm (FpOps p) nr x, f0 (FpOps p)).
Proof. exact fp2_pow_p1_is_norm. Qed.
(* Fp3 = Fp[X]/(X^3 - nr), nr a non-cube, p = 1 mod 3 *)
Theorem NumTh_fermat_Fp3 : forall p, prime p -> forall nr : Fp p, p mod 3 = 1 ->
  (forall w, fmul (FpOps p) (fmul (FpOps p) w w) w <> nr) ->
  forall x : Fp p * Fp p * Fp p, x <> f0 (CubicOps (FpOps p) nr) ->
  fpow (CubicOps (FpOps p) nr) x (p ^ 3 - 1) = f1 (CubicOps (FpOps p) nr).
Proof. exact fp3_fermat. Qed.
(* two-level towers, any non-negative multiple of the group order *)
Theorem NumTh_fermat_Fp4 : forall p, prime p -> forall nr : Fp p, 2 < p ->
  (forall w, fmul (FpOps p) w w <> nr) ->
  forall nr4 : Fp p * Fp p, (forall w, fmul (QuadOps (FpOps p) nr) w w <> nr4) ->
  forall x e, x <> f0 (QuadOps (QuadOps (FpOps p) nr) nr4) -> 0 <= e -> (p ^ 4 - 1 | e) ->
  fpow (QuadOps (QuadOps (FpOps p) nr) nr4) x e = f1 (QuadOps (QuadOps (FpOps p) nr) nr4).
Proof. exact fp4_fermat_mult. Qed.
Theorem NumTh_fermat_Fp6a : forall p, prime p -> forall nr : Fp p, 2 < p ->
  (forall w, fmul (FpOps p) w w <> nr) ->
  forall nr6 : Fp p * Fp p,
  (forall w, fmul (QuadOps (FpOps p) nr) (fmul (QuadOps (FpOps p) nr) w w) w <> nr6) ->
  forall x e, p ^ 2 mod 3 = 1 -> x <> f0 (CubicOps (QuadOps (FpOps p) nr) nr6) -> 0 <= e -> (p ^ 6 - 1 | e) ->
  fpow (CubicOps (QuadOps (FpOps p) nr) nr6) x e = f1 (CubicOps (QuadOps (FpOps p) nr) nr6).
Proof. exact fp6a_fermat_mult. Qed.
Theorem NumTh_fermat_Fp6b : forall p, prime p -> forall nr : Fp p, p mod 3 = 1 ->
  (forall w, fmul (FpOps p) (fmul (FpOps p) w w) w <> nr) ->
  forall nr6 : Fp p * Fp p * Fp p, 2 < p -> (forall w, fmul (CubicOps (FpOps p) nr) w w <> nr6) ->
  forall x e, x <> f0 (QuadOps (CubicOps (FpOps p) nr) nr6) -> 0 <= e -> (p ^ 6 - 1 | e) ->
  fpow (QuadOps (CubicOps (FpOps p) nr) nr6) x e = f1 (QuadOps (CubicOps (FpOps p) nr) nr6).
Proof. exact fp6b_fermat_mult. Qed.

Theorem NumTh_fermat_Fp12 : forall p, prime p -> forall nr2 : Fp p, 2 < p ->
  (forall w, fmul (FpOps p) w w <> nr2) ->
  forall nr6 : Fp p * Fp p,
  (forall w, fmul (QuadOps (FpOps p) nr2) (fmul (QuadOps (FpOps p) nr2) w w) w <> nr6) ->
  p ^ 2 mod 3 = 1 ->
  forall nr12 : Fp p * Fp p * (Fp p * Fp p) * (Fp p * Fp p),
  (forall w, fmul (CubicOps (QuadOps (FpOps p) nr2) nr6) w w <> nr12) ->
  forall x e, x <> f0 (QuadOps (CubicOps (QuadOps (FpOps p) nr2) nr6) nr12) -> 0 <= e -> (p ^ 12 - 1 | e) ->
  fpow (QuadOps (CubicOps (QuadOps (FpOps p) nr2) nr6) nr12) x e =
  f1 (QuadOps (CubicOps (QuadOps (FpOps p) nr2) nr6) nr12).
Proof. exact fp12_fermat_mult. Qed.


(* ---------- on the EXECUTED dictionary: Fp2 = QuadOps (ZpOps p) nr, carrier Z * Z, canonical pairs ---------- *)
Theorem NumTh_fp2_frobenius_is_pow_Zp : forall p, prime p -> 2 < p ->
  forall (nr : Z) (tab2 : list Z) (k : Z),
  canon p nr -> Forall (canon p) tab2 -> 0 <= k ->
  tabsel (f0 (ZpOps p)) tab2 2 k = fpow (ZpOps p) nr ((p ^ k - 1) / 2) ->
  forall x, canon2 p x -> fp2_frob (ZpOps p) tab2 k x = fpow (QuadOps (ZpOps p) nr) x (p ^ k).
Proof. exact fp2_frobenius_is_pow_Zp. Qed.
Theorem NumTh_fp2_frobenius_table_nonresidue_Zp : forall p, prime p -> 2 < p ->
  forall nr : Z, canon p nr -> (forall w, canon p w -> fmul (ZpOps p) w w <> nr) ->
  forall k, 0 <= k -> forall x, canon2 p x ->
  fp2_frob (ZpOps p) [1; p - 1] k x = fpow (QuadOps (ZpOps p) nr) x (p ^ k).
Proof. exact fp2_frobenius_table_nonresidue_Zp. Qed.
Theorem NumTh_fermat_Zp2 : forall p, prime p -> 2 < p ->
  forall nr : Z, canon p nr -> (forall w, canon p w -> fmul (ZpOps p) w w <> nr) ->
  forall x e, canon2 p x -> x <> (0, 0) -> 0 <= e -> (p ^ 2 - 1 | e) ->
  fpow (QuadOps (ZpOps p) nr) x e = (1, 0).
Proof. exact fp2_fermat_Zp. Qed.
Theorem NumTh_fp2_pow_p_is_conjugate_Zp : forall p, prime p -> 2 < p ->
  forall nr : Z, canon p nr -> (forall w, canon p w -> fmul (ZpOps p) w w <> nr) ->
  forall x, canon2 p x -> fpow (QuadOps (ZpOps p) nr) x p = quad_conjugate (ZpOps p) x.
Proof. exact fp2_pow_p_is_conjugate_Zp. Qed.

(* ---------- the C11 theorems without the Fermat premise ---------- *)
(* C11_tonelli_shanks_exact at K = FpOps p *)
Theorem NumTh_sqrt_ts_exact_Fp : forall p, prime p ->
  forall (s : nat) (tm : Z) (z : Fp p),
  (1 <= s)%nat -> 0 <= tm -> p - 1 = 2 ^ Z.of_nat s * (2 * tm + 1) ->
  sqn (fmul (FpOps p)) (s - 1) z = fneg (FpOps p) (f1 (FpOps p)) ->
  forall (leg : Fp p -> Z) (a : Fp p),
  (exists y, sqrt_ts (f0 (FpOps p)) (f1 (FpOps p)) (fmul (FpOps p)) (feqb (FpOps p)) s z tm leg a = SqSome y /\
             fmul (FpOps p) y y = a) \/
  (sqrt_ts (f0 (FpOps p)) (f1 (FpOps p)) (fmul (FpOps p)) (feqb (FpOps p)) s z tm leg a = SqNone /\
   ~ is_sq (fmul (FpOps p)) a).
Proof. exact sqrt_ts_exact_Fp. Qed.

(* Bridge_sqrt_ts_exact (executed dictionary) without the Fermat premise *)
Theorem NumTh_sqrt_ts_exact_Zp : forall p, prime p ->
  forall (s : nat) (tm z : Z),
  (1 <= s)%nat -> 0 <= tm -> canon p z -> p - 1 = 2 ^ Z.of_nat s * (2 * tm + 1) ->
  sqn (fmul (ZpOps p)) (s - 1) z = fneg (ZpOps p) (f1 (ZpOps p)) ->
  forall (leg : Z -> Z) (a : Z), canon p a ->
  (exists y, canon p y /\
     sqrt_ts (f0 (ZpOps p)) (f1 (ZpOps p)) (fmul (ZpOps p)) (feqb (ZpOps p)) s z tm leg a = SqSome y /\
     fmul (ZpOps p) y y = a) \/
  (sqrt_ts (f0 (ZpOps p)) (f1 (ZpOps p)) (fmul (ZpOps p)) (feqb (ZpOps p)) s z tm leg a = SqNone /\
   ~ exists r, fmul (ZpOps p) r r = a).
Proof. exact sqrt_ts_exact_Zp. Qed.

(* C11_case3mod4_exact: p = 4m - 1 *)
Theorem NumTh_case3mod4_exact_Fp : forall p, prime p -> forall m : Z, 0 < m -> p = 4 * m - 1 ->
  forall a : Fp p,
  (exists y, sqrt_case3mod4 (f1 (FpOps p)) (fmul (FpOps p)) (feqb (FpOps p)) m a = SqSome y /\
             fmul (FpOps p) y y = a) \/
  (sqrt_case3mod4 (f1 (FpOps p)) (fmul (FpOps p)) (feqb (FpOps p)) m a = SqNone /\ ~ is_sq (fmul (FpOps p)) a).
Proof. exact case3mod4_exact_Fp. Qed.
Theorem NumTh_case3mod4_exact_Zp : forall p, prime p -> forall m : Z, 0 < m -> p = 4 * m - 1 ->
  forall a : Z, canon p a ->
  (exists y, canon p y /\
     sqrt_case3mod4 (f1 (ZpOps p)) (fmul (ZpOps p)) (feqb (ZpOps p)) m a = SqSome y /\ fmul (ZpOps p) y y = a) \/
  (sqrt_case3mod4 (f1 (ZpOps p)) (fmul (ZpOps p)) (feqb (ZpOps p)) m a = SqNone /\ ~ is_sq (fmul (ZpOps p)) a).
Proof. exact case3mod4_exact_Zp. Qed.

(* C11_legendre_euler *)
Theorem NumTh_legendre_euler_Fp : forall p, prime p ->
  forall (s : nat) (tm : Z) (z : Fp p),
  (1 <= s)%nat -> 0 <= tm -> p - 1 = 2 ^ Z.of_nat s * (2 * tm + 1) ->
  sqn (fmul (FpOps p)) (s - 1) z = fneg (FpOps p) (f1 (FpOps p)) ->
  forall x : Fp p,
  (x = f0 (FpOps p) /\
   legendre_pow (f0 (FpOps p)) (f1 (FpOps p)) (fmul (FpOps p)) (feqb (FpOps p)) (2 ^ Z.of_nat (s - 1) * (2 * tm + 1)) x = 0) \/
  (x <> f0 (FpOps p) /\ is_sq (fmul (FpOps p)) x /\
   legendre_pow (f0 (FpOps p)) (f1 (FpOps p)) (fmul (FpOps p)) (feqb (FpOps p)) (2 ^ Z.of_nat (s - 1) * (2 * tm + 1)) x = 1) \/
  (~ is_sq (fmul (FpOps p)) x /\
   legendre_pow (f0 (FpOps p)) (f1 (FpOps p)) (fmul (FpOps p)) (feqb (FpOps p)) (2 ^ Z.of_nat (s - 1) * (2 * tm + 1)) x = -1).
Proof. exact legendre_euler_Fp. Qed.
Theorem NumTh_legendre_euler_Zp : forall p, prime p ->
  forall (s : nat) (tm z : Z),
  (1 <= s)%nat -> 0 <= tm -> canon p z -> p - 1 = 2 ^ Z.of_nat s * (2 * tm + 1) ->
  sqn (fmul (ZpOps p)) (s - 1) z = fneg (ZpOps p) (f1 (ZpOps p)) ->
  forall x : Z, canon p x ->
  (x = f0 (ZpOps p) /\
   legendre_pow (f0 (ZpOps p)) (f1 (ZpOps p)) (fmul (ZpOps p)) (feqb (ZpOps p)) (2 ^ Z.of_nat (s - 1) * (2 * tm + 1)) x = 0) \/
  (x <> f0 (ZpOps p) /\ is_sq (fmul (ZpOps p)) x /\
   legendre_pow (f0 (ZpOps p)) (f1 (ZpOps p)) (fmul (ZpOps p)) (feqb (ZpOps p)) (2 ^ Z.of_nat (s - 1) * (2 * tm + 1)) x = 1) \/
  (~ is_sq (fmul (ZpOps p)) x /\
   legendre_pow (f0 (ZpOps p)) (f1 (ZpOps p)) (fmul (ZpOps p)) (feqb (ZpOps p)) (2 ^ Z.of_nat (s - 1) * (2 * tm + 1)) x = -1).
Proof. exact legendre_euler_Zp'. Qed.

(* C11_quad_sqrt_exact_over_tonelli_shanks at B = FpOps p: QuadExtField::sqrt in Fp2 = Fp[X]/(X^2 - nr) *)
Theorem NumTh_sqrt_exact_Fp2 : forall p, prime p ->
  forall (nr two_inv : Fp p) (s : nat) (tm : Z) (z : Fp p),
  ~ is_sq (fmul (FpOps p)) nr ->
  fmul (FpOps p) (fadd (FpOps p) (f1 (FpOps p)) (f1 (FpOps p))) two_inv = f1 (FpOps p) ->
  (1 <= s)%nat -> 0 <= tm -> p - 1 = 2 ^ Z.of_nat s * (2 * tm + 1) ->
  sqn (fmul (FpOps p)) (s - 1) z = fneg (FpOps p) (f1 (FpOps p)) ->
  forall a : Fp p * Fp p,
  let bleg := legendre_pow (f0 (FpOps p)) (f1 (FpOps p)) (fmul (FpOps p)) (feqb (FpOps p))
                (2 ^ Z.of_nat (s - 1) * (2 * tm + 1)) in
  let bsqrt := sqrt_ts (f0 (FpOps p)) (f1 (FpOps p)) (fmul (FpOps p)) (feqb (FpOps p)) s z tm bleg in
  (exists y, quad_sqrt (f0 (FpOps p)) (fadd (FpOps p)) (fsub (FpOps p)) (fmul (FpOps p)) (finv (FpOps p))
               (feqb (FpOps p)) nr two_inv bsqrt bleg a = SqSome y /\
             fmul (QuadOps (FpOps p) nr) y y = a) \/
  (quad_sqrt (f0 (FpOps p)) (fadd (FpOps p)) (fsub (FpOps p)) (fmul (FpOps p)) (finv (FpOps p))
     (feqb (FpOps p)) nr two_inv bsqrt bleg a = SqNone /\
   ~ is_sq (fmul (QuadOps (FpOps p) nr)) a).
Proof. exact quad_sqrt_exact_over_ts_Fp2. Qed.

(* C11_quad_sqrt_exact_over_case3mod4 at B = FpOps p (bls12_381 / bn254 Fq2) *)
Theorem NumTh_sqrt_exact_Fp2_case3mod4 : forall p, prime p ->
  forall (nr two_inv : Fp p) (m : Z),
  ~ is_sq (fmul (FpOps p)) nr ->
  fmul (FpOps p) (fadd (FpOps p) (f1 (FpOps p)) (f1 (FpOps p))) two_inv = f1 (FpOps p) ->
  0 < m -> p = 4 * m - 1 ->
  forall a : Fp p * Fp p,
  let bleg := legendre_pow (f0 (FpOps p)) (f1 (FpOps p)) (fmul (FpOps p)) (feqb (FpOps p)) (2 * m - 1) in
  let bsqrt := sqrt_case3mod4 (f1 (FpOps p)) (fmul (FpOps p)) (feqb (FpOps p)) m in
  (exists y, quad_sqrt (f0 (FpOps p)) (fadd (FpOps p)) (fsub (FpOps p)) (fmul (FpOps p)) (finv (FpOps p))
               (feqb (FpOps p)) nr two_inv bsqrt bleg a = SqSome y /\
             fmul (QuadOps (FpOps p) nr) y y = a) \/
  (quad_sqrt (f0 (FpOps p)) (fadd (FpOps p)) (fsub (FpOps p)) (fmul (FpOps p)) (finv (FpOps p))
     (feqb (FpOps p)) nr two_inv bsqrt bleg a = SqNone /\
   ~ is_sq (fmul (QuadOps (FpOps p) nr)) a).
Proof. exact quad_sqrt_exact_over_case3mod4_Fp2. Qed.

(* Bridge2_quad_sqrt_exact_over_tonelli_shanks / _case3mod4 (executed dictionary) without the Fermat premise *)
Theorem NumTh_sqrt_exact_Zp2 : forall p, prime p ->
  forall (nr two_inv : Z) (s : nat) (tm z : Z),
  canon p nr -> canon p two_inv ->
  ~ is_sq (fmul (ZpOps p)) nr ->
  fmul (ZpOps p) (fadd (ZpOps p) (f1 (ZpOps p)) (f1 (ZpOps p))) two_inv = f1 (ZpOps p) ->
  (1 <= s)%nat -> 0 <= tm -> canon p z -> p - 1 = 2 ^ Z.of_nat s * (2 * tm + 1) ->
  sqn (fmul (ZpOps p)) (s - 1) z = fneg (ZpOps p) (f1 (ZpOps p)) ->
  forall a : Z * Z, canon2 p a ->
  let bleg := legendre_pow (f0 (ZpOps p)) (f1 (ZpOps p)) (fmul (ZpOps p)) (feqb (ZpOps p))
                (2 ^ Z.of_nat (s - 1) * (2 * tm + 1)) in
  let bsqrt := sqrt_ts (f0 (ZpOps p)) (f1 (ZpOps p)) (fmul (ZpOps p)) (feqb (ZpOps p)) s z tm bleg in
  (exists y, canon2 p y /\
     quad_sqrt (f0 (ZpOps p)) (fadd (ZpOps p)) (fsub (ZpOps p)) (fmul (ZpOps p)) (finv (ZpOps p)) (feqb (ZpOps p))
       nr two_inv bsqrt bleg a = SqSome y /\
     fmul (QuadOps (ZpOps p) nr) y y = a) \/
  (quad_sqrt (f0 (ZpOps p)) (fadd (ZpOps p)) (fsub (ZpOps p)) (fmul (ZpOps p)) (finv (ZpOps p)) (feqb (ZpOps p))
     nr two_inv bsqrt bleg a = SqNone /\
   ~ is_sq2 (fadd (ZpOps p)) (fmul (ZpOps p)) nr a).
Proof. exact quad_sqrt_exact_over_ts_Zp2. Qed.
Theorem NumTh_sqrt_exact_Zp2_case3mod4 : forall p, prime p ->
  forall (nr two_inv m : Z),
  canon p nr -> canon p two_inv ->
  ~ is_sq (fmul (ZpOps p)) nr ->
  fmul (ZpOps p) (fadd (ZpOps p) (f1 (ZpOps p)) (f1 (ZpOps p))) two_inv = f1 (ZpOps p) ->
  0 < m -> p = 4 * m - 1 ->
  forall a : Z * Z, canon2 p a ->
  let bleg := legendre_pow (f0 (ZpOps p)) (f1 (ZpOps p)) (fmul (ZpOps p)) (feqb (ZpOps p)) (2 * m - 1) in
  let bsqrt := sqrt_case3mod4 (f1 (ZpOps p)) (fmul (ZpOps p)) (feqb (ZpOps p)) m in
  (exists y, canon2 p y /\
     quad_sqrt (f0 (ZpOps p)) (fadd (ZpOps p)) (fsub (ZpOps p)) (fmul (ZpOps p)) (finv (ZpOps p)) (feqb (ZpOps p))
       nr two_inv bsqrt bleg a = SqSome y /\
     fmul (QuadOps (ZpOps p) nr) y y = a) \/
  (quad_sqrt (f0 (ZpOps p)) (fadd (ZpOps p)) (fsub (ZpOps p)) (fmul (ZpOps p)) (finv (ZpOps p)) (feqb (ZpOps p))
     nr two_inv bsqrt bleg a = SqNone /\
   ~ is_sq2 (fadd (ZpOps p)) (fmul (ZpOps p)) nr a).
Proof. exact quad_sqrt_exact_over_case3mod4_Zp2. Qed.

(* C11_quad_legendre_exact_over_tonelli_shanks at B = FpOps p *)
Theorem NumTh_quad_legendre_exact_Fp2 : forall p, prime p ->
  forall (nr two_inv : Fp p) (s : nat) (tm : Z) (z : Fp p),
  ~ is_sq (fmul (FpOps p)) nr ->
  fmul (FpOps p) (fadd (FpOps p) (f1 (FpOps p)) (f1 (FpOps p))) two_inv = f1 (FpOps p) ->
  (1 <= s)%nat -> 0 <= tm -> p - 1 = 2 ^ Z.of_nat s * (2 * tm + 1) ->
  sqn (fmul (FpOps p)) (s - 1) z = fneg (FpOps p) (f1 (FpOps p)) ->
  forall a : Fp p * Fp p,
  let bleg := legendre_pow (f0 (FpOps p)) (f1 (FpOps p)) (fmul (FpOps p)) (feqb (FpOps p))
                (2 ^ Z.of_nat (s - 1) * (2 * tm + 1)) in
  (a = f0 (QuadOps (FpOps p) nr) /\ quad_legendre (fsub (FpOps p)) (fmul (FpOps p)) nr bleg a = 0) \/
  (a <> f0 (QuadOps (FpOps p) nr) /\ is_sq (fmul (QuadOps (FpOps p) nr)) a /\
   quad_legendre (fsub (FpOps p)) (fmul (FpOps p)) nr bleg a = 1) \/
  (~ is_sq (fmul (QuadOps (FpOps p) nr)) a /\ quad_legendre (fsub (FpOps p)) (fmul (FpOps p)) nr bleg a = -1).
Proof. exact quad_legendre_exact_over_ts_Fp2. Qed.

(* C11_tonelli_shanks_exact at K = Fp2 and K = Fp3 (CubicExtField sqrt = Tonelli-Shanks in Fp3):
   the field_theory premise (irreducibility) and the Fermat premise are both discharged *)
Theorem NumTh_sqrt_ts_exact_Fp2 : forall p, prime p ->
  forall (nr : Fp p) (s : nat) (tm : Z) (z : Fp p * Fp p),
  2 < p -> (forall w, fmul (FpOps p) w w <> nr) ->
  (1 <= s)%nat -> 0 <= tm -> p ^ 2 - 1 = 2 ^ Z.of_nat s * (2 * tm + 1) ->
  let K := QuadOps (FpOps p) nr in
  sqn (fmul K) (s - 1) z = fneg K (f1 K) ->
  forall (leg : Fp p * Fp p -> Z) (a : Fp p * Fp p),
  (exists y, sqrt_ts (f0 K) (f1 K) (fmul K) (feqb K) s z tm leg a = SqSome y /\ fmul K y y = a) \/
  (sqrt_ts (f0 K) (f1 K) (fmul K) (feqb K) s z tm leg a = SqNone /\ ~ is_sq (fmul K) a).
Proof. exact sqrt_ts_exact_Fp2. Qed.
Theorem NumTh_sqrt_ts_exact_Fp3 : forall p, prime p ->
  forall (nr : Fp p) (s : nat) (tm : Z) (z : Fp p * Fp p * Fp p),
  p mod 3 = 1 -> (forall w, fmul (FpOps p) (fmul (FpOps p) w w) w <> nr) ->
  (1 <= s)%nat -> 0 <= tm -> p ^ 3 - 1 = 2 ^ Z.of_nat s * (2 * tm + 1) ->
  let K := CubicOps (FpOps p) nr in
  sqn (fmul K) (s - 1) z = fneg K (f1 K) ->
  forall (leg : Fp p * Fp p * Fp p -> Z) (a : Fp p * Fp p * Fp p),
  (exists y, sqrt_ts (f0 K) (f1 K) (fmul K) (feqb K) s z tm leg a = SqSome y /\ fmul K y y = a) \/
  (sqrt_ts (f0 K) (f1 K) (fmul K) (feqb K) s z tm leg a = SqNone /\ ~ is_sq (fmul K) a).
Proof. exact sqrt_ts_exact_Fp3. Qed.

(* ================= 5. Euler's criterion ================= *)
(* a polynomial over a field (coefficient list, Horner evaluation) that is not identically zero and has
   at most n coefficients has fewer than n distinct roots *)
Theorem NumTh_roots_bound : forall (T : Type) (F : Fops T),
  field_theory (f0 F) (f1 F) (fadd F) (fmul F) (fsub F) (fneg F) (fdiv F) (finv F) eq ->
  forall (n : nat) (l roots : list T), (length l <= n)%nat ->
  (exists x0, peval F l x0 <> f0 F) -> NoDup roots -> (forall r, In r roots -> peval F l r = f0 F) ->
  (length roots < n)%nat.
Proof. exact (@roots_bound). Qed.
Theorem NumTh_unity_roots_bound : forall (T : Type) (F : Fops T),
  field_theory (f0 F) (f1 F) (fadd F) (fmul F) (fsub F) (fneg F) (fdiv F) (finv F) eq ->
  forall (m : nat) (roots : list T), (1 <= m)%nat -> NoDup roots ->
  (forall r, In r roots -> npow F r m = f1 F) -> (length roots <= m)%nat.
Proof. exact (@unity_roots_bound). Qed.

Theorem NumTh_euler_criterion_Fp : forall p, prime p -> 2 < p -> forall x : Fp p,
  fpow (FpOps p) x ((p - 1) / 2) = f1 (FpOps p) <-> (x <> f0 (FpOps p) /\ exists r, fmul (FpOps p) r r = x).
Proof. exact euler_criterion_Fp. Qed.
Theorem NumTh_euler_nonresidue_Fp : forall p, prime p -> 2 < p -> forall x : Fp p,
  (forall w, fmul (FpOps p) w w <> x) -> fpow (FpOps p) x ((p - 1) / 2) = fneg (FpOps p) (f1 (FpOps p)).
Proof. exact euler_nonresidue_Fp. Qed.
(* the closed facts C16 checks (nr^((p-1)/2) = -1, nr^((p-1)/3) <> 1) imply the non-residue hypotheses used above *)
Theorem NumTh_nonsquare_of_symbol : forall p, prime p -> 2 < p -> forall x : Fp p,
  fpow (FpOps p) x ((p - 1) / 2) = fneg (FpOps p) (f1 (FpOps p)) -> forall w, fmul (FpOps p) w w <> x.
Proof. exact nonsquare_of_symbol. Qed.
Theorem NumTh_noncube_of_symbol : forall p, prime p -> 2 < p -> forall x : Fp p,
  p mod 3 = 1 -> x <> f0 (FpOps p) -> fpow (FpOps p) x ((p - 1) / 3) <> f1 (FpOps p) ->
  forall w, fmul (FpOps p) (fmul (FpOps p) w w) w <> x.
Proof. exact noncube_of_symbol. Qed.
Theorem NumTh_euler_criterion_Zp : forall p x, prime p -> 2 < p -> canon p x ->
  (fpow (ZpOps p) x ((p - 1) / 2) = 1 <-> (x <> 0 /\ exists r, canon p r /\ fmul (ZpOps p) r r = x)).
Proof. exact euler_criterion_Zp. Qed.
Theorem NumTh_euler_criterion_Z : forall p x, prime p -> 2 < p ->
  (x ^ ((p - 1) / 2) mod p = 1 <-> (x mod p <> 0 /\ exists r, (r * r) mod p = x mod p)).
Proof. exact euler_criterion_Z. Qed.

(* ================= Examples: p = 13, nr = 2; p = 7 for Case3Mod4 ================= *)
Example NumTh_ex_prime_13 : prime 13.
Proof. exact prime_13. Qed.
Example NumTh_ex_two_nonsquare_13 : forall w : Fp 13, fmul (FpOps 13) w w <> fp_of 13 2.
Proof. exact ex13_two_nonsquare. Qed.
Example NumTh_ex_two_noncube_13 : forall w : Fp 13, fmul (FpOps 13) (fmul (FpOps 13) w w) w <> fp_of 13 2.
Proof. exact ex13_two_noncube. Qed.
Example NumTh_ex_char_13 : nmul (FpOps 13) (Z.to_nat 13) (f1 (FpOps 13)) = f0 (FpOps 13).
Proof. exact ex13_char. Qed.
Example NumTh_ex_freshman_13 : forall u v : Fp 13,
  npow (FpOps 13) (fadd (FpOps 13) u v) (Z.to_nat 13) =
  fadd (FpOps 13) (npow (FpOps 13) u (Z.to_nat 13)) (npow (FpOps 13) v (Z.to_nat 13)).
Proof. exact ex13_freshman. Qed.
Example NumTh_ex_fermat_13 : forall x, 0 < x < 13 -> fpow (ZpOps 13) x 12 = 1.
Proof. exact ex13_fermat. Qed.
Example NumTh_ex_fermat_run : fpow (ZpOps 13) 2 12 = 1 /\ fpow (ZpOps 13) 7 13 = 7 /\ 5 ^ 12 mod 13 = 1.
Proof. exact ex13_fermat_run. Qed.
(* Frobenius: tables [1; 12], [1; 3; 9] / [1; 9; 3], Fp4 [1; 8; 12; 5], Fp6 [1; 4; 3; 12; 9; 10] *)
Example NumTh_ex_fp2_table_13 : forall i, 0 <= i < 2 ->
  nth (Z.to_nat i) tab2_13 (f0 (FpOps 13)) = fpow (FpOps 13) (fp_of 13 2) ((13 ^ i - 1) / 2).
Proof. exact ex13_fp2_table. Qed.
Example NumTh_ex_fp2_frobenius_13 : forall k, 0 <= k -> forall x : Fp 13 * Fp 13,
  fp2_frob (FpOps 13) tab2_13 k x = fpow (QuadOps (FpOps 13) (fp_of 13 2)) x (13 ^ k).
Proof. exact ex13_fp2_frobenius. Qed.
Example NumTh_ex_fp2_frobenius_nonresidue_13 : forall k, 0 <= k -> forall x : Fp 13 * Fp 13,
  fp2_frob (FpOps 13) [f1 (FpOps 13); fneg (FpOps 13) (f1 (FpOps 13))] k x =
  fpow (QuadOps (FpOps 13) (fp_of 13 2)) x (13 ^ k).
Proof. exact ex13_fp2_frobenius_nonresidue. Qed.
Example NumTh_ex_fp3_frobenius_13 : forall k, 0 <= k -> forall x : Fp 13 * Fp 13 * Fp 13,
  fp3_frob (FpOps 13) tab3_1_13 tab3_2_13 k x = fpow (CubicOps (FpOps 13) (fp_of 13 2)) x (13 ^ k).
Proof. exact ex13_fp3_frobenius. Qed.
Example NumTh_ex_fp4_frobenius_13 : forall x,
  fp4_frob (FpOps 13) tab2_13 tab4_13 1 x =
  fpow (QuadOps (QuadOps (FpOps 13) (fp_of 13 2)) (f0 (FpOps 13), f1 (FpOps 13))) x (13 ^ 1) /\
  fp4_frob (FpOps 13) tab2_13 tab4_13 3 x =
  fpow (QuadOps (QuadOps (FpOps 13) (fp_of 13 2)) (f0 (FpOps 13), f1 (FpOps 13))) x (13 ^ 3).
Proof. exact ex13_fp4_frobenius. Qed.
Example NumTh_ex_fp6b_frobenius_13 : forall x,
  fp6b_frob (FpOps 13) tab3_1_13 tab3_2_13 tab6b_13 1 x =
  fpow (QuadOps (CubicOps (FpOps 13) (fp_of 13 2)) (f0 (FpOps 13), f1 (FpOps 13), f0 (FpOps 13))) x (13 ^ 1).
Proof. exact ex13_fp6b_frobenius. Qed.
Example NumTh_ex_fp12_frobenius_13 : forall x,
  fp12_frob 99 (FpOps 13) (fp_of 13 2) tab2_13 tab6_1_13 tab6_2_13 tab12_13 1 x =
  fpow (QuadOps (CubicOps (QuadOps (FpOps 13) (fp_of 13 2)) (f0 (FpOps 13), f1 (FpOps 13)))
          ((f0 (FpOps 13), f0 (FpOps 13)), (f1 (FpOps 13), f0 (FpOps 13)), (f0 (FpOps 13), f0 (FpOps 13)))) x (13 ^ 1).
Proof. exact ex13_fp12_frobenius. Qed.
Example NumTh_ex_fp2_frobenius_Zp_13 : forall k, 0 <= k -> forall x, canon2 13 x ->
  fp2_frob (ZpOps 13) [1; 12] k x = fpow (QuadOps (ZpOps 13) 2) x (13 ^ k).
Proof. exact ex13_fp2_frobenius_Zp. Qed.
Example NumTh_ex_fp2_frobenius_Zp_run :
  fp2_frob (ZpOps 13) [1; 12] 3 (5, 7) = (5, 6) /\ fpow (QuadOps (ZpOps 13) 2) (5, 7) (13 ^ 3) = (5, 6) /\
  fpow (QuadOps (ZpOps 13) 2) (5, 7) 168 = (1, 0).
Proof. vm_compute. repeat split; reflexivity. Qed.
Example NumTh_ex_fermat_fp2_13 : forall x : Fp 13 * Fp 13, x <> f0 (QuadOps (FpOps 13) (fp_of 13 2)) ->
  fpow (QuadOps (FpOps 13) (fp_of 13 2)) x 168 = f1 (QuadOps (FpOps 13) (fp_of 13 2)).
Proof. exact ex13_fermat_fp2. Qed.
Example NumTh_ex_fermat_fp3_13 : forall x : Fp 13 * Fp 13 * Fp 13, x <> f0 (CubicOps (FpOps 13) (fp_of 13 2)) ->
  fpow (CubicOps (FpOps 13) (fp_of 13 2)) x 2196 = f1 (CubicOps (FpOps 13) (fp_of 13 2)).
Proof. exact ex13_fermat_fp3. Qed.
Example NumTh_ex_conjugate_13 : forall x : Fp 13 * Fp 13,
  fpow (QuadOps (FpOps 13) (fp_of 13 2)) x 13 = quad_conjugate (FpOps 13) x.
Proof. exact ex13_conjugate. Qed.
(* square roots: 13 - 1 = 2^2 * 3, z = 8; 13^2 - 1 = 2^3 * 21, z = 2X; 13^3 - 1 = 2^2 * 549, z = 8 *)
Example NumTh_ex_sqrt_hyps_13 :
  sqn (fmul (FpOps 13)) (2 - 1) (fp_of 13 8) = fneg (FpOps 13) (f1 (FpOps 13)) /\
  fmul (FpOps 13) (fadd (FpOps 13) (f1 (FpOps 13)) (f1 (FpOps 13))) (fp_of 13 7) = f1 (FpOps 13) /\
  ~ is_sq (fmul (FpOps 13)) (fp_of 13 2).
Proof. exact (conj ex13_z_order (conj ex13_two_inv ex13_two_not_is_sq)). Qed.
Example NumTh_ex_sqrt_ts_Zp_13 : forall (leg : Z -> Z) (a : Z), canon 13 a ->
  (exists y, canon 13 y /\
     sqrt_ts (f0 (ZpOps 13)) (f1 (ZpOps 13)) (fmul (ZpOps 13)) (feqb (ZpOps 13)) 2 8 1 leg a = SqSome y /\
     fmul (ZpOps 13) y y = a) \/
  (sqrt_ts (f0 (ZpOps 13)) (f1 (ZpOps 13)) (fmul (ZpOps 13)) (feqb (ZpOps 13)) 2 8 1 leg a = SqNone /\
   ~ exists r, fmul (ZpOps 13) r r = a).
Proof. exact ex13_sqrt_ts_Zp. Qed.
Example NumTh_ex_sqrt_ts_fp2_13 : forall (leg : Fp 13 * Fp 13 -> Z) (a : Fp 13 * Fp 13),
  let K := QuadOps (FpOps 13) (fp_of 13 2) in
  (exists y, sqrt_ts (f0 K) (f1 K) (fmul K) (feqb K) 3 (f0 (FpOps 13), fp_of 13 2) 10 leg a = SqSome y /\ fmul K y y = a) \/
  (sqrt_ts (f0 K) (f1 K) (fmul K) (feqb K) 3 (f0 (FpOps 13), fp_of 13 2) 10 leg a = SqNone /\ ~ is_sq (fmul K) a).
Proof. exact ex13_sqrt_ts_fp2. Qed.
Example NumTh_ex_sqrt_ts_fp3_13 : forall (leg : Fp 13 * Fp 13 * Fp 13 -> Z) (a : Fp 13 * Fp 13 * Fp 13),
  let K := CubicOps (FpOps 13) (fp_of 13 2) in
  (exists y, sqrt_ts (f0 K) (f1 K) (fmul K) (feqb K) 2 (fp_of 13 8, f0 (FpOps 13), f0 (FpOps 13)) 274 leg a = SqSome y /\
             fmul K y y = a) \/
  (sqrt_ts (f0 K) (f1 K) (fmul K) (feqb K) 2 (fp_of 13 8, f0 (FpOps 13), f0 (FpOps 13)) 274 leg a = SqNone /\
   ~ is_sq (fmul K) a).
Proof. exact ex13_sqrt_ts_fp3. Qed.
Example NumTh_ex_case3mod4_7 : forall a : Z, canon 7 a ->
  (exists y, canon 7 y /\
     sqrt_case3mod4 (f1 (ZpOps 7)) (fmul (ZpOps 7)) (feqb (ZpOps 7)) 2 a = SqSome y /\ fmul (ZpOps 7) y y = a) \/
  (sqrt_case3mod4 (f1 (ZpOps 7)) (fmul (ZpOps 7)) (feqb (ZpOps 7)) 2 a = SqNone /\ ~ is_sq (fmul (ZpOps 7)) a).
Proof. exact ex7_case3mod4. Qed.
Example NumTh_ex_euler_13 : forall x, canon 13 x ->
  (fpow (ZpOps 13) x 6 = 1 <-> (x <> 0 /\ exists r, canon 13 r /\ fmul (ZpOps 13) r r = x)).
Proof. exact ex13_euler. Qed.
Example NumTh_ex_euler_run :
  fpow (ZpOps 13) 10 6 = 1 /\ fmul (ZpOps 13) 6 6 = 10 /\ fpow (ZpOps 13) 2 6 = 12.
Proof. exact ex13_euler_run. Qed.
